import SamplyModel.Proto
import SamplyModel.Iface.C12
/-!
`samply_model model <ID>`  reads case blocks of operations on stdin, prints the model's output blocks.
`samply_model judge <ID>`  reads case blocks `ops… impl out…`, prints `case <n> ok` / `case <n> FAIL <why>`.
Imports model files only (core Lean), so it links as a native executable.
-/
open Proto

def modelFor (id : String) : Option (List String → List String) :=
  match id with
  | "C12" => some C12.model
  | _ => none

def judgeFor (id : String) : Option (List String → List String → Bool × String) :=
  match id with
  | "C12" => some C12.judge
  | _ => none

partial def readAll (h : IO.FS.Stream) (acc : Array String) : IO (Array String) := do
  let line ← h.getLine
  if line.isEmpty then return acc
  readAll h (acc.push line)

def main (args : List String) : IO UInt32 := do
  let stdin ← IO.getStdin
  let out ← IO.getStdout
  match args with
  | ["model", id] =>
    match modelFor id with
    | none => IO.eprintln s!"no model for {id}"; return 2
    | some f =>
      let lines ← readAll stdin #[]
      for c in splitCases lines.toList do
        out.putStrLn s!"case {c.n}"
        for l in f c.lines do out.putStrLn l
        out.putStrLn "end"
      return 0
  | ["judge", id] =>
    match judgeFor id with
    | none => IO.eprintln s!"no judge for {id}"; return 2
    | some f =>
      let lines ← readAll stdin #[]
      for c in splitCases lines.toList do
        let (ops, impl) := splitImpl c.lines
        let (ok, why) := f ops impl
        out.putStrLn (if ok then s!"case {c.n} ok" else s!"case {c.n} FAIL {why}")
      return 0
  | _ =>
    IO.eprintln "usage: samply_model (model|judge) <ID> < cases"
    return 2
