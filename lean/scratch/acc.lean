import SamplyModel.Iface.C03
import SamplyModel.Model.ProfileAccepted
open PT C03 Proto

/-- along the model run: are all ops handle-valid / alloc-first? -/
def acceptedLines (ls : List (List String)) : Bool × Bool :=
  let rec go (p : P) (r : Regs) (ls : List (List String)) (v a : Bool) : Bool × Bool :=
    match ls with
    | [] => (v, a)
    | w :: rest =>
      match toOp r w with
      | none => go p r rest v a
      | some (op, dst) =>
        let (p', out) := step p op
        let r' := match dst, out with
          | some (d, k), .h vals => match wrap k vals with
            | some x => (d, x) :: r
            | none => r
          | some (d, .stack), .noStack => (d, .stack none) :: r
          | _, _ => r
        go p' r' rest (v && handlesValid p op) (a && allocFirst p op)
  go P.init [] ls true true

def main : IO Unit := do
  let txt ← IO.FS.readFile "/tmp/v-C03/.work/C03/ops.txt"
  let cases := splitCases (txt.splitOn "\n")
  let mut n := 0; let mut valid := 0; let mut acc := 0; let mut foreignAnn := 0
  for c in cases do
    let ws := c.lines.map words
    if !checkProgram ws then continue
    n := n + 1
    let (v, a) := acceptedLines ws
    if v then valid := valid + 1
    if v && a then acc := acc + 1
    if c.lines.any (fun l => l.endsWith "foreign=1") then foreignAnn := foreignAnn + 1
    if !v then IO.println s!"not handle-valid: {c.n}"
  IO.println s!"cases {n} handlesValid {valid} accepted {acc} with-foreign-annotation {foreignAnn}"
