import SamplyModel.Lemmas.ProfileOrder
open PT

def ex2 : List Op :=
  [.addProcess 7 5 "a", .addProcess 7 0 "b", .addThread 0 1 0 true, .addThread 0 1 0 false, .addThread 1 2 0 true,
   .string "x", .string "y", .string "x", .category "JS" 8, .subcategory 1 "jit", .addLib "libfoo", .addLib "libfoo",
   .libSyms 0 [⟨0, some 16, "f"⟩], .addMapping 0 0 16 48 0,
   .frameLabel 0 0 none .other 0, .frameLabel 0 1 (some (some 0, some 3, none)) (.sub 1 1) 1,
   .frameAddr 0 (.abs .ip 20) (.catVal "JS" 8) 0, .frameAddr 1 (.rel .ra 0 5) .other 0,
   .nativeSymbol 0 0 ⟨32, none, "x"⟩, .frameSym 0 (.rel .ip 0 33) none (0, 1) none none none 2 (.cat 1) 0,
   .stack 0 (0, 0) none, .stack 0 (0, 1) (some (0, 0)), .stackFrames 0 [(0, 0), (0, 1), (0, 2), (0, 3)],
   .sample 0 (some (0, 1)) false, .sameSample 0, .allocSample 0 (some (0, 1)), .allocSample 1 none,
   .markerType "rt0" 1 [.u, .n, .s], .marker 0 (.runtime 0) 0 [1, 0], .marker 2 (.static 1) 1 [0, 1, 0],
   .markerStack 0 0 (some (0, 3)),
   .counter 1, .visible 2, .selected 1, .setTid 1 1]

example : Accepted ex2 = true := by decide
