import SamplyModel.Lemmas.ProfileOrder
open PT

def ex1 : List Op :=
  [.addProcess 7 5 "a", .addProcess 7 0 "b", .addThread 0 1 0 true, .addThread 0 1 0 false, .addThread 1 2 0 true,
   .string "x", .frameLabel 0 0 none .other 0, .stack 0 (0, 0) none, .stack 0 (0, 0) (some (0, 0)),
   .sample 0 (some (0, 1)) false, .sameSample 0, .allocSample 0 (some (0, 1)), .allocSample 1 none,
   .counter 1, .visible 2, .selected 1, .setTid 1 1]

example : Accepted ex1 = true := by decide
