import SamplyModel.Model.ProfileTables
open PT

theorem alookup_mem {K V : Type} [DecidableEq K] (m : List (K × V)) (k : K) (v : V)
    (h : alookup m k = some v) : (k, v) ∈ m := by
  induction m with
  | nil => simp [alookup] at h
  | cons kv m ih =>
    obtain ⟨k', v'⟩ := kv
    simp only [alookup] at h
    split at h
    · simp_all
    · simp [ih h]

def MapBelow {K : Type} (m : List (K × Nat)) (n : Nat) : Prop := ∀ kv ∈ m, kv.2 < n

def StrInv (t : StringTable) : Prop := MapBelow t.index t.strings.length

theorem test1 (t : StringTable) (s : Str) (h : StrInv t) :
    StrInv (t.indexFor s).1 ∧ (t.indexFor s).2 < (t.indexFor s).1.strings.length ∧
    t.strings.length ≤ (t.indexFor s).1.strings.length := by
  unfold StringTable.indexFor
  split
  · rename_i i hi
    have := h _ (alookup_mem _ _ _ hi)
    simp_all
  · simp [StrInv, MapBelow] at *
    grind

theorem test2 (t : StringTable) (s : Str) (h : StrInv t) :
    StrInv (t.indexFor s).1 ∧ (t.indexFor s).2 < (t.indexFor s).1.strings.length ∧
    t.strings.length ≤ (t.indexFor s).1.strings.length := by
  have := @alookup_mem
  unfold StringTable.indexFor StrInv MapBelow at *
  grind
