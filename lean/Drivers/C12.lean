import SamplyModel.DriverMain
import SamplyModel.Iface.C12
def main (args : List String) : IO UInt32 := driverMain C12.model C12.judge args
