import SamplyModel.DriverMain
import SamplyModel.Iface.ConvJudge
def main (args : List String) : IO UInt32 :=
  driverMain (ConvIface.model .c02) ConvJudge.judgeC02 args
