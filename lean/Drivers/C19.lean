import SamplyModel.DriverMain
import SamplyModel.Iface.C19
def main (args : List String) : IO UInt32 := driverMain C19.model C19.judge args
