import SamplyModel.DriverMain
import SamplyModel.Iface.C09
def main (args : List String) : IO UInt32 := driverMain C09.model C09.judge args
