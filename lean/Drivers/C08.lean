import SamplyModel.DriverMain
import SamplyModel.Iface.C08
def main (args : List String) : IO UInt32 := driverMain C08.model C08.judge args
