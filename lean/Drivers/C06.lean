import SamplyModel.DriverMain
import SamplyModel.Iface.C06
def main (args : List String) : IO UInt32 := driverMain C06.model C06.judge args
