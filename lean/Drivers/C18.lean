import SamplyModel.DriverMain
import SamplyModel.Iface.C18
def main (args : List String) : IO UInt32 := driverMain C18.model C18.judge args
