import SamplyModel.DriverMain
import SamplyModel.Iface.C03
def main (args : List String) : IO UInt32 := driverMain C03.model C03.judge args
