import SamplyModel.DriverMain
import SamplyModel.Iface.C15
def main (args : List String) : IO UInt32 := driverMain C15.model C15.judge args
