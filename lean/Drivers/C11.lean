import SamplyModel.DriverMain
import SamplyModel.Iface.C11
def main (args : List String) : IO UInt32 := driverMain C11.model C11.judge args
