import SamplyModel.DriverMain
import SamplyModel.Iface.C07
def main (args : List String) : IO UInt32 := driverMain C07.model C07.judge args
