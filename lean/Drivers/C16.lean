import SamplyModel.DriverMain
import SamplyModel.Iface.C16
def main (args : List String) : IO UInt32 := driverMain C16.model C16.judge args
