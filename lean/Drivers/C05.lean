import SamplyModel.DriverMain
import SamplyModel.Iface.C05
def main (args : List String) : IO UInt32 := driverMain C05.model C05.judge args
