import SamplyModel.DriverMain
import SamplyModel.Iface.C10
def main (args : List String) : IO UInt32 := driverMain C10.model C10.judge args
