import SamplyModel.DriverMain
import SamplyModel.Iface.C20
def main (args : List String) : IO UInt32 := driverMain C20.model C20.judge args
