import SamplyModel.DriverMain
import SamplyModel.Iface.C13
def main (args : List String) : IO UInt32 := driverMain C13.model C13.judge args
