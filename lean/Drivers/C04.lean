import SamplyModel.DriverMain
import SamplyModel.Iface.C04
def main (args : List String) : IO UInt32 := driverMain C04.model C04.judge args
