import SamplyModel.Model.LibMappings
/-!
Helper lemmas for C11 (and C02): the sorted-list model of `LibMappings` refines the declarative history-level
specification (`liveSpec` / `resolveSpec` / `LiveAt`).

* `Sorted` (keys strictly increasing) is preserved by every operation, without any hypothesis.
* `WF` (pairwise `m.e ≤ n.s`, all ranges non-empty) is preserved under `OpOk`.
* `add_spec`: the key-range eviction of `add_mapping` removes exactly the overlapping mappings.
* `foldl_step_mem`: table contents after a history = declaratively live mappings.
-/
namespace LM

/-! ### Sortedness of the BTreeMap model (no hypotheses) -/

def Sorted (mp : Map) : Prop := mp.Pairwise (fun m n => m.s < n.s)

theorem mem_insert (x : M) (mp : Map) (n : M) (h : n ∈ insert x mp) : n = x ∨ n ∈ mp := by
  induction mp with
  | nil => simp [insert] at h; exact Or.inl h
  | cons m ms ih =>
    simp only [insert] at h
    by_cases h1 : x.s < m.s
    · simp only [h1, if_true, List.mem_cons] at h
      rcases h with h | h | h
      · exact Or.inl h
      · exact Or.inr (by simp [h])
      · exact Or.inr (by simp [h])
    · simp only [h1, if_false] at h
      by_cases h2 : x.s = m.s
      · simp only [h2, if_true, List.mem_cons] at h
        rcases h with h | h
        · exact Or.inl h
        · exact Or.inr (by simp [h])
      · simp only [h2, if_false, List.mem_cons] at h
        rcases h with h | h
        · exact Or.inr (by simp [h])
        · rcases ih h with h | h
          · exact Or.inl h
          · exact Or.inr (by simp [h])

theorem sorted_insert (x : M) (mp : Map) (h : Sorted mp) : Sorted (insert x mp) := by
  induction mp with
  | nil => simp [insert, Sorted]
  | cons m ms ih =>
    have hp := List.pairwise_cons.mp h
    have ih := ih hp.2
    simp only [insert]
    by_cases h1 : x.s < m.s
    · simp only [h1, if_true]
      refine List.pairwise_cons.mpr ⟨?_, h⟩
      intro k hk
      rcases List.mem_cons.mp hk with rfl | hk'
      · exact h1
      · have := hp.1 k hk'; omega
    · simp only [h1, if_false]
      by_cases h2 : x.s = m.s
      · simp only [h2, if_true]
        refine List.pairwise_cons.mpr ⟨?_, hp.2⟩
        intro k hk
        have := hp.1 k hk; omega
      · simp only [h2, if_false]
        refine List.pairwise_cons.mpr ⟨?_, ih⟩
        intro k hk
        rcases mem_insert x ms k hk with rfl | hk'
        · omega
        · exact hp.1 k hk'

theorem sorted_step (t : Table) (op : Op) (h : Sorted t.map) : Sorted (step t op).map := by
  cases op with
  | add x =>
    simp only [step]
    split
    · exact sorted_insert _ _ (List.Pairwise.filter _ h)
    · exact h
  | remove s => exact List.Pairwise.filter _ h
  | clear => exact List.Pairwise.nil

theorem sorted_foldl (ops : List Op) (t : Table) (h : Sorted t.map) : Sorted (ops.foldl step t).map := by
  induction ops generalizing t with
  | nil => simpa
  | cons op ops ih => simp only [List.foldl_cons]; exact ih _ (sorted_step t op h)

/-! ### The stronger invariant under non-empty ranges -/

def WF (mp : Map) : Prop := mp.Pairwise (fun m n => m.e ≤ n.s) ∧ ∀ m ∈ mp, m.s < m.e

theorem WF_nil : WF [] := ⟨List.Pairwise.nil, by simp⟩

theorem WF_tail {m : M} {ms : Map} (h : WF (m :: ms)) : WF ms := by
  obtain ⟨hp, hn⟩ := h
  exact ⟨(List.pairwise_cons.mp hp).2, fun x hx => hn x (List.mem_cons_of_mem _ hx)⟩

theorem WF_sorted {mp : Map} (h : WF mp) : Sorted mp := by
  induction mp with
  | nil => exact List.Pairwise.nil
  | cons m ms ih =>
    have hp := List.pairwise_cons.mp h.1
    refine List.pairwise_cons.mpr ⟨?_, ih (WF_tail h)⟩
    intro k hk
    have := hp.1 k hk
    have := h.2 m List.mem_cons_self
    omega

/-- whatever `lastLE` returns starts at or before the address (no sortedness needed) -/
theorem lastLE_le (mp : Map) (a : Nat) (m : M) (h : lastLE mp a = some m) : m.s ≤ a := by
  induction mp with
  | nil => simp [lastLE] at h
  | cons m0 ms ih =>
    simp only [lastLE] at h
    by_cases h0 : m0.s ≤ a
    · simp only [h0, if_true] at h
      cases hl : lastLE ms a with
      | none => simp only [hl] at h; cases h; exact h0
      | some m' => simp only [hl] at h; cases h; exact ih hl
    · simp [h0] at h

theorem lookupImpl_le (mp : Map) (a : Nat) (m : M) (h : lookupImpl mp a = some m) : m.s ≤ a := by
  unfold lookupImpl at h
  cases hl : lastLE mp a with
  | none => simp [hl] at h
  | some m' =>
    simp only [hl] at h
    by_cases hlt : a < m'.e
    · simp only [hlt, if_true] at h; cases h; exact lastLE_le mp a _ hl
    · simp [hlt] at h

theorem removalStart_le (mp : Map) (s : Nat) : removalStart mp s ≤ s := by
  unfold removalStart
  cases hl : lookupImpl mp s with
  | none => simp
  | some m => simpa using lookupImpl_le mp s m hl

theorem lastLE_spec (mp : Map) (a : Nat) (h : WF mp) :
    match lastLE mp a with
    | none => ∀ m ∈ mp, a < m.s
    | some m => m ∈ mp ∧ m.s ≤ a ∧ ∀ n ∈ mp, n ≠ m → (n.e ≤ m.s ∨ a < n.s) := by
  induction mp with
  | nil => simp [lastLE]
  | cons m0 ms ih =>
    have ih := ih (WF_tail h)
    obtain ⟨hp, hn⟩ := h
    have hp' := List.pairwise_cons.mp hp
    simp only [lastLE]
    by_cases h0 : m0.s ≤ a
    · simp only [h0, if_true]
      cases hl : lastLE ms a with
      | none =>
        simp only [hl] at ih
        refine ⟨List.mem_cons_self, h0, ?_⟩
        intro n hn' hne
        rcases List.mem_cons.mp hn' with rfl | hmem
        · exact absurd rfl hne
        · right; exact ih n hmem
      | some m' =>
        simp only [hl] at ih
        obtain ⟨hm', hle, hrest⟩ := ih
        refine ⟨List.mem_cons_of_mem _ hm', hle, ?_⟩
        intro n hn' hne
        rcases List.mem_cons.mp hn' with rfl | hmem
        · left; exact hp'.1 m' hm'
        · exact hrest n hmem hne
    · simp only [h0, if_false]
      intro n hn'
      rcases List.mem_cons.mp hn' with rfl | hmem
      · omega
      · have := hp'.1 n hmem
        have := hn m0 List.mem_cons_self
        omega

theorem lookup_iff (mp : Map) (a : Nat) (m : M) (h : WF mp) :
    lookupImpl mp a = some m ↔ m ∈ mp ∧ m.s ≤ a ∧ a < m.e := by
  have hs := lastLE_spec mp a h
  cases hl : lastLE mp a with
  | none =>
    simp only [hl] at hs
    simp only [lookupImpl, hl]
    constructor
    · intro h'; cases h'
    · rintro ⟨hm, h1, _⟩; have := hs m hm; omega
  | some m' =>
    simp only [hl] at hs
    obtain ⟨hm', hle, hrest⟩ := hs
    simp only [lookupImpl, hl]
    constructor
    · intro h'
      by_cases hlt : a < m'.e
      · simp [hlt] at h'; subst h'; exact ⟨hm', hle, hlt⟩
      · simp [hlt] at h'
    · rintro ⟨hm, h1, h2⟩
      by_cases hne : m = m'
      · subst hne; simp [h2]
      · rcases hrest m hm hne with h3 | h3 <;> omega

theorem lookup_none_iff (mp : Map) (a : Nat) (h : WF mp) :
    lookupImpl mp a = none ↔ ∀ m ∈ mp, ¬ (m.s ≤ a ∧ a < m.e) := by
  constructor
  · intro hn m hm hc
    have := (lookup_iff mp a m h).mpr ⟨hm, hc.1, hc.2⟩
    rw [hn] at this; cases this
  · intro hall
    cases hl : lookupImpl mp a with
    | none => rfl
    | some m => have := (lookup_iff mp a m h).mp hl; exact absurd ⟨this.2.1, this.2.2⟩ (hall m this.1)

/-- x is "separated" from every element of mp -/
def Sep (x : M) (mp : Map) : Prop := ∀ n ∈ mp, n.e ≤ x.s ∨ x.e ≤ n.s

theorem mem_insert_sep (x : M) (mp : Map) (_hx : x.s < x.e) (h : WF mp) (hs : Sep x mp) (n : M) :
    n ∈ insert x mp ↔ n = x ∨ n ∈ mp := by
  induction mp with
  | nil => simp [insert]
  | cons m ms ih =>
    have hm := hs m List.mem_cons_self
    have hmw := h.2 m List.mem_cons_self
    have ih := ih (WF_tail h) (fun k hk => hs k (List.mem_cons_of_mem _ hk))
    simp only [insert]
    by_cases h1 : x.s < m.s
    · simp [h1]
    · simp only [h1, if_false]
      have h2 : ¬ x.s = m.s := by omega
      simp only [h2, if_false, List.mem_cons, ih]
      constructor
      · rintro (h | h | h) <;> simp [h]
      · rintro (h | h | h) <;> simp [h]

theorem WF_insert_sep (x : M) (mp : Map) (hx : x.s < x.e) (h : WF mp) (hs : Sep x mp) :
    WF (insert x mp) := by
  induction mp with
  | nil => exact ⟨by simp [insert], by simp [insert]; exact hx⟩
  | cons m ms ih =>
    have hm := hs m List.mem_cons_self
    have hmw := h.2 m List.mem_cons_self
    have hsep' : Sep x ms := fun k hk => hs k (List.mem_cons_of_mem _ hk)
    have ih := ih (WF_tail h) hsep'
    have hp := List.pairwise_cons.mp h.1
    simp only [insert]
    by_cases h1 : x.s < m.s
    · simp only [h1, if_true]
      refine ⟨List.pairwise_cons.mpr ⟨?_, h.1⟩, ?_⟩
      · intro k hk
        rcases List.mem_cons.mp hk with rfl | hk'
        · omega
        · have := hp.1 k hk'; omega
      · intro k hk
        rcases List.mem_cons.mp hk with rfl | hk'
        · exact hx
        · exact h.2 k hk'
    · simp only [h1, if_false]
      have h2 : ¬ x.s = m.s := by omega
      simp only [h2, if_false]
      refine ⟨List.pairwise_cons.mpr ⟨?_, ih.1⟩, ?_⟩
      · intro k hk
        rcases (mem_insert_sep x ms hx (WF_tail h) hsep' k).mp hk with rfl | hk'
        · omega
        · exact hp.1 k hk'
      · intro k hk
        rcases List.mem_cons.mp hk with rfl | hk'
        · exact hmw
        · rcases (mem_insert_sep x ms hx (WF_tail h) hsep' k).mp hk' with rfl | hk''
          · exact hx
          · exact h.2 k (List.mem_cons_of_mem _ hk'')

theorem WF_filter (mp : Map) (p : M → Bool) (h : WF mp) : WF (mp.filter p) :=
  ⟨h.1.filter p, fun m hm => h.2 m (List.mem_filter.mp hm).1⟩

/-- pairwise facts as a symmetric statement -/
theorem WF_disjoint {mp : Map} (h : WF mp) {m n : M} (hm : m ∈ mp) (hn : n ∈ mp) (hne : m ≠ n) :
    m.e ≤ n.s ∨ n.e ≤ m.s := by
  induction mp with
  | nil => cases hm
  | cons k ks ih =>
    have hp := List.pairwise_cons.mp h.1
    rcases List.mem_cons.mp hm with rfl | hm' <;> rcases List.mem_cons.mp hn with rfl | hn'
    · exact absurd rfl hne
    · left; exact hp.1 n hn'
    · right; exact hp.1 m hm'
    · exact ih (WF_tail h) hm' hn'

/-- the key-range removal of `add_mapping` removes exactly the overlapping mappings -/
theorem removal_iff_overlap (mp : Map) (x : M) (_hx : x.s < x.e) (h : WF mp) (n : M) (hn : n ∈ mp) :
    (removalStart mp x.s ≤ n.s && n.s < x.e) = overlaps n x.s x.e := by
  have hnw := h.2 n hn
  unfold removalStart
  cases hl : lookupImpl mp x.s with
  | none =>
    have := (lookup_none_iff mp x.s h).mp hl n hn
    simp only [overlaps]
    by_cases h1 : x.s ≤ n.s <;> by_cases h2 : n.s < x.e <;> by_cases h3 : x.s < n.e <;>
      simp [h1, h2, h3] <;> omega
  | some m =>
    obtain ⟨hm, hm1, hm2⟩ := (lookup_iff mp x.s m h).mp hl
    have hmw := h.2 m hm
    simp only [overlaps]
    by_cases hnm : n = m
    · subst hnm
      by_cases h2 : n.s < x.e <;> by_cases h3 : x.s < n.e <;> simp [h2, h3] <;> omega
    · have hd := WF_disjoint h hn hm hnm
      by_cases h1 : m.s ≤ n.s <;> by_cases h2 : n.s < x.e <;> by_cases h3 : x.s < n.e <;>
        simp [h1, h2, h3] <;> omega

theorem add_spec (mp : Map) (x : M) (hx : x.s < x.e) (h : WF mp) :
    WF (add mp x) ∧ ∀ n, n ∈ add mp x ↔ n = x ∨ (n ∈ mp ∧ overlaps n x.s x.e = false) := by
  unfold add
  generalize hlo : removalStart mp x.s = lo
  have hrem : ∀ n ∈ mp, (lo ≤ n.s && n.s < x.e) = overlaps n x.s x.e := by
    intro n hn; have := removal_iff_overlap mp x hx h n hn; rw [hlo] at this; exact this
  have hwf : WF (removeRange lo x.e mp) := WF_filter _ _ h
  have hsep : Sep x (removeRange lo x.e mp) := by
    intro n hn
    obtain ⟨hn1, hn2⟩ := List.mem_filter.mp hn
    have := hrem n hn1
    have hnw := h.2 n hn1
    simp only [overlaps] at this
    rw [this] at hn2
    simp at hn2
    omega
  refine ⟨WF_insert_sep x _ hx hwf hsep, ?_⟩
  intro n
  rw [mem_insert_sep x _ hx hwf hsep]
  constructor
  · rintro (h1 | h1)
    · exact Or.inl h1
    · obtain ⟨hn1, hn2⟩ := List.mem_filter.mp h1
      right; refine ⟨hn1, ?_⟩
      rw [hrem n hn1] at hn2; simpa using hn2
  · rintro (h1 | ⟨h1, h2⟩)
    · exact Or.inl h1
    · right; exact List.mem_filter.mpr ⟨h1, by rw [hrem n h1, h2]; rfl⟩

theorem addSafe_of_ok (t : Table) (x : M) (hx : x.s < x.e) : addSafe t x = true := by
  have := removalStart_le t.map x.s
  simp only [addSafe, Bool.or_eq_true, decide_eq_true_eq]; right; omega

/-- one step: invariant kept, contents = (the added mapping) ∪ (the survivors) -/
theorem step_spec (t : Table) (op : Op) (hw : WF t.map) (hok : OpOk op) :
    WF (step t op).map ∧ ∀ n, n ∈ (step t op).map ↔ op = Op.add n ∨ (n ∈ t.map ∧ killedBy n op = false) := by
  cases op with
  | add x =>
    have hx : x.s < x.e := hok
    obtain ⟨h1, h2⟩ := add_spec t.map x hx hw
    simp only [step, addSafe_of_ok t x hx, if_true]
    refine ⟨h1, fun n => ?_⟩
    rw [h2 n]
    simp only [killedBy, Op.add.injEq]
    constructor
    · rintro (h | h)
      · exact Or.inl h.symm
      · exact Or.inr h
    · rintro (h | h)
      · exact Or.inl h.symm
      · exact Or.inr h
  | remove s =>
    refine ⟨WF_filter _ _ hw, fun n => ?_⟩
    simp [step, removeKey, killedBy, List.mem_filter]
  | clear =>
    refine ⟨WF_nil, fun n => ?_⟩
    simp [step, killedBy, Table.empty]

/-! ### Declarative liveness -/

theorem liveAfter_cons (m : M) (o : Op) (os : List Op) :
    liveAfter m (o :: os) = (!killedBy m o && liveAfter m os) := by
  simp [liveAfter]

theorem liveAfter_iff (m : M) (os : List Op) :
    liveAfter m os = true ↔ ∀ o ∈ os, killedBy m o = false := by
  simp [liveAfter]

/-- table contents after running `ops` from `mp0` = survivors of `mp0` ∪ live mappings of `ops` -/
theorem foldl_step_spec (ops : List Op) (t0 : Table) (hw : WF t0.map) (hok : ∀ op ∈ ops, OpOk op) :
    WF (ops.foldl step t0).map ∧
    ∀ m, m ∈ (ops.foldl step t0).map ↔ (m ∈ t0.map ∧ liveAfter m ops = true) ∨ m ∈ liveSpec ops := by
  induction ops generalizing t0 with
  | nil => exact ⟨hw, fun m => by simp [liveAfter, liveSpec]⟩
  | cons op ops ih =>
    obtain ⟨hw1, hm1⟩ := step_spec t0 op hw (hok op List.mem_cons_self)
    obtain ⟨hw2, hm2⟩ := ih (step t0 op) hw1 (fun o ho => hok o (List.mem_cons_of_mem _ ho))
    refine ⟨by simpa using hw2, fun m => ?_⟩
    simp only [List.foldl_cons]
    rw [hm2 m, hm1 m, liveAfter_cons]
    cases op with
    | add x =>
      simp only [liveSpec, Op.add.injEq]
      by_cases hl : liveAfter x ops = true
      · simp only [hl, if_true, List.mem_cons]
        constructor
        · rintro (⟨h | ⟨h1, h2⟩, h3⟩ | h)
          · subst h; exact Or.inr (Or.inl rfl)
          · exact Or.inl ⟨h1, by simp [h2, h3]⟩
          · exact Or.inr (Or.inr h)
        · rintro (⟨h1, h2⟩ | h | h)
          · simp only [Bool.and_eq_true, Bool.not_eq_true'] at h2
            exact Or.inl ⟨Or.inr ⟨h1, h2.1⟩, h2.2⟩
          · subst h; exact Or.inl ⟨Or.inl rfl, hl⟩
          · exact Or.inr h
      · simp only [hl]
        constructor
        · rintro (⟨h | ⟨h1, h2⟩, h3⟩ | h)
          · subst h; exact absurd h3 hl
          · exact Or.inl ⟨h1, by simp [h2, h3]⟩
          · exact Or.inr h
        · rintro (⟨h1, h2⟩ | h)
          · simp only [Bool.and_eq_true, Bool.not_eq_true'] at h2
            exact Or.inl ⟨Or.inr ⟨h1, h2.1⟩, h2.2⟩
          · exact Or.inr h
    | remove s =>
      simp only [liveSpec, reduceCtorEq, false_or]
      constructor
      · rintro (⟨⟨h1, h2⟩, h3⟩ | h)
        · exact Or.inl ⟨h1, by simp [h2, h3]⟩
        · exact Or.inr h
      · rintro (⟨h1, h2⟩ | h)
        · simp only [Bool.and_eq_true, Bool.not_eq_true'] at h2
          exact Or.inl ⟨⟨h1, h2.1⟩, h2.2⟩
        · exact Or.inr h
    | clear =>
      simp only [liveSpec, reduceCtorEq, false_or]
      constructor
      · rintro (⟨⟨h1, h2⟩, h3⟩ | h)
        · exact Or.inl ⟨h1, by simp [h2, h3]⟩
        · exact Or.inr h
      · rintro (⟨h1, h2⟩ | h)
        · simp only [Bool.and_eq_true, Bool.not_eq_true'] at h2
          exact Or.inl ⟨⟨h1, h2.1⟩, h2.2⟩
        · exact Or.inr h

theorem run_spec (ops : List Op) (hok : ∀ op ∈ ops, OpOk op) :
    WF (run ops).map ∧ ∀ m, m ∈ (run ops).map ↔ m ∈ liveSpec ops := by
  obtain ⟨h1, h2⟩ := foldl_step_spec ops Table.empty WF_nil hok
  exact ⟨h1, fun m => by rw [run, h2 m]; simp [Table.empty]⟩

/-- `liveSpec` in words: added at some position, nothing later kills it -/
theorem mem_liveSpec_iff (ops : List Op) (m : M) :
    m ∈ liveSpec ops ↔ ∃ pre post, LiveAt ops pre post m := by
  induction ops with
  | nil => simp [liveSpec, LiveAt]
  | cons op ops ih =>
    constructor
    · intro h
      have hrest : m ∈ liveSpec ops → ∃ pre post, LiveAt (op :: ops) pre post m := by
        intro h'
        obtain ⟨pre, post, h1, h2⟩ := ih.mp h'
        exact ⟨op :: pre, post, by simp [h1], h2⟩
      cases op with
      | add x =>
        simp only [liveSpec] at h
        by_cases hl : liveAfter x ops = true
        · simp only [hl, if_true, List.mem_cons] at h
          rcases h with rfl | h
          · exact ⟨[], ops, by simp, (liveAfter_iff _ _).mp hl⟩
          · exact hrest h
        · simp only [hl] at h; exact hrest h
      | remove s => exact hrest (by simpa [liveSpec] using h)
      | clear => exact hrest (by simpa [liveSpec] using h)
    · rintro ⟨pre, post, h1, h2⟩
      cases pre with
      | nil =>
        simp only [List.nil_append, List.cons.injEq] at h1
        obtain ⟨rfl, rfl⟩ := h1
        simp [liveSpec, (liveAfter_iff m ops).mpr h2]
      | cons p pre' =>
        simp only [List.cons_append, List.cons.injEq] at h1
        obtain ⟨rfl, h1⟩ := h1
        have : m ∈ liveSpec ops := ih.mpr ⟨pre', post, h1, h2⟩
        cases op with
        | add x =>
          simp only [liveSpec]
          split
          · exact List.mem_cons_of_mem _ this
          · exact this
        | remove s => simpa [liveSpec] using this
        | clear => simpa [liveSpec] using this

/-! ### `resolveSpec` -/

theorem resolveSpec_some (ops : List Op) (a : Nat) (m : M) (h : resolveSpec ops a = some m) :
    ∃ pre post, LiveAt ops pre post m ∧ covers m a = true ∧ resolveSpec post a = none := by
  induction ops with
  | nil => simp [resolveSpec] at h
  | cons op ops ih =>
    have hrest : resolveSpec ops a = some m →
        ∃ pre post, LiveAt (op :: ops) pre post m ∧ covers m a = true ∧ resolveSpec post a = none := by
      intro h'
      obtain ⟨pre, post, ⟨h1, h2⟩, h3, h4⟩ := ih h'
      exact ⟨op :: pre, post, ⟨by simp [h1], h2⟩, h3, h4⟩
    cases op with
    | add x =>
      simp only [resolveSpec] at h
      cases hr : resolveSpec ops a with
      | some m' => simp only [hr] at h; cases h; exact hrest hr
      | none =>
        simp only [hr] at h
        by_cases hc : (covers x a && liveAfter x ops) = true
        · simp only [hc, if_true, Option.some.injEq] at h
          subst h
          simp only [Bool.and_eq_true] at hc
          exact ⟨[], ops, ⟨by simp, (liveAfter_iff _ _).mp hc.2⟩, hc.1, hr⟩
        · simp [hc] at h
    | remove s => exact hrest (by simpa [resolveSpec] using h)
    | clear => exact hrest (by simpa [resolveSpec] using h)

theorem resolveSpec_none (ops : List Op) (a : Nat) (h : resolveSpec ops a = none)
    (pre post : List Op) (n : M) (hl : LiveAt ops pre post n) : covers n a = false := by
  induction ops generalizing pre with
  | nil => obtain ⟨h1, _⟩ := hl; simp at h1
  | cons op ops ih =>
    obtain ⟨h1, h2⟩ := hl
    cases pre with
    | nil =>
      simp only [List.nil_append, List.cons.injEq] at h1
      obtain ⟨rfl, rfl⟩ := h1
      simp only [resolveSpec] at h
      cases hr : resolveSpec ops a with
      | some m' => simp [hr] at h
      | none =>
        simp only [hr] at h
        have hlive := (liveAfter_iff n ops).mpr h2
        cases hc : covers n a with
        | false => rfl
        | true => simp [hc, hlive] at h
    | cons p pre' =>
      simp only [List.cons_append, List.cons.injEq] at h1
      obtain ⟨rfl, h1⟩ := h1
      have hr : resolveSpec ops a = none := by
        cases op with
        | add x =>
          simp only [resolveSpec] at h
          cases hr : resolveSpec ops a with
          | some m' => simp [hr] at h
          | none => rfl
        | remove s => simpa [resolveSpec] using h
        | clear => simpa [resolveSpec] using h
      exact ih hr pre' ⟨h1, h2⟩

/-- two decompositions of the same list around one element each: the later one sits in the other's suffix -/
theorem split_later {α : Type} (pre post pre' post' : List α) (x y : α)
    (h : pre ++ x :: post = pre' ++ y :: post') (hlt : pre.length < pre'.length) :
    ∃ mid, post = mid ++ y :: post' := by
  induction pre generalizing pre' with
  | nil =>
    cases pre' with
    | nil => simp at hlt
    | cons p ps =>
      simp only [List.nil_append, List.cons_append, List.cons.injEq] at h
      exact ⟨ps, h.2⟩
  | cons q qs ih =>
    cases pre' with
    | nil => simp at hlt
    | cons p ps =>
      simp only [List.cons_append, List.cons.injEq] at h
      exact ih ps h.2 (by simpa using hlt)

/-- suffix of a live decomposition: still live in the suffix's own history -/
theorem resolveSpec_newest (ops : List Op) (a : Nat) (m : M) (h : resolveSpec ops a = some m) :
    ∃ pre post, LiveAt ops pre post m ∧ covers m a = true ∧
      ∀ pre' post' n, LiveAt ops pre' post' n → covers n a = true → pre'.length ≤ pre.length := by
  obtain ⟨pre, post, hl, hc, hnone⟩ := resolveSpec_some ops a m h
  refine ⟨pre, post, hl, hc, ?_⟩
  intro pre' post' n hl' hc'
  apply Classical.byContradiction
  intro hgt
  have hgt : pre.length < pre'.length := by omega
  obtain ⟨mid, hmid⟩ := split_later pre post pre' post' (Op.add m) (Op.add n) (hl.1.symm.trans hl'.1) hgt
  have := resolveSpec_none post a hnone mid post' n ⟨hmid, hl'.2⟩
  rw [hc'] at this; cases this

/-! ### Profile level -/

theorem kernelOps_append (a b : List POp) : kernelOps (a ++ b) = kernelOps a ++ kernelOps b := by
  induction a with
  | nil => rfl
  | cons o r ih => cases o <;> simp [kernelOps, ih]

theorem procOps_append (p : Nat) (a b : List POp) : procOps p (a ++ b) = procOps p a ++ procOps p b := by
  induction a with
  | nil => rfl
  | cons o r ih =>
    cases o <;> simp only [procOps, List.cons_append, ih] <;> split <;> simp

theorem pfoldl_kernel (ops : List POp) (st : PState) :
    (ops.foldl pstep st).kernel = (kernelOps ops).foldl step st.kernel := by
  induction ops generalizing st with
  | nil => rfl
  | cons o r ih =>
    simp only [List.foldl_cons]
    rw [ih]
    cases o <;> simp [pstep, kernelOps, PState.setProc]

theorem pfoldl_proc (p : Nat) (ops : List POp) (st : PState) :
    (ops.foldl pstep st).procs p = (procOps p ops).foldl step (st.procs p) := by
  induction ops generalizing st with
  | nil => rfl
  | cons o r ih =>
    simp only [List.foldl_cons]
    rw [ih]
    cases o with
    | kadd x => simp [pstep, procOps]
    | kremove s => simp [pstep, procOps]
    | frame q fa => simp [pstep, procOps]
    | padd q x =>
      by_cases hq : q = p
      · subst hq; simp [pstep, procOps, PState.setProc]
      · have : ¬ p = q := fun h => hq h.symm
        simp [pstep, procOps, PState.setProc, hq, this]
    | premove q s =>
      by_cases hq : q = p
      · subst hq; simp [pstep, procOps, PState.setProc]
      · have : ¬ p = q := fun h => hq h.symm
        simp [pstep, procOps, PState.setProc, hq, this]
    | pclear q =>
      by_cases hq : q = p
      · subst hq; simp [pstep, procOps, PState.setProc]
      · have : ¬ p = q := fun h => hq h.symm
        simp [pstep, procOps, PState.setProc, hq, this]

theorem prun_kernel (ops : List POp) : (prun ops).kernel = run (kernelOps ops) := by
  simp [prun, run, pfoldl_kernel, PState.init]

theorem prun_proc (p : Nat) (ops : List POp) : (prun ops).procs p = run (procOps p ops) := by
  simp [prun, run, pfoldl_proc, PState.init]

/-! ### Lookups against the history-level specification -/

theorem resolveSpec_mem (ops : List Op) (a : Nat) (m : M) (h : resolveSpec ops a = some m) :
    m ∈ liveSpec ops ∧ covers m a = true := by
  obtain ⟨pre, post, hl, hc, _⟩ := resolveSpec_some ops a m h
  exact ⟨(mem_liveSpec_iff ops m).mpr ⟨pre, post, hl⟩, hc⟩

/-- concrete lookup = declarative resolution, for every history of non-empty ranges and every address -/
theorem lookup_run (ops : List Op) (hok : ∀ op ∈ ops, OpOk op) (a : Nat) :
    lookupImpl (run ops).map a = resolveSpec ops a := by
  obtain ⟨hw, hm⟩ := run_spec ops hok
  cases hr : resolveSpec ops a with
  | none =>
    rw [lookup_none_iff _ _ hw]
    intro m hmem hc
    obtain ⟨pre, post, hl⟩ := (mem_liveSpec_iff ops m).mp ((hm m).mp hmem)
    have := resolveSpec_none ops a hr pre post m hl
    simp [covers, hc.1, hc.2] at this
  | some m =>
    obtain ⟨h1, h2⟩ := resolveSpec_mem ops a m hr
    simp only [covers, Bool.and_eq_true, decide_eq_true_eq] at h2
    exact (lookup_iff _ a m hw).mpr ⟨(hm m).mpr h1, h2.1, h2.2⟩

theorem liveAt_mem {ops pre post : List Op} {m : M} (h : LiveAt ops pre post m) : Op.add m ∈ ops := by
  rw [h.1]; simp

/-- `convert_address` on the pointwise guard: exact relative address -/
theorem convert_of_lookup (mp : Map) (a : Nat) (m : M) (hl : lookupImpl mp a = some m)
    (hfit : m.rel + (a - m.s) < u32Lim) : convertAddress mp a = .ok (relSpec m a) m.v := by
  have hle := lookupImpl_le mp a m hl
  have hlt : a - m.s < u32Lim := by omega
  have hnot : ¬ a < m.s := by omega
  simp only [convertAddress, hl, hnot, if_false, Nat.mod_eq_of_lt hlt, hfit, if_true, relSpec]

theorem convert_run (ops : List Op) (hok : ∀ op ∈ ops, OpOk op) (hfit : ∀ op ∈ ops, Fits32 op) (a : Nat) :
    convertAddress (run ops).map a =
      match resolveSpec ops a with
      | none => Conv.none
      | some m => Conv.ok (relSpec m a) m.v := by
  have hl := lookup_run ops hok a
  cases hr : resolveSpec ops a with
  | none => rw [hr] at hl; simp [convertAddress, hl]
  | some m =>
    rw [hr] at hl
    obtain ⟨pre, post, hlive, hc, _⟩ := resolveSpec_some ops a m hr
    have hf : m.rel + (m.e - m.s) ≤ u32Lim := hfit _ (liveAt_mem hlive)
    simp only [covers, Bool.and_eq_true, decide_eq_true_eq] at hc
    exact convert_of_lookup _ a m hl (by omega)

theorem kernelOps_ok (ops : List POp) (h : ∀ op ∈ ops, POpOk op) :
    ∀ o ∈ kernelOps ops, OpOk o ∧ Fits32 o := by
  induction ops with
  | nil => simp [kernelOps]
  | cons op r ih =>
    have ih := ih (fun o ho => h o (List.mem_cons_of_mem _ ho))
    have h0 := h op List.mem_cons_self
    cases op with
    | kadd x =>
      intro o ho
      simp only [kernelOps, List.mem_cons] at ho
      rcases ho with rfl | ho
      · exact h0
      · exact ih o ho
    | kremove s =>
      intro o ho
      simp only [kernelOps, List.mem_cons] at ho
      rcases ho with rfl | ho
      · exact ⟨trivial, trivial⟩
      · exact ih o ho
    | padd q x => simpa [kernelOps] using ih
    | premove q s => simpa [kernelOps] using ih
    | pclear q => simpa [kernelOps] using ih
    | frame q fa => simpa [kernelOps] using ih

theorem procOps_ok (p : Nat) (ops : List POp) (h : ∀ op ∈ ops, POpOk op) :
    ∀ o ∈ procOps p ops, OpOk o ∧ Fits32 o := by
  induction ops with
  | nil => simp [procOps]
  | cons op r ih =>
    have ih := ih (fun o ho => h o (List.mem_cons_of_mem _ ho))
    have h0 := h op List.mem_cons_self
    cases op with
    | kadd x => simpa [procOps] using ih
    | kremove s => simpa [procOps] using ih
    | frame q fa => simpa [procOps] using ih
    | padd q x =>
      intro o ho
      simp only [procOps] at ho
      split at ho
      · rcases List.mem_cons.mp ho with rfl | ho
        · exact h0
        · exact ih o ho
      · exact ih o ho
    | premove q s =>
      intro o ho
      simp only [procOps] at ho
      split at ho
      · rcases List.mem_cons.mp ho with rfl | ho
        · exact ⟨trivial, trivial⟩
        · exact ih o ho
      · exact ih o ho
    | pclear q =>
      intro o ho
      simp only [procOps] at ho
      split at ho
      · rcases List.mem_cons.mp ho with rfl | ho
        · exact ⟨trivial, trivial⟩
        · exact ih o ho
      · exact ih o ho

end LM
