import SamplyModel.Lemmas.ConvHist
/-!
The induction behind `C02_history`: along a record history (default options, grammar respected, no context-switch
records, no special-path MMAP2 records) the converter state is tied to the specification's tables
(`annStep`: per-pid announcements, `accStep`: dedup table, `Life`: incarnations), and the samples that the final
flush will emit — each buffered sample attributed with the *final* queue of its process incarnation — are, together
with what the specification still expects from the rest of the history, a constant multiset.
-/
namespace Conv
open ConvSpec

/-! ### thread-level facts -/

theorem tl_eq_thr (s : St) (a b : Nat) : tl s a b = ((pobs s.procs a).thr b).1 := by
  unfold tl tlP pobs
  cases alGet s.procs a with
  | none => rfl
  | some p =>
    show lastOf p b = (tq p b).1
    unfold lastOf tq
    cases thrOf p b <;> rfl

theorem wake_plain (s : St) (th : ThreadC) (e : CS.Ev) (pid tid : Nat) (h : th.offStack = none) :
    wake s th e pid tid =
      ({ th with cs := (CS.step s.cfg.interval th.cs e).1, offStack := none }, [], CS.stepSafe s.cfg.interval th.cs e) := by
  unfold wake
  simp only [h]
  cases (CS.step s.cfg.interval th.cs e).2.1 <;> rfl

/-- without a stored off-CPU stack the sample path emits exactly the recorded sample -/
theorem sampleThread_plain (s : St) (th : ThreadC) (pid tid t period : Nat) (stack : List SFrame)
    (h : th.offStack = none) :
    ∃ u, (sampleThread s th pid tid t period stack).2.1 = [u] ∧ u.synth = false ∧ u.t = t - s.cfg.ref ∧
      u.tmono = t ∧ u.stack = stack ∧ u.gpid = pid ∧ u.gtid = tid ∧
      (sampleThread s th pid tid t period stack).1.offStack = none ∧
      (sampleThread s th pid tid t period stack).1.lastTs = some t := by
  unfold sampleThread
  simp only [wake_plain s { th with lastTs := some t } (.sample t) pid tid h]
  refine ⟨_, rfl, rfl, rfl, rfl, rfl, rfl, rfl, ?_, ?_⟩
  · split <;> rfl
  · split <;> rfl

theorem accStep_fst (l : Last) (acc : List Acc) (r : Rec) : (accStep (l, acc) r).1 = (accStep (l, []) r).1 := by
  cases r with
  | sample pid tid t km pe ip chain =>
    simp only [accStep]
    split
    · rfl
    · split <;> rfl
  | exit pid tid t => simp only [accStep]; split <;> rfl
  | comm pid tid nm ex t =>
    cases ex
    · rfl
    · simp only [accStep]; split <;> rfl
  | fork => rfl
  | mmap2 => rfl
  | switchIn => rfl
  | switchOut => rfl
  | sched => rfl
  | otherEvent => rfl

/-! ### what the final flush will say about the buffered samples -/

/-- the output expected for a buffered sample when `q` is the queue its buffer is flushed with -/
def uExp (cfg : Config) (q : Announced) (pid : Nat) (u : USample) : Nat × Nat × Nat × List Frame :=
  (u.gpid, u.gtid, u.t,
    depthLimit depthN (expandJs (u.stack.reverse.map (expectInfo q u.tmono (pmCands cfg pid)))) u.stack.length)

def specBuf (cfg : Config) (b : List USample × Announced × Nat) : List (Nat × Nat × Nat × List Frame) :=
  (b.1.filter (fun u => !u.synth)).map (uExp cfg b.2.1 b.2.2)

/-- the contribution of the live buffer of `k`: its queue will still receive the mappings the rest of the history
announces for `k` before the incarnation ends -/
def Fp (cfg : Config) (post : List Rec) (k : Nat) (o : PObs) : List (Nat × Nat × Nat × List Frame) :=
  specBuf cfg (o.samples, o.mapq ++ laterAnn false cfg k none post, k)

def Phi (cfg : Config) (s : St) (post : List Rec) : List (Nat × Nat × Nat × List Frame) :=
  s.parked.flatMap (specBuf cfg) ++ s.procs.flatMap (FF (Fp cfg post))

theorem Fp_nil_samples (cfg : Config) (post : List Rec) (k : Nat) {o : PObs} (h : o.samples = []) :
    Fp cfg post k o = [] := by
  unfold Fp specBuf; simp [h]

theorem Fp_empty (cfg : Config) (post : List Rec) (k : Nat) : Fp cfg post k PObs.empty = [] :=
  Fp_nil_samples cfg post k rfl

theorem Fp_congr (cfg : Config) {post post' : List Rec} {k : Nat} {o o' : PObs} (h1 : o'.samples = o.samples)
    (h2 : o'.mapq ++ laterAnn false cfg k none post' = o.mapq ++ laterAnn false cfg k none post) :
    Fp cfg post' k o' = Fp cfg post k o := by
  unfold Fp; rw [h1, h2]

theorem Phi_perm_of_obs (cfg : Config) {s s' : St} {post post' : List Rec} (hn : NodupKeys s.procs)
    (hn' : NodupKeys s'.procs) (hp : s'.parked = s.parked)
    (h : ∀ a, Fp cfg post' a (pobs s'.procs a) = Fp cfg post a (pobs s.procs a)) :
    List.Perm (Phi cfg s' post') (Phi cfg s post) := by
  unfold Phi
  rw [hp]
  exact List.Perm.append_left _
    (flatMap_perm_of_obs (Fp cfg post) (Fp cfg post') (Fp_empty cfg post) (Fp_empty cfg post') hn hn' h)

/-! ### the invariant -/

structure HInv (cfg : Config) (s : St) (st : List (Nat × Announced)) (last : Last) (l : Life.S) : Prop where
  sim : ∃ acc, Sim cfg s (last, acc)
  life : LifeL.Sim s l
  q : ∀ pid, (pobs s.procs pid).mapq = (alGet st pid).getD []
  noff : ∀ pid tid, ((pobs s.procs pid).thr tid).2.2 = none

theorem HInv.inv {cfg s st last l} (h : HInv cfg s st last l) : InvA s := by
  obtain ⟨_, hs⟩ := h.sim; exact hs.inv

theorem HInv.cfg_eq {cfg s st last l} (h : HInv cfg s st last l) : s.cfg = cfg := by
  obtain ⟨_, hs⟩ := h.sim; exact hs.hcfg

theorem HInv.reuse {cfg s st last l} (h : HInv cfg s st last l) : s.cfg.reuse = false := h.life.tab.reuse

theorem HInv.htl {cfg s st last l} (h : HInv cfg s st last l) (a b : Nat) :
    ((pobs s.procs a).thr b).1 = lastGet last a b := by
  obtain ⟨_, hs⟩ := h.sim
  rw [← tl_eq_thr]; exact hs.htl a b

/-- the record is inside the quantifier of `C02_history` -/
def recOk (r : Rec) : Prop :=
  (match r with
    | .mmap2 _ _ _ _ _ true path _ => specialPath path = false
    | .switchIn .. => False
    | .switchOut .. => False
    | .sched .. => False
    | _ => True)

theorem HInv.next_sim {cfg s st last l} (h : HInv cfg s st last l) (r : Rec) :
    ∃ acc, Sim cfg (step s r) ((accStep (last, []) r).1, acc) := by
  obtain ⟨acc, hs⟩ := h.sim
  refine ⟨(accStep (last, acc) r).2, ?_⟩
  have := step_sim hs r
  rw [← accStep_fst last acc r]
  exact this

theorem getD_alPut {β} (l : List (Nat × β)) (k a : Nat) (v d : β) :
    (alGet (alPut l k v) a).getD d = if a = k then v else (alGet l a).getD d := by
  rw [alGet_alPut]; split <;> rfl

theorem getD_alDel {β} (l : List (Nat × β)) (k a : Nat) (d : β) :
    (alGet (alDel l k) a).getD d = if a = k then d else (alGet l a).getD d := by
  rw [alGet_alDel]; split <;> rfl

/-! ### SAMPLE -/

theorem obs_sample {s : St} (hinv : InvA s) (pid tid t : Nat) (km : Bool) (period ip : Nat) (chain : List Nat)
    (h0 : tid ≠ 0) (hoff : ((pobs s.procs pid).thr tid).2.2 = none) :
    (step s (.sample pid tid t km period ip chain)).parked = s.parked ∧
    (step s (.sample pid tid t km period ip chain)).cfg = s.cfg ∧
    (if ((pobs s.procs pid).thr tid).1 = some t then
      ∀ a, pobs (step s (.sample pid tid t km period ip chain)).procs a = pobs s.procs a
    else
      ∃ (u : USample) (q' : TQ), u.synth = false ∧ u.t = t - s.cfg.ref ∧ u.tmono = t ∧
        u.stack = sampleStack s.cfg km ip chain ∧ u.gpid = pid ∧ u.gtid = tid ∧ q'.1 = some t ∧ q'.2.2 = none ∧
        ∀ a, pobs (step s (.sample pid tid t km period ip chain)).procs a =
          upd (pobs s.procs) pid
            { (pobs s.procs pid).setThr tid q' with samples := (pobs s.procs pid).samples ++ [u] } a) := by
  rw [LifeL.step_sample, if_neg h0]
  have hinv0 : InvA { s with cur := t } := ((skel_cur s t).goodT hinv).inv
  obtain ⟨c1, c2, c3, c4, c5, c6, _⟩ := obs_commit hinv0 pid tid
    (fun s2 th => sampleThread s2 th pid tid t period (sampleStack s2.cfg km ip chain))
  simp only []
  generalize getThread (getByPid { s with cur := t } pid).1 (getByPid { s with cur := t } pid).2 tid = gt at *
  have c2' : tqOf gt.2.2 = (pobs s.procs pid).thr tid := c2
  have hl : gt.2.2.lastTs = ((pobs s.procs pid).thr tid).1 := by rw [← c2']; rfl
  have ho : gt.2.2.offStack = none := by
    have : (tqOf gt.2.2).2.2 = none := by rw [c2']; exact hoff
    exact this
  rw [hl]
  by_cases hd : ((pobs s.procs pid).thr tid).1 = some t
  · simp only [hd, if_true]
    exact ⟨c3.parked, c3.cfg, c3.obs⟩
  · simp only [hd, if_false]
    refine ⟨c5, c6, ?_⟩
    obtain ⟨u, e1, e2, e3, e4, e5, e6, e7, e8, e9⟩ :=
      sampleThread_plain gt.1 gt.2.2 pid tid t period (sampleStack gt.1.cfg km ip chain) ho
    have hc : gt.1.cfg = s.cfg := c1
    refine ⟨u, tqOf (sampleThread gt.1 gt.2.2 pid tid t period (sampleStack gt.1.cfg km ip chain)).1,
      e2, by rw [e3, hc], e4, by rw [e5, hc], e6, e7, e9, e8, ?_⟩
    intro a
    have := c4 a
    simp only [e1] at this
    exact this

theorem setThr_self (o : PObs) (tid : Nat) : o.setThr tid (o.thr tid) = o := by
  refine PObs.ext' rfl rfl (fun b => ?_)
  simp only [PObs.setThr]
  split
  · next e => rw [e]
  · rfl

/-- a sample of another event: one marker item (not a recorded sample) is appended to the buffer of `pid`;
queue, thread triples, parked buffers, configuration and the panic flag are unchanged -/
theorem obs_otherEvent {s : St} (hinv : InvA s) (pid tid t : Nat) (km : Bool) (ip : Nat) (chain : List Nat) :
    (step s (.otherEvent pid tid t km ip chain)).parked = s.parked ∧
    (step s (.otherEvent pid tid t km ip chain)).cfg = s.cfg ∧
    (step s (.otherEvent pid tid t km ip chain)).bad = s.bad ∧
    ∃ u : USample, u.synth = true ∧ u.marker = true ∧ u.t = t - s.cfg.ref ∧ u.tmono = t ∧
      u.stack = sampleStack s.cfg km ip chain ∧ u.gpid = pid ∧ u.gtid = tid ∧
      ∀ a, pobs (step s (.otherEvent pid tid t km ip chain)).procs a =
        upd (pobs s.procs) pid { pobs s.procs pid with samples := (pobs s.procs pid).samples ++ [u] } a := by
  have e : step s (.otherEvent pid tid t km ip chain) =
      commitThread (getThread (getByPid s pid).1 (getByPid s pid).2 tid).1
        (getThread (getByPid s pid).1 (getByPid s pid).2 tid).2.1 tid
        (otherEventThread (getThread (getByPid s pid).1 (getByPid s pid).2 tid).1
          (getThread (getByPid s pid).1 (getByPid s pid).2 tid).2.2 pid tid t
          (sampleStack (getThread (getByPid s pid).1 (getByPid s pid).2 tid).1.cfg km ip chain)) := rfl
  rw [e]
  obtain ⟨c1, c2, _, c4, c5, c6, c7⟩ := obs_commit hinv pid tid
    (fun s2 th => otherEventThread s2 th pid tid t (sampleStack s2.cfg km ip chain))
  simp only [] at c4 c5 c6 c7
  generalize getThread (getByPid s pid).1 (getByPid s pid).2 tid = gt at *
  have hc : gt.1.cfg = s.cfg := c1
  refine ⟨c5, c6, by rw [c7]; simp [otherEventThread], ?_⟩
  refine ⟨markerItem gt.1 gt.2.2.h pid tid t (sampleStack gt.1.cfg km ip chain), ?_, ?_, ?_, ?_, ?_, ?_, ?_, ?_⟩
  rotate_left 7
  · intro a
    have h4 := c4 a
    simp only [otherEventThread] at h4
    rw [c2, setThr_self] at h4
    exact h4
  · rfl
  · rfl
  · show conv gt.1 t = t - s.cfg.ref
    unfold conv; rw [hc]
  · rfl
  · show sampleStack gt.1.cfg km ip chain = _
    rw [hc]
  · rfl
  · rfl

/-- a buffer extended by items that are not recorded samples expects the same output -/
theorem Fp_append_synth (cfg : Config) (post : List Rec) (k : Nat) (o : PObs) (us : List USample)
    (h : ∀ u ∈ us, u.synth = true) :
    Fp cfg post k { o with samples := o.samples ++ us } = Fp cfg post k o := by
  unfold Fp specBuf
  simp only [List.filter_append]
  have : us.filter (fun u => !u.synth) = [] := by
    rw [List.filter_eq_nil_iff]; intro u hu; simp [h u hu]
  rw [this, List.append_nil]

/-! ### one record of the history -/

theorem Phi_cons_inert (cfg : Config) (s : St) (r : Rec) (post : List Rec)
    (h : ∀ k, laterAnn false cfg k none (r :: post) = laterAnn false cfg k none post) :
    Phi cfg s (r :: post) = Phi cfg s post := by
  unfold Phi
  congr 2
  funext e
  simp only [FF, Fp, h]

/-- a record after which nothing observable has changed and which announces nothing -/
theorem hist_same {cfg : Config} {s s' : St} {r : Rec} {post : List Rec} (hn : NodupKeys s.procs)
    (hn' : NodupKeys s'.procs) (hobs : ∀ a, pobs s'.procs a = pobs s.procs a) (hp : s'.parked = s.parked)
    (hl : ∀ k, laterAnn false cfg k none (r :: post) = laterAnn false cfg k none post) :
    List.Perm (Phi cfg s' post) (Phi cfg s (r :: post)) := by
  rw [Phi_cons_inert cfg s r post hl]
  exact Phi_perm_of_obs cfg hn hn' hp (fun a => by rw [hobs a])

theorem specBuf_park (cfg : Config) (o : PObs) (pid : Nat) :
    (park o pid).flatMap (specBuf cfg) = specBuf cfg (o.samples, o.mapq, pid) := by
  unfold park
  split
  · next he =>
    have : o.samples = [] := List.isEmpty_iff.mp he
    simp [specBuf, this]
  · simp

/-- EXIT / EXEC of a main thread: the buffer is parked with the queue it has now — which is its final queue -/
theorem hist_remove {cfg : Config} {s s' : St} {r : Rec} {post : List Rec} {pid : Nat} (hn : NodupKeys s.procs)
    (hn' : NodupKeys s'.procs) (hobs : ∀ a, pobs s'.procs a = upd (pobs s.procs) pid PObs.empty a)
    (hp : s'.parked = s.parked ++ park (pobs s.procs pid) pid)
    (hl : ∀ k, k ≠ pid → laterAnn false cfg k none (r :: post) = laterAnn false cfg k none post)
    (hl0 : laterAnn false cfg pid none (r :: post) = []) :
    List.Perm (Phi cfg s' post) (Phi cfg s (r :: post)) := by
  obtain ⟨R, p1, p2⟩ := flatMap_perm_except (Fp cfg (r :: post)) (Fp cfg post) (Fp_empty cfg _) (Fp_empty cfg _)
    hn hn' pid (fun a ha => by
      rw [hobs a]; unfold upd; rw [if_neg ha]
      exact Fp_congr cfg rfl (by rw [hl a ha]))
  unfold Phi
  rw [hp, List.flatMap_append, specBuf_park]
  have e2 : Fp cfg post pid (pobs s'.procs pid) = [] := by
    rw [hobs pid]; unfold upd; rw [if_pos rfl]; exact Fp_empty cfg post pid
  have e1 : Fp cfg (r :: post) pid (pobs s.procs pid) =
      specBuf cfg ((pobs s.procs pid).samples, (pobs s.procs pid).mapq, pid) := by
    unfold Fp; rw [hl0, List.append_nil]
  rw [e2] at p2
  rw [e1] at p1
  rw [List.append_assoc]
  refine List.Perm.append_left _ ?_
  exact (List.Perm.append_left _ p2).trans p1.symm

theorem tqFresh_off : tqFresh.2.2 = none := rfl

theorem hist_step {cfg : Config} {s : St} {st : List (Nat × Announced)} {last : Last} {l : Life.S}
    (h : HInv cfg s st last l) (r : Rec) (post : List Rec) (hf : LifeL.forkOk l r) (hok : recOk r) :
    HInv cfg (step s r) (annStep cfg st r) (accStep (last, []) r).1 (Life.step l r) ∧
    List.Perm (Phi cfg (step s r) post ++ expGo cfg (annStep cfg st r) (accStep (last, []) r).1 post)
      (Phi cfg s (r :: post) ++ expGo cfg st last (r :: post)) := by
  have hsim' := h.next_sim r
  have hlife' := LifeL.sim_step h.life r hf
  have hinv := h.inv
  have hn : NodupKeys s.procs := hinv.nodup
  have hn' : NodupKeys (step s r).procs := by obtain ⟨_, hs⟩ := hsim'; exact hs.inv.nodup
  cases r with
  | sample pid tid t km period ip chain =>
    have hst : annStep cfg st (.sample pid tid t km period ip chain) = st := rfl
    have hl : ∀ k, laterAnn false cfg k none (.sample pid tid t km period ip chain :: post) =
        laterAnn false cfg k none post := fun k => rfl
    rw [hst]
    by_cases h0 : tid = 0
    · have hs : step s (.sample pid tid t km period ip chain) = s := by rw [h0]; simp [step]
      have ha : (accStep (last, []) (.sample pid tid t km period ip chain)).1 = last := by simp [accStep, h0]
      rw [ha] at hsim' ⊢
      refine ⟨⟨hsim', hlife', by rw [hs]; exact h.q, by rw [hs]; exact h.noff⟩, ?_⟩
      rw [hs, Phi_cons_inert cfg s _ post hl]
      simp only [expGo, h0, true_or, if_true]
      exact List.Perm.refl _
    · obtain ⟨o1, o2, o3⟩ := obs_sample hinv pid tid t km period ip chain h0 (h.noff pid tid)
      rw [h.htl pid tid] at o3
      by_cases hd : lastGet last pid tid = some t
      · rw [if_pos hd] at o3
        have ha : (accStep (last, []) (.sample pid tid t km period ip chain)).1 = last := by
          simp [accStep, h0, hd]
        rw [ha] at hsim' ⊢
        refine ⟨⟨hsim', hlife', fun a => by rw [o3 a]; exact h.q a, fun a b => by rw [o3 a]; exact h.noff a b⟩, ?_⟩
        simp only [expGo, hd, or_true, if_true]
        exact List.Perm.append_right _ (hist_same hn hn' o3 o1 hl)
      · rw [if_neg hd] at o3
        obtain ⟨u, q', u1, u2, u3, u4, u5, u6, q1, q2, o3⟩ := o3
        have ha : (accStep (last, []) (.sample pid tid t km period ip chain)).1 = lastSet last pid tid t := by
          simp [accStep, h0, hd]
        rw [ha] at hsim' ⊢
        refine ⟨⟨hsim', hlife', ?_, ?_⟩, ?_⟩
        · intro a
          rw [o3 a]; unfold upd
          split
          · next e => rw [e]; exact h.q pid
          · exact h.q a
        · intro a b
          rw [o3 a]; unfold upd
          split
          · simp only [PObs.setThr]
            split
            · exact q2
            · exact h.noff pid b
          · exact h.noff a b
        · -- the new sample, attributed with its final queue, is what the specification expects for it
          rw [Phi_cons_inert cfg s _ post hl]
          have hX : expGo cfg st last (.sample pid tid t km period ip chain :: post) =
              expX cfg st pid tid t km ip chain post :: expGo cfg st (lastSet last pid tid t) post := by
            simp only [expGo, h0, hd, or_self, if_false]
          rw [hX]
          obtain ⟨R, p1, p2⟩ := flatMap_perm_except (Fp cfg post) (Fp cfg post) (Fp_empty cfg _) (Fp_empty cfg _)
            hn hn' pid (fun a ha => by rw [o3 a]; unfold upd; rw [if_neg ha])
          have hmap : (sampleStack cfg km ip chain).reverse.map
                (expectInfo ((pobs s.procs pid).mapq ++ laterAnn false cfg pid none post) t (pmCands cfg pid)) =
              (sampleStack cfg km ip chain).reverse.map
                (expectInfo ((alGet st pid).getD [] ++ laterAnn false cfg pid (some t) post) t (pmCands cfg pid)) :=
            List.map_congr_left (fun f _ => by rw [h.q pid, expectInfo_lookahead])
          have e2 : Fp cfg post pid (pobs (step s (.sample pid tid t km period ip chain)).procs pid) =
              Fp cfg post pid (pobs s.procs pid) ++ [expX cfg st pid tid t km ip chain post] := by
            rw [o3 pid]; unfold upd; rw [if_pos rfl]
            simp only [Fp, specBuf, PObs.setThr, List.filter_append, List.map_append]
            congr 1
            simp only [List.filter_cons, u1, Bool.not_false, if_true, List.filter_nil, List.map_cons, List.map_nil,
              uExp, expX, u2, u3, u4, u5, u6, h.cfg_eq, hmap]
          rw [e2] at p2
          unfold Phi
          rw [o1]
          have p3 : List.Perm ((step s (.sample pid tid t km period ip chain)).procs.flatMap (FF (Fp cfg post)))
              (s.procs.flatMap (FF (Fp cfg post)) ++ [expX cfg st pid tid t km ip chain post]) := by
            refine p2.trans ?_
            rw [List.append_assoc]
            refine (List.Perm.append_left _ List.perm_append_comm).trans ?_
            rw [← List.append_assoc]
            exact List.Perm.append_right _ p1.symm
          rw [List.append_assoc, List.append_assoc]
          refine List.Perm.append_left _ ?_
          refine (List.Perm.append_right _ p3).trans ?_
          rw [List.append_assoc]
          rfl
  | fork pid tid ppid ptid t =>
    obtain ⟨o1, o2, o3, o4⟩ := obs_fork hinv pid tid ppid ptid t
    have hl : ∀ k, laterAnn false cfg k none (.fork pid tid ppid ptid t :: post) =
        laterAnn false cfg k none post := fun k => rfl
    have ha : (accStep (last, []) (.fork pid tid ppid ptid t)).1 = last := rfl
    rw [ha] at hsim' ⊢
    have hX : expGo cfg st last (.fork pid tid ppid ptid t :: post) =
        expGo cfg (annStep cfg st (.fork pid tid ppid ptid t)) last post := by simp only [expGo, accStep]
    rw [hX]
    by_cases hpp : pid ≠ ppid
    · simp only [if_pos hpp] at o1
      have hst : annStep cfg st (.fork pid tid ppid ptid t) = alPut st pid ((alGet st ppid).getD []) := by
        simp [annStep, annStepX, hpp]
      have hnone : alGet s.procs pid = none := by
        simp only [LifeL.forkOk, if_pos hpp] at hf
        exact h.life.live.unbound_of_curProc hf
      have hemp : pobs s.procs pid = PObs.empty := pobs_of_none hnone
      refine ⟨⟨hsim', hlife', ?_, ?_⟩, List.Perm.append_right _ ?_⟩
      · intro a
        rw [o1 a, hst, getD_alPut]; unfold upd
        split
        · exact h.q ppid
        · exact h.q a
      · intro a b
        rw [o1 a]; unfold upd
        split
        · rw [hemp]; rfl
        · exact h.noff a b
      · rw [Phi_cons_inert cfg s _ post hl]
        refine Phi_perm_of_obs cfg hn hn' o2 (fun a => ?_)
        rw [o1 a]; unfold upd
        split
        · next e =>
          rw [e, hemp]
          rw [Fp_nil_samples cfg post pid rfl, Fp_empty]
        · rfl
    · simp only [if_neg hpp] at o1
      have hst : annStep cfg st (.fork pid tid ppid ptid t) = st := by
        have : pid = ppid := Classical.not_not.mp hpp
        simp [annStep, annStepX, this]
      rw [hst]
      exact ⟨⟨hsim', hlife', fun a => by rw [o1 a]; exact h.q a, fun a b => by rw [o1 a]; exact h.noff a b⟩,
        List.Perm.append_right _ (hist_same hn hn' o1 o2 hl)⟩
  | exit pid tid t =>
    obtain ⟨o1, o2, o3, o4⟩ := obs_exit hinv pid tid t
    have hX : expGo cfg st last (.exit pid tid t :: post) =
        expGo cfg (annStep cfg st (.exit pid tid t)) (accStep (last, []) (.exit pid tid t)).1 post := by
      simp only [expGo]
    rw [hX]
    by_cases hpt : pid = tid
    · subst hpt
      simp only [if_true] at o1 o2
      have hst : annStep cfg st (.exit pid pid t) = alDel st pid := by simp [annStep, annStepX]
      refine ⟨⟨hsim', hlife', ?_, ?_⟩, List.Perm.append_right _ ?_⟩
      · intro a
        rw [o1 a, hst, getD_alDel]; unfold upd
        split
        · rfl
        · exact h.q a
      · intro a b
        rw [o1 a]; unfold upd
        split
        · rfl
        · exact h.noff a b
      · refine hist_remove (pid := pid) hn hn' o1 o2 ?_ ?_
        · intro k hk
          simp only [laterAnn]
          rw [if_neg]; intro e; exact hk e.1.symm
        · simp [laterAnn]
    · simp only [if_neg hpt] at o1 o2
      have hst : annStep cfg st (.exit pid tid t) = st := by simp [annStep, annStepX, hpt]
      rw [hst]
      refine ⟨⟨hsim', hlife', ?_, ?_⟩, List.Perm.append_right _ ?_⟩
      · intro a
        rw [o1 a]; unfold upd
        split
        · next e => rw [e]; exact h.q pid
        · exact h.q a
      · intro a b
        rw [o1 a]; unfold upd
        split
        · simp only [PObs.setThr]
          split
          · rfl
          · exact h.noff pid b
        · exact h.noff a b
      · have hl : ∀ k, laterAnn false cfg k none (.exit pid tid t :: post) = laterAnn false cfg k none post := by
          intro k
          simp only [laterAnn]
          rw [if_neg]; intro e; exact hpt (e.1.trans e.2.symm)
        rw [Phi_cons_inert cfg s _ post hl]
        refine Phi_perm_of_obs cfg hn hn' o2 (fun a => ?_)
        rw [o1 a]; unfold upd
        split
        · next e => rw [e]; exact Fp_congr cfg rfl rfl
        · rfl
  | comm pid tid name isExec t =>
    obtain ⟨o1, o2, o3, o4⟩ := obs_comm hinv pid tid name isExec t
    have hX : expGo cfg st last (.comm pid tid name isExec t :: post) =
        expGo cfg (annStep cfg st (.comm pid tid name isExec t))
          (accStep (last, []) (.comm pid tid name isExec t)).1 post := by
      simp only [expGo]
    rw [hX]
    cases isExec with
    | true =>
      have hpt : pid = tid := hf rfl
      subst hpt
      simp only [if_true, decide_true, Bool.and_self] at o1 o2
      have hst : annStep cfg st (.comm pid pid name true t) = alDel st pid := by simp [annStep, annStepX]
      refine ⟨⟨hsim', hlife', ?_, ?_⟩, List.Perm.append_right _ ?_⟩
      · intro a
        rw [o1 a, hst, getD_alDel]; unfold upd
        split
        · rfl
        · exact h.q a
      · intro a b
        rw [o1 a]; unfold upd
        split
        · rfl
        · exact h.noff a b
      · refine hist_remove (pid := pid) hn hn' o1 o2 ?_ ?_
        · intro k hk
          simp only [laterAnn]
          rw [if_neg]; intro e; exact hk e.1.symm
        · simp [laterAnn]
    | false =>
      simp only [Bool.false_eq_true, if_false, Bool.false_and] at o1 o2
      have hst : annStep cfg st (.comm pid tid name false t) = st := rfl
      have hl : ∀ k, laterAnn false cfg k none (.comm pid tid name false t :: post) =
          laterAnn false cfg k none post := fun k => rfl
      rw [hst]
      exact ⟨⟨hsim', hlife', fun a => by rw [o1 a]; exact h.q a, fun a b => by rw [o1 a]; exact h.noff a b⟩,
        List.Perm.append_right _ (hist_same hn hn' o1 o2 hl)⟩
  | mmap2 pid tid addr len pgoff exec path t =>
    obtain ⟨o1, o2, o3, o4⟩ := obs_mmap2 hinv pid tid addr len pgoff exec path t
    have ha : (accStep (last, []) (.mmap2 pid tid addr len pgoff exec path t)).1 = last := rfl
    rw [ha] at hsim' ⊢
    have hX : expGo cfg st last (.mmap2 pid tid addr len pgoff exec path t :: post) =
        expGo cfg (annStep cfg st (.mmap2 pid tid addr len pgoff exec path t)) last post := by
      simp only [expGo, accStep]
    rw [hX]
    cases exec with
    | false =>
      simp only [Bool.false_and, Bool.false_eq_true, if_false] at o1
      have hst : annStep cfg st (.mmap2 pid tid addr len pgoff false path t) = st := rfl
      have hl : ∀ k, laterAnn false cfg k none (.mmap2 pid tid addr len pgoff false path t :: post) =
          laterAnn false cfg k none post := fun k => rfl
      rw [hst]
      exact ⟨⟨hsim', hlife', fun a => by rw [o1 a]; exact h.q a, fun a b => by rw [o1 a]; exact h.noff a b⟩,
        List.Perm.append_right _ (hist_same hn hn' o1 o2 hl)⟩
    | true =>
      have hsp : specialPath path = false := hok
      simp only [hsp, Bool.not_false, Bool.and_self, if_true] at o1
      have hst : annStep cfg st (.mmap2 pid tid addr len pgoff true path t) =
          alPut st pid ((alGet st pid).getD [] ++ mapOps cfg addr len pgoff path t) := by
        simp [annStep, annStepX, hsp, annOf_noSpecial hsp]
      refine ⟨⟨hsim', hlife', ?_, ?_⟩, List.Perm.append_right _ ?_⟩
      · intro a
        rw [o1 a, hst, getD_alPut]; unfold upd
        split
        · show (pobs s.procs pid).mapq ++ _ = _
          rw [h.q pid, h.cfg_eq]
        · exact h.q a
      · intro a b
        rw [o1 a]; unfold upd
        split
        · exact h.noff pid b
        · exact h.noff a b
      · unfold Phi
        rw [o2]
        refine List.Perm.append_left _ ?_
        refine flatMap_perm_of_obs _ _ (Fp_empty cfg _) (Fp_empty cfg _) hn hn' (fun a => ?_)
        rw [o1 a]; unfold upd
        split
        · next e =>
          rw [e]
          refine Fp_congr cfg rfl ?_
          show ((pobs s.procs pid).mapq ++ mapOps s.cfg addr len pgoff path t) ++ _ = _
          simp only [laterAnn, beq_self_eq_true, Bool.true_and, hsp, Bool.and_false, Bool.not_false, if_true,
            annOf_noSpecial hsp, h.cfg_eq, List.append_assoc]
        · next e =>
          refine Fp_congr cfg rfl ?_
          have : (pid == a) = false := by simpa using fun e' : pid = a => e e'.symm
          simp only [laterAnn, this, Bool.false_and, Bool.false_eq_true, if_false]
  | switchIn pid tid t => exact hok.elim
  | switchOut pid tid t => exact hok.elim
  | sched pid tid t km ip chain => exact hok.elim
  | otherEvent pid tid t km ip chain =>
    -- the marker item is no recorded sample: nothing the specification expects changes
    obtain ⟨o1, _, _, u, u1, _, _, _, _, _, _, o3⟩ := obs_otherEvent hinv pid tid t km ip chain
    have hl : ∀ k, laterAnn false cfg k none (.otherEvent pid tid t km ip chain :: post) =
        laterAnn false cfg k none post := fun k => rfl
    have ha : (accStep (last, []) (.otherEvent pid tid t km ip chain)).1 = last := rfl
    have hst : annStep cfg st (.otherEvent pid tid t km ip chain) = st := rfl
    rw [ha] at hsim'
    rw [ha, hst]
    have hX : expGo cfg st last (.otherEvent pid tid t km ip chain :: post) = expGo cfg st last post := by
      simp only [expGo, accStep]; rfl
    rw [hX]
    refine ⟨⟨hsim', hlife', ?_, ?_⟩, List.Perm.append_right _ ?_⟩
    · intro a
      rw [o3 a]; unfold upd
      split
      · next e => rw [e]; exact h.q pid
      · exact h.q a
    · intro a b
      rw [o3 a]; unfold upd
      split
      · exact h.noff pid b
      · exact h.noff a b
    · rw [Phi_cons_inert cfg s _ post hl]
      refine Phi_perm_of_obs cfg hn hn' o1 (fun a => ?_)
      rw [o3 a]; unfold upd
      split
      · next e =>
        rw [e]
        exact Fp_append_synth cfg post pid _ [u] (fun x hx => by
          simp only [List.mem_singleton] at hx; rw [hx]; exact u1)
      · rfl

/-! ### queues and buffers stay sorted when MMAP2 and SAMPLE records arrive in time order -/

def MonoU (us : List USample) : Prop := us.Pairwise (fun a b => a.tmono ≤ b.tmono)

structure HSort (s : St) (T : Nat) : Prop where
  q : ∀ pid, SortedQ (pobs s.procs pid).mapq ∧ ∀ o ∈ (pobs s.procs pid).mapq, o.1 ≤ T
  u : ∀ pid, MonoU (pobs s.procs pid).samples ∧ ∀ x ∈ (pobs s.procs pid).samples, x.tmono ≤ T
  parked : ∀ b ∈ s.parked, SortedQ b.2.1 ∧ MonoU b.1

theorem HSort.mono {s : St} {T T' : Nat} (h : HSort s T) (hle : T ≤ T') : HSort s T' :=
  ⟨fun pid => ⟨(h.q pid).1, fun o ho => Nat.le_trans ((h.q pid).2 o ho) hle⟩,
   fun pid => ⟨(h.u pid).1, fun x hx => Nat.le_trans ((h.u pid).2 x hx) hle⟩, h.parked⟩

theorem HSort.same {s s' : St} {T : Nat} (h : HSort s T) (hobs : ∀ a, pobs s'.procs a = pobs s.procs a)
    (hp : s'.parked = s.parked) : HSort s' T :=
  ⟨fun pid => by rw [hobs pid]; exact h.q pid, fun pid => by rw [hobs pid]; exact h.u pid, by rw [hp]; exact h.parked⟩

theorem mapOps_time (cfg : Config) (addr len pgoff : Nat) (path : String) (t : Nat) :
    ∀ o ∈ mapOps cfg addr len pgoff path t, o.1 = t := by
  intro o ho
  unfold mapOps at ho
  split at ho
  · simp only [List.mem_singleton] at ho; rw [ho]
  · cases ho

theorem mapOps_sorted (cfg : Config) (addr len pgoff : Nat) (path : String) (t : Nat) :
    SortedQ (mapOps cfg addr len pgoff path t) := by
  unfold mapOps SortedQ
  split
  · exact List.pairwise_singleton _ _
  · exact List.Pairwise.nil

theorem HSort.empty_q (T : Nat) : SortedQ PObs.empty.mapq ∧ ∀ o ∈ PObs.empty.mapq, o.1 ≤ T :=
  ⟨List.Pairwise.nil, fun o ho => by cases ho⟩

theorem HSort.empty_u (T : Nat) : MonoU PObs.empty.samples ∧ ∀ x ∈ PObs.empty.samples, x.tmono ≤ T :=
  ⟨List.Pairwise.nil, fun o ho => by cases ho⟩

/-- after `Processes::remove` of `pid` -/
theorem HSort.remove {s s' : St} {T : Nat} {pid : Nat} (h : HSort s T)
    (hobs : ∀ a, pobs s'.procs a = upd (pobs s.procs) pid PObs.empty a)
    (hp : s'.parked = s.parked ++ park (pobs s.procs pid) pid) : HSort s' T := by
  refine ⟨fun a => ?_, fun a => ?_, ?_⟩
  · rw [hobs a]; unfold upd; split
    · exact HSort.empty_q T
    · exact h.q a
  · rw [hobs a]; unfold upd; split
    · exact HSort.empty_u T
    · exact h.u a
  · intro b hb
    rw [hp] at hb
    rcases List.mem_append.mp hb with hb | hb
    · exact h.parked b hb
    · unfold park at hb
      split at hb
      · cases hb
      · simp only [List.mem_singleton] at hb
        rw [hb]
        exact ⟨(h.q pid).1, (h.u pid).1⟩

/-- after a record that touches the thread triple of (pid, tid) only -/
theorem HSort.setThr {s s' : St} {T : Nat} {pid tid : Nat} {q : TQ} (h : HSort s T)
    (hobs : ∀ a, pobs s'.procs a = upd (pobs s.procs) pid ((pobs s.procs pid).setThr tid q) a)
    (hp : s'.parked = s.parked) : HSort s' T := by
  refine ⟨fun a => ?_, fun a => ?_, by rw [hp]; exact h.parked⟩
  · rw [hobs a]; unfold upd; split
    · next e => exact h.q pid
    · exact h.q a
  · rw [hobs a]; unfold upd; split
    · next e => exact h.u pid
    · exact h.u a

theorem sort_step {cfg : Config} {s : St} {st : List (Nat × Announced)} {last : Last} {l : Life.S} {T : Nat}
    (h : HInv cfg s st last l) (hs : HSort s T) (r : Rec) (post : List Rec) (hf : LifeL.forkOk l r)
    (hok : recOk r) (ho : orderedFrom T (r :: post) = true) :
    ∃ T', HSort (step s r) T' ∧ orderedFrom T' post = true := by
  have hinv := h.inv
  cases r with
  | sample pid tid t km period ip chain =>
    by_cases h0 : tid = 0
    · have hstep : step s (.sample pid tid t km period ip chain) = s := by rw [h0]; simp [step]
      rw [hstep]
      refine ⟨T, hs, ?_⟩
      simpa [orderedFrom, queuedTime, h0] using ho
    · simp only [orderedFrom, queuedTime, h0, if_false, Bool.and_eq_true, decide_eq_true_eq] at ho
      obtain ⟨o1, o2, o3⟩ := obs_sample hinv pid tid t km period ip chain h0 (h.noff pid tid)
      refine ⟨t, ?_, ho.2⟩
      split at o3
      · exact (hs.same o3 o1).mono ho.1
      · obtain ⟨u, q', u1, u2, u3, u4, u5, u6, q1, q2, o3⟩ := o3
        refine ⟨fun a => ?_, fun a => ?_, by rw [o1]; exact hs.parked⟩
        · rw [o3 a]; unfold upd; split
          · exact ((hs.mono ho.1).q pid)
          · exact ((hs.mono ho.1).q a)
        · rw [o3 a]; unfold upd; split
          · show MonoU ((pobs s.procs pid).samples ++ [u]) ∧ ∀ x ∈ (pobs s.procs pid).samples ++ [u], x.tmono ≤ t
            refine ⟨?_, ?_⟩
            · unfold MonoU
              rw [List.pairwise_append]
              refine ⟨(hs.u pid).1, List.pairwise_singleton _ _, ?_⟩
              intro a ha b hb
              simp only [List.mem_singleton] at hb
              rw [hb, u3]
              exact Nat.le_trans ((hs.u pid).2 a ha) ho.1
            · intro x hx
              rcases List.mem_append.mp hx with hx | hx
              · exact Nat.le_trans ((hs.u pid).2 x hx) ho.1
              · simp only [List.mem_singleton] at hx
                rw [hx, u3]; exact Nat.le_refl _
          · exact ((hs.mono ho.1).u a)
  | fork pid tid ppid ptid t =>
    obtain ⟨o1, o2, _, _⟩ := obs_fork hinv pid tid ppid ptid t
    refine ⟨T, ?_, by simpa [orderedFrom, queuedTime] using ho⟩
    by_cases hpp : pid ≠ ppid
    · simp only [if_pos hpp] at o1
      refine ⟨fun a => ?_, fun a => ?_, by rw [o2]; exact hs.parked⟩
      · rw [o1 a]; unfold upd; split
        · exact hs.q ppid
        · exact hs.q a
      · rw [o1 a]; unfold upd; split
        · exact hs.u pid
        · exact hs.u a
    · simp only [if_neg hpp] at o1
      exact hs.same o1 o2
  | exit pid tid t =>
    obtain ⟨o1, o2, _, _⟩ := obs_exit hinv pid tid t
    refine ⟨T, ?_, by simpa [orderedFrom, queuedTime] using ho⟩
    by_cases hpt : pid = tid
    · simp only [if_pos hpt] at o1 o2
      exact hs.remove o1 o2
    · simp only [if_neg hpt] at o1 o2
      exact hs.setThr o1 o2
  | comm pid tid name isExec t =>
    obtain ⟨o1, o2, _, _⟩ := obs_comm hinv pid tid name isExec t
    refine ⟨T, ?_, by simpa [orderedFrom, queuedTime] using ho⟩
    cases isExec with
    | true =>
      have hpt : pid = tid := hf rfl
      simp only [if_true, if_pos hpt, hpt, decide_true, Bool.and_self] at o1 o2
      subst hpt
      exact hs.remove o1 o2
    | false =>
      simp only [Bool.false_eq_true, if_false, Bool.false_and] at o1 o2
      exact hs.same o1 o2
  | mmap2 pid tid addr len pgoff exec path t =>
    obtain ⟨o1, o2, _, _⟩ := obs_mmap2 hinv pid tid addr len pgoff exec path t
    cases exec with
    | false =>
      simp only [Bool.false_and, Bool.false_eq_true, if_false] at o1
      exact ⟨T, hs.same o1 o2, by simpa [orderedFrom, queuedTime] using ho⟩
    | true =>
      simp only [orderedFrom, queuedTime, Bool.and_eq_true, decide_eq_true_eq] at ho
      refine ⟨t, ?_, ho.2⟩
      cases hsp : specialPath path with
      | true =>
        simp only [hsp, Bool.not_true, Bool.and_false, Bool.false_eq_true, if_false] at o1
        exact (hs.same o1 o2).mono ho.1
      | false =>
        simp only [hsp, Bool.not_false, Bool.and_self, if_true] at o1
        refine ⟨fun a => ?_, fun a => ?_, by rw [o2]; exact hs.parked⟩
        · rw [o1 a]; unfold upd; split
          · show SortedQ ((pobs s.procs pid).mapq ++ mapOps s.cfg addr len pgoff path t) ∧
              ∀ o ∈ (pobs s.procs pid).mapq ++ mapOps s.cfg addr len pgoff path t, o.1 ≤ t
            refine ⟨?_, ?_⟩
            · unfold SortedQ
              rw [List.pairwise_append]
              refine ⟨(hs.q pid).1, mapOps_sorted _ _ _ _ _ _, ?_⟩
              intro a ha b hb
              rw [mapOps_time _ _ _ _ _ _ b hb]
              exact Nat.le_trans ((hs.q pid).2 a ha) ho.1
            · intro o ho'
              rcases List.mem_append.mp ho' with ho' | ho'
              · exact Nat.le_trans ((hs.q pid).2 o ho') ho.1
              · rw [mapOps_time _ _ _ _ _ _ o ho']; exact Nat.le_refl _
          · exact ((hs.mono ho.1).q a)
        · rw [o1 a]; unfold upd; split
          · exact ((hs.mono ho.1).u pid)
          · exact ((hs.mono ho.1).u a)
  | switchIn pid tid t => exact hok.elim
  | switchOut pid tid t => exact hok.elim
  | sched pid tid t km ip chain => exact hok.elim
  | otherEvent pid tid t km ip chain =>
    -- the marker item enters the buffer like a sample: its raw time is the new running maximum
    simp only [orderedFrom, queuedTime, Bool.and_eq_true, decide_eq_true_eq] at ho
    obtain ⟨o1, _, _, u, _, _, _, u3, _, _, _, o3⟩ := obs_otherEvent hinv pid tid t km ip chain
    refine ⟨t, ⟨fun a => ?_, fun a => ?_, by rw [o1]; exact hs.parked⟩, ho.2⟩
    · rw [o3 a]; unfold upd; split
      · exact ((hs.mono ho.1).q pid)
      · exact ((hs.mono ho.1).q a)
    · rw [o3 a]; unfold upd; split
      · show MonoU ((pobs s.procs pid).samples ++ [u]) ∧ ∀ x ∈ (pobs s.procs pid).samples ++ [u], x.tmono ≤ t
        refine ⟨?_, ?_⟩
        · unfold MonoU
          rw [List.pairwise_append]
          refine ⟨(hs.u pid).1, List.pairwise_singleton _ _, ?_⟩
          intro a ha b hb
          simp only [List.mem_singleton] at hb
          rw [hb, u3]
          exact Nat.le_trans ((hs.u pid).2 a ha) ho.1
        · intro x hx
          rcases List.mem_append.mp hx with hx | hx
          · exact Nat.le_trans ((hs.u pid).2 x hx) ho.1
          · simp only [List.mem_singleton] at hx
            rw [hx, u3]; exact Nat.le_refl _
      · exact ((hs.mono ho.1).u a)

end Conv
