import SamplyModel.Lemmas.ConvAL
/-! `views` groups the flushed samples by thread-entry index: when every entry's process index is valid and
every flushed sample names an existing entry, nothing is dropped and nothing is duplicated (C01). -/
namespace Conv

theorem filter_or_perm {α} (p q : α → Bool) (hdisj : ∀ x, p x = true → q x = true → False) (l : List α) :
    List.Perm (l.filter p ++ l.filter q) (l.filter (fun x => p x || q x)) := by
  induction l with
  | nil => exact List.Perm.refl _
  | cons x xs ih =>
    rw [List.filter_cons, List.filter_cons, List.filter_cons]
    cases hp : p x <;> cases hq : q x
    · simpa using ih
    · simp only [Bool.false_eq_true, if_false, Bool.or_true, if_true]
      exact List.perm_middle.trans (List.Perm.cons x ih)
    · simp only [if_true, Bool.false_eq_true, if_false, Bool.or_false, List.cons_append]
      exact List.Perm.cons x ih
    · exact (hdisj x hp hq).elim

/-- the sample lines of a view: the non-marker items of its entry -/
theorem samples_split (out : List (Nat × OutSample)) (i : Nat) :
    ((out.filter (fun o => o.1 == i)).map (·.2)).filter (fun o => !o.marker) =
      ((out.filter (fun o => !o.2.marker)).filter (fun o => o.1 == i)).map (·.2) := by
  induction out with
  | nil => rfl
  | cons x xs ih =>
    simp only [List.filter_cons]
    cases h1 : (x.1 == i) <;> cases h2 : x.2.marker <;> simp [h1, h2, ih, List.filter_cons]

theorem viewsAux_perm_gen {γ} (s : St) (out : List (Nat × OutSample)) (sel : View → List OutSample)
    (pred : Nat × OutSample → Bool)
    (hsel : ∀ i te v, viewOf s out i te = some v →
      sel v = ((out.filter pred).filter (fun o => o.1 == i)).map (·.2))
    (F : View → OutSample → γ) (G : Nat → OutSample → γ)
    (hv : ∀ te ∈ s.tents, te.proc < s.pents.length)
    (hFG : ∀ i te v, s.tents[i]? = some te → viewOf s out i te = some v → ∀ o, F v o = G i o) :
    ∀ (rest : List TEntry) (i : Nat), s.tents.drop i = rest →
      List.Perm ((viewsAux s out i rest).flatMap (fun v => (sel v).map (F v)))
        (((out.filter pred).filter
          (fun o => decide (i ≤ o.1) && decide (o.1 < i + rest.length))).map (fun o => G o.1 o.2)) := by
  intro rest
  induction rest with
  | nil =>
    intro i _
    have : (out.filter pred).filter
        (fun o => decide (i ≤ o.1) && decide (o.1 < i + ([] : List TEntry).length)) = [] := by
      rw [List.filter_eq_nil_iff]
      intro o _
      simp only [List.length_nil, Nat.add_zero, Bool.and_eq_true, decide_eq_true_eq]
      omega
    rw [this]
    exact List.Perm.refl _
  | cons te rest ih =>
    intro i hdrop
    have hlt : i < s.tents.length := by
      have := congrArg List.length hdrop
      simp only [List.length_drop, List.length_cons] at this
      omega
    have hcons := List.drop_eq_getElem_cons hlt
    rw [hcons] at hdrop
    have hte : s.tents[i] = te := (List.cons.inj hdrop).1
    have hrest : s.tents.drop (i + 1) = rest := (List.cons.inj hdrop).2
    have hget : s.tents[i]? = some te := by rw [List.getElem?_eq_getElem hlt, hte]
    have hmem : te ∈ s.tents := List.mem_of_getElem? hget
    have hproc := hv te hmem
    obtain ⟨v, hvo⟩ : ∃ v, viewOf s out i te = some v := by
      unfold viewOf
      rw [List.getElem?_eq_getElem hproc]
      exact ⟨_, rfl⟩
    have hsamp : sel v = ((out.filter pred).filter (fun o => o.1 == i)).map (·.2) := hsel i te v hvo
    unfold viewsAux
    rw [hvo]
    simp only [List.flatMap_cons]
    have h1 : (sel v).map (F v) =
        ((out.filter pred).filter (fun o => o.1 == i)).map (fun o => G o.1 o.2) := by
      rw [hsamp, List.map_map]
      apply List.map_congr_left
      intro o ho
      have := (List.mem_filter.mp ho).2
      simp only [beq_iff_eq] at this
      simp only [Function.comp_apply, this]
      exact hFG i te v hget hvo o.2
    rw [h1]
    have h2 := ih (i + 1) hrest
    refine (List.Perm.append_left _ h2).trans ?_
    rw [← List.map_append]
    apply List.Perm.map
    refine (filter_or_perm _ _ ?_ (out.filter pred)).trans ?_
    · intro o h1 h2
      simp only [beq_iff_eq, Bool.and_eq_true, decide_eq_true_eq] at h1 h2
      omega
    · apply List.Perm.of_eq
      apply List.filter_congr
      intro o _
      rw [Bool.eq_iff_iff]
      simp only [Bool.or_eq_true, beq_iff_eq, Bool.and_eq_true, decide_eq_true_eq, List.length_cons]
      omega

theorem markers_split (out : List (Nat × OutSample)) (i : Nat) :
    ((out.filter (fun o => o.1 == i)).map (·.2)).filter (fun o => o.marker) =
      ((out.filter (fun o => o.2.marker)).filter (fun o => o.1 == i)).map (·.2) := by
  induction out with
  | nil => rfl
  | cons x xs ih =>
    simp only [List.filter_cons]
    cases h1 : (x.1 == i) <;> cases h2 : x.2.marker <;> simp [h1, h2, ih, List.filter_cons]

theorem viewOf_samples {s : St} {out : List (Nat × OutSample)} {i : Nat} {te : TEntry} {v : View}
    (hv : viewOf s out i te = some v) :
    v.samples = ((out.filter (fun o => !o.2.marker)).filter (fun o => o.1 == i)).map (·.2) := by
  unfold viewOf at hv
  split at hv
  · cases hv
  · simp only [Option.some.injEq] at hv
    rw [← hv]
    exact samples_split out i

theorem viewOf_markers {s : St} {out : List (Nat × OutSample)} {i : Nat} {te : TEntry} {v : View}
    (hv : viewOf s out i te = some v) :
    v.markers = ((out.filter (fun o => o.2.marker)).filter (fun o => o.1 == i)).map (·.2) := by
  unfold viewOf at hv
  split at hv
  · cases hv
  · simp only [Option.some.injEq] at hv
    rw [← hv]
    exact markers_split out i

theorem viewsAux_perm {γ} (s : St) (out : List (Nat × OutSample)) (F : View → OutSample → γ)
    (G : Nat → OutSample → γ)
    (hv : ∀ te ∈ s.tents, te.proc < s.pents.length)
    (hFG : ∀ i te v, s.tents[i]? = some te → viewOf s out i te = some v → ∀ o, F v o = G i o) :
    ∀ (rest : List TEntry) (i : Nat), s.tents.drop i = rest →
      List.Perm ((viewsAux s out i rest).flatMap (fun v => v.samples.map (F v)))
        (((out.filter (fun o => !o.2.marker)).filter
          (fun o => decide (i ≤ o.1) && decide (o.1 < i + rest.length))).map (fun o => G o.1 o.2)) :=
  viewsAux_perm_gen s out (·.samples) (fun o => !o.2.marker) (fun _ _ _ h => viewOf_samples h) F G hv hFG

/-- the marker stacks of the views are a partition of the flushed marker items by entry index -/
theorem views_perm_markers {γ} (s : St) (out : List (Nat × OutSample)) (F : View → OutSample → γ)
    (G : Nat → OutSample → γ)
    (hv : ∀ te ∈ s.tents, te.proc < s.pents.length)
    (hout : ∀ o ∈ out, o.1 < s.tents.length)
    (hFG : ∀ i te v, s.tents[i]? = some te → viewOf s out i te = some v → ∀ o, F v o = G i o) :
    List.Perm ((viewsAux s out 0 s.tents).flatMap (fun v => v.markers.map (F v)))
      ((out.filter (fun o => o.2.marker)).map (fun o => G o.1 o.2)) := by
  have h := viewsAux_perm_gen s out (·.markers) (fun o => o.2.marker) (fun _ _ _ h => viewOf_markers h) F G hv hFG
    s.tents 0 (by simp)
  have hf : (out.filter (fun o => o.2.marker)).filter
      (fun o => decide (0 ≤ o.1) && decide (o.1 < 0 + s.tents.length)) = out.filter (fun o => o.2.marker) := by
    rw [List.filter_eq_self]
    intro o ho
    have := hout o (List.mem_filter.mp ho).1
    simp only [Nat.zero_le, decide_true, Bool.true_and, decide_eq_true_eq]
    omega
  rw [hf] at h
  exact h

/-- the grouping by entry index is a partition of the flushed samples -/
theorem views_perm {γ} (s : St) (out : List (Nat × OutSample)) (F : View → OutSample → γ)
    (G : Nat → OutSample → γ)
    (hv : ∀ te ∈ s.tents, te.proc < s.pents.length)
    (hout : ∀ o ∈ out, o.1 < s.tents.length)
    (hFG : ∀ i te v, s.tents[i]? = some te → viewOf s out i te = some v → ∀ o, F v o = G i o) :
    List.Perm ((viewsAux s out 0 s.tents).flatMap (fun v => v.samples.map (F v)))
      ((out.filter (fun o => !o.2.marker)).map (fun o => G o.1 o.2)) := by
  have h := viewsAux_perm s out F G hv hFG s.tents 0 (by simp)
  have hf : (out.filter (fun o => !o.2.marker)).filter
      (fun o => decide (0 ≤ o.1) && decide (o.1 < 0 + s.tents.length)) = out.filter (fun o => !o.2.marker) := by
    rw [List.filter_eq_self]
    intro o ho
    have := hout o (List.mem_filter.mp ho).1
    simp only [Nat.zero_le, decide_true, Bool.true_and, decide_eq_true_eq]
    omega
  rw [hf] at h
  exact h

end Conv
