import SamplyModel.Model.Quota
/-!
Helper lemmas for C15, part 1: paths and the file-system model (`walkWith`, `canonicalize`, `unlink`)
on *plain* paths — paths below a root that is a chain of real directories, with no `..` component
and no symbolic link on the way.
-/
namespace Quota

theorem stripPrefix_append (root rel : Path) : stripPrefix root (root ++ rel) = some rel := by
  induction root with
  | nil => cases rel <;> rfl
  | cons a as ih => simp [stripPrefix, ih]

theorem stripPrefix_some {root q rel : Path} (h : stripPrefix root q = some rel) : q = root ++ rel := by
  induction root generalizing q with
  | nil => cases q <;> simp_all [stripPrefix]
  | cons a as ih =>
    cases q with
    | nil => simp [stripPrefix] at h
    | cons b bs =>
      simp only [stripPrefix] at h
      split at h
      · next hab => rw [hab, ih h]; rfl
      · cases h

theorem lookup_eraseKey (fs : FS) (k p : Path) :
    (eraseKey fs k).lookup p = if p = k then none else fs.lookup p := by
  induction fs with
  | nil => simp [eraseKey, List.lookup]
  | cons e es ih =>
    obtain ⟨q, n⟩ := e
    unfold eraseKey at ih ⊢
    by_cases hq : q = k
    · subst hq
      simp only [List.filter, beq_self_eq_true, Bool.not_true]
      rw [ih]
      by_cases hp : p = q
      · simp [hp]
      · simp [hp, List.lookup, show (p == q) = false from by simpa using hp]
    · have : (q == k) = false := by simpa using hq
      simp only [List.filter, this, Bool.not_false]
      by_cases hp : p = q
      · subst hp
        simp [List.lookup, hq]
      · have hpq : (p == q) = false := by simpa using hp
        simp only [List.lookup, hpq]
        exact ih

theorem isDir_eraseKey (fs : FS) (k p : Path) (hk : fs.lookup k ≠ some .dir) :
    isDir (eraseKey fs k) p = isDir fs p := by
  cases p with
  | nil => rfl
  | cons c cs =>
    simp only [isDir, lookup_eraseKey]
    by_cases h : c :: cs = k
    · subst h
      cases hl : fs.lookup (c :: cs) with
      | none => simp
      | some n => cases n <;> simp_all
    · simp [h]

/-- every component is a real directory (no `..`, no link) -/
def DirChain (fs : FS) : Path → Path → Prop
  | _, [] => True
  | cur, c :: rest => c ≠ ".." ∧ fs.lookup (cur ++ [c]) = some .dir ∧ DirChain fs (cur ++ [c]) rest

/-- no `..` component and no symbolic link at any prefix (existence is not required) -/
def NoLinkBelow (fs : FS) : Path → Path → Prop
  | _, [] => True
  | cur, c :: rest =>
    c ≠ ".." ∧ (∀ t, fs.lookup (cur ++ [c]) ≠ some (.link t)) ∧ NoLinkBelow fs (cur ++ [c]) rest

theorem walkWith_append (follow : Path → Except ResErr Path) (fs : FS) (cur a b : Path) :
    walkWith follow fs cur (a ++ b) =
      match walkWith follow fs cur a with
      | .ok c => walkWith follow fs c b
      | .error e => .error e := by
  induction a generalizing cur with
  | nil => simp [walkWith]
  | cons x xs ih =>
    simp only [List.cons_append, walkWith]
    cases stepC follow fs cur x with
    | error e => rfl
    | ok c => exact ih c

theorem walkWith_dirChain (follow : Path → Except ResErr Path) (fs : FS) (cur p : Path)
    (hc : isDir fs cur = true) (h : DirChain fs cur p) : walkWith follow fs cur p = .ok (cur ++ p) := by
  induction p generalizing cur with
  | nil => simp [walkWith]
  | cons c rest ih =>
    obtain ⟨h1, h2, h3⟩ := h
    have hd : isDir fs (cur ++ [c]) = true := by
      cases hcc : cur ++ [c] with
      | nil => simp at hcc
      | cons y ys => rw [hcc] at h2; simp [isDir, h2]
    simp only [walkWith, stepC, hc, Bool.not_true, Bool.false_eq_true, if_false, h1, h2]
    rw [ih (cur ++ [c]) hd h3]
    simp

theorem walkWith_noLink (follow : Path → Except ResErr Path) (fs : FS) (cur p : Path)
    (h : NoLinkBelow fs cur p) :
    walkWith follow fs cur p = .ok (cur ++ p) ∨ ∃ e, walkWith follow fs cur p = .error e := by
  induction p generalizing cur with
  | nil => left; simp [walkWith]
  | cons c rest ih =>
    obtain ⟨h1, h2, h3⟩ := h
    simp only [walkWith, stepC]
    by_cases hd : isDir fs cur = true
    · simp only [hd, Bool.not_true, Bool.false_eq_true, if_false, h1]
      cases hl : fs.lookup (cur ++ [c]) with
      | none => right; exact ⟨_, rfl⟩
      | some n =>
        cases n with
        | link t => exact absurd hl (h2 t)
        | file =>
          simp only
          rcases ih (cur ++ [c]) h3 with h | ⟨e, h⟩
          · left; rw [h]; simp
          · right; exact ⟨e, h⟩
        | dir =>
          simp only
          rcases ih (cur ++ [c]) h3 with h | ⟨e, h⟩
          · left; rw [h]; simp
          · right; exact ⟨e, h⟩
    · right
      simp only [Bool.not_eq_true] at hd
      simp [hd]

/-- `canonicalize` of a plain path below a plain root either returns the path itself or fails -/
theorem canonicalize_plain (fs : FS) (root rel : Path) (hr : DirChain fs [] root)
    (hp : NoLinkBelow fs root rel) :
    canonicalize fs (root ++ rel) = .ok (root ++ rel) ∨ ∃ e, canonicalize fs (root ++ rel) = .error e := by
  unfold canonicalize canonFuel walkF
  rw [walkWith_append, walkWith_dirChain _ fs [] root rfl hr]
  simpa using walkWith_noLink _ fs root rel hp

theorem canonOrKeep_plain (fs : FS) (root rel : Path) (hr : DirChain fs [] root)
    (hp : NoLinkBelow fs root rel) : canonOrKeep fs (root ++ rel) = root ++ rel := by
  unfold canonOrKeep
  rcases canonicalize_plain fs root rel hr hp with h | ⟨e, h⟩ <;> rw [h]

theorem noLinkBelow_noDotDot (fs : FS) (cur rel : Path) (h : NoLinkBelow fs cur rel) : ".." ∉ rel := by
  induction rel generalizing cur with
  | nil => simp
  | cons c rest ih =>
    obtain ⟨h1, _, h3⟩ := h
    simp only [List.mem_cons, not_or]
    exact ⟨fun e => h1 e.symm, ih _ h3⟩


theorem all_ne_dotdot {rel : Path} (h : ".." ∉ rel) : rel.all (fun c => c != "..") = true := by
  rw [List.all_eq_true]
  intro c hc
  simp only [bne_iff_ne, ne_eq]
  intro e; exact h (e ▸ hc)

theorem relUnder_plain (fs : FS) (root rel : Path) (hr : DirChain fs [] root)
    (hp : NoLinkBelow fs root rel) : relUnder fs root (root ++ rel) = some rel := by
  unfold relUnder
  rw [canonOrKeep_plain fs root rel hr hp, stripPrefix_append]
  simp only [all_ne_dotdot (noLinkBelow_noDotDot fs root rel hp), if_true]

theorem canonicalize_dirChain (fs : FS) (p : Path) (h : DirChain fs [] p) : canonicalize fs p = .ok p := by
  unfold canonicalize canonFuel walkF
  simpa using walkWith_dirChain _ fs [] p rfl h

theorem noLinkBelow_append (fs : FS) (cur a b : Path) :
    NoLinkBelow fs cur (a ++ b) ↔ NoLinkBelow fs cur a ∧ NoLinkBelow fs (cur ++ a) b := by
  induction a generalizing cur with
  | nil => simp [NoLinkBelow]
  | cons x xs ih =>
    simp only [List.cons_append, NoLinkBelow, ih]
    constructor
    · rintro ⟨h1, h2, h3, h4⟩; exact ⟨⟨h1, h2, h3⟩, by simpa using h4⟩
    · rintro ⟨⟨h1, h2, h3⟩, h4⟩; exact ⟨h1, h2, h3, by simpa using h4⟩

theorem resolveOrParent_plain (fs : FS) (root rel : Path) (hr : DirChain fs [] root)
    (hp : NoLinkBelow fs root rel) : resolveOrParent fs (root ++ rel) = root ++ rel := by
  unfold resolveOrParent
  rcases canonicalize_plain fs root rel hr hp with h | ⟨e, h⟩
  · rw [h]
  · rw [h]
    simp only
    rcases List.eq_nil_or_concat rel with hnil | ⟨init, last, hrel⟩
    · subst hnil
      rw [List.append_nil] at h
      rw [canonicalize_dirChain fs root hr] at h
      cases h
    · rw [List.concat_eq_append] at hrel
      subst hrel
      have hp' := (noLinkBelow_append fs root init [last]).mp hp
      have eassoc : root ++ (init ++ [last]) = root ++ init ++ [last] := (List.append_assoc _ _ _).symm
      rw [eassoc]
      simp only [List.getLast?_concat, List.dropLast_concat]
      split
      · rfl
      · rcases canonicalize_plain fs root init hr hp'.1 with hc | ⟨e', hc⟩ <;> rw [hc]

theorem toAbsolute_plain (fs : FS) (root rel : Path) (hr : DirChain fs [] root)
    (hp : NoLinkBelow fs root rel) : toAbsolute fs root rel = some (root ++ rel) := by
  unfold toAbsolute
  simp [resolveOrParent_plain fs root rel hr hp, stripPrefix_append]

/-! ### erasing a non-directory node keeps plain paths plain -/

theorem dirChain_eraseKey (fs : FS) (k cur p : Path) (hk : fs.lookup k ≠ some .dir)
    (h : DirChain fs cur p) : DirChain (eraseKey fs k) cur p := by
  induction p generalizing cur with
  | nil => trivial
  | cons c rest ih =>
    obtain ⟨h1, h2, h3⟩ := h
    refine ⟨h1, ?_, ih _ h3⟩
    rw [lookup_eraseKey]
    by_cases hc : cur ++ [c] = k
    · rw [hc] at h2; exact absurd h2 hk
    · simp [hc, h2]

theorem noLinkBelow_eraseKey (fs : FS) (k cur p : Path) (h : NoLinkBelow fs cur p) :
    NoLinkBelow (eraseKey fs k) cur p := by
  induction p generalizing cur with
  | nil => trivial
  | cons c rest ih =>
    obtain ⟨h1, h2, h3⟩ := h
    refine ⟨h1, ?_, ih _ h3⟩
    intro t
    rw [lookup_eraseKey]
    by_cases hc : cur ++ [c] = k
    · simp [hc]
    · simp [hc, h2 t]

/-- what `unlink` does to the file system: nothing, or one non-directory node disappears -/
theorem unlink_fs (fs : FS) (p : Path) :
    (unlink fs p).2 = fs ∨
      ∃ k, fs.lookup k ≠ some .dir ∧ (unlink fs p).1 = .ok ∧ (unlink fs p).2 = eraseKey fs k := by
  unfold unlink
  cases p.getLast? with
  | none => left; rfl
  | some last =>
    simp only
    cases canonicalize fs p.dropLast with
    | error e => cases e <;> (left; rfl)
    | ok par =>
      simp only
      split
      · left; rfl
      · split
        · left; rfl
        · cases hl : fs.lookup (par ++ [last]) with
          | none => left; rfl
          | some n =>
            cases n with
            | dir => left; rfl
            | file => right; exact ⟨par ++ [last], by simp [hl], rfl, rfl⟩
            | link t => right; exact ⟨par ++ [last], by simp [hl], rfl, rfl⟩

theorem unlink_fs_of_not_ok (fs : FS) (p : Path) (h : (unlink fs p).1 ≠ .ok) : (unlink fs p).2 = fs := by
  rcases unlink_fs fs p with h1 | ⟨k, _, h2, _⟩
  · exact h1
  · exact absurd h2 h

theorem dirChain_unlink (fs : FS) (p cur q : Path) (h : DirChain fs cur q) :
    DirChain (unlink fs p).2 cur q := by
  rcases unlink_fs fs p with h1 | ⟨k, hk, _, h2⟩
  · rw [h1]; exact h
  · rw [h2]; exact dirChain_eraseKey fs k cur q hk h

theorem noLinkBelow_unlink (fs : FS) (p cur q : Path) (h : NoLinkBelow fs cur q) :
    NoLinkBelow (unlink fs p).2 cur q := by
  rcases unlink_fs fs p with h1 | ⟨k, _, _, h2⟩
  · rw [h1]; exact h
  · rw [h2]; exact noLinkBelow_eraseKey fs k cur q h

theorem lookup_none_unlink (fs : FS) (p q : Path) (h : fs.lookup q = none) :
    (unlink fs p).2.lookup q = none := by
  rcases unlink_fs fs p with h1 | ⟨k, _, _, h2⟩
  · rw [h1]; exact h
  · rw [h2, lookup_eraseKey]; split <;> simp [h]

end Quota
