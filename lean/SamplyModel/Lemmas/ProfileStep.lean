import SamplyModel.Lemmas.ProfileInv
/-!
Preservation of the table invariant `TInv` by the helpers of the profile API (categories, address
resolution, string conversion, frame interning).
-/
namespace PT

/-! ### categories -/

def CatsLe (cats cats' : List Cat) : Prop :=
  cats.length ≤ cats'.length ∧ ∀ i, subCount cats i ≤ subCount cats' i

def CatsPos (cats : List Cat) : Prop := ∀ c, c < cats.length → 0 < subCount cats c

theorem CatsLe.refl (cats : List Cat) : CatsLe cats cats := ⟨Nat.le_refl _, fun _ => Nat.le_refl _⟩

theorem CatsLe.trans {a b c : List Cat} (h1 : CatsLe a b) (h2 : CatsLe b c) : CatsLe a c :=
  ⟨Nat.le_trans h1.1 h2.1, fun i => Nat.le_trans (h1.2 i) (h2.2 i)⟩

theorem subCount_lt_length {cats : List Cat} {c s : Nat} (h : s < subCount cats c) : c < cats.length := by
  unfold subCount at h
  cases hc : cats[c]? with
  | none => simp [hc] at h
  | some x => exact (List.getElem?_eq_some_iff.mp hc).1

theorem subCount_append (cats : List Cat) (x : Cat) (i : Nat) :
    subCount (cats ++ [x]) i = if i < cats.length then subCount cats i else if i = cats.length then x.subs.length else 0 := by
  unfold subCount
  by_cases h : i < cats.length
  · simp [h, List.getElem?_append_left h]
  · simp only [h, if_false]
    rw [List.getElem?_append_right (by omega)]
    by_cases h2 : i = cats.length
    · simp [h2]
    · simp only [h2, if_false]
      cases hk : i - cats.length with
      | zero => omega
      | succ k => simp

theorem subCount_set (cats : List Cat) (c : Nat) (x : Cat) (i : Nat) (hc : c < cats.length) :
    subCount (cats.set c x) i = if i = c then x.subs.length else subCount cats i := by
  unfold subCount
  by_cases h : i = c
  · subst h; simp [hc]
  · simp [h, List.getElem?_set_ne (Ne.symm h)]

theorem subCount_of_get {cats : List Cat} {c : Nat} {cat : Cat} (h : cats[c]? = some cat) :
    subCount cats c = cat.subs.length := by simp [subCount, h]

/-- replacing the category list by a grown one -/
theorem TInv.setCats {p : P} (h : TInv p) (cats' : List Cat) (hle : CatsLe p.cats cats')
    (hpos : CatsPos cats') : TInv { p with cats := cats' } := by
  refine h.grow h.libs (Nat.le_refl _) h.gstr ?_ rfl hpos ?_ h.statics rfl rfl rfl rfl
  · exact ⟨Nat.le_refl _, hle.2, hle.1, fun _ _ h => h, Nat.le_refl _, Nat.le_refl _⟩
  · intro sc hsc; exact Nat.lt_of_lt_of_le (h.schemaCats sc hsc) hle.1

theorem P.handleForCategory_spec (p : P) (name : Str) (color : Nat) (hpos : CatsPos p.cats) :
    (p.handleForCategory name color).1 = { p with cats := (p.handleForCategory name color).1.cats } ∧
    CatsLe p.cats (p.handleForCategory name color).1.cats ∧ CatsPos (p.handleForCategory name color).1.cats ∧
    (p.handleForCategory name color).2 < (p.handleForCategory name color).1.cats.length := by
  unfold P.handleForCategory
  simp only [List.length_map]
  split
  · rename_i hi
    refine ⟨rfl, CatsLe.refl _, hpos, ?_⟩
    exact Nat.lt_of_le_of_lt (Nat.mod_le _ _) hi
  · refine ⟨rfl, ⟨by simp, ?_⟩, ?_, ?_⟩
    · intro i
      simp only [subCount_append]
      split
      · exact Nat.le_refl _
      · rename_i h
        have : subCount p.cats i = 0 := by
          unfold subCount
          rw [List.getElem?_eq_none (by omega)]; rfl
        omega
    · intro c hc
      simp only [subCount_append]
      simp only [List.length_append, List.length_cons, List.length_nil] at hc
      split
      · rename_i h; exact hpos c h
      · have : c = p.cats.length := by omega
        simp [this]
    · simp only [List.length_append, List.length_cons, List.length_nil]
      exact Nat.lt_of_le_of_lt (Nat.mod_le _ _) (by omega)

theorem P.handleForSubcategory_spec (p : P) (c : Nat) (name : Str) (hpos : CatsPos p.cats) :
    (p.handleForSubcategory c name).1 = { p with cats := (p.handleForSubcategory c name).1.cats } ∧
    CatsLe p.cats (p.handleForSubcategory c name).1.cats ∧ CatsPos (p.handleForSubcategory c name).1.cats ∧
    ∀ s, (p.handleForSubcategory c name).2 = some s → s < subCount (p.handleForSubcategory c name).1.cats c := by
  unfold P.handleForSubcategory
  cases hcat : p.cats[c]? with
  | none => exact ⟨rfl, CatsLe.refl _, hpos, fun s h => by cases h⟩
  | some cat =>
    have hc : c < p.cats.length := (List.getElem?_eq_some_iff.mp hcat).1
    by_cases hi : List.idxOf name cat.subs < cat.subs.length
    · simp only [hi, ↓reduceIte]
      refine ⟨trivial, CatsLe.refl _, hpos, ?_⟩
      intro s hs
      split at hs
      · cases hs; rw [subCount_of_get hcat]; exact hi
      · cases hs
    · simp only [hi, ↓reduceIte]
      refine ⟨trivial, ⟨by simp, ?_⟩, ?_, ?_⟩
      · intro i
        simp only [subCount_set _ _ _ _ hc]
        split
        · rename_i h; subst h; rw [subCount_of_get hcat]; simp
        · exact Nat.le_refl _
      · intro i hi
        simp only [List.length_set] at hi
        simp only [subCount_set _ _ _ _ hc]
        split
        · simp
        · exact hpos i hi
      · intro s hs
        split at hs
        · cases hs; simp [subCount_set _ _ _ _ hc]
        · cases hs

/-- resolving the `IntoSubcategoryHandle` argument: only `cats` changes (grows), and an `ok` result
denotes an existing subcategory -/
theorem P.resolveSub_spec (p : P) (sc : SubSpec) (hpos : CatsPos p.cats) (h0 : 0 < p.cats.length)
    (hv : p.subSpecOk sc = true) :
    (p.resolveSub sc).1 = { p with cats := (p.resolveSub sc).1.cats } ∧
    CatsLe p.cats (p.resolveSub sc).1.cats ∧ CatsPos (p.resolveSub sc).1.cats ∧
    (∀ c s, (p.resolveSub sc).2 = .ok c s → s < subCount (p.resolveSub sc).1.cats c) ∧
    (p.resolveSub sc).2 ≠ .invalid := by
  cases sc with
  | other =>
    refine ⟨rfl, CatsLe.refl _, hpos, ?_, by simp [P.resolveSub]⟩
    intro c s h
    simp only [P.resolveSub, SubRes.ok.injEq] at h
    obtain ⟨h1, h2⟩ := h
    subst h1; subst h2
    exact hpos 0 h0
  | cat c =>
    simp only [P.subSpecOk, decide_eq_true_eq] at hv
    simp only [P.resolveSub, hv, if_true]
    refine ⟨trivial, CatsLe.refl _, hpos, ?_, by simp⟩
    intro c' s h
    simp only [SubRes.ok.injEq] at h
    obtain ⟨h1, h2⟩ := h
    subst h1; subst h2
    exact hpos _ hv
  | sub c s =>
    simp only [P.subSpecOk] at hv
    simp only [P.resolveSub]
    cases hc : p.cats[c]? with
    | none => simp [hc] at hv
    | some cat =>
      simp only [hc, decide_eq_true_eq] at hv
      simp only [hv, if_true]
      refine ⟨trivial, CatsLe.refl _, hpos, ?_, by simp⟩
      intro c' s' h
      simp only [SubRes.ok.injEq] at h
      obtain ⟨h1, h2⟩ := h
      subst h1; subst h2
      rw [subCount_of_get hc]; exact hv
  | catVal name color =>
    obtain ⟨e, hle, hp, hlt⟩ := p.handleForCategory_spec name color hpos
    simp only [P.resolveSub]
    refine ⟨e, hle, hp, ?_, by simp⟩
    intro c s h
    simp only [SubRes.ok.injEq] at h
    obtain ⟨h1, h2⟩ := h
    subst h1; subst h2
    exact hp _ hlt
  | subVal name color sub =>
    obtain ⟨e, hle, hp, hlt⟩ := p.handleForCategory_spec name color hpos
    obtain ⟨e2, hle2, hp2, hs2⟩ :=
      (p.handleForCategory name color).1.handleForSubcategory_spec (p.handleForCategory name color).2 sub hp
    simp only [P.resolveSub]
    cases hq : (p.handleForCategory name color).1.handleForSubcategory (p.handleForCategory name color).2 sub with
    | mk q1 q2 =>
      rw [hq] at e2 hle2 hp2 hs2
      simp only at e2 hle2 hp2 hs2
      have e3 : q1 = { p with cats := q1.cats } := by
        rw [e2, e]
      cases q2 with
      | none => exact ⟨e3, hle.trans hle2, hp2, (by intro c s h; cases h), by simp⟩
      | some s =>
        refine ⟨e3, hle.trans hle2, hp2, ?_, by simp⟩
        intro c s' h
        simp only [SubRes.ok.injEq] at h
        obtain ⟨h1, h2⟩ := h
        subst h1; subst h2
        exact hs2 _ rfl

/-! ### strings -/

theorem P.gstr_of_strOk {p : P} {g : Nat} (h : p.strOk g = true) : ∃ s, p.gstr g = some s := by
  simp only [P.strOk, decide_eq_true_eq] at h
  exact ⟨_, List.getElem?_eq_getElem h⟩

theorem convertOpt_spec (p : P) (st : ThreadStrings) (o : Option Nat) (hs : TSInv st)
    (ho : p.optStrOk o = true) :
    ∃ st' o', convertOpt p st o = some (st', o') ∧ TSInv st' ∧ st.n ≤ st'.n ∧
      (∀ x, o' = some x → x < st'.n) ∧ (o = none → o' = none) := by
  cases o with
  | none => exact ⟨st, none, rfl, hs, Nat.le_refl _, (by intro x h; cases h), fun _ => rfl⟩
  | some g =>
    obtain ⟨s, hg⟩ := P.gstr_of_strOk (p := p) (g := g) ho
    have h1 := st.forGlobal_spec g s hs
    refine ⟨(st.forGlobal g s).1, some (st.forGlobal g s).2, by simp [convertOpt, hg], h1.1, h1.2.2, ?_, by intro h; cases h⟩
    intro x hx; cases hx; exact h1.2.1

/-- replacing the global string table by a grown one -/
theorem TInv.setGstrings {p : P} (h : TInv p) (g' : StringTable) (hg : StrInv g')
    (hle : p.gstrings.strings.length ≤ g'.strings.length) : TInv { p with gstrings := g' } := by
  refine h.grow h.libs (Nat.le_refl _) hg ?_ rfl h.subsPos h.schemaCats h.statics rfl rfl rfl rfl
  exact ⟨Nat.le_refl _, fun _ => Nat.le_refl _, Nat.le_refl _, fun _ _ h => h, hle, Nat.le_refl _⟩

theorem P.hexString_spec (p : P) (a : Nat) (h : TInv p) :
    TInv (p.hexString a).1 ∧ (p.hexString a).1 = { p with gstrings := (p.hexString a).1.gstrings } ∧
    p.gstrings.strings.length ≤ (p.hexString a).1.gstrings.strings.length ∧
    (p.hexString a).2.1 < (p.hexString a).1.gstrings.strings.length := by
  have h1 := p.gstrings.indexFor_spec (hexStr a) h.gstr
  exact ⟨h.setGstrings _ h1.1 h1.2.2, rfl, h1.2.2, h1.2.1⟩

/-! ### libraries and addresses -/

/-- replacing the library table by a grown one -/
theorem TInv.setLibs {p : P} (h : TInv p) (l' : GlobalLibs) (hl : LibsInv l')
    (hall : p.libs.all.length ≤ l'.all.length) (hused : p.libs.used.length ≤ l'.used.length) :
    TInv { p with libs := l' } := by
  refine h.grow hl hall h.gstr ?_ rfl h.subsPos h.schemaCats h.statics rfl rfl rfl rfl
  exact ⟨hused, fun _ => Nat.le_refl _, Nat.le_refl _, fun _ _ h => h, Nat.le_refl _, Nat.le_refl _⟩

theorem mappingLookup_mem (maps : List Mapping) (a : Nat) (m : Mapping) (h : mappingLookup maps a = some m) :
    m ∈ maps := by
  unfold mappingLookup at h
  have key : ∀ (l : List Mapping) (b : Option Mapping) (r : Mapping),
      l.foldl (fun (b : Option Mapping) m =>
        if m.start ≤ a then
          match b with
          | none => some m
          | some b' => if b'.start < m.start then some m else some b'
        else b) b = some r → r ∈ l ∨ b = some r := by
    intro l
    induction l with
    | nil => intro b r h; exact Or.inr h
    | cons x xs ih =>
      intro b r h
      simp only [List.foldl_cons] at h
      rcases ih _ r h with h1 | h1
      · exact Or.inl (List.mem_cons_of_mem _ h1)
      · split at h1
        · split at h1
          · cases h1; exact Or.inl List.mem_cons_self
          · split at h1
            · cases h1; exact Or.inl List.mem_cons_self
            · rename_i b' _ _; exact Or.inr h1
        · exact Or.inr h1
  dsimp only at h
  split at h
  · rename_i m' hm'
    split at h
    · simp only [Option.some.injEq] at h
      subst h
      rcases key maps none _ hm' with h1 | h1
      · exact h1
      · cases h1
    · cases h
  · cases h

theorem mappingConvert_lib (maps : List Mapping) (a rel lib : Nat)
    (h : mappingConvert maps a = some (some (rel, lib))) : ∃ m ∈ maps, m.lib = lib := by
  unfold mappingConvert at h
  split at h
  · cases h
  · rename_i m hm
    dsimp only at h
    split at h
    · simp only [Option.some.injEq, Prod.mk.injEq] at h
      exact ⟨m, mappingLookup_mem maps a m hm, h.2⟩
    · cases h

def AddrPre (n : Nat) : AddrSpec → Prop
  | .abs _ _ => True
  | .rel _ lib _ => lib < n

/-- whichever table decides the address, its libraries are valid handles -/
theorem effMaps_libs {kmaps maps : List Mapping} {n : Nat} (hk : ∀ m ∈ kmaps, m.lib < n)
    (hm : ∀ m ∈ maps, m.lib < n) (a : AddrSpec) : ∀ m ∈ effMaps kmaps maps a, m.lib < n := by
  cases a with
  | abs k x =>
    simp only [effMaps]
    split
    · exact hk
    · exact hm
  | rel k l x => exact hm

theorem resolveAddr_spec (libs : GlobalLibs) (maps : List Mapping) (a : AddrSpec) (hl : LibsInv libs)
    (hm : ∀ m ∈ maps, m.lib < libs.all.length) (ha : AddrPre libs.all.length a) :
    LibsInv (resolveAddr libs maps a).1 ∧ (resolveAddr libs maps a).1.all = libs.all ∧
    (resolveAddr libs maps a).1.symtabs = libs.symtabs ∧
    libs.used.length ≤ (resolveAddr libs maps a).1.used.length ∧
    (resolveAddr libs maps a).2 ≠ .invalid ∧
    ∀ rel lib, (resolveAddr libs maps a).2 = .inLib rel lib → lib < (resolveAddr libs maps a).1.used.length := by
  cases a with
  | abs k addr =>
    simp only [resolveAddr]
    generalize k.adjust addr = a'
    cases hc : mappingConvert maps a' with
    | none => exact ⟨hl, rfl, rfl, Nat.le_refl _, by simp, (by intro r l h; cases h)⟩
    | some o =>
      cases o with
      | none => exact ⟨hl, rfl, rfl, Nat.le_refl _, by simp, (by intro r l h; cases h)⟩
      | some rl =>
        obtain ⟨rel, lib⟩ := rl
        obtain ⟨m, hmm, hml⟩ := mappingConvert_lib maps a' rel lib hc
        have hlib : lib < libs.all.length := hml ▸ hm m hmm
        have h1 := libs.indexForUsed_spec lib hl hlib
        refine ⟨h1.1, h1.2.2.2.1, h1.2.2.2.2, h1.2.2.1, by simp, ?_⟩
        intro r l h
        simp only [AddrRes.inLib.injEq] at h
        rw [← h.2]; exact h1.2.1
  | rel k lib addr =>
    simp only [AddrPre] at ha
    have h1 := libs.indexForUsed_spec lib hl ha
    simp only [resolveAddr, ha, if_true]
    refine ⟨h1.1, h1.2.2.2.1, h1.2.2.2.2, h1.2.2.1, by simp, ?_⟩
    intro r l h
    simp only [AddrRes.inLib.injEq] at h
    rw [← h.2]; exact h1.2.1

end PT
