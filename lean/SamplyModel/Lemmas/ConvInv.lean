import SamplyModel.Lemmas.ConvAL
/-!
The converter invariant behind C01 (sample conservation).

* skeleton of the entry tables: `psk` (pid of every process entry), `tsk` ((proc, tid) of every thread entry);
  entries are only appended and `set*` never touches these fields
* `InvA`: keys of `procs` distinct and equal to the stored pid, every stored handle (process, main thread,
  threads, thread pools, process pool) is a valid entry index, every thread entry's process index is valid,
  and – without thread reuse – handles are bound to entries carrying the right pid / tid
* `buffered`: all buffered samples (parked buffers, then live ones)
* `tl`: the `lastTs` of the thread object bound to (pid, tid)
* `Good s s'`: the step from `s` to `s'` keeps `cfg`, extends the skeleton, keeps `InvA` and the multiset of
  buffered samples; `GoodT` additionally keeps `tl`
-/
namespace Conv

def psk (l : List PEntry) : List Nat := l.map (·.pid)
def tsk (l : List TEntry) : List (Nat × Nat) := l.map (fun e => (e.proc, e.tid))

theorem prefix_getElem? {α} {l l' : List α} {i : Nat} {x : α} (h : l <+: l') (hx : l[i]? = some x) :
    l'[i]? = some x := by
  obtain ⟨t, rfl⟩ := h
  have hi : i < l.length := (List.getElem?_eq_some_iff.mp hx).1
  rw [List.getElem?_append_left hi]; exact hx

structure ProcOK (r : Bool) (P : List Nat) (T : List (Nat × Nat)) (p : ProcC) : Prop where
  h : p.h < P.length
  main : p.main.h < T.length
  thr : ∀ e ∈ p.threads, e.2.h < T.length
  pool : PoolOK T.length p.pool
  bind : r = false → P[p.h]? = some p.pid ∧ T[p.main.h]? = some (p.h, p.pid) ∧
      ∀ e ∈ p.threads, T[e.2.h]? = some (p.h, e.1)

theorem ProcOK.mono {r : Bool} {P P' : List Nat} {T T' : List (Nat × Nat)} {p : ProcC}
    (hp : ProcOK r P T p) (hP : P <+: P') (hT : T <+: T') : ProcOK r P' T' p where
  h := Nat.lt_of_lt_of_le hp.h hP.length_le
  main := Nat.lt_of_lt_of_le hp.main hT.length_le
  thr := fun e he => Nat.lt_of_lt_of_le (hp.thr e he) hT.length_le
  pool := hp.pool.mono hT.length_le
  bind := fun hr => ⟨prefix_getElem? hP (hp.bind hr).1, prefix_getElem? hT (hp.bind hr).2.1,
    fun e he => prefix_getElem? hT ((hp.bind hr).2.2 e he)⟩

theorem ProcOK.congr {r : Bool} {P : List Nat} {T : List (Nat × Nat)} {p p' : ProcC} (hp : ProcOK r P T p)
    (h1 : p'.pid = p.pid) (h2 : p'.h = p.h) (h3 : p'.main.h = p.main.h) (h4 : p'.threads = p.threads)
    (h5 : p'.pool = p.pool) : ProcOK r P T p' where
  h := by rw [h2]; exact hp.h
  main := by rw [h3]; exact hp.main
  thr := by rw [h4]; exact hp.thr
  pool := by rw [h5]; exact hp.pool
  bind := by rw [h1, h2, h3, h4]; exact hp.bind

/-- replace the thread table and the pool -/
theorem ProcOK.withThreads {r : Bool} {P : List Nat} {T : List (Nat × Nat)} {p p' : ProcC}
    (hp : ProcOK r P T p) (h1 : p'.pid = p.pid) (h2 : p'.h = p.h) (h3 : p'.main.h = p.main.h)
    (ht : ∀ e ∈ p'.threads, e.2.h < T.length ∧ (r = false → T[e.2.h]? = some (p.h, e.1)))
    (hpool : PoolOK T.length p'.pool) : ProcOK r P T p' where
  h := by rw [h2]; exact hp.h
  main := by rw [h3]; exact hp.main
  thr := fun e he => (ht e he).1
  pool := hpool
  bind := fun hr => by
    rw [h1, h2, h3]
    exact ⟨(hp.bind hr).1, (hp.bind hr).2.1, fun e he => (ht e he).2 hr⟩

theorem ProcOK.thrAll {r : Bool} {P : List Nat} {T : List (Nat × Nat)} {p : ProcC} (hp : ProcOK r P T p) :
    ∀ e ∈ p.threads, e.2.h < T.length ∧ (r = false → T[e.2.h]? = some (p.h, e.1)) :=
  fun e he => ⟨hp.thr e he, fun hr => (hp.bind hr).2.2 e he⟩

theorem all_alPut {β} {Q : Nat × β → Prop} {l : List (Nat × β)} {k : Nat} {v : β}
    (hl : ∀ e ∈ l, Q e) (hv : Q (k, v)) : ∀ e ∈ alPut l k v, Q e := by
  intro e he
  rcases mem_alPut.mp he with rfl | he
  · exact hv
  · exact hl e he.1

theorem all_alDel {β} {Q : Nat × β → Prop} {l : List (Nat × β)} {k : Nat}
    (hl : ∀ e ∈ l, Q e) : ∀ e ∈ alDel l k, Q e :=
  fun e he => hl e (mem_alDel.mp he).1

structure InvC (r : Bool) (procs : List (Nat × ProcC)) (P : List Nat) (T : List (Nat × Nat))
    (pp : List (String × List ProcRecycle)) : Prop where
  nodup : NodupKeys procs
  procs : ∀ e ∈ procs, e.2.pid = e.1 ∧ ProcOK r P T e.2
  tents : ∀ e ∈ T, e.1 < P.length
  ppool : ProcPoolOK P.length T.length pp

def InvA (s : St) : Prop := InvC s.cfg.reuse s.procs (psk s.pents) (tsk s.tents) s.procPool

theorem InvC.get {r procs P T pp} (h : InvC r procs P T pp) {k : Nat} {p : ProcC}
    (hg : alGet procs k = some p) : p.pid = k ∧ ProcOK r P T p :=
  h.procs (k, p) (alGet_mem hg)

theorem InvC.put {r procs P T pp} (h : InvC r procs P T pp) {p : ProcC} (hp : ProcOK r P T p) :
    InvC r (alPut procs p.pid p) P T pp where
  nodup := h.nodup.alPut _ _
  procs := all_alPut (Q := fun e => e.2.pid = e.1 ∧ ProcOK r P T e.2) h.procs ⟨rfl, hp⟩
  tents := h.tents
  ppool := h.ppool

theorem InvC.del {r procs P T pp} (h : InvC r procs P T pp) (k : Nat) : InvC r (alDel procs k) P T pp where
  nodup := h.nodup.alDel _
  procs := all_alDel (Q := fun e => e.2.pid = e.1 ∧ ProcOK r P T e.2) h.procs
  tents := h.tents
  ppool := h.ppool

theorem InvC.setPool {r procs P T pp pp'} (h : InvC r procs P T pp) (hp : ProcPoolOK P.length T.length pp') :
    InvC r procs P T pp' := ⟨h.nodup, h.procs, h.tents, hp⟩

theorem InvC.mono {r procs P T pp P' T'} (h : InvC r procs P T pp) (hP : P <+: P') (hT : T <+: T')
    (ht : ∀ e ∈ T', e.1 < P'.length) : InvC r procs P' T' pp where
  nodup := h.nodup
  procs := fun e he => ⟨(h.procs e he).1, (h.procs e he).2.mono hP hT⟩
  tents := ht
  ppool := h.ppool.mono hP.length_le hT.length_le

/-! ## observations -/

def bufP (procs : List (Nat × ProcC)) : List USample := procs.flatMap (·.2.samples)
def buffered (s : St) : List USample := s.parked.flatMap (·.1) ++ bufP s.procs

def thrOf (p : ProcC) (tid : Nat) : Option ThreadC :=
  if tid = p.pid then some p.main else alGet p.threads tid
def lastOf (p : ProcC) (tid : Nat) : Option Nat := (thrOf p tid).bind (·.lastTs)
def tlP (procs : List (Nat × ProcC)) (pid tid : Nat) : Option Nat :=
  (alGet procs pid).bind (fun p => lastOf p tid)
def tl (s : St) (pid tid : Nat) : Option Nat := tlP s.procs pid tid

theorem bufP_alPut (procs : List (Nat × ProcC)) (k : Nat) (p : ProcC) :
    bufP (alPut procs k p) = p.samples ++ bufP (alDel procs k) := by
  simp [bufP, alPut]

theorem bufP_perm_get {procs : List (Nat × ProcC)} {k : Nat} {p : ProcC} (hn : NodupKeys procs)
    (hg : alGet procs k = some p) : List.Perm (bufP procs) (p.samples ++ bufP (alDel procs k)) := by
  have := (perm_of_alGet hn hg).flatMap_right (fun e => e.2.samples)
  simpa [bufP] using this

theorem tlP_alPut (procs : List (Nat × ProcC)) (k : Nat) (p : ProcC) (a b : Nat) :
    tlP (alPut procs k p) a b = if a = k then lastOf p b else tlP procs a b := by
  unfold tlP
  rw [alGet_alPut]
  by_cases h : a = k <;> simp [h]

theorem tlP_alDel (procs : List (Nat × ProcC)) (k : Nat) (a b : Nat) :
    tlP (alDel procs k) a b = if a = k then none else tlP procs a b := by
  unfold tlP
  rw [alGet_alDel]
  by_cases h : a = k <;> simp [h]

theorem tlP_of_get {procs : List (Nat × ProcC)} {k : Nat} {p : ProcC} (hg : alGet procs k = some p) (b : Nat) :
    tlP procs k b = lastOf p b := by
  unfold tlP; rw [hg]; rfl

theorem tlP_of_none {procs : List (Nat × ProcC)} {k : Nat} (hg : alGet procs k = none) (b : Nat) :
    tlP procs k b = none := by
  unfold tlP; rw [hg]; rfl

theorem lastOf_congr {p p' : ProcC} (h1 : p'.pid = p.pid) (h2 : p'.main.lastTs = p.main.lastTs)
    (h3 : p'.threads = p.threads) (b : Nat) : lastOf p' b = lastOf p b := by
  unfold lastOf thrOf
  rw [h1, h3]
  by_cases h : b = p.pid <;> simp [h, h2]

/-! ## the step relations -/

structure Good (s s' : St) : Prop where
  cfg : s'.cfg = s.cfg
  extP : psk s.pents <+: psk s'.pents
  extT : tsk s.tents <+: tsk s'.tents
  inv : InvA s'
  buf : List.Perm (buffered s') (buffered s)

structure GoodT (s s' : St) : Prop extends Good s s' where
  tl : ∀ a b, tl s' a b = tl s a b

theorem Good.refl {s : St} (h : InvA s) : Good s s :=
  ⟨rfl, List.prefix_refl _, List.prefix_refl _, h, List.Perm.refl _⟩

theorem GoodT.refl {s : St} (h : InvA s) : GoodT s s := ⟨Good.refl h, fun _ _ => rfl⟩

theorem Good.trans {s1 s2 s3 : St} (h1 : Good s1 s2) (h2 : Good s2 s3) : Good s1 s3 :=
  ⟨h2.cfg.trans h1.cfg, h1.extP.trans h2.extP, h1.extT.trans h2.extT, h2.inv, h2.buf.trans h1.buf⟩

theorem GoodT.trans {s1 s2 s3 : St} (h1 : GoodT s1 s2) (h2 : GoodT s2 s3) : GoodT s1 s3 :=
  ⟨h1.toGood.trans h2.toGood, fun a b => (h2.tl a b).trans (h1.tl a b)⟩

/-- only the entry tables change (appended entries / fields outside the skeleton) -/
structure Skel (s s' : St) : Prop where
  cfg : s'.cfg = s.cfg
  procs : s'.procs = s.procs
  parked : s'.parked = s.parked
  procPool : s'.procPool = s.procPool
  extP : psk s.pents <+: psk s'.pents
  extT : tsk s.tents <+: tsk s'.tents
  tents : (∀ e ∈ tsk s.tents, e.1 < (psk s.pents).length) → ∀ e ∈ tsk s'.tents, e.1 < (psk s'.pents).length

theorem Skel.goodT {s s' : St} (h : Skel s s') (hinv : InvA s) : GoodT s s' where
  cfg := h.cfg
  extP := h.extP
  extT := h.extT
  inv := by
    unfold InvA at *
    rw [h.cfg, h.procs, h.procPool]
    exact hinv.mono h.extP h.extT (h.tents hinv.tents)
  buf := by unfold buffered; rw [h.parked, h.procs]
  tl := by intro a b; unfold tl; rw [h.procs]

theorem Skel.refl (s : St) : Skel s s :=
  ⟨rfl, rfl, rfl, rfl, List.prefix_refl _, List.prefix_refl _, fun h => h⟩

theorem Skel.trans {s1 s2 s3 : St} (h1 : Skel s1 s2) (h2 : Skel s2 s3) : Skel s1 s3 :=
  ⟨h2.cfg.trans h1.cfg, h2.procs.trans h1.procs, h2.parked.trans h1.parked, h2.procPool.trans h1.procPool,
   h1.extP.trans h2.extP, h1.extT.trans h2.extT, fun h => h2.tents (h1.tents h)⟩

/-- same skeleton -/
theorem Skel.of_eq {s s' : St} (h1 : s'.cfg = s.cfg) (h2 : s'.procs = s.procs) (h3 : s'.parked = s.parked)
    (h4 : s'.procPool = s.procPool) (h5 : psk s'.pents = psk s.pents) (h6 : tsk s'.tents = tsk s.tents) :
    Skel s s' :=
  ⟨h1, h2, h3, h4, by rw [h5]; exact List.prefix_refl _, by rw [h6]; exact List.prefix_refl _,
   fun h => by rw [h5, h6]; exact h⟩

theorem skel_setT (s : St) (h : Nat) (f : TEntry → TEntry) (hf : ∀ e, ((f e).proc, (f e).tid) = (e.proc, e.tid)) :
    Skel s (setT s h f) :=
  Skel.of_eq rfl rfl rfl rfl rfl (map_modifyNth _ f hf s.tents h)

theorem skel_setP (s : St) (h : Nat) (f : PEntry → PEntry) (hf : ∀ e, (f e).pid = e.pid) :
    Skel s (setP s h f) :=
  Skel.of_eq rfl rfl rfl rfl (map_modifyNth _ f hf s.pents h) rfl

theorem skel_setTName (s : St) (h : Nat) (n : String) : Skel s (setTName s h n) := skel_setT s h _ (fun _ => rfl)
theorem skel_setTStart (s : St) (h t : Nat) : Skel s (setTStart s h t) := skel_setT s h _ (fun _ => rfl)
theorem skel_setTEnd (s : St) (h t : Nat) : Skel s (setTEnd s h t) := skel_setT s h _ (fun _ => rfl)
theorem skel_setPName (s : St) (h : Nat) (n : String) : Skel s (setPName s h n) := skel_setP s h _ (fun _ => rfl)
theorem skel_setPStart (s : St) (h t : Nat) : Skel s (setPStart s h t) := skel_setP s h _ (fun _ => rfl)
theorem skel_setPEnd (s : St) (h t : Nat) : Skel s (setPEnd s h t) := skel_setP s h _ (fun _ => rfl)

theorem skel_cur (s : St) (t : Nat) : Skel s { s with cur := t } := Skel.of_eq rfl rfl rfl rfl rfl rfl

theorem addProcess_eq (s : St) (name : String) (pid start : Nat) :
    addProcess s name pid start =
      ({ s with usedPids := (uniq s.usedPids pid).1,
                pents := s.pents ++ [{ pid, suffix := (uniq s.usedPids pid).2, name, start }] },
       s.pents.length) := rfl

theorem addThread_eq (s : St) (ph tid start : Nat) (isMain : Bool) :
    addThread s ph tid start isMain =
      ({ s with usedTids := (uniq s.usedTids tid).1,
                tents := s.tents ++ [{ proc := ph, tid, suffix := (uniq s.usedTids tid).2, start, isMain }] },
       s.tents.length) := rfl

theorem addProcess_spec {s s1 : St} {name : String} {pid start ph : Nat}
    (h : addProcess s name pid start = (s1, ph)) :
    Skel s s1 ∧ ph = (psk s.pents).length ∧ psk s1.pents = psk s.pents ++ [pid] ∧ tsk s1.tents = tsk s.tents := by
  rw [addProcess_eq] at h
  obtain ⟨rfl, rfl⟩ := Prod.mk.inj h
  refine ⟨⟨rfl, rfl, rfl, rfl, ?_, List.prefix_refl _, ?_⟩, ?_, ?_, rfl⟩
  · simp [psk]
  · intro h e he
    have := h e he
    simp only [psk, List.map_append, List.length_append, List.length_map] at this ⊢
    omega
  · simp [psk]
  · simp [psk]

theorem addThread_spec {s s1 : St} {ph tid start th : Nat} {isMain : Bool}
    (h : addThread s ph tid start isMain = (s1, th)) (hph : ph < (psk s.pents).length) :
    Skel s s1 ∧ th = (tsk s.tents).length ∧ tsk s1.tents = tsk s.tents ++ [(ph, tid)] ∧
      psk s1.pents = psk s.pents := by
  rw [addThread_eq] at h
  obtain ⟨rfl, rfl⟩ := Prod.mk.inj h
  refine ⟨⟨rfl, rfl, rfl, rfl, List.prefix_refl _, ?_, ?_⟩, ?_, ?_, rfl⟩
  · simp [tsk]
  · intro h e he
    simp only [tsk, List.map_append, List.map_cons, List.map_nil, List.mem_append, List.mem_singleton] at he
    rcases he with he | rfl
    · exact h e he
    · exact hph
  · simp [tsk]
  · simp [tsk]

/-! ## putProc -/

theorem put_get (s : St) (p : ProcC) : alGet (putProc s p).procs p.pid = some p := alGet_alPut_self _ _ _

theorem put_tl (s : St) (p : ProcC) (a b : Nat) :
    tl (putProc s p) a b = if a = p.pid then lastOf p b else tl s a b := tlP_alPut _ _ _ _ _

theorem put_inv {s : St} {p : ProcC} (hinv : InvA s)
    (hok : ProcOK s.cfg.reuse (psk s.pents) (tsk s.tents) p) : InvA (putProc s p) :=
  InvC.put hinv hok

theorem put_good {s : St} {p p0 : ProcC} (hinv : InvA s) (hget : alGet s.procs p.pid = some p0)
    (hs : p.samples = p0.samples) (hok : ProcOK s.cfg.reuse (psk s.pents) (tsk s.tents) p) :
    Good s (putProc s p) where
  cfg := rfl
  extP := List.prefix_refl _
  extT := List.prefix_refl _
  inv := put_inv hinv hok
  buf := by
    unfold buffered putProc
    apply List.Perm.append_left
    simp only
    rw [bufP_alPut, hs]
    exact (bufP_perm_get hinv.nodup hget).symm

theorem put_goodT {s : St} {p p0 : ProcC} (hinv : InvA s) (hget : alGet s.procs p.pid = some p0)
    (hs : p.samples = p0.samples) (hl : ∀ b, lastOf p b = lastOf p0 b)
    (hok : ProcOK s.cfg.reuse (psk s.pents) (tsk s.tents) p) : GoodT s (putProc s p) where
  toGood := put_good hinv hget hs hok
  tl := by
    intro a b
    rw [put_tl]
    by_cases h : a = p.pid
    · simp only [h, if_true]; unfold tl; rw [tlP_of_get hget, hl]
    · simp only [h, if_false]

theorem put_fresh_goodT {s : St} {p : ProcC} (hinv : InvA s) (hget : alGet s.procs p.pid = none)
    (hs : p.samples = []) (hl : ∀ b, lastOf p b = none)
    (hok : ProcOK s.cfg.reuse (psk s.pents) (tsk s.tents) p) : GoodT s (putProc s p) where
  cfg := rfl
  extP := List.prefix_refl _
  extT := List.prefix_refl _
  inv := put_inv hinv hok
  buf := by
    unfold buffered putProc
    apply List.Perm.append_left
    simp only
    rw [bufP_alPut, hs, alDel_of_none hget]
    exact List.Perm.refl _
  tl := by
    intro a b
    rw [put_tl]
    by_cases h : a = p.pid
    · simp only [h, if_true]; unfold tl; rw [tlP_of_none hget, hl]
    · simp only [h, if_false]

theorem setPool_goodT {s : St} (hinv : InvA s) {pp : List (String × List ProcRecycle)}
    (hp : ProcPoolOK (psk s.pents).length (tsk s.tents).length pp) : GoodT s { s with procPool := pp } where
  cfg := rfl
  extP := List.prefix_refl _
  extT := List.prefix_refl _
  inv := InvC.setPool hinv hp
  buf := List.Perm.refl _
  tl := fun _ _ => rfl

end Conv
