import SamplyModel.Lemmas.ProfileGrow
/-!
Canonical interning along histories: what a returned stack handle denotes, now and after any further
operations.
-/
namespace PT

/-- the denotation of an existing stack handle is unchanged by anything that only appends -/
theorem grow_stackFrames {p p' : P} (hg : Grow p p') (hT : TInv p) (h : TH) (hv : p.stackOk h = true) :
    p'.stackFrames? h = p.stackFrames? h := by
  unfold P.stackOk at hv
  cases hth : p.threads[h.1]? with
  | none => simp [hth] at hv
  | some th =>
    simp only [hth, decide_eq_true_eq] at hv
    obtain ⟨th', hth', hle⟩ := hg h.1 th hth
    obtain ⟨_, _, _, a4, _⟩ := hT.thread hth
    obtain ⟨px, hpx⟩ := hle.1
    obtain ⟨fx, hfx⟩ := hle.2.1
    simp only [TProj] at hpx hfx
    simp only [P.stackFrames?, hth, hth']
    rw [← hpx, ← hfx]
    exact walk_append _ _ _ _ a4.1 a4.2.2.1 _ _ hv

/-- thread `t` after `setThread` -/
theorem P.setThread_get (p : P) (t : Nat) (th th' : Thread) (h : p.threads[t]? = some th) :
    (p.setThread t th').threads[t]? = some { th' with process := th.process, tid := th.tid } := by
  simp [P.setThread, List.getElem?_modify_eq, h]

/-- `handle_for_stack`: the returned handle denotes the parent's frames followed by the frame -/
theorem P.stack_denotes (p : P) (hT : TInv p) (t : Nat) (frame : TH) (parent : Option TH) (i : Nat)
    (ht : t < p.threads.length) (hp : p.optStackOk parent = true)
    (hout : (p.stack t frame parent).2 = .h [t, i]) :
    (p.stack t frame parent).1.stackFrames? (t, i) = (p.stack t frame parent).1.extendFrames? parent frame.2 := by
  unfold P.extendFrames?
  have hth := hT.thread (P.threads_get ht)
  have hst := hth.2.2.2.1
  -- the parent keeps its denotation
  have hstable : ∀ par, parent = some par → (p.stack t frame parent).1.stackFrames? par = p.stackFrames? par :=
    fun par hpar => grow_stackFrames (p.stack_grow t frame parent) hT par (by subst hpar; exact hp)
  unfold P.stack at hout ⊢
  simp only [P.threads_get ht] at hout ⊢
  cases parent with
  | none =>
    simp only at hout ⊢
    by_cases hft : frame.1 ≠ t
    · rw [if_pos hft] at hout; cases hout
    · rw [if_neg hft] at hout ⊢
      simp only [Out.h.injEq, List.cons.injEq, and_true, true_and] at hout
      subst hout
      simp only [P.stackFrames?, P.setThread_get p t _ _ (P.threads_get ht)]
      exact (p.threads[t]).stacks.indexFor_walk none frame.2 _ hst (by intro q hq; cases hq)
  | some par =>
    obtain ⟨pt, pi⟩ := par
    have hs := hstable (pt, pi) rfl
    unfold P.stack at hs
    simp only [P.threads_get ht] at hs
    simp only at hout ⊢ hs
    by_cases hpt : pt ≠ t
    · rw [if_pos hpt] at hout; cases hout
    · rw [if_neg hpt] at hout ⊢ hs
      by_cases hft : frame.1 ≠ t
      · rw [if_pos hft] at hout; cases hout
      · rw [if_neg hft] at hout ⊢ hs
        simp only [Out.h.injEq, List.cons.injEq, and_true, true_and] at hout
        subst hout
        have hpt' : pt = t := Decidable.of_not_not hpt
        subst hpt'
        have hpi := P.stackOk_same (f := (pt, pi)) ht hp rfl
        rw [hs]
        simp only [P.stackFrames?, P.setThread_get p pt _ _ (P.threads_get ht), P.threads_get ht]
        exact (p.threads[pt]).stacks.indexFor_walk (some pi) frame.2 _ hst (by intro q hq; cases hq; exact hpi)

/-- what the loop of `handle_for_stack_frames` builds: the given prefix followed by the frames -/
theorem stackFramesLoop_walk (t nFrames : Nat) :
    ∀ (frames : List TH) (st : StackTable) (pre : Option Nat) (acc : List Nat), StInv nFrames st →
      (∀ f ∈ frames, f.1 = t → f.2 < nFrames) →
      (match pre with
       | none => acc = []
       | some q => q < st.prefixes.length ∧ walk st.prefixes st.frames (q + 1) q = some acc) →
      ∀ res, (stackFramesLoop t st pre frames).2 = some res →
        match res with
        | none => frames = [] ∧ pre = none
        | some i => i < (stackFramesLoop t st pre frames).1.prefixes.length ∧
            walk (stackFramesLoop t st pre frames).1.prefixes (stackFramesLoop t st pre frames).1.frames (i + 1) i
              = some (acc ++ frames.map (·.2))
  | [], st, pre, acc, _, _, hpre, res, hres => by
    simp only [stackFramesLoop, Option.some.injEq] at hres
    subst hres
    cases pre with
    | none => exact ⟨rfl, rfl⟩
    | some q => simpa [stackFramesLoop] using hpre
  | f :: fs, st, pre, acc, hs, hf, hpre, res, hres => by
    unfold stackFramesLoop at hres ⊢
    by_cases hft : f.1 ≠ t
    · rw [if_pos hft] at hres; cases hres
    · rw [if_neg hft] at hres ⊢
      have hfi := hf f List.mem_cons_self (Decidable.of_not_not hft)
      have hpq : ∀ q, pre = some q → q < st.prefixes.length := by
        intro q hq; subst hq; exact hpre.1
      have h1 := st.indexFor_spec pre f.2 nFrames hs hpq hfi
      have hw := st.indexFor_walk pre f.2 nFrames hs hpq
      have hw' : walk (st.indexFor pre f.2).1.prefixes (st.indexFor pre f.2).1.frames
          ((st.indexFor pre f.2).2 + 1) (st.indexFor pre f.2).2 = some (acc ++ [f.2]) := by
        rw [hw]
        cases pre with
        | none => simp only at hpre; subst hpre; rfl
        | some q => simp only at hpre ⊢; rw [hpre.2]; rfl
      have ih := stackFramesLoop_walk t nFrames fs (st.indexFor pre f.2).1 (some (st.indexFor pre f.2).2)
        (acc ++ [f.2]) h1.1 (fun g hg => hf g (List.mem_cons_of_mem _ hg)) ⟨h1.2.1, hw'⟩ res hres
      cases res with
      | none => simp at ih
      | some i => simpa using ih

/-- `handle_for_stack_frames`: the returned handle denotes exactly the given frame list -/
theorem P.stackFrames_denotes (p : P) (hT : TInv p) (t : Nat) (frames : List TH) (i : Nat)
    (ht : t < p.threads.length) (hf : frames.all p.frameOk = true)
    (hout : (p.stackFrames t frames).2 = .h [t, i]) :
    (p.stackFrames t frames).1.stackFrames? (t, i) = some (frames.map (·.2)) := by
  have hth := hT.thread (P.threads_get ht)
  have hst := hth.2.2.2.1
  have hloop := stackFramesLoop_walk t (p.threads[t]).frames.keys.length frames (p.threads[t]).stacks none [] hst
    (by
      intro f hfm he
      rw [List.all_eq_true] at hf
      exact P.frameOk_same ht (hf f hfm) he) rfl
  unfold P.stackFrames at hout ⊢
  simp only [P.threads_get ht] at hout ⊢
  cases hl : stackFramesLoop t (p.threads[t]).stacks none frames with
  | mk st res =>
    rw [hl] at hout hloop
    cases res with
    | none => cases hout
    | some o =>
      cases o with
      | none => cases hout
      | some j =>
        simp only [Out.h.injEq, List.cons.injEq, and_true, true_and] at hout
        subst hout
        have := hloop (some j) rfl
        simp only [List.nil_append] at this
        simp only [P.stackFrames?, P.setThread_get p t _ _ (P.threads_get ht)]
        exact this.2

/-- frame keys of existing frame handles never change -/
theorem grow_frameKey {p p' : P} (hg : Grow p p') (h : TH) (hv : p.frameOk h = true) :
    ∃ th th', p.threads[h.1]? = some th ∧ p'.threads[h.1]? = some th' ∧
      th'.frames.keys[h.2]? = th.frames.keys[h.2]? ∧ h.2 < th.frames.keys.length := by
  unfold P.frameOk at hv
  cases hth : p.threads[h.1]? with
  | none => simp [hth] at hv
  | some th =>
    simp only [hth, decide_eq_true_eq] at hv
    obtain ⟨th', hth', hle⟩ := hg h.1 th hth
    obtain ⟨kx, hkx⟩ := hle.2.2
    simp only [TProj] at hkx
    refine ⟨th, th', rfl, hth', ?_, hv⟩
    rw [← hkx, List.getElem?_append_left hv]

/-- a stack handle with a defined denotation is a valid handle -/
theorem stackOk_of_frames (p : P) (hT : TInv p) (x : TH) (l : List Nat) (h : p.stackFrames? x = some l) :
    p.stackOk x = true := by
  unfold P.stackFrames? at h
  unfold P.stackOk
  cases hth : p.threads[x.1]? with
  | none => simp [hth] at h
  | some th =>
    simp only [hth] at h ⊢
    simp only [decide_eq_true_eq]
    cases hfr : th.stacks.frames[x.2]? with
    | none => simp [walk, hfr] at h
    | some f =>
      have hlt := (List.getElem?_eq_some_iff.mp hfr).1
      obtain ⟨_, _, _, a4, _⟩ := hT.thread hth
      rw [← a4.1]; exact hlt

theorem stackOk_grow {p p' : P} (hg : Grow p p') (x : TH) (h : p.stackOk x = true) : p'.stackOk x = true := by
  unfold P.stackOk at h ⊢
  cases hth : p.threads[x.1]? with
  | none => simp [hth] at h
  | some th =>
    simp only [hth, decide_eq_true_eq] at h
    obtain ⟨th', hth', hle⟩ := hg x.1 th hth
    simp only [hth', decide_eq_true_eq]
    exact Nat.lt_of_lt_of_le h hle.1.length_le

/-- a valid stack handle has a denotation -/
theorem frames_of_stackOk (p : P) (hT : TInv p) (x : TH) (h : p.stackOk x = true) :
    ∃ l, p.stackFrames? x = some l := by
  unfold P.stackOk at h
  unfold P.stackFrames?
  cases hth : p.threads[x.1]? with
  | none => simp [hth] at h
  | some th =>
    simp only [hth, decide_eq_true_eq] at h ⊢
    obtain ⟨_, _, _, a4, _⟩ := hT.thread hth
    have := walk_isSome th.stacks _ a4 x.2 h
    exact Option.isSome_iff_exists.mp this

/-- the denotation of a handle returned by `handle_for_stack`, after any continuation -/
theorem canonical_stack_after (p : P) (hT : TInv p) (t : Nat) (frame : TH) (parent : Option TH) (i : Nat)
    (ht : t < p.threads.length) (hf : p.frameOk frame = true) (hp : p.optStackOk parent = true)
    (hout : (p.stack t frame parent).2 = .h [t, i]) (post : List Op) :
    (post.foldl (fun p op => (step p op).1) (p.stack t frame parent).1).stackFrames? (t, i) =
      (post.foldl (fun p op => (step p op).1) (p.stack t frame parent).1).extendFrames? parent frame.2 := by
  have hmid : TInv (p.stack t frame parent).1 := (p.stack_TInv hT t frame parent ht hf hp).1
  have hden := p.stack_denotes hT t frame parent i ht hp hout
  have hg := run_grow post (p.stack t frame parent).1
  -- the parent handle is valid in the middle state
  have hparent : ∀ par, parent = some par → (p.stack t frame parent).1.stackOk par = true := by
    intro par hpar
    subst hpar
    exact stackOk_grow (p.stack_grow t frame (some par)) par hp
  generalize (p.stack t frame parent).1 = mid at *
  generalize post.foldl (fun p op => (step p op).1) mid = fin at *
  -- so the new handle has a denotation, hence is valid
  have hnew : mid.stackOk (t, i) = true := by
    cases parent with
    | none => exact stackOk_of_frames mid hmid (t, i) _ hden
    | some par =>
      obtain ⟨l, hl⟩ := frames_of_stackOk mid hmid par (hparent par rfl)
      refine stackOk_of_frames mid hmid (t, i) (l ++ [frame.2]) ?_
      rw [hden]; simp [P.extendFrames?, hl]
  rw [grow_stackFrames hg hmid (t, i) hnew, hden]
  unfold P.extendFrames?
  cases parent with
  | none => rfl
  | some par =>
    simp only
    rw [grow_stackFrames hg hmid par (hparent par rfl)]

/-- the denotation of a handle returned by `handle_for_stack_frames`, after any continuation -/
theorem canonical_stackFrames_after (p : P) (hT : TInv p) (t : Nat) (frames : List TH) (i : Nat)
    (ht : t < p.threads.length) (hf : frames.all p.frameOk = true)
    (hout : (p.stackFrames t frames).2 = .h [t, i]) (post : List Op) :
    (post.foldl (fun p op => (step p op).1) (p.stackFrames t frames).1).stackFrames? (t, i) =
      some (frames.map (·.2)) := by
  have hmid : TInv (p.stackFrames t frames).1 := (p.stackFrames_TInv hT t frames ht hf).1
  have hden := p.stackFrames_denotes hT t frames i ht hf hout
  have hg := run_grow post (p.stackFrames t frames).1
  rw [grow_stackFrames hg hmid (t, i) (stackOk_of_frames _ hmid (t, i) _ hden), hden]

end PT
