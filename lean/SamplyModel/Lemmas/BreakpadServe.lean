import SamplyModel.Model.BreakpadServe
/-!
Lemmas for C08 about Breakpad lookups on **arbitrary** indexes (stale, corrupted, unsorted): they depend only
on the definitions of `Model/BreakpadIndex.lean` (`bsearchBase`, `bsearchLE`, `decList`, `parseSymindex`,
`lookup`) and of `Model/BreakpadServe.lean`, not on any lemma of C10.
-/
namespace BPC
open BP
open LB (Byte)

/-! ### the std binary search never lands on an element above the key, sorted input or not -/

theorem bsearchBase_inv {α : Type} (gt : α → Bool) (l : List α) (size base : Nat) :
    bsearchBase gt l size base = base ∨
      ∃ x, l[bsearchBase gt l size base]? = some x ∧ gt x = false := by
  fun_induction bsearchBase gt l size base with
  | case1 size base hs half mid base' ih =>
    rcases ih with ih | ih
    · rw [ih]
      show base' = base ∨ _
      cases hm : l[mid]? with
      | none =>
        have : base' = base := by simp [base', hm]
        exact Or.inl this
      | some x =>
        cases hg : gt x with
        | true =>
          have : base' = base := by simp [base', hm, hg]
          exact Or.inl this
        | false =>
          have : base' = mid := by simp [base', hm, hg]
          exact Or.inr ⟨x, by rw [this]; exact hm, hg⟩
    · exact Or.inr ih
  | case2 size base hs => exact Or.inl rfl

/-- `Ok(i) => i, Err(0) => return None, Err(i) => i - 1`: the index handed on is in range and its element is
not above the key — for every slice -/
theorem bsearchLE_spec {α : Type} (gt : α → Bool) (l : List α) (i : Nat)
    (h : bsearchLE gt l = some i) : ∃ x, l[i]? = some x ∧ gt x = false := by
  unfold bsearchLE at h
  split at h
  · cases h
  · simp only at h
    split at h
    · cases h
    · rename_i x hx
      cases hg : gt x with
      | false =>
        simp only [hg] at h
        simp only [Bool.false_eq_true, if_false, Option.some.injEq] at h
        subst h
        exact ⟨x, hx, hg⟩
      | true =>
        exfalso
        simp only [hg, if_true] at h
        rcases bsearchBase_inv gt l l.length 0 with h0 | ⟨y, hy, hgy⟩
        · rw [h0] at h; simp at h
        · rw [hx] at hy
          cases hy
          rw [hg] at hgy
          cases hgy

theorem bsearchLE_lt {α : Type} (gt : α → Bool) (l : List α) (i : Nat)
    (h : bsearchLE gt l = some i) : i < l.length := by
  obtain ⟨x, hx, _⟩ := bsearchLE_spec gt l i h
  exact (List.getElem?_eq_some_iff.mp hx).1

/-! ### what `parse_symindex_file` guarantees about an index it accepts -/

theorem decList_length {α : Type} (dec : List Byte → Option (α × List Byte)) (n : Nat) (bs : List Byte)
    (l : List α) (h : decList dec n bs = some l) : l.length = n := by
  induction n generalizing bs l with
  | zero => simp [decList] at h; subst h; rfl
  | succ n ih =>
    simp only [decList] at h
    split at h
    · cases h
    · rename_i a bs' _
      split at h
      · cases h
      · rename_i l' hl'
        cases h
        simp [ih bs' l' hl']

/-- the two symbol arrays of an accepted index have the same length (`symbol_count`) — whatever else the
file contains -/
theorem parseSymindex_lengths (bs : List Byte) (ix : Index) (h : parseSymindex bs = some ix) :
    ix.addrs.length = ix.entries.length := by
  unfold parseSymindex at h
  repeat' (split at h <;> try (cases h; done))
  all_goals first
    | (rename_i files origins addrs entries _ _ ha he
       cases h
       rw [decList_length _ _ _ _ ha, decList_length _ _ _ _ he])
    | skip

/-! ### lookups -/

/-- a lookup result names the symbol it was asked to resolve and never carries an empty frame list -/
theorem resolveC_some (text : List Byte) (ix : Index) (c : Cache) (a symAddr : Nat) (next : Option Nat)
    (e : SymEntry) (r : LookupResult) (c' : Cache)
    (h : resolveC text ix c a symAddr next e = (some r, c')) :
    r.symAddr = symAddr ∧ r.frames ≠ some [] := by
  unfold resolveC at h
  split at h
  · simp only at h
    split at h
    · cases h
    · simp only [Prod.mk.injEq, Option.some.injEq] at h
      obtain ⟨rfl, _⟩ := h
      simp
  · split at h
    · simp only at h
      split at h
      · cases h
      · split at h
        · cases h
        · simp only [Prod.mk.injEq, Option.some.injEq] at h
          obtain ⟨rfl, _⟩ := h
          simp
    · cases h

/-- **`lookup_sync` with memo tables, any index:** no out-of-range index when the two symbol arrays are
equally long, and every answer satisfies what the API layers rely on (`symbol.address ≤ address`,
symbolicate/mod.rs:231; a non-empty frame list, :237) -/
theorem lookupC_spec (text : List Byte) (ix : Index) (c : Cache) (a : Nat)
    (hlen : ix.addrs.length = ix.entries.length) :
    (lookupC text ix c a).1 ≠ .panic ∧
    ∀ r, (lookupC text ix c a).1 = .found r → r.symAddr ≤ a ∧ r.frames ≠ some [] := by
  unfold lookupC
  split
  · simp
  · rename_i i hi
    obtain ⟨x, hx, hgx⟩ := bsearchLE_spec _ _ _ hi
    have hlt := bsearchLE_lt _ _ _ hi
    simp only [hx]
    have hxa : x ≤ a := by simpa using hgx
    cases he : ix.entries[i]? with
    | none =>
      exfalso
      have : i < ix.entries.length := by omega
      rw [List.getElem?_eq_none_iff] at he
      omega
    | some e =>
      simp only
      cases hr : (resolveC text ix c a x ix.addrs[i + 1]? e).1 with
      | none => simp
      | some res =>
        simp only [ne_eq, reduceCtorEq, not_false_eq_true, Look.found.injEq, true_and]
        intro r hrr
        subst hrr
        have := resolveC_some text ix c a x ix.addrs[i + 1]? e res
          (resolveC text ix c a x ix.addrs[i + 1]? e).2 (by rw [← hr])
        exact ⟨by rw [this.1]; exact hxa, this.2⟩

theorem lookupSeq_spec (text : List Byte) (ix : Index) (c : Cache) (addrs : List Nat)
    (hlen : ix.addrs.length = ix.entries.length) :
    (lookupSeq text ix c addrs).length = addrs.length ∧
    ∀ (k a : Nat), addrs[k]? = some a →
      ∃ lk : Look, (lookupSeq text ix c addrs)[k]? = some lk ∧ lk ≠ Look.panic ∧
        ∀ r : LookupResult, lk = Look.found r → r.symAddr ≤ a ∧ r.frames ≠ some [] := by
  induction addrs generalizing c with
  | nil => simp [lookupSeq, lookupSeqC]
  | cons a rest ih =>
    obtain ⟨ihl, ihk⟩ := ih (lookupC text ix c a).2
    simp only [lookupSeq] at ihl ihk
    refine ⟨by simp [lookupSeq, lookupSeqC, ihl], ?_⟩
    intro k b hk
    cases k with
    | zero =>
      simp only [List.getElem?_cons_zero, Option.some.injEq] at hk
      subst hk
      exact ⟨(lookupC text ix c a).1, by simp [lookupSeq, lookupSeqC], lookupC_spec text ix c a hlen⟩
    | succ k =>
      simp only [List.getElem?_cons_succ] at hk
      obtain ⟨lk, h1, h2⟩ := ihk k b hk
      exact ⟨lk, by simpa [lookupSeq, lookupSeqC] using h1, h2⟩

/-- `iter_symbols()` never indexes `symbol_entries` out of range when the arrays are equally long -/
theorem iterSymbolsC_isSome (text : List Byte) (ix : Index) (c : Cache) (l : List Nat) (i : Nat)
    (h : i + l.length ≤ ix.entries.length) : (iterSymbolsC text ix c l i).isSome = true := by
  induction l generalizing c i with
  | nil => simp [iterSymbolsC]
  | cons a rest ih =>
    simp only [List.length_cons] at h
    have hi : i < ix.entries.length := by omega
    simp only [iterSymbolsC, List.getElem?_eq_getElem hi]
    split
    · have := ih { c with pubs := (publicInfoC text c.pubs ix.entries[i].offset ix.entries[i].len).2 } (i + 1) (by omega)
      revert this
      cases iterSymbolsC text ix { c with pubs := (publicInfoC text c.pubs ix.entries[i].offset ix.entries[i].len).2 } rest (i + 1) <;> simp
    · split
      · have := ih { c with funcs := (funcInfoC text c.funcs ix.entries[i].offset ix.entries[i].len).2 } (i + 1) (by omega)
        revert this
        cases iterSymbolsC text ix { c with funcs := (funcInfoC text c.funcs ix.entries[i].offset ix.entries[i].len).2 } rest (i + 1) <;> simp
      · exact ih c (i + 1) (by omega)

/-- the memo-free `BP.lookup` (C10's model) on any index with equally long symbol arrays -/
theorem lookup_spec (text : List Byte) (ix : Index) (a : Nat)
    (hlen : ix.addrs.length = ix.entries.length) :
    lookup text ix a ≠ .panic ∧
    ∀ r, lookup text ix a = .found r → r.symAddr ≤ a ∧ r.frames ≠ some [] := by
  unfold lookup
  split
  · simp
  · rename_i i hi
    obtain ⟨x, hx, hgx⟩ := bsearchLE_spec _ _ _ hi
    have hlt := bsearchLE_lt _ _ _ hi
    have hxa : x ≤ a := by simpa using hgx
    simp only [hx]
    cases he : ix.entries[i]? with
    | none =>
      exfalso
      rw [List.getElem?_eq_none_iff] at he
      omega
    | some e =>
      simp only
      split
      · split
        · simp
        · split
          · simp
          · simp only [ne_eq, reduceCtorEq, not_false_eq_true, Look.found.injEq, true_and]
            intro r hr; subst hr; exact ⟨hxa, by simp⟩
      · split
        · split
          · simp
          · split
            · simp
            · split
              · simp
              · simp only [ne_eq, reduceCtorEq, not_false_eq_true, Look.found.injEq, true_and]
                intro r hr; subst hr; exact ⟨hxa, by simp⟩
        · simp

end BPC
