import SamplyModel.Model.BreakpadServe
/-!
Lemmas for C08 about Breakpad lookups on **arbitrary** indexes (stale, corrupted, unsorted): they depend only
on the definitions of `Model/BreakpadIndex.lean` (`bsearchBase`, `bsearchLE`, `decList`, `parseSymindex`,
`lookup`) and of `Model/BreakpadServe.lean`, not on any lemma of C10.
-/
namespace BPC
open BP
open LB (Byte)

/-! ### the std binary search never lands on an element above the key, sorted input or not -/

theorem bsearchBase_inv {α : Type} (gt : α → Bool) (l : List α) (size base : Nat) :
    bsearchBase gt l size base = base ∨
      ∃ x, l[bsearchBase gt l size base]? = some x ∧ gt x = false := by
  fun_induction bsearchBase gt l size base with
  | case1 size base hs half mid base' ih =>
    rcases ih with ih | ih
    · rw [ih]
      show base' = base ∨ _
      cases hm : l[mid]? with
      | none =>
        have : base' = base := by simp [base', hm]
        exact Or.inl this
      | some x =>
        cases hg : gt x with
        | true =>
          have : base' = base := by simp [base', hm, hg]
          exact Or.inl this
        | false =>
          have : base' = mid := by simp [base', hm, hg]
          exact Or.inr ⟨x, by rw [this]; exact hm, hg⟩
    · exact Or.inr ih
  | case2 size base hs => exact Or.inl rfl

/-- `Ok(i) => i, Err(0) => return None, Err(i) => i - 1`: the index handed on is in range and its element is
not above the key — for every slice -/
theorem bsearchLE_spec {α : Type} (gt : α → Bool) (l : List α) (i : Nat)
    (h : bsearchLE gt l = some i) : ∃ x, l[i]? = some x ∧ gt x = false := by
  unfold bsearchLE at h
  split at h
  · cases h
  · simp only at h
    split at h
    · cases h
    · rename_i x hx
      cases hg : gt x with
      | false =>
        simp only [hg] at h
        simp only [Bool.false_eq_true, if_false, Option.some.injEq] at h
        subst h
        exact ⟨x, hx, hg⟩
      | true =>
        exfalso
        simp only [hg, if_true] at h
        rcases bsearchBase_inv gt l l.length 0 with h0 | ⟨y, hy, hgy⟩
        · rw [h0] at h; simp at h
        · rw [hx] at hy
          cases hy
          rw [hg] at hgy
          cases hgy

theorem bsearchLE_lt {α : Type} (gt : α → Bool) (l : List α) (i : Nat)
    (h : bsearchLE gt l = some i) : i < l.length := by
  obtain ⟨x, hx, _⟩ := bsearchLE_spec gt l i h
  exact (List.getElem?_eq_some_iff.mp hx).1

/-! ### what `parse_symindex_file` guarantees about an index it accepts -/

theorem decList_length {α : Type} (dec : List Byte → Option (α × List Byte)) (n : Nat) (bs : List Byte)
    (l : List α) (h : decList dec n bs = some l) : l.length = n := by
  induction n generalizing bs l with
  | zero => simp [decList] at h; subst h; rfl
  | succ n ih =>
    simp only [decList] at h
    split at h
    · cases h
    · rename_i a bs' _
      split at h
      · cases h
      · rename_i l' hl'
        cases h
        simp [ih bs' l' hl']

/-- the two symbol arrays of an accepted index have the same length (`symbol_count`) — whatever else the
file contains -/
theorem parseSymindex_lengths (bs : List Byte) (ix : Index) (h : parseSymindex bs = some ix) :
    ix.addrs.length = ix.entries.length := by
  unfold parseSymindex at h
  repeat' (split at h <;> try (cases h; done))
  all_goals first
    | (rename_i files origins addrs entries _ _ ha he
       cases h
       rw [decList_length _ _ _ _ ha, decList_length _ _ _ _ he])
    | skip

/-- whatever `make_index_storage` decides (stored index used, ignored as foreign, rejected, none offered): the
index the map works with came out of `parse_symindex_file`, so its two symbol arrays are equally long -/
theorem mapSelf_ok_lengths (pick : Pick) (text : List Byte) (ix : Index) (h : mapSelf pick text = .ok ix) :
    ix.addrs.length = ix.entries.length := by
  unfold mapSelf at h
  split at h
  · cases h
  · split at h
    · cases h
    · cases h
    · split at h
      · cases h
      · rename_i hp
        cases h
        exact parseSymindex_lengths _ _ hp

theorem mapStored_ok_lengths (pick : Pick) (text : List Byte) (stored : Option (List Byte)) (ix : Index)
    (h : mapStored pick text stored = .ok ix) : ix.addrs.length = ix.entries.length := by
  unfold mapStored at h
  split at h
  · cases h
  · split at h
    · rename_i ix' hst
      split at h
      · cases h
        cases stored with
        | none => simp at hst
        | some b => exact parseSymindex_lengths b _ (by simpa using hst)
      · exact mapSelf_ok_lengths pick text ix h
    · exact mapSelf_ok_lengths pick text ix h

/-! ### lookups -/

/-- a lookup result names the symbol it was asked to resolve and never carries an empty frame list -/
theorem resolveC_some (text : List Byte) (ix : Index) (c : Cache) (a symAddr : Nat) (next : Option Nat)
    (e : SymEntry) (r : LookupResult) (c' : Cache)
    (h : resolveC text ix c a symAddr next e = (some r, c')) :
    r.symAddr = symAddr ∧ r.frames ≠ some [] := by
  unfold resolveC at h
  split at h
  · simp only at h
    split at h
    · cases h
    · simp only [Prod.mk.injEq, Option.some.injEq] at h
      obtain ⟨rfl, _⟩ := h
      simp
  · split at h
    · simp only at h
      split at h
      · cases h
      · split at h
        · cases h
        · simp only [Prod.mk.injEq, Option.some.injEq] at h
          obtain ⟨rfl, _⟩ := h
          simp
    · cases h

/-- **`lookup_sync` with memo tables, any index:** no out-of-range index when the two symbol arrays are
equally long, and every answer satisfies what the API layers rely on (`symbol.address ≤ address`,
symbolicate/mod.rs:231; a non-empty frame list, :237) -/
theorem lookupC_spec (text : List Byte) (ix : Index) (c : Cache) (a : Nat)
    (hlen : ix.addrs.length = ix.entries.length) :
    (lookupC text ix c a).1 ≠ .panic ∧
    ∀ r, (lookupC text ix c a).1 = .found r → r.symAddr ≤ a ∧ r.frames ≠ some [] := by
  unfold lookupC
  split
  · simp
  · rename_i i hi
    obtain ⟨x, hx, hgx⟩ := bsearchLE_spec _ _ _ hi
    have hlt := bsearchLE_lt _ _ _ hi
    simp only [hx]
    have hxa : x ≤ a := by simpa using hgx
    cases he : ix.entries[i]? with
    | none =>
      exfalso
      have : i < ix.entries.length := by omega
      rw [List.getElem?_eq_none_iff] at he
      omega
    | some e =>
      simp only
      cases hr : (resolveC text ix c a x ix.addrs[i + 1]? e).1 with
      | none => simp
      | some res =>
        simp only [ne_eq, reduceCtorEq, not_false_eq_true, Look.found.injEq, true_and]
        intro r hrr
        subst hrr
        have := resolveC_some text ix c a x ix.addrs[i + 1]? e res
          (resolveC text ix c a x ix.addrs[i + 1]? e).2 (by rw [← hr])
        exact ⟨by rw [this.1]; exact hxa, this.2⟩

theorem lookupSeq_spec (text : List Byte) (ix : Index) (c : Cache) (addrs : List Nat)
    (hlen : ix.addrs.length = ix.entries.length) :
    (lookupSeq text ix c addrs).length = addrs.length ∧
    ∀ (k a : Nat), addrs[k]? = some a →
      ∃ lk : Look, (lookupSeq text ix c addrs)[k]? = some lk ∧ lk ≠ Look.panic ∧
        ∀ r : LookupResult, lk = Look.found r → r.symAddr ≤ a ∧ r.frames ≠ some [] := by
  induction addrs generalizing c with
  | nil => simp [lookupSeq, lookupSeqC]
  | cons a rest ih =>
    obtain ⟨ihl, ihk⟩ := ih (lookupC text ix c a).2
    simp only [lookupSeq] at ihl ihk
    refine ⟨by simp [lookupSeq, lookupSeqC, ihl], ?_⟩
    intro k b hk
    cases k with
    | zero =>
      simp only [List.getElem?_cons_zero, Option.some.injEq] at hk
      subst hk
      exact ⟨(lookupC text ix c a).1, by simp [lookupSeq, lookupSeqC], lookupC_spec text ix c a hlen⟩
    | succ k =>
      simp only [List.getElem?_cons_succ] at hk
      obtain ⟨lk, h1, h2⟩ := ihk k b hk
      exact ⟨lk, by simpa [lookupSeq, lookupSeqC] using h1, h2⟩

/-- `iter_symbols()` never indexes `symbol_entries` out of range when the arrays are equally long -/
theorem iterSymbolsC_isSome (text : List Byte) (ix : Index) (c : Cache) (l : List Nat) (i : Nat)
    (h : i + l.length ≤ ix.entries.length) : (iterSymbolsC text ix c l i).isSome = true := by
  induction l generalizing c i with
  | nil => simp [iterSymbolsC]
  | cons a rest ih =>
    simp only [List.length_cons] at h
    have hi : i < ix.entries.length := by omega
    simp only [iterSymbolsC, List.getElem?_eq_getElem hi]
    split
    · have := ih { c with pubs := (publicInfoC text c.pubs ix.entries[i].offset ix.entries[i].len).2 } (i + 1) (by omega)
      revert this
      cases iterSymbolsC text ix { c with pubs := (publicInfoC text c.pubs ix.entries[i].offset ix.entries[i].len).2 } rest (i + 1) <;> simp
    · split
      · have := ih { c with funcs := (funcInfoC text c.funcs ix.entries[i].offset ix.entries[i].len).2 } (i + 1) (by omega)
        revert this
        cases iterSymbolsC text ix { c with funcs := (funcInfoC text c.funcs ix.entries[i].offset ix.entries[i].len).2 } rest (i + 1) <;> simp
      · exact ih c (i + 1) (by omega)

/-- the memo-free `BP.lookup` (C10's model) on any index with equally long symbol arrays -/
theorem lookup_spec (text : List Byte) (ix : Index) (a : Nat)
    (hlen : ix.addrs.length = ix.entries.length) :
    lookup text ix a ≠ .panic ∧
    ∀ r, lookup text ix a = .found r → r.symAddr ≤ a ∧ r.frames ≠ some [] := by
  unfold lookup
  split
  · simp
  · rename_i i hi
    obtain ⟨x, hx, hgx⟩ := bsearchLE_spec _ _ _ hi
    have hlt := bsearchLE_lt _ _ _ hi
    have hxa : x ≤ a := by simpa using hgx
    simp only [hx]
    cases he : ix.entries[i]? with
    | none =>
      exfalso
      rw [List.getElem?_eq_none_iff] at he
      omega
    | some e =>
      simp only
      split
      · split
        · simp
        · split
          · simp
          · simp only [ne_eq, reduceCtorEq, not_false_eq_true, Look.found.injEq, true_and]
            intro r hr; subst hr; exact ⟨hxa, by simp⟩
      · split
        · split
          · simp
          · split
            · simp
            · split
              · simp
              · simp only [ne_eq, reduceCtorEq, not_false_eq_true, Look.found.injEq, true_and]
                intro r hr; subst hr; exact ⟨hxa, by simp⟩
        · simp

/-! ### when are the memo tables observable?

They are keyed by the file offset alone. If, among the symbol entries of the index, kind and offset determine
the length (true of every index the creator writes: one entry per line / block start), a sequence of lookups
on one map answers exactly what C10's memo-free `BP.lookup` answers for each address. -/

/-- a string memo table holds only what `get_string` computes -/
def MemoOk (p : List Byte → Option (Nat × List Byte)) (text : List Byte) (items : List FEntry) (memo : Memo) : Prop :=
  ∀ k v, memo.lookup k = some v → getString p text items k = some v

theorem lookup_cons_some {β : Type} (k k' : Nat) (v v' : β) (l : List (Nat × β))
    (h : ((k', v') :: l).lookup k = some v) : (k = k' ∧ v = v') ∨ l.lookup k = some v := by
  simp only [List.lookup] at h
  split at h
  · rename_i heq
    left
    exact ⟨by simpa using heq, by cases h; rfl⟩
  · right; exact h

theorem getStringC_ok (p : List Byte → Option (Nat × List Byte)) (text : List Byte) (items : List FEntry)
    (memo : Memo) (idx : Nat) (h : MemoOk p text items memo) :
    (getStringC p text items memo idx).1 = getString p text items idx ∧
    MemoOk p text items (getStringC p text items memo idx).2 := by
  unfold getStringC
  cases hm : memo.lookup idx with
  | some s => exact ⟨(h idx s hm).symm, h⟩
  | none =>
    cases hg : getString p text items idx with
    | none => exact ⟨rfl, h⟩
    | some s =>
      refine ⟨rfl, ?_⟩
      intro k v hk
      rcases lookup_cons_some k idx v s memo hk with ⟨rfl, rfl⟩ | hk'
      · exact hg
      · exact h k v hk'

theorem inlineFramesC_eq (text : List Byte) (ix : Index) (info : FuncInfo) (addr : Nat)
    (fuel depth : Nat) (name : Option (List Byte)) (acc : List Frame) (fm om : Memo)
    (hf : MemoOk fileLine text ix.files fm) (ho : MemoOk inlineOriginLine text ix.origins om) :
    ((inlineFramesC text ix info addr fuel depth name acc fm om).1,
      (inlineFramesC text ix info addr fuel depth name acc fm om).2.1)
        = inlineFrames text ix info addr fuel depth name acc ∧
    MemoOk fileLine text ix.files (inlineFramesC text ix info addr fuel depth name acc fm om).2.2.1 ∧
    MemoOk inlineOriginLine text ix.origins (inlineFramesC text ix info addr fuel depth name acc fm om).2.2.2 := by
  induction fuel generalizing depth name acc fm om with
  | zero => exact ⟨rfl, hf, ho⟩
  | succ fuel ih =>
    simp only [inlineFramesC, inlineFrames]
    cases hi : inlineeAt info.inlinees depth addr with
    | none => exact ⟨rfl, hf, ho⟩
    | some i =>
      simp only
      obtain ⟨f1, f2⟩ := getStringC_ok fileLine text ix.files fm i.callFile hf
      obtain ⟨o1, o2⟩ := getStringC_ok inlineOriginLine text ix.origins om i.originId ho
      have := ih (depth + 1) (getStringC inlineOriginLine text ix.origins om i.originId).1
        (acc ++ [⟨name, (getStringC fileLine text ix.files fm i.callFile).1, some i.callLine⟩])
        (getStringC fileLine text ix.files fm i.callFile).2
        (getStringC inlineOriginLine text ix.origins om i.originId).2 f2 o2
      rw [← f1, ← o1]
      exact this

/-- kind and offset of a symbol entry determine its length -/
def Det (ix : Index) : Prop :=
  ∀ e ∈ ix.entries, ∀ e' ∈ ix.entries, e.kind = e'.kind → e.offset = e'.offset → e.len = e'.len

def PubOk (text : List Byte) (ix : Index) (memo : Memo) : Prop :=
  ∀ off n, memo.lookup off = some n → ∀ e ∈ ix.entries, e.kind = 0 → e.offset = off →
    (readAt text e.offset e.len).bind parsePublic = some n

def FuncOk (text : List Byte) (ix : Index) (memo : List (Nat × FuncInfo)) : Prop :=
  ∀ off i, memo.lookup off = some i → ∀ e ∈ ix.entries, e.kind = 1 → e.offset = off →
    (readAt text e.offset e.len).bind parseFunc = some i

structure CacheOk (text : List Byte) (ix : Index) (c : Cache) : Prop where
  files : MemoOk fileLine text ix.files c.files
  origins : MemoOk inlineOriginLine text ix.origins c.origins
  pubs : PubOk text ix c.pubs
  funcs : FuncOk text ix c.funcs

theorem cacheOk_empty (text : List Byte) (ix : Index) : CacheOk text ix Cache.empty :=
  ⟨fun _ _ h => by simp [Cache.empty] at h, fun _ _ h => by simp [Cache.empty] at h,
   fun _ _ h => by simp [Cache.empty] at h, fun _ _ h => by simp [Cache.empty] at h⟩

theorem publicInfoC_ok (text : List Byte) (ix : Index) (memo : Memo) (e : SymEntry) (he : e ∈ ix.entries)
    (hk : e.kind = 0) (hdet : Det ix) (h : PubOk text ix memo) :
    (publicInfoC text memo e.offset e.len).1 = (readAt text e.offset e.len).bind parsePublic ∧
    PubOk text ix (publicInfoC text memo e.offset e.len).2 := by
  unfold publicInfoC
  cases hm : memo.lookup e.offset with
  | some n => exact ⟨(h e.offset n hm e he hk rfl).symm, h⟩
  | none =>
    cases hg : (readAt text e.offset e.len).bind parsePublic with
    | none => exact ⟨rfl, h⟩
    | some n =>
      refine ⟨rfl, ?_⟩
      intro off n' hl e' he' hk' ho'
      rcases lookup_cons_some off e.offset n' n memo hl with ⟨rfl, rfl⟩ | hl'
      · have := hdet e' he' e he (by rw [hk, hk']) ho'
        rw [ho', this]; exact hg
      · exact h off n' hl' e' he' hk' ho'

theorem funcInfoC_ok (text : List Byte) (ix : Index) (memo : List (Nat × FuncInfo)) (e : SymEntry)
    (he : e ∈ ix.entries) (hk : e.kind = 1) (hdet : Det ix) (h : FuncOk text ix memo) :
    (funcInfoC text memo e.offset e.len).1 = (readAt text e.offset e.len).bind parseFunc ∧
    FuncOk text ix (funcInfoC text memo e.offset e.len).2 := by
  unfold funcInfoC
  cases hm : memo.lookup e.offset with
  | some n => exact ⟨(h e.offset n hm e he hk rfl).symm, h⟩
  | none =>
    cases hg : (readAt text e.offset e.len).bind parseFunc with
    | none => exact ⟨rfl, h⟩
    | some n =>
      refine ⟨rfl, ?_⟩
      intro off n' hl e' he' hk' ho'
      rcases lookup_cons_some off e.offset n' n memo hl with ⟨rfl, rfl⟩ | hl'
      · have := hdet e' he' e he (by rw [hk, hk']) ho'
        rw [ho', this]; exact hg
      · exact h off n' hl' e' he' hk' ho'

/-- the `match kind { … }` of `lookup_sync` without memo tables (the tail of `BP.lookup`) -/
def resolveSpec (text : List Byte) (ix : Index) (a symAddr : Nat) (next : Option Nat) (e : SymEntry) :
    Option LookupResult :=
  if e.kind = 0 then
    match (readAt text e.offset e.len).bind parsePublic with
    | none => none
    | some name =>
      some ⟨symAddr, next.bind (fun nx => if symAddr ≤ nx then some (nx - symAddr) else none), name, none⟩
  else if e.kind = 1 then
    match (readAt text e.offset e.len).bind parseFunc with
    | none => none
    | some info =>
      if symAddr + info.size ≤ a then none
      else
        let p := inlineFrames text ix info a (info.inlinees.length + 1) 0 (some info.name) []
        let last : Frame :=
          match sourceLoc info.lines a with
          | some sl => ⟨p.2, getString fileLine text ix.files sl.file, some sl.line⟩
          | none => ⟨p.2, none, none⟩
        some ⟨symAddr, some info.size, info.name, some ((p.1 ++ [last]).reverse)⟩
  else none

theorem lookup_eq_spec (text : List Byte) (ix : Index) (a : Nat) :
    lookup text ix a =
      match bsearchLE (fun x => a < x) ix.addrs with
      | none => Look.none
      | some i =>
        match ix.addrs[i]? with
        | none => Look.none
        | some symAddr =>
          match ix.entries[i]? with
          | none => Look.panic
          | some e =>
            match resolveSpec text ix a symAddr ix.addrs[i + 1]? e with
            | none => Look.none
            | some r => Look.found r := by
  unfold lookup
  cases bsearchLE (fun x => decide (a < x)) ix.addrs with
  | none => rfl
  | some i =>
    simp only
    cases ix.addrs[i]? with
    | none => rfl
    | some symAddr =>
      simp only
      cases ix.entries[i]? with
      | none => rfl
      | some e =>
        simp only
        unfold resolveSpec
        by_cases h0 : e.kind = 0
        · simp only [h0, if_true]
          cases readAt text e.offset e.len with
          | none => rfl
          | some line =>
            simp only [Option.bind]
            cases parsePublic line <;> rfl
        · by_cases h1 : e.kind = 1
          · simp only [h1, (by decide : ((1 : Nat) = 0) = False), if_true, if_false]
            cases readAt text e.offset e.len with
            | none => rfl
            | some block =>
              simp only [Option.bind]
              cases parseFunc block with
              | none => rfl
              | some info =>
                simp only
                split
                · rfl
                · cases sourceLoc info.lines a <;> rfl
          · simp only [h0, h1, if_false]

theorem resolveC_eq (text : List Byte) (ix : Index) (c : Cache) (a symAddr : Nat) (next : Option Nat)
    (e : SymEntry) (he : e ∈ ix.entries) (hdet : Det ix) (hc : CacheOk text ix c) :
    (resolveC text ix c a symAddr next e).1 = resolveSpec text ix a symAddr next e ∧
    CacheOk text ix (resolveC text ix c a symAddr next e).2 := by
  unfold resolveC resolveSpec
  by_cases h0 : e.kind = 0
  · simp only [h0, if_true]
    obtain ⟨p1, p2⟩ := publicInfoC_ok text ix c.pubs e he h0 hdet hc.pubs
    rw [← p1]
    cases (publicInfoC text c.pubs e.offset e.len).1 with
    | none => exact ⟨rfl, ⟨hc.files, hc.origins, p2, hc.funcs⟩⟩
    | some name => exact ⟨rfl, ⟨hc.files, hc.origins, p2, hc.funcs⟩⟩
  · by_cases h1 : e.kind = 1
    · simp only [h1, (by decide : ((1 : Nat) = 0) = False), if_true, if_false]
      obtain ⟨p1, p2⟩ := funcInfoC_ok text ix c.funcs e he h1 hdet hc.funcs
      rw [← p1]
      cases (funcInfoC text c.funcs e.offset e.len).1 with
      | none => exact ⟨rfl, ⟨hc.files, hc.origins, hc.pubs, p2⟩⟩
      | some info =>
        simp only
        split
        · exact ⟨rfl, ⟨hc.files, hc.origins, hc.pubs, p2⟩⟩
        · obtain ⟨q1, q2, q3⟩ := inlineFramesC_eq text ix info a (info.inlinees.length + 1) 0 (some info.name) []
            c.files c.origins hc.files hc.origins
          have q1a := congrArg Prod.fst q1
          have q1b := congrArg Prod.snd q1
          simp only at q1a q1b
          cases hs : sourceLoc info.lines a with
          | none =>
            simp only
            rw [q1a, q1b]
            exact ⟨rfl, ⟨q2, q3, hc.pubs, p2⟩⟩
          | some sl =>
            simp only
            obtain ⟨g1, g2⟩ := getStringC_ok fileLine text ix.files _ sl.file q2
            rw [q1a, q1b, g1]
            exact ⟨rfl, ⟨g2, q3, hc.pubs, p2⟩⟩
    · rw [if_neg h0, if_neg h1, if_neg h0, if_neg h1]
      exact ⟨rfl, hc⟩

theorem lookupC_eq (text : List Byte) (ix : Index) (c : Cache) (a : Nat) (hdet : Det ix)
    (hc : CacheOk text ix c) :
    (lookupC text ix c a).1 = lookup text ix a ∧ CacheOk text ix (lookupC text ix c a).2 := by
  rw [lookup_eq_spec]
  unfold lookupC
  cases hb : bsearchLE (fun x => a < x) ix.addrs with
  | none => exact ⟨rfl, hc⟩
  | some i =>
    obtain ⟨x, hx, _⟩ := bsearchLE_spec _ _ _ hb
    simp only [hx]
    cases he : ix.entries[i]? with
    | none => exact ⟨rfl, hc⟩
    | some e =>
      simp only
      have hmem : e ∈ ix.entries := List.mem_of_getElem? he
      obtain ⟨r1, r2⟩ := resolveC_eq text ix c a x ix.addrs[i + 1]? e hmem hdet hc
      rw [← r1]
      cases (resolveC text ix c a x ix.addrs[i + 1]? e).1 <;> exact ⟨rfl, r2⟩

theorem lookupSeq_eq (text : List Byte) (ix : Index) (c : Cache) (addrs : List Nat) (hdet : Det ix)
    (hc : CacheOk text ix c) : lookupSeq text ix c addrs = addrs.map (lookup text ix) := by
  induction addrs generalizing c with
  | nil => simp [lookupSeq, lookupSeqC]
  | cons a rest ih =>
    obtain ⟨h1, h2⟩ := lookupC_eq text ix c a hdet hc
    have := ih (lookupC text ix c a).2 h2
    simp only [lookupSeq] at this
    simp [lookupSeq, lookupSeqC, h1, this]

end BPC
