import SamplyModel.Lemmas.FileCreationAsync
/-!
The deferred-write system of the REPAIRED code (`FCA.next false` over the repaired `FC.cancelP`): queued
writes survive a drop inside the callback, but the name `dest.part` is unlinked before the lock is released.
Invariant `FCA.BInv`: a queued write whose owner has left the critical section targets an inode that no name
refers to and that no later creator can obtain (inodes are allocated from the fresh counter `nextInode`).
-/
namespace FC

/-- names are bound to inodes that have been allocated -/
structure NInv (s : State) : Prop where
  partLt : ∀ j, s.part = some j → j < s.nextInode
  destLt : ∀ j, s.dest = some j → j < s.nextInode

theorem ninv_init : NInv State.init := by
  constructor <;> simp [State.init]

theorem ninv_next {pl : Pid → Content} {s s' : State} {a : Act} (h : NInv s)
    (hn : next pl s a = some s') : NInv s' := by
  obtain ⟨h1, h2⟩ := h
  cases a with
  | step p =>
    simp only [next, stepP] at hn
    (repeat' split at hn) <;>
      first
        | (injection hn with hn; subst hn; constructor <;> intro j hj <;> simp at hj <;> grind)
        | simp at hn
  | fail p =>
    simp only [next, failP] at hn
    (repeat' split at hn) <;>
      first
        | (injection hn with hn; subst hn; constructor <;> intro j hj <;> simp at hj <;> grind)
        | simp at hn
  | crash p =>
    simp only [next, crashP] at hn
    (repeat' split at hn) <;>
      first
        | (injection hn with hn; subst hn; constructor <;> intro j hj <;> simp at hj <;> grind)
        | simp at hn
  | cancel p =>
    simp only [next, cancelP] at hn
    (repeat' split at hn) <;>
      first
        | (injection hn with hn; subst hn; constructor <;> intro j hj <;> simp at hj <;> grind)
        | simp at hn

theorem ninv_reachable {pl : Pid → Content} {s : State} (h : Reachable pl s) : NInv s := by
  induction h with
  | init => exact ninv_init
  | step a _ hn ih => exact ninv_next ih hn

theorem next_nextInode_mono {pl : Pid → Content} {s s' : State} {a : Act}
    (hn : next pl s a = some s') : s.nextInode ≤ s'.nextInode := by
  cases a with
  | step p =>
    simp only [next, stepP] at hn
    (repeat' split at hn) <;> first | (injection hn with hn; subst hn; simp) | simp at hn
  | fail p =>
    simp only [next, failP] at hn
    (repeat' split at hn) <;> first | (injection hn with hn; subst hn; simp) | simp at hn
  | crash p =>
    simp only [next, crashP] at hn
    (repeat' split at hn) <;> first | (injection hn with hn; subst hn; simp) | simp at hn
  | cancel p =>
    simp only [next, cancelP] at hn
    (repeat' split at hn) <;> first | (injection hn with hn; subst hn; simp) | simp at hn

/-- has left the critical section through a failure, a kill or a cancellation -/
def postFail : PC → Bool
  | .failDrop _ _ | .doneErr _ | .dead => true
  | _ => false

def isFailedPC : PC → Bool
  | .failed _ _ => true
  | _ => false

theorem next_postFail {pl : Pid → Content} {s s' : State} {a : Act}
    (hn : next pl s a = some s') (h : postFail (s.pc a.pid) = true) : postFail (s'.pc a.pid) = true := by
  cases a with
  | step p =>
    simp only [next, stepP] at hn
    simp only [Act.pid] at h ⊢
    (repeat' split at hn) <;>
      first | (injection hn with hn; subst hn; simp_all [upd, postFail]; done) | simp at hn | simp_all [postFail]
  | fail p =>
    simp only [next, failP] at hn
    simp only [Act.pid] at h ⊢
    (repeat' split at hn) <;>
      first | (injection hn with hn; subst hn; simp_all [upd, postFail]; done) | simp at hn | simp_all [postFail]
  | crash p =>
    simp only [next, crashP] at hn
    simp only [Act.pid] at h ⊢
    (repeat' split at hn) <;>
      first | (injection hn with hn; subst hn; simp_all [upd, postFail]; done) | simp at hn | simp_all [postFail]
  | cancel p =>
    simp only [next, cancelP] at hn
    simp only [Act.pid] at h ⊢
    (repeat' split at hn) <;>
      first | (injection hn with hn; subst hn; simp_all [upd, postFail]; done) | simp at hn | simp_all [postFail]

end FC

namespace FCA
open FC

/-! ### list facts about the queue -/

theorem exec_other {d : Inode → Content} {w : Pending} {j : Inode} (h : j ≠ w.inode) : exec d w j = d j := by
  simp [exec, upd, h]

theorem exec_self (d : Inode → Content) (w : Pending) :
    exec d w w.inode = writeAt (d w.inode) w.off w.chunk := by
  simp [exec, upd]

theorem foldl_settle_none {p : Pid} : ∀ (fl : List Pending) (d : Inode → Content),
    (∀ w, w ∈ fl → w.owner ≠ p) →
    fl.foldl (fun d w => if w.owner = p then exec d w else d) d = d := by
  intro fl
  induction fl with
  | nil => intro d _; rfl
  | cons x xs ih =>
    intro d h
    have hx : x.owner ≠ p := h x (by simp)
    simp only [List.foldl_cons, hx, if_false]
    exact ih d (fun w hw => h w (by simp [hw]))

theorem foldl_settle_one {p : Pid} : ∀ (fl : List Pending) (d : Inode → Content) (w0 : Pending),
    (fl.map (·.owner)).Nodup → w0 ∈ fl → w0.owner = p →
    fl.foldl (fun d w => if w.owner = p then exec d w else d) d = exec d w0 := by
  intro fl
  induction fl with
  | nil => intro d w0 _ h; simp at h
  | cons x xs ih =>
    intro d w0 hnd hmem ho
    simp only [List.map_cons, List.nodup_cons] at hnd
    obtain ⟨hx, hxs⟩ := hnd
    simp only [List.mem_cons] at hmem
    rcases hmem with rfl | hmem
    · simp only [List.foldl_cons, ho, if_true]
      apply foldl_settle_none
      intro w hw he
      apply hx
      rw [ho, ← he]
      exact List.mem_map_of_mem hw
    · have hxp : x.owner ≠ p := by
        intro he
        apply hx
        rw [he, ← ho]
        exact List.mem_map_of_mem hmem
      simp only [List.foldl_cons, hxp, if_false]
      exact ih d w0 hxs hmem ho

theorem settle_snd_mem {p : Pid} {d : Inode → Content} {fl : List Pending} {w : Pending} :
    w ∈ (settle p d fl).2 ↔ w ∈ fl ∧ w.owner ≠ p := by
  simp [settle, List.mem_filter]

theorem nodup_owner_sublist {l l' : List Pending} (h : l'.Sublist l) (hn : (l.map (·.owner)).Nodup) :
    (l'.map (·.owner)).Nodup :=
  List.Nodup.sublist (h.map _) hn

theorem nodup_owner_filter {l : List Pending} (q : Pending → Bool) (hn : (l.map (·.owner)).Nodup) :
    ((l.filter q).map (·.owner)).Nodup :=
  nodup_owner_sublist List.filter_sublist hn

theorem nodup_owner_erase {l : List Pending} (n : Nat) (hn : (l.map (·.owner)).Nodup) :
    ((l.eraseIdx n).map (·.owner)).Nodup :=
  nodup_owner_sublist (List.eraseIdx_sublist l n) hn

/-- after erasing the n-th queued write nobody else of its owner is left -/
theorem erase_owner_ne : ∀ (l : List Pending) (n : Nat) (w w' : Pending),
    (l.map (·.owner)).Nodup → l[n]? = some w → w' ∈ l.eraseIdx n → w'.owner ≠ w.owner := by
  intro l
  induction l with
  | nil => intro n w w' _ h; simp at h
  | cons x xs ih =>
    intro n w w' hnd hget hmem
    simp only [List.map_cons, List.nodup_cons] at hnd
    obtain ⟨hx, hxs⟩ := hnd
    cases n with
    | zero =>
      simp at hget
      subst hget
      simp at hmem
      intro he
      apply hx
      rw [← he]
      exact List.mem_map_of_mem hmem
    | succ n =>
      simp at hget
      simp only [List.eraseIdx_cons_succ, List.mem_cons] at hmem
      rcases hmem with rfl | hmem
      · intro he
        apply hx
        rw [he]
        exact List.mem_map_of_mem (List.mem_of_getElem? hget)
      · exact ih n w w' hxs hget hmem

/-! ### the invariant -/

structure BInv (pl : Pid → Content) (s : State) : Prop where
  /-- queued writes target allocated inodes -/
  b0 : ∀ w, w ∈ s.inflight → w.inode < s.base.nextInode
  /-- the owner of a queued write is inside its callback, or has just left it with an error (`.part` not yet
  removed, lock still held), or has left the critical section — and then NO NAME refers to the inode -/
  b1 : ∀ w, w ∈ s.inflight → isWritingPC (s.base.pc w.owner) = true ∨ isFailedPC (s.base.pc w.owner) = true ∨
      (postFail (s.base.pc w.owner) = true ∧ s.base.part ≠ some w.inode ∧ s.base.dest ≠ some w.inode)
  b2a : ∀ w, w ∈ s.inflight → ∀ i j k, s.base.pc w.owner = .writing i j k →
      w.inode = j ∧ w.off + 1 = k ∧ (pl w.owner)[w.off]? = some w.chunk ∧
      s.disk j = (pl w.owner).take w.off
  b2b : ∀ p i j k, s.base.pc p = .writing i j k → (∀ w, w ∈ s.inflight → w.owner ≠ p) →
      s.disk j = (pl p).take k
  b3 : ∀ p i, s.base.pc p = .wroteOk i →
      (∀ w, w ∈ s.inflight → w.owner ≠ p) ∧ ∀ j, s.base.part = some j → s.disk j = pl p
  b4 : ∀ j, s.base.dest = some j → s.disk j = s.base.content j
  /-- at most one queued write per creator -/
  b5 : (s.inflight.map (·.owner)).Nodup

theorem binv_init (pl : Pid → Content) : BInv pl State.init := by
  constructor <;> simp [State.init, FC.State.init]

theorem isWritingPC_eq {pc : PC} (h : isWritingPC pc = true) : ∃ i j k, pc = .writing i j k := by
  cases pc <;> simp [isWritingPC] at h
  exact ⟨_, _, _, rfl⟩

theorem isFailedPC_inCS {pc : PC} (h : isFailedPC pc = true) : inCS pc = true := by
  cases pc <;> simp [isFailedPC] at h <;> simp [inCS]

theorem postFail_not {pc : PC} (h : postFail pc = true) :
    inCS pc = false ∧ (∀ i j k, pc ≠ .writing i j k) ∧ (∀ i, pc ≠ .wroteOk i) := by
  cases pc <;> simp [postFail] at h <;> simp [inCS]

theorem binv_land {pl : Pid → Content} {s s' : State} {n : Nat} (hB : BInv pl s) (hI : FC.Inv pl s.base)
    (hn : next false pl s (.land n) = some s') : BInv pl s' := by
  have hm := @Inv.mutex pl s.base hI
  simp only [next] at hn
  split at hn
  · rename_i w hget
    injection hn with hn
    subst hn
    have hwm : w ∈ s.inflight := List.mem_of_getElem? hget
    have hsub : ∀ w', w' ∈ s.inflight.eraseIdx n → w' ∈ s.inflight :=
      fun w' h => (List.eraseIdx_sublist _ _).mem h
    have hne : ∀ w', w' ∈ s.inflight.eraseIdx n → w'.owner ≠ w.owner :=
      fun w' h => erase_owner_ne _ n w w' hB.b5 hget h
    rcases hB.b1 w hwm with hw | hf | ⟨hp, hpart, hdest⟩
    · -- the owner is inside its callback: the write it is one chunk ahead of is executed
      obtain ⟨i, j, k, hpc⟩ := isWritingPC_eq hw
      obtain ⟨hj, hk, hc, hd⟩ := hB.b2a w hwm i j k hpc
      have hcs : inCS (s.base.pc w.owner) = true := by simp [hpc, inCS]
      have only : ∀ q, inCS (s.base.pc q) = true → q = w.owner := fun q hq => hm hq hcs
      refine ⟨fun w' h => hB.b0 w' (hsub w' h), fun w' h => hB.b1 w' (hsub w' h), ?_, ?_, ?_, ?_,
        nodup_owner_erase n hB.b5⟩
      · intro w' h i' j' k' hpc'
        dsimp only at h hpc'
        exact absurd (only w'.owner (by simp [hpc', inCS])) (hne w' h)
      · intro p i' j' k' hpc' _
        dsimp only at hpc' ⊢
        have := only p (by simp [hpc', inCS])
        subst this
        rw [hpc] at hpc'
        injection hpc' with _ hj' hk'
        subst hj' hk'
        rw [← hj, exec_self, hj, hd, writeAt_take hc, hk]
      · intro p i' hpc'
        dsimp only at hpc'
        have := only p (by simp [hpc', inCS])
        subst this
        rw [hpc] at hpc'
        simp at hpc'
      · intro j' hj'
        dsimp only at hj'
        have := hI.dest_none_of_inCS hcs
        rw [this] at hj'
        simp at hj'
    · -- the owner's callback has returned an error; it still holds the lock
      have hcs := isFailedPC_inCS hf
      have only : ∀ q, inCS (s.base.pc q) = true → q = w.owner := fun q hq => hm hq hcs
      have hnw : ∀ i j k, s.base.pc w.owner ≠ .writing i j k := by
        intro i j k h; rw [h] at hf; simp [isFailedPC] at hf
      have hno : ∀ i, s.base.pc w.owner ≠ .wroteOk i := by
        intro i h; rw [h] at hf; simp [isFailedPC] at hf
      refine ⟨fun w' h => hB.b0 w' (hsub w' h), fun w' h => hB.b1 w' (hsub w' h), ?_, ?_, ?_, ?_,
        nodup_owner_erase n hB.b5⟩
      · intro w' h i' j' k' hpc'
        dsimp only at h hpc'
        exact absurd (only w'.owner (by simp [hpc', inCS])) (hne w' h)
      · intro p i' j' k' hpc' _
        dsimp only at hpc'
        have := only p (by simp [hpc', inCS])
        subst this
        exact absurd hpc' (hnw _ _ _)
      · intro p i' hpc'
        dsimp only at hpc'
        have := only p (by simp [hpc', inCS])
        subst this
        exact absurd hpc' (hno _)
      · intro j' hj'
        dsimp only at hj'
        have := hI.dest_none_of_inCS hcs
        rw [this] at hj'
        simp at hj'
    · -- an orphan: it lands on an inode that no name refers to
      refine ⟨fun w' h => hB.b0 w' (hsub w' h), fun w' h => hB.b1 w' (hsub w' h), ?_, ?_, ?_, ?_,
        nodup_owner_erase n hB.b5⟩
      · intro w' h i' j' k' hpc'
        dsimp only at hpc' ⊢
        obtain ⟨h1, h2, h3, h4⟩ := hB.b2a w' (hsub w' h) i' j' k' hpc'
        refine ⟨h1, h2, h3, ?_⟩
        have hpj := (hI.writing w'.owner i' j' k' hpc').1
        rw [exec_other (by intro he; apply hpart; rw [hpj, he]), h4]
      · intro p i' j' k' hpc' hnone
        dsimp only at hpc' hnone ⊢
        have hpj := (hI.writing p i' j' k' hpc').1
        rw [exec_other (by intro he; apply hpart; rw [hpj, he])]
        apply hB.b2b p i' j' k' hpc'
        intro w' hw' he
        -- a queued write of p other than w is still queued; w itself is not p's (p is in its callback, w's owner is not)
        rcases List.mem_iff_getElem?.mp hw' with ⟨m, hm'⟩
        by_cases hmn : m = n
        · subst hmn
          rw [hget] at hm'
          injection hm' with hm'
          subst hm'
          rw [he] at hp
          have := (postFail_not hp).2.1 i' j' k'
          exact this hpc'
        · have : w' ∈ s.inflight.eraseIdx n := by
            rw [List.mem_eraseIdx_iff_getElem?]
            exact ⟨m, hmn, hm'⟩
          exact hnone w' this he
      · intro p i' hpc'
        dsimp only at hpc' ⊢
        obtain ⟨h1, h2⟩ := hB.b3 p i' hpc'
        refine ⟨fun w' h => h1 w' (hsub w' h), ?_⟩
        intro j' hj'
        rw [exec_other (by intro he; apply hpart; rw [hj', he])]
        exact h2 j' hj'
      · intro j' hj'
        dsimp only at hj' ⊢
        rw [exec_other (by intro he; apply hdest; rw [hj', he])]
        exact hB.b4 j' hj'
  · simp at hn

/-- an action of a creator outside the critical section -/
theorem binv_frame {pl : Pid → Content} {s : State} {b : FC.State} {p : Pid} (hB : BInv pl s)
    (hpc : ∀ q, q ≠ p → b.pc q = s.base.pc q)
    (hpart : b.part = s.base.part) (hdest : b.dest = s.base.dest) (hcont : b.content = s.base.content)
    (hni : s.base.nextInode ≤ b.nextInode)
    (hcs : inCS (s.base.pc p) = false)
    (hw : ∀ i j k, b.pc p ≠ .writing i j k) (hok : ∀ i, b.pc p ≠ .wroteOk i)
    (hpf : postFail (s.base.pc p) = true → postFail (b.pc p) = true)
    (fl : List Pending) (hsub : ∀ w, w ∈ fl → w ∈ s.inflight) (hnd : (fl.map (·.owner)).Nodup)
    (hkeep : ∀ w, w ∈ s.inflight → w.owner ≠ p → w ∈ fl) :
    BInv pl { base := b, disk := s.disk, inflight := fl } := by
  refine ⟨?_, ?_, ?_, ?_, ?_, ?_, hnd⟩
  · intro w hw'
    exact Nat.lt_of_lt_of_le (hB.b0 w (hsub w hw')) hni
  · intro w hw'
    dsimp only at hw' ⊢
    by_cases he : w.owner = p
    · rcases hB.b1 w (hsub w hw') with h | h | ⟨h1, h2, h3⟩
      · obtain ⟨i, j, k, hh⟩ := isWritingPC_eq h
        rw [he] at hh; rw [hh] at hcs; simp [inCS] at hcs
      · have := isFailedPC_inCS h
        rw [he, hcs] at this; simp at this
      · right; right
        rw [he] at h1 ⊢
        exact ⟨hpf h1, by rw [hpart]; exact h2, by rw [hdest]; exact h3⟩
    · rw [hpc _ he, hpart, hdest]
      exact hB.b1 w (hsub w hw')
  · intro w hw' i j k hh
    dsimp only at hw' hh ⊢
    have he : w.owner ≠ p := by intro he; rw [he] at hh; exact hw i j k hh
    rw [hpc _ he] at hh
    exact hB.b2a w (hsub w hw') i j k hh
  · intro q i j k hh hnone
    dsimp only at hh hnone ⊢
    have he : q ≠ p := by intro he; subst he; exact hw i j k hh
    rw [hpc _ he] at hh
    apply hB.b2b q i j k hh
    intro w hw' hwq
    by_cases hwp : w.owner = p
    · exact he (hwq.symm.trans hwp)
    · exact hnone w (hkeep w hw' hwp) hwq
  · intro q i hh
    dsimp only at hh ⊢
    have he : q ≠ p := by intro he; subst he; exact hok i hh
    rw [hpc _ he] at hh
    obtain ⟨h1, h2⟩ := hB.b3 q i hh
    refine ⟨fun w hw' => h1 w (hsub w hw'), ?_⟩
    rw [hpart]; exact h2
  · intro j hj
    dsimp only at hj ⊢
    rw [hdest] at hj
    rw [hcont]
    exact hB.b4 j hj

theorem binv_base_nonCS {pl : Pid → Content} {s s' : State} {a : FC.Act} {b : FC.State} (hB : BInv pl s)
    (hb : FC.next pl s.base a = some b) (hcs : inCS (s.base.pc a.pid) = false)
    (hn : next false pl s (.base a) = some s') : BInv pl s' := by
  obtain ⟨h1, h2, h3, h4, h5⟩ := next_frame_nonCS hb hcs
  have hmono := next_nextInode_mono hb
  have hframe := fun q (hq : q ≠ a.pid) => next_pc_other hb hq
  have hpf := fun h => next_postFail hb h
  have hF : ∀ fl : List Pending, (∀ w, w ∈ fl → w ∈ s.inflight) → (fl.map (·.owner)).Nodup →
      (∀ w, w ∈ s.inflight → w.owner ≠ a.pid → w ∈ fl) → BInv pl { base := b, disk := s.disk, inflight := fl } :=
    fun fl x y z => binv_frame hB hframe h1 h2 h3 hmono hcs h4 h5 hpf fl x y z
  have hsame := hF s.inflight (fun _ h => h) hB.b5 (fun _ h _ => h)
  cases a with
  | step p =>
    simp only [FC.Act.pid] at hcs
    cases hpc : s.base.pc p <;> simp [inCS, hpc] at hcs <;>
      simp [next, hb, hpc, FC.Act.pid] at hn <;> subst hn <;> exact hsame
  | fail p =>
    simp only [FC.Act.pid] at hcs
    cases hpc : s.base.pc p <;> simp [inCS, hpc] at hcs <;>
      simp [next, hb, hpc, FC.Act.pid] at hn <;> subst hn <;> exact hsame
  | cancel p =>
    simp only [FC.Act.pid] at hcs
    cases hpc : s.base.pc p <;> simp [inCS, hpc] at hcs <;>
      simp [next, hb, hpc, FC.Act.pid] at hn <;> subst hn <;> exact hsame
  | crash p =>
    simp only [FC.Act.pid] at hcs hF
    have hflt := hF (s.inflight.filter (fun w => w.owner ≠ p))
      (fun w h => (List.mem_filter.mp h).1) (nodup_owner_filter _ hB.b5)
      (fun w h hne => List.mem_filter.mpr ⟨h, by simpa using hne⟩)
    simp [next, hb, FC.Act.pid] at hn
    subst hn
    exact hflt

/-- a queued write of somebody else than the creator inside the critical section is an orphan -/
theorem orphan_of_ne {pl : Pid → Content} {s : State} (hB : BInv pl s) (hI : FC.Inv pl s.base) {p : Pid}
    (hcs : inCS (s.base.pc p) = true) {w : Pending} (hw : w ∈ s.inflight) (hne : w.owner ≠ p) :
    postFail (s.base.pc w.owner) = true ∧ s.base.part ≠ some w.inode ∧ s.base.dest ≠ some w.inode := by
  rcases hB.b1 w hw with h | h | h
  · obtain ⟨i, j, k, hh⟩ := isWritingPC_eq h
    exact absurd (hI.mutex (by simp [hh, inCS]) hcs) hne
  · exact absurd (hI.mutex (isFailedPC_inCS h) hcs) hne
  · exact h

/-- an action of the one creator inside the critical section: only its own new program point and its own
queued write matter; the others' queued writes stay orphans as long as no name gets their inode -/
theorem binv_cs {pl : Pid → Content} {s : State} (hB : BInv pl s) (hI : FC.Inv pl s.base) {p : Pid}
    (hcs : inCS (s.base.pc p) = true) (s' : State)
    (hpc : ∀ q, q ≠ p → s'.base.pc q = s.base.pc q)
    (hni : s.base.nextInode ≤ s'.base.nextInode)
    (hoth : ∀ w, w ∈ s'.inflight → w.owner ≠ p →
      w ∈ s.inflight ∧ s'.base.part ≠ some w.inode ∧ s'.base.dest ≠ some w.inode)
    (hown : ∀ w, w ∈ s'.inflight → w.owner = p → w.inode < s'.base.nextInode ∧
      (isWritingPC (s'.base.pc p) = true ∨ isFailedPC (s'.base.pc p) = true ∨
        (postFail (s'.base.pc p) = true ∧ s'.base.part ≠ some w.inode ∧ s'.base.dest ≠ some w.inode)) ∧
      (∀ i j k, s'.base.pc p = .writing i j k → w.inode = j ∧ w.off + 1 = k ∧
        (pl p)[w.off]? = some w.chunk ∧ s'.disk j = (pl p).take w.off))
    (hb2b : ∀ i j k, s'.base.pc p = .writing i j k → (∀ w, w ∈ s'.inflight → w.owner ≠ p) →
      s'.disk j = (pl p).take k)
    (hb3 : ∀ i, s'.base.pc p = .wroteOk i →
      (∀ w, w ∈ s'.inflight → w.owner ≠ p) ∧ ∀ j, s'.base.part = some j → s'.disk j = pl p)
    (hb4 : ∀ j, s'.base.dest = some j → s'.disk j = s'.base.content j)
    (hb5 : (s'.inflight.map (·.owner)).Nodup) : BInv pl s' := by
  have hm := @Inv.mutex pl s.base hI
  have only_p : ∀ q, inCS (s'.base.pc q) = true → q = p := by
    intro q hq
    by_cases hqp : q = p
    · exact hqp
    · rw [hpc q hqp] at hq; exact hm hq hcs
  refine ⟨?_, ?_, ?_, ?_, ?_, hb4, hb5⟩
  · intro w hw
    by_cases he : w.owner = p
    · exact (hown w hw he).1
    · exact Nat.lt_of_lt_of_le (hB.b0 w (hoth w hw he).1) hni
  · intro w hw
    by_cases he : w.owner = p
    · rw [he]; exact (hown w hw he).2.1
    · obtain ⟨h1, h2, h3⟩ := hoth w hw he
      right; right
      rw [hpc _ he]
      exact ⟨(orphan_of_ne hB hI hcs h1 he).1, h2, h3⟩
  · intro w hw i j k hh
    have he : w.owner = p := only_p _ (by simp [hh, inCS])
    rw [he] at hh ⊢
    exact (hown w hw he).2.2 i j k hh
  · intro q i j k hh hnone
    have := only_p q (by simp [hh, inCS])
    subst this
    exact hb2b i j k hh hnone
  · intro q i hh
    have := only_p q (by simp [hh, inCS])
    subst this
    exact hb3 i hh

/-- the creator inside the critical section leaves the callback / the critical section without touching the
disk: its queued write (if any) stays attached (`failed`) or becomes an orphan of a nameless inode -/
theorem binv_cs_exit {pl : Pid → Content} {s : State} (hB : BInv pl s) (hI : FC.Inv pl s.base) {p : Pid}
    (hcs : inCS (s.base.pc p) = true) (s' : State)
    (hpc : ∀ q, q ≠ p → s'.base.pc q = s.base.pc q)
    (hni : s.base.nextInode ≤ s'.base.nextInode)
    (hsub : ∀ w, w ∈ s'.inflight → w ∈ s.inflight)
    (hnd : (s'.inflight.map (·.owner)).Nodup)
    (hpart : s'.base.part = s.base.part ∨ s'.base.part = none)
    (hdest : s'.base.dest = none)
    (hnw : ∀ i j k, s'.base.pc p ≠ .writing i j k) (hno : ∀ i, s'.base.pc p ≠ .wroteOk i)
    (hown : ∀ w, w ∈ s'.inflight → w.owner = p →
      isFailedPC (s'.base.pc p) = true ∨ (postFail (s'.base.pc p) = true ∧ s'.base.part = none)) :
    BInv pl s' := by
  apply binv_cs hB hI hcs s' hpc hni
  · intro w hw he
    have hw' := hsub w hw
    obtain ⟨_, h2, _⟩ := orphan_of_ne hB hI hcs hw' he
    refine ⟨hw', ?_, by rw [hdest]; simp⟩
    rcases hpart with h | h
    · rw [h]; exact h2
    · rw [h]; simp
  · intro w hw he
    refine ⟨Nat.lt_of_lt_of_le (hB.b0 w (hsub w hw)) hni, ?_, fun i j k h => absurd h (hnw i j k)⟩
    rcases hown w hw he with h | ⟨h1, h2⟩
    · exact Or.inr (Or.inl h)
    · exact Or.inr (Or.inr ⟨h1, by rw [h2]; simp, by rw [hdest]; simp⟩)
  · intro i j k h; exact absurd h (hnw i j k)
  · intro i h; exact absurd h (hno i)
  · intro j hj; rw [hdest] at hj; simp at hj
  · exact hnd

theorem binv_base_CS_step {pl : Pid → Content} {s s' : State} {p : Pid} (hB : BInv pl s)
    (hI : FC.Inv pl s.base) (hN : FC.NInv s.base) (hcs : inCS (s.base.pc p) = true)
    (hn : next false pl s (.base (.step p)) = some s') : BInv pl s' := by
  have hdn : s.base.dest = none := hI.dest_none_of_inCS hcs
  have hb := next_base_eq hn
  have hframe : ∀ q, q ≠ p → s'.base.pc q = s.base.pc q := fun q hq => next_pc_other hb hq
  have hmono := next_nextInode_mono hb
  -- p's own queued writes exist only while p is inside its callback or has just failed
  have hmine : ∀ w, w ∈ s.inflight → w.owner = p →
      isWritingPC (s.base.pc p) = true ∨ isFailedPC (s.base.pc p) = true := by
    intro w hw he
    rcases hB.b1 w hw with h | h | ⟨h, _⟩
    · exact Or.inl (he ▸ h)
    · exact Or.inr (he ▸ h)
    · rw [he] at h
      have := (postFail_not h).1
      rw [hcs] at this; simp at this
  cases hpc : s.base.pc p <;> simp [inCS, hpc] at hcs
  · -- absent: open(.part, O_CREAT|O_TRUNC)
    rename_i i
    have hnone : ∀ w, w ∈ s.inflight → w.owner ≠ p := by
      intro w hw he
      rcases hmine w hw he with h | h <;> simp [hpc, isWritingPC, isFailedPC] at h
    have hcs' : inCS (s.base.pc p) = true := by simp [hpc, inCS]
    cases hpart : s.base.part with
    | none =>
      simp only [next, FC.next, stepP, hpc, hpart, FC.Act.pid, Option.some.injEq] at hn
      subst hn
      apply binv_cs hB hI hcs' _ (by simpa using hframe) (by simp)
      · intro w hw he
        dsimp only at hw ⊢
        refine ⟨hw, ?_, by rw [hdn]; simp⟩
        have hlt := hB.b0 w hw
        intro h
        have h' : s.base.nextInode = w.inode := by simpa using h
        rw [← h'] at hlt
        exact Nat.lt_irrefl _ hlt
      · intro w hw he; exact absurd he (hnone w hw)
      · intro i' j' k' h _; simp [upd] at h; obtain ⟨_, hj, hk⟩ := h; subst hj hk; simp [upd]
      · intro i' h; simp [upd] at h
      · intro j hj; dsimp only at hj; rw [hdn] at hj; simp at hj
      · exact hB.b5
    | some j =>
      simp only [next, FC.next, stepP, hpc, hpart, FC.Act.pid, Option.some.injEq] at hn
      subst hn
      apply binv_cs hB hI hcs' _ (by simpa using hframe) (by simp)
      · intro w hw he
        dsimp only at hw ⊢
        obtain ⟨_, h2, _⟩ := orphan_of_ne hB hI hcs' hw he
        exact ⟨hw, by rw [← hpart]; exact h2, by rw [hdn]; simp⟩
      · intro w hw he; exact absurd he (hnone w hw)
      · intro i' j' k' h _; simp [upd] at h; obtain ⟨_, hj, hk⟩ := h; subst hj hk; simp [upd]
      · intro i' h; simp [upd] at h
      · intro j hj; dsimp only at hj; rw [hdn] at hj; simp at hj
      · exact hB.b5
  · -- inside the callback
    rename_i i j k
    have hcs' : inCS (s.base.pc p) = true := by simp [hpc, inCS]
    have hE := hI.writing p i j k hpc
    have hjlt : j < s.base.nextInode := hN.partLt j hE.1
    -- once p's write in flight has been waited for, the temp file holds the first k chunks
    have hd1 : (settle p s.disk s.inflight).1 j = (pl p).take k := by
      by_cases hex : ∃ w, w ∈ s.inflight ∧ w.owner = p
      · obtain ⟨w0, hw0, ho⟩ := hex
        obtain ⟨h1, h2, h3, h4⟩ := hB.b2a w0 hw0 i j k (ho ▸ hpc)
        simp only [settle]
        rw [foldl_settle_one s.inflight s.disk w0 hB.b5 hw0 ho, ← h1, exec_self, h1, h4]
        rw [ho] at h3 ⊢
        rw [writeAt_take h3, h2]
      · have hnone : ∀ w, w ∈ s.inflight → w.owner ≠ p := fun w hw he => hex ⟨w, hw, he⟩
        simp only [settle]
        rw [foldl_settle_none s.inflight s.disk hnone]
        exact hB.b2b p i j k hpc hnone
    have hfl : ∀ w, w ∈ (settle p s.disk s.inflight).2 ↔ w ∈ s.inflight ∧ w.owner ≠ p :=
      fun w => settle_snd_mem
    have hnd1 : ((settle p s.disk s.inflight).2.map (·.owner)).Nodup := by
      simp only [settle]; exact nodup_owner_filter _ hB.b5
    cases hc : (pl p)[k]? with
    | some c =>
      simp only [next, FC.next, stepP, hpc, hc, FC.Act.pid, Option.some.injEq] at hn
      subst hn
      apply binv_cs hB hI hcs' _ (by simpa using hframe) (by simp)
      · intro w hw he
        dsimp only at hw ⊢
        simp only [List.mem_append, List.mem_singleton] at hw
        rcases hw with hw | hw
        · have hw' := ((hfl w).mp hw).1
          obtain ⟨_, h2, h3⟩ := orphan_of_ne hB hI hcs' hw' he
          exact ⟨hw', h2, h3⟩
        · subst hw; exact absurd rfl he
      · intro w hw he
        dsimp only at hw ⊢
        simp only [List.mem_append, List.mem_singleton] at hw
        rcases hw with hw | hw
        · exact absurd he ((hfl w).mp hw).2
        · subst hw
          refine ⟨hjlt, Or.inl (by simp [upd, isWritingPC]), ?_⟩
          intro i' j' k' h
          simp [upd] at h
          obtain ⟨_, hj, hk⟩ := h
          subst hj
          exact ⟨rfl, hk, hc, hd1⟩
      · intro i' j' k' _ hnone
        exact absurd rfl (hnone ⟨p, j, k, c⟩ (by simp))
      · intro i' h; simp [upd] at h
      · intro j' hj; dsimp only at hj; rw [hdn] at hj; simp at hj
      · dsimp only
        rw [List.map_append, List.nodup_append]
        refine ⟨hnd1, by simp, ?_⟩
        intro a ha b hb'
        simp at hb'
        subst hb'
        simp only [List.mem_map] at ha
        obtain ⟨w, hw, rfl⟩ := ha
        exact ((hfl w).mp hw).2
    | none =>
      simp only [next, FC.next, stepP, hpc, hc, FC.Act.pid, Option.some.injEq] at hn
      subst hn
      apply binv_cs hB hI hcs' _ (by simpa using hframe) (by simp)
      · intro w hw he
        dsimp only at hw ⊢
        have hw' := ((hfl w).mp hw).1
        obtain ⟨_, h2, h3⟩ := orphan_of_ne hB hI hcs' hw' he
        exact ⟨hw', h2, h3⟩
      · intro w hw he; exact absurd he ((hfl w).mp hw).2
      · intro i' j' k' h; simp [upd] at h
      · intro i' _
        refine ⟨fun w hw => ((hfl w).mp hw).2, ?_⟩
        intro j' hj'
        dsimp only at hj' ⊢
        rw [hE.1] at hj'
        injection hj' with hj'
        subst hj'
        rw [hd1]; exact take_all hc
      · intro j' hj; dsimp only at hj; rw [hdn] at hj; simp at hj
      · exact hnd1
  · -- written: rename
    rename_i i
    have hcs' : inCS (s.base.pc p) = true := by simp [hpc, inCS]
    obtain ⟨j, hpj, hcj⟩ := hI.wrote p i hpc
    obtain ⟨hnone, hok⟩ := hB.b3 p i hpc
    simp only [next, FC.next, stepP, hpc, FC.Act.pid, hpj, Option.some.injEq] at hn
    subst hn
    apply binv_cs hB hI hcs' _ (by simpa using hframe) (by simp)
    · intro w hw he
      dsimp only at hw ⊢
      obtain ⟨_, h2, _⟩ := orphan_of_ne hB hI hcs' hw he
      refine ⟨hw, by simp, ?_⟩
      intro h; apply h2; rw [hpj, h]
    · intro w hw he; exact absurd he (hnone w hw)
    · intro i' j' k' h; simp [upd] at h
    · intro i' h; simp [upd] at h
    · intro j' hj'
      dsimp only at hj' ⊢
      injection hj' with hj'
      subst hj'
      rw [hok j hpj, hcj]
    · exact hB.b5
  · -- failed: remove the temp file
    rename_i i e
    have hcs' : inCS (s.base.pc p) = true := by simp [hpc, inCS]
    simp only [next, FC.next, stepP, hpc, FC.Act.pid, Option.some.injEq] at hn
    subst hn
    apply binv_cs_exit hB hI hcs'
    · simpa using hframe
    · simp
    · exact fun _ h => h
    · exact hB.b5
    · exact Or.inr rfl
    · exact hdn
    · intro i' j' k' h; simp [upd] at h
    · intro i' h; simp [upd] at h
    · intro w _ _; right; simp [upd, postFail]

/-- actions of the repaired code under the one assumption left: the (ignored) removal of the temp file on the
error path — `fail` at `.failed`, file_creation.rs `let _ = remove_file(&temp_file_path)` — does not fail
while that creator still has a write queued. (A failing removal there would leave the name `dest.part` on
the inode the queued write targets, exactly the situation before the repair.) -/
def allowedR (s : State) : Act → Prop
  | .base (.fail p) => isFailedPC (s.base.pc p) = true → ∀ w, w ∈ s.inflight → w.owner ≠ p
  | _ => True

/-- reachable states of the deferred-write system of the repaired code: any creators, any schedule of creators
and blocking pool, faults, kills, cancellations at all await points -/
inductive ReachableR (pl : Pid → Content) : State → Prop
  | init : ReachableR pl State.init
  | step {s s' : State} (a : Act) : ReachableR pl s → allowedR s a → next false pl s a = some s' →
      ReachableR pl s'

theorem binv_base_CS_exit {pl : Pid → Content} {s s' : State} {a : FC.Act} (hB : BInv pl s)
    (hI : FC.Inv pl s.base) (hcs : inCS (s.base.pc a.pid) = true) (hstep : ∀ p, a ≠ .step p)
    (hal : allowedR s (.base a)) (hn : next false pl s (.base a) = some s') : BInv pl s' := by
  have hdn : s.base.dest = none := hI.dest_none_of_inCS hcs
  have hb := next_base_eq hn
  have hframe : ∀ q, q ≠ a.pid → s'.base.pc q = s.base.pc q := fun q hq => next_pc_other hb hq
  have hmono := next_nextInode_mono hb
  have hmine : ∀ w, w ∈ s.inflight → w.owner = a.pid →
      isWritingPC (s.base.pc a.pid) = true ∨ isFailedPC (s.base.pc a.pid) = true := by
    intro w hw he
    rcases hB.b1 w hw with h | h | ⟨h, _⟩
    · exact Or.inl (he ▸ h)
    · exact Or.inr (he ▸ h)
    · rw [he] at h
      have := (postFail_not h).1
      rw [hcs] at this; simp at this
  cases a with
  | step p => exact absurd rfl (hstep p)
  | fail p =>
    simp only [FC.Act.pid] at hcs hframe hmine
    cases hpc : s.base.pc p <;> simp [inCS, hpc] at hcs
    all_goals
      have hcs' : inCS (s.base.pc p) = true := by simp [hpc, inCS]
      simp [next, FC.next, failP, hpc, FC.Act.pid] at hn
      subst hn
      apply binv_cs_exit hB hI hcs'
    all_goals first
      | (simpa using hframe)
      | exact hB.b5
      | exact hdn
      | exact (fun _ h => h)
      | exact Or.inl rfl
      | (simp [upd]; done)
      | skip
    · -- absent: p has nothing queued
      intro w hw he
      rcases hmine w hw he with h | h <;> simp [hpc, isWritingPC, isFailedPC] at h
    · intro w _ _; left; simp [upd, isFailedPC]
    · intro w _ _; left; simp [upd, isFailedPC]
    · -- failed, removal of the temp file fails: allowed only with nothing queued
      intro w hw he
      exact absurd he (hal (by simp [hpc, isFailedPC]) w hw)
  | cancel p =>
    simp only [FC.Act.pid] at hcs hframe hmine
    cases hpc : s.base.pc p <;> simp [inCS, hpc] at hcs
    all_goals
      have hcs' : inCS (s.base.pc p) = true := by simp [hpc, inCS]
      simp [next, FC.next, cancelP, hpc, FC.Act.pid] at hn
    subst hn
    apply binv_cs_exit hB hI hcs'
    · simpa using hframe
    · simp
    · exact fun _ h => h
    · exact hB.b5
    · exact Or.inr rfl
    · exact hdn
    · intro i' j' k' h; simp [upd] at h
    · intro i' h; simp [upd] at h
    · intro w _ _; right; simp [upd, postFail]
  | crash p =>
    simp only [FC.Act.pid] at hcs hframe hmine
    cases hpc : s.base.pc p <;> simp [inCS, hpc] at hcs
    all_goals
      have hcs' : inCS (s.base.pc p) = true := by simp [hpc, inCS]
      simp [next, FC.next, crashP, hpc, quiet, lockFd, FC.Act.pid] at hn
      subst hn
      apply binv_cs_exit hB hI hcs'
    all_goals first
      | (simpa using hframe)
      | exact nodup_owner_filter _ hB.b5
      | exact hdn
      | exact (fun w h => (List.mem_filter.mp h).1)
      | exact Or.inl rfl
      | (simp [upd]; done)
      | (intro w hw he; have h2 := (List.mem_filter.mp hw).2; simp [he] at h2)

theorem binv_next {pl : Pid → Content} {s s' : State} {a : Act} (hB : BInv pl s)
    (hI : FC.Inv pl s.base) (hN : FC.NInv s.base) (hal : allowedR s a)
    (hn : next false pl s a = some s') : BInv pl s' := by
  cases a with
  | land n => exact binv_land hB hI hn
  | base a =>
    have hb := next_base_eq hn
    cases hcs : inCS (s.base.pc a.pid) with
    | false => exact binv_base_nonCS hB hb hcs hn
    | true =>
      by_cases hstep : ∃ p, a = .step p
      · obtain ⟨p, rfl⟩ := hstep
        exact binv_base_CS_step hB hI hN hcs hn
      · exact binv_base_CS_exit hB hI hcs (fun p h => hstep ⟨p, h⟩) hal hn

theorem reachableR_reachable {pl : Pid → Content} {s : State} (h : ReachableR pl s) :
    Reachable false pl s := by
  induction h with
  | init => exact Reachable.init
  | step a _ _ hn ih => exact Reachable.step a ih hn

/-- the invariant holds in every reachable state of the repaired system -/
theorem binv_reachable {pl : Pid → Content} {s : State} (h : ReachableR pl s) : BInv pl s := by
  induction h with
  | init => exact binv_init pl
  | step a hr hal hn ih =>
    have hbase := base_reachable (reachableR_reachable hr)
    exact binv_next ih (inv_reachable hbase) (ninv_reachable hbase) hal hn

end FCA
