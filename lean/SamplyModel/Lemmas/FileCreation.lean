import SamplyModel.Model.FileCreation
/-!
Inductive invariant of the `create_file_cleanly` protocol model (C16) and its preservation by every
transition (`inv_step`), hence by every reachable state (`inv_reachable`).
-/
namespace FC

/-- the creator has executed the rename -/
def afterRename : PC → Bool
  | .renamed _ | .crClosed | .doneCreated => true
  | _ => false

/-- the creator has seen the destination exist under the lock -/
def sawDest : PC → Bool
  | .sawExists _ | .exClosed | .exUnlinked | .doneExisting => true
  | _ => false

structure Inv (pl : Pid → Content) (s : State) : Prop where
  /-- whoever is at a program point that holds the flock is the registered owner of that inode -/
  holdA : ∀ p i, holdsLock (s.pc p) = some i → s.holder i = some p
  /-- … and the registered owner of an inode is at such a program point (a dead creator owns nothing) -/
  holdB : ∀ p i, s.holder i = some p → holdsLock (s.pc p) = some i
  /-- KEY: while the destination is absent the lock name has never been unlinked, so every open lock-file
  descriptor refers to the one inode the name still denotes -/
  sameInode : s.dest = none → ∀ p i, lockFd (s.pc p) = some i → s.lockName = some i
  /-- once the destination exists nobody is (or ever gets) inside the critical section -/
  noCS : s.dest ≠ none → ∀ p, inCS (s.pc p) = false
  /-- the temp file is exactly what its single writer has written so far -/
  writing : ∀ p i j k, s.pc p = .writing i j k → s.part = some j ∧ s.content j = (pl p).take k
  wrote : ∀ p i, s.pc p = .wroteOk i → ∃ j, s.part = some j ∧ s.content j = pl p
  /-- the destination is absent and nobody has renamed, or it holds the full payload of the one creator
  that renamed -/
  destOk : (s.dest = none ∧ s.winners = []) ∨
    ∃ w j, s.dest = some j ∧ s.content j = pl w ∧ s.winners = [w]
  after : ∀ p, afterRename (s.pc p) = true → s.winners = [p]
  saw : ∀ p, sawDest (s.pc p) = true → s.dest ≠ none

theorem inv_init (pl : Pid → Content) : Inv pl State.init := by
  constructor <;> simp [State.init, holdsLock, lockFd, inCS, afterRename, sawDest]

theorem inCS_holds {pc : PC} (h : inCS pc = true) : ∃ i, holdsLock pc = some i ∧ lockFd pc = some i := by
  cases pc <;> simp [inCS] at h <;> simp [holdsLock, lockFd]

theorem holds_lockFd {pc : PC} {i : Inode} (h : holdsLock pc = some i) : lockFd pc = some i := by
  cases pc <;> simp [holdsLock] at h <;> simp [lockFd, h]

/-- mutual exclusion of the critical section (a consequence of the invariant) -/
theorem Inv.mutex {pl : Pid → Content} {s : State} (h : Inv pl s) {p q : Pid}
    (hp : inCS (s.pc p) = true) (hq : inCS (s.pc q) = true) : p = q := by
  have hd : s.dest = none := by
    cases hd : s.dest with
    | none => rfl
    | some j => have := h.noCS (by simp [hd]) p; simp [hp] at this
  obtain ⟨i, hi1, hi2⟩ := inCS_holds hp
  obtain ⟨i', hi1', hi2'⟩ := inCS_holds hq
  have e1 := h.sameInode hd p i hi2
  have e2 := h.sameInode hd q i' hi2'
  have : i = i' := by rw [e1] at e2; exact Option.some.inj e2
  subst this
  have a1 := h.holdA p i hi1
  have a2 := h.holdA q i hi1'
  rw [a1] at a2; exact Option.some.inj a2

theorem Inv.dest_none_of_inCS {pl : Pid → Content} {s : State} (h : Inv pl s) {p : Pid}
    (hp : inCS (s.pc p) = true) : s.dest = none := by
  cases hd : s.dest with
  | none => rfl
  | some j => have := h.noCS (by simp [hd]) p; simp [hp] at this

/-! ### Preservation of the invariant

One lemma per program point for the progress steps (they elaborate in parallel and each stays fast), one
each for failures, cancellation and kills. In every case the goal is split into the nine clauses of `Inv`,
the point update `upd` is unfolded, and `grind` closes the clause from the clauses of the pre-state, the
derived mutual exclusion `Inv.mutex` and the definitions of the program-point classes. -/

theorem take_snoc {α} {l : List α} {k : Nat} {c : α} (h : l[k]? = some c) :
    l.take k ++ [c] = l.take (k + 1) := by simp [List.take_add_one, h]

theorem take_all {α} {l : List α} {k : Nat} (h : l[k]? = none) : l.take k = l := by
  simp at h; exact List.take_of_length_le h

set_option maxHeartbeats 1000000

/- the proof script shared by the per-program-point lemmas below (`h : Inv pl s`, `hpc : s.pc p = …`,
`hn : stepP pl s p = some s'` are the names it expects) -/
set_option hygiene false in
local macro "step_case" : tactic => `(tactic| (
  have hm := @Inv.mutex pl s h
  obtain ⟨hA, hB, hC, hD, hE, hF, hG, hH, hI⟩ := h
  unfold stepP at hn
  rw [hpc] at hn
  simp only at hn
  (try split at hn)
  all_goals (first | (injection hn with hn; subst hn) | (exact absurd hn (by simp)))
  all_goals constructor
  all_goals (try simp only [upd])
  all_goals (grind [holdsLock, lockFd, inCS, afterRename, sawDest, release, take_snoc, take_all])))

theorem inv_step_idle {pl : Pid → Content} {s s' : State} {p : Pid} (h : Inv pl s)
    (hpc : s.pc p = .idle) (hn : stepP pl s p = some s') : Inv pl s' := by
  step_case

theorem inv_step_opened {pl : Pid → Content} {s s' : State} {p : Pid} {i : Inode} (h : Inv pl s)
    (hpc : s.pc p = .opened i) (hn : stepP pl s p = some s') : Inv pl s' := by
  step_case

theorem inv_step_waiting {pl : Pid → Content} {s s' : State} {p : Pid} {i : Inode} (h : Inv pl s)
    (hpc : s.pc p = .waiting i) (hn : stepP pl s p = some s') : Inv pl s' := by
  step_case

theorem inv_step_locked {pl : Pid → Content} {s s' : State} {p : Pid} {i : Inode} (h : Inv pl s)
    (hpc : s.pc p = .locked i) (hn : stepP pl s p = some s') : Inv pl s' := by
  step_case

theorem inv_step_sawExists {pl : Pid → Content} {s s' : State} {p : Pid} {i : Inode} (h : Inv pl s)
    (hpc : s.pc p = .sawExists i) (hn : stepP pl s p = some s') : Inv pl s' := by
  step_case

theorem inv_step_exClosed {pl : Pid → Content} {s s' : State} {p : Pid} (h : Inv pl s)
    (hpc : s.pc p = .exClosed) (hn : stepP pl s p = some s') : Inv pl s' := by
  step_case

theorem inv_step_exUnlinked {pl : Pid → Content} {s s' : State} {p : Pid} (h : Inv pl s)
    (hpc : s.pc p = .exUnlinked) (hn : stepP pl s p = some s') : Inv pl s' := by
  step_case

theorem inv_step_absent {pl : Pid → Content} {s s' : State} {p : Pid} {i : Inode} (h : Inv pl s)
    (hpc : s.pc p = .absent i) (hn : stepP pl s p = some s') : Inv pl s' := by
  step_case

theorem inv_step_writing {pl : Pid → Content} {s s' : State} {p : Pid} {i : Inode} {j : Inode} {k : Nat} (h : Inv pl s)
    (hpc : s.pc p = .writing i j k) (hn : stepP pl s p = some s') : Inv pl s' := by
  step_case

theorem inv_step_wroteOk {pl : Pid → Content} {s s' : State} {p : Pid} {i : Inode} (h : Inv pl s)
    (hpc : s.pc p = .wroteOk i) (hn : stepP pl s p = some s') : Inv pl s' := by
  step_case

theorem inv_step_failed {pl : Pid → Content} {s s' : State} {p : Pid} {i : Inode} {e : ErrKind} (h : Inv pl s)
    (hpc : s.pc p = .failed i e) (hn : stepP pl s p = some s') : Inv pl s' := by
  step_case

theorem inv_step_failDrop {pl : Pid → Content} {s s' : State} {p : Pid} {i : Inode} {e : ErrKind} (h : Inv pl s)
    (hpc : s.pc p = .failDrop i e) (hn : stepP pl s p = some s') : Inv pl s' := by
  step_case

theorem inv_step_renamed {pl : Pid → Content} {s s' : State} {p : Pid} {i : Inode} (h : Inv pl s)
    (hpc : s.pc p = .renamed i) (hn : stepP pl s p = some s') : Inv pl s' := by
  step_case

theorem inv_step_crClosed {pl : Pid → Content} {s s' : State} {p : Pid} (h : Inv pl s)
    (hpc : s.pc p = .crClosed) (hn : stepP pl s p = some s') : Inv pl s' := by
  step_case

theorem inv_step_zombieWait {pl : Pid → Content} {s s' : State} {p : Pid} {i : Inode} (h : Inv pl s)
    (hpc : s.pc p = .zombieWait i) (hn : stepP pl s p = some s') : Inv pl s' := by
  step_case

theorem inv_step_zombieHeld {pl : Pid → Content} {s s' : State} {p : Pid} {i : Inode} (h : Inv pl s)
    (hpc : s.pc p = .zombieHeld i) (hn : stepP pl s p = some s') : Inv pl s' := by
  step_case

theorem inv_step_lockFailed {pl : Pid → Content} {s s' : State} {p : Pid} {i : Inode} (h : Inv pl s)
    (hpc : s.pc p = .lockFailed i) (hn : stepP pl s p = some s') : Inv pl s' := by
  step_case

theorem inv_stepP {pl : Pid → Content} {s s' : State} {p : Pid} (h : Inv pl s)
    (hn : stepP pl s p = some s') : Inv pl s' := by
  cases hpc : s.pc p with
  | idle => exact inv_step_idle h hpc hn
  | opened i => exact inv_step_opened h hpc hn
  | waiting i => exact inv_step_waiting h hpc hn
  | locked i => exact inv_step_locked h hpc hn
  | sawExists i => exact inv_step_sawExists h hpc hn
  | exClosed => exact inv_step_exClosed h hpc hn
  | exUnlinked => exact inv_step_exUnlinked h hpc hn
  | absent i => exact inv_step_absent h hpc hn
  | writing i j k => exact inv_step_writing h hpc hn
  | wroteOk i => exact inv_step_wroteOk h hpc hn
  | failed i e => exact inv_step_failed h hpc hn
  | failDrop i e => exact inv_step_failDrop h hpc hn
  | renamed i => exact inv_step_renamed h hpc hn
  | crClosed => exact inv_step_crClosed h hpc hn
  | zombieWait i => exact inv_step_zombieWait h hpc hn
  | zombieHeld i => exact inv_step_zombieHeld h hpc hn
  | lockFailed i => exact inv_step_lockFailed h hpc hn
  | doneExisting => simp [stepP, hpc] at hn
  | doneCreated => simp [stepP, hpc] at hn
  | doneErr e => simp [stepP, hpc] at hn
  | dead => simp [stepP, hpc] at hn

theorem inv_failP {pl : Pid → Content} {s s' : State} {p : Pid} (h : Inv pl s)
    (hn : failP s p = some s') : Inv pl s' := by
  have hm := @Inv.mutex pl s h
  obtain ⟨hA, hB, hC, hD, hE, hF, hG, hH, hI⟩ := h
  unfold failP at hn
  split at hn
  all_goals (first | (injection hn with hn; subst hn) | (exact absurd hn (by simp)))
  all_goals constructor
  all_goals (try simp only [upd])
  all_goals (grind [holdsLock, lockFd, inCS, afterRename, sawDest, release])

theorem inv_cancelP {pl : Pid → Content} {s s' : State} {p : Pid} (h : Inv pl s)
    (hn : cancelP s p = some s') : Inv pl s' := by
  have hm := @Inv.mutex pl s h
  obtain ⟨hA, hB, hC, hD, hE, hF, hG, hH, hI⟩ := h
  unfold cancelP at hn
  split at hn
  all_goals (first | (injection hn with hn; subst hn) | (exact absurd hn (by simp)))
  all_goals constructor
  all_goals (try simp only [upd])
  all_goals (grind [holdsLock, lockFd, inCS, afterRename, sawDest, release])

theorem inv_crashP {pl : Pid → Content} {s s' : State} {p : Pid} (h : Inv pl s)
    (hn : crashP s p = some s') : Inv pl s' := by
  have hm := @Inv.mutex pl s h
  have hL : ∀ q i, holdsLock (s.pc q) = some i → lockFd (s.pc q) = some i := fun q i => holds_lockFd
  obtain ⟨hA, hB, hC, hD, hE, hF, hG, hH, hI⟩ := h
  unfold crashP at hn
  split at hn
  · exact absurd hn (by simp)
  split at hn
  all_goals (injection hn with hn; subst hn)
  all_goals constructor
  all_goals (try simp only [upd])
  all_goals (grind [holdsLock, lockFd, inCS, afterRename, sawDest, release, quiet])

/-- every transition preserves the invariant -/
theorem inv_next {pl : Pid → Content} {s s' : State} {a : Act} (h : Inv pl s)
    (hn : next pl s a = some s') : Inv pl s' := by
  cases a with
  | step p => exact inv_stepP h hn
  | fail p => exact inv_failP h hn
  | crash p => exact inv_crashP h hn
  | cancel p => exact inv_cancelP h hn

/-- the invariant holds in every reachable state: all schedules, all crash points, all fault sequences,
any number of creators -/
theorem inv_reachable {pl : Pid → Content} {s : State} (h : Reachable pl s) : Inv pl s := by
  induction h with
  | init => exact inv_init pl
  | step a _ hn ih => exact inv_next ih hn

end FC
