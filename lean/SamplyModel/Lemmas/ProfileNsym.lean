import SamplyModel.Lemmas.ProfileFrameDesc
/-!
Canonical interning of native symbols (improvement round): the row behind a `NativeSymbolHandle`.
-/
namespace PT

theorem decodeNsym_of_inv (p : P) (hS : SInv p) (s : SerProfile) (hs : serialize p = some s)
    (t : Nat) (th : Thread) (ht : p.threads[t]? = some th) :
    ∃ st ∈ s.threads, st.tid = idString th.tid ∧ ∀ j, decodeNsym s st j = p.nsymDescOf th j := by
  obtain ⟨hlibs, _, hthreads⟩ := serialize_parts p hS s hs
  obtain ⟨st, hst, hser⟩ := hthreads t th ht
  refine ⟨st, hst, (serThread_fields p th st hser).1, ?_⟩
  intro j
  obtain ⟨c1, c2, c3, c4, c5⟩ := serThread_cols p th st hser
  have hl : (fun l => s.libs[l]?) = p.libs.getLibName := by
    funext l
    rw [hlibs l, getLibName_eq]
  simp only [decodeNsym, P.nsymDescOf, c1, c2, c3, c4, c5, hl]

theorem nsymOfCols_stable {S S' : List Str} {L L' : Nat → Option Str} {A A' : List Nat} {Z Z' : List (Option Nat)}
    {B B' N N' : List Nat} (j : Nat) (d : Str × Nat × Option Nat × Str)
    (hS : S <+: S') (hL : ∀ l x, L l = some x → L' l = some x)
    (hA : A <+: A') (hZ : Z <+: Z') (hB : B <+: B') (hN : N <+: N')
    (h : nsymOfCols S L A Z B N j = some d) : nsymOfCols S' L' A' Z' B' N' j = some d := by
  unfold nsymOfCols at h ⊢
  split at h
  · rename_i nl na nsz nn g1 g2 g3 g4
    have g1' : (B'[j]?).bind L' = some nl := by
      simp only [Option.bind_eq_some_iff] at g1 ⊢
      obtain ⟨x, hx, hx'⟩ := g1
      exact ⟨x, prefix_getElem? hB hx, hL _ _ hx'⟩
    have g4' : (N'[j]?).bind (S'[·]?) = some nn := by
      simp only [Option.bind_eq_some_iff] at g4 ⊢
      obtain ⟨x, hx, hx'⟩ := g4
      exact ⟨x, prefix_getElem? hN hx, prefix_getElem? hS hx'⟩
    rw [g1', prefix_getElem? hA g2, prefix_getElem? hZ g3, g4']
    exact h
  · cases h

theorem P.nsymDescOf_stable {p p' : P} (he : Ext p p') (t : Nat) (th : Thread) (ht : p.threads[t]? = some th)
    (j : Nat) (d : Str × Nat × Option Nat × Str) (h : p.nsymDescOf th j = some d) :
    ∃ th', p'.threads[t]? = some th' ∧ p'.nsymDescOf th' j = some d := by
  obtain ⟨th', ht', hse, hns⟩ := he.threads t th ht
  exact ⟨th', ht', nsymOfCols_stable j d hse.prefix (getLibName_stable he.all he.used) hns.1 hns.2.1 hns.2.2.1
    hns.2.2.2 h⟩

/-- `handle_for_native_symbol`: the row behind the returned handle, right after the call -/
theorem nativeSymbol_step (p : P) (hI : Inv p) (t lib : Nat) (sym : Sym) (j : Nat)
    (hout : (step p (.nativeSymbol t lib sym)).2 = .h [t, j]) :
    ∃ th0 th2 id sz nm, p.threads[t]? = some th0 ∧ (step p (.nativeSymbol t lib sym)).1.threads[t]? = some th2 ∧
      p.libs.all[lib]? = some id ∧
      (step p (.nativeSymbol t lib sym)).1.nsymDescOf th2 j = some (id, sym.addr, sz, nm) ∧
      ((∀ u : Nat, p.libs.used[u]? = some lib →
          ¬ ∃ j' : Nat, th0.nsyms.libs[j']? = some u ∧ th0.nsyms.addrs[j']? = some sym.addr) →
        sz = sym.size ∧ nm = sym.name) ∧
      (∀ d0, p.nsymDescOf th0 j = some d0 → d0 = (id, sym.addr, sz, nm)) := by
  simp only [step] at hout ⊢
  unfold P.nativeSymbol at hout ⊢
  cases hth : p.threads[t]? with
  | none => simp [hth] at hout
  | some th =>
    simp only [hth] at hout ⊢
    by_cases hl : lib < p.libs.all.length
    · simp only [hl, if_true] at hout ⊢
      obtain ⟨a1, a2, a3, _⟩ := hI.1.threads th (List.mem_of_getElem? hth)
      have hu := p.libs.indexForUsed_spec lib hI.1.libs hl
      have hug := p.libs.indexForUsed_get lib hI.1.libs
      have hue := p.libs.indexForUsed_ext lib
      cases hni : th.nsyms.indexFor (p.libs.indexForUsed lib).2 sym th.strings with
      | none => simp [hni] at hout
      | some r =>
        obtain ⟨ns, st, i, nmi⟩ := r
        simp only [hni, Out.h.injEq, List.cons.injEq, and_true, true_and] at hout ⊢
        subst hout
        obtain ⟨g1, g2, g3, g4, g5⟩ := th.nsyms.indexFor_get _ sym th.strings _ _ a3 a1.1 _ hni
        simp only at g1 g2 g3 g4 g5
        -- the library identity
        have hid : p.libs.all[lib]? = some (p.libs.all[lib]) := List.getElem?_eq_getElem hl
        have hlibname : (p.libs.indexForUsed lib).1.getLibName (p.libs.indexForUsed lib).2 = some (p.libs.all[lib]) := by
          rw [getLibName_eq, hug, Option.bind_some, hu.2.2.2.1]
          exact hid
        -- NsInv of the new table (for existence of size and name string)
        obtain ⟨ns', st', i', nm', e', hs', _, hns', hi', hnm', _⟩ :=
          th.nsyms.indexFor_spec (p.libs.indexForUsed lib).2 sym th.strings (p.libs.indexForUsed lib).1.used.length
            (a3.mono (Nat.le_refl _) hu.2.2.1) a1 hu.2.1
        rw [hni] at e'
        cases e'
        obtain ⟨n1, n2, n3, _⟩ := hns'
        have hjlt : i < ns.addrs.length := by omega
        have hsz : ∃ sz, ns.sizes[i]? = some sz := ⟨_, List.getElem?_eq_getElem (by omega)⟩
        obtain ⟨sz, hsz⟩ := hsz
        have hnmlt : nmi < st.table.strings.length := hnm'
        refine ⟨th, _, p.libs.all[lib], sz, st.table.strings[nmi], rfl,
          P.setThread_get _ t th _ hth, hid, ?_, ?_, ?_⟩
        · simp only [P.nsymDescOf, nsymOfCols, P.setThread, g1, g2, g3, hsz, Option.bind_some, hlibname,
            List.getElem?_eq_getElem hnmlt]
        · intro hfirst
          have hno : ¬ ∃ j' : Nat, th.nsyms.libs[j']? = some (p.libs.indexForUsed lib).2 ∧
              th.nsyms.addrs[j']? = some sym.addr := by
            rintro ⟨j', hj1, hj2⟩
            have hlt : (p.libs.indexForUsed lib).2 < p.libs.used.length :=
              a3.2.2.2.1 _ (List.mem_of_getElem? hj1)
            have hold : p.libs.used[(p.libs.indexForUsed lib).2]? = some lib := by
              obtain ⟨tl, htl⟩ := hue.2
              rw [← htl, List.getElem?_append_left hlt] at hug
              exact hug
            exact hfirst _ hold ⟨j', hj1, hj2⟩
          obtain ⟨k1, k2⟩ := g5 hno
          rw [hsz] at k1
          cases k1
          refine ⟨rfl, ?_⟩
          rw [List.getElem?_eq_getElem hnmlt] at k2
          exact Option.some.inj k2
        · intro d0 hd0
          -- a description before the call means row `i` existed: the table was not touched
          have hold : i < th.nsyms.addrs.length := by
            unfold P.nsymDescOf nsymOfCols at hd0
            split at hd0
            · rename_i _ _ _ _ _ q2 _ _
              exact (List.getElem?_eq_some_iff.mp q2).1
            · cases hd0
          have hex : ∃ j' : Nat, th.nsyms.libs[j']? = some (p.libs.indexForUsed lib).2 ∧
              th.nsyms.addrs[j']? = some sym.addr := by
            by_cases hc : ∃ j' : Nat, th.nsyms.libs[j']? = some (p.libs.indexForUsed lib).2 ∧
                th.nsyms.addrs[j']? = some sym.addr
            · exact hc
            · exfalso
              -- a new row would have been appended at `th.nsyms.addrs.length`
              unfold NativeSymbols.indexFor at hni
              split at hni
              · rename_i i0 hlk
                obtain ⟨q1, q2⟩ := a3.2.2.2.2.2.2.1 _ (alookup_mem _ _ _ hlk)
                exact hc ⟨i0, q1, q2⟩
              · cases hni
                omega
          obtain ⟨e1, e2⟩ := g4 hex
          subst e1; subst e2
          obtain ⟨th', ht', hd'⟩ := P.nsymDescOf_stable
            (Ext.globals (p := p) (p' := { p with libs := (p.libs.indexForUsed lib).1 }) rfl (List.prefix_refl _)
              hue.1 hue.2 (CatsExt.refl _)) t th hth i d0 hd0
          cases (Option.some.inj (hth.symm.trans ht'))
          have : ({ p with libs := (p.libs.indexForUsed lib).1 } : P).nsymDescOf th i =
              some (p.libs.all[lib], sym.addr, sz, th.strings.table.strings[nmi]) := by
            simp only [P.nsymDescOf, nsymOfCols, g1, g2, g3, hsz, Option.bind_some, hlibname,
              List.getElem?_eq_getElem hnmlt]
          rw [this] at hd'
          exact (Option.some.inj hd').symm
    · simp [hl] at hout

/-! ### histories -/

theorem acceptedFrom_append : ∀ (l post : List Op) (p : P), AcceptedFrom p (l ++ post) = true →
    AcceptedFrom p l = true ∧ AcceptedFrom (l.foldl (fun p o => (step p o).1) p) post = true
  | [], _, _, hp => ⟨rfl, hp⟩
  | o :: os, post, p, hp => by
    simp only [List.cons_append, AcceptedFrom, Bool.and_eq_true] at hp ⊢
    obtain ⟨h1, h2⟩ := acceptedFrom_append os post _ hp.2
    exact ⟨⟨hp.1, h1⟩, h2⟩

theorem run_append (a b : List Op) : run (a ++ b) = b.foldl (fun p op => (step p op).1) (run a) := by
  simp [run, List.foldl_append]

/-- the state after a prefix of an accepted history is only extended by the rest -/
theorem ext_of_accepted (a b : List Op) (h : Accepted (a ++ b) = true) : Ext (run a) (run (a ++ b)) := by
  obtain ⟨ha, hb⟩ := acceptedFrom_append a b P.init h
  rw [run_append]
  exact runFrom_ext b (run a) (Inv.run a ha) hb

end PT
