import SamplyModel.Model.Converter
/-! Facts about the thread-level functions of the converter model (`wake`, `sampleThread`, `switchOutThread`,
`schedThread`, `offCpuGroup`) that both simulations (C01: `ConvSim`, C17: `LifeStep`) use. -/
namespace Conv

/-! facts about the thread-level functions: they keep handle, name (and `lastTs`, except the sample path),
and every sample they emit is tagged with the thread's entry and ids; all but the sample itself are
synthesized -/

def Tagged (h pid tid : Nat) (us : List USample) : Prop := ∀ u ∈ us, u.th = h ∧ u.gpid = pid ∧ u.gtid = tid

theorem offCpuGroup_spec (s : St) (h : Nat) (g : CS.Group) (c : Nat) (stk : List SFrame) (lbl : String)
    (pid tid : Nat) :
    ∀ u ∈ offCpuGroup s h g c stk lbl pid tid, (u.th = h ∧ u.gpid = pid ∧ u.gtid = tid) ∧ u.synth = true := by
  intro u hu
  unfold offCpuGroup at hu
  split at hu
  · simp only [List.mem_cons, List.mem_nil_iff, or_false] at hu
    rcases hu with hu | hu <;> subst hu <;> exact ⟨⟨rfl, rfl, rfl⟩, rfl⟩
  · simp only [List.mem_cons, List.mem_nil_iff, or_false] at hu
    subst hu; exact ⟨⟨rfl, rfl, rfl⟩, rfl⟩

theorem wake_spec (s : St) (th : ThreadC) (e : CS.Ev) (pid tid : Nat) :
    (wake s th e pid tid).1.h = th.h ∧ (wake s th e pid tid).1.lastTs = th.lastTs ∧
    (wake s th e pid tid).1.name = th.name ∧
    ∀ u ∈ (wake s th e pid tid).2.1, (u.th = th.h ∧ u.gpid = pid ∧ u.gtid = tid) ∧ u.synth = true := by
  unfold wake
  dsimp only
  split
  · exact ⟨rfl, rfl, rfl, offCpuGroup_spec _ _ _ _ _ _ _ _⟩
  · exact ⟨rfl, rfl, rfl, fun u hu => by simp at hu⟩

/-- no thread-level function of the sample / context-switch paths emits a marker item -/
theorem offCpuGroup_nomarker (s : St) (h : Nat) (g : CS.Group) (c : Nat) (stk : List SFrame) (lbl : String)
    (pid tid : Nat) : ∀ u ∈ offCpuGroup s h g c stk lbl pid tid, u.marker = false := by
  intro u hu
  unfold offCpuGroup at hu
  split at hu
  · simp only [List.mem_cons, List.mem_nil_iff, or_false] at hu
    rcases hu with hu | hu <;> subst hu <;> rfl
  · simp only [List.mem_cons, List.mem_nil_iff, or_false] at hu
    subst hu; rfl

theorem wake_nomarker (s : St) (th : ThreadC) (e : CS.Ev) (pid tid : Nat) :
    ∀ u ∈ (wake s th e pid tid).2.1, u.marker = false := by
  unfold wake
  dsimp only
  split
  · exact offCpuGroup_nomarker _ _ _ _ _ _ _ _
  · exact fun u hu => by simp at hu

theorem sampleThread_nomarker (s : St) (th : ThreadC) (pid tid t period : Nat) (stack : List SFrame) :
    ∀ u ∈ (sampleThread s th pid tid t period stack).2.1, u.marker = false := by
  intro u hu
  unfold sampleThread at hu
  simp only [List.mem_append, List.mem_singleton] at hu
  rcases hu with hu | hu
  · exact wake_nomarker _ _ _ _ _ u hu
  · subst hu; rfl

theorem switchOutThread_spec (s : St) (th : ThreadC) (t : Nat) :
    (switchOutThread s th t).1.h = th.h ∧ (switchOutThread s th t).1.lastTs = th.lastTs ∧
    (switchOutThread s th t).1.name = th.name ∧ (switchOutThread s th t).2.1 = [] :=
  ⟨rfl, rfl, rfl, rfl⟩

theorem schedThread_spec (s : St) (th : ThreadC) (t : Nat) (stack : List SFrame) :
    (schedThread s th t stack).1.h = th.h ∧ (schedThread s th t stack).1.lastTs = th.lastTs ∧
    (schedThread s th t stack).1.name = th.name ∧ (schedThread s th t stack).2.1 = [] := by
  unfold schedThread
  split
  · exact ⟨rfl, rfl, rfl, rfl⟩
  · exact ⟨rfl, rfl, rfl, rfl⟩

/-- the sample path: the last emitted sample is the recorded one (not synthesized, at the converted time),
everything before it is synthesized -/
theorem sampleThread_spec (s : St) (th : ThreadC) (pid tid t period : Nat) (stack : List SFrame) :
    (sampleThread s th pid tid t period stack).1.h = th.h ∧
    (sampleThread s th pid tid t period stack).1.lastTs = some t ∧
    (sampleThread s th pid tid t period stack).1.name = th.name ∧
    ∃ pre u, (sampleThread s th pid tid t period stack).2.1 = pre ++ [u] ∧
      (∀ x ∈ pre, (x.th = th.h ∧ x.gpid = pid ∧ x.gtid = tid) ∧ x.synth = true) ∧
      u.th = th.h ∧ u.gpid = pid ∧ u.gtid = tid ∧ u.synth = false ∧ u.t = conv s t ∧ u.weight = 1 := by
  obtain ⟨h1, h2, h3, h4⟩ := wake_spec s { th with lastTs := some t } (.sample t) pid tid
  unfold sampleThread
  refine ⟨?_, ?_, ?_, _, _, rfl, h4, rfl, rfl, rfl, rfl, rfl, rfl⟩
  · dsimp only; split <;> exact h1
  · dsimp only; split <;> exact h2
  · dsimp only; split <;> exact h3

end Conv
