import SamplyModel.Model.ProfileThreads
import SamplyModel.Lemmas.LibMappings
/-!
Lemmas for the handle layer (`Model/ProfileThreads.lean`): the invariant that ties the `Vec`-indexed state of
`trun` to the function-indexed state of `prun` on the projected mapping history, and the pointwise form of the
profile-level resolution theorem.
-/
namespace LM

/-! ### snoc lemmas of the history projections -/

theorem mappingOps_snoc (h : List TOp) (op : TOp) :
    mappingOps (h ++ [op]) = mappingOps h ++ op.toPOp.toList := by
  cases hh : op.toPOp <;> simp [mappingOps, List.filterMap_append, hh]

theorem prun_snoc (l : List POp) (o : POp) : prun (l ++ [o]) = pstep (prun l) o := by
  simp [prun, List.foldl_append]

theorem owners_snoc (h : List TOp) (op : TOp) :
    owners (h ++ [op]) = owners h ++ (match op with | .newThread p => [p] | _ => []) := by
  cases op <;> simp [owners, List.filterMap_append]

theorem procCount_snoc (h : List TOp) (op : TOp) :
    procCount (h ++ [op]) = procCount h + (match op with | .newProc => 1 | _ => 0) := by
  cases op <;> simp [procCount, List.filter_append]

/-- the `Vec`-indexed state agrees with the function-indexed profile model on the mapping calls of the history -/
structure TInv (st : TState) (hist : List TOp) : Prop where
  kernel : st.kernel = (prun (mappingOps hist)).kernel
  nproc : st.procs.length = procCount hist
  procs : ∀ p tb, st.procs[p]? = some tb → tb = (prun (mappingOps hist)).procs p
  fresh : ∀ q, st.procs.length ≤ q → (prun (mappingOps hist)).procs q = Table.empty
  threads : st.threads = owners hist

theorem TInv_init : TInv TState.init [] :=
  ⟨rfl, rfl, by intro p tb h; simp [TState.init] at h, fun _ _ => rfl, rfl⟩

/-- a call that neither is a mapping call nor creates a handle leaves the invariant alone -/
theorem TInv_skip (st : TState) (hist : List TOp) (op : TOp) (hi : TInv st hist)
    (h1 : op.toPOp = none) (h2 : owners (hist ++ [op]) = owners hist)
    (h3 : procCount (hist ++ [op]) = procCount hist) : TInv st (hist ++ [op]) := by
  obtain ⟨hk, hn, hp, hf, ht⟩ := hi
  have hm : mappingOps (hist ++ [op]) = mappingOps hist := by simp [mappingOps_snoc, h1]
  exact ⟨by rw [hm]; exact hk, by rw [h3]; exact hn, by rw [hm]; exact hp, by rw [hm]; exact hf, by rw [h2]; exact ht⟩

theorem onProc_inv (st : TState) (hist : List TOp) (p : Nat) (o : Op) (top : TOp) (pop : POp)
    (htop : top.toPOp = some pop)
    (hpstep : ∀ ps : PState, pstep ps pop = ps.setProc p (step (ps.procs p) o))
    (h2 : owners (hist ++ [top]) = owners hist) (h3 : procCount (hist ++ [top]) = procCount hist)
    (hi : TInv st hist) (hlt : p < procCount hist) : TInv (onProc st p o).1 (hist ++ [top]) := by
  obtain ⟨hk, hn, hp, hf, ht⟩ := hi
  have hlen : p < st.procs.length := by omega
  have hget : st.procs[p]? = some st.procs[p] := List.getElem?_eq_getElem hlen
  have htb := hp p _ hget
  have hm : mappingOps (hist ++ [top]) = mappingOps hist ++ [pop] := by simp [mappingOps_snoc, htop]
  simp only [onProc, hget]
  refine ⟨?_, ?_, ?_, ?_, ?_⟩
  · rw [hm, prun_snoc, hpstep]; exact hk
  · rw [h3]; simpa using hn
  · intro q tb' hq
    rw [hm, prun_snoc, hpstep]
    by_cases hqp : q = p
    · subst hqp
      simp only [List.getElem?_set_self hlen, Option.some.injEq] at hq
      simp [PState.setProc, ← hq, htb]
    · have hne : p ≠ q := fun h => hqp h.symm
      simp only [List.getElem?_set_ne hne] at hq
      simp [PState.setProc, hqp, hp q tb' hq]
  · intro q hq
    rw [hm, prun_snoc, hpstep]
    simp only [List.length_set] at hq
    have hqp : q ≠ p := by omega
    simp [PState.setProc, hqp, hf q hq]
  · rw [h2]; exact ht

/-- one call with valid handles preserves the invariant -/
theorem tstep_inv (st : TState) (hist : List TOp) (op : TOp) (hi : TInv st hist)
    (hh : handlesOk hist op = true) : TInv (tstep st op).1 (hist ++ [op]) := by
  cases op with
  | newProc =>
    obtain ⟨hk, hn, hp, hf, ht⟩ := hi
    have hm : mappingOps (hist ++ [TOp.newProc]) = mappingOps hist := by simp [mappingOps_snoc, TOp.toPOp]
    refine ⟨?_, ?_, ?_, ?_, ?_⟩
    · rw [hm]; exact hk
    · simp [tstep, procCount_snoc, hn]
    · intro q tb hq
      rw [hm]
      simp only [tstep] at hq
      by_cases hlt : q < st.procs.length
      · rw [List.getElem?_append_left hlt] at hq
        exact hp q tb hq
      · have hge : st.procs.length ≤ q := by omega
        rw [List.getElem?_append_right hge] at hq
        have hq0 : q - st.procs.length = 0 := by
          cases hd : q - st.procs.length with
          | zero => rfl
          | succ n => rw [hd] at hq; simp at hq
        rw [hq0] at hq
        simp only [List.getElem?_cons_zero, Option.some.injEq] at hq
        rw [← hq]; exact (hf q hge).symm
    · intro q hq
      rw [hm]
      simp only [tstep, List.length_append, List.length_singleton] at hq
      exact hf q (by omega)
    · simp [tstep, owners_snoc, ht]
  | newThread p =>
    obtain ⟨hk, hn, hp, hf, ht⟩ := hi
    have hm : mappingOps (hist ++ [TOp.newThread p]) = mappingOps hist := by simp [mappingOps_snoc, TOp.toPOp]
    refine ⟨?_, ?_, ?_, ?_, ?_⟩
    · rw [hm]; exact hk
    · simp [tstep, procCount_snoc, hn]
    · rw [hm]; exact hp
    · rw [hm]; exact hf
    · simp [tstep, owners_snoc, ht]
  | kadd x =>
    obtain ⟨hk, hn, hp, hf, ht⟩ := hi
    have hm : mappingOps (hist ++ [TOp.kadd x]) = mappingOps hist ++ [POp.kadd x] := by
      simp [mappingOps_snoc, TOp.toPOp]
    refine ⟨?_, ?_, ?_, ?_, ?_⟩
    · rw [hm, prun_snoc]; simp [tstep, pstep, hk]
    · simp [tstep, procCount_snoc, hn]
    · rw [hm, prun_snoc]; exact hp
    · rw [hm, prun_snoc]; exact hf
    · simp [tstep, owners_snoc, ht]
  | kremove s =>
    obtain ⟨hk, hn, hp, hf, ht⟩ := hi
    have hm : mappingOps (hist ++ [TOp.kremove s]) = mappingOps hist ++ [POp.kremove s] := by
      simp [mappingOps_snoc, TOp.toPOp]
    refine ⟨?_, ?_, ?_, ?_, ?_⟩
    · rw [hm, prun_snoc]; simp [tstep, pstep, hk]
    · simp [tstep, procCount_snoc, hn]
    · rw [hm, prun_snoc]; exact hp
    · rw [hm, prun_snoc]; exact hf
    · simp [tstep, owners_snoc, ht]
  | padd p x =>
    simp only [handlesOk, decide_eq_true_eq] at hh
    exact onProc_inv st hist p (.add x) (.padd p x) (.padd p x) rfl (fun _ => rfl)
      (by simp [owners_snoc]) (by simp [procCount_snoc]) hi hh
  | premove p s =>
    simp only [handlesOk, decide_eq_true_eq] at hh
    exact onProc_inv st hist p (.remove s) (.premove p s) (.premove p s) rfl (fun _ => rfl)
      (by simp [owners_snoc]) (by simp [procCount_snoc]) hi hh
  | pclear p =>
    simp only [handlesOk, decide_eq_true_eq] at hh
    exact onProc_inv st hist p .clear (.pclear p) (.pclear p) rfl (fun _ => rfl)
      (by simp [owners_snoc]) (by simp [procCount_snoc]) hi hh
  | frame t fa =>
    exact TInv_skip st hist _ hi rfl (by simp [owners_snoc]) (by simp [procCount_snoc])
  | frameSym t nt fa =>
    exact TInv_skip st hist _ hi rfl (by simp [owners_snoc]) (by simp [procCount_snoc])

theorem tfoldl_inv (ops : List TOp) : ∀ (st : TState) (hist : List TOp), TInv st hist →
    (∀ pre op post, ops = pre ++ op :: post → handlesOk (hist ++ pre) op = true) →
    TInv (ops.foldl (fun s o => (tstep s o).1) st) (hist ++ ops) := by
  induction ops with
  | nil => intro st hist hi _; simpa using hi
  | cons op r ih =>
    intro st hist hi hv
    have h0 : handlesOk hist op = true := by simpa using hv [] op r rfl
    have := ih (tstep st op).1 (hist ++ [op]) (tstep_inv st hist op hi h0) (by
      intro pre o post hr
      have := hv (op :: pre) o post (by rw [hr]; rfl)
      simpa [List.append_assoc] using this)
    simpa [List.append_assoc] using this

/-- after a history with valid handles the state is the function-indexed profile model of the mapping calls -/
theorem trun_inv (ops : List TOp) (hv : HandlesValid ops) : TInv (trun ops) ops := by
  have := tfoldl_inv ops TState.init [] TInv_init (by
    intro pre op post h; simpa using hv pre op post h)
  simpa [trun] using this

/-- validity of handles is inherited by every prefix -/
theorem HandlesValid_prefix (pre post : List TOp) (hv : HandlesValid (pre ++ post)) : HandlesValid pre := by
  intro a op b h
  exact hv a op (b ++ post) (by rw [h]; simp)

/-! ### non-empty ranges pass to the projected table histories -/

theorem kernelOps_nonempty (ops : List POp) (h : ∀ op ∈ ops, POpNonEmpty op) : ∀ o ∈ kernelOps ops, OpOk o := by
  induction ops with
  | nil => simp [kernelOps]
  | cons op r ih =>
    have ih := ih (fun o ho => h o (List.mem_cons_of_mem _ ho))
    have h0 := h op List.mem_cons_self
    cases op with
    | kadd x =>
      intro o ho
      simp only [kernelOps, List.mem_cons] at ho
      rcases ho with rfl | ho
      · exact h0
      · exact ih o ho
    | kremove s =>
      intro o ho
      simp only [kernelOps, List.mem_cons] at ho
      rcases ho with rfl | ho
      · trivial
      · exact ih o ho
    | padd q x => simpa [kernelOps] using ih
    | premove q s => simpa [kernelOps] using ih
    | pclear q => simpa [kernelOps] using ih
    | frame q fa => simpa [kernelOps] using ih

theorem procOps_nonempty (p : Nat) (ops : List POp) (h : ∀ op ∈ ops, POpNonEmpty op) :
    ∀ o ∈ procOps p ops, OpOk o := by
  induction ops with
  | nil => simp [procOps]
  | cons op r ih =>
    have ih := ih (fun o ho => h o (List.mem_cons_of_mem _ ho))
    have h0 := h op List.mem_cons_self
    cases op with
    | kadd x => simpa [procOps] using ih
    | kremove s => simpa [procOps] using ih
    | frame q fa => simpa [procOps] using ih
    | padd q x =>
      intro o ho
      simp only [procOps] at ho
      split at ho
      · rcases List.mem_cons.mp ho with rfl | ho
        · exact h0
        · exact ih o ho
      · exact ih o ho
    | premove q s =>
      intro o ho
      simp only [procOps] at ho
      split at ho
      · rcases List.mem_cons.mp ho with rfl | ho
        · trivial
        · exact ih o ho
      · exact ih o ho
    | pclear q =>
      intro o ho
      simp only [procOps] at ho
      split at ho
      · rcases List.mem_cons.mp ho with rfl | ho
        · trivial
        · exact ih o ho
      · exact ih o ho

theorem lookupAddr_eq_specAddr (fa : FrameAddr) : fa.lookupAddr = fa.specAddr := by
  cases fa with
  | ip a => rfl
  | ara a => rfl
  | ra a => simp only [FrameAddr.lookupAddr, FrameAddr.specAddr]; split <;> omega

/-- `convert_address` against the history, with the 32-bit guard only at the looked-up address -/
theorem convert_run_pointwise (ops : List Op) (hok : ∀ op ∈ ops, OpOk op) (a : Nat)
    (hfit : ∀ m, resolveSpec ops a = some m → relSpec m a < u32Lim) :
    convertAddress (run ops).map a =
      match resolveSpec ops a with
      | none => Conv.none
      | some m => Conv.ok (relSpec m a) m.v := by
  have hl := lookup_run ops hok a
  cases hr : resolveSpec ops a with
  | none => rw [hr] at hl; simp [convertAddress, hl]
  | some m =>
    rw [hr] at hl
    exact convert_of_lookup _ a m hl (hfit m hr)

/-- profile level, pointwise guard: non-empty ranges everywhere, 32-bit guard only where this frame looks -/
theorem resolveFrame_pointwise (ops : List POp) (hne : ∀ op ∈ ops, POpNonEmpty op) (p : Nat) (fa : FrameAddr)
    (hfit : frameFits ops p fa) :
    resolveFrame (prun ops).kernel.map ((prun ops).procs p).map fa = frameSpec ops p fa := by
  have hk := kernelOps_nonempty ops hne
  have hp := procOps_nonempty p ops hne
  simp only [resolveFrame, processConvert, frameSpec, prun_kernel, prun_proc, lookupAddr_eq_specAddr]
  simp only [frameFits] at hfit
  generalize fa.specAddr = a at hfit ⊢
  cases hrk : resolveSpec (kernelOps ops) a with
  | some m =>
    rw [hrk] at hfit
    rw [convert_run_pointwise (kernelOps ops) hk a (by intro m' hm'; rw [hrk] at hm'; cases hm'; exact hfit), hrk]
  | none =>
    rw [hrk] at hfit
    rw [convert_run_pointwise (kernelOps ops) hk a (by intro m' hm'; rw [hrk] at hm'; cases hm'), hrk]
    cases hrp : resolveSpec (procOps p ops) a with
    | some m =>
      rw [hrp] at hfit
      rw [convert_run_pointwise (procOps p ops) hp a (by intro m' hm'; rw [hrp] at hm'; cases hm'; exact hfit), hrp]
    | none =>
      rw [convert_run_pointwise (procOps p ops) hp a (by intro m' hm'; rw [hrp] at hm'; cases hm'), hrp]

/-- the global guard implies the pointwise one -/
theorem frameFits_of_ok (ops : List POp) (hok : ∀ op ∈ ops, POpOk op) (p : Nat) (fa : FrameAddr) :
    frameFits ops p fa := by
  have hk := kernelOps_ok ops hok
  have hp := procOps_ok p ops hok
  have key : ∀ (l : List Op), (∀ o ∈ l, OpOk o ∧ Fits32 o) → ∀ a m, resolveSpec l a = some m → relSpec m a < u32Lim := by
    intro l hl a m hr
    obtain ⟨pre, post, hlive, hc, _⟩ := resolveSpec_some l a m hr
    have hf : m.rel + (m.e - m.s) ≤ u32Lim := (hl _ (liveAt_mem hlive)).2
    simp only [covers, Bool.and_eq_true, decide_eq_true_eq] at hc
    simp only [relSpec]; omega
  simp only [frameFits]
  cases hrk : resolveSpec (kernelOps ops) fa.specAddr with
  | some m => exact key _ hk _ m hrk
  | none =>
    cases hrp : resolveSpec (procOps p ops) fa.specAddr with
    | some m => exact key _ hp _ m hrp
    | none => trivial

theorem POpNonEmpty_of_ok (op : POp) (h : POpOk op) : POpNonEmpty op := by
  cases op <;> first | exact h.1 | trivial

end LM

namespace LM

theorem procCount_append (a b : List TOp) : procCount (a ++ b) = procCount a + procCount b := by
  simp [procCount, List.filter_append]

theorem owners_append (a b : List TOp) : owners (a ++ b) = owners a ++ owners b := by
  simp [owners, List.filterMap_append]

/-- with valid handles every thread's owner is a process handle that was handed out -/
theorem owner_lt_procCount (ops : List TOp) (hv : HandlesValid ops) (t p : Nat)
    (h : threadOwner ops t = some p) : p < procCount ops := by
  have hmem : p ∈ owners ops := List.mem_of_getElem? h
  simp only [owners, List.mem_filterMap] at hmem
  obtain ⟨o, ho, hop⟩ := hmem
  cases o with
  | newThread q =>
    simp only [Option.some.injEq] at hop
    subst hop
    obtain ⟨pre, post, hs⟩ := List.append_of_mem ho
    have := hv pre _ post hs
    simp only [handlesOk, decide_eq_true_eq] at this
    rw [hs, procCount_append]; omega
  | _ => simp at hop

/-- what both frame functions compute after a history with valid handles -/
theorem frameOut_trun (ops : List TOp) (hv : HandlesValid ops) (t p : Nat) (fa : FrameAddrX)
    (hown : threadOwner ops t = some p) :
    frameOut (trun ops) t fa =
      .res (resolveFrameX (prun (mappingOps ops)).kernel.map ((prun (mappingOps ops)).procs p).map fa) := by
  have inv := trun_inv ops hv
  have hp := owner_lt_procCount ops hv t p hown
  have hlen : p < (trun ops).procs.length := by rw [inv.nproc]; exact hp
  have hget : (trun ops).procs[p]? = some (trun ops).procs[p] := List.getElem?_eq_getElem hlen
  have htb := inv.procs p _ hget
  have hth : (trun ops).threads[t]? = some p := by rw [inv.threads]; exact hown
  simp only [frameOut, hth, hget, htb, inv.kernel]

end LM

namespace LM

/-- executable form of `HandlesValid` (for concrete witnesses) -/
def handlesValidB (ops : List TOp) : Bool :=
  (List.range ops.length).all (fun i =>
    match ops[i]? with
    | some o => handlesOk (ops.take i) o
    | none => true)

theorem HandlesValid_of_B (ops : List TOp) (hb : handlesValidB ops = true) : HandlesValid ops := by
  intro pre op post h
  have := List.all_eq_true.mp hb pre.length (by rw [List.mem_range, h]; simp)
  subst h
  simpa using this

end LM
