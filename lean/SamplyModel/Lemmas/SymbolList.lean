import SamplyModel.Lemmas.SymbolLookup
/-!
Lemmas about the object symbol list (C05): `build` is strictly sorted by address; what a successful
`lookupRel` returns.
-/
namespace SymList
open SymLookup

/-- strictly increasing addresses -/
def StrictSorted (es : List Entry) : Prop := es.Pairwise (fun a b => a.addr < b.addr)

theorem sortEntries_pairwise (es : List Entry) :
    (sortEntries es).Pairwise (fun a b => a.addr ≤ b.addr) := by
  have h := List.pairwise_mergeSort (le := fun (a b : Entry) => decide (a.addr ≤ b.addr))
    (fun a b c h1 h2 => by simp at *; omega) (fun a b => by simp; omega) es
  exact h.imp (fun h => by simpa using h)

theorem mem_dedupAux (prev : Entry) (l : List Entry) : ∀ x ∈ dedupAux prev l, x ∈ prev :: l := by
  induction l generalizing prev with
  | nil => intro x h; simpa [dedupAux] using h
  | cons e rest ih =>
    intro x h
    unfold dedupAux at h
    split at h
    · have := ih prev x h
      simp at this ⊢
      rcases this with h | h
      · exact Or.inl h
      · exact Or.inr (Or.inr h)
    · simp at h
      rcases h with h | h
      · simp [h]
      · have := ih e x h
        simp at this ⊢
        exact Or.inr this

theorem dedupAux_strict (prev : Entry) (l : List Entry)
    (h : (prev :: l).Pairwise (fun a b => a.addr ≤ b.addr)) : StrictSorted (dedupAux prev l) := by
  induction l generalizing prev with
  | nil => simp [dedupAux, StrictSorted]
  | cons e rest ih =>
    rw [List.pairwise_cons] at h
    obtain ⟨h1, h2⟩ := h
    unfold dedupAux
    split
    next heq =>
      apply ih
      rw [List.pairwise_cons] at h2 ⊢
      exact ⟨fun x hx => h1 x (List.mem_cons_of_mem _ hx), h2.2⟩
    next hne =>
      unfold StrictSorted
      rw [List.pairwise_cons]
      refine ⟨?_, ih e h2⟩
      intro x hx
      have hx' := mem_dedupAux e rest x hx
      have hpe := h1 e (by simp)
      rw [List.pairwise_cons] at h2
      simp at hx'
      rcases hx' with rfl | hx'
      · omega
      · have := h2.1 x hx'; omega

theorem dedup_strict (l : List Entry) (h : l.Pairwise (fun a b => a.addr ≤ b.addr)) :
    StrictSorted (dedup l) := by
  cases l with
  | nil => simp [dedup, StrictSorted]
  | cons e rest => exact dedupAux_strict e rest h

theorem build_strict (d : Desc) : StrictSorted (build d) :=
  dedup_strict _ (sortEntries_pairwise _)

theorem strict_keys_le {es : List Entry} (h : StrictSorted es) : (es.map (·.addr)).Pairwise (· ≤ ·) := by
  rw [List.pairwise_map]
  exact h.imp (fun h => Nat.le_of_lt h)

theorem strict_keys_lt {es : List Entry} (h : StrictSorted es) : (es.map (·.addr)).Pairwise (· < ·) := by
  rw [List.pairwise_map]
  exact h

/-- the facts about a successful `lookup_relative_address` on a strictly sorted list -/
theorem lookupRel_hit {es : List Entry} (hs : StrictSorted es) {a s e : Nat} {n : Name}
    (h : lookupRel es a = .hit (s, e, n)) :
    s ≤ a ∧ a < e ∧
    (∃ ent, ent ∈ es ∧ ent.addr = s ∧ ent.kind.name s = some n) ∧
    (∀ ent' ∈ es, ent'.addr ≤ a → ent'.addr ≤ s) := by
  unfold lookupRel at h
  split at h
  · simp at h
  next i hp =>
    have hspec := pickIndex_spec _ a (strict_keys_le hs) i hp
    obtain ⟨k, hk, hka, hgt⟩ := hspec
    split at h
    · simp at h
    next ent hent =>
      split at h
      · simp at h
      next nxt hnxt =>
        split at h
        · simp at h
        next nm hnm =>
          injection h with h
          simp only [Prod.mk.injEq] at h
          obtain ⟨rfl, rfl, rfl⟩ := h
          have hk' : k = ent.addr := by
            simp [List.getElem?_map, hent] at hk; exact hk.symm
          subst hk'
          have hnx : a < nxt.addr := hgt (i + 1) nxt.addr (by omega) (by simp [List.getElem?_map, hnxt])
          refine ⟨hka, hnx, ⟨ent, List.mem_of_getElem? hent, rfl, hnm⟩, ?_⟩
          intro ent' hmem hle
          obtain ⟨j, hj⟩ := List.getElem?_of_mem hmem
          rcases Nat.lt_or_ge i j with hij | hij
          · have := hgt j ent'.addr hij (by simp [List.getElem?_map, hj]); omega
          · rcases Nat.lt_or_ge j i with hji | hji
            · have hjl : j < es.length := by
                rcases Nat.lt_or_ge j es.length with h | h
                · exact h
                · simp [List.getElem?_eq_none h] at hj
              have hil : i < es.length := by
                rcases Nat.lt_or_ge i es.length with h | h
                · exact h
                · simp [List.getElem?_eq_none h] at hent
              have := (List.pairwise_iff_getElem.mp hs) j i hjl hil hji
              simp [hjl] at hj
              simp [hil] at hent
              subst hj; subst hent
              omega
            · have : j = i := by omega
              subst this
              rw [hent] at hj
              injection hj with e
              subst e
              omega

theorem lookupRel_no_panic (es : List Entry) (a : Nat) : lookupRel es a ≠ .panic := by
  unfold lookupRel
  split
  · simp
  next i hp =>
    have := pickIndex_lt_length _ a i hp
    simp at this
    split
    next hnone => simp at hnone; omega
    · split
      · simp
      · split <;> simp

/-- in a strictly sorted list an address occurs at most once -/
theorem strict_unique {es : List Entry} (hs : StrictSorted es) {x y : Entry} (hx : x ∈ es) (hy : y ∈ es)
    (h : x.addr = y.addr) : x = y := by
  obtain ⟨i, hi⟩ := List.getElem?_of_mem hx
  obtain ⟨j, hj⟩ := List.getElem?_of_mem hy
  have hil : i < es.length := by
    rcases Nat.lt_or_ge i es.length with h | h
    · exact h
    · simp [List.getElem?_eq_none h] at hi
  have hjl : j < es.length := by
    rcases Nat.lt_or_ge j es.length with h | h
    · exact h
    · simp [List.getElem?_eq_none h] at hj
  simp [hil] at hi
  simp [hjl] at hj
  rcases Nat.lt_trichotomy i j with hlt | heq | hgt
  · have := (List.pairwise_iff_getElem.mp hs) i j hil hjl hlt
    subst hi; subst hj; omega
  · subst heq; subst hi; subst hj; rfl
  · have := (List.pairwise_iff_getElem.mp hs) j i hjl hil hgt
    subst hi; subst hj; omega

theorem mem_iterSymbols {es : List Entry} {p : Nat × Name} :
    p ∈ iterSymbols es ↔ ∃ e ∈ es, e.addr = p.1 ∧ e.kind.name e.addr = some p.2 := by
  unfold iterSymbols
  simp only [List.mem_filterMap, Option.map_eq_some_iff]
  constructor
  · rintro ⟨e, he, n, hn, rfl⟩; exact ⟨e, he, rfl, hn⟩
  · rintro ⟨e, he, h1, h2⟩
    exact ⟨e, he, p.2, h2, by cases p; simp at h1 ⊢; exact h1⟩


/-! ### the stable sort followed by `dedup` keeps, for every address, the entry that was pushed first -/

theorem find?_dedupAux (p : Nat) (prev : Entry) (l : List Entry) :
    (dedupAux prev l).find? (fun e => e.addr == p) = (prev :: l).find? (fun e => e.addr == p) := by
  induction l generalizing prev with
  | nil => simp [dedupAux]
  | cons e rest ih =>
    unfold dedupAux
    split
    next heq =>
      rw [ih prev]
      by_cases hp : prev.addr = p
      · simp [hp]
      · have he : ¬ e.addr = p := by omega
        simp [hp, he]
    next hne =>
      rw [List.find?_cons, ih e]
      conv => rhs; rw [List.find?_cons]

theorem find?_dedup (p : Nat) (l : List Entry) :
    (dedup l).find? (fun e => e.addr == p) = l.find? (fun e => e.addr == p) := by
  cases l with
  | nil => simp [dedup]
  | cons e rest => exact find?_dedupAux p e rest

theorem filter_sortEntries (p : Nat) (l : List Entry) :
    (sortEntries l).filter (fun e => e.addr == p) = l.filter (fun e => e.addr == p) := by
  have hsub : (l.filter (fun e => e.addr == p)).Sublist (sortEntries l) := by
    apply List.sublist_mergeSort (le := fun (a b : Entry) => decide (a.addr ≤ b.addr))
      (fun a b c h1 h2 => by simp at *; omega) (fun a b => by simp; omega)
    · apply List.pairwise_of_forall_mem_list
      intro a ha b hb
      simp [List.mem_filter] at ha hb
      simp; omega
    · exact List.filter_sublist
  have h1 := hsub.filter (fun e => e.addr == p)
  rw [List.filter_filter] at h1
  simp only [Bool.and_self] at h1
  have hperm := (List.mergeSort_perm l (fun a b => decide (a.addr ≤ b.addr))).filter (fun e => e.addr == p)
  exact (h1.eq_of_length hperm.length_eq.symm).symm

/-- for every address: the entry `SymbolList::new` keeps is the first one pushed with that address -/
theorem build_keeps_first (d : Desc) (p : Nat) :
    (build d).find? (fun e => e.addr == p) = (parts d).find? (fun e => e.addr == p) := by
  unfold build
  rw [find?_dedup, ← List.head?_filter, ← List.head?_filter, filter_sortEntries]

theorem fileOffsetToSvma_no_panic (ranges : List Range) (h : ∀ r ∈ ranges, r.fileOffset + r.size < U64)
    (o : Nat) : fileOffsetToSvma ranges o ≠ .panic := by
  induction ranges with
  | nil => simp [fileOffsetToSvma]
  | cons r rs ih =>
    have hr := h r (by simp)
    have ih' := ih (fun x hx => h x (List.mem_cons_of_mem _ hx))
    unfold fileOffsetToSvma
    split
    · rw [if_neg (by omega)]
      split
      · split <;> simp
      · exact ih'
    · exact ih'


/-! ### completeness: no spurious miss -/

/-- a named entry that is followed by another entry answers every address from its own start up to (not
including) the next entry's address -/
theorem lookupRel_complete {es : List Entry} (hs : StrictSorted es) {i : Nat} {e nxt : Entry} {n : Name}
    (he : es[i]? = some e) (hn : es[i + 1]? = some nxt) (hname : e.kind.name e.addr = some n)
    {a : Nat} (h1 : e.addr ≤ a) (h2 : a < nxt.addr) :
    lookupRel es a = .hit (e.addr, nxt.addr, n) := by
  have hp : pickIndex (es.map (·.addr)) a = some i := by
    apply pickIndex_of_spec _ _ i e.addr (strict_keys_le hs) (by simp [List.getElem?_map, he]) h1
    intro k' hk'
    simp [List.getElem?_map, hn] at hk'
    omega
  unfold lookupRel
  rw [hp]
  simp only
  rw [he]
  simp only
  rw [hn]
  simp only
  rw [hname]

theorem getElem?_lt' {α : Type} {l : List α} {i : Nat} {x : α} (h : l[i]? = some x) : i < l.length := by
  rcases Nat.lt_or_ge i l.length with h' | h'
  · exact h'
  · simp [List.getElem?_eq_none h'] at h

/-- an entry that is not the one with the greatest address has a successor -/
theorem strict_has_next {es : List Entry} (hs : StrictSorted es) {i : Nat} {e x : Entry}
    (he : es[i]? = some e) (hx : x ∈ es) (hlt : e.addr < x.addr) :
    ∃ nxt, es[i + 1]? = some nxt ∧ e.addr < nxt.addr ∧ nxt.addr ≤ x.addr := by
  obtain ⟨j, hj⟩ := List.getElem?_of_mem hx
  have hil := getElem?_lt' he
  have hjl := getElem?_lt' hj
  have hpw := List.pairwise_iff_getElem.mp hs
  simp [hil] at he
  simp [hjl] at hj
  have hij : i < j := by
    rcases Nat.lt_trichotomy i j with h | h | h
    · exact h
    · subst h; subst he; subst hj; omega
    · have := hpw j i hjl hil h; subst he; subst hj; omega
  have h1l : i + 1 < es.length := by omega
  refine ⟨es[i + 1], by simp [h1l], ?_, ?_⟩
  · have := hpw i (i + 1) hil h1l (by omega); subst he; exact this
  · rcases Nat.lt_or_ge (i + 1) j with h | h
    · have := hpw (i + 1) j h1l hjl h; subst hj; omega
    · have : j = i + 1 := by omega
      subst this; subst hj; omega

/-- a lookup at the start of an enumerated symbol that is not the last entry of the list answers with
exactly that symbol -/
theorem lookupRel_at_enumerated {es : List Entry} (hs : StrictSorted es) {s : Nat} {n : Name}
    (hmem : (s, n) ∈ iterSymbols es) (hnl : ∃ x ∈ es, s < x.addr) :
    ∃ e, lookupRel es s = .hit (s, e, n) ∧ s < e := by
  obtain ⟨ent, hent, haddr, hname⟩ := mem_iterSymbols.mp hmem
  obtain ⟨x, hx, hsx⟩ := hnl
  obtain ⟨i, hi⟩ := List.getElem?_of_mem hent
  dsimp only at haddr hname
  obtain ⟨nxt, hn, hlt, _⟩ := strict_has_next hs hi hx (by omega)
  refine ⟨nxt.addr, ?_, by omega⟩
  have := lookupRel_complete hs hi hn hname (a := s) (by omega) (by omega)
  rw [haddr] at this
  exact this

end SymList
