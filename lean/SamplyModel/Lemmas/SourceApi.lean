import SamplyModel.Model.SourceApi
/-!
Helper definitions and lemmas for C09 (`/source/v1` confinement).
-/
namespace SourceApi

/-- `fp` is the first file path, in frame order (innermost frame first), whose API spelling is `requested`. -/
def FirstMatch (apiPath : SourceFilePath → String) (fs : List Frame) (requested : String)
    (fp : SourceFilePath) : Prop :=
  ∃ before after, filePaths fs = before ++ fp :: after ∧ apiPath fp = requested ∧
    ∀ q ∈ before, apiPath q ≠ requested

theorem findPermitted_eq_some_iff (apiPath : SourceFilePath → String) (fs : List Frame)
    (requested : String) (fp : SourceFilePath) :
    findPermitted apiPath fs requested = some fp ↔ FirstMatch apiPath fs requested fp := by
  unfold findPermitted FirstMatch
  rw [List.find?_eq_some_iff_append]
  constructor
  · rintro ⟨hp, as, bs, hl, hn⟩
    refine ⟨as, bs, hl, by simpa using hp, ?_⟩
    intro q hq
    have := hn q hq
    simpa using this
  · rintro ⟨as, bs, hl, hp, hn⟩
    refine ⟨by simpa using hp, as, bs, hl, ?_⟩
    intro q hq
    have := hn q hq
    simpa using this

theorem findPermitted_eq_none_iff (apiPath : SourceFilePath → String) (fs : List Frame)
    (requested : String) :
    findPermitted apiPath fs requested = none ↔ ∀ fp ∈ filePaths fs, apiPath fp ≠ requested := by
  unfold findPermitted
  rw [List.find?_eq_none]
  constructor
  · intro h fp hfp; simpa using h fp hfp
  · intro h fp hfp; simpa using h fp hfp

theorem firstMatch_unique {apiPath : SourceFilePath → String} {fs : List Frame} {requested : String}
    {a b : SourceFilePath} (ha : FirstMatch apiPath fs requested a) (hb : FirstMatch apiPath fs requested b) :
    a = b := by
  have h1 := (findPermitted_eq_some_iff apiPath fs requested a).2 ha
  have h2 := (findPermitted_eq_some_iff apiPath fs requested b).2 hb
  rw [h1] at h2
  exact Option.some.inj h2

theorem firstMatch_mem {apiPath : SourceFilePath → String} {fs : List Frame} {requested : String}
    {fp : SourceFilePath} (h : FirstMatch apiPath fs requested fp) :
    fp ∈ filePaths fs ∧ apiPath fp = requested := by
  obtain ⟨as, bs, hl, hp, _⟩ := h
  exact ⟨by rw [hl]; simp, hp⟩

theorem exists_firstMatch_iff (apiPath : SourceFilePath → String) (fs : List Frame) (requested : String) :
    (∃ fp, FirstMatch apiPath fs requested fp) ↔ ∃ fp ∈ filePaths fs, apiPath fp = requested := by
  constructor
  · rintro ⟨fp, h⟩
    exact ⟨fp, firstMatch_mem h⟩
  · rintro ⟨fp, hm, hp⟩
    cases hf : findPermitted apiPath fs requested with
    | none => exact absurd hp ((findPermitted_eq_none_iff apiPath fs requested).1 hf fp hm)
    | some q => exact ⟨q, (findPermitted_eq_some_iff apiPath fs requested q).1 hf⟩

/-- `find?` depends on the predicate only through its values on the list's members. -/
theorem find?_congr_mem {α : Type} (p q : α → Bool) (l : List α) (h : ∀ a ∈ l, p a = q a) :
    l.find? p = l.find? q := by
  induction l with
  | nil => rfl
  | cons a l ih =>
    have ha : p a = q a := h a (by simp)
    have ih' := ih (fun b hb => h b (by simp [hb]))
    simp only [List.find?_cons, ha, ih']

theorem loadSourceFile_loads {Loc : Type} (env : Env Loc) (fp : SourceFilePath) :
    (loadSourceFile env fp).loads = (env.locationFor fp.rawPath).toList := by
  unfold loadSourceFile
  split
  · simp [*]
  · split <;> simp [*]

theorem loadSourceFile_accepted {Loc : Type} (env : Env Loc) (fp : SourceFilePath) :
    (loadSourceFile env fp).outcome.accepted = true := by
  unfold loadSourceFile
  split
  · rfl
  · split <;> rfl

theorem loadSourceFile_refused_iff {Loc : Type} (env : Env Loc) (fp : SourceFilePath) :
    (loadSourceFile env fp).loads = [] ↔ (loadSourceFile env fp).outcome = .err .refusedLocation := by
  unfold loadSourceFile
  split
  · simp
  · split <;> simp

/-- The request flow, case by case. -/
theorem sourceApi_cases {Loc : Type} (apiPath : SourceFilePath → String) (env : Env Loc) (req : Request) :
    ((sourceApi apiPath env req).loads = [] ∧ (sourceApi apiPath env req).outcome.accepted = false ∧
      (req.parsed = false ∨ req.debugIdOk = false ∨ env.lookup = .noSymbols ∨ env.lookup = .notFound ∨
        env.lookup = .noFrames ∨
        ∃ fs, env.lookup = .frames fs ∧ findPermitted apiPath fs req.file = none ∧
          (sourceApi apiPath env req).outcome = .err .invalidPath)) ∨
    (req.parsed = true ∧ req.debugIdOk = true ∧
      ∃ fs fp, env.lookup = .frames fs ∧ findPermitted apiPath fs req.file = some fp ∧
        sourceApi apiPath env req = loadSourceFile env fp) := by
  unfold sourceApi
  cases hp : req.parsed with
  | false => left; simp [Outcome.accepted]
  | true =>
    cases hd : req.debugIdOk with
    | false => left; simp [Outcome.accepted]
    | true =>
      cases hl : env.lookup with
      | noSymbols => left; simp [Outcome.accepted]
      | notFound => left; simp [Outcome.accepted]
      | noFrames => left; simp [Outcome.accepted]
      | frames fs =>
        cases hf : findPermitted apiPath fs req.file with
        | none => left; simp [Outcome.accepted, hf]
        | some fp => right; simp [hf]

/-! ### Candidate loop of `load_symbol_map` -/

theorem candMatch_eq_some_iff {DL : Type} (id : String) (c : CandResult DL) (l : Loaded DL) :
    candMatch id c = some l ↔ c = .ok l ∧ l.id = id := by
  cases c with
  | err => simp [candMatch]
  | ok l' =>
    unfold candMatch
    by_cases h : l'.id = id
    · simp only [h, BEq.rfl, if_true, Option.some.injEq, CandResult.ok.injEq]
      constructor
      · intro e; subst e; exact ⟨rfl, h⟩
      · intro e; exact e.1
    · have hb : (l'.id == id) = false := by simpa using h
      simp only [hb, Bool.false_eq_true, if_false, CandResult.ok.injEq]
      constructor
      · intro e; cases e
      · rintro ⟨e, hid⟩; subst e; exact absurd hid h

/-- A candidate does not match iff it failed to load or carries another debug id. -/
theorem candMatch_eq_none_iff {DL : Type} (id : String) (c : CandResult DL) :
    candMatch id c = none ↔ c = .err ∨ ∃ l, c = .ok l ∧ l.id ≠ id := by
  cases c with
  | err => simp [candMatch]
  | ok l' =>
    unfold candMatch
    by_cases h : l'.id = id
    · simp [h]
    · have hb : (l'.id == id) = false := by simpa using h
      simp [hb, h]

/-- `envOf` when the symbol map is found. -/
theorem envOf_some {DL Loc : Type} (m : Manager DL Loc) (id : String) (l : Loaded DL) (o : Nat)
    (h : loadSymbolMap m id = some l) :
    envOf m (some id) o = ⟨l.lookup o, m.locationFor l.dfl, m.fileLen⟩ := by
  unfold envOf; simp [h]

theorem envOf_none {DL Loc : Type} (m : Manager DL Loc) (id : String) (o : Nat)
    (h : loadSymbolMap m id = none) :
    envOf m (some id) o = ⟨.noSymbols, fun _ => none, m.fileLen⟩ := by
  unfold envOf; simp [h]

/-! ### The external-file loop -/

/-- more fuel does not change a finished resolution -/
theorem resolveExternal_mono {X C : Type} (im : InnerMap X C) (n : Nat) (r : Option (FLR X))
    (v : Option (List Frame)) (h : resolveExternal im n r = some v) :
    resolveExternal im (n + 1) r = some v := by
  induction n generalizing r with
  | zero =>
    cases r with
    | none => simpa [resolveExternal] using h
    | some f =>
      cases f with
      | available fs => simpa [resolveExternal] using h
      | external x => simp [resolveExternal] at h
  | succ n ih =>
    cases r with
    | none => simpa [resolveExternal] using h
    | some f =>
      cases f with
      | available fs => simpa [resolveExternal] using h
      | external x =>
        simp only [resolveExternal] at h ⊢
        exact ih _ h

/-! ### The offset string -/

theorem hexDigitsU32_some {ds : List Char} {n : Nat} (h : hexDigitsU32 ds = some n) :
    n < 4294967296 ∧ ds ≠ [] := by
  cases ds with
  | nil => simp [hexDigitsU32] at h
  | cons c cs =>
    simp only [hexDigitsU32] at h
    cases hm : List.mapM hexDigitVal (c :: cs) with
    | none => rw [hm] at h; simp at h
    | some vs =>
      rw [hm] at h
      simp only at h
      by_cases hlt : List.foldl (fun a d => a * 16 + d) 0 vs < 4294967296
      · rw [if_pos hlt] at h
        cases h
        exact ⟨hlt, by simp⟩
      · rw [if_neg hlt] at h
        cases h

theorem fromStrRadix16U32_some {s : List Char} {n : Nat} (h : fromStrRadix16U32 s = some n) :
    n < 4294967296 ∧ s ≠ [] := by
  unfold fromStrRadix16U32 at h
  split at h
  · exact ⟨(hexDigitsU32_some h).1, by simp⟩
  · exact hexDigitsU32_some h

theorem parseModuleOffset_some {cs : List Char} {n : Nat} (h : parseModuleOffset cs = some n) :
    n < 4294967296 ∧ ∃ rest, cs = '0' :: 'x' :: rest ∧ rest ≠ [] := by
  unfold parseModuleOffset at h
  split at h
  · rename_i rest
    exact ⟨(fromStrRadix16U32_some h).1, rest, rfl, (fromStrRadix16U32_some h).2⟩
  · cases h

end SourceApi
