import SamplyModel.Model.SourceApi
/-!
Helper definitions and lemmas for C09 (`/source/v1` confinement).
-/
namespace SourceApi

/-- `fp` is the first file path, in frame order (innermost frame first), whose API spelling is `requested`. -/
def FirstMatch (apiPath : SourceFilePath → String) (fs : List Frame) (requested : String)
    (fp : SourceFilePath) : Prop :=
  ∃ before after, filePaths fs = before ++ fp :: after ∧ apiPath fp = requested ∧
    ∀ q ∈ before, apiPath q ≠ requested

theorem findPermitted_eq_some_iff (apiPath : SourceFilePath → String) (fs : List Frame)
    (requested : String) (fp : SourceFilePath) :
    findPermitted apiPath fs requested = some fp ↔ FirstMatch apiPath fs requested fp := by
  unfold findPermitted FirstMatch
  rw [List.find?_eq_some_iff_append]
  constructor
  · rintro ⟨hp, as, bs, hl, hn⟩
    refine ⟨as, bs, hl, by simpa using hp, ?_⟩
    intro q hq
    have := hn q hq
    simpa using this
  · rintro ⟨as, bs, hl, hp, hn⟩
    refine ⟨by simpa using hp, as, bs, hl, ?_⟩
    intro q hq
    have := hn q hq
    simpa using this

theorem findPermitted_eq_none_iff (apiPath : SourceFilePath → String) (fs : List Frame)
    (requested : String) :
    findPermitted apiPath fs requested = none ↔ ∀ fp ∈ filePaths fs, apiPath fp ≠ requested := by
  unfold findPermitted
  rw [List.find?_eq_none]
  constructor
  · intro h fp hfp; simpa using h fp hfp
  · intro h fp hfp; simpa using h fp hfp

theorem firstMatch_unique {apiPath : SourceFilePath → String} {fs : List Frame} {requested : String}
    {a b : SourceFilePath} (ha : FirstMatch apiPath fs requested a) (hb : FirstMatch apiPath fs requested b) :
    a = b := by
  have h1 := (findPermitted_eq_some_iff apiPath fs requested a).2 ha
  have h2 := (findPermitted_eq_some_iff apiPath fs requested b).2 hb
  rw [h1] at h2
  exact Option.some.inj h2

theorem firstMatch_mem {apiPath : SourceFilePath → String} {fs : List Frame} {requested : String}
    {fp : SourceFilePath} (h : FirstMatch apiPath fs requested fp) :
    fp ∈ filePaths fs ∧ apiPath fp = requested := by
  obtain ⟨as, bs, hl, hp, _⟩ := h
  exact ⟨by rw [hl]; simp, hp⟩

theorem exists_firstMatch_iff (apiPath : SourceFilePath → String) (fs : List Frame) (requested : String) :
    (∃ fp, FirstMatch apiPath fs requested fp) ↔ ∃ fp ∈ filePaths fs, apiPath fp = requested := by
  constructor
  · rintro ⟨fp, h⟩
    exact ⟨fp, firstMatch_mem h⟩
  · rintro ⟨fp, hm, hp⟩
    cases hf : findPermitted apiPath fs requested with
    | none => exact absurd hp ((findPermitted_eq_none_iff apiPath fs requested).1 hf fp hm)
    | some q => exact ⟨q, (findPermitted_eq_some_iff apiPath fs requested q).1 hf⟩

/-- `find?` depends on the predicate only through its values on the list's members. -/
theorem find?_congr_mem {α : Type} (p q : α → Bool) (l : List α) (h : ∀ a ∈ l, p a = q a) :
    l.find? p = l.find? q := by
  induction l with
  | nil => rfl
  | cons a l ih =>
    have ha : p a = q a := h a (by simp)
    have ih' := ih (fun b hb => h b (by simp [hb]))
    simp only [List.find?_cons, ha, ih']

theorem loadSourceFile_loads {Loc : Type} (env : Env Loc) (fp : SourceFilePath) :
    (loadSourceFile env fp).loads = (env.locationFor fp.rawPath).toList := by
  unfold loadSourceFile
  split
  · simp [*]
  · split <;> simp [*]

theorem loadSourceFile_accepted {Loc : Type} (env : Env Loc) (fp : SourceFilePath) :
    (loadSourceFile env fp).outcome.accepted = true := by
  unfold loadSourceFile
  split
  · rfl
  · split <;> rfl

theorem loadSourceFile_refused_iff {Loc : Type} (env : Env Loc) (fp : SourceFilePath) :
    (loadSourceFile env fp).loads = [] ↔ (loadSourceFile env fp).outcome = .err .refusedLocation := by
  unfold loadSourceFile
  split
  · simp
  · split <;> simp

/-- The request flow, case by case. -/
theorem sourceApi_cases {Loc : Type} (apiPath : SourceFilePath → String) (env : Env Loc) (req : Request) :
    ((sourceApi apiPath env req).loads = [] ∧ (sourceApi apiPath env req).outcome.accepted = false ∧
      (req.parsed = false ∨ req.debugIdOk = false ∨ env.lookup = .noSymbols ∨ env.lookup = .notFound ∨
        env.lookup = .noFrames ∨
        ∃ fs, env.lookup = .frames fs ∧ findPermitted apiPath fs req.file = none ∧
          (sourceApi apiPath env req).outcome = .err .invalidPath)) ∨
    (req.parsed = true ∧ req.debugIdOk = true ∧
      ∃ fs fp, env.lookup = .frames fs ∧ findPermitted apiPath fs req.file = some fp ∧
        sourceApi apiPath env req = loadSourceFile env fp) := by
  unfold sourceApi
  cases hp : req.parsed with
  | false => left; simp [Outcome.accepted]
  | true =>
    cases hd : req.debugIdOk with
    | false => left; simp [Outcome.accepted]
    | true =>
      cases hl : env.lookup with
      | noSymbols => left; simp [Outcome.accepted]
      | notFound => left; simp [Outcome.accepted]
      | noFrames => left; simp [Outcome.accepted]
      | frames fs =>
        cases hf : findPermitted apiPath fs req.file with
        | none => left; simp [Outcome.accepted, hf]
        | some fp => right; simp [hf]

end SourceApi
