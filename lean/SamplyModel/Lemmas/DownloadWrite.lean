import SamplyModel.Model.DownloadWrite
/-! Lemmas about the download write callback (`Model/DownloadWrite.lean`). -/
namespace DL

theorem callback_ok {env : Env} : ∀ (stream : List (Option (List UInt8))) (st : St) (n : Nat) (st' : St),
    callback env true st stream = (.ok n, st') →
      st.inflight ≠ some false ∧ allRead stream = true ∧
      (∀ k, st.started ≤ k → k < st.started + stream.length → env.disk k = true) ∧
      st'.file = st.file ++ payload stream ∧ n = st.size + (payload stream).length := by
  intro stream
  induction stream with
  | nil =>
    intro st n st' h
    simp only [callback] at h
    split at h
    · simp at h
    · rename_i hc
      simp only [Prod.mk.injEq, Res.ok.injEq] at h
      obtain ⟨h1, h2⟩ := h
      subst h2
      refine ⟨?_, by simp [allRead], ?_, by simp [payload], by simp [payload, h1]⟩
      · intro hf; simp [hf] at hc
      · intro k h1 h2; simp at h2; omega
  | cons x rest ih =>
    intro st n st' h
    cases x with
    | none => simp [callback] at h
    | some piece =>
      simp only [callback] at h
      split at h
      · simp at h
      · rename_i hc
        have hinf : st.inflight ≠ some false := by intro hf; simp [hf] at hc
        have := ih _ n st' h
        obtain ⟨h1, h2, h3, h4, h5⟩ := this
        -- the write just started must have succeeded, otherwise the state carries `some false`
        have hd : env.disk st.started = true := by
          cases hdk : env.disk st.started with
          | true => rfl
          | false => simp [startWrite, hdk] at h1
        refine ⟨hinf, by simpa [allRead] using h2, ?_, ?_, ?_⟩
        · intro k hk1 hk2
          by_cases hk : k = st.started
          · subst hk; exact hd
          · apply h3 k
            · simp [startWrite, hd]; omega
            · simp [startWrite, hd] at hk2 ⊢; omega
        · simp [startWrite, hd] at h4; simp [payload, h4]
        · simp [startWrite, hd] at h5; simp [payload, h5]; omega

theorem callback_all_good {env : Env} (withFlush : Bool) :
    ∀ (stream : List (Option (List UInt8))) (st : St),
    st.inflight ≠ some false → allRead stream = true →
    (∀ k, st.started ≤ k → k < st.started + stream.length → env.disk k = true) →
      (callback env withFlush st stream).1 = .ok (st.size + (payload stream).length) ∧
      (callback env withFlush st stream).2.file = st.file ++ payload stream := by
  intro stream
  induction stream with
  | nil =>
    intro st h1 _ _
    have : (st.inflight == some false) = false := by
      cases h : st.inflight with
      | none => rfl
      | some b => cases b <;> simp_all
    simp [callback, this, payload]
  | cons x rest ih =>
    intro st h1 h2 h3
    cases x with
    | none => simp [allRead] at h2
    | some piece =>
      have hinf : (st.inflight == some false) = false := by
        cases h : st.inflight with
        | none => rfl
        | some b => cases b <;> simp_all
      have hd : env.disk st.started = true := h3 _ (Nat.le_refl _) (by simp)
      simp only [callback, hinf]
      have := ih { startWrite env st piece with size := st.size + piece.length }
        (by simp [startWrite, hd]) (by simpa [allRead] using h2)
        (by intro k hk1 hk2; simp [startWrite, hd] at hk1 hk2; apply h3 k
            · omega
            · simp only [List.length_cons]; omega)
      simp [startWrite, hd] at this ⊢
      simp [payload, this]; omega

end DL
