import SamplyModel.Lemmas.ProfileMain
/-!
The identity clauses of C03 as a statement about the *serialized profile*: `identOk p.view s` for the
result `s` of `serialize p`, for every state satisfying the invariant (improvement round: the reviewer's
item 2 — theorem conclusion = judged predicate).
-/
namespace PT

theorem idxOf_map_inj {α β : Type} [DecidableEq α] [DecidableEq β] (f : α → β) (a : α) :
    ∀ (l : List α), a ∈ l → (∀ x ∈ l, f x = f a → x = a) → (l.map f).idxOf (f a) = l.idxOf a
  | [], h, _ => (nomatch h)
  | x :: xs, h, hinj => by
    simp only [List.map_cons, List.idxOf_cons]
    by_cases hx : x = a
    · subst hx; simp
    · have hfx : f x ≠ f a := fun he => hx (hinj x List.mem_cons_self he)
      have hmem : a ∈ xs := by
        rcases List.mem_cons.mp h with h | h
        · exact absurd h.symm hx
        · exact h
      have h1 : (x == a) = false := by simpa using hx
      have h2 : (f x == f a) = false := by simpa using hfx
      rw [h1, h2]
      simp only [cond_false]
      rw [idxOf_map_inj f a xs hmem (fun y hy => hinj y (List.mem_cons_of_mem _ hy))]

theorem mapM'_eq_map {α β : Type} (f : α → Option β) (g : α → β) : ∀ (l : List α) (bs : List β),
    (∀ a ∈ l, ∀ b, f a = some b → b = g a) → mapM' f l = some bs → bs = l.map g
  | [], bs, _, h => by simp only [mapM', Option.some.injEq] at h; subst h; rfl
  | a :: as, r, hq, h => by
    obtain ⟨b, bs, hb, hbs, rfl⟩ := mapM'_cons_inv f a as r h
    simp only [List.map_cons, List.cons.injEq]
    exact ⟨hq a List.mem_cons_self b hb,
      mapM'_eq_map f g as bs (fun a' ha' => hq a' (List.mem_cons_of_mem _ ha')) hbs⟩

/-- the counters of the serialized profile -/
theorem serialize_counters (p : P) (s : SerProfile) (hs : serialize p = some s) :
    s.counters = p.counters.map (fun c => (⟨idString c.pid, firstThreadIndex p c.process, c.samples⟩ : SerCounter)) := by
  unfold serialize at hs
  simp only at hs
  split at hs
  · rename_i libs threads counters _ _ hc
    split at hs
    · cases hs
      refine mapM'_eq_map _ _ _ _ ?_ hc
      intro c _ b hb
      split at hb
      · cases hb; rfl
      · cases hb
    · cases hs
  · cases hs

theorem newThreadIndex_eq (p : P) (hs : SInv p) (h : Nat) (hlt : h < p.threads.length) :
    newThreadIndex p h = (sortedThreads p).idxOf h := by
  unfold newThreadIndex
  simp only
  rw [if_pos (List.idxOf_lt_length_of_mem ((mem_sortedThreads p hs h).mpr hlt))]

/-- a valid thread handle is found, by its tid string, at its new index -/
theorem posOf_tid (p : P) (hs : SInv p) (h : Nat) (hlt : h < p.threads.length) :
    posOf ((sortedThreads p).map (tidOf p)) (tidOf p h) = some (newThreadIndex p h) := by
  have hm := (mem_sortedThreads p hs h).mpr hlt
  have hidx : ((sortedThreads p).map (tidOf p)).idxOf (tidOf p h) = (sortedThreads p).idxOf h :=
    idxOf_map_inj (tidOf p) h _ hm (fun x hx he =>
      tidOf_inj p hs x h ((mem_sortedThreads p hs x).mp hx) hlt he)
  unfold posOf
  rw [hidx, List.length_map, if_pos (List.idxOf_lt_length_of_mem hm), newThreadIndex_eq p hs h hlt]

theorem length_flatMap_replicate (p : P) (L : List Nat) :
    (L.flatMap (fun pi => List.replicate (procBlock p pi).length (procPid p pi))).length =
      (L.flatMap (procBlock p)).length := by
  induction L with
  | nil => rfl
  | cons a L ih => simp only [List.flatMap_cons, List.length_append, List.length_replicate, ih]

/-- `first_thread_index_per_process[pi]` is the position of the first thread carrying the pid string of
process `pi`, provided the process has a thread -/
theorem firstThreadIndex_idxOf (p : P) (hs : SInv p) (pi : Nat) (hpi : pi < p.processes.length)
    (hne : procBlock p pi ≠ []) :
    firstThreadIndex p pi = ((sortedThreads p).map (pidOf p)).idxOf (procPid p pi) ∧
    firstThreadIndex p pi < (sortedThreads p).length := by
  obtain ⟨pre, post, e, hf⟩ := firstIndexAux_spec p pi (sortedProcs p) 0 ((mem_sortedProcs p pi).mpr hpi)
  have hf' : firstThreadIndex p pi = (pre.flatMap (procBlock p)).length := by
    unfold firstThreadIndex; rw [hf]; omega
  have hnd := nodup_procPids p hs
  rw [e, List.map_append, List.map_cons] at hnd
  have hnotin : procPid p pi ∉ pre.map (procPid p) := by
    intro hmem
    have := (List.nodup_append.mp hnd).2.2 _ hmem _ List.mem_cons_self
    exact this rfl
  have hnot : procPid p pi ∉ pre.flatMap (fun q => List.replicate (procBlock p q).length (procPid p q)) := by
    intro hmem
    simp only [List.mem_flatMap, List.mem_replicate] at hmem
    obtain ⟨q, hq, _, he⟩ := hmem
    exact hnotin (List.mem_map.mpr ⟨q, hq, he.symm⟩)
  obtain ⟨n, hn⟩ : ∃ n, (procBlock p pi).length = n + 1 := by
    cases hb : procBlock p pi with
    | nil => exact absurd hb hne
    | cons a l => exact ⟨l.length, rfl⟩
  constructor
  · rw [sorted_pids p hs, e, List.flatMap_append, List.flatMap_cons, List.idxOf_append, if_neg hnot, hn,
      List.replicate_succ, List.cons_append, List.idxOf_cons_self, hf', length_flatMap_replicate]
    omega
  · rw [hf']
    unfold sortedThreads
    rw [e, List.flatMap_append, List.flatMap_cons, List.length_append, List.length_append, hn]
    omega

theorem getElem?_of_map_eq {α β γ : Type} (f : α → γ) (g : β → γ) (l : List α) (m : List β)
    (h : l.map f = m.map g) (k : Nat) (a : α) (b : β) (ha : l[k]? = some a) (hb : m[k]? = some b) :
    f a = g b := by
  have := congrArg (fun x => x[k]?) h
  simp only [List.getElem?_map, ha, hb, Option.map_some, Option.some.injEq] at this
  exact this

/-- **identity clauses on the serialized profile** -/
theorem identOk_of_inv (p : P) (hT : TInv p) (hS : SInv p) (s : SerProfile) (hser : serialize p = some s) :
    identOk p.view s = true := by
  obtain ⟨s', hser', _, htid, hpid, hpm, hlen, hvis, hsel⟩ := serialize_spec p hT hS
  rw [hser] at hser'
  cases hser'
  have hcnt := serialize_counters p s hser
  have hslen : (sortedThreads p).length = p.threads.length := by
    have := congrArg List.length htid
    simp only [List.length_map] at this
    omega
  -- a valid handle: its serialized thread
  have hthread : ∀ h (hlt : h < p.threads.length), ∃ st, s.threads[newThreadIndex p h]? = some st ∧
      posOf (s.threads.map (·.tid)) (tidOf p h) = some (newThreadIndex p h) ∧
      st.pid = pidOf p h ∧ st.isMain = mainOf p h := by
    intro h hlt
    have hnl := newThreadIndex_lt p h hlt hslen
    have hden := newThreadIndex_denotes p hS h hlt
    refine ⟨s.threads[newThreadIndex p h]'(by rw [hlen]; exact hnl),
      List.getElem?_eq_getElem (by rw [hlen]; exact hnl), by rw [htid]; exact posOf_tid p hS h hlt, ?_, ?_⟩
    · exact getElem?_of_map_eq (fun t : SerThread => t.pid) (pidOf p) _ _ hpid _ _ _
        (List.getElem?_eq_getElem (by rw [hlen]; exact hnl)) hden
    · have := getElem?_of_map_eq (fun t : SerThread => (t.pid, t.isMain)) (fun h => (pidOf p h, mainOf p h)) _ _ hpm _ _ _
        (List.getElem?_eq_getElem (by rw [hlen]; exact hnl)) hden
      exact (Prod.mk.inj this).2
  have hposT : ∀ t, t < p.threads.length →
      ((p.view.threads[t]?).bind (fun th => posOf (s.threads.map (·.tid)) th.2.1)) = some (newThreadIndex p t) := by
    intro t hlt
    obtain ⟨st, _, hpos, _⟩ := hthread t hlt
    simp only [P.view, List.getElem?_map, List.getElem?_eq_getElem hlt, Option.map_some, Option.bind_some]
    simpa [tidOf, List.getElem?_eq_getElem hlt] using hpos
  unfold identOk
  simp only [Bool.and_eq_true, decide_eq_true_eq]
  refine ⟨⟨⟨⟨⟨⟨?_, ?_⟩, ?_⟩, ?_⟩, ?_⟩, ?_⟩, ?_⟩
  · simp [P.view, hlen]
  · -- pid strings distinct
    refine distinct_of_nodup _ ?_
    simp only [P.view]
    rw [List.Nodup, List.pairwise_iff_getElem]
    intro i j hi hj hij he
    simp only [List.length_map] at hi hj
    simp only [List.getElem_map] at he
    have := procPid_inj p hS i j hi hj (by
      simp only [procPid, List.getElem?_eq_getElem hi, List.getElem?_eq_getElem hj]; exact he)
    omega
  · -- threads
    rw [List.all_eq_true]
    intro th hth
    simp only [P.view, List.mem_map] at hth
    obtain ⟨t, ht, rfl⟩ := hth
    obtain ⟨h, hlt, hget⟩ := List.getElem_of_mem ht
    obtain ⟨st, hst, hpos, hp1, hp2⟩ := hthread h hlt
    have htid' : tidOf p h = idString t.tid := by simp [tidOf, List.getElem?_eq_getElem hlt, hget]
    rw [htid'] at hpos
    simp only [hpos, Option.bind_some, hst]
    have hproc : t.process < p.processes.length := by
      have := (hT.threads t ht).2.2.2.2.2.2.2.2.1
      exact this
    simp only [P.view, List.getElem?_map, List.getElem?_eq_getElem hproc, Option.map_some, Bool.and_eq_true,
      beq_iff_eq, Option.some.injEq]
    constructor
    · rw [hp1]; simp [pidOf, List.getElem?_eq_getElem hlt, hget, List.getElem?_eq_getElem hproc]
    · rw [hp2]; simp [mainOf, List.getElem?_eq_getElem hlt, hget]
  · -- visible
    rw [beq_iff_eq, hvis, List.map_map]
    refine List.map_congr_left ?_
    intro t ht
    exact (hposT t (hT.visible t ht)).symm
  · rw [beq_iff_eq, hsel, List.map_map]
    refine List.map_congr_left ?_
    intro t ht
    exact (hposT t (hT.selected t ht)).symm
  · simp [P.view, hcnt]
  · -- counters
    rw [hcnt]
    simp only [P.view, List.zip_map', List.all_map, List.all_eq_true, Function.comp_def]
    intro c hc
    obtain ⟨pr, hpr, hpid'⟩ := hT.counters c hc
    have hproc := (List.getElem?_eq_some_iff.mp hpr).1
    simp only [Bool.and_eq_true, Bool.or_eq_true, Bool.not_eq_true', beq_iff_eq, decide_eq_true_eq,
      List.getElem?_map, hpr, Option.map_some, hpid', true_and]
    by_cases hany : (p.threads.map (fun t => (t.process, idString t.tid, t.isMain))).any (·.1 == c.process) = true
    · right
      -- the process has a thread, so its block is not empty
      rw [List.any_eq_true] at hany
      obtain ⟨x, hx, hxe⟩ := hany
      simp only [List.mem_map] at hx
      obtain ⟨t, ht, rfl⟩ := hx
      simp only [beq_iff_eq] at hxe
      obtain ⟨h, hlt, hget⟩ := List.getElem_of_mem ht
      have hsk : (skel p).1[h]? = some (t.process, t.tid) := by
        rw [skel_threads_get, List.getElem?_eq_getElem hlt, hget]; rfl
      obtain ⟨l, pid, hl, hm⟩ := hS.owner h _ _ hsk
      rw [hxe, skel_procs_get p _ _ hpr] at hl
      simp only [Option.some.injEq, Prod.mk.injEq] at hl
      have hne : procBlock p c.process ≠ [] := by
        intro hnil
        have : h ∈ procBlock p c.process := (mem_procBlock p _ h).mpr ⟨pr, hpr, by rw [hl.1]; exact hm⟩
        rw [hnil] at this
        cases this
      obtain ⟨h1, h2⟩ := firstThreadIndex_idxOf p hS c.process hproc hne
      have hpp : procPid p c.process = idString c.pid := by simp [procPid, hpr, hpid']
      rw [hpid, ← hpp]
      exact ⟨h1, by rw [← h1, hlen, ← hslen]; exact h2⟩
    · left
      simpa using hany

end PT
