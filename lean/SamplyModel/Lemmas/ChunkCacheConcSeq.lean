import SamplyModel.Lemmas.ChunkCacheConc
/-!
Sequential histories are schedules: one thread running a program alone reaches exactly the state and the
outcomes of the sequential model (`CC.run` / `CC.step`), so the theorems about all schedules
(`C13_interleaving*`) contain the theorems about all histories as the one-thread case. Core Lean only.
-/
namespace CC

/-- the outcomes of a sequential history, newest first, pushed onto `done` -/
def seqDone (c : Cfg) : St → List Op → List (Op × Out (List UInt8)) → List (Op × Out (List UInt8))
  | _, [], done => done
  | st, op :: rest, done => seqDone c (step c st op).1 rest ((op, (step c st op).2) :: done)

theorem runSched_append (c : Cfg) (s : Sys) (a b : List Nat) :
    runSched c s (a ++ b) = runSched c (runSched c s a) b := by
  simp [runSched, List.foldl_append]

/-- one call of a lone thread completes within four sections and is `CC.step` -/
theorem call_completes (c : Cfg) (st : St) (op : Op) (rest : List Op) (done : List (Op × Out (List UInt8)))
    (hnp : (step c st op).2 ≠ .panic) :
    ∃ n, runSched c ⟨st, none, [⟨.idle, op :: rest, done⟩]⟩ (List.replicate n 0) =
      ⟨(step c st op).1, none, [⟨.idle, rest, (op, (step c st op).2) :: done⟩]⟩ := by
  have one : ∀ s : Sys, runSched c s (List.replicate 1 0) = sysStep c s 0 := fun s => rfl
  have two : ∀ s : Sys, runSched c s (List.replicate 2 0) = sysStep c (sysStep c s 0) 0 := fun s => rfl
  have three : ∀ s : Sys, runSched c s (List.replicate 3 0) = sysStep c (sysStep c (sysStep c s 0) 0) 0 :=
    fun s => rfl
  have four : ∀ s : Sys, runSched c s (List.replicate 4 0) =
      sysStep c (sysStep c (sysStep c (sysStep c s 0) 0) 0) 0 := fun s => rfl
  cases op with
  | into o n =>
    refine ⟨1, ?_⟩
    rw [one, sysStep_solo]
    simp only [tstep, Thread.finish, step, readBytesInto]
    cases c.src o n <;> rfl
  | read o n =>
    simp only [step, readBytesAt] at hnp ⊢
    by_cases h0 : n = 0
    · refine ⟨1, ?_⟩
      rw [one, sysStep_solo]
      simp only [tstep, Thread.finish, h0, if_true]
    by_cases h1 : U64 ≤ o + n
    · refine ⟨1, ?_⟩
      rw [one, sysStep_solo]
      simp only [tstep, Thread.finish, h0, h1, if_true, if_false]
    by_cases h2 : st.fileLen < o + n
    · refine ⟨1, ?_⟩
      rw [one, sysStep_solo]
      simp only [tstep, Thread.finish, h0, h1, h2, if_true, if_false]
    simp only [h0, h1, h2, if_false] at hnp ⊢
    cases hg : getRangeLocation c st ⟨o, o + n⟩ with
    | mk st2 out =>
      rw [hg] at hnp
      cases out with
      | panic => exact absurd rfl hnp
      | err e =>
        refine ⟨1, ?_⟩
        rw [one, sysStep_solo]
        simp only [tstep, Thread.finish, h0, h1, h2, if_false, hg]
      | ok loc =>
        simp only at hnp ⊢
        refine ⟨2, ?_⟩
        rw [two, sysStep_solo]
        simp only [tstep, Thread.finish, h0, h1, h2, if_false, hg]
        cases hs : sliceFromLocation st2 loc with
        | panic => rw [hs] at hnp; exact absurd rfl hnp
        | err e => rw [sysStep_solo]; simp only [tstep, Thread.finish, hs]
        | ok bs => rw [sysStep_solo]; simp only [tstep, Thread.finish, hs]
  | until_ r d =>
    simp only [step, readBytesAtUntil] at hnp ⊢
    by_cases h1 : r.hi < r.lo
    · refine ⟨1, ?_⟩
      rw [one, sysStep_solo]
      simp only [tstep, Thread.finish, h1, if_true]
    by_cases h2 : st.fileLen < r.hi
    · refine ⟨1, ?_⟩
      rw [one, sysStep_solo]
      simp only [tstep, Thread.finish, h1, h2, if_true, if_false]
    simp only [h1, h2, if_false] at hnp ⊢
    generalize hM : min (r.hi - r.lo) maxLenInclDelim = maxLen at hnp ⊢
    cases hcg : cacheGet st.strCache (r.lo, d) with
    | some loc =>
      simp only [hcg] at hnp ⊢
      by_cases hlt : loc.size < maxLen
      · simp only [hlt, if_true] at hnp ⊢
        refine ⟨2, ?_⟩
        rw [two, sysStep_solo]
        simp only [tstep, Thread.finish, h1, h2, if_false, hM, hcg, hlt, if_true]
        cases hs : sliceFromLocation st loc with
        | panic => rw [hs] at hnp; exact absurd rfl hnp
        | err e => rw [sysStep_solo]; simp only [tstep, Thread.finish, hs]
        | ok bs => rw [sysStep_solo]; simp only [tstep, Thread.finish, hs]
      · refine ⟨1, ?_⟩
        rw [one, sysStep_solo]
        simp only [tstep, Thread.finish, h1, h2, if_false, hM, hcg, hlt]
    | none =>
      simp only [hcg] at hnp ⊢
      by_cases hz : maxLen = 0
      · refine ⟨1, ?_⟩
        rw [one, sysStep_solo]
        simp only [tstep, Thread.finish, h1, h2, if_false, hM, hcg, hz, if_true]
      by_cases hov : U64 ≤ r.lo + maxLen
      · simp only [hz, hov, if_true, if_false] at hnp; exact absurd rfl hnp
      simp only [hz, hov, if_false] at hnp ⊢
      cases hg : getRangeLocation c st ⟨r.lo, r.lo + maxLen⟩ with
      | mk st2 out =>
        rw [hg] at hnp
        cases out with
        | panic => exact absurd rfl hnp
        | err e =>
          refine ⟨2, ?_⟩
          rw [two, sysStep_solo]
          simp only [tstep, Thread.finish, h1, h2, if_false, hM, hcg, hz, hov]
          rw [sysStep_solo]
          simp only [tstep, Thread.finish, hg]
        | ok loc =>
          simp only at hnp ⊢
          cases hs : sliceFromLocation st2 loc with
          | panic => rw [hs] at hnp; exact absurd rfl hnp
          | err e =>
            refine ⟨3, ?_⟩
            rw [three, sysStep_solo]
            simp only [tstep, Thread.finish, h1, h2, if_false, hM, hcg, hz, hov]
            rw [sysStep_solo]
            simp only [tstep, Thread.finish, hg]
            rw [sysStep_solo]
            simp only [tstep, Thread.finish, hs]
          | ok bs =>
            simp only [hs] at hnp ⊢
            refine ⟨4, ?_⟩
            rw [four, sysStep_solo]
            simp only [tstep, Thread.finish, h1, h2, if_false, hM, hcg, hz, hov]
            rw [sysStep_solo]
            simp only [tstep, Thread.finish, hg]
            rw [sysStep_solo]
            simp only [tstep, Thread.finish, hs]
            rw [sysStep_solo]
            simp only [tstep, Thread.finish]
            cases hm : memchr d bs with
            | none => rfl
            | some len => rfl

/-- a lone thread running a whole program: some schedule reaches exactly the sequential state and outcomes -/
theorem seq_schedule (c : Cfg) (F : List UInt8) (hc : 0 < c.chunk) (hsz : F.length < U64)
    (hf : Faithful F c.src) (ops : List Op) (st : St) (hinv : Inv F st) (done : List (Op × Out (List UInt8))) :
    ∃ sched, runSched c ⟨st, none, [⟨.idle, ops, done⟩]⟩ sched =
      ⟨ops.foldl (fun st op => (step c st op).1) st, none, [⟨.idle, [], seqDone c st ops done⟩]⟩ := by
  induction ops generalizing st done with
  | nil => exact ⟨[], rfl⟩
  | cons op rest ih =>
    obtain ⟨i1, hs⟩ := step_spec c F hc hsz hf st hinv op
    have hnp : (step c st op).2 ≠ .panic := by
      apply good_not_panic (c := c) (F := F) (op := op)
      rcases hs with h | ⟨h, _, h'⟩
      · exact Or.inl h
      · exact Or.inr ⟨h, h'⟩
    obtain ⟨n, hn⟩ := call_completes c st op rest done hnp
    obtain ⟨sched, hsched⟩ := ih _ i1 ((op, (step c st op).2) :: done)
    refine ⟨List.replicate n 0 ++ sched, ?_⟩
    rw [runSched_append, hn, hsched]
    rfl

end CC
