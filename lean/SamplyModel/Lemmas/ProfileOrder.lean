import SamplyModel.Lemmas.ProfileIdString
import SamplyModel.Lemmas.ProfileSerialize
/-!
Thread order and identity clauses of `wf`: tid strings pairwise distinct, the threads of a process
adjacent, main threads first, positional references in range.
-/
namespace PT
open Std

/-! ### Bool specifications as propositions -/

theorem distinct_of_nodup : ∀ (l : List Str), l.Nodup → distinct l = true
  | [], _ => rfl
  | a :: rest, h => by
    rw [List.nodup_cons] at h
    simp only [distinct, Bool.and_eq_true, Bool.not_eq_true', List.contains_eq_mem, decide_eq_false_iff_not]
    exact ⟨h.1, distinct_of_nodup rest h.2⟩

theorem dropWhile_replicate_append (x : Str) (rest : List Str) : ∀ k,
    (List.replicate k x ++ rest).dropWhile (· = x) = rest.dropWhile (· = x)
  | 0 => by simp
  | k + 1 => by
    simp only [List.replicate_succ, List.cons_append, List.dropWhile_cons, decide_true, if_true]
    exact dropWhile_replicate_append x rest k

theorem contiguous_replicate_append (x : Str) (rest : List Str) (hx : x ∉ rest) (hr : contiguous rest = true) :
    ∀ k, contiguous (List.replicate k x ++ rest) = true
  | 0 => by simpa using hr
  | k + 1 => by
    have ih := contiguous_replicate_append x rest hx hr k
    simp only [List.replicate_succ, List.cons_append, contiguous, Bool.and_eq_true, Bool.not_eq_true',
      List.contains_eq_mem, decide_eq_false_iff_not]
    refine ⟨?_, ih⟩
    intro hmem
    rw [dropWhile_replicate_append] at hmem
    exact hx ((List.dropWhile_sublist _).subset hmem)

theorem contiguous_blocks {α : Type} (n : α → Nat) (f : α → Str) : ∀ (L : List α), (L.map f).Nodup →
    contiguous (L.flatMap (fun a => List.replicate (n a) (f a))) = true
  | [], _ => rfl
  | a :: L, h => by
    simp only [List.map_cons, List.nodup_cons] at h
    simp only [List.flatMap_cons]
    refine contiguous_replicate_append _ _ ?_ (contiguous_blocks n f L h.2) _
    intro hmem
    simp only [List.mem_flatMap, List.mem_replicate] at hmem
    obtain ⟨b, hb, _, he⟩ := hmem
    exact h.1 (List.mem_map.mpr ⟨b, hb, he.symm⟩)

/-- pairwise form of "main threads first within a process" -/
def MainRel (a b : Str × Bool) : Prop := a.1 = b.1 → a.2 = true ∨ b.2 = false

theorem mainFirst_of_pairwise : ∀ (l : List (Str × Bool)), l.Pairwise MainRel → mainFirst l = true
  | [], _ => rfl
  | [_], _ => rfl
  | (p1, m1) :: (p2, m2) :: rest, h => by
    rw [List.pairwise_cons] at h
    have h12 := h.1 (p2, m2) List.mem_cons_self
    simp only [mainFirst, Bool.and_eq_true, Bool.or_eq_true, Bool.not_eq_true', decide_eq_false_iff_not]
    refine ⟨?_, mainFirst_of_pairwise _ h.2⟩
    by_cases he : p1 = p2
    · rcases h12 he with hm | hm
      · exact Or.inl (Or.inr hm)
      · exact Or.inr hm
    · exact Or.inl (Or.inl he)

/-! ### the comparators are total preorders -/

instance (p : P) : TransCmp (threadCmp p) := by unfold threadCmp; infer_instance
instance (p : P) : TransCmp (procCmp p) := by unfold procCmp; infer_instance

theorem isLE_total {α : Type} (cmp : α → α → Ordering) [OrientedCmp cmp] (a b : α) :
    ((cmp a b).isLE || (cmp b a).isLE) = true := by
  rw [OrientedCmp.eq_swap (cmp := cmp) (a := b) (b := a)]
  cases cmp a b <;> rfl

theorem procBlock_pairwise (p : P) (pi : Nat) :
    (procBlock p pi).Pairwise (fun a b => (threadCmp p a b).isLE = true) := by
  unfold procBlock
  split
  · exact List.pairwise_mergeSort (le := fun a b => (threadCmp p a b).isLE)
      (fun a b c h1 h2 => TransCmp.isLE_trans (cmp := threadCmp p) h1 h2)
      (fun a b => isLE_total (threadCmp p) a b) _
  · exact List.Pairwise.nil

theorem threadKey_main (p : P) (h : Nat) : (threadKey p h).1 = !mainOf p h := by
  unfold threadKey mainOf
  cases p.threads[h]? <;> rfl

theorem threadCmp_main (p : P) (a b : Nat) (h : (threadCmp p a b).isLE = true) :
    mainOf p a = true ∨ mainOf p b = false := by
  unfold threadCmp compareLex at h
  rw [Ordering.isLE_then_iff_and] at h
  have h1 := h.1
  simp only [compareOn, threadKey_main] at h1
  cases ha : mainOf p a <;> cases hb : mainOf p b <;> simp only [ha, hb] at h1 ⊢
  · exact Or.inr trivial
  · exact absurd h1 (by decide)
  · exact Or.inl trivial
  · exact Or.inl trivial

/-! ### identity of pid / tid strings -/

def procPid (p : P) (pi : Nat) : Str :=
  match p.processes[pi]? with
  | some pr => idString pr.pid
  | none => ""

theorem pidOf_block (p : P) (hs : SInv p) (pi h : Nat) (hm : h ∈ procBlock p pi) : pidOf p h = procPid p pi := by
  obtain ⟨t, ht, hp⟩ := procBlock_thread p hs pi h hm
  subst hp
  simp only [pidOf, procPid, ht]
  cases p.processes[t.process]? <;> rfl

theorem skel_pids (p : P) : (skel p).2.1.map (·.2) = p.processes.map (·.pid) := by simp [skel]
theorem skel_tids (p : P) : (skel p).1.map (·.2) = p.threads.map (·.tid) := by simp [skel]

theorem procPid_inj (p : P) (hs : SInv p) (a b : Nat) (ha : a < p.processes.length) (hb : b < p.processes.length)
    (h : procPid p a = procPid p b) : a = b := by
  simp only [procPid, List.getElem?_eq_getElem ha, List.getElem?_eq_getElem hb] at h
  have hpid := idString_injective h
  have hnd : (p.processes.map (·.pid)).Nodup := skel_pids p ▸ hs.pidsNodup
  have := (List.getElem_inj (i := a) (j := b) (h₀ := by simpa using ha) (h₁ := by simpa using hb) hnd).mp
    (by simpa using hpid)
  exact this

theorem tidOf_inj (p : P) (hs : SInv p) (a b : Nat) (ha : a < p.threads.length) (hb : b < p.threads.length)
    (h : tidOf p a = tidOf p b) : a = b := by
  simp only [tidOf, List.getElem?_eq_getElem ha, List.getElem?_eq_getElem hb] at h
  have htid := idString_injective h
  have hnd : (p.threads.map (·.tid)).Nodup := skel_tids p ▸ hs.tidsNodup
  exact (List.getElem_inj (i := a) (j := b) (h₀ := by simpa using ha) (h₁ := by simpa using hb) hnd).mp
    (by simpa using htid)

theorem nodup_procPids (p : P) (hs : SInv p) : ((sortedProcs p).map (procPid p)).Nodup := by
  rw [List.Nodup, List.pairwise_map]
  refine List.Pairwise.imp_of_mem ?_ (nodup_sortedProcs p)
  intro a b ha hb hab he
  exact hab (procPid_inj p hs a b ((mem_sortedProcs p a).mp ha) ((mem_sortedProcs p b).mp hb) he)

theorem sorted_pids (p : P) (hs : SInv p) :
    (sortedThreads p).map (pidOf p) =
      (sortedProcs p).flatMap (fun pi => List.replicate (procBlock p pi).length (procPid p pi)) := by
  unfold sortedThreads
  rw [List.map_flatMap]
  congr 1
  funext pi
  rw [List.eq_replicate_iff]
  refine ⟨by simp, ?_⟩
  intro b hb
  simp only [List.mem_map] at hb
  obtain ⟨h, hm, rfl⟩ := hb
  exact pidOf_block p hs pi h hm

theorem sorted_main (p : P) (hs : SInv p) :
    ((sortedThreads p).map (fun h => (pidOf p h, mainOf p h))).Pairwise MainRel := by
  rw [List.pairwise_map]
  unfold sortedThreads
  rw [List.pairwise_flatMap]
  constructor
  · intro pi _
    refine (procBlock_pairwise p pi).imp ?_
    intro a b hab _
    exact threadCmp_main p a b hab
  · refine List.Pairwise.imp_of_mem ?_ (nodup_sortedProcs p)
    intro a b ha hb hab x hx y hy he
    simp only at he
    rw [pidOf_block p hs a x hx, pidOf_block p hs b y hy] at he
    exact absurd (procPid_inj p hs a b ((mem_sortedProcs p a).mp ha) ((mem_sortedProcs p b).mp hb) he) hab

theorem sorted_tids_nodup (p : P) (hs : SInv p) : ((sortedThreads p).map (tidOf p)).Nodup := by
  rw [List.Nodup, List.pairwise_map]
  refine List.Pairwise.imp_of_mem ?_ (nodup_sortedThreads p hs)
  intro a b ha hb hab he
  exact hab (tidOf_inj p hs a b ((mem_sortedThreads p hs a).mp ha) ((mem_sortedThreads p hs b).mp hb) he)

theorem newThreadIndex_lt (p : P) (t : Nat) (ht : t < p.threads.length)
    (hlen : (sortedThreads p).length = p.threads.length) : newThreadIndex p t < p.threads.length := by
  unfold newThreadIndex
  simp only
  split
  · rename_i h; omega
  · omega

/-- the invariants give the whole specification -/
theorem wf_of_inv (p : P) (ht : TInv p) (hs : SInv p) : ∃ s, serialize p = some s ∧ wf s = true := by
  obtain ⟨s, hser, htab, htid, hpid, hmain, hlen, hvis, hsel⟩ := serialize_spec p ht hs
  refine ⟨s, hser, ?_⟩
  have hslen : (sortedThreads p).length = p.threads.length := by
    have := congrArg List.length htid
    simp only [List.length_map] at this
    omega
  simp only [wf, Bool.and_eq_true]
  refine ⟨⟨⟨⟨⟨?_, ?_⟩, ?_⟩, ?_⟩, ?_⟩, ?_⟩
  · rw [List.all_eq_true]; exact htab
  · rw [htid]; exact distinct_of_nodup _ (sorted_tids_nodup p hs)
  · rw [hpid, sorted_pids p hs]
    exact contiguous_blocks _ _ _ (nodup_procPids p hs)
  · rw [hmain]; exact mainFirst_of_pairwise _ (sorted_main p hs)
  · rw [List.all_eq_true, hvis]
    intro x hx
    simp only [List.mem_map] at hx
    obtain ⟨t, htm, rfl⟩ := hx
    rw [hlen]
    exact decide_eq_true (newThreadIndex_lt p t (ht.visible t htm) hslen)
  · rw [List.all_eq_true, hsel]
    intro x hx
    simp only [List.mem_map] at hx
    obtain ⟨t, htm, rfl⟩ := hx
    rw [hlen]
    exact decide_eq_true (newThreadIndex_lt p t (ht.selected t htm) hslen)

end PT
