import SamplyModel.Lemmas.ProfileStep
/-!
Preservation of `TInv` by the frame-producing methods (`handle_for_frame_with_label*`,
`handle_for_frame_with_address*`, `handle_for_native_symbol`) and absence of internal panics (`bug`).
-/
namespace PT

theorem P.threads_get {p : P} {t : Nat} (ht : t < p.threads.length) : p.threads[t]? = some p.threads[t] :=
  List.getElem?_eq_getElem ht

theorem P.internFrame_TInv (p : P) (h : TInv p) (t : Nat) (th : Thread) (ns : NativeSymbols)
    (st : ThreadStrings) (f : Frame) (hth : ThreadInv p.gb th) (hs : TSInv st) (hn : th.strings.n ≤ st.n)
    (hns : NsInv st.n p.libs.used.length ns) (hnl : th.nsyms.names.length ≤ ns.names.length)
    (hf : FrameOk st.n p.libs.used.length ns.names.length (subCount p.cats) f) :
    TInv (p.internFrame t { th with nsyms := ns } st f).1 ∧
    (p.internFrame t { th with nsyms := ns } st f).2 ≠ .bug := by
  obtain ⟨a1, a2, a3, a4, a5, a6, a7, a8, a9, a10⟩ := hth
  have hfi : FrameInv st.n p.libs.used.length ns.names.length (subCount p.cats) th.frames :=
    a2.mono hn (Nat.le_refl _) hnl (fun _ => Nat.le_refl _)
  obtain ⟨t', st', i, e, hs', hn', hfi', _, hk⟩ := th.frames.indexFor_spec f p.libs st _ _ hfi hs h.libs hf
  unfold P.internFrame
  simp only [e]
  refine ⟨?_, by simp⟩
  apply h.setThread
  exact ThreadInv.update ⟨a1, a2, a3, a4, a5, a6, a7, a8, a9, a10⟩ st' t' ns hs' (Nat.le_trans hn hn')
    (hns.mono hn' (Nat.le_refl _)) hfi' hk

theorem P.frameLabel_TInv (p : P) (h : TInv p) (t str : Nat)
    (src : Option (Option Nat × Option Nat × Option Nat)) (c s flags : Nat)
    (ht : t < p.threads.length) (hstr : p.strOk str = true)
    (hsrc : match src with
      | none => True
      | some (file, _, _) => p.optStrOk file = true)
    (hcs : s < subCount p.cats c) :
    TInv (p.frameLabel t str src c s flags).1 ∧ (p.frameLabel t str src c s flags).2 ≠ .bug := by
  obtain ⟨label, hlabel⟩ := P.gstr_of_strOk hstr
  have hth := h.thread (P.threads_get ht)
  unfold P.frameLabel
  simp only [P.threads_get ht, hlabel]
  have h1 := (p.threads[t]).strings.forGlobal_spec str label hth.1
  cases src with
  | none =>
    simp only
    exact p.internFrame_TInv h t _ (p.threads[t]).nsyms _ _ hth h1.1 h1.2.2
      (hth.2.2.1.mono h1.2.2 (Nat.le_refl _)) (Nat.le_refl _)
      ⟨h1.2.1, (by intro x hx; cases hx), hcs, (by intro n hn; cases hn)⟩
  | some src =>
    obtain ⟨file, line, col⟩ := src
    simp only at hsrc ⊢
    obtain ⟨st', file', e, hs', hn', hfile, _⟩ := convertOpt_spec p _ file h1.1 hsrc
    simp only [e]
    exact p.internFrame_TInv h t _ (p.threads[t]).nsyms _ _ hth hs' (Nat.le_trans h1.2.2 hn')
      (hth.2.2.1.mono (Nat.le_trans h1.2.2 hn') (Nat.le_refl _)) (Nat.le_refl _)
      ⟨Nat.lt_of_lt_of_le h1.2.1 hn', hfile, hcs, (by intro n hn; cases hn)⟩

theorem P.withSub_TInv (p : P) (h : TInv p) (sc : SubSpec) (hv : p.subSpecOk sc = true)
    (k : P → Nat → Nat → P × Out)
    (hk : ∀ p' c s, TInv p' → p' = { p with cats := p'.cats } → s < subCount p'.cats c →
      TInv (k p' c s).1 ∧ (k p' c s).2 ≠ .bug) :
    TInv (p.withSub sc k).1 ∧ (p.withSub sc k).2 ≠ .bug := by
  obtain ⟨e, hle, hpos, hok, hinv⟩ := p.resolveSub_spec sc h.subsPos h.catsPos hv
  have hp' : TInv (p.resolveSub sc).1 := by
    rw [e]; exact h.setCats _ hle hpos
  unfold P.withSub
  cases hr : p.resolveSub sc with
  | mk p' r =>
    rw [hr] at e hok hinv hp'
    simp only at e hok hinv hp'
    cases r with
    | invalid => exact absurd rfl hinv
    | panic => exact ⟨hp', by simp⟩
    | ok c s =>
      have hk' := hk p' c s hp' e (hok c s rfl)
      simp only
      split
      · exact ⟨h, by simp⟩
      · exact hk'

theorem P.nativeSymbol_TInv (p : P) (h : TInv p) (t lib : Nat) (sym : Sym) (ht : t < p.threads.length)
    (hl : lib < p.libs.all.length) :
    TInv (p.nativeSymbol t lib sym).1 ∧ (p.nativeSymbol t lib sym).2 ≠ .bug := by
  have hth := h.thread (P.threads_get ht)
  unfold P.nativeSymbol
  simp only [P.threads_get ht, hl, if_true]
  have h1 := p.libs.indexForUsed_spec lib h.libs hl
  have hp1 : TInv { p with libs := (p.libs.indexForUsed lib).1 } :=
    h.setLibs _ h1.1 (by rw [h1.2.2.2.1]; exact Nat.le_refl _) h1.2.2.1
  have hth1 : ThreadInv (P.gb { p with libs := (p.libs.indexForUsed lib).1 }) p.threads[t] :=
    hp1.thread (p := { p with libs := (p.libs.indexForUsed lib).1 }) (P.threads_get ht)
  obtain ⟨ns', st', i, name, e, hs', hn', hns', _, _, hnl⟩ :=
    (p.threads[t]).nsyms.indexFor_spec (p.libs.indexForUsed lib).2 sym (p.threads[t]).strings
      (p.libs.indexForUsed lib).1.used.length hth1.2.2.1 hth1.1 h1.2.1
  simp only [e]
  refine ⟨?_, by simp⟩
  apply hp1.setThread
  obtain ⟨a1, a2, a3, a4, a5, a6, a7, a8, a9, a10⟩ := hth1
  exact ThreadInv.update ⟨a1, a2, a3, a4, a5, a6, a7, a8, a9, a10⟩ st' (p.threads[t]).frames ns' hs' hn' hns'
    (a2.mono hn' (Nat.le_refl _) hnl (fun _ => Nat.le_refl _)) (Nat.le_refl _)

theorem P.addrOk_pre {p : P} {a : AddrSpec} (ha : p.addrOk a = true) : AddrPre p.libs.all.length a := by
  cases a with
  | abs k x => trivial
  | rel k lib x => simpa [P.addrOk, AddrPre] using ha

theorem P.frameAddr_TInv (p : P) (h : TInv p) (t : Nat) (a : AddrSpec) (c s flags : Nat)
    (ht : t < p.threads.length) (ha : p.addrOk a = true) (hcs : s < subCount p.cats c) :
    TInv (p.frameAddr t a c s flags).1 ∧ (p.frameAddr t a c s flags).2 ≠ .bug := by
  have hth := h.thread (P.threads_get ht)
  have hpr : (p.threads[t]).process < p.processes.length := hth.2.2.2.2.2.2.2.2.1
  unfold P.frameAddr
  simp only [P.threads_get ht, List.getElem?_eq_getElem hpr]
  have hspec := resolveAddr_spec p.libs (effMaps p.kmaps (p.processes[(p.threads[t]).process]).maps a) a h.libs
    (effMaps_libs h.kmaps (h.maps _ (List.getElem_mem hpr)) a) (P.addrOk_pre ha)
  cases hres : resolveAddr p.libs (effMaps p.kmaps (p.processes[(p.threads[t]).process]).maps a) a with
  | mk libs res =>
    rw [hres] at hspec
    simp only at hspec
    obtain ⟨hl, hall, _, hused, hninv, hlib⟩ := hspec
    have hp1 : TInv { p with libs := libs } := h.setLibs libs hl (by rw [hall]; exact Nat.le_refl _) hused
    have hth1 : ThreadInv (P.gb { p with libs := libs }) p.threads[t] :=
      hp1.thread (p := { p with libs := libs }) (P.threads_get ht)
    cases res with
    | invalid => exact absurd rfl hninv
    | panic => exact ⟨h, by simp⟩
    | unknown addr =>
      simp only [P.hexString]
      have hg := p.gstrings.indexFor_spec (hexStr addr) h.gstr
      have hp2 := hp1.setGstrings (p := { p with libs := libs }) _ hg.1 hg.2.2
      have hth2 := hp2.thread (p := { p with libs := libs, gstrings := (p.gstrings.indexFor (hexStr addr)).1 })
        (P.threads_get ht)
      have h1 := (p.threads[t]).strings.forGlobal_spec (p.gstrings.indexFor (hexStr addr)).2 (hexStr addr) hth2.1
      exact P.internFrame_TInv _ hp2 t _ (p.threads[t]).nsyms _ _ hth2 h1.1 h1.2.2
        (hth2.2.2.1.mono h1.2.2 (Nat.le_refl _)) (Nat.le_refl _)
        ⟨h1.2.1, (by intro x hx; cases hx), hcs, (by intro n hn; cases hn)⟩
    | inLib rel lib =>
      have hlib' := hlib rel lib rfl
      simp only
      cases hsym : (libs.getSymtab lib).bind (fun tab => symLookup tab rel) with
      | some sym =>
        simp only
        obtain ⟨ns', st', i, name, e, hs', hn', hns', hi, hname, hnl⟩ :=
          (p.threads[t]).nsyms.indexFor_spec lib sym (p.threads[t]).strings libs.used.length
            hth1.2.2.1 hth1.1 hlib'
        simp only [e]
        exact P.internFrame_TInv _ hp1 t _ ns' _ _ hth1 hs' hn' hns' hnl
          ⟨hname, (by intro x hx; cases hx), hcs, (by
            intro n hn
            simp only [Option.some.injEq] at hn
            subst hn
            exact ⟨hlib', fun s hs => by cases hs; exact hi⟩)⟩
      | none =>
        simp only [P.hexString]
        have hg := p.gstrings.indexFor_spec (hexStr rel) h.gstr
        have hp2 := hp1.setGstrings (p := { p with libs := libs }) _ hg.1 hg.2.2
        have hth2 := hp2.thread (p := { p with libs := libs, gstrings := (p.gstrings.indexFor (hexStr rel)).1 })
          (P.threads_get ht)
        have h1 := (p.threads[t]).strings.forGlobal_spec (p.gstrings.indexFor (hexStr rel)).2 (hexStr rel) hth2.1
        exact P.internFrame_TInv _ hp2 t _ (p.threads[t]).nsyms _ _ hth2 h1.1 h1.2.2
          (hth2.2.2.1.mono h1.2.2 (Nat.le_refl _)) (Nat.le_refl _)
          ⟨h1.2.1, (by intro x hx; cases hx), hcs, (by
            intro n hn
            simp only [Option.some.injEq] at hn
            subst hn
            exact ⟨hlib', fun s hs => by cases hs⟩)⟩

/-- the native variant a symbolicated frame will carry is valid -/
def VariantOk (nLibs nNs : Nat) (v : Option NativeData) : Prop :=
  ∀ n, v = some n → n.lib < nLibs ∧ ∀ s, n.nsym = some s → s < nNs

theorem P.symVariant_spec (p : P) (h : TInv p) (t : Nat) (ht : t < p.threads.length) (st : ThreadStrings)
    (res : AddrRes) (name' : Option Nat) (nsymIdx depth : Nat) (hs : TSInv st)
    (hn : (p.threads[t]).strings.n ≤ st.n) (hname : ∀ x, name' = some x → x < st.n)
    (hidx : nsymIdx < (p.threads[t]).nsyms.names.length)
    (hres : ∀ rel lib, res = .inLib rel lib → lib < p.libs.used.length)
    (hr1 : res ≠ .invalid) (hr2 : res ≠ .panic) :
    ∃ p2 st2 v n, P.symVariant p p.threads[t] st res name' nsymIdx depth = some (p2, st2, v, n) ∧
      TInv p2 ∧ p2.threads = p.threads ∧ p2.libs = p.libs ∧ p2.cats = p.cats ∧
      p.gstrings.strings.length ≤ p2.gstrings.strings.length ∧
      TSInv st2 ∧ st.n ≤ st2.n ∧ n < st2.n ∧
      VariantOk p.libs.used.length (p.threads[t]).nsyms.names.length v := by
  have hth := h.thread (P.threads_get ht)
  cases res with
  | invalid => exact absurd rfl hr1
  | panic => exact absurd rfl hr2
  | unknown addr =>
    cases name' with
    | some n =>
      exact ⟨p, st, none, n, rfl, h, rfl, rfl, rfl, Nat.le_refl _, hs, Nat.le_refl _, hname n rfl,
        (by intro n hn; cases hn)⟩
    | none =>
      have hg := p.gstrings.indexFor_spec (hexStr addr) h.gstr
      have hp2 := h.setGstrings _ hg.1 hg.2.2
      have h1 := st.forGlobal_spec (p.gstrings.indexFor (hexStr addr)).2 (hexStr addr) hs
      exact ⟨_, _, none, _, rfl, hp2, rfl, rfl, rfl, hg.2.2, h1.1, h1.2.2, h1.2.1, (by intro n hn; cases hn)⟩
  | inLib rel lib =>
    have hlib := hres rel lib rfl
    have hv : VariantOk p.libs.used.length (p.threads[t]).nsyms.names.length
        (some ⟨lib, some nsymIdx, rel, depth⟩) := by
      intro n hn
      simp only [Option.some.injEq] at hn
      subst hn
      exact ⟨hlib, fun s hs => by cases hs; exact hidx⟩
    cases name' with
    | some n =>
      exact ⟨p, st, _, n, rfl, h, rfl, rfl, rfl, Nat.le_refl _, hs, Nat.le_refl _, hname n rfl, hv⟩
    | none =>
      simp only [P.symVariant, List.getElem?_eq_getElem hidx]
      refine ⟨p, st, _, _, rfl, h, rfl, rfl, rfl, Nat.le_refl _, hs, Nat.le_refl _, ?_, hv⟩
      exact Nat.lt_of_lt_of_le (hth.2.2.1.2.2.2.2.1 _ (List.getElem_mem hidx)) hn

theorem P.frameSym_TInv (p : P) (h : TInv p) (t : Nat) (a : AddrSpec) (name : Option Nat) (nsym : TH)
    (file line col : Option Nat) (depth c s flags : Nat)
    (ht : t < p.threads.length) (ha : p.addrOk a = true) (hname : p.optStrOk name = true)
    (hns : p.nsymOk nsym = true) (hfile : p.optStrOk file = true) (hcs : s < subCount p.cats c) :
    TInv (p.frameSym t a name nsym file line col depth c s flags).1 ∧
    (p.frameSym t a name nsym file line col depth c s flags).2 ≠ .bug := by
  unfold P.frameSym
  by_cases hnt : nsym.1 ≠ t
  · rw [if_pos hnt]; exact ⟨h, by simp⟩
  · rw [if_neg hnt]
    have hnt' : nsym.1 = t := Decidable.of_not_not hnt
    have hidx : nsym.2 < (p.threads[t]).nsyms.names.length := by
      simp only [P.nsymOk, hnt', P.threads_get ht, decide_eq_true_eq] at hns
      exact hns
    have hth := h.thread (P.threads_get ht)
    have hpr : (p.threads[t]).process < p.processes.length := hth.2.2.2.2.2.2.2.2.1
    simp only [P.threads_get ht, List.getElem?_eq_getElem hpr]
    have hspec := resolveAddr_spec p.libs (effMaps p.kmaps (p.processes[(p.threads[t]).process]).maps a) a h.libs
      (effMaps_libs h.kmaps (h.maps _ (List.getElem_mem hpr)) a) (P.addrOk_pre ha)
    cases hres : resolveAddr p.libs (effMaps p.kmaps (p.processes[(p.threads[t]).process]).maps a) a with
    | mk libs res =>
      rw [hres] at hspec
      simp only at hspec
      obtain ⟨hl, hall, _, hused, hninv, hlib⟩ := hspec
      have hp1 : TInv { p with libs := libs } := h.setLibs libs hl (by rw [hall]; exact Nat.le_refl _) hused
      have hth1 : ThreadInv (P.gb { p with libs := libs }) p.threads[t] :=
        hp1.thread (p := { p with libs := libs }) (P.threads_get ht)
      by_cases hinv : res = .invalid
      · exact absurd hinv hninv
      by_cases hpan : res = .panic
      · subst hpan; exact ⟨h, by simp⟩
      obtain ⟨st1, name', e1, hs1, hn1, hname1, _⟩ :=
        convertOpt_spec { p with libs := libs } (p.threads[t]).strings name hth1.1 hname
      obtain ⟨p2, st2, v, n, e2, hp2, hthr, hlibs, hcats, hg2, hs2, hn2, hnlt, hv⟩ :=
        P.symVariant_spec { p with libs := libs } hp1 t ht st1 res name' nsym.2 depth hs1 hn1 hname1 hidx
          hlib hinv hpan
      have hfile2 : p2.optStrOk file = true := by
        cases file with
        | none => rfl
        | some g =>
          simp only [P.optStrOk, P.strOk, decide_eq_true_eq] at hfile ⊢
          exact Nat.lt_of_lt_of_le hfile hg2
      obtain ⟨st3, file', e3, hs3, hn3, hfile3, _⟩ := convertOpt_spec p2 st2 file hs2 hfile2
      have hgoal : TInv (p2.internFrame t p.threads[t] st3 ⟨n, v, c, s, file', line, col, flags⟩).1 ∧
          (p2.internFrame t p.threads[t] st3 ⟨n, v, c, s, file', line, col, flags⟩).2 ≠ .bug := by
        have hth2 : ThreadInv p2.gb p.threads[t] := by
          apply hp2.thread (t := t)
          rw [hthr]; exact P.threads_get ht
        have hused2 : p2.libs.used.length = libs.used.length := by rw [hlibs]
        refine P.internFrame_TInv p2 hp2 t _ (p.threads[t]).nsyms st3 _ hth2 hs3
          (Nat.le_trans hn1 (Nat.le_trans hn2 hn3)) ?_ (Nat.le_refl _) ?_
        · exact hth2.2.2.1.mono (Nat.le_trans hn1 (Nat.le_trans hn2 hn3)) (Nat.le_refl _)
        · refine ⟨Nat.lt_of_lt_of_le hnlt hn3, hfile3, ?_, ?_⟩
          · rw [hcats]; exact hcs
          · rw [hused2]; exact hv
      cases res with
      | invalid => exact absurd rfl hinv
      | panic => exact absurd rfl hpan
      | unknown addr => simp only [e1, e2, e3]; exact hgoal
      | inLib rel lib => simp only [e1, e2, e3]; exact hgoal

end PT
