import SamplyModel.Model.BreakpadIndex
/-!
Helper lemmas for C10, part 7: `core::slice::binary_search_by` as modelled by `BP.bsearchBase` finds the
partition point of a list that consists of a prefix of elements not greater than the target followed by
elements greater than it — in particular on every list sorted by the key.
-/
namespace BP

theorem bsearchBase_part {α : Type} (gt : α → Bool) (p q : List α)
    (hp : ∀ x ∈ p, gt x = false) (hq : ∀ x ∈ q, gt x = true) (size base : Nat)
    (h1 : 1 ≤ size) (h2 : base + size ≤ (p ++ q).length) (h3 : base ≤ p.length - 1)
    (h4 : p.length - 1 < base + size) :
    bsearchBase gt (p ++ q) size base = p.length - 1 := by
  induction size using Nat.strongRecOn generalizing base with
  | _ size ih =>
    unfold bsearchBase
    by_cases hs : 1 < size
    · simp only [hs, if_true]
      have hmid : base + size / 2 < (p ++ q).length := by
        have : size / 2 < size := Nat.div_lt_self (by omega) (by decide)
        omega
      have hhalf : 1 ≤ size / 2 := by
        have := Nat.div_add_mod size 2
        omega
      have hhalf2 : size / 2 ≤ size - size / 2 := by
        have := Nat.div_add_mod size 2
        omega
      by_cases hm : base + size / 2 < p.length
      · -- the probed element is in the prefix: not greater, base moves to mid
        have hx : (p ++ q)[base + size / 2]? = p[base + size / 2]? := List.getElem?_append_left hm
        have hx2 : p[base + size / 2]? = some p[base + size / 2] := List.getElem?_eq_getElem hm
        rw [hx, hx2]
        simp only [hp _ (List.getElem_mem hm), Bool.false_eq_true, if_false]
        apply ih (size - size / 2) (by omega) _ (by omega) (by omega) (by omega) (by omega)
      · -- the probed element is in the suffix: greater, base stays
        have hge : p.length ≤ base + size / 2 := by omega
        have hx : (p ++ q)[base + size / 2]? = q[base + size / 2 - p.length]? := List.getElem?_append_right hge
        have hlt : base + size / 2 - p.length < q.length := by
          simp only [List.length_append] at hmid; omega
        have hx2 : q[base + size / 2 - p.length]? = some q[base + size / 2 - p.length] := List.getElem?_eq_getElem hlt
        rw [hx, hx2]
        simp only [hq _ (List.getElem_mem hlt), if_true]
        apply ih (size - size / 2) (by omega) _ (by omega) (by omega) h3 (by omega)
    · simp only [hs, if_false]
      omega

theorem bsearchLE_part {α : Type} (gt : α → Bool) (p q : List α)
    (hp : ∀ x ∈ p, gt x = false) (hq : ∀ x ∈ q, gt x = true) :
    bsearchLE gt (p ++ q) = if p.isEmpty then none else some (p.length - 1) := by
  unfold bsearchLE
  by_cases he : (p ++ q).isEmpty = true
  · have : p = [] ∧ q = [] := by simpa using he
    simp [this.1, this.2]
  · simp only [he, Bool.false_eq_true, if_false]
    have hne : 1 ≤ (p ++ q).length := by
      cases h : p ++ q with
      | nil => simp [h] at he
      | cons a l => simp
    have hl : (p ++ q).length = p.length + q.length := List.length_append
    rw [bsearchBase_part gt p q hp hq _ 0 hne (by omega) (by omega) (by omega)]
    cases p with
    | nil =>
      simp only [List.length_nil, List.nil_append, List.isEmpty_nil, if_true]
      cases q with
      | nil => simp at hne
      | cons b r => simp [hq b (by simp)]
    | cons a l =>
      have hlt : (a :: l).length - 1 < (a :: l).length := by simp
      have hx : ((a :: l) ++ q)[(a :: l).length - 1]? = some (a :: l)[(a :: l).length - 1] := by
        rw [List.getElem?_append_left hlt, List.getElem?_eq_getElem hlt]
      have hg : gt (a :: l)[(a :: l).length - 1] = false := hp _ (List.getElem_mem hlt)
      rw [hx]
      simp only [hg, Bool.false_eq_true, if_false, List.isEmpty_cons]

theorem bsearchEq_part {α : Type} (gt eq : α → Bool) (p q : List α)
    (hp : ∀ x ∈ p, gt x = false) (hq : ∀ x ∈ q, gt x = true) (hqe : ∀ x ∈ q, eq x = false) :
    bsearchEq gt eq (p ++ q) =
      match p.getLast? with
      | some x => if eq x then some (p.length - 1) else none
      | none => none := by
  unfold bsearchEq
  by_cases he : (p ++ q).isEmpty = true
  · have : p = [] ∧ q = [] := by simpa using he
    simp [this.1, this.2]
  · simp only [he, Bool.false_eq_true, if_false]
    have hne : 1 ≤ (p ++ q).length := by
      cases h : p ++ q with
      | nil => simp [h] at he
      | cons a l => simp
    have hl : (p ++ q).length = p.length + q.length := List.length_append
    rw [bsearchBase_part gt p q hp hq _ 0 hne (by omega) (by omega) (by omega)]
    cases p with
    | nil =>
      simp only [List.length_nil, List.nil_append, List.getLast?_nil]
      cases q with
      | nil => simp at hne
      | cons b r => simp [hqe b (by simp)]
    | cons a l =>
      have hlt : (a :: l).length - 1 < (a :: l).length := by simp
      have hx : ((a :: l) ++ q)[(a :: l).length - 1]? = some (a :: l)[(a :: l).length - 1] := by
        rw [List.getElem?_append_left hlt, List.getElem?_eq_getElem hlt]
      rw [hx]
      have hl : (a :: l).getLast? = some (a :: l)[(a :: l).length - 1] := by
        rw [List.getLast?_eq_getElem?]
        exact List.getElem?_eq_getElem hlt
      rw [hl]

/-- a list sorted by `key` splits at the target into "≤" and ">" -/
theorem sorted_split {α : Type} (key : α → Nat) (l : List α) (h : l.Pairwise (fun a b => key a ≤ key b))
    (t : Nat) :
    (∀ x ∈ l.takeWhile (fun x => decide (key x ≤ t)), key x ≤ t) ∧
    (∀ x ∈ l.dropWhile (fun x => decide (key x ≤ t)), t < key x) := by
  induction l with
  | nil => simp
  | cons a l ih =>
    have ha := List.pairwise_cons.1 h
    by_cases hk : key a ≤ t
    · simp only [List.takeWhile_cons, List.dropWhile_cons, hk, decide_true, if_true]
      have := ih ha.2
      refine ⟨?_, this.2⟩
      intro x hx
      rcases List.mem_cons.1 hx with e | e
      · subst e; exact hk
      · exact this.1 x e
    · simp only [List.takeWhile_cons, List.dropWhile_cons, hk, decide_false, Bool.false_eq_true, if_false]
      refine ⟨by simp, ?_⟩
      intro x hx
      rcases List.mem_cons.1 hx with e | e
      · subst e; omega
      · have := ha.1 x e; omega

/-- on a list sorted by `key`, the search for `t` yields the index of the last element with key ≤ t -/
theorem bsearchLE_sorted {α : Type} (key : α → Nat) (l : List α)
    (h : l.Pairwise (fun a b => key a ≤ key b)) (t : Nat) :
    bsearchLE (fun x => decide (t < key x)) l =
      if (l.takeWhile (fun x => decide (key x ≤ t))).isEmpty then none
      else some ((l.takeWhile (fun x => decide (key x ≤ t))).length - 1) := by
  have hs := sorted_split key l h t
  conv => lhs; rw [← List.takeWhile_append_dropWhile (p := fun x => decide (key x ≤ t)) (l := l)]
  apply bsearchLE_part
  · intro x hx; have := hs.1 x hx; simp; omega
  · intro x hx; have := hs.2 x hx; simp; omega

end BP
