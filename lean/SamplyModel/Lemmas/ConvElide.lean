import SamplyModel.Lemmas.ConvHistFinal
/-!
Facts about the frame lists the converter and the specification produce (C14): no placeholder, no thread label;
without JS label frames the emitted list has exactly the recorded length; the shape of `expectedSamples`.
-/
namespace Conv
open ConvSpec

/-- a frame the second pass / the declarative attribution can produce: raw or library frame -/
def plainFrame : Frame → Bool
  | .raw _ => true
  | .lib _ _ => true
  | _ => false

theorem secondPass_plain (maps pm : List MapAdd) (f : SFrame) : plainFrame (secondPass maps pm f).frame = true := by
  unfold secondPass
  dsimp only
  split
  · rfl
  · split <;> rfl

theorem expectInfo_plain (ann : Announced) (t : Nat) (pm : List MapAdd) (f : SFrame) :
    plainFrame (expectInfo ann t pm f).frame = true := by
  unfold expectInfo
  dsimp only
  split
  · rfl
  · split <;> rfl

theorem plain_not_special {f : Frame} (h : plainFrame f = true) :
    isElided f = false ∧ isTLabel f = false ∧ isLabel f = false := by
  cases f <;> simp_all [plainFrame, isElided, isTLabel, isLabel]

theorem emitJs_frames (st : Option JsName) (infos : List Info) (h : ∀ i ∈ infos, plainFrame i.frame = true) :
    ∀ f ∈ emitJs st infos, isElided f = false ∧ isTLabel f = false := by
  induction infos generalizing st with
  | nil => intro f hf; cases hf
  | cons i rest ih =>
    intro f hf
    unfold emitJs at hf
    rcases List.mem_append.mp hf with hf | hf
    · unfold framesOf at hf
      have hp := plain_not_special (h i List.mem_cons_self)
      split at hf
      · simp only [List.mem_cons, List.mem_nil_iff, or_false] at hf
        rcases hf with rfl | rfl
        · exact ⟨rfl, rfl⟩
        · exact ⟨hp.1, hp.2.1⟩
      · simp only [List.mem_singleton] at hf
        rw [hf]; exact ⟨hp.1, hp.2.1⟩
    · exact ih _ (fun x hx => h x (List.mem_cons_of_mem _ hx)) f hf

/-- no placeholder (and no thread label other than the extra first frame) among the frames `convert_stack` yields -/
theorem convertStackX_frames (extra : Option Frame) (maps pm : List MapAdd) (stack : List SFrame)
    (he : ∀ f ∈ extra.toList, isElided f = false) :
    ∀ f ∈ convertStackX extra maps pm stack, isElided f = false := by
  intro f hf
  unfold convertStackX at hf
  rcases List.mem_append.mp hf with hf | hf
  · exact he f hf
  · refine (emitJs_frames none _ ?_ f hf).1
    intro i hi
    obtain ⟨x, _, rfl⟩ := List.mem_map.mp hi
    exact secondPass_plain maps pm x

theorem expandJsFrom_frames (before infos : List Info) (h : ∀ i ∈ infos, plainFrame i.frame = true) :
    (∀ f ∈ expandJsFrom before infos, isElided f = false ∧ isTLabel f = false) ∧
    ((expandJsFrom before infos).any isLabel = false → (expandJsFrom before infos).length = infos.length) := by
  induction infos generalizing before with
  | nil => exact ⟨fun f hf => (by cases hf), fun _ => rfl⟩
  | cons i rest ih =>
    have hp := plain_not_special (h i List.mem_cons_self)
    obtain ⟨ih1, ih2⟩ := ih (i :: before) (fun x hx => h x (List.mem_cons_of_mem _ hx))
    unfold expandJsFrom
    cases hl : labelOf before i with
    | none =>
      simp only
      refine ⟨?_, ?_⟩
      · intro f hf
        rcases List.mem_append.mp hf with hf | hf
        · simp only [List.mem_singleton] at hf; rw [hf]; exact ⟨hp.1, hp.2.1⟩
        · exact ih1 f hf
      · intro hany
        simp only [List.cons_append, List.nil_append, List.any_cons, Bool.or_eq_false_iff] at hany
        simp only [List.cons_append, List.nil_append, List.length_cons, ih2 hany.2]
    | some s =>
      simp only
      refine ⟨?_, ?_⟩
      · intro f hf
        rcases List.mem_append.mp hf with hf | hf
        · simp only [List.mem_cons, List.mem_nil_iff, or_false] at hf
          rcases hf with rfl | rfl
          · exact ⟨rfl, rfl⟩
          · exact ⟨hp.1, hp.2.1⟩
        · exact ih1 f hf
      · intro hany
        simp [isLabel] at hany

theorem callDepth_eq_length (L : List Frame) (h : ∀ f ∈ L, isTLabel f = false) : callDepth L = L.length := by
  unfold callDepth
  rw [List.filter_eq_self.mpr]
  intro f hf
  simp [h f hf]

/-- every expected sample is the label expansion of as many attributed frames as were recorded -/
theorem expectedSamples_go_shape (cfg : Config) (rs : List Rec) :
    ∀ (st stL : List (Nat × Announced)) (mx : List (Nat × Nat)) (last : Last),
      ∀ e ∈ expectedSamples.go cfg st stL mx last rs,
        ∃ infos : List Info, e.frames = expandJs infos ∧ e.nrec = infos.length ∧
          ∀ i ∈ infos, plainFrame i.frame = true := by
  induction rs with
  | nil => intro st stL mx last e he; simp [expectedSamples.go] at he
  | cons r rest ih =>
    intro st stL mx last e he
    unfold expectedSamples.go at he
    dsimp only at he
    split at he
    · rcases List.mem_cons.mp he with rfl | he
      · refine ⟨_, rfl, by simp, ?_⟩
        intro i hi
        obtain ⟨x, _, rfl⟩ := List.mem_map.mp hi
        exact expectInfo_plain _ _ _ x
      · exact ih _ _ _ _ e he
    · exact ih _ _ _ _ e he

/-! ### without special-path records the legacy reading `legacySp` is the statement's reading -/

theorem annStepX_noSpecial (cfg : Config) (st : List (Nat × Announced)) (r : Rec) (h : noSpecial [r] = true) :
    annStepX true cfg st r = annStepX false cfg st r := by
  cases r with
  | mmap2 pid tid addr len pgoff exec path t =>
    cases exec with
    | false => rfl
    | true =>
      have hsp : specialPath path = false := by simpa [noSpecial] using h
      simp [annStepX, hsp]
  | comm pid tid nm ex t => cases ex <;> rfl
  | _ => rfl

theorem laterAnn_noSpecial (cfg : Config) (pid : Nat) (cut : Option Nat) (rest : List Rec)
    (h : noSpecial rest = true) : laterAnn true cfg pid cut rest = laterAnn false cfg pid cut rest := by
  induction rest with
  | nil => rfl
  | cons r rest ih =>
    have h1 : noSpecial [r] = true := by
      simp only [noSpecial, List.all_cons, Bool.and_eq_true] at h ⊢
      exact ⟨h.1, by simp⟩
    have h2 : noSpecial rest = true := by
      simp only [noSpecial, List.all_cons, Bool.and_eq_true] at h ⊢
      exact h.2
    have ih' := ih h2
    cases r with
    | mmap2 p td addr len pgoff exec path t' =>
      cases exec with
      | false => simpa [laterAnn] using ih'
      | true =>
        have hsp : specialPath path = false := by simpa [noSpecial] using h1
        simp only [laterAnn, hsp, Bool.and_false, Bool.not_false, Bool.and_true, ih']
    | exit p td t' => simp only [laterAnn, ih']
    | comm p td nm ex t' =>
      cases ex with
      | false => simpa [laterAnn] using ih'
      | true => simp only [laterAnn, ih']
    | sample => simpa [laterAnn] using ih'
    | fork => simpa [laterAnn] using ih'
    | switchIn => simpa [laterAnn] using ih'
    | switchOut => simpa [laterAnn] using ih'
    | sched => simpa [laterAnn] using ih'
    | otherEvent => simpa [laterAnn] using ih'

theorem expectedSamples_go_legacySp (cfg : Config) (rs : List Rec) (h : noSpecial rs = true) :
    ∀ (st : List (Nat × Announced)) (mx : List (Nat × Nat)) (last : Last),
      ∀ e ∈ expectedSamples.go cfg st st mx last rs, e.legacySp = e.frames := by
  induction rs with
  | nil => intro st mx last e he; simp [expectedSamples.go] at he
  | cons r rest ih =>
    intro st mx last e he
    have h1 : noSpecial [r] = true := by
      simp only [noSpecial, List.all_cons, Bool.and_eq_true] at h ⊢
      exact ⟨h.1, by simp⟩
    have h2 : noSpecial rest = true := by
      simp only [noSpecial, List.all_cons, Bool.and_eq_true] at h ⊢
      exact h.2
    unfold expectedSamples.go at he
    dsimp only at he
    rw [annStepX_noSpecial cfg st r h1] at he
    split at he
    · rcases List.mem_cons.mp he with rfl | he
      · simp only [laterAnn_noSpecial cfg _ _ rest h2]
      · exact ih h2 _ _ _ e he
    · exact ih h2 _ _ _ e he

end Conv
