import SamplyModel.Lemmas.PanicKernels
import SamplyModel.Model.AsmDecode
import SamplyModel.Model.LineBuffer
import SamplyModel.Model.BreakpadIndex
/-!
Bridges from the panic kernels of C08 (`PK.*`, explicit `panic` outcomes at every checked operation) to the
models that other properties tie to the code value-for-value:

* `Asm.*` (`Model/AsmDecode.lean`, driven by C20's harness): request arithmetic and the decode loop;
* `LB.*` (`Model/LineBuffer.lean`, driven by C10's harness): the line buffer.

Only the top-level model functions are used (`Asm.alignStart`, `Asm.disasmLen`, `Asm.readSize`, `Asm.fnEnd`,
`Asm.loop`, `Asm.decode`, `LB.consume`, `LB.consumeAll`, `LB.finish`, `LB.consumeSafe`); every lemma needed
about them is proved here.
-/
namespace C08T
open PK

/-- `PK.Arch` of an architecture of the `/asm/v1` model -/
def archOf : Asm.Arch → Arch
  | .a64 => .arm64
  | .arm => .arm
  | _ => .other

theorem relAddress_eq (a : Asm.Arch) (start : Nat) : relAddress (archOf a) start = Asm.alignStart a start := by
  cases a <;> simp [relAddress, archOf, Asm.alignStart, Asm.Arch.align, Nat.mod_one]

theorem asmDisassemblyLen_eq (start size : Nat) (cont : Bool) (fe : Option Nat) :
    asmDisassemblyLen start size cont fe = .ok (Asm.disasmLen start size cont fe) := by
  unfold asmDisassemblyLen Asm.disasmLen
  cases cont with
  | false => rfl
  | true =>
    cases fe with
    | none => rfl
    | some e =>
      simp only [if_true, ge_iff_le]
      by_cases h : start ≤ e
      · simp only [h, if_true, subU32, bind, Res.bind, pure]
        by_cases h2 : e - start > size <;> simp [h2]
      · simp [h, pure]

theorem saturating_eq (len : Nat) : saturatingAddU32 len 15 = Asm.readSize len := by
  unfold saturatingAddU32 Asm.readSize u32Max Asm.u32max
  split <;> omega

theorem asmPlan_eq (a : Asm.Arch) (start size : Nat) (cont : Bool) (fe : Option Nat) :
    asmPlan (archOf a) start size cont fe =
      .ok ⟨Asm.alignStart a start, Asm.disasmLen start size cont fe,
           Asm.readSize (Asm.disasmLen start size cont fe)⟩ := by
  simp [asmPlan, asmDisassemblyLen_eq, bind, Res.bind, pure, relAddress_eq, saturating_eq]

theorem functionEnd_eq (addr : Nat) (size : Option Nat) :
    functionEnd addr size = Asm.fnEnd (some ⟨addr, size⟩) := by
  cases size with
  | none => rfl
  | some sz =>
    simp only [functionEnd, Asm.fnEnd, checkedAddU32, u32Max, Asm.u32max]
    by_cases h : addr + sz ≤ 4294967295 <;> simp [h]

/-! ### the decode loop of the tied model: total, in range -/

theorem cons_done (it : Asm.Item) (r : Asm.LoopRes) (items : List Asm.Item) (f : Nat)
    (h : r = .done items f) : r.cons it = .done (it :: items) f := by
  subst h; rfl

/-- from any offset inside the slice and with enough fuel the loop ends with `done`; the final offset is at
most `ADJUST` past the slice, and at most one instruction past the decode length -/
theorem loop_done (adjust decodeLen bytesLen : Nat) (dec : Nat → Asm.Dec)
    (hor : Asm.OracleOK bytesLen dec) (hadj : 1 ≤ adjust) (hlen : bytesLen + adjust ≤ Asm.u32max)
    (fuel offset : Nat) (hoff : offset ≤ bytesLen) (hfuel : decodeLen - offset < fuel) :
    ∃ items f, Asm.loop adjust decodeLen bytesLen dec fuel offset = .done items f ∧
      f ≤ bytesLen + adjust ∧ offset ≤ f := by
  induction fuel generalizing offset with
  | zero => omega
  | succ fuel ih =>
    unfold Asm.loop
    by_cases h1 : decodeLen ≤ offset
    · exact ⟨[], offset, by simp [h1], by omega, Nat.le_refl _⟩
    · simp only [h1, if_false]
      cases hd : dec offset with
      | ok len =>
        obtain ⟨hl1, hl2⟩ := hor offset len hd
        have h2 : ¬ offset + len > Asm.u32max := by omega
        simp only [h2, if_false]
        obtain ⟨items, f, hi, hf, ho⟩ := ih (offset + len) hl2 (by omega)
        exact ⟨_, f, cons_done _ _ _ _ hi, hf, by omega⟩
      | exhausted => exact ⟨[], offset, rfl, by omega, Nat.le_refl _⟩
      | invalid =>
        have h2 : ¬ offset > bytesLen := by omega
        have h3 : ¬ offset + adjust > Asm.u32max := by omega
        simp only [h2, h3, if_false]
        by_cases h4 : offset + adjust > bytesLen
        · simp only [h4, if_true]
          exact ⟨_, _, rfl, by omega, by omega⟩
        · simp only [h4, if_false]
          obtain ⟨items, f, hi, hf, ho⟩ := ih (offset + adjust) (by omega) (by omega)
          exact ⟨_, f, cons_done _ _ _ _ hi, hf, by omega⟩

/-! ### the line buffer of the tied model never trips its `assert!` / subtraction -/

theorem consume_inv (st : LB.St) (chunk : List UInt8) (h : LB.Inv st) : LB.Inv (LB.consume st chunk).1 := by
  fun_induction LB.consume st chunk with
  | case1 st chunk hs =>
    simp only [LB.Inv, List.length_append]
    have : st.leftover.length ≤ st.off := h
    omega
  | case2 st chunk l r hs line start hls st' st'' log hc ih =>
    simp only
    rw [hc] at ih
    exact ih (by simp [LB.Inv, st'])

theorem consumeAll_inv (st : LB.St) (chunks : List (List UInt8)) (h : LB.Inv st) :
    LB.Inv (LB.consumeAll st chunks).1 := by
  induction chunks generalizing st with
  | nil => simpa [LB.consumeAll]
  | cons c cs ih =>
    simp only [LB.consumeAll]
    exact ih _ (consume_inv st c h)

theorem finish_isSome (st : LB.St) (h : LB.Inv st) : (LB.finish st).isSome = true := by
  unfold LB.finish
  have : st.leftover.length ≤ st.off := h
  split
  · rfl
  · simp [this]

end C08T

/-! ### the fine-grained decode loop of `PK` (reader positions, `as u32` casts) is the tied loop -/
namespace C08T
open PK

def convDec : PK.Dec → Asm.Dec
  | .ok n => .ok n
  | .exhausted => .exhausted
  | .invalid => .invalid

/-- forget the listing, keep the reported size -/
def toPK : Asm.LoopRes → PK.LoopRes
  | .done _ f => .done f
  | .panic => .panic
  | .nofuel => .stuck

theorem toPK_cons (it : Asm.Item) (r : Asm.LoopRes) : toPK (r.cons it) = toPK r := by
  cases r <;> rfl

theorem decodeLoop_eq_tied (dec : List UInt8 → PK.Dec) (adjust : Nat) (bytes : List UInt8) (decodeLen : Nat)
    (hok : ∀ s n, dec s = .ok n → 1 ≤ n ∧ n ≤ s.length) (ha : 1 ≤ adjust) (hb : bytes.length ≤ u32Max)
    (offset base pos : Nat) (h1 : offset = base + pos) (h2 : base + pos ≤ bytes.length)
    (fuel : Nat) (hf : decodeLen - offset < fuel) :
    decodeLoop dec adjust bytes decodeLen offset base pos =
      toPK (Asm.loop adjust decodeLen bytes.length (fun p => convDec (dec (bytes.drop p))) fuel offset) := by
  have hb' : bytes.length ≤ 4294967295 := hb
  fun_induction decodeLoop dec adjust bytes decodeLen offset base pos generalizing fuel with
  | case1 offset base pos h =>
    cases fuel with
    | zero => omega
    | succ fuel => unfold Asm.loop; simp [h, toPK]
  | case2 offset base pos h before n hdec after hlt =>
    exfalso
    have hk := (hok _ _ hdec).2
    simp only [List.length_drop] at hk
    have hm := mod_facts pos n bytes.length (by omega) hb'
    simp only [before, after, two32, hm.1, hm.2] at hlt
    omega
  | case3 offset base pos h before n hdec after hlt delta hd =>
    exfalso
    have hk := hok _ _ hdec
    simp only [List.length_drop] at hk
    have hm := mod_facts pos n bytes.length (by omega) hb'
    simp only [delta, before, after, two32, hm.1, hm.2] at hd
    omega
  | case4 offset base pos h before n hdec after hlt delta hd hov =>
    exfalso
    have hk := hok _ _ hdec
    simp only [List.length_drop] at hk
    have hm := mod_facts pos n bytes.length (by omega) hb'
    simp only [delta, before, after, two32, hm.1, hm.2, u32Max] at hov
    omega
  | case5 offset base pos h before n hdec after hlt delta hd hov ih =>
    have hk := hok _ _ hdec
    simp only [List.length_drop] at hk
    have hm := mod_facts pos n bytes.length (by omega) hb'
    have hdl : delta = n := by simp only [delta, before, after, two32, hm.1, hm.2]; omega
    cases fuel with
    | zero => omega
    | succ fuel =>
      have hih := ih (by rw [hdl]; omega) (by omega) fuel (by rw [hdl]; omega)
      rw [hih]
      conv => rhs; unfold Asm.loop
      have hnot : ¬ decodeLen ≤ offset := by omega
      have hd' : dec (List.drop offset bytes) = .ok n := by rw [h1]; exact hdec
      have hnp : ¬ offset + n > Asm.u32max := by simp only [Asm.u32max]; omega
      simp only [hnot, if_false, hd', convDec, hnp, toPK_cons, hdl]
  | case6 offset base pos h hdec =>
    cases fuel with
    | zero => omega
    | succ fuel =>
      unfold Asm.loop
      have hnot : ¬ decodeLen ≤ offset := by omega
      have hd' : dec (List.drop offset bytes) = .exhausted := by rw [h1]; exact hdec
      simp [hnot, hd', convDec, toPK]
  | case7 offset base pos h hdec hgt => exfalso; omega
  | case8 offset base pos h hdec hgt ha0 => exfalso; omega
  | case9 offset base pos h hdec hgt ha0 hov =>
    cases fuel with
    | zero => omega
    | succ fuel =>
      unfold Asm.loop
      have hnot : ¬ decodeLen ≤ offset := by omega
      have hd' : dec (List.drop offset bytes) = .invalid := by rw [h1]; exact hdec
      have h3 : ¬ offset > bytes.length := by omega
      have h4 : offset + adjust > Asm.u32max := by simpa [u32Max, Asm.u32max] using hov
      simp [hnot, hd', convDec, h3, h4, toPK]
  | case10 offset base pos h hdec hgt ha0 hov hend =>
    cases fuel with
    | zero => omega
    | succ fuel =>
      unfold Asm.loop
      have hnot : ¬ decodeLen ≤ offset := by omega
      have hd' : dec (List.drop offset bytes) = .invalid := by rw [h1]; exact hdec
      have h3 : ¬ offset > bytes.length := by omega
      have h4 : ¬ offset + adjust > Asm.u32max := by simpa [u32Max, Asm.u32max] using hov
      simp [hnot, hd', convDec, h3, h4, hend, toPK]
  | case11 offset base pos h hdec hgt ha0 hov hend ih =>
    cases fuel with
    | zero => omega
    | succ fuel =>
      have hih := ih (by omega) (by omega) fuel (by omega)
      rw [hih]
      conv => rhs; unfold Asm.loop
      have hnot : ¬ decodeLen ≤ offset := by omega
      have hd' : dec (List.drop offset bytes) = .invalid := by rw [h1]; exact hdec
      have h3 : ¬ offset > bytes.length := by omega
      have h4 : ¬ offset + adjust > Asm.u32max := by simpa [u32Max, Asm.u32max] using hov
      simp only [hnot, if_false, hd', convDec, h3, h4, hend, toPK_cons]

end C08T

/-! ### the `u32` layout arithmetic of `serialize_to_bytes`: exactly the total length of the tied model -/
namespace C08T
open PK

/-- every `u32` step of index.rs:166-182 succeeds as soon as the total fits, and the result is the total -/
theorem symindexLayout_exact (m f i s : Nat)
    (hfit : 48 + m + ((m + 3) / 4 * 4 - m) + f * 16 + i * 16 + s * 4 + s * 16 ≤ u32Max) :
    symindexLayout m f i s = .ok (48 + m + ((m + 3) / 4 * 4 - m) + f * 16 + i * 16 + s * 4 + s * 16) := by
  simp only [u32Max] at hfit
  unfold symindexLayout
  have h1 : m + 4 ≤ u32Max := by simp only [u32Max]; omega
  simp only [addU32, h1, if_true, bind_ok, subU32, mulU32]
  have h2 : 1 ≤ m + 4 := by omega
  simp only [h2, if_true, bind_ok]
  have e : m + 4 - 1 = m + 3 := by omega
  simp only [e]
  have h3 : (m + 3) / 4 * 4 ≤ u32Max := by simp only [u32Max]; omega
  simp only [h3, if_true, bind_ok]
  have h4 : m ≤ (m + 3) / 4 * 4 := by omega
  simp only [h4, if_true, bind_ok]
  have h5 : 48 + m ≤ u32Max := by simp only [u32Max]; omega
  simp only [h5, if_true, bind_ok]
  have h6 : 48 + m + ((m + 3) / 4 * 4 - m) ≤ u32Max := by simp only [u32Max]; omega
  simp only [h6, if_true, bind_ok]
  have h7 : f * 16 ≤ u32Max := by simp only [u32Max]; omega
  simp only [h7, if_true, bind_ok]
  have h8 : 48 + m + ((m + 3) / 4 * 4 - m) + f * 16 ≤ u32Max := by simp only [u32Max]; omega
  simp only [h8, if_true, bind_ok]
  have h9 : i * 16 ≤ u32Max := by simp only [u32Max]; omega
  simp only [h9, if_true, bind_ok]
  have h10 : 48 + m + ((m + 3) / 4 * 4 - m) + f * 16 + i * 16 ≤ u32Max := by simp only [u32Max]; omega
  simp only [h10, if_true, bind_ok]
  have h11 : s * 4 ≤ u32Max := by simp only [u32Max]; omega
  simp only [h11, if_true, bind_ok]
  have h12 : 48 + m + ((m + 3) / 4 * 4 - m) + f * 16 + i * 16 + s * 4 ≤ u32Max := by simp only [u32Max]; omega
  simp only [h12, if_true, bind_ok]
  have h13 : s * 16 ≤ u32Max := by simp only [u32Max]; omega
  simp only [h13, if_true, bind_ok]
  have h14 : 48 + m + ((m + 3) / 4 * 4 - m) + f * 16 + i * 16 + s * 4 + s * 16 ≤ u32Max := by simp only [u32Max]; omega
  simp only [h14, if_true]

theorem totalLen_eq (ix : BP.Index) :
    BP.totalLen ix = 48 + ix.moduleInfo.length + ((ix.moduleInfo.length + 3) / 4 * 4 - ix.moduleInfo.length)
      + ix.files.length * 16 + ix.origins.length * 16 + ix.addrs.length * 4 + ix.addrs.length * 16 := by
  simp [BP.totalLen, BP.layout, BP.padLen]

/-- conversely: when the total does not fit in `u32`, one of the steps overflows -/
theorem symindexLayout_panic (m f i s : Nat)
    (hbig : ¬ 48 + m + ((m + 3) / 4 * 4 - m) + f * 16 + i * 16 + s * 4 + s * 16 ≤ u32Max) :
    symindexLayout m f i s = .panic := by
  simp only [u32Max] at hbig
  unfold symindexLayout
  simp only [addU32, subU32, mulU32, u32Max]
  by_cases h1 : m + 4 ≤ 4294967295
  · have h2 : 1 ≤ m + 4 := by omega
    have e : m + 4 - 1 = m + 3 := by omega
    have h3 : (m + 3) / 4 * 4 ≤ 4294967295 := by omega
    have h4 : m ≤ (m + 3) / 4 * 4 := by omega
    simp only [h1, if_true, bind_ok, h2, e, h3, h4]
    by_cases h5 : 48 + m ≤ 4294967295
    case neg => simp only [h5, if_false]; rfl
    simp only [h5, if_true, bind_ok]
    by_cases h6 : 48 + m + ((m + 3) / 4 * 4 - m) ≤ 4294967295
    · simp only [h6, if_true, bind_ok]
      by_cases h7 : f * 16 ≤ 4294967295
      · simp only [h7, if_true, bind_ok]
        by_cases h8 : 48 + m + ((m + 3) / 4 * 4 - m) + f * 16 ≤ 4294967295
        · simp only [h8, if_true, bind_ok]
          by_cases h9 : i * 16 ≤ 4294967295
          · simp only [h9, if_true, bind_ok]
            by_cases h10 : 48 + m + ((m + 3) / 4 * 4 - m) + f * 16 + i * 16 ≤ 4294967295
            · simp only [h10, if_true, bind_ok]
              by_cases h11 : s * 4 ≤ 4294967295
              · simp only [h11, if_true, bind_ok]
                by_cases h12 : 48 + m + ((m + 3) / 4 * 4 - m) + f * 16 + i * 16 + s * 4 ≤ 4294967295
                · simp only [h12, if_true, bind_ok]
                  by_cases h13 : s * 16 ≤ 4294967295
                  · simp only [h13, if_true, bind_ok]
                    have h14 : ¬ 48 + m + ((m + 3) / 4 * 4 - m) + f * 16 + i * 16 + s * 4 + s * 16 ≤ 4294967295 := hbig
                    simp only [h14, if_false]
                  · simp only [h13, if_false]; rfl
                · simp only [h12, if_false]; rfl
              · simp only [h11, if_false]; rfl
            · simp only [h10, if_false]; rfl
          · simp only [h9, if_false]; rfl
        · simp only [h8, if_false]; rfl
      · simp only [h7, if_false]; rfl
    · simp only [h6, if_false]; rfl
  · simp only [h1, if_false]; rfl

end C08T

/-! ### the whole `/asm/v1` request on the tied model -/
namespace C08T

theorem readRange_ne_panic (img : Asm.Image) (rel size : Nat) : Asm.readRange img rel size ≠ .panic := by
  unfold Asm.readRange
  simp only
  split
  · simp
  · split
    · simp
    · split
      · simp
      · split <;> simp

theorem adjust_bounds (a : Asm.Arch) : 1 ≤ a.adjust ∧ a.adjust ≤ 4 := by
  cases a <;> simp [Asm.Arch.adjust]

theorem query_total (arch : Asm.Arch) (img : Asm.Image) (sym : Option Asm.Sym) (req : Asm.Req) (dec : Nat → Asm.Dec)
    (hor : ∀ fo n, (Asm.plan arch img sym req).2.2 = .ok fo n → Asm.OracleOK n dec ∧ n + 4 ≤ Asm.u32max) :
    Asm.query arch img sym req dec ≠ .panic ∧ Asm.query arch img sym req dec ≠ .nofuel := by
  unfold Asm.query
  have hrd := readRange_ne_panic img (Asm.plan arch img sym req).2.1
    (Asm.readSize (Asm.plan arch img sym req).1)
  cases hp : (Asm.plan arch img sym req).2.2 with
  | panic =>
    exfalso
    apply hrd
    simpa [Asm.plan] using hp
  | notFound => simp [hp]
  | range => simp [hp]
  | parse => simp [hp]
  | ok fo n =>
    obtain ⟨ho, hn⟩ := hor fo n hp
    simp only [hp]
    split
    · simp
    · have hb := adjust_bounds arch
      obtain ⟨items, f, hd, _⟩ := loop_done arch.adjust (Asm.plan arch img sym req).1 n dec ho hb.1
        (by omega) ((Asm.plan arch img sym req).1 + 1) 0 (Nat.zero_le _) (by omega)
      unfold Asm.decode
      rw [hd]
      simp

end C08T
