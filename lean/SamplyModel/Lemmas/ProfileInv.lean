import SamplyModel.Lemmas.ProfileMarkers
import SamplyModel.Model.ProfileAccepted
/-!
The table invariant `TInv : P → Prop` of C03 ("all stored indices are below the current table
lengths, parallel columns have equal length, the marker value vectors are split exactly by the rows")
and its preservation by every operation: `TInv P.init`, `TInv p → handlesValid p op → TInv (step p op).1`.
-/
namespace PT

/-! ### global bounds a thread's tables refer to -/

structure GB where
  nLibs : Nat
  subc : Nat → Nat
  nCats : Nat
  schemas : List Schema
  nG : Nat
  nProcs : Nat

def subCount (cats : List Cat) (c : Nat) : Nat := ((cats[c]?).map (·.subs.length)).getD 0

def P.gb (p : P) : GB :=
  ⟨p.libs.used.length, subCount p.cats, p.cats.length, p.schemas, p.gstrings.strings.length,
   p.processes.length⟩

def GB.le (a b : GB) : Prop :=
  a.nLibs ≤ b.nLibs ∧ (∀ c, a.subc c ≤ b.subc c) ∧ a.nCats ≤ b.nCats ∧
  (∀ (ty : Nat) (sc : Schema), a.schemas[ty]? = some sc → b.schemas[ty]? = some sc) ∧
  a.nG ≤ b.nG ∧ a.nProcs ≤ b.nProcs

theorem GB.le_refl (a : GB) : GB.le a a :=
  ⟨Nat.le_refl _, fun _ => Nat.le_refl _, Nat.le_refl _, fun _ _ h => h, Nat.le_refl _, Nat.le_refl _⟩

theorem GB.le_trans {a b c : GB} (h1 : GB.le a b) (h2 : GB.le b c) : GB.le a c :=
  ⟨Nat.le_trans h1.1 h2.1, fun x => Nat.le_trans (h1.2.1 x) (h2.2.1 x), Nat.le_trans h1.2.2.1 h2.2.2.1,
   fun ty sc h => h2.2.2.2.1 ty sc (h1.2.2.2.1 ty sc h), Nat.le_trans h1.2.2.2.2.1 h2.2.2.2.2.1,
   Nat.le_trans h1.2.2.2.2.2 h2.2.2.2.2.2⟩

/-! ### per-thread invariant -/

def ThreadInv (g : GB) (t : Thread) : Prop :=
  TSInv t.strings ∧
  FrameInv t.strings.n g.nLibs t.nsyms.names.length g.subc t.frames ∧
  NsInv t.strings.n g.nLibs t.nsyms ∧
  StInv t.frames.keys.length t.stacks ∧
  OptBelow t.samples t.stacks.prefixes.length ∧
  (∀ s, t.lastStack = some s → s < t.stacks.prefixes.length) ∧
  (t.lastZeroCpu = true → t.samples ≠ []) ∧
  MkInv t.strings.n t.stacks.prefixes.length g.nCats g.schemas g.nG t.markers ∧
  t.process < g.nProcs ∧
  -- allocation samples (stored on the process's first thread) refer to this thread's stack table
  (∀ st, t.allocs = some st → OptBelow st t.stacks.prefixes.length)

theorem ThreadInv.mono {g g' : GB} {t : Thread} (h : ThreadInv g t) (hg : GB.le g g') : ThreadInv g' t := by
  obtain ⟨a1, a2, a3, a4, a5, a6, a7, a8, a9, a10⟩ := h
  obtain ⟨b1, b2, b3, b4, b5, b6⟩ := hg
  exact ⟨a1, a2.mono (Nat.le_refl _) b1 (Nat.le_refl _) b2, a3.mono (Nat.le_refl _) b1, a4, a5, a6, a7,
    a8.mono (Nat.le_refl _) (Nat.le_refl _) b3 b4 b5, Nat.lt_of_lt_of_le a9 b6, a10⟩

/-- new string / native-symbol / frame tables on a thread, everything only grown -/
theorem ThreadInv.update {g : GB} {th : Thread} (h : ThreadInv g th) (st' : ThreadStrings)
    (ft' : FrameTable) (ns' : NativeSymbols) (hs : TSInv st') (hn : th.strings.n ≤ st'.n)
    (hns : NsInv st'.n g.nLibs ns')
    (hf : FrameInv st'.n g.nLibs ns'.names.length g.subc ft')
    (hfl : th.frames.keys.length ≤ ft'.keys.length) :
    ThreadInv g { th with strings := st', frames := ft', nsyms := ns' } := by
  obtain ⟨a1, a2, a3, a4, a5, a6, a7, a8, a9, a10⟩ := h
  exact ⟨hs, hf, hns, a4.mono hfl, a5, a6, a7,
    a8.mono hn (Nat.le_refl _) (Nat.le_refl _) (fun _ _ h => h) (Nat.le_refl _), a9, a10⟩

/-! ### profile invariant -/

structure TInv (p : P) : Prop where
  libs : LibsInv p.libs
  gstr : StrInv p.gstrings
  threads : ∀ t ∈ p.threads, ThreadInv p.gb t
  subsPos : ∀ c, c < p.cats.length → 0 < subCount p.cats c
  catsPos : 0 < p.cats.length
  schemaCats : ∀ sc ∈ p.schemas, sc.cat < p.cats.length
  statics : MapBelow p.staticTypes p.schemas.length
  maps : ∀ pr ∈ p.processes, ∀ m ∈ pr.maps, m.lib < p.libs.all.length
  /-- a counter's process exists and the pid recorded in the counter (counters.rs stores the pid string
  at creation) is that process's pid -/
  counters : ∀ c ∈ p.counters, ∃ pr, p.processes[c.process]? = some pr ∧ pr.pid = c.pid
  visible : AllBelow p.visible p.threads.length
  selected : AllBelow p.selected p.threads.length
  kmaps : ∀ m ∈ p.kmaps, m.lib < p.libs.all.length

theorem TInv.counters_lt {p : P} (h : TInv p) (c : Counter) (hc : c ∈ p.counters) :
    c.process < p.processes.length := by
  obtain ⟨pr, hpr, _⟩ := h.counters c hc
  exact (List.getElem?_eq_some_iff.mp hpr).1

/-- replacing a process by one with the same pid keeps the counter clause -/
theorem counters_set {procs : List Process} {cs : List Counter} {i : Nat} {old new : Process}
    (h : ∀ c ∈ cs, ∃ pr, procs[c.process]? = some pr ∧ pr.pid = c.pid)
    (ho : procs[i]? = some old) (hp : new.pid = old.pid) :
    ∀ c ∈ cs, ∃ pr, (procs.set i new)[c.process]? = some pr ∧ pr.pid = c.pid := by
  intro c hc
  obtain ⟨pr, hpr, hpid⟩ := h c hc
  by_cases he : i = c.process
  · subst he
    rw [ho] at hpr
    cases hpr
    exact ⟨new, by simp [List.getElem?_set, (List.getElem?_eq_some_iff.mp ho).1], hp.trans hpid⟩
  · exact ⟨pr, by rw [List.getElem?_set_ne he]; exact hpr, hpid⟩

theorem TInv.init : TInv P.init where
  libs := ⟨fun _ hx => (nomatch hx), fun _ hx => (nomatch hx), fun _ hx => (nomatch hx),
    by intro i h hi; simp [P.init] at hi⟩
  gstr := ⟨fun _ hx => (nomatch hx), fun _ hx => (nomatch hx)⟩
  threads := fun _ hx => nomatch hx
  subsPos := by
    intro c hc
    have : c = 0 := by simp [P.init] at hc; omega
    subst this
    decide
  catsPos := by decide
  schemaCats := fun _ hx => nomatch hx
  statics := fun _ hx => nomatch hx
  maps := fun _ hx => nomatch hx
  counters := fun _ hx => nomatch hx
  visible := fun _ hx => nomatch hx
  selected := fun _ hx => nomatch hx
  kmaps := fun _ hx => nomatch hx

theorem TInv.thread {p : P} (h : TInv p) {t : Nat} {th : Thread} (ht : p.threads[t]? = some th) :
    ThreadInv p.gb th := h.threads th (List.mem_of_getElem? ht)

theorem ThreadInv.withProcess {g : GB} {th old : Thread} (h : ThreadInv g th) (ho : ThreadInv g old) :
    ThreadInv g { th with process := old.process, tid := old.tid } := by
  obtain ⟨a1, a2, a3, a4, a5, a6, a7, a8, _, a10⟩ := h
  exact ⟨a1, a2, a3, a4, a5, a6, a7, a8, ho.2.2.2.2.2.2.2.2.1, a10⟩

theorem List.mem_modify {α : Type} (l : List α) (i : Nat) (f : α → α) (x : α) (h : x ∈ l.modify i f) :
    x ∈ l ∨ ∃ y ∈ l, x = f y := by
  induction l generalizing i with
  | nil => simp at h
  | cons a as ih =>
    cases i with
    | zero =>
      simp only [List.modify_zero_cons, List.mem_cons] at h
      rcases h with rfl | h
      · exact Or.inr ⟨a, List.mem_cons_self, rfl⟩
      · exact Or.inl (List.mem_cons_of_mem _ h)
    | succ i =>
      simp only [List.modify_succ_cons, List.mem_cons] at h
      rcases h with rfl | h
      · exact Or.inl List.mem_cons_self
      · rcases ih i h with h | ⟨y, hy, rfl⟩
        · exact Or.inl (List.mem_cons_of_mem _ h)
        · exact Or.inr ⟨y, List.mem_cons_of_mem _ hy, rfl⟩

/-- replacing one thread by a thread that satisfies the thread invariant -/
theorem TInv.setThread {p : P} (h : TInv p) (t : Nat) (th' : Thread) (h' : ThreadInv p.gb th') :
    TInv (p.setThread t th') := by
  refine ⟨h.libs, h.gstr, ?_, h.subsPos, h.catsPos, h.schemaCats, h.statics, h.maps, h.counters, ?_, ?_, h.kmaps⟩
  · intro x hx
    rcases List.mem_modify _ _ _ _ hx with hx | ⟨y, hy, rfl⟩
    · exact h.threads x hx
    · exact h'.withProcess (h.threads y hy)
  · simpa [P.setThread] using h.visible
  · simpa [P.setThread] using h.selected

/-- a state whose global tables have only grown and whose thread / process / reference lists are
unchanged -/
theorem TInv.grow {p p' : P} (h : TInv p) (hl : LibsInv p'.libs) (hall : p.libs.all.length ≤ p'.libs.all.length)
    (hg : StrInv p'.gstrings) (hle : GB.le p.gb p'.gb) (hth : p'.threads = p.threads)
    (hsub : ∀ c, c < p'.cats.length → 0 < subCount p'.cats c)
    (hsc : ∀ sc ∈ p'.schemas, sc.cat < p'.cats.length) (hst : MapBelow p'.staticTypes p'.schemas.length)
    (hpr : p'.processes = p.processes) (hc : p'.counters = p.counters) (hv : p'.visible = p.visible)
    (hs : p'.selected = p.selected) (hkm : p'.kmaps = p.kmaps := by rfl) : TInv p' := by
  refine ⟨hl, hg, ?_, hsub, Nat.lt_of_lt_of_le h.catsPos hle.2.2.1, hsc, hst, ?_, ?_, ?_, ?_,
    fun m hm => Nat.lt_of_lt_of_le (h.kmaps m (hkm ▸ hm)) hall⟩
  · intro t ht; rw [hth] at ht; exact (h.threads t ht).mono hle
  · intro pr hpr' m hm; rw [hpr] at hpr'; exact Nat.lt_of_lt_of_le (h.maps pr hpr' m hm) hall
  · rw [hc, hpr]; exact h.counters
  · rw [hv, hth]; exact h.visible
  · rw [hs, hth]; exact h.selected

end PT
