import SamplyModel.Model.Symbolicate
import SamplyModel.Props.C05
/-!
Glue between C07's lookup oracle and the symbol maps modelled for C05 (`Model/SymbolList` — ELF / Mach-O /
PE object files, `Model/BreakpadLookup`, `Model/JitDumpIndex`): when the oracle function of a library answers
with the symbols of one of those maps, the first half of `OracleOk` (`symAddr ≤ address`, the guard of the
`u32` subtraction at mod.rs:232) is C05's `contains` theorem instead of an assumption.
-/
namespace Sym
open SymLookup

/-- a symbol map of samply-symbols as modelled for C05 -/
inductive SymSource where
  | object (demangle : Name → Name) (framesPanic : Nat → Bool) (d : SymList.Desc) (ranges : List SymList.Range)
  | breakpad (f : Breakpad.File) (ix : List Breakpad.Entry)
  | jitdump (entries : List JitDump.Entry) (ix : JitDump.Index)

/-- the hypotheses under which C05 proves `contains` for the map -/
def SymSource.WellFormed : SymSource → Prop
  | .object _ _ _ _ => True
  | .breakpad _ ix => Breakpad.StrictSorted ix
  | .jitdump entries ix => JitDump.WF entries ∧ JitDump.buildIndex entries = some ix

/-- `lookup_sync(LookupAddress::Relative(a))`, symbol part, of the modelled map -/
def SymSource.symbolAt : SymSource → Nat → Out SymInfo
  | .object demangle framesPanic d ranges, a =>
    SymList.lookupSync demangle framesPanic ⟨SymList.build d, d.base, ranges⟩ (.rel a)
  | .breakpad f ix, a => Breakpad.lookup f ix (.rel a)
  | .jitdump _ ix, a => JitDump.lookup ix (.rel a)

/-- the oracle function `f` of a library reports the symbols of `src` -/
def SymbolsFrom (f : Nat → Option AddrInfo) (src : SymSource) : Prop :=
  ∀ a info, f a = some info → ∃ r, src.symbolAt a = .hit r ∧ info.symAddr = r.start ∧ info.symSize = r.size

theorem symbolAt_contains (src : SymSource) (hwf : src.WellFormed) (a : Nat) (r : SymInfo)
    (h : src.symbolAt a = .hit r) : r.start ≤ a ∧ ∀ n, r.size = some n → a < r.start + n := by
  cases src with
  | object demangle framesPanic d ranges =>
    obtain ⟨svma, rel, hto, h1, n, hn, h2⟩ := C05_contains_obj demangle framesPanic d ranges (.rel a) r h
    have : rel = a := by
      simp only [SymList.toSvmaRel] at hto
      split at hto
      · injection hto with hto
        injection hto with _ hto
        exact hto.symm
      · simp at hto
    subst this
    refine ⟨h1, fun m hm => ?_⟩
    rw [hn] at hm
    injection hm with hm
    omega
  | breakpad f ix => exact C05_contains_bp f ix hwf a r h
  | jitdump entries ix =>
    obtain ⟨h1, n, hn, h2⟩ := C05_contains_jit entries ix hwf.1 hwf.2 a r h
    refine ⟨h1, fun m hm => ?_⟩
    rw [hn] at hm
    injection hm with hm
    omega

end Sym
