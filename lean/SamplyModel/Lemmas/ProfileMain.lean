import SamplyModel.Lemmas.ProfileOrder
/-!
The one invariant of C03 (`Inv = TInv ∧ SInv`), its preservation along accepted runs, positional thread
references, absence of internal panics.
-/
namespace PT

/-- the invariant of C03: table invariant and identity invariant -/
def Inv (p : P) : Prop := TInv p ∧ SInv p

theorem Inv.init : Inv P.init := ⟨TInv.init, SInv.init⟩

theorem Inv.step {p : P} (h : Inv p) (op : Op) (hv : handlesValid p op = true) (ha : allocFirst p op = true) :
    Inv (step p op).1 := ⟨step_TInv p h.1 op hv ha, step_SInv p h.2 op hv⟩

theorem Inv.runFrom : ∀ (ops : List Op) (p : P), Inv p → AcceptedFrom p ops = true →
    Inv (ops.foldl (fun p op => (PT.step p op).1) p)
  | [], _, h, _ => h
  | op :: ops, p, h, ha => by
    simp only [AcceptedFrom, Bool.and_eq_true] at ha
    exact Inv.runFrom ops _ (h.step op ha.1.1 ha.1.2) ha.2

theorem Inv.run (ops : List Op) (h : Accepted ops = true) : Inv (run ops) := Inv.runFrom ops P.init Inv.init h

/-! ### positional references -/

theorem newThreadIndex_denotes (p : P) (hs : SInv p) (t : Nat) (ht : t < p.threads.length) :
    (sortedThreads p)[newThreadIndex p t]? = some t := by
  have hm := (mem_sortedThreads p hs t).mpr ht
  have hlt := List.idxOf_lt_length_of_mem hm
  unfold newThreadIndex
  simp only [hlt, if_true]
  rw [List.getElem?_eq_getElem hlt, List.getElem_idxOf]

theorem firstIndexAux_spec (p : P) (pi : Nat) : ∀ (L : List Nat) (acc : Nat), pi ∈ L →
    ∃ pre post, L = pre ++ pi :: post ∧ firstIndexAux p pi L acc = acc + (pre.flatMap (procBlock p)).length
  | [], _, h => (nomatch h)
  | q :: qs, acc, h => by
    unfold firstIndexAux
    by_cases hq : q = pi
    · rw [if_pos hq]
      exact ⟨[], qs, by simp [hq], by simp⟩
    · rw [if_neg hq]
      have hm : pi ∈ qs := by
        rcases List.mem_cons.mp h with h | h
        · exact absurd h.symm hq
        · exact h
      obtain ⟨pre, post, e, hf⟩ := firstIndexAux_spec p pi qs (acc + (procBlock p q).length) hm
      exact ⟨q :: pre, post, by simp [e], by rw [hf]; simp; omega⟩

/-- a counter's `mainThreadIndex` is the position of the first thread of its process's block -/
theorem firstThreadIndex_denotes (p : P) (pi : Nat) (hpi : pi < p.processes.length) :
    ∀ k, (sortedThreads p)[firstThreadIndex p pi + k]? = (procBlock p pi)[k]? ∨ (procBlock p pi).length ≤ k := by
  intro k
  obtain ⟨pre, post, e, hf⟩ := firstIndexAux_spec p pi (sortedProcs p) 0 ((mem_sortedProcs p pi).mpr hpi)
  by_cases hk : k < (procBlock p pi).length
  · left
    unfold firstThreadIndex sortedThreads
    rw [hf, e]
    simp only [Nat.zero_add, List.flatMap_append, List.flatMap_cons]
    rw [List.getElem?_append_right (by omega)]
    simp only [Nat.add_sub_cancel_left]
    rw [List.getElem?_append_left hk]
  · right; omega

/-! ### no internal panic -/

theorem P.allocSample_no_bug (p : P) (h : Inv p) (t : Nat) (stack : Option TH) (ht : t < p.threads.length) :
    (p.allocSample t stack).2 ≠ .bug := by
  obtain ⟨hT, hS⟩ := h
  have hth := hT.thread (P.threads_get ht)
  have hpr : (p.threads[t]).process < p.processes.length := hth.2.2.2.2.2.2.2.2.1
  -- the thread is listed in its process, so the process has a first thread, which exists
  have hsk : (skel p).1[t]? = some ((p.threads[t]).process, (p.threads[t]).tid) := by
    rw [skel_threads_get, P.threads_get ht]; rfl
  obtain ⟨l, pid, hl, hm⟩ := hS.owner t _ _ hsk
  rw [skel_procs_get p _ _ (List.getElem?_eq_getElem hpr)] at hl
  simp only [Option.some.injEq, Prod.mk.injEq] at hl
  rw [← hl.1] at hm
  unfold P.allocSample
  simp only [P.threads_get ht, List.getElem?_eq_getElem hpr]
  cases hhd : (p.processes[(p.threads[t]).process]).threads.head? with
  | none =>
    rw [List.head?_eq_none_iff] at hhd
    rw [hhd] at hm
    cases hm
  | some first =>
    simp only
    have hfm : first ∈ (p.processes[(p.threads[t]).process]).threads := List.mem_of_mem_head? hhd
    obtain ⟨td, htd⟩ := hS.listed _ _ _ (skel_procs_get p _ _ (List.getElem?_eq_getElem hpr)) first hfm
    rw [skel_threads_get] at htd
    cases hft : p.threads[first]? with
    | none => rw [hft] at htd; cases htd
    | some ft =>
      cases stackArg t stack <;> simp

theorem step_no_bug (p : P) (h : Inv p) (op : Op) (hv : handlesValid p op = true) : (step p op).2 ≠ .bug := by
  obtain ⟨hT, hS⟩ := h
  cases op with
  | addProcess a b c => simp [step]
  | addThread a b c d => simp only [step]; split <;> simp
  | setTid a b => simp only [step]; split <;> simp
  | setName a b => simp only [step]; split <;> simp
  | setPName a b => simp only [step]; split <;> simp
  | setStart a b => simp only [step]; split <;> simp
  | setPStart a b => simp only [step]; split <;> simp
  | addLib a => simp [step]
  | libSyms a b => simp only [step]; split <;> simp
  | addMapping a b c d e =>
    simp only [step]
    split
    · simp
    · split
      · split <;> simp
      · simp
  | addKernelMapping a b c d =>
    simp only [step]
    split
    · split <;> simp
    · simp
  | removeKernelMapping a => simp [step]
  | removeMapping a b => simp only [step]; split <;> simp
  | clearMappings a => simp only [step]; split <;> simp
  | string s => simp [step]
  | category a b => simp [step]
  | subcategory a b =>
    simp only [step]
    split
    · split <;> simp
    · simp
  | frameLabel t str src sc flags =>
    simp only [handlesValid, Bool.and_eq_true, decide_eq_true_eq] at hv
    obtain ⟨⟨⟨ht, hstr⟩, hsrc⟩, hsc⟩ := hv
    simp only [step]
    refine (p.withSub_TInv hT sc hsc _ ?_).2
    intro p' c s hp' e hcs
    have e' : p'.threads = p.threads ∧ p'.gstrings = p.gstrings := by rw [e]; exact ⟨rfl, rfl⟩
    refine p'.frameLabel_TInv hp' t str src c s flags (by rw [e'.1]; exact ht)
      (by simpa [P.strOk, e'.2] using hstr) ?_ hcs
    cases src with
    | none => trivial
    | some x =>
      obtain ⟨file, line, col⟩ := x
      simp only at hsrc ⊢
      cases file with
      | none => rfl
      | some g => simpa [P.optStrOk, P.strOk, e'.2] using hsrc
  | frameAddr t a sc flags =>
    simp only [handlesValid, Bool.and_eq_true, decide_eq_true_eq] at hv
    obtain ⟨⟨ht, ha⟩, hsc⟩ := hv
    simp only [step]
    refine (p.withSub_TInv hT sc hsc _ ?_).2
    intro p' c s hp' e hcs
    have e' : p'.threads = p.threads ∧ p'.libs = p.libs := by rw [e]; exact ⟨rfl, rfl⟩
    refine p'.frameAddr_TInv hp' t a c s flags (by rw [e'.1]; exact ht) ?_ hcs
    cases a with
    | abs k x => rfl
    | rel k lib x => simpa [P.addrOk, e'.2] using ha
  | nativeSymbol t lib sym =>
    simp only [handlesValid, Bool.and_eq_true, decide_eq_true_eq] at hv
    simp only [step]
    exact (p.nativeSymbol_TInv hT t lib sym hv.1 hv.2).2
  | frameSym t a name nsym file line col depth sc flags =>
    simp only [handlesValid, Bool.and_eq_true, decide_eq_true_eq] at hv
    obtain ⟨⟨⟨⟨⟨ht, ha⟩, hname⟩, hns⟩, hfile⟩, hsc⟩ := hv
    simp only [step]
    refine (p.withSub_TInv hT sc hsc _ ?_).2
    intro p' c s hp' e hcs
    have e' : p'.threads = p.threads ∧ p'.libs = p.libs ∧ p'.gstrings = p.gstrings := by
      rw [e]; exact ⟨rfl, rfl, rfl⟩
    have hopt : ∀ o, p.optStrOk o = true → p'.optStrOk o = true := by
      intro o ho
      cases o with
      | none => rfl
      | some g => simpa [P.optStrOk, P.strOk, e'.2.2] using ho
    refine p'.frameSym_TInv hp' t a name nsym file line col depth c s flags (by rw [e'.1]; exact ht) ?_
      (hopt _ hname) (by simpa [P.nsymOk, e'.1] using hns) (hopt _ hfile) hcs
    cases a with
    | abs k x => rfl
    | rel k lib x => simpa [P.addrOk, e'.2.1] using ha
  | stack t frame parent =>
    simp only [handlesValid, Bool.and_eq_true, decide_eq_true_eq] at hv
    simp only [step]
    exact (p.stack_TInv hT t frame parent hv.1.1 hv.1.2 hv.2).2
  | stackFrames t frames =>
    simp only [handlesValid, Bool.and_eq_true, decide_eq_true_eq] at hv
    simp only [step]
    exact (p.stackFrames_TInv hT t frames hv.1 hv.2).2
  | sample t stack z =>
    simp only [handlesValid, Bool.and_eq_true, decide_eq_true_eq] at hv
    simp only [step]
    exact (p.sample_TInv hT t stack z hv.1 hv.2).2
  | sameSample t =>
    simp only [handlesValid, decide_eq_true_eq] at hv
    simp only [step]
    exact (p.sameSample_TInv hT t hv).2
  | allocSample t stack =>
    simp only [handlesValid, Bool.and_eq_true, decide_eq_true_eq] at hv
    simp only [step]
    exact p.allocSample_no_bug ⟨hT, hS⟩ t stack hv.1
  | markerType a b c => simp only [step]; split <;> simp
  | marker t ty name strs tm => simp only [step]; exact (p.marker_TInv hT t ty name strs tm).2
  | markerStack t m stack =>
    simp only [handlesValid, Bool.and_eq_true, decide_eq_true_eq] at hv
    simp only [step]
    exact (p.markerStack_TInv hT t m stack hv.1 hv.2).2
  | counter a => simp only [step]; split <;> simp
  | counterSample a => simp only [step]; split <;> simp
  | visible a => simp only [step]; split <;> simp
  | selected a => simp only [step]; split <;> simp

end PT
