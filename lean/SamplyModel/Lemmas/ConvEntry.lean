import SamplyModel.Lemmas.ConvHistStep
import SamplyModel.Lemmas.LifeStab
/-!
C01 keyed by entry (convD2): every buffered recorded sample sits on the thread entry whose index is the thread
incarnation that was current — in the eager reading `Life` — right after the sample's own record, inside the process
incarnation current at that moment; entries never change their pid / tid / suffix afterwards.
-/
namespace Conv
open ConvSpec

/-! ### the recorded samples of a state, by entry index -/

def projU (us : List USample) : List (Nat × Nat × Nat) :=
  (us.filter (fun u => !u.synth)).map (fun u => (u.th, u.t, u.weight))

theorem projU_append (a b : List USample) : projU (a ++ b) = projU a ++ projU b := by
  simp [projU, List.filter_append]

theorem projU_synth {us : List USample} (h : ∀ u ∈ us, u.synth = true) : projU us = [] := by
  unfold projU
  rw [List.filter_eq_nil_iff.mpr]
  · rfl
  · intro u hu; simp [h u hu]

def Psi (s : St) : List (Nat × Nat × Nat) :=
  s.parked.flatMap (fun b => projU b.1) ++ s.procs.flatMap (FF (fun _ o => projU o.samples))

theorem projU_flatMap {α} (l : List α) (f : α → List USample) : projU (l.flatMap f) = l.flatMap (fun x => projU (f x)) := by
  induction l with
  | nil => rfl
  | cons a t ih => rw [List.flatMap_cons, projU_append, ih, List.flatMap_cons]

theorem Psi_eq (s : St) : Psi s = projU (buffered s) := by
  unfold Psi buffered bufP
  rw [projU_append, projU_flatMap, projU_flatMap]
  rfl

theorem psi_same {s s' : St} (hn : NodupKeys s.procs) (hn' : NodupKeys s'.procs)
    (hobs : ∀ a, (pobs s'.procs a).samples = (pobs s.procs a).samples) (hp : s'.parked = s.parked) :
    List.Perm (Psi s') (Psi s) := by
  unfold Psi
  rw [hp]
  exact List.Perm.append_left _ (flatMap_perm_of_obs _ _ (fun _ => rfl) (fun _ => rfl) hn hn'
    (fun a => by simp only [hobs a]))

theorem psi_remove {s s' : St} {pid : Nat} (hn : NodupKeys s.procs) (hn' : NodupKeys s'.procs)
    (hobs : ∀ a, pobs s'.procs a = upd (pobs s.procs) pid PObs.empty a)
    (hp : s'.parked = s.parked ++ park (pobs s.procs pid) pid) : List.Perm (Psi s') (Psi s) := by
  obtain ⟨R, p1, p2⟩ := flatMap_perm_except (fun _ o => projU o.samples) (fun _ o => projU o.samples)
    (fun _ => rfl) (fun _ => rfl) hn hn' pid (fun a ha => by rw [hobs a]; unfold upd; rw [if_neg ha])
  have e2 : projU (pobs s'.procs pid).samples = [] := by rw [hobs pid]; unfold upd; rw [if_pos rfl]; rfl
  rw [e2] at p2
  have e3 : (park (pobs s.procs pid) pid).flatMap (fun b => projU b.1) = projU (pobs s.procs pid).samples := by
    unfold park
    split
    · next he => rw [List.isEmpty_iff.mp he]; rfl
    · simp
  unfold Psi
  rw [hp, List.flatMap_append, e3, List.append_assoc]
  exact List.Perm.append_left _ ((List.Perm.append_left _ p2).trans p1.symm)

theorem psi_append {s s' : St} {pid : Nat} {new : List USample} (hn : NodupKeys s.procs)
    (hn' : NodupKeys s'.procs)
    (hobs : ∀ a, (pobs s'.procs a).samples = if a = pid then (pobs s.procs pid).samples ++ new
      else (pobs s.procs a).samples)
    (hp : s'.parked = s.parked) : List.Perm (Psi s') (Psi s ++ projU new) := by
  obtain ⟨R, p1, p2⟩ := flatMap_perm_except (fun _ o => projU o.samples) (fun _ o => projU o.samples)
    (fun _ => rfl) (fun _ => rfl) hn hn' pid (fun a ha => by simp only [hobs a, if_neg ha])
  have e2 : projU (pobs s'.procs pid).samples = projU (pobs s.procs pid).samples ++ projU new := by
    rw [hobs pid, if_pos rfl, projU_append]
  rw [e2] at p2
  unfold Psi
  rw [hp, List.append_assoc]
  refine List.Perm.append_left _ ?_
  refine p2.trans ?_
  rw [List.append_assoc]
  refine (List.Perm.append_left _ List.perm_append_comm).trans ?_
  rw [← List.append_assoc]
  exact List.Perm.append_right _ p1.symm

/-- what a record that goes through `commitThread` does to the recorded samples -/
theorem psi_commit {s : St} (hinv : InvA s) (pid tid : Nat) (f : St → ThreadC → ThreadC × List USample × Bool)
    (hn' : NodupKeys (commitThread (getThread (getByPid s pid).1 (getByPid s pid).2 tid).1
          (getThread (getByPid s pid).1 (getByPid s pid).2 tid).2.1 tid
          (f (getThread (getByPid s pid).1 (getByPid s pid).2 tid).1
             (getThread (getByPid s pid).1 (getByPid s pid).2 tid).2.2)).procs) :
    List.Perm (Psi (commitThread (getThread (getByPid s pid).1 (getByPid s pid).2 tid).1
          (getThread (getByPid s pid).1 (getByPid s pid).2 tid).2.1 tid
          (f (getThread (getByPid s pid).1 (getByPid s pid).2 tid).1
             (getThread (getByPid s pid).1 (getByPid s pid).2 tid).2.2)))
      (Psi s ++ projU (f (getThread (getByPid s pid).1 (getByPid s pid).2 tid).1
             (getThread (getByPid s pid).1 (getByPid s pid).2 tid).2.2).2.1) := by
  obtain ⟨_, _, _, c4, c5, _, _⟩ := obs_commit hinv pid tid f
  refine psi_append (pid := pid) hinv.nodup hn' (fun a => ?_) c5
  rw [c4 a]; unfold upd
  split <;> rfl

/-! ### one record -/

/-- the thread looked up for (pid, tid) is the current incarnation of the eager reading, inside the current
process incarnation -/
theorem ensure_idx {s : St} {l : Life.S} (h : LifeL.Sim s l) (pid tid : Nat) :
    ∃ tinc pinc,
      Life.curIdx (Life.ensureThread l pid tid) pid tid =
        some ((getThread (getByPid s pid).1 (getByPid s pid).2 tid).2.1.h,
              (getThread (getByPid s pid).1 (getByPid s pid).2 tid).2.2.h) ∧
      (Life.ensureThread l pid tid).ts[(getThread (getByPid s pid).1 (getByPid s pid).2 tid).2.2.h]? = some tinc ∧
      tinc.tid = tid ∧ tinc.pinc = (getThread (getByPid s pid).1 (getByPid s pid).2 tid).2.1.h ∧
      (Life.ensureThread l pid tid).ps[(getThread (getByPid s pid).1 (getByPid s pid).2 tid).2.1.h]? = some pinc ∧
      pinc.pid = pid := by
  obtain ⟨h2, hb2, _, ht2, _⟩ := LifeL.sim_ensure h pid tid
  generalize getThread (getByPid s pid).1 (getByPid s pid).2 tid = gt at *
  have hok := h2.live.ok hb2
  have hcp := h2.live.curProc_bound hb2
  obtain ⟨pinc, hpi, _, hppid, _⟩ := hok.pinc
  by_cases htid : tid = pid
  · rw [if_pos htid] at ht2
    subst htid
    obtain ⟨tinc, hti, _, hpinc, htid', _, _⟩ := hok.main
    refine ⟨tinc, pinc, ?_, by rw [ht2]; exact hti, htid', hpinc, hpi, hppid⟩
    unfold Life.curIdx
    rw [hcp]
    simp only [hok.curThread_main, Option.map_some, ht2]
  · rw [if_neg htid] at ht2
    obtain ⟨_, tinc, hti, _, hpinc, htid', _, _⟩ := hok.thr _ _ (LifeL.alGet_eq_some_mem ht2)
    refine ⟨tinc, pinc, ?_, hti, htid', hpinc, hpi, hppid⟩
    unfold Life.curIdx
    rw [hcp]
    simp only [hok.curThread_bound ht2, Option.map_some]

/-- the samples a record adds to the recorded samples of the state: none, except for an accepted SAMPLE — one
sample on the entry of the current thread incarnation, at the converted time, weight 1 -/
theorem entry_step {cfg : Config} {s : St} {last : Last} {acc : List Acc} {l : Life.S}
    (hsim : Sim cfg s (last, acc)) (hlife : LifeL.Sim s l) (r : Rec) :
    ∃ new : List (Nat × Nat × Nat), List.Perm (Psi (step s r)) (Psi s ++ new) ∧
      (∀ pid tid t km pe ip chain, r = .sample pid tid t km pe ip chain → tid ≠ 0 → lastGet last pid tid ≠ some t →
        ∃ pi ti tinc pinc, Life.curIdx (Life.step l r) pid tid = some (pi, ti) ∧ new = [(ti, t - cfg.ref, 1)] ∧
          (Life.step l r).ts[ti]? = some tinc ∧ tinc.tid = tid ∧ tinc.pinc = pi ∧
          (Life.step l r).ps[pi]? = some pinc ∧ pinc.pid = pid) ∧
      ((∀ pid tid t km pe ip chain, r = .sample pid tid t km pe ip chain → tid ≠ 0 →
          lastGet last pid tid = some t) → new = []) := by
  have hinv := hsim.inv
  have hn := hinv.nodup
  have hn' : NodupKeys (step s r).procs := (step_sim hsim r).inv.nodup
  -- records that add no recorded sample
  have none_case : List.Perm (Psi (step s r)) (Psi s) →
      (∀ pid tid t km pe ip chain, r ≠ .sample pid tid t km pe ip chain) →
      ∃ new : List (Nat × Nat × Nat), List.Perm (Psi (step s r)) (Psi s ++ new) ∧
      (∀ pid tid t km pe ip chain, r = .sample pid tid t km pe ip chain → tid ≠ 0 → lastGet last pid tid ≠ some t →
        ∃ pi ti tinc pinc, Life.curIdx (Life.step l r) pid tid = some (pi, ti) ∧ new = [(ti, t - cfg.ref, 1)] ∧
          (Life.step l r).ts[ti]? = some tinc ∧ tinc.tid = tid ∧ tinc.pinc = pi ∧
          (Life.step l r).ps[pi]? = some pinc ∧ pinc.pid = pid) ∧
      ((∀ pid tid t km pe ip chain, r = .sample pid tid t km pe ip chain → tid ≠ 0 →
          lastGet last pid tid = some t) → new = []) := by
    intro hp hne
    exact ⟨[], by simpa using hp, fun pid tid t km pe ip chain e => absurd e (hne _ _ _ _ _ _ _), fun _ => rfl⟩
  cases r with
  | fork pid tid ppid ptid t =>
    obtain ⟨o1, o2, _, _⟩ := obs_fork hinv pid tid ppid ptid t
    refine none_case (psi_same hn hn' (fun a => ?_) o2) (fun _ _ _ _ _ _ _ e => by cases e)
    rw [o1 a]
    split
    · unfold upd; split
      · next e => rw [e]
      · rfl
    · rfl
  | exit pid tid t =>
    obtain ⟨o1, o2, _, _⟩ := obs_exit hinv pid tid t
    refine none_case ?_ (fun _ _ _ _ _ _ _ e => by cases e)
    by_cases hpt : pid = tid
    · simp only [if_pos hpt] at o1 o2
      exact psi_remove hn hn' o1 o2
    · simp only [if_neg hpt] at o1 o2
      refine psi_same hn hn' (fun a => ?_) o2
      rw [o1 a]; unfold upd; split
      · next e => rw [e]; rfl
      · rfl
  | comm pid tid name isExec t =>
    obtain ⟨o1, o2, _, _⟩ := obs_comm hinv pid tid name isExec t
    refine none_case ?_ (fun _ _ _ _ _ _ _ e => by cases e)
    cases isExec with
    | true =>
      by_cases hpt : pid = tid
      · simp only [if_true, if_pos hpt, hpt, decide_true, Bool.and_self] at o1 o2
        subst hpt
        exact psi_remove hn hn' o1 o2
      · simp only [if_true, if_neg hpt, hpt, decide_false, Bool.and_false, Bool.false_eq_true, if_false] at o1 o2
        refine psi_same hn hn' (fun a => ?_) o2
        rw [o1 a]; unfold upd; split
        · next e => rw [e]; rfl
        · rfl
    | false =>
      simp only [Bool.false_eq_true, if_false, Bool.false_and] at o1 o2
      exact psi_same hn hn' (fun a => by rw [o1 a]) o2
  | mmap2 pid tid addr len pgoff exec path t =>
    obtain ⟨o1, o2, _, _⟩ := obs_mmap2 hinv pid tid addr len pgoff exec path t
    refine none_case (psi_same hn hn' (fun a => ?_) o2) (fun _ _ _ _ _ _ _ e => by cases e)
    rw [o1 a]
    split
    · unfold upd; split
      · next e => rw [e]
      · rfl
    · rfl
  | switchIn pid tid t =>
    refine none_case ?_ (fun _ _ _ _ _ _ _ e => by cases e)
    by_cases h0 : tid = 0
    · have hstep : step s (.switchIn pid tid t) = s := by rw [h0]; simp [step]
      rw [hstep]
    · have e : step s (.switchIn pid tid t) =
          commitThread (getThread (getByPid s pid).1 (getByPid s pid).2 tid).1
            (getThread (getByPid s pid).1 (getByPid s pid).2 tid).2.1 tid
            (wake (getThread (getByPid s pid).1 (getByPid s pid).2 tid).1
              (getThread (getByPid s pid).1 (getByPid s pid).2 tid).2.2 (.switchIn t) pid tid) := by
        simp [step, h0]
      rw [e] at hn' ⊢
      have := psi_commit hinv pid tid (fun s2 th => wake s2 th (.switchIn t) pid tid) hn'
      rw [projU_synth (fun u hu => ((wake_spec _ _ _ _ _).2.2.2 u hu).2), List.append_nil] at this
      exact this
  | switchOut pid tid t =>
    refine none_case ?_ (fun _ _ _ _ _ _ _ e => by cases e)
    by_cases h0 : tid = 0
    · have hstep : step s (.switchOut pid tid t) = s := by rw [h0]; simp [step]
      rw [hstep]
    · have e : step s (.switchOut pid tid t) =
          commitThread (getThread (getByPid s pid).1 (getByPid s pid).2 tid).1
            (getThread (getByPid s pid).1 (getByPid s pid).2 tid).2.1 tid
            (switchOutThread (getThread (getByPid s pid).1 (getByPid s pid).2 tid).1
              (getThread (getByPid s pid).1 (getByPid s pid).2 tid).2.2 t) := by
        simp [step, h0]
      rw [e] at hn' ⊢
      have := psi_commit hinv pid tid (fun s2 th => switchOutThread s2 th t) hn'
      simpa [switchOutThread, projU] using this
  | sched pid tid t km ip chain =>
    refine none_case ?_ (fun _ _ _ _ _ _ _ e => by cases e)
    have e : step s (.sched pid tid t km ip chain) =
        commitThread (getThread (getByPid s pid).1 (getByPid s pid).2 tid).1
          (getThread (getByPid s pid).1 (getByPid s pid).2 tid).2.1 tid
          (schedThread (getThread (getByPid s pid).1 (getByPid s pid).2 tid).1
            (getThread (getByPid s pid).1 (getByPid s pid).2 tid).2.2 t
            (sampleStack (getThread (getByPid s pid).1 (getByPid s pid).2 tid).1.cfg km ip chain)) := rfl
    rw [e] at hn' ⊢
    have := psi_commit hinv pid tid (fun s2 th => schedThread s2 th t (sampleStack s2.cfg km ip chain)) hn'
    rw [(schedThread_spec _ _ _ _).2.2.2] at this
    simpa [projU] using this
  | otherEvent pid tid t km ip chain =>
    refine none_case ?_ (fun _ _ _ _ _ _ _ e => by cases e)
    have e : step s (.otherEvent pid tid t km ip chain) =
        commitThread (getThread (getByPid s pid).1 (getByPid s pid).2 tid).1
          (getThread (getByPid s pid).1 (getByPid s pid).2 tid).2.1 tid
          (otherEventThread (getThread (getByPid s pid).1 (getByPid s pid).2 tid).1
            (getThread (getByPid s pid).1 (getByPid s pid).2 tid).2.2 pid tid t
            (sampleStack (getThread (getByPid s pid).1 (getByPid s pid).2 tid).1.cfg km ip chain)) := rfl
    rw [e] at hn' ⊢
    have := psi_commit hinv pid tid
      (fun s2 th => otherEventThread s2 th pid tid t (sampleStack s2.cfg km ip chain)) hn'
    rw [projU_synth (fun u hu => by
      simp only [otherEventThread, List.mem_singleton] at hu; rw [hu]; rfl), List.append_nil] at this
    exact this
  | sample pid tid t km period ip chain =>
    by_cases h0 : tid = 0
    · have hstep : step s (.sample pid tid t km period ip chain) = s := by rw [h0]; simp [step]
      rw [hstep]
      exact ⟨[], by simp, fun _ _ _ _ _ _ _ e h0' => by cases e; exact absurd h0 h0', fun _ => rfl⟩
    · have hinv0 : InvA { s with cur := t } := ((skel_cur s t).goodT hinv).inv
      obtain ⟨c1, c2, c3, _, _, _, _⟩ := obs_commit hinv0 pid tid
        (fun s2 th => sampleThread s2 th pid tid t period (sampleStack s2.cfg km ip chain))
      obtain ⟨tinc, pinc, i1, i2, i3, i4, i5, i6⟩ := ensure_idx (hlife.setCur t) pid tid
      have hLstep : Life.step l (.sample pid tid t km period ip chain) =
          Life.ensureThread { l with cur := t } pid tid := by simp [Life.step, h0]
      rw [LifeL.step_sample, if_neg h0] at hn' ⊢
      simp only [] at hn' ⊢
      have hpsi := psi_commit hinv0 pid tid
        (fun s2 th => sampleThread s2 th pid tid t period (sampleStack s2.cfg km ip chain))
      generalize getThread (getByPid { s with cur := t } pid).1 (getByPid { s with cur := t } pid).2 tid = gt at *
      have hl : gt.2.2.lastTs = lastGet last pid tid := by
        have : (tqOf gt.2.2).1 = ((pobs s.procs pid).thr tid).1 := by rw [c2]
        rw [← hsim.htl, tl_eq_thr]; exact this
      rw [hl] at hn' ⊢
      by_cases hd : lastGet last pid tid = some t
      · rw [if_pos hd] at hn' ⊢
        refine ⟨[], ?_, fun _ _ _ _ _ _ _ e _ hne => by cases e; exact absurd hd hne, fun _ => rfl⟩
        rw [List.append_nil]
        exact psi_same hn hn' (fun a => by rw [c3.obs a]) c3.parked
      · rw [if_neg hd] at hn' ⊢
        obtain ⟨_, _, _, pre, u, hout, hpre, hu1, _, _, hu4, hu5, hu6⟩ :=
          sampleThread_spec gt.1 gt.2.2 pid tid t period (sampleStack gt.1.cfg km ip chain)
        have hps := hpsi hn'
        have hproj : projU (sampleThread gt.1 gt.2.2 pid tid t period (sampleStack gt.1.cfg km ip chain)).2.1 =
            [(gt.2.2.h, t - cfg.ref, 1)] := by
          rw [hout, projU_append, projU_synth (fun x hx => (hpre x hx).2)]
          have hc : gt.1.cfg = cfg := by
            have : gt.1.cfg = s.cfg := c1
            rw [this]; exact hsim.hcfg
          simp [projU, hu4, hu1, hu5, hu6, conv, hc]
        rw [hproj] at hps
        refine ⟨[(gt.2.2.h, t - cfg.ref, 1)], hps, ?_, fun hall => absurd (hall _ _ _ _ _ _ _ rfl h0) hd⟩
        intro pid' tid' t' km' pe' ip' chain' e _ _
        cases e
        rw [hLstep]
        exact ⟨gt.2.1.h, gt.2.2.h, tinc, pinc, i1, rfl, i2, i3, i4, i5, i6⟩

/-! ### whole histories -/

/-- what `accIncStep` appends for one record -/
def newSpec (last : Last) (l : Life.S) (r : Rec) : List AccI :=
  match r, (accStep (last, []) r).2 with
  | .sample pid tid t _ _ _ _, [_] =>
    [{ pid, tid, t,
       psuffix := (((Life.curIdx (Life.step l r) pid tid).bind (fun i => (Life.step l r).ps[i.1]?)).map (·.suffix)).getD 0,
       tsuffix := (((Life.curIdx (Life.step l r) pid tid).bind (fun i => (Life.step l r).ts[i.2]?)).map (·.suffix)).getD 0 }]
  | _, _ => []

theorem accIncStep_eq (last : Last) (l : Life.S) (out : List AccI) (r : Rec) :
    accIncStep ((last, l), out) r = (((accStep (last, []) r).1, Life.step l r), out ++ newSpec last l r) := rfl

theorem newSpec_nil {last : Last} {l : Life.S} {r : Rec}
    (h : ∀ pid tid t km pe ip chain, r = .sample pid tid t km pe ip chain → tid ≠ 0 → lastGet last pid tid = some t) :
    newSpec last l r = [] := by
  cases r with
  | sample pid tid t km pe ip chain =>
    by_cases h0 : tid = 0
    · simp [newSpec, accStep, h0]
    · have := h _ _ _ _ _ _ _ rfl h0
      simp [newSpec, accStep, h0, this]
  | _ => rfl

structure EInv (cfg : Config) (s : St) (last : Last) (l : Life.S) (out : List AccI) : Prop where
  sim : ∃ acc, Sim cfg s (last, acc)
  life : LifeL.Sim s l
  ghost : ∃ g : List (AccI × Nat), g.map Prod.fst = out ∧
    List.Perm (Psi s) (g.map (fun x => (x.2, x.1.t - cfg.ref, 1))) ∧
    ∀ x ∈ g, ∃ tinc pinc, l.ts[x.2]? = some tinc ∧ tinc.tid = x.1.tid ∧ tinc.suffix = x.1.tsuffix ∧
      l.ps[tinc.pinc]? = some pinc ∧ pinc.pid = x.1.pid ∧ pinc.suffix = x.1.psuffix

theorem einv_step {cfg : Config} {s : St} {last : Last} {l : Life.S} {out : List AccI}
    (h : EInv cfg s last l out) (r : Rec) (hf : LifeL.forkOk l r) :
    EInv cfg (step s r) (accStep (last, []) r).1 (Life.step l r) (out ++ newSpec last l r) := by
  obtain ⟨acc, hsim⟩ := h.sim
  obtain ⟨g, g1, g2, g3⟩ := h.ghost
  obtain ⟨new, p, hnew, hnil⟩ := entry_step hsim h.life r
  have hstab := LifeL.stab_step l r
  have hsim' : ∃ acc', Sim cfg (step s r) ((accStep (last, []) r).1, acc') :=
    ⟨(accStep (last, acc) r).2, by rw [← accStep_fst last acc r]; exact step_sim hsim r⟩
  -- old ghost entries stay valid
  have g3' : ∀ x ∈ g, ∃ tinc pinc, (Life.step l r).ts[x.2]? = some tinc ∧ tinc.tid = x.1.tid ∧
      tinc.suffix = x.1.tsuffix ∧ (Life.step l r).ps[tinc.pinc]? = some pinc ∧ pinc.pid = x.1.pid ∧
      pinc.suffix = x.1.psuffix := by
    intro x hx
    obtain ⟨tinc, pinc, a1, a2, a3, a4, a5, a6⟩ := g3 x hx
    obtain ⟨t', b1, b2, b3, b4⟩ := hstab.ts _ _ a1
    obtain ⟨p', c1, c2, c3⟩ := hstab.ps _ _ a4
    exact ⟨t', p', b1, b2.trans a2, b3.trans a3, by rw [b4]; exact c1, c2.trans a5, c3.trans a6⟩
  by_cases hacc : ∃ pid tid t km pe ip chain, r = .sample pid tid t km pe ip chain ∧ tid ≠ 0 ∧
      lastGet last pid tid ≠ some t
  · obtain ⟨pid, tid, t, km, pe, ip, chain, rfl, h0, hd⟩ := hacc
    obtain ⟨pi, ti, tinc, pinc, i1, i2, i3, i4, i5, i6, i7⟩ := hnew _ _ _ _ _ _ _ rfl h0 hd
    have hns : newSpec last l (.sample pid tid t km pe ip chain) =
        [{ pid, tid, t, psuffix := pinc.suffix, tsuffix := tinc.suffix }] := by
      simp [newSpec, accStep, h0, hd, i1, i3, i6]
    rw [hns]
    refine ⟨hsim', LifeL.sim_step h.life _ hf, g ++ [({ pid, tid, t, psuffix := pinc.suffix, tsuffix := tinc.suffix }, ti)],
      by simp [g1], ?_, ?_⟩
    · rw [List.map_append]
      refine p.trans ?_
      rw [i2]
      exact List.Perm.append_right _ g2
    · intro x hx
      rcases List.mem_append.mp hx with hx | hx
      · exact g3' x hx
      · simp only [List.mem_singleton] at hx
        subst hx
        exact ⟨tinc, pinc, i3, i4, rfl, by rw [i5]; exact i6, i7, rfl⟩
  · have hall : ∀ pid tid t km pe ip chain, r = .sample pid tid t km pe ip chain → tid ≠ 0 →
        lastGet last pid tid = some t := by
      intro pid tid t km pe ip chain e h0
      exact Classical.not_not.mp (fun hd => hacc ⟨pid, tid, t, km, pe, ip, chain, e, h0, hd⟩)
    rw [newSpec_nil hall, List.append_nil]
    have := hnil hall
    subst this
    rw [List.append_nil] at p
    exact ⟨hsim', LifeL.sim_step h.life _ hf, g, g1, p.trans g2, g3'⟩

theorem einv_fold (cfg : Config) (rs : List Rec) :
    ∀ (s : St) (last : Last) (g : Life.G) (out : List AccI), EInv cfg s last g.s out →
      (rs.foldl Life.gStep g).ok = true →
      EInv cfg (rs.foldl step s) (rs.foldl accIncStep ((last, g.s), out)).1.1
        (rs.foldl accIncStep ((last, g.s), out)).1.2 (rs.foldl accIncStep ((last, g.s), out)).2 := by
  induction rs with
  | nil => intro s last g out h _; exact h
  | cons r rs ih =>
    intro s last g out h hg
    have hf := (LifeL.gStep_ok (LifeL.foldl_gStep_ok (g := Life.gStep g r) hg)).2
    rw [List.foldl_cons, List.foldl_cons, accIncStep_eq]
    exact ih (step s r) _ (Life.gStep g r) _ (einv_step h r hf) hg

/-- the pid / tid strings of the thread entry with index `i` -/
def entStr (s : St) (i : Nat) : String × String :=
  match s.tents[i]? with
  | some te =>
    ((match s.pents[te.proc]? with
      | some pe => idStr pe.pid pe.suffix
      | none => ""), idStr te.tid te.suffix)
  | none => ("", "")

theorem viewOf_str {s : St} {out : List (Nat × OutSample)} {i : Nat} {te : TEntry} {v : View}
    (hte : s.tents[i]? = some te) (hv : viewOf s out i te = some v) : (v.pid, v.tid) = entStr s i := by
  unfold viewOf at hv
  unfold entStr
  rw [hte]
  split at hv
  · cases hv
  · rename_i pe hpe
    simp only [Option.some.injEq] at hv
    rw [← hv]
    simp only [hpe]

/-- **C01 keyed by entry, on the buffered samples**: the recorded samples of `run cfg rs`, by entry index, are the
accepted samples of the history; the entry of each carries the pid / tid strings of the incarnation the
specification computes for it. -/
theorem entry_run (cfg : Config) (rs : List Rec) (hr : cfg.reuse = false)
    (hg : Life.grammarOk cfg.ref rs = true) :
    ∃ g : List (AccI × Nat), g.map Prod.fst = acceptedInc cfg.ref rs ∧
      List.Perm (projU (buffered (run cfg rs))) (g.map (fun x => (x.2, x.1.t - cfg.ref, 1))) ∧
      ∀ x ∈ g, entStr (run cfg rs) x.2 = (idStr x.1.pid x.1.psuffix, idStr x.1.tid x.1.tsuffix) := by
  have h0 : EInv cfg (St.init cfg) [] { ref := cfg.ref, cur := cfg.ref } [] :=
    ⟨⟨[], Sim.init cfg⟩, LifeL.sim_init cfg hr, [], rfl, by simp [Psi, St.init], fun x hx => by cases hx⟩
  have h := einv_fold cfg rs (St.init cfg) [] { s := { ref := cfg.ref, cur := cfg.ref } } [] h0 hg
  obtain ⟨g, g1, g2, g3⟩ := h.ghost
  refine ⟨g, g1, by rw [← Psi_eq]; exact g2, ?_⟩
  intro x hx
  obtain ⟨tinc, pinc, a1, a2, a3, a4, a5, a6⟩ := g3 x hx
  have htab := h.life.tab
  have ht : (run cfg rs).tents[x.2]? = some (LifeL.tOf tinc) := by
    show (rs.foldl step (St.init cfg)).tents[x.2]? = _
    rw [htab.tents, List.getElem?_map, a1]; rfl
  have hp : (run cfg rs).pents[tinc.pinc]? = some (LifeL.pOf pinc) := by
    show (rs.foldl step (St.init cfg)).pents[tinc.pinc]? = _
    rw [htab.pents, List.getElem?_map, a4]; rfl
  unfold entStr
  rw [ht]
  show ((match (run cfg rs).pents[tinc.pinc]? with
      | some pe => idStr pe.pid pe.suffix
      | none => ""), idStr tinc.tid tinc.suffix) = _
  rw [hp]
  simp only [LifeL.pOf, a2, a3, a5, a6]

/-! ### `acceptedInc` tags exactly the accepted samples -/

theorem accStep_snd (l : Last) (acc : List Acc) (r : Rec) :
    (accStep (l, acc) r).2 = acc ++ (accStep (l, []) r).2 := by
  cases r with
  | sample pid tid t km pe ip chain =>
    simp only [accStep]
    split
    · simp
    · split <;> simp
  | exit pid tid t => simp only [accStep]; split <;> simp
  | comm pid tid nm ex t =>
    cases ex
    · simp [accStep]
    · simp only [accStep]; split <;> simp
  | fork => simp [accStep]
  | mmap2 => simp [accStep]
  | switchIn => simp [accStep]
  | switchOut => simp [accStep]
  | sched => simp [accStep]
  | otherEvent => simp [accStep]

theorem newSpec_proj (last : Last) (l : Life.S) (r : Rec) :
    (newSpec last l r).map (fun a => (a.pid, a.tid, a.t)) =
      (accStep (last, []) r).2.map (fun a => (a.pid, a.tid, a.t)) := by
  cases r with
  | sample pid tid t km pe ip chain =>
    by_cases h0 : tid = 0
    · simp [newSpec, accStep, h0]
    · by_cases hd : lastGet last pid tid = some t
      · simp [newSpec, accStep, h0, hd]
      · simp [newSpec, accStep, h0, hd]
  | exit pid tid t => simp only [newSpec, accStep]; split <;> rfl
  | comm pid tid nm ex t =>
    cases ex
    · rfl
    · simp only [newSpec, accStep]; split <;> rfl
  | fork => rfl
  | mmap2 => rfl
  | switchIn => rfl
  | switchOut => rfl
  | sched => rfl
  | otherEvent => rfl

theorem acceptedInc_fold_proj (rs : List Rec) :
    ∀ (last : Last) (l : Life.S) (out : List AccI) (acc : List Acc),
      out.map (fun a => (a.pid, a.tid, a.t)) = acc.map (fun a => (a.pid, a.tid, a.t)) →
      (rs.foldl accIncStep ((last, l), out)).2.map (fun a => (a.pid, a.tid, a.t)) =
        (rs.foldl accStep (last, acc)).2.map (fun a => (a.pid, a.tid, a.t)) := by
  induction rs with
  | nil => intro last l out acc h; exact h
  | cons r rs ih =>
    intro last l out acc h
    rw [List.foldl_cons, List.foldl_cons, accIncStep_eq]
    have e : accStep (last, acc) r = ((accStep (last, []) r).1, acc ++ (accStep (last, []) r).2) := by
      rw [← accStep_snd, ← accStep_fst last acc r]
    rw [e]
    apply ih
    rw [List.map_append, List.map_append, h, newSpec_proj]

/-- the incarnation-tagged samples are the accepted samples (same pid, tid, time, same order) -/
theorem acceptedInc_accepted (ref : Nat) (rs : List Rec) :
    (acceptedInc ref rs).map (fun a => (a.pid, a.tid, a.t)) = (accepted rs).map (fun a => (a.pid, a.tid, a.t)) :=
  acceptedInc_fold_proj rs [] _ [] [] rfl

end Conv
