import SamplyModel.Lemmas.ConvEntry
/-!
convD3: conservation of marker items. Every sample of another event (`Rec.otherEvent`) puts exactly one marker item
into the buffer of its process, tagged with the record's pid / tid and its converted time; no other record creates,
removes or duplicates a marker item (EXIT / EXEC park the buffer with its marker items). Same route as `ConvEntry`
(`Psi`): sums over the process table through the handle-free observations of `ConvObs`.
-/
namespace Conv
open ConvSpec

/-- the marker items of a buffer, keyed by the ids of the record they were made from and the converted time -/
def projM (us : List USample) : List (Nat × Nat × Nat) :=
  (us.filter (fun u => u.marker)).map (fun u => (u.gpid, u.gtid, u.t))

theorem projM_append (a b : List USample) : projM (a ++ b) = projM a ++ projM b := by
  simp [projM, List.filter_append]

theorem projM_none {us : List USample} (h : ∀ u ∈ us, u.marker = false) : projM us = [] := by
  unfold projM
  rw [List.filter_eq_nil_iff.mpr]
  · rfl
  · intro u hu; simp [h u hu]

def PsiM (s : St) : List (Nat × Nat × Nat) :=
  s.parked.flatMap (fun b => projM b.1) ++ s.procs.flatMap (FF (fun _ o => projM o.samples))

theorem projM_flatMap {α} (l : List α) (f : α → List USample) :
    projM (l.flatMap f) = l.flatMap (fun x => projM (f x)) := by
  induction l with
  | nil => rfl
  | cons a t ih => rw [List.flatMap_cons, projM_append, ih, List.flatMap_cons]

theorem PsiM_eq (s : St) : PsiM s = projM (buffered s) := by
  unfold PsiM buffered bufP
  rw [projM_append, projM_flatMap, projM_flatMap]
  rfl

theorem psim_same {s s' : St} (hn : NodupKeys s.procs) (hn' : NodupKeys s'.procs)
    (hobs : ∀ a, (pobs s'.procs a).samples = (pobs s.procs a).samples) (hp : s'.parked = s.parked) :
    List.Perm (PsiM s') (PsiM s) := by
  unfold PsiM
  rw [hp]
  exact List.Perm.append_left _ (flatMap_perm_of_obs _ _ (fun _ => rfl) (fun _ => rfl) hn hn'
    (fun a => by simp only [hobs a]))

theorem psim_remove {s s' : St} {pid : Nat} (hn : NodupKeys s.procs) (hn' : NodupKeys s'.procs)
    (hobs : ∀ a, pobs s'.procs a = upd (pobs s.procs) pid PObs.empty a)
    (hp : s'.parked = s.parked ++ park (pobs s.procs pid) pid) : List.Perm (PsiM s') (PsiM s) := by
  obtain ⟨R, p1, p2⟩ := flatMap_perm_except (fun _ o => projM o.samples) (fun _ o => projM o.samples)
    (fun _ => rfl) (fun _ => rfl) hn hn' pid (fun a ha => by rw [hobs a]; unfold upd; rw [if_neg ha])
  have e2 : projM (pobs s'.procs pid).samples = [] := by rw [hobs pid]; unfold upd; rw [if_pos rfl]; rfl
  rw [e2] at p2
  have e3 : (park (pobs s.procs pid) pid).flatMap (fun b => projM b.1) = projM (pobs s.procs pid).samples := by
    unfold park
    split
    · next he => rw [List.isEmpty_iff.mp he]; rfl
    · simp
  unfold PsiM
  rw [hp, List.flatMap_append, e3, List.append_assoc]
  exact List.Perm.append_left _ ((List.Perm.append_left _ p2).trans p1.symm)

theorem psim_append {s s' : St} {pid : Nat} {new : List USample} (hn : NodupKeys s.procs)
    (hn' : NodupKeys s'.procs)
    (hobs : ∀ a, (pobs s'.procs a).samples = if a = pid then (pobs s.procs pid).samples ++ new
      else (pobs s.procs a).samples)
    (hp : s'.parked = s.parked) : List.Perm (PsiM s') (PsiM s ++ projM new) := by
  obtain ⟨R, p1, p2⟩ := flatMap_perm_except (fun _ o => projM o.samples) (fun _ o => projM o.samples)
    (fun _ => rfl) (fun _ => rfl) hn hn' pid (fun a ha => by simp only [hobs a, if_neg ha])
  have e2 : projM (pobs s'.procs pid).samples = projM (pobs s.procs pid).samples ++ projM new := by
    rw [hobs pid, if_pos rfl, projM_append]
  rw [e2] at p2
  unfold PsiM
  rw [hp, List.append_assoc]
  refine List.Perm.append_left _ ?_
  refine p2.trans ?_
  rw [List.append_assoc]
  refine (List.Perm.append_left _ List.perm_append_comm).trans ?_
  rw [← List.append_assoc]
  exact List.Perm.append_right _ p1.symm

/-- what a record that goes through `commitThread` does to the marker items -/
theorem psim_commit {s : St} (hinv : InvA s) (pid tid : Nat) (f : St → ThreadC → ThreadC × List USample × Bool)
    (hn' : NodupKeys (commitThread (getThread (getByPid s pid).1 (getByPid s pid).2 tid).1
          (getThread (getByPid s pid).1 (getByPid s pid).2 tid).2.1 tid
          (f (getThread (getByPid s pid).1 (getByPid s pid).2 tid).1
             (getThread (getByPid s pid).1 (getByPid s pid).2 tid).2.2)).procs) :
    List.Perm (PsiM (commitThread (getThread (getByPid s pid).1 (getByPid s pid).2 tid).1
          (getThread (getByPid s pid).1 (getByPid s pid).2 tid).2.1 tid
          (f (getThread (getByPid s pid).1 (getByPid s pid).2 tid).1
             (getThread (getByPid s pid).1 (getByPid s pid).2 tid).2.2)))
      (PsiM s ++ projM (f (getThread (getByPid s pid).1 (getByPid s pid).2 tid).1
             (getThread (getByPid s pid).1 (getByPid s pid).2 tid).2.2).2.1) := by
  obtain ⟨_, _, _, c4, c5, _, _⟩ := obs_commit hinv pid tid f
  refine psim_append (pid := pid) hinv.nodup hn' (fun a => ?_) c5
  rw [c4 a]; unfold upd
  split <;> rfl

/-- one record: the marker items of the state grow by exactly what the record stands for -/
theorem marker_step {cfg : Config} {s : St} {st : Last × List Acc} (hsim : Sim cfg s st) (r : Rec) :
    List.Perm (PsiM (step s r)) (PsiM s ++ oevOf cfg.ref r) := by
  have hinv := hsim.inv
  have hn := hinv.nodup
  have hn' : NodupKeys (step s r).procs := (step_sim hsim r).inv.nodup
  cases r with
  | fork pid tid ppid ptid t =>
    obtain ⟨o1, o2, _, _⟩ := obs_fork hinv pid tid ppid ptid t
    rw [show oevOf cfg.ref (.fork pid tid ppid ptid t) = [] from rfl, List.append_nil]
    refine psim_same hn hn' (fun a => ?_) o2
    rw [o1 a]
    split
    · unfold upd; split
      · next e => rw [e]
      · rfl
    · rfl
  | exit pid tid t =>
    obtain ⟨o1, o2, _, _⟩ := obs_exit hinv pid tid t
    rw [show oevOf cfg.ref (.exit pid tid t) = [] from rfl, List.append_nil]
    by_cases hpt : pid = tid
    · simp only [if_pos hpt] at o1 o2
      exact psim_remove hn hn' o1 o2
    · simp only [if_neg hpt] at o1 o2
      refine psim_same hn hn' (fun a => ?_) o2
      rw [o1 a]; unfold upd; split
      · next e => rw [e]; rfl
      · rfl
  | comm pid tid name isExec t =>
    obtain ⟨o1, o2, _, _⟩ := obs_comm hinv pid tid name isExec t
    rw [show oevOf cfg.ref (.comm pid tid name isExec t) = [] from rfl, List.append_nil]
    cases isExec with
    | true =>
      by_cases hpt : pid = tid
      · simp only [if_true, hpt, decide_true, Bool.and_self] at o1 o2
        subst hpt
        exact psim_remove hn hn' o1 o2
      · simp only [if_true, hpt, decide_false, Bool.and_false, Bool.false_eq_true, if_false] at o1 o2
        refine psim_same hn hn' (fun a => ?_) o2
        rw [o1 a]; unfold upd; split
        · next e => rw [e]; rfl
        · rfl
    | false =>
      simp only [Bool.false_eq_true, if_false, Bool.false_and] at o1 o2
      exact psim_same hn hn' (fun a => by rw [o1 a]) o2
  | mmap2 pid tid addr len pgoff exec path t =>
    obtain ⟨o1, o2, _, _⟩ := obs_mmap2 hinv pid tid addr len pgoff exec path t
    rw [show oevOf cfg.ref (.mmap2 pid tid addr len pgoff exec path t) = [] from rfl, List.append_nil]
    refine psim_same hn hn' (fun a => ?_) o2
    rw [o1 a]
    split
    · unfold upd; split
      · next e => rw [e]
      · rfl
    · rfl
  | switchIn pid tid t =>
    rw [show oevOf cfg.ref (.switchIn pid tid t) = [] from rfl, List.append_nil]
    by_cases h0 : tid = 0
    · have hstep : step s (.switchIn pid tid t) = s := by rw [h0]; simp [step]
      rw [hstep]
    · have e : step s (.switchIn pid tid t) =
          commitThread (getThread (getByPid s pid).1 (getByPid s pid).2 tid).1
            (getThread (getByPid s pid).1 (getByPid s pid).2 tid).2.1 tid
            (wake (getThread (getByPid s pid).1 (getByPid s pid).2 tid).1
              (getThread (getByPid s pid).1 (getByPid s pid).2 tid).2.2 (.switchIn t) pid tid) := by
        simp [step, h0]
      rw [e] at hn' ⊢
      have := psim_commit hinv pid tid (fun s2 th => wake s2 th (.switchIn t) pid tid) hn'
      rw [projM_none (wake_nomarker _ _ _ _ _), List.append_nil] at this
      exact this
  | switchOut pid tid t =>
    rw [show oevOf cfg.ref (.switchOut pid tid t) = [] from rfl, List.append_nil]
    by_cases h0 : tid = 0
    · have hstep : step s (.switchOut pid tid t) = s := by rw [h0]; simp [step]
      rw [hstep]
    · have e : step s (.switchOut pid tid t) =
          commitThread (getThread (getByPid s pid).1 (getByPid s pid).2 tid).1
            (getThread (getByPid s pid).1 (getByPid s pid).2 tid).2.1 tid
            (switchOutThread (getThread (getByPid s pid).1 (getByPid s pid).2 tid).1
              (getThread (getByPid s pid).1 (getByPid s pid).2 tid).2.2 t) := by
        simp [step, h0]
      rw [e] at hn' ⊢
      have := psim_commit hinv pid tid (fun s2 th => switchOutThread s2 th t) hn'
      simpa [switchOutThread, projM] using this
  | sched pid tid t km ip chain =>
    rw [show oevOf cfg.ref (.sched pid tid t km ip chain) = [] from rfl, List.append_nil]
    have e : step s (.sched pid tid t km ip chain) =
        commitThread (getThread (getByPid s pid).1 (getByPid s pid).2 tid).1
          (getThread (getByPid s pid).1 (getByPid s pid).2 tid).2.1 tid
          (schedThread (getThread (getByPid s pid).1 (getByPid s pid).2 tid).1
            (getThread (getByPid s pid).1 (getByPid s pid).2 tid).2.2 t
            (sampleStack (getThread (getByPid s pid).1 (getByPid s pid).2 tid).1.cfg km ip chain)) := rfl
    rw [e] at hn' ⊢
    have := psim_commit hinv pid tid (fun s2 th => schedThread s2 th t (sampleStack s2.cfg km ip chain)) hn'
    rw [(schedThread_spec _ _ _ _).2.2.2] at this
    simpa [projM] using this
  | otherEvent pid tid t km ip chain =>
    have e : step s (.otherEvent pid tid t km ip chain) =
        commitThread (getThread (getByPid s pid).1 (getByPid s pid).2 tid).1
          (getThread (getByPid s pid).1 (getByPid s pid).2 tid).2.1 tid
          (otherEventThread (getThread (getByPid s pid).1 (getByPid s pid).2 tid).1
            (getThread (getByPid s pid).1 (getByPid s pid).2 tid).2.2 pid tid t
            (sampleStack (getThread (getByPid s pid).1 (getByPid s pid).2 tid).1.cfg km ip chain)) := rfl
    rw [e] at hn' ⊢
    obtain ⟨c1, _, _, _, _, _, _⟩ := obs_commit hinv pid tid
      (fun s2 th => otherEventThread s2 th pid tid t (sampleStack s2.cfg km ip chain))
    have := psim_commit hinv pid tid
      (fun s2 th => otherEventThread s2 th pid tid t (sampleStack s2.cfg km ip chain)) hn'
    refine this.trans (List.Perm.of_eq ?_)
    congr 1
    have hc : (getThread (getByPid s pid).1 (getByPid s pid).2 tid).1.cfg = cfg := c1.trans hsim.hcfg
    simp only [otherEventThread, projM, markerItem, List.filter_cons, USample.marker_mk, ItemKind.marker_beq,
      if_true, List.filter_nil, List.map_cons, List.map_nil, oevOf, conv, hc]
  | sample pid tid t km period ip chain =>
    rw [show oevOf cfg.ref (.sample pid tid t km period ip chain) = [] from rfl, List.append_nil]
    by_cases h0 : tid = 0
    · have hstep : step s (.sample pid tid t km period ip chain) = s := by rw [h0]; simp [step]
      rw [hstep]
    · have hinv0 : InvA { s with cur := t } := ((skel_cur s t).goodT hinv).inv
      obtain ⟨_, _, c3, _, _, _, _⟩ := obs_commit hinv0 pid tid
        (fun s2 th => sampleThread s2 th pid tid t period (sampleStack s2.cfg km ip chain))
      rw [LifeL.step_sample, if_neg h0] at hn' ⊢
      simp only [] at hn' ⊢
      have hpsi := psim_commit hinv0 pid tid
        (fun s2 th => sampleThread s2 th pid tid t period (sampleStack s2.cfg km ip chain))
      generalize getThread (getByPid { s with cur := t } pid).1 (getByPid { s with cur := t } pid).2 tid = gt at *
      split
      · next hd =>
        rw [if_pos hd] at hn'
        exact psim_same hn hn' (fun a => by rw [c3.obs a]) c3.parked
      · next hd =>
        rw [if_neg hd] at hn'
        have hps := hpsi hn'
        rw [projM_none (sampleThread_nomarker _ _ _ _ _ _ _), List.append_nil] at hps
        exact hps

/-- **Conservation of marker items**: in every reachable state (every configuration, every history) the buffered
marker items are, as a multiset of (pid, tid, converted time), exactly the other-event samples of the history -/
theorem marker_run (cfg : Config) (rs : List Rec) :
    List.Perm (projM (buffered (run cfg rs))) (oevs cfg.ref rs) := by
  suffices h : ∀ (s : St) (st : Last × List Acc), Sim cfg s st →
      List.Perm (PsiM (rs.foldl step s)) (PsiM s ++ oevs cfg.ref rs) by
    have h0 := h (St.init cfg) ([], []) (Sim.init cfg)
    rw [PsiM_eq] at h0
    have e : PsiM (St.init cfg) = [] := rfl
    rw [e, List.nil_append] at h0
    exact h0
  induction rs with
  | nil => intro s st _; simp [oevs]
  | cons r rs ih =>
    intro s st hs
    have h1 := ih (step s r) (accStep st r) (step_sim hs r)
    have h2 := marker_step hs r
    refine h1.trans ?_
    simp only [oevs, List.flatMap_cons]
    rw [← List.append_assoc]
    exact List.Perm.append_right _ h2

/-- the marker stacks of the views, keyed by the ids of their thread entry and the marker's time, are the buffered
marker items -/
theorem views_markers_buffered (cfg : Config) (s : St) (st : Last × List Acc) (hsim : Sim cfg s st)
    (hr : cfg.reuse = false) :
    List.Perm ((views s).flatMap (fun v => v.markers.map (fun o => (v.pidBase, v.tidBase, o.t))))
      (projM (buffered s)) := by
  have hinv := hsim.inv
  have hsok : ∀ u ∈ buffered s, u.th < (tsk s.tents).length := fun u hu => (hsim.sok u hu).1
  have hv : ∀ te ∈ s.tents, te.proc < s.pents.length := by
    intro te hte
    have := hinv.tents (te.proc, te.tid) (List.mem_map_of_mem (f := fun e : TEntry => (e.proc, e.tid)) hte)
    simpa [psk] using this
  have hout : ∀ o ∈ flushAll s, o.1 < s.tents.length := by
    intro o ho
    have hm : (o.1, o.2.t, o.2.weight, o.2.synth) ∈ (flushAll s).map (fun o => (o.1, o.2.t, o.2.weight, o.2.synth)) :=
      List.mem_map_of_mem (f := fun o : Nat × OutSample => (o.1, o.2.t, o.2.weight, o.2.synth)) ho
    rw [flushAll_proj] at hm
    obtain ⟨u, hu, heq⟩ := List.mem_map.mp hm
    have h1 : u.th = o.1 := congrArg Prod.fst heq
    have := hsok u hu
    simp only [tsk, List.length_map] at this
    omega
  have h := views_perm_markers s (flushAll s) (fun v o => (v.pidBase, v.tidBase, o.t))
    (fun i o => ((entKey s i).1, (entKey s i).2, o.t)) hv hout
    (fun i te v hte hvw o => by
      have := viewOf_key hte hvw
      simp only [← this])
  unfold views
  refine h.trans (List.Perm.of_eq ?_)
  have e1 : ((flushAll s).filter (fun o => o.2.marker)).map (fun o => ((entKey s o.1).1, (entKey s o.1).2, o.2.t)) =
      ((((flushAll s).map (fun o => (o.1, o.2.t, o.2.weight, o.2.kind))).filter
        (fun x => x.2.2.2 == ItemKind.marker)).map (fun x => ((entKey s x.1).1, (entKey s x.1).2, x.2.1))) := by
    rw [List.filter_map, List.map_map]; rfl
  rw [e1, flushAll_kind, List.filter_map, List.map_map]
  unfold projM
  apply List.map_congr_left
  intro u hu
  have hu1 := (List.mem_filter.mp hu).1
  obtain ⟨ph, h3, h4⟩ := (hsim.sok u hu1).2 (by rw [hsim.hcfg]; exact hr)
  show ((entKey s u.th).1, (entKey s u.th).2, u.t) = (u.gpid, u.gtid, u.t)
  rw [entKey_of_skel h3 h4]

end Conv
