import SamplyModel.Model.ContextSwitch
/-! Helper lemmas for C12: the one-step invariant relating the module state to the bare history. -/
namespace CS

def stTime : TState → Option Nat
  | .unknown => none
  | .off t => some t
  | .on t => some t

def GroupOk (interval : Nat) (g : Group) : Prop :=
  g.begin_ ≤ g.end_ ∧ 1 ≤ g.count ∧ g.end_ - g.begin_ = (g.count - 1) * interval

/-- relation between module state and bare-history spec state -/
def Link (interval : Nat) (st : St) (h : H) (ngroups : Nat) : Prop :=
  match st.state, h.last, h.sleepStart with
  | .unknown, none, none => ngroups * interval + st.offAcc = h.sleeping
  | .on t, some (t', true), none => t = t' ∧ ngroups * interval + st.offAcc = h.sleeping
  | .off t, some (t', false), some s =>
      t = s ∧ t ≤ t' ∧ ngroups * interval + st.offAcc + (t' - t) = h.sleeping
  | _, _, _ => False

def Inv (interval : Nat) (a : Acc) : Prop :=
  a.handed + a.st.onAcc = a.h.running ∧ a.st.offAcc < interval ∧
  Link interval a.st a.h (groupCount a.groups) ∧
  (∀ g ∈ a.groups, GroupOk interval g) ∧
  a.groups.Pairwise (fun g1 g2 => g1.end_ < g2.begin_) ∧
  (∀ g ∈ a.groups, ∀ t, stTime a.st.state = some t → g.end_ ≤ t) ∧
  (a.st.state = .unknown → a.groups = [])

theorem maybeConsume_spec (interval ts offAcc : Nat) (hi : 0 < interval) :
    (maybeConsume interval ts offAcc).1 < interval ∧
    ((maybeConsume interval ts offAcc).2.map (·.count)).getD 0 * interval
      + (maybeConsume interval ts offAcc).1 = offAcc := by
  unfold maybeConsume
  by_cases h : offAcc < interval
  · simp [h]
  · simp only [h, if_false, Option.map_some, Option.getD_some]
    have hdm := Nat.div_add_mod offAcc interval
    have hml := Nat.mod_lt offAcc hi
    have hmul : offAcc / interval * interval = interval * (offAcc / interval) := Nat.mul_comm _ _
    constructor <;> omega

/-- group lies strictly inside the sleep `[t0, ts]` that triggered it, and all checked operations
of `maybe_consume_off_cpu` succeed -/
theorem maybeConsume_inside (interval ts t0 prevOff : Nat) (hi : 0 < interval)
    (hp : prevOff < interval) (ht : t0 ≤ ts) :
    maybeConsumeSafe interval ts (prevOff + (ts - t0)) = true ∧
    ∀ g, (maybeConsume interval ts (prevOff + (ts - t0))).2 = some g →
      t0 < g.begin_ ∧ g.begin_ ≤ g.end_ ∧ g.end_ ≤ ts ∧
      g.end_ - g.begin_ = (g.count - 1) * interval ∧ 1 ≤ g.count := by
  unfold maybeConsume maybeConsumeSafe
  by_cases h : prevOff + (ts - t0) < interval
  · simp [h]
  · simp only [h, if_false, Option.some.injEq]
    have hdm := Nat.div_add_mod (prevOff + (ts - t0)) interval
    have hml := Nat.mod_lt (prevOff + (ts - t0)) hi
    have hc1 : 1 ≤ (prevOff + (ts - t0)) / interval := Nat.div_pos (by omega) hi
    generalize (prevOff + (ts - t0)) / interval = q at *
    generalize (prevOff + (ts - t0)) % interval = r at *
    have hq : q * interval = interval * q := Nat.mul_comm _ _
    have hq1 : (q - 1) * interval = interval * q - interval := by
      rw [Nat.sub_mul, Nat.one_mul, hq]
    have hpq : interval ≤ interval * q := by
      have : interval * 1 ≤ interval * q := Nat.mul_le_mul_left _ hc1
      omega
    rw [hq, hq1]
    generalize interval * q = pq at *
    refine ⟨?_, ?_⟩
    · simp only [Bool.and_eq_true, decide_eq_true_eq]
      refine ⟨⟨⟨⟨⟨⟨⟨hi, hc1⟩, ?_⟩, ?_⟩, ?_⟩, ?_⟩, ?_⟩, ?_⟩ <;> omega
    · intro g hg
      subst hg
      simp only
      refine ⟨by omega, by omega, by omega, by omega, hc1⟩

end CS

namespace CS

theorem groupCount_append (gs : List Group) (o : Option Group) :
    groupCount (gs ++ o.toList) = groupCount gs + (o.map (·.count)).getD 0 := by
  cases o <;> simp [groupCount]

/-- the invariant pieces about the group list after possibly appending a new group -/
theorem groups_step (interval : Nat) (gs : List Group) (o : Option Group) (t0 ts : Nat)
    (hok : ∀ g ∈ gs, GroupOk interval g)
    (hpw : gs.Pairwise (fun g1 g2 => g1.end_ < g2.begin_))
    (hb : ∀ g ∈ gs, g.end_ ≤ t0)
    (hnew : ∀ g, o = some g → t0 < g.begin_ ∧ g.end_ ≤ ts ∧ GroupOk interval g) (h0 : t0 ≤ ts) :
    (∀ g ∈ gs ++ o.toList, GroupOk interval g) ∧
    (gs ++ o.toList).Pairwise (fun g1 g2 => g1.end_ < g2.begin_) ∧
    (∀ g ∈ gs ++ o.toList, g.end_ ≤ ts) := by
  cases o with
  | none =>
    simp only [Option.toList_none, List.append_nil]
    exact ⟨hok, hpw, fun g hg => Nat.le_trans (hb g hg) h0⟩
  | some g =>
    obtain ⟨h1, h2, h3⟩ := hnew g rfl
    refine ⟨?_, ?_, ?_⟩
    · intro x hx
      simp only [Option.toList_some, List.mem_append, List.mem_singleton] at hx
      rcases hx with hx | hx
      · exact hok x hx
      · subst hx; exact h3
    · simp only [Option.toList_some]
      rw [List.pairwise_append]
      refine ⟨hpw, List.pairwise_singleton _ _, ?_⟩
      intro a ha b hb'
      simp only [List.mem_singleton] at hb'
      subst hb'
      have := hb a ha
      omega
    · intro x hx
      simp only [Option.toList_some, List.mem_append, List.mem_singleton] at hx
      rcases hx with hx | hx
      · exact Nat.le_trans (hb x hx) h0
      · subst hx; exact h2

end CS

namespace CS

/-- what one step guarantees, starting from a state that satisfies the invariant -/
structure StepFacts (interval : Nat) (a : Acc) (e : Ev) : Prop where
  inv : Inv interval (accStep interval a e)
  safe : stepSafe interval a.st e = true
  inside : ∀ g, (step interval a.st e).2.1 = some g →
    ∃ t0 ts, a.h.sleepStart = some t0 ∧ e.time? = some ts ∧
      t0 < g.begin_ ∧ g.begin_ ≤ g.end_ ∧ g.end_ ≤ ts ∧ GroupOk interval g

/-- the step out of a sleeping state through switch-in or sample -/
theorem wake_facts (interval : Nat) (hi : 0 < interval) (on off t0 t' run slp handed : Nat)
    (groups : List Group) (u : Nat) (e : Ev) (he : e = .switchIn u ∨ e = .sample u)
    (hinv : Inv interval ⟨⟨.off t0, on, off⟩, ⟨some (t', false), some t0, run, slp⟩, handed, groups⟩)
    (ht : t' ≤ u) :
    StepFacts interval ⟨⟨.off t0, on, off⟩, ⟨some (t', false), some t0, run, slp⟩, handed, groups⟩ e := by
  obtain ⟨h1, h2, h3, h4, h5, h6, _⟩ := hinv
  simp only [Link] at h3
  obtain ⟨_, h3b, h3c⟩ := h3
  simp only at h1 h2 h3b h3c h4 h5 h6
  have hle : t0 ≤ u := Nat.le_trans h3b ht
  have hm := maybeConsume_spec interval u (off + (u - t0)) hi
  have hin := maybeConsume_inside interval u t0 off hi h2 hle
  have hgs := groups_step interval groups (maybeConsume interval u (off + (u - t0))).2 t0 u h4 h5
    (fun g hg => h6 g hg t0 rfl)
    (fun g hg => by
      obtain ⟨a1, a2, a3, a4, a5⟩ := hin.2 g hg
      exact ⟨a1, a3, a2, a5, a4⟩) hle
  have hst : step interval ⟨.off t0, on, off⟩ e =
      (⟨.on u, on, (maybeConsume interval u (off + (u - t0))).1⟩,
        (maybeConsume interval u (off + (u - t0))).2, none) := by
    rcases he with he | he <;> subst he <;> rfl
  have hh : hstep ⟨some (t', false), some t0, run, slp⟩ e = ⟨some (u, true), none, run, slp + (u - t')⟩ := by
    rcases he with he | he <;> subst he <;> rfl
  refine ⟨?_, ?_, ?_⟩
  · simp only [Inv, accStep, hst, hh, Option.getD_none, Nat.add_zero, Link, groupCount_append]
    refine ⟨h1, hm.1, ⟨trivial, ?_⟩, hgs.1, hgs.2.1, ?_, ?_⟩
    · rw [Nat.add_mul]; omega
    · intro g hg t htt
      simp only [stTime, Option.some.injEq] at htt
      subst htt
      exact hgs.2.2 g hg
    · intro h; cases h
  · rcases he with he | he <;> subst he <;>
      simp only [stepSafe, Bool.and_eq_true, decide_eq_true_eq] <;> exact ⟨hle, hin.1⟩
  · intro g hg
    rw [hst] at hg
    simp only at hg
    obtain ⟨a1, a2, a3, a4, a5⟩ := hin.2 g hg
    refine ⟨t0, u, rfl, ?_, a1, a2, a3, a2, a5, a4⟩
    rcases he with he | he <;> subst he <;> rfl

end CS

namespace CS

theorem step_facts (interval : Nat) (hi : 0 < interval) (a : Acc) (e : Ev)
    (hinv : Inv interval a) (ht : timeOk a.h e) : StepFacts interval a e := by
  obtain ⟨⟨s, on, off⟩, ⟨last, ss, run, slp⟩, handed, groups⟩ := a
  have hinv' := hinv
  obtain ⟨h1, h2, h3, h4, h5, h6, h7⟩ := hinv
  simp only at h1 h2 h4 h5 h6 h7
  cases s with
  | unknown =>
    have hg : groups = [] := h7 rfl
    subst hg
    cases last <;> cases ss <;> simp only [Link] at h3
    cases e <;> refine ⟨?_, rfl, ?_⟩ <;>
      first
        | (intro g hg; simp [step] at hg)
        | (simp [Inv, accStep, step, hstep, gap, Link, groupCount, stTime] at h1 h3 ⊢; omega)
  | on t =>
    cases last with
    | none => simp only [Link] at h3
    | some p =>
      obtain ⟨t', b⟩ := p
      cases b <;> cases ss <;> simp only [Link] at h3
      obtain ⟨h3a, h3b⟩ := h3
      subst h3a
      have hb : ∀ g ∈ groups, g.end_ ≤ t := fun g hg => h6 g hg t rfl
      cases e with
      | consume =>
        refine ⟨?_, rfl, ?_⟩
        · simp only [Inv, accStep, step, hstep, Option.getD_some, Option.toList_none,
            List.append_nil, Link]
          exact ⟨by omega, h2, ⟨trivial, h3b⟩, h4, h5, h6, h7⟩
        · intro g hg; simp [step] at hg
      | switchIn u =>
        simp only [timeOk, Ev.time?] at ht
        refine ⟨?_, by simpa [stepSafe] using ht, ?_⟩
        · simp only [Inv, accStep, step, hstep, gap, Option.getD_none, Option.toList_none,
            List.append_nil, Link, Nat.add_zero]
          refine ⟨by omega, h2, ⟨rfl, h3b⟩, h4, h5, ?_, fun h => by cases h⟩
          intro g hg x hx
          simp only [stTime, Option.some.injEq] at hx
          have := hb g hg; omega
        · intro g hg; simp [step] at hg
      | sample u =>
        simp only [timeOk, Ev.time?] at ht
        refine ⟨?_, by simpa [stepSafe] using ht, ?_⟩
        · simp only [Inv, accStep, step, hstep, gap, Option.getD_none, Option.toList_none,
            List.append_nil, Link, Nat.add_zero]
          refine ⟨by omega, h2, ⟨rfl, h3b⟩, h4, h5, ?_, fun h => by cases h⟩
          intro g hg x hx
          simp only [stTime, Option.some.injEq] at hx
          have := hb g hg; omega
        · intro g hg; simp [step] at hg
      | switchOut u =>
        simp only [timeOk, Ev.time?] at ht
        refine ⟨?_, by simpa [stepSafe] using ht, ?_⟩
        · simp only [Inv, accStep, step, hstep, gap, Option.getD_none, Option.toList_none,
            List.append_nil, Link, Nat.add_zero]
          refine ⟨by omega, h2, ⟨rfl, Nat.le_refl _, by omega⟩, h4, h5, ?_, fun h => by cases h⟩
          intro g hg x hx
          simp only [stTime, Option.some.injEq] at hx
          have := hb g hg; omega
        · intro g hg; simp [step] at hg
  | off t =>
    cases last with
    | none => simp only [Link] at h3
    | some p =>
      obtain ⟨t', b⟩ := p
      cases b <;> cases ss <;> simp only [Link] at h3
      rename_i s0
      obtain ⟨h3a, h3b, h3c⟩ := h3
      subst h3a
      cases e with
      | consume =>
        refine ⟨?_, rfl, ?_⟩
        · simp only [Inv, accStep, step, hstep, Option.getD_some, Option.toList_none,
            List.append_nil, Link]
          exact ⟨by omega, h2, ⟨trivial, h3b, h3c⟩, h4, h5, h6, h7⟩
        · intro g hg; simp [step] at hg
      | switchOut u =>
        simp only [timeOk, Ev.time?] at ht
        refine ⟨?_, rfl, ?_⟩
        · simp only [Inv, accStep, step, hstep, gap, Option.getD_none, Option.toList_none,
            List.append_nil, Link, Nat.add_zero]
          exact ⟨h1, h2, ⟨rfl, by omega, by omega⟩, h4, h5, h6, h7⟩
        · intro g hg; simp [step] at hg
      | switchIn u =>
        simp only [timeOk, Ev.time?] at ht
        exact wake_facts interval hi on off t t' run slp handed groups u _ (Or.inl rfl) hinv' ht
      | sample u =>
        simp only [timeOk, Ev.time?] at ht
        exact wake_facts interval hi on off t t' run slp handed groups u _ (Or.inr rfl) hinv' ht

theorem inv_init (interval : Nat) (hi : 0 < interval) : Inv interval Acc.init := by
  simp [Inv, Acc.init, St.init, H.init, Link, groupCount, hi]

end CS

namespace CS

def spec (evs : List Ev) : H := evs.foldl hstep H.init

theorem foldl_h (interval : Nat) (evs : List Ev) (a : Acc) :
    (evs.foldl (accStep interval) a).h = evs.foldl hstep a.h := by
  induction evs generalizing a with
  | nil => rfl
  | cons e es ih => simp only [List.foldl_cons]; rw [ih]; rfl

theorem run_h (interval : Nat) (evs : List Ev) : (run interval evs).h = spec evs :=
  foldl_h interval evs Acc.init

theorem foldl_inv (interval : Nat) (hi : 0 < interval) (evs : List Ev) (a : Acc)
    (hinv : Inv interval a) (hn : Nondecr a.h evs) : Inv interval (evs.foldl (accStep interval) a) := by
  induction evs generalizing a with
  | nil => exact hinv
  | cons e es ih =>
    simp only [List.foldl_cons]
    exact ih _ (step_facts interval hi a e hinv hn.1).inv hn.2

theorem run_inv (interval : Nat) (hi : 0 < interval) (evs : List Ev) (hn : Nondecr H.init evs) :
    Inv interval (run interval evs) :=
  foldl_inv interval hi evs Acc.init (inv_init interval hi) hn

theorem nondecr_append (h : H) (pre : List Ev) (e : Ev) (hn : Nondecr h (pre ++ [e])) :
    Nondecr h pre ∧ timeOk (pre.foldl hstep h) e := by
  induction pre generalizing h with
  | nil => exact ⟨trivial, hn.1⟩
  | cons x xs ih =>
    obtain ⟨h1, h2⟩ := ih (hstep h x) hn.2
    exact ⟨⟨hn.1, h1⟩, h2⟩

end CS
