import SamplyModel.Model.SymbolList
/-!
Lemmas about the shared search core of the three symbol lookups (C05): `ub`, `bsearch`, `pickIndex`,
the memo table, and sort + dedup.
-/
namespace SymLookup

theorem pickIndex_eq (keys : List Nat) (a : Nat) :
    pickIndex keys a = match ub keys a with
      | 0 => none
      | i + 1 => some i := by
  unfold pickIndex bsearch
  cases h : ub keys a with
  | zero => simp
  | succ i => by_cases hk : keys[i]? = some a <;> simp [hk]

theorem ub_le_length (ks : List Nat) (a : Nat) : ub ks a ≤ ks.length := by
  induction ks with
  | nil => simp [ub]
  | cons k ks ih => unfold ub; split <;> simp <;> omega

theorem ub_lt_le (ks : List Nat) (a : Nat) : ∀ i k, i < ub ks a → ks[i]? = some k → k ≤ a := by
  induction ks with
  | nil => intro i k h; simp [ub] at h
  | cons k0 ks ih =>
    intro i k h hk
    unfold ub at h
    split at h
    · cases i with
      | zero => simp at hk; omega
      | succ j => simp at hk; exact ih j k (by omega) hk
    · omega

theorem ub_ge_gt (ks : List Nat) (a : Nat) (hs : ks.Pairwise (· ≤ ·)) :
    ∀ i k, ub ks a ≤ i → ks[i]? = some k → a < k := by
  induction ks with
  | nil => intro i k _ hk; simp at hk
  | cons k0 ks ih =>
    intro i k h hk
    rw [List.pairwise_cons] at hs
    unfold ub at h
    split at h
    · cases i with
      | zero => omega
      | succ j => simp at hk; exact ih hs.2 j k (by omega) hk
    · cases i with
      | zero => simp at hk; omega
      | succ j =>
        simp at hk
        have := hs.1 k (List.mem_of_getElem? hk)
        omega

/-- what the chosen index satisfies on a sorted key list -/
theorem pickIndex_spec (keys : List Nat) (a : Nat) (hs : keys.Pairwise (· ≤ ·)) (i : Nat)
    (h : pickIndex keys a = some i) :
    ∃ k, keys[i]? = some k ∧ k ≤ a ∧ ∀ j k', i < j → keys[j]? = some k' → a < k' := by
  rw [pickIndex_eq] at h
  cases hu : ub keys a with
  | zero => simp [hu] at h
  | succ n =>
    simp [hu] at h
    subst h
    have hl := ub_le_length keys a
    have hlt : n < keys.length := by omega
    refine ⟨keys[n], by simp [hlt], ?_, ?_⟩
    · exact ub_lt_le keys a n _ (by omega) (by simp [hlt])
    · intro j k' hj hk'
      exact ub_ge_gt keys a hs j k' (by omega) hk'

theorem pickIndex_none (keys : List Nat) (a : Nat) (hs : keys.Pairwise (· ≤ ·))
    (h : pickIndex keys a = none) : ∀ k ∈ keys, a < k := by
  rw [pickIndex_eq] at h
  cases hu : ub keys a with
  | succ n => simp [hu] at h
  | zero =>
    intro k hk
    obtain ⟨i, hi⟩ := List.getElem?_of_mem hk
    exact ub_ge_gt keys a hs i k (by omega) hi

theorem pickIndex_lt_length (keys : List Nat) (a i : Nat) (h : pickIndex keys a = some i) :
    i < keys.length := by
  rw [pickIndex_eq] at h
  have hl := ub_le_length keys a
  cases hu : ub keys a with
  | zero => simp [hu] at h
  | succ n => simp [hu] at h; omega

/-- converse: an index with the two defining properties is the chosen one -/
theorem ub_eq (ks : List Nat) (a : Nat) : ∀ n, n ≤ ks.length →
    (∀ j k, j < n → ks[j]? = some k → k ≤ a) → (∀ k, ks[n]? = some k → a < k) → ub ks a = n := by
  induction ks with
  | nil => intro n hn _ _; simp at hn; simp [ub, hn]
  | cons k0 ks ih =>
    intro n hn h1 h2
    cases n with
    | zero =>
      have := h2 k0 (by simp)
      unfold ub; split <;> omega
    | succ m =>
      have h0 := h1 0 k0 (by omega) (by simp)
      unfold ub
      rw [if_pos h0]
      have := ih m (by simp at hn; omega) (fun j k hj hk => h1 (j + 1) k (by omega) (by simpa using hk))
        (fun k hk => h2 k (by simpa using hk))
      omega

theorem pickIndex_of_spec (keys : List Nat) (a i k : Nat) (hs : keys.Pairwise (· ≤ ·))
    (hk : keys[i]? = some k) (hle : k ≤ a) (hgt : ∀ k', keys[i + 1]? = some k' → a < k') :
    pickIndex keys a = some i := by
  have hi : i < keys.length := by
    rcases Nat.lt_or_ge i keys.length with h | h
    · exact h
    · simp [List.getElem?_eq_none h] at hk
  have : ub keys a = i + 1 := by
    apply ub_eq keys a (i + 1) (by omega)
    · intro j kj hj hkj
      rcases Nat.lt_or_ge j i with h | h
      · have hj' : j < keys.length := by omega
        have := (List.pairwise_iff_getElem.mp hs) j i hj' hi h
        simp [hj'] at hkj
        simp [hi] at hk
        omega
      · have : j = i := by omega
        subst this
        rw [hk] at hkj
        injection hkj with e
        omega
    · exact hgt
  rw [pickIndex_eq, this]

/-! ### the model's `bsearch` satisfies the `binary_search` contract -/

theorem bsearch_ok (keys : List Nat) (a i : Nat) (h : bsearch keys a = .ok i) : keys[i]? = some a := by
  unfold bsearch at h
  split at h
  · simp at h
  · split at h
    · injection h with e; subst e; assumption
    · simp at h

/-- `Err i`: everything before `i` is smaller, everything from `i` on is greater -/
theorem bsearch_err (keys : List Nat) (a i : Nat) (hs : keys.Pairwise (· ≤ ·)) (h : bsearch keys a = .err i) :
    (∀ j k, j < i → keys[j]? = some k → k < a) ∧ (∀ j k, i ≤ j → keys[j]? = some k → a < k) := by
  unfold bsearch at h
  split at h
  next hu =>
    injection h with e
    subst e
    exact ⟨fun j k hj _ => by omega, fun j k hj hk => ub_ge_gt keys a hs j k (by omega) hk⟩
  next n hu =>
    split at h
    · simp at h
    next hne =>
      injection h with e
      subst e
      have hl := ub_le_length keys a
      have hn : n < keys.length := by omega
      refine ⟨?_, fun j k hj hk => ub_ge_gt keys a hs j k (by omega) hk⟩
      intro j k hj hk
      have hkn := ub_lt_le keys a n keys[n] (by omega) (by simp [hn])
      have hnn : keys[n] ≠ a := by
        intro e; apply hne; simp [hn, e]
      rcases Nat.lt_or_ge j n with hjn | hjn
      · have hj' : j < keys.length := by omega
        have := (List.pairwise_iff_getElem.mp hs) j n hj' hn hjn
        simp [hj'] at hk
        omega
      · have : j = n := by omega
        subst this
        simp [hn] at hk
        omega

/-- on a strictly sorted list a hit is unique: whatever index a conforming `binary_search` returns for a key
that occurs, it is the one the model returns -/
theorem bsearch_hit_unique (keys : List Nat) (a i j : Nat) (hs : keys.Pairwise (· < ·))
    (hi : keys[i]? = some a) (hj : keys[j]? = some a) : i = j := by
  have hil : i < keys.length := by
    rcases Nat.lt_or_ge i keys.length with h | h
    · exact h
    · simp [List.getElem?_eq_none h] at hi
  have hjl : j < keys.length := by
    rcases Nat.lt_or_ge j keys.length with h | h
    · exact h
    · simp [List.getElem?_eq_none h] at hj
  simp [hil] at hi
  simp [hjl] at hj
  rcases Nat.lt_trichotomy i j with h | h | h
  · have := (List.pairwise_iff_getElem.mp hs) i j hil hjl h; omega
  · exact h
  · have := (List.pairwise_iff_getElem.mp hs) j i hjl hil h; omega

theorem pairwise_lt_le {l : List Nat} (h : l.Pairwise (· < ·)) : l.Pairwise (· ≤ ·) :=
  h.imp (fun h => Nat.le_of_lt h)

/-! ### memo tables -/

/-- every cached value is the value of the cached function -/
def MemoOk {β : Type} (f : Nat → Option β) (m : Memo β) : Prop :=
  ∀ k v, m.lookup k = some v → f k = some v

theorem MemoOk_nil {β : Type} (f : Nat → Option β) : MemoOk f ([] : Memo β) := by
  intro k v h; simp [List.lookup] at h

theorem Memo.get_spec {β : Type} (f : Nat → Option β) (m : Memo β) (k : Nat) (h : MemoOk f m) :
    (Memo.get f m k).2 = f k ∧ MemoOk f (Memo.get f m k).1 := by
  unfold Memo.get
  cases hl : m.lookup k with
  | some v => simp; exact ⟨(h k v hl).symm, h⟩
  | none =>
    cases hf : f k with
    | none => simp; exact h
    | some v =>
      simp
      intro k' v' h'
      simp only [List.lookup] at h'
      split at h'
      next heq =>
        have : k' = k := by simpa using heq
        subst this
        injection h' with e
        subst e
        exact hf
      next => exact h k' v' h'

theorem filterMap_congr' {α β : Type} {f g : α → Option β} : ∀ {l : List α}, (∀ x ∈ l, f x = g x) →
    l.filterMap f = l.filterMap g
  | [], _ => rfl
  | x :: xs, h => by
    have hx := h x (by simp)
    have ht := filterMap_congr' (l := xs) (fun y hy => h y (List.mem_cons_of_mem _ hy))
    simp only [List.filterMap_cons, hx, ht]

/-- walking the indices `k..k+l.length` and reading `l[i-k]?` is walking the list -/
theorem filterMap_range'_getElem? {α β : Type} (l : List α) (g : Nat → α → Option β) : ∀ k : Nat,
    (List.range' k l.length).filterMap (fun i => (l[i - k]?).bind (g i)) =
      (l.zipIdx k).filterMap (fun p => g p.2 p.1) := by
  induction l with
  | nil => intro k; simp
  | cons x xs ih =>
    intro k
    simp only [List.length_cons, List.range'_succ, List.filterMap_cons, List.zipIdx_cons, Nat.sub_self,
      List.getElem?_cons_zero, Option.bind_some]
    have : (List.range' (k + 1) xs.length).filterMap (fun i => ((x :: xs)[i - k]?).bind (g i)) =
        (List.range' (k + 1) xs.length).filterMap (fun i => (xs[i - (k + 1)]?).bind (g i)) := by
      apply filterMap_congr'
      intro i hi
      simp only [List.mem_range'_1] at hi
      have : i - k = (i - (k + 1)) + 1 := by omega
      rw [this, List.getElem?_cons_succ]
    rw [this, ih (k + 1)]

theorem filterMap_range_getElem? {α β : Type} (l : List α) (g : Nat → α → Option β) :
    (List.range l.length).filterMap (fun i => (l[i]?).bind (g i)) =
      (l.zipIdx).filterMap (fun p => g p.2 p.1) := by
  have := filterMap_range'_getElem? l g 0
  simpa [List.range_eq_range'] using this

end SymLookup
