import SamplyModel.Lemmas.QuotaInv
/-!
Helper lemmas for C15, part 3: one eviction pass (`evictCore`) on a *good* state — the root is a chain of
real directories, every recorded path is plain (no `..`, no symbolic link on the way), keys are unique,
stored sizes are valid — removes exactly the rows whose `remove_file` did not fail, and when none fails,
exactly the shortest covering LRU prefix plus the rows older than the maximum age.
-/
namespace Quota

/-- hypotheses under which the C15 theorems are stated (the excluded points are run by the harness) -/
structure Good (fs : FS) (root : Path) (inv : List Row) : Prop where
  /-- the managed root is a chain of real directories -/
  rootOk : DirChain fs [] root
  /-- every recorded relative path has no `..` and passes through no symbolic link -/
  plain : ∀ r ∈ inv, NoLinkBelow fs root r.rel
  /-- `PRIMARY KEY (Path)` -/
  nodup : (inv.map (·.rel)).Nodup
  /-- stored sizes are non-negative (`size < 2^63` when it was recorded) -/
  sizes : ∀ r ∈ inv, 0 ≤ r.size
  /-- `SUM(Size)` fits an `i64` -/
  sum : sumSizes inv < 2 ^ 63

theorem doneRels_append (a b : List Attempt) : doneRels (a ++ b) = doneRels a ++ doneRels b := by
  simp [doneRels]

theorem Good.filter {fs : FS} {root : Path} {inv : List Row} (G : Good fs root inv) (p : Row → Bool) :
    Good fs root (inv.filter p) where
  rootOk := G.rootOk
  plain := fun r hr => G.plain r (List.mem_filter.mp hr).1
  nodup := G.nodup.sublist (List.filter_sublist.map _)
  sizes := fun r hr => G.sizes r (List.mem_filter.mp hr).1
  sum := Int.lt_of_le_of_lt (sumSizes_filter_le inv p G.sizes) G.sum

theorem Good.fsChange {fs fs' : FS} {root : Path} {inv : List Row} (G : Good fs root inv)
    (h1 : DirChain fs' [] root) (h2 : ∀ q rel, NoLinkBelow fs q rel → NoLinkBelow fs' q rel) :
    Good fs' root inv where
  rootOk := h1
  plain := fun r hr => h2 _ _ (G.plain r hr)
  nodup := G.nodup
  sizes := G.sizes
  sum := G.sum

def agedB (cut : Option Nat) (x : Row) : Bool :=
  match cut with
  | none => false
  | some c => decide (x.atime < c)

/-- the rows the size pass selects: the shortest prefix of the LRU order covering the excess -/
def sizeSel (ord inv : List Row) : Option Nat → List Row
  | none => []
  | some m => selectPrefix (sumNat inv - m) ord

theorem sizeSel_prefix (ord inv : List Row) (ms : Option Nat) : sizeSel ord inv ms <+: ord := by
  cases ms with
  | none => exact List.nil_prefix
  | some m => exact selectPrefix_prefix _ _

theorem sizeCands_plain {fs : FS} {root : Path} {ord inv : List Row} (G : Good fs root inv)
    (hperm : ord.Perm inv) (ms : Option Nat) :
    sizeCands fs root ord inv ms
      = some ((sizeSel ord inv ms).map fun r => (r, root ++ r.rel)) := by
  cases ms with
  | none => rfl
  | some m =>
    simp only [sizeCands, sizeSel, sizeCandidates, totalSize_ok inv G.sizes G.sum]
    split
    · next h =>
      have : sumNat inv - m = 0 := by omega
      rw [this, selectPrefix_zero]; rfl
    · exact selectLoop_eq _ _ _ _ fun r hr =>
        convert_plain fs root r G.rootOk (G.plain r (hperm.mem_iff.mp hr)) (G.sizes r (hperm.mem_iff.mp hr))

theorem agePass_plain (now : Nat) (c : Cfg) (fs1 : FS) (inv1 : List Row) (log1 : List Attempt)
    (G1 : Good fs1 c.root inv1) (hage : ∀ a, c.maxAge = some a → a ≤ now) :
    agePass now c fs1 inv1 log1 =
      (let t2 := deleteFiles c.root fs1 inv1
          ((inv1.filter (agedB (c.maxAge.map (now - ·)))).map fun r => (r, c.root ++ r.rel))
       ⟨t2.1, t2.2.1, .ok, log1 ++ t2.2.2⟩) := by
  unfold agePass
  cases hm : c.maxAge with
  | none =>
    have : inv1.filter (agedB none) = [] := List.filter_eq_nil_iff.mpr (fun _ _ => by simp [agedB])
    simp only [Option.map_none, this, List.map_nil, deleteFiles, List.append_nil]
  | some a =>
    have ha := hage a hm
    simp only [Option.map_some]
    rw [if_neg (by omega), if_neg (by omega)]
    have : ageCandidates fs1 c.root inv1 (now - a)
        = some ((inv1.filter (agedB (some (now - a)))).map fun r => (r, c.root ++ r.rel)) := by
      unfold ageCandidates
      have hf : (inv1.filter fun r => decide (r.atime < now - a)) = inv1.filter (agedB (some (now - a))) := rfl
      rw [hf]
      exact mapConv_eq _ _ _ fun r hr =>
        convert_plain fs1 c.root r G1.rootOk (G1.plain r (List.mem_filter.mp hr).1)
          (G1.sizes r (List.mem_filter.mp hr).1)
    rw [this]

/-- what one eviction pass guarantees on a good state -/
structure EvictFacts (ord inv : List Row) (now : Nat) (c : Cfg) (fs : FS) (res : EvictRes) : Prop where
  ok : res.out = .ok
  good : Good res.fs c.root res.inv
  rows : ∀ a ∈ res.attempts, a.row ∈ inv ∧ a.path = c.root ++ a.row.rel
  invEq : res.inv = inv.filter (fun x => !(doneRels res.attempts).contains x.rel)
  removed : ∀ a ∈ res.attempts, a.res = .ok → res.fs.lookup a.path = none
  only : ∀ q, res.fs.lookup q = fs.lookup q ∨ ∃ a ∈ res.attempts, a.res = .ok ∧ q = a.path
  gone : ∀ q, fs.lookup q = none → res.fs.lookup q = none
  exact : (∀ a ∈ res.attempts, a.res ≠ .err) →
    res.inv = inv.filter (fun x =>
      decide (x ∉ sizeSel ord inv c.maxSize) && !agedB (c.maxAge.map (now - ·)) x)

theorem mem_map_rel_iff {inv sel : List Row} (hn : (inv.map (·.rel)).Nodup) (hs : ∀ y ∈ sel, y ∈ inv)
    {x : Row} (hx : x ∈ inv) : x.rel ∈ sel.map (·.rel) ↔ x ∈ sel := by
  constructor
  · intro h
    obtain ⟨y, hy, e⟩ := List.mem_map.mp h
    have := rel_inj_of_nodup hn (hs y hy) hx e
    rw [← this]; exact hy
  · intro h; exact List.mem_map.mpr ⟨x, h, rfl⟩

theorem evictCore_plain (ord inv : List Row) (now : Nat) (c : Cfg) (fs : FS) (G : Good fs c.root inv)
    (hperm : ord.Perm inv) (hage : ∀ a, c.maxAge = some a → a ≤ now) :
    EvictFacts ord inv now c fs (evictCore ord now c fs inv) := by
  unfold evictCore
  simp only
  rw [sizeCands_plain G hperm c.maxSize]
  simp only
  have hsel : ∀ y ∈ sizeSel ord inv c.maxSize, y ∈ inv := fun y hy =>
    hperm.mem_iff.mp ((sizeSel_prefix ord inv c.maxSize).subset hy)
  have D1 := deleteFiles_plain c.root (sizeSel ord inv c.maxSize) fs inv G.rootOk
    (fun r hr => G.plain r (hsel r hr))
  generalize deleteFiles c.root fs inv ((sizeSel ord inv c.maxSize).map fun r => (r, c.root ++ r.rel)) = t1 at D1
  have G1 : Good t1.1 c.root t1.2.1 := by
    rw [D1.inv]
    exact (G.fsChange D1.rootOk D1.plain).filter _
  rw [agePass_plain now c t1.1 t1.2.1 t1.2.2 G1 hage]
  simp only
  have D2 := deleteFiles_plain c.root (t1.2.1.filter (agedB (c.maxAge.map (now - ·)))) t1.1 t1.2.1
    G1.rootOk (fun r hr => G1.plain r (List.mem_filter.mp hr).1)
  generalize deleteFiles c.root t1.1 t1.2.1
    ((t1.2.1.filter (agedB (c.maxAge.map (now - ·)))).map fun r => (r, c.root ++ r.rel)) = t2 at D2
  have hsub1 : ∀ x ∈ t1.2.1, x ∈ inv := fun x hx => by
    rw [D1.inv] at hx; exact (List.mem_filter.mp hx).1
  have hinv2 : t2.2.1 = inv.filter (fun x => !(doneRels (t1.2.2 ++ t2.2.2)).contains x.rel) := by
    rw [D2.inv, D1.inv, List.filter_filter, doneRels_append]
    apply List.filter_congr
    intro x _
    simp [Bool.and_comm]
  refine ⟨rfl, ?_, ?_, hinv2, ?_, ?_, ?_, ?_⟩
  · -- good
    show Good t2.1 c.root t2.2.1
    rw [D2.inv]
    exact (G1.fsChange D2.rootOk D2.plain).filter _
  · -- rows
    intro a ha
    rcases List.mem_append.mp ha with h | h
    · refine ⟨hsel _ ?_, D1.paths a h⟩
      rw [← D1.rowsEq]; exact List.mem_map.mpr ⟨a, h, rfl⟩
    · refine ⟨hsub1 _ ?_, D2.paths a h⟩
      have : a.row ∈ t1.2.1.filter (agedB (c.maxAge.map (now - ·))) := by
        rw [← D2.rowsEq]; exact List.mem_map.mpr ⟨a, h, rfl⟩
      exact (List.mem_filter.mp this).1
  · -- removed
    intro a ha hok
    rcases List.mem_append.mp ha with h | h
    · rw [D1.paths a h]; exact D2.gone _ (D1.removed a h hok)
    · rw [D2.paths a h]; exact D2.removed a h hok
  · -- only
    intro q
    rcases D2.only q with h2 | ⟨a, ha, hok, hq⟩
    · rcases D1.only q with h1 | ⟨a, ha, hok, hq⟩
      · left; show t2.1.lookup q = fs.lookup q; rw [h2, h1]
      · right; exact ⟨a, List.mem_append_left _ ha, hok, by rw [D1.paths a ha]; exact hq⟩
    · right; exact ⟨a, List.mem_append_right _ ha, hok, by rw [D2.paths a ha]; exact hq⟩
  · -- gone
    intro q hq
    exact D2.gone q (D1.gone q hq)
  · -- exact
    intro hne
    have e1 := D1.all (fun a ha => hne a (List.mem_append_left _ ha))
    have e2 := D2.all (fun a ha => hne a (List.mem_append_right _ ha))
    show t2.2.1 = _
    rw [hinv2, doneRels_append, e1, e2]
    apply List.filter_congr
    intro x hx
    have hin1 : x ∈ t1.2.1 ↔ x ∉ sizeSel ord inv c.maxSize := by
      rw [D1.inv, e1, List.mem_filter]
      simp only [hx, true_and, Bool.not_eq_true', List.contains_eq_mem, decide_eq_false_iff_not]
      rw [mem_map_rel_iff G.nodup hsel hx]
    have hsub2 : ∀ y ∈ t1.2.1.filter (agedB (c.maxAge.map (now - ·))), y ∈ inv := fun y hy =>
      hsub1 y (List.mem_filter.mp hy).1
    by_cases hs : x ∈ sizeSel ord inv c.maxSize
    · have : x.rel ∈ (sizeSel ord inv c.maxSize).map (·.rel) := List.mem_map.mpr ⟨x, hs, rfl⟩
      simp [hs, this]
    · have h1 : x.rel ∉ (sizeSel ord inv c.maxSize).map (·.rel) := fun h =>
        hs ((mem_map_rel_iff G.nodup hsel hx).mp h)
      have h2 : x.rel ∈ (t1.2.1.filter (agedB (c.maxAge.map (now - ·)))).map (·.rel)
          ↔ agedB (c.maxAge.map (now - ·)) x = true := by
        rw [mem_map_rel_iff G.nodup hsub2 hx, List.mem_filter]
        simp [hin1.mpr hs]
      by_cases ha : agedB (c.maxAge.map (now - ·)) x = true
      · simp [hs, ha, h2.mpr ha]
      · have h3 := fun h => ha (h2.mp h)
        simp only [Bool.not_eq_true] at ha
        simp [hs, ha, h1]
        intro y hy hay e
        exact h3 (List.mem_map.mpr ⟨y, List.mem_filter.mpr ⟨hy, hay⟩, e⟩)

end Quota
