import SamplyModel.Lemmas.QuotaInv
/-!
Helper lemmas for C15, part 3: one eviction pass (`evictCore`) on a *good* state — the root is a chain of
real directories, every recorded path is plain (no `..`, no symbolic link on the way), keys are unique,
stored sizes are valid — removes exactly the rows whose `remove_file` did not fail, and when none fails,
exactly the shortest covering LRU prefix plus the rows older than the maximum age.
-/
namespace Quota

/-- hypotheses under which the C15 theorems are stated (the excluded points are run by the harness) -/
structure Good (fs : FS) (root : Path) (inv : List Row) : Prop where
  /-- the managed root is a chain of real directories -/
  rootOk : DirChain fs [] root
  /-- every recorded relative path has no `..` and passes through no symbolic link -/
  plain : ∀ r ∈ inv, NoLinkBelow fs root r.rel
  /-- `PRIMARY KEY (Path)` -/
  nodup : (inv.map (·.rel)).Nodup
  /-- stored sizes are non-negative (`size < 2^63` when it was recorded) -/
  sizes : ∀ r ∈ inv, 0 ≤ r.size
  /-- `SUM(Size)` fits an `i64` -/
  sum : sumSizes inv < 2 ^ 63

theorem doneRels_append (a b : List Attempt) : doneRels (a ++ b) = doneRels a ++ doneRels b := by
  simp [doneRels]

theorem Good.filter {fs : FS} {root : Path} {inv : List Row} (G : Good fs root inv) (p : Row → Bool) :
    Good fs root (inv.filter p) where
  rootOk := G.rootOk
  plain := fun r hr => G.plain r (List.mem_filter.mp hr).1
  nodup := G.nodup.sublist (List.filter_sublist.map _)
  sizes := fun r hr => G.sizes r (List.mem_filter.mp hr).1
  sum := Int.lt_of_le_of_lt (sumSizes_filter_le inv p G.sizes) G.sum

theorem Good.fsChange {fs fs' : FS} {root : Path} {inv : List Row} (G : Good fs root inv)
    (h1 : DirChain fs' [] root) (h2 : ∀ q rel, NoLinkBelow fs q rel → NoLinkBelow fs' q rel) :
    Good fs' root inv where
  rootOk := h1
  plain := fun r hr => h2 _ _ (G.plain r hr)
  nodup := G.nodup
  sizes := G.sizes
  sum := G.sum

theorem insertLRU_perm (r : Row) (l : List Row) : (insertLRU r l).Perm (r :: l) := by
  induction l with
  | nil => exact List.Perm.refl _
  | cons x xs ih =>
    simp only [insertLRU]
    split
    · exact ((List.Perm.cons x ih).trans (List.Perm.swap r x xs))
    · exact List.Perm.refl _

theorem sortLRU_perm (inv : List Row) : (sortLRU inv).Perm inv := by
  induction inv with
  | nil => exact List.Perm.refl _
  | cons r rs ih => exact (insertLRU_perm r _).trans (List.Perm.cons r ih)

theorem insertLRU_sorted (r : Row) (l : List Row) (h : l.Pairwise (fun a b => a.atime ≤ b.atime)) :
    (insertLRU r l).Pairwise (fun a b => a.atime ≤ b.atime) := by
  induction l with
  | nil => simp [insertLRU]
  | cons x xs ih =>
    rw [List.pairwise_cons] at h
    simp only [insertLRU]
    split
    · next hlt =>
      rw [List.pairwise_cons]
      refine ⟨fun y hy => ?_, ih h.2⟩
      rcases List.mem_cons.mp ((insertLRU_perm r xs).mem_iff.mp hy) with rfl | hy'
      · omega
      · exact h.1 y hy'
    · next hge =>
      rw [List.pairwise_cons]
      refine ⟨fun y hy => ?_, List.pairwise_cons.mpr h⟩
      rcases List.mem_cons.mp hy with rfl | hy'
      · omega
      · have := h.1 y hy'; omega

theorem sortLRU_sorted (inv : List Row) : (sortLRU inv).Pairwise (fun a b => a.atime ≤ b.atime) := by
  induction inv with
  | nil => exact List.Pairwise.nil
  | cons r rs ih => exact insertLRU_sorted r _ ih

theorem mem_sortLRU_filter (l : List Row) (p : Row → Bool) (x : Row) :
    x ∈ (sortLRU l).filter p ↔ x ∈ l.filter p := by
  simp only [List.mem_filter, (sortLRU_perm l).mem_iff]

def agedB (cut : Option Nat) (x : Row) : Bool :=
  match cut with
  | none => false
  | some c => decide (x.atime < c)

/-- the rows the size pass selects: the shortest prefix of the LRU order covering the excess -/
def sizeSel (ord inv : List Row) : Option Nat → List Row
  | none => []
  | some m => selectPrefix (sumNat inv - m) ord

theorem sizeSel_prefix (ord inv : List Row) (ms : Option Nat) : sizeSel ord inv ms <+: ord := by
  cases ms with
  | none => exact List.nil_prefix
  | some m => exact selectPrefix_prefix _ _

theorem sizeCands_plain {fs : FS} {root : Path} {ord inv : List Row} (G : Good fs root inv)
    (hperm : ord.Perm inv) (ms : Option Nat) :
    sizeCands fs root ord inv ms
      = some ((sizeSel ord inv ms).map fun r => (r, root ++ r.rel)) := by
  cases ms with
  | none => rfl
  | some m =>
    simp only [sizeCands, sizeSel, sizeCandidates, totalSize_ok inv G.sizes G.sum]
    split
    · next h =>
      have : sumNat inv - m = 0 := by omega
      rw [this, selectPrefix_zero]; rfl
    · exact selectLoop_eq _ _ _ _ fun r hr =>
        convert_plain fs root r G.rootOk (G.plain r (hperm.mem_iff.mp hr)) (G.sizes r (hperm.mem_iff.mp hr))

theorem agePass_plain (now : Nat) (c : Cfg) (fs1 : FS) (inv1 : List Row) (log1 : List Attempt)
    (G1 : Good fs1 c.root inv1) (hage : ∀ a, c.maxAge = some a → a ≤ now) :
    agePass now c fs1 inv1 log1 =
      (let t2 := deleteFiles c.root fs1 inv1
          (((sortLRU inv1).filter (agedB (c.maxAge.map (now - ·)))).map fun r => (r, c.root ++ r.rel))
       ⟨t2.1, t2.2.1, .ok, log1 ++ t2.2.2⟩) := by
  unfold agePass
  cases hm : c.maxAge with
  | none =>
    have : (sortLRU inv1).filter (agedB none) = [] := List.filter_eq_nil_iff.mpr (fun _ _ => by simp [agedB])
    simp only [Option.map_none, this, List.map_nil, deleteFiles, List.append_nil]
  | some a =>
    have ha := hage a hm
    simp only [Option.map_some]
    rw [if_neg (by omega), if_neg (by omega)]
    have : ageCandidates fs1 c.root inv1 (now - a)
        = some (((sortLRU inv1).filter (agedB (some (now - a)))).map fun r => (r, c.root ++ r.rel)) := by
      unfold ageCandidates
      have hf : ((sortLRU inv1).filter fun r => decide (r.atime < now - a))
          = (sortLRU inv1).filter (agedB (some (now - a))) := rfl
      rw [hf]
      exact mapConv_eq _ _ _ fun r hr =>
        have hm := (List.mem_filter.mp ((mem_sortLRU_filter inv1 _ r).mp hr)).1
        convert_plain fs1 c.root r G1.rootOk (G1.plain r hm) (G1.sizes r hm)
    rw [this]

/-- what one eviction pass guarantees on a good state -/
structure EvictFacts (ord inv : List Row) (now : Nat) (c : Cfg) (fs : FS) (res : EvictRes) : Prop where
  ok : res.out = .ok
  good : Good res.fs c.root res.inv
  rows : ∀ a ∈ res.attempts, a.row ∈ inv ∧ a.path = c.root ++ a.row.rel
  invEq : res.inv = inv.filter (fun x => !(doneRels res.attempts).contains x.rel)
  removed : ∀ a ∈ res.attempts, a.res = .ok → res.fs.lookup a.path = none
  only : ∀ q, res.fs.lookup q = fs.lookup q ∨ ∃ a ∈ res.attempts, a.res = .ok ∧ q = a.path
  gone : ∀ q, fs.lookup q = none → res.fs.lookup q = none
  exact : (∀ a ∈ res.attempts, a.res ≠ .err) →
    res.inv = inv.filter (fun x =>
      decide (x ∉ sizeSel ord inv c.maxSize) && !agedB (c.maxAge.map (now - ·)) x)
  /-- the order of the `remove_file` calls: the size selection in LRU order, then rows that are too old,
  oldest first -/
  order : ∃ rest, res.attempts.map (·.row) = sizeSel ord inv c.maxSize ++ rest ∧
    rest.Pairwise (fun a b => a.atime ≤ b.atime) ∧
    (∀ x ∈ rest, x ∈ inv ∧ agedB (c.maxAge.map (now - ·)) x = true)

theorem mem_map_rel_iff {inv sel : List Row} (hn : (inv.map (·.rel)).Nodup) (hs : ∀ y ∈ sel, y ∈ inv)
    {x : Row} (hx : x ∈ inv) : x.rel ∈ sel.map (·.rel) ↔ x ∈ sel := by
  constructor
  · intro h
    obtain ⟨y, hy, e⟩ := List.mem_map.mp h
    have := rel_inj_of_nodup hn (hs y hy) hx e
    rw [← this]; exact hy
  · intro h; exact List.mem_map.mpr ⟨x, h, rfl⟩

theorem evictCore_plain (ord inv : List Row) (now : Nat) (c : Cfg) (fs : FS) (G : Good fs c.root inv)
    (hperm : ord.Perm inv) (hage : ∀ a, c.maxAge = some a → a ≤ now) :
    EvictFacts ord inv now c fs (evictCore ord now c fs inv) := by
  unfold evictCore
  simp only
  rw [sizeCands_plain G hperm c.maxSize]
  simp only
  have hsel : ∀ y ∈ sizeSel ord inv c.maxSize, y ∈ inv := fun y hy =>
    hperm.mem_iff.mp ((sizeSel_prefix ord inv c.maxSize).subset hy)
  have D1 := deleteFiles_plain c.root (sizeSel ord inv c.maxSize) fs inv G.rootOk
    (fun r hr => G.plain r (hsel r hr))
  generalize deleteFiles c.root fs inv ((sizeSel ord inv c.maxSize).map fun r => (r, c.root ++ r.rel)) = t1 at D1
  have G1 : Good t1.1 c.root t1.2.1 := by
    rw [D1.inv]
    exact (G.fsChange D1.rootOk D1.plain).filter _
  rw [agePass_plain now c t1.1 t1.2.1 t1.2.2 G1 hage]
  simp only
  have D2 := deleteFiles_plain c.root ((sortLRU t1.2.1).filter (agedB (c.maxAge.map (now - ·)))) t1.1 t1.2.1
    G1.rootOk (fun r hr => G1.plain r (List.mem_filter.mp ((mem_sortLRU_filter _ _ r).mp hr)).1)
  generalize deleteFiles c.root t1.1 t1.2.1
    (((sortLRU t1.2.1).filter (agedB (c.maxAge.map (now - ·)))).map fun r => (r, c.root ++ r.rel)) = t2 at D2
  have hsub1 : ∀ x ∈ t1.2.1, x ∈ inv := fun x hx => by
    rw [D1.inv] at hx; exact (List.mem_filter.mp hx).1
  have hinv2 : t2.2.1 = inv.filter (fun x => !(doneRels (t1.2.2 ++ t2.2.2)).contains x.rel) := by
    rw [D2.inv, D1.inv, List.filter_filter, doneRels_append]
    apply List.filter_congr
    intro x _
    simp [Bool.and_comm]
  refine ⟨rfl, ?_, ?_, hinv2, ?_, ?_, ?_, ?_, ?_⟩
  rotate_right
  · -- order
    refine ⟨(sortLRU t1.2.1).filter (agedB (c.maxAge.map (now - ·))), ?_, ?_, ?_⟩
    · show (t1.2.2 ++ t2.2.2).map (·.row) = _
      rw [List.map_append, D1.rowsEq, D2.rowsEq]
    · exact (sortLRU_sorted t1.2.1).filter _
    · intro x hx
      have h := List.mem_filter.mp ((mem_sortLRU_filter _ _ x).mp hx)
      exact ⟨hsub1 x h.1, h.2⟩
  · -- good
    show Good t2.1 c.root t2.2.1
    rw [D2.inv]
    exact (G1.fsChange D2.rootOk D2.plain).filter _
  · -- rows
    intro a ha
    rcases List.mem_append.mp ha with h | h
    · refine ⟨hsel _ ?_, D1.paths a h⟩
      rw [← D1.rowsEq]; exact List.mem_map.mpr ⟨a, h, rfl⟩
    · refine ⟨hsub1 _ ?_, D2.paths a h⟩
      have : a.row ∈ (sortLRU t1.2.1).filter (agedB (c.maxAge.map (now - ·))) := by
        rw [← D2.rowsEq]; exact List.mem_map.mpr ⟨a, h, rfl⟩
      exact (List.mem_filter.mp ((mem_sortLRU_filter _ _ _).mp this)).1
  · -- removed
    intro a ha hok
    rcases List.mem_append.mp ha with h | h
    · rw [D1.paths a h]; exact D2.gone _ (D1.removed a h hok)
    · rw [D2.paths a h]; exact D2.removed a h hok
  · -- only
    intro q
    rcases D2.only q with h2 | ⟨a, ha, hok, hq⟩
    · rcases D1.only q with h1 | ⟨a, ha, hok, hq⟩
      · left; show t2.1.lookup q = fs.lookup q; rw [h2, h1]
      · right; exact ⟨a, List.mem_append_left _ ha, hok, by rw [D1.paths a ha]; exact hq⟩
    · right; exact ⟨a, List.mem_append_right _ ha, hok, by rw [D2.paths a ha]; exact hq⟩
  · -- gone
    intro q hq
    exact D2.gone q (D1.gone q hq)
  · -- exact
    intro hne
    have e1 := D1.all (fun a ha => hne a (List.mem_append_left _ ha))
    have e2 := D2.all (fun a ha => hne a (List.mem_append_right _ ha))
    show t2.2.1 = _
    rw [hinv2, doneRels_append, e1, e2]
    apply List.filter_congr
    intro x hx
    have hin1 : x ∈ t1.2.1 ↔ x ∉ sizeSel ord inv c.maxSize := by
      rw [D1.inv, e1, List.mem_filter]
      simp only [hx, true_and, Bool.not_eq_true', List.contains_eq_mem, decide_eq_false_iff_not]
      rw [mem_map_rel_iff G.nodup hsel hx]
    have hsub2 : ∀ y ∈ (sortLRU t1.2.1).filter (agedB (c.maxAge.map (now - ·))), y ∈ inv := fun y hy =>
      hsub1 y (List.mem_filter.mp ((mem_sortLRU_filter _ _ y).mp hy)).1
    by_cases hs : x ∈ sizeSel ord inv c.maxSize
    · have : x.rel ∈ (sizeSel ord inv c.maxSize).map (·.rel) := List.mem_map.mpr ⟨x, hs, rfl⟩
      simp [hs, this]
    · have h1 : x.rel ∉ (sizeSel ord inv c.maxSize).map (·.rel) := fun h =>
        hs ((mem_map_rel_iff G.nodup hsel hx).mp h)
      have h2 : x.rel ∈ ((sortLRU t1.2.1).filter (agedB (c.maxAge.map (now - ·)))).map (·.rel)
          ↔ agedB (c.maxAge.map (now - ·)) x = true := by
        rw [mem_map_rel_iff G.nodup hsub2 hx, mem_sortLRU_filter, List.mem_filter]
        simp [hin1.mpr hs]
      by_cases ha : agedB (c.maxAge.map (now - ·)) x = true
      · simp [hs, ha, h2.mpr ha]
      · have h3 := fun h => ha (h2.mp h)
        simp only [Bool.not_eq_true] at ha
        simp [hs, ha, h1]
        intro y hy hay e
        exact h3 (List.mem_map.mpr ⟨y, List.mem_filter.mpr ⟨hy, hay⟩, e⟩)

/-! ### consequences used by the property theorems -/

def NoErr (res : EvictRes) : Prop := ∀ a ∈ res.attempts, a.res ≠ .err

/-- `ord` is the table in some `ORDER BY LastAccessTime ASC` order -/
def LruOrder (ord inv : List Row) : Prop :=
  ord.Perm inv ∧ ord.Pairwise (fun a b => a.atime ≤ b.atime)

theorem filter_not_mem_prefix {l a b : List Row} (h : l = a ++ b) (hn : l.Nodup) :
    l.filter (fun x => decide (x ∉ a)) = b := by
  subst h
  rw [List.filter_append]
  have h1 : a.filter (fun x => decide (x ∉ a)) = [] :=
    List.filter_eq_nil_iff.mpr (fun x hx => by simp [hx])
  have h2 : b.filter (fun x => decide (x ∉ a)) = b :=
    List.filter_eq_self.mpr (fun x hx => by
      have := (List.nodup_append.mp hn).2.2 x
      simp only [decide_eq_true_eq]
      intro hxa
      exact this hxa x hx rfl)
  rw [h1, h2]; rfl

theorem nodup_of_perm_rel {ord inv : List Row} (hperm : ord.Perm inv)
    (hn : (inv.map (·.rel)).Nodup) : ord.Nodup :=
  by
  have h1 : (ord.map (·.rel)).Nodup := (hperm.map (·.rel)).nodup_iff.mpr hn
  unfold List.Nodup at h1 ⊢
  exact List.Pairwise.of_map (S := fun a b => a ≠ b) (·.rel) (fun a b h e => h (by rw [e])) h1

/-- size bookkeeping: the rows outside the selected prefix weigh `total − Σ prefix` -/
theorem sumNat_filter_not_sel {ord inv sel : List Row} (hperm : ord.Perm inv)
    (hn : (inv.map (·.rel)).Nodup) (hpre : sel <+: ord) :
    sumNat (inv.filter (fun x => decide (x ∉ sel))) + sumNat sel = sumNat inv := by
  obtain ⟨rest, hrest⟩ := hpre
  have h1 : (inv.filter (fun x => decide (x ∉ sel))).Perm (ord.filter (fun x => decide (x ∉ sel))) :=
    (hperm.filter _).symm
  rw [sumNat_perm h1, filter_not_mem_prefix hrest.symm (nodup_of_perm_rel hperm hn),
    ← sumNat_perm hperm, ← hrest, sumNat_append]
  omega

/-- in a list sorted by access time, the rows older than a cut-off are exactly a prefix -/
theorem aged_iff_mem_takeWhile {ord : List Row} (hs : ord.Pairwise (fun a b => a.atime ≤ b.atime))
    (cut : Option Nat) {x : Row} (hx : x ∈ ord) :
    agedB cut x = true ↔ x ∈ ord.takeWhile (agedB cut) := by
  induction ord with
  | nil => cases hx
  | cons y ys ih =>
    rw [List.pairwise_cons] at hs
    simp only [List.takeWhile_cons]
    by_cases hy : agedB cut y = true
    · simp only [hy, if_true, List.mem_cons]
      rcases List.mem_cons.mp hx with rfl | hx'
      · simp [hy]
      · rw [ih hs.2 hx']
        constructor
        · intro h; exact Or.inr h
        · rintro (rfl | h)
          · exact (ih hs.2 hx').mp hy
          · exact h
    · simp only [hy, Bool.false_eq_true, if_false, List.not_mem_nil, iff_false]
      intro hax
      rcases List.mem_cons.mp hx with rfl | hx'
      · exact hy hax
      · have hle := hs.1 x hx'
        cases cut with
        | none => simp [agedB] at hax
        | some c =>
          simp only [agedB, decide_eq_true_eq] at hax hy
          omega


theorem sumNat_filter_and_le (l : List Row) (p q : Row → Bool) :
    sumNat (l.filter (fun x => p x && q x)) ≤ sumNat (l.filter p) := by
  induction l with
  | nil => simp [sumNat]
  | cons x xs ih =>
    simp only [List.filter]
    cases hp : p x <;> cases hq : q x <;> simp only [Bool.and_false, Bool.and_true, sumNat] <;> omega

/-- the order used by the executable model is one of the orders the theorems quantify over -/
theorem sortLRU_order (inv : List Row) : LruOrder (sortLRU inv) inv := by
  induction inv with
  | nil => exact ⟨List.Perm.refl _, List.Pairwise.nil⟩
  | cons r rs ih =>
    exact ⟨(insertLRU_perm r _).trans (List.Perm.cons r ih.1), insertLRU_sorted r _ ih.2⟩

/-! ### what `canonicalize` returns is a physical path: no `..`, no symbolic link at any prefix -/

def PhysOk (fs : FS) (p : Path) : Prop :=
  ".." ∉ p ∧ ∀ pre, pre <+: p → pre ≠ [] → ∀ t, fs.lookup pre ≠ some (.link t)

theorem physOk_nil (fs : FS) : PhysOk fs [] :=
  ⟨by simp, fun pre hp hne => absurd (List.prefix_nil.mp hp) hne⟩

theorem stepC_physOk (follow : Path → Except ResErr Path) (fs : FS) (cur : Path) (c : String) (q : Path)
    (hf : ∀ t r, follow t = .ok r → PhysOk fs r) (hc : PhysOk fs cur)
    (h : stepC follow fs cur c = .ok q) : PhysOk fs q := by
  unfold stepC at h
  by_cases hd : isDir fs cur = true
  · simp only [hd, Bool.not_true, Bool.false_eq_true, if_false] at h
    by_cases hdd : c = ".."
    · rw [if_pos hdd] at h
      by_cases hnil : cur = []
      · rw [if_pos hnil] at h; cases h
      · rw [if_neg hnil] at h
        cases h
        refine ⟨fun hm => hc.1 ((List.dropLast_prefix cur).subset hm), fun pre hp hne t => ?_⟩
        exact hc.2 pre (hp.trans (List.dropLast_prefix cur)) hne t
    · rw [if_neg hdd] at h
      cases hl : fs.lookup (cur ++ [c]) with
      | none => rw [hl] at h; cases h
      | some n =>
        rw [hl] at h
        have hnew : ∀ (hnl : ∀ t, n ≠ .link t), PhysOk fs (cur ++ [c]) := fun hnl => by
          refine ⟨?_, fun pre hp hne t => ?_⟩
          · simp only [List.mem_append, List.mem_singleton, not_or]
            exact ⟨hc.1, fun e => hdd e.symm⟩
          · rcases List.prefix_concat_iff.mp hp with h1 | h1
            · rw [h1, hl]
              intro hlk
              cases hlk
              exact hnl t rfl
            · exact hc.2 pre h1 hne t
        cases n with
        | link t => exact hf t q h
        | file => cases h; exact hnew (fun t e => by cases e)
        | dir => cases h; exact hnew (fun t e => by cases e)
  · simp only [Bool.not_eq_true] at hd
    simp [hd] at h

theorem walkWith_physOk (follow : Path → Except ResErr Path) (fs : FS) (cur todo q : Path)
    (hf : ∀ t r, follow t = .ok r → PhysOk fs r) (hc : PhysOk fs cur)
    (h : walkWith follow fs cur todo = .ok q) : PhysOk fs q := by
  induction todo generalizing cur with
  | nil => simp [walkWith] at h; subst h; exact hc
  | cons c rest ih =>
    simp only [walkWith] at h
    cases hs : stepC follow fs cur c with
    | error e => simp [hs] at h
    | ok cur' =>
      simp only [hs] at h
      exact ih cur' (stepC_physOk follow fs cur c cur' hf hc hs) h

theorem walkF_physOk (fs : FS) (f : Nat) (p q : Path) (h : walkF fs f p = .ok q) : PhysOk fs q := by
  induction f generalizing p q with
  | zero => simp [walkF] at h
  | succ n ih =>
    simp only [walkF] at h
    exact walkWith_physOk _ fs [] p q (fun t r hr => ih t r hr) (physOk_nil fs) h

theorem noLinkBelow_of_physOk (fs : FS) (root rel : Path) (h : PhysOk fs (root ++ rel)) :
    NoLinkBelow fs root rel := by
  induction rel generalizing root with
  | nil => trivial
  | cons c rest ih =>
    have hassoc : root ++ c :: rest = (root ++ [c]) ++ rest := by simp
    refine ⟨?_, ?_, ih (root ++ [c]) (by rw [← hassoc]; exact h)⟩
    · intro e
      exact h.1 (by rw [e]; simp)
    · intro t
      exact h.2 (root ++ [c]) (by rw [hassoc]; exact List.prefix_append _ _) (by simp) t

/-! ### facts that need no hypothesis on the state: what is handed to `remove_file` -/

theorem selectLoop_mem (conv : Row → Option (Row × Path)) (e : Nat) (l : List Row)
    (cs : List (Row × Path)) (h : selectLoop conv e l = some cs) :
    ∀ c ∈ cs, ∃ r ∈ l, conv r = some c := by
  induction l generalizing e cs with
  | nil => simp [selectLoop] at h; subst h; simp
  | cons r rs ih =>
    simp only [selectLoop] at h
    cases hc : conv r with
    | none => simp [hc] at h
    | some c0 =>
      simp only [hc] at h
      split at h
      · cases h; simp
      · cases hr : selectLoop conv (e - r.size.toNat) rs with
        | none => simp [hr] at h
        | some l' =>
          simp only [hr, Option.some.injEq] at h
          subst h
          intro c hcm
          rcases List.mem_cons.mp hcm with rfl | hcm'
          · exact ⟨r, by simp, hc⟩
          · obtain ⟨r', hr', hcv⟩ := ih _ _ hr c hcm'
            exact ⟨r', by simp [hr'], hcv⟩

theorem mapConv_mem (conv : Row → Option (Row × Path)) (l : List Row) (cs : List (Row × Path))
    (h : mapConv conv l = some cs) : ∀ c ∈ cs, ∃ r ∈ l, conv r = some c := by
  induction l generalizing cs with
  | nil => simp [mapConv] at h; subst h; simp
  | cons r rs ih =>
    simp only [mapConv] at h
    cases hc : conv r with
    | none => simp [hc] at h
    | some c0 =>
      simp only [hc] at h
      cases hr : mapConv conv rs with
      | none => simp [hr] at h
      | some l' =>
        simp only [hr, Option.some.injEq] at h
        subst h
        intro c hcm
        rcases List.mem_cons.mp hcm with rfl | hcm'
        · exact ⟨r, by simp, hc⟩
        · obtain ⟨r', hr', hcv⟩ := ih _ hr c hcm'
          exact ⟨r', by simp [hr'], hcv⟩

theorem convert_confined (fs : FS) (root : Path) (r : Row) (c : Row × Path)
    (h : convert fs root r = some c) : c.1 = r ∧ ∃ rel, c.2 = root ++ rel := by
  unfold convert toAbsolute at h
  simp only at h
  split at h
  · cases h
  · next p hp =>
    split at hp
    · next hs =>
      cases hp
      split at h
      · cases h
      · cases h
        refine ⟨rfl, ?_⟩
        cases hsp : stripPrefix root (resolveOrParent fs (root ++ r.rel)) with
        | none => simp [hsp] at hs
        | some rel => exact ⟨rel, stripPrefix_some hsp⟩
    · cases hp

theorem deleteFiles_log (root : Path) (fs : FS) (inv : List Row) (cs : List (Row × Path)) :
    (deleteFiles root fs inv cs).2.2.map (fun a => (a.row, a.path)) = cs ∧
    ∀ x ∈ (deleteFiles root fs inv cs).2.1, x ∈ inv := by
  induction cs generalizing fs inv with
  | nil => simp [deleteFiles]
  | cons c rest ih =>
    obtain ⟨r, p⟩ := c
    rw [deleteFiles_cons]
    simp only [List.map_cons, List.cons.injEq, true_and]
    have I := ih (unlink fs p).2
      (if (unlink fs p).1 = .err then inv else onDeleted (unlink fs p).2 root inv p)
    refine ⟨I.1, fun x hx => ?_⟩
    have := I.2 x hx
    split at this
    · exact this
    · unfold onDeleted at this
      split at this
      · exact this
      · exact (List.mem_filter.mp this).1

/-- every path handed to `remove_file` has the managed root as a component-wise prefix and belongs
to a row of the inventory — for **every** state (no hypothesis): the `assert!` in
`to_absolute_path` turns anything else into a panic. -/
theorem evictCore_confined (ord inv : List Row) (hsub : ∀ r ∈ ord, r ∈ inv) (now : Nat) (c : Cfg) (fs : FS) :
    ∀ a ∈ (evictCore ord now c fs inv).attempts, a.row ∈ inv ∧ ∃ rel, a.path = c.root ++ rel := by
  unfold evictCore
  cases hsc : sizeCands fs c.root ord inv c.maxSize with
  | none => simp
  | some cs =>
    simp only
    have hcs : ∀ x ∈ cs, x.1 ∈ inv ∧ ∃ rel, x.2 = c.root ++ rel := by
      cases hm : c.maxSize with
      | none => simp [hm, sizeCands] at hsc; subst hsc; simp
      | some m =>
        simp only [hm, sizeCands, sizeCandidates] at hsc
        split at hsc
        · cases hsc; simp
        · intro x hx
          obtain ⟨r, hr, hcv⟩ := selectLoop_mem _ _ _ _ hsc x hx
          obtain ⟨e1, e2⟩ := convert_confined _ _ _ _ hcv
          exact ⟨by rw [e1]; exact hsub r hr, e2⟩
    have L1 := deleteFiles_log c.root fs inv cs
    generalize deleteFiles c.root fs inv cs = t1 at L1
    have h1 : ∀ a ∈ t1.2.2, a.row ∈ inv ∧ ∃ rel, a.path = c.root ++ rel := fun a ha => by
      have : (a.row, a.path) ∈ cs := by rw [← L1.1]; exact List.mem_map.mpr ⟨a, ha, rfl⟩
      exact hcs _ this
    unfold agePass
    cases c.maxAge with
    | none => exact h1
    | some ag =>
      simp only
      split
      · exact h1
      · split
        · exact h1
        · cases hac : ageCandidates t1.1 c.root t1.2.1 (now - ag) with
          | none => exact h1
          | some cs2 =>
            simp only
            have L2 := deleteFiles_log c.root t1.1 t1.2.1 cs2
            intro a ha
            rcases List.mem_append.mp ha with h | h
            · exact h1 a h
            · have : (a.row, a.path) ∈ cs2 := by rw [← L2.1]; exact List.mem_map.mpr ⟨a, h, rfl⟩
              obtain ⟨r, hr, hcv⟩ := mapConv_mem _ _ _ hac _ this
              obtain ⟨e1, e2⟩ := convert_confined _ _ _ _ hcv
              simp only at e1
              exact ⟨by rw [e1]; exact L1.2 r (List.mem_filter.mp ((mem_sortLRU_filter _ _ r).mp hr)).1, e2⟩

end Quota
