import SamplyModel.Model.ConvSpec
/-! Lemmas about the mapping-queue cut-off and the flush loop (C02). -/
namespace Conv

def SortedQ (q : List (Nat × MapAdd)) : Prop := q.Pairwise (fun a b => a.1 ≤ b.1)

/-- the mapping table after applying every queued op with timestamp `≤ t` -/
def tableFrom (maps : List MapAdd) (q : List (Nat × MapAdd)) (t : Nat) : List MapAdd :=
  (q.filter (fun o => decide (o.1 ≤ t))).foldl (fun m o => applyAdd m o.2) maps

theorem filter_le_of_head_gt (q : List (Nat × MapAdd)) (t0 ts : Nat) (op : MapAdd)
    (hs : SortedQ ((t0, op) :: q)) (h : t0 > ts) :
    ((t0, op) :: q).filter (fun o => decide (o.1 ≤ ts)) = [] := by
  rw [List.filter_eq_nil_iff]
  intro o ho
  simp only [decide_eq_true_eq, Nat.not_le]
  rcases List.mem_cons.mp ho with rfl | ho
  · exact h
  · have := (List.pairwise_cons.mp hs).1 o ho
    simp only at this
    omega

theorem processOps_spec (maps : List MapAdd) (q : List (Nat × MapAdd)) (ts : Nat) (hs : SortedQ q) :
    processOps maps q ts = (tableFrom maps q ts, q.filter (fun o => decide (o.1 > ts))) := by
  induction q generalizing maps with
  | nil => simp [processOps, tableFrom]
  | cons hd tl ih =>
    obtain ⟨t0, op⟩ := hd
    unfold processOps
    by_cases h : t0 > ts
    · have hnil := filter_le_of_head_gt tl t0 ts op hs h
      have hall : ((t0, op) :: tl).filter (fun o => decide (o.1 > ts)) = (t0, op) :: tl := by
        rw [List.filter_eq_self]
        intro o ho
        simp only [gt_iff_lt, decide_eq_true_eq]
        rcases List.mem_cons.mp ho with rfl | ho
        · exact h
        · have := (List.pairwise_cons.mp hs).1 o ho
          simp only at this
          omega
      simp only [h, if_true]
      rw [hall]
      unfold tableFrom
      rw [hnil]
      rfl
    · simp only [h, if_false]
      rw [ih _ (List.pairwise_cons.mp hs).2]
      have hle : t0 ≤ ts := by omega
      unfold tableFrom
      simp [List.filter_cons, hle, h]

theorem tableFrom_append (maps : List MapAdd) (pre rest : List (Nat × MapAdd)) (t : Nat)
    (hpre : ∀ o ∈ pre, o.1 ≤ t) :
    tableFrom maps (pre ++ rest) t = tableFrom (pre.foldl (fun m o => applyAdd m o.2) maps) rest t := by
  unfold tableFrom
  rw [List.filter_append]
  have : pre.filter (fun o => decide (o.1 ≤ t)) = pre := by
    rw [List.filter_eq_self]
    intro o ho
    simpa using hpre o ho
  rw [this, List.foldl_append]

/-- what the flush loop computes for one sample -/
def flushOne (pm maps : List MapAdd) (u : USample) : Nat × OutSample :=
  (u.th, { t := u.t, weight := u.weight, cpu := u.cpu, kind := u.kind,
           frames := depthLimit depthN (convertStack maps pm u.stack) u.stack.length })

theorem flushBuffer_spec (pm maps : List MapAdd) (q : List (Nat × MapAdd)) (us : List USample)
    (hq : SortedQ q) (hu : us.Pairwise (fun a b => a.tmono ≤ b.tmono)) :
    flushBuffer pm maps q us = us.map (fun u => flushOne pm (tableFrom maps q u.tmono) u) := by
  induction us generalizing maps q with
  | nil => simp [flushBuffer]
  | cons u rest ih =>
    unfold flushBuffer
    rw [processOps_spec maps q u.tmono hq]
    simp only [List.map_cons, flushOne]
    congr 1
    have hq' : SortedQ (q.filter (fun o => decide (o.1 > u.tmono))) := List.Pairwise.filter _ hq
    rw [ih _ _ hq' (List.pairwise_cons.mp hu).2]
    apply List.map_congr_left
    intro v hv
    have huv : u.tmono ≤ v.tmono := (List.pairwise_cons.mp hu).1 v hv
    -- the table for `v` from the full queue = table for `v` from the remainder on top of `u`'s table
    have key : tableFrom maps q v.tmono =
        tableFrom (tableFrom maps q u.tmono) (q.filter (fun o => decide (o.1 > u.tmono))) v.tmono := by
      unfold tableFrom
      rw [← List.foldl_append]
      congr 1
      -- filter (≤ v) q = filter (≤ u) q ++ filter (≤ v) (filter (> u) q), by sortedness
      clear ih hq'
      induction q with
      | nil => rfl
      | cons hd tl ihq =>
        have hs := List.pairwise_cons.mp hq
        by_cases h1 : hd.1 ≤ u.tmono
        · have h2 : hd.1 ≤ v.tmono := by omega
          have h3 : ¬ hd.1 > u.tmono := by omega
          simp only [List.filter_cons, h1, h2, h3, decide_true, decide_false, if_true,
            Bool.false_eq_true, if_false, List.cons_append]
          rw [ihq hs.2]
        · have hgt : hd.1 > u.tmono := by omega
          have hnil : (hd :: tl).filter (fun o => decide (o.1 ≤ u.tmono)) = [] := by
            obtain ⟨t0, op⟩ := hd
            exact filter_le_of_head_gt tl t0 u.tmono op hq hgt
          have hall : (hd :: tl).filter (fun o => decide (o.1 > u.tmono)) = hd :: tl := by
            rw [List.filter_eq_self]
            intro o ho
            simp only [gt_iff_lt, decide_eq_true_eq]
            rcases List.mem_cons.mp ho with rfl | ho
            · exact hgt
            · have := hs.1 o ho
              omega
          rw [hnil, hall]
          rfl
    rw [key]
    rfl

end Conv

namespace Conv
open ConvSpec

/-- the mappings not displaced by any later overlapping one, in announcement order -/
def live : List MapAdd → List MapAdd
  | [] => []
  | m :: later => (if later.any (overlaps m) then [] else [m]) ++ live later

theorem mem_live {m : MapAdd} {l : List MapAdd} (h : m ∈ live l) : m ∈ l := by
  induction l with
  | nil => simp [live] at h
  | cons x xs ih =>
    unfold live at h
    rcases List.mem_append.mp h with h | h
    · split at h
      · simp at h
      · simp only [List.mem_singleton] at h; subst h; exact List.mem_cons_self
    · exact List.mem_cons_of_mem _ (ih h)

theorem foldl_applyAdd_eq (cands acc : List MapAdd) :
    cands.foldl applyAdd acc = acc.filter (fun m => !cands.any (overlaps m)) ++ live cands := by
  induction cands generalizing acc with
  | nil =>
    simp only [List.foldl_nil, live, List.any_nil, Bool.not_false, List.append_nil]
    exact (List.filter_eq_self.mpr (fun _ _ => rfl)).symm
  | cons x cs ih =>
    simp only [List.foldl_cons]
    rw [ih]
    unfold applyAdd
    rw [List.filter_append, List.filter_filter]
    simp only [live, List.any_cons, Bool.not_or, List.append_assoc]
    congr 1
    · apply List.filter_congr
      intro m _
      simp only [overlaps, Bool.not_or]
      cases (cs.any (overlaps m)) <;> simp
    · congr 1
      by_cases h : cs.any (overlaps x) <;> simp [h]

theorem foldl_applyAdd_nil (cands : List MapAdd) : cands.foldl applyAdd [] = live cands := by
  rw [foldl_applyAdd_eq]; simp

theorem covers_overlap {m r : MapAdd} {a : Nat} (h1 : covers m a = true) (h2 : covers r a = true) :
    overlaps m r = true := by
  simp only [covers, overlaps, Bool.and_eq_true, Bool.or_eq_true, decide_eq_true_eq] at *
  left
  omega

theorem go_eq_find (cands : List MapAdd) (a : Nat) :
    resolveDecl.go a cands = (live cands).find? (fun m => covers m a) := by
  induction cands with
  | nil => simp [resolveDecl.go, live]
  | cons m later ih =>
    unfold resolveDecl.go live
    by_cases hov : later.any (overlaps m) = true
    · simp only [hov, if_true, List.nil_append, Bool.not_true, Bool.and_false]
      rw [ih]
      cases (live later).find? (fun m => covers m a) <;> simp
    · simp only [hov, Bool.false_eq_true, if_false, Bool.not_false, Bool.and_true, List.cons_append,
        List.nil_append]
      rw [List.find?_cons]
      by_cases hc : covers m a = true
      · simp only [hc, if_true]
        -- no later live mapping covers `a`, else it would overlap `m`
        have hnone : resolveDecl.go a later = none := by
          rw [ih]
          rw [List.find?_eq_none]
          intro r hr hcr
          apply hov
          rw [List.any_eq_true]
          exact ⟨r, mem_live hr, covers_overlap hc hcr⟩
        rw [hnone]
      · simp only [hc, if_false, Bool.false_eq_true]
        rw [ih]
        cases (live later).find? (fun m => covers m a) <;> simp

/-- the table lookup the converter performs equals the declarative newest-live-covering rule -/
theorem lookup_eq_resolveDecl (q : List (Nat × MapAdd)) (t a : Nat) :
    lookupMap (tableFrom [] q t) a = resolveDecl q t a := by
  unfold tableFrom resolveDecl lookupMap
  rw [go_eq_find, ← foldl_applyAdd_nil, List.foldl_map]
  rfl

/-- perf-map level: the table built by adding the declared functions in file order, looked up, equals the
declarative rule "last declared covering function that no later line displaced" -/
theorem lookup_pm_eq_go (cands : List MapAdd) (a : Nat) :
    lookupMap (cands.foldl applyAdd []) a = resolveDecl.go a cands := by
  unfold lookupMap
  rw [go_eq_find, foldl_applyAdd_nil]
  rfl

/-- the hierarchy lookup (regular libraries, then the perf map) equals the declarative `resolveH` -/
theorem lookupH_eq_resolveH (q : List (Nat × MapAdd)) (t : Nat) (cands : List MapAdd) (a : Nat) :
    lookupH (tableFrom [] q t) (cands.foldl applyAdd []) a = resolveH q t cands a := by
  unfold lookupH resolveH
  rw [lookup_eq_resolveDecl, lookup_pm_eq_go]
  rfl

theorem secondPass_eq_expect (q : List (Nat × MapAdd)) (t : Nat) (cands : List MapAdd) (f : SFrame) :
    secondPass (tableFrom [] q t) (cands.foldl applyAdd []) f = expectInfo q t cands f := by
  unfold secondPass expectInfo
  simp only [lookupH_eq_resolveH]
  rfl

theorem convertFrame_eq_expect (q : List (Nat × MapAdd)) (t : Nat) (f : SFrame) :
    convertFrame (tableFrom [] q t) f = expectFrame q t f := by
  unfold convertFrame expectFrame
  exact congrArg Info.frame (secondPass_eq_expect q t [] f)

end Conv
