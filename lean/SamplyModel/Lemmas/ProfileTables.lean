import SamplyModel.Model.ProfileTables
/-!
Invariants of the interning tables of C03 and their preservation by each table operation.

Every lemma has the same shape: under the invariants of the inputs the operation does not hit a
`none` (= panic) branch, the invariants hold for the outputs, every length only grows, and the
returned index is below the new length of the table it points into.
-/
namespace PT

/-! ### generic predicates -/

/-- every value of an index map is below `n` -/
def MapBelow {K : Type} (m : List (K × Nat)) (n : Nat) : Prop := ∀ kv ∈ m, kv.2 < n

def AllBelow (l : List Nat) (n : Nat) : Prop := ∀ x ∈ l, x < n

def OptBelow (l : List (Option Nat)) (n : Nat) : Prop := ∀ x ∈ l, ∀ v, x = some v → v < n

theorem alookup_mem {K V : Type} [DecidableEq K] (m : List (K × V)) (k : K) (v : V)
    (h : alookup m k = some v) : (k, v) ∈ m := by
  induction m with
  | nil => simp [alookup] at h
  | cons kv m ih =>
    obtain ⟨k', v'⟩ := kv
    simp only [alookup] at h
    split at h
    · simp_all
    · simp [ih h]

theorem MapBelow.lookup {K : Type} [DecidableEq K] {m : List (K × Nat)} {n : Nat} (h : MapBelow m n)
    {k : K} {v : Nat} (hl : alookup m k = some v) : v < n :=
  h _ (alookup_mem _ _ _ hl)

theorem MapBelow.mono {K : Type} {m : List (K × Nat)} {n n' : Nat} (h : MapBelow m n) (hn : n ≤ n') :
    MapBelow m n' := fun kv hkv => Nat.lt_of_lt_of_le (h kv hkv) hn

theorem AllBelow.mono {l : List Nat} {n n' : Nat} (h : AllBelow l n) (hn : n ≤ n') : AllBelow l n' :=
  fun x hx => Nat.lt_of_lt_of_le (h x hx) hn

theorem OptBelow.mono {l : List (Option Nat)} {n n' : Nat} (h : OptBelow l n) (hn : n ≤ n') :
    OptBelow l n' := fun x hx v hv => Nat.lt_of_lt_of_le (h x hx v hv) hn

/-! ### string tables -/

/-- the index map points below the table, and at the string it is keyed by (improvement round: the
second clause carries the *decoding* half of canonical interning) -/
def StrInv (t : StringTable) : Prop :=
  MapBelow t.index t.strings.length ∧ ∀ kv ∈ t.index, t.strings[kv.2]? = some kv.1

theorem getElem?_append_one {α : Type} (l : List α) (x : α) (i : Nat) :
    (l ++ [x])[i]? = if i < l.length then l[i]? else if i = l.length then some x else none := by
  by_cases h : i < l.length
  · rw [if_pos h, List.getElem?_append_left h]
  · rw [if_neg h]
    by_cases h' : i = l.length
    · subst h'; simp
    · rw [if_neg h', List.getElem?_eq_none]; simp; omega

theorem getElem?_append_old {α : Type} {l : List α} {i : Nat} {a : α} (x : α) (h : l[i]? = some a) :
    (l ++ [x])[i]? = some a := by
  rw [List.getElem?_append_left (List.getElem?_eq_some_iff.mp h).1]; exact h

theorem StringTable.indexFor_spec (t : StringTable) (s : Str) (h : StrInv t) :
    StrInv (t.indexFor s).1 ∧ (t.indexFor s).2 < (t.indexFor s).1.strings.length ∧
    t.strings.length ≤ (t.indexFor s).1.strings.length := by
  unfold StringTable.indexFor
  cases hl : alookup t.index s with
  | some i => exact ⟨h, h.1.lookup hl, Nat.le_refl _⟩
  | none =>
    refine ⟨⟨?_, ?_⟩, by simp, by simp⟩
    · intro kv hkv
      simp only [List.mem_cons] at hkv
      rcases hkv with rfl | hkv
      · simp
      · have := h.1 kv hkv; simp; omega
    · intro kv hkv
      simp only [List.mem_cons] at hkv
      rcases hkv with rfl | hkv
      · simp
      · exact getElem?_append_old _ (h.2 kv hkv)

/-- the returned index denotes the string; the table is extended at the end -/
theorem StringTable.indexFor_get (t : StringTable) (s : Str) (h : StrInv t) :
    (t.indexFor s).1.strings[(t.indexFor s).2]? = some s ∧ t.strings <+: (t.indexFor s).1.strings := by
  unfold StringTable.indexFor
  cases hl : alookup t.index s with
  | some i => exact ⟨h.2 _ (alookup_mem _ _ _ hl), List.prefix_refl _⟩
  | none => exact ⟨by simp, List.prefix_append _ _⟩

/-- number of strings of a thread string table -/
abbrev ThreadStrings.n (t : ThreadStrings) : Nat := t.table.strings.length

def TSInv (t : ThreadStrings) : Prop := StrInv t.table ∧ MapBelow t.g2l t.table.strings.length

theorem ThreadStrings.indexFor_spec (t : ThreadStrings) (s : Str) (h : TSInv t) :
    TSInv (t.indexFor s).1 ∧ (t.indexFor s).2 < (t.indexFor s).1.n ∧ t.n ≤ (t.indexFor s).1.n := by
  have h1 := StringTable.indexFor_spec t.table s h.1
  refine ⟨⟨h1.1, h.2.mono h1.2.2⟩, h1.2.1, h1.2.2⟩

theorem ThreadStrings.forGlobal_spec (t : ThreadStrings) (g : Nat) (s : Str) (h : TSInv t) :
    TSInv (t.forGlobal g s).1 ∧ (t.forGlobal g s).2 < (t.forGlobal g s).1.n ∧
    t.n ≤ (t.forGlobal g s).1.n := by
  unfold ThreadStrings.forGlobal
  split
  · rename_i l hl
    exact ⟨h, h.2.lookup hl, Nat.le_refl _⟩
  · have h1 := StringTable.indexFor_spec t.table s h.1
    refine ⟨⟨h1.1, ?_⟩, h1.2.1, h1.2.2⟩
    intro kv hkv
    simp only [List.mem_cons] at hkv
    rcases hkv with rfl | hkv
    · exact h1.2.1
    · exact Nat.lt_of_lt_of_le (h.2 kv hkv) h1.2.2

/-! ### global library table -/

theorem AllBelow.append_one' {l : List Nat} {n x : Nat} (h : AllBelow l n) (hx : x < n) :
    AllBelow (l ++ [x]) n := by
  intro y hy; simp only [List.mem_append, List.mem_singleton] at hy
  rcases hy with hy | rfl
  · exact h y hy
  · exact hx

def LibsInv (g : GlobalLibs) : Prop :=
  AllBelow g.used g.all.length ∧ MapBelow g.usedMap g.used.length ∧
  -- the used-lib map points at the entry of the library it is keyed by, and finds every entry: a library
  -- occurs at most once in the used list (improvement round)
  (∀ kv ∈ g.usedMap, g.used[kv.2]? = some kv.1) ∧
  (∀ (i h : Nat), g.used[i]? = some h → alookup g.usedMap h = some i)

theorem GlobalLibs.handleFor_spec (g : GlobalLibs) (name : Str) (h : LibsInv g) :
    LibsInv (g.handleFor name).1 ∧ (g.handleFor name).2 < (g.handleFor name).1.all.length ∧
    g.all.length ≤ (g.handleFor name).1.all.length ∧ (g.handleFor name).1.used = g.used := by
  obtain ⟨h1, h2, h3, h4⟩ := h
  unfold GlobalLibs.handleFor
  dsimp only
  split
  · rename_i hi
    exact ⟨⟨h1, h2, h3, h4⟩, hi, Nat.le_refl _, rfl⟩
  · refine ⟨⟨?_, h2, h3, h4⟩, by simp, by simp, rfl⟩
    intro x hx
    have := h1 x hx
    simp; omega

theorem GlobalLibs.indexForUsed_spec (g : GlobalLibs) (lib : Nat) (h : LibsInv g) (hl : lib < g.all.length) :
    LibsInv (g.indexForUsed lib).1 ∧ (g.indexForUsed lib).2 < (g.indexForUsed lib).1.used.length ∧
    g.used.length ≤ (g.indexForUsed lib).1.used.length ∧ (g.indexForUsed lib).1.all = g.all ∧
    (g.indexForUsed lib).1.symtabs = g.symtabs := by
  obtain ⟨h1, h2, h3, h4⟩ := h
  unfold GlobalLibs.indexForUsed
  cases hlk : alookup g.usedMap lib with
  | some i => exact ⟨⟨h1, h2, h3, h4⟩, h2.lookup hlk, Nat.le_refl _, rfl, rfl⟩
  | none =>
    refine ⟨⟨h1.append_one' hl, ?_, ?_, ?_⟩, by simp, by simp, rfl, rfl⟩
    · intro kv hkv
      simp only [List.mem_cons] at hkv
      rcases hkv with rfl | hkv
      · simp
      · have := h2 kv hkv; simp; omega
    · intro kv hkv
      simp only [List.mem_cons] at hkv
      rcases hkv with rfl | hkv
      · simp
      · exact getElem?_append_old _ (h3 kv hkv)
    · intro i h hi
      simp only [alookup]
      simp only [getElem?_append_one] at hi
      by_cases hlt : i < g.used.length
      · rw [if_pos hlt] at hi
        have hold := h4 i h hi
        by_cases he : lib = h
        · rw [← he, hlk] at hold; cases hold
        · rw [if_neg he]; exact hold
      · rw [if_neg hlt] at hi
        split at hi
        · cases hi
          rename_i hie
          simp [hie]
        · cases hi

/-- the returned index is the entry of `lib` in the used list -/
theorem GlobalLibs.indexForUsed_get (g : GlobalLibs) (lib : Nat) (h : LibsInv g) :
    (g.indexForUsed lib).1.used[(g.indexForUsed lib).2]? = some lib := by
  unfold GlobalLibs.indexForUsed
  cases hlk : alookup g.usedMap lib with
  | some i => exact h.2.2.1 _ (alookup_mem _ _ _ hlk)
  | none => simp

theorem GlobalLibs.getLibName_some (g : GlobalLibs) (i : Nat) (h : LibsInv g) (hi : i < g.used.length) :
    ∃ s, g.getLibName i = some s := by
  unfold GlobalLibs.getLibName
  rw [List.getElem?_eq_getElem hi]
  have hlt : g.used[i] < g.all.length := h.1 _ (List.getElem_mem hi)
  exact ⟨_, List.getElem?_eq_getElem hlt⟩

/-! ### resource table -/

def ResInv (nStr nLibs : Nat) (rt : ResourceTable) : Prop :=
  rt.names.length = rt.libs.length ∧ AllBelow rt.libs nLibs ∧ AllBelow rt.names nStr ∧
  MapBelow rt.map rt.libs.length ∧
  -- the map points at the row of the library it is keyed by
  (∀ kv ∈ rt.map, rt.libs[kv.2]? = some kv.1)

theorem ResInv.mono {nStr nLibs nStr' nLibs' : Nat} {rt : ResourceTable} (h : ResInv nStr nLibs rt)
    (h1 : nStr ≤ nStr') (h2 : nLibs ≤ nLibs') : ResInv nStr' nLibs' rt :=
  ⟨h.1, h.2.1.mono h2, h.2.2.1.mono h1, h.2.2.2⟩

theorem ResourceTable.forLib_spec (rt : ResourceTable) (lib : Nat) (g : GlobalLibs) (st : ThreadStrings)
    (hr : ResInv st.n g.used.length rt) (hs : TSInv st) (hg : LibsInv g) (hl : lib < g.used.length) :
    ∃ rt' st' r, rt.forLib lib g st = some (rt', st', r) ∧ TSInv st' ∧ st.n ≤ st'.n ∧
      ResInv st'.n g.used.length rt' ∧ r < rt'.libs.length ∧ rt.libs.length ≤ rt'.libs.length := by
  unfold ResourceTable.forLib
  split
  · rename_i r hr'
    exact ⟨rt, st, r, rfl, hs, Nat.le_refl _, hr, hr.2.2.2.1.lookup hr', Nat.le_refl _⟩
  · obtain ⟨name, hn⟩ := g.getLibName_some lib hg hl
    rw [hn]
    have h1 := st.indexFor_spec (libDisplayName name) hs
    refine ⟨_, _, _, rfl, h1.1, h1.2.2, ?_, ?_, ?_⟩
    · obtain ⟨a, b, c, d, e⟩ := hr
      refine ⟨by simp [a], ?_, ?_, ?_, ?_⟩
      · intro x hx; simp only [List.mem_append, List.mem_singleton] at hx
        rcases hx with hx | rfl
        · exact b x hx
        · exact hl
      · intro x hx; simp only [List.mem_append, List.mem_singleton] at hx
        rcases hx with hx | rfl
        · exact Nat.lt_of_lt_of_le (c x hx) h1.2.2
        · exact h1.2.1
      · intro kv hkv; simp only [List.mem_cons] at hkv
        rcases hkv with rfl | hkv
        · simp
        · have := d kv hkv; simp; omega
      · intro kv hkv; simp only [List.mem_cons] at hkv
        rcases hkv with rfl | hkv
        · simp
        · exact getElem?_append_old _ (e kv hkv)
    · simp
    · simp

/-- the returned resource is the row of `lib`; rows are only appended -/
theorem ResourceTable.forLib_get (rt : ResourceTable) (lib : Nat) (g : GlobalLibs) (st : ThreadStrings)
    (nStr nLibs : Nat) (hr : ResInv nStr nLibs rt) (r : ResourceTable × ThreadStrings × Nat)
    (h : rt.forLib lib g st = some r) : r.1.libs[r.2.2]? = some lib ∧ rt.libs <+: r.1.libs := by
  unfold ResourceTable.forLib at h
  split at h
  · rename_i r' hr'
    cases h
    exact ⟨hr.2.2.2.2 _ (alookup_mem _ _ _ hr'), List.prefix_refl _⟩
  · split at h
    · cases h
    · cases h
      exact ⟨by simp, List.prefix_append _ _⟩

/-! ### func table -/

def FuncInv (nStr nRes : Nat) (ft : FuncTable) : Prop :=
  ft.names.length = ft.keys.length ∧ ft.files.length = ft.keys.length ∧
  ft.resources.length = ft.keys.length ∧ ft.flags.length = ft.keys.length ∧
  AllBelow ft.names nStr ∧ OptBelow ft.files nStr ∧ OptBelow ft.resources nRes

theorem FuncInv.mono {nStr nRes nStr' nRes' : Nat} {ft : FuncTable} (h : FuncInv nStr nRes ft)
    (h1 : nStr ≤ nStr') (h2 : nRes ≤ nRes') : FuncInv nStr' nRes' ft :=
  ⟨h.1, h.2.1, h.2.2.1, h.2.2.2.1, h.2.2.2.2.1.mono h1, h.2.2.2.2.2.1.mono h1, h.2.2.2.2.2.2.mono h2⟩

/-- the indices inside a function key are valid -/
def FuncKeyOk (nStr nLibs : Nat) (k : FuncKey) : Prop :=
  k.name < nStr ∧ (∀ f, k.file = some f → f < nStr) ∧ (∀ l, k.lib = some l → l < nLibs)

theorem AllBelow.append_one {l : List Nat} {n x : Nat} (h : AllBelow l n) (hx : x < n) :
    AllBelow (l ++ [x]) n := by
  intro y hy; simp only [List.mem_append, List.mem_singleton] at hy
  rcases hy with hy | rfl
  · exact h y hy
  · exact hx

theorem OptBelow.append_one {l : List (Option Nat)} {n : Nat} {x : Option Nat} (h : OptBelow l n)
    (hx : ∀ v, x = some v → v < n) : OptBelow (l ++ [x]) n := by
  intro y hy v hv; simp only [List.mem_append, List.mem_singleton] at hy
  rcases hy with hy | rfl
  · exact h y hy v hv
  · exact hx v hv

theorem FuncTable.indexFor_spec (ft : FuncTable) (k : FuncKey) (rt : ResourceTable) (g : GlobalLibs)
    (st : ThreadStrings) (hf : FuncInv st.n rt.libs.length ft) (hr : ResInv st.n g.used.length rt)
    (hs : TSInv st) (hg : LibsInv g) (hk : FuncKeyOk st.n g.used.length k) :
    ∃ ft' rt' st' i, ft.indexFor k rt g st = some (ft', rt', st', i) ∧ TSInv st' ∧ st.n ≤ st'.n ∧
      ResInv st'.n g.used.length rt' ∧ rt.libs.length ≤ rt'.libs.length ∧
      FuncInv st'.n rt'.libs.length ft' ∧ i < ft'.keys.length ∧ ft.keys.length ≤ ft'.keys.length := by
  unfold FuncTable.indexFor
  by_cases hi : ft.keys.idxOf k < ft.keys.length
  · simp only [hi, if_true]
    exact ⟨_, _, _, _, rfl, hs, Nat.le_refl _, hr, Nat.le_refl _, hf, hi, Nat.le_refl _⟩
  · simp only [hi, if_false]
    obtain ⟨f1, f2, f3, f4, f5, f6, f7⟩ := hf
    cases hlib : k.lib with
    | none =>
      refine ⟨_, _, _, _, rfl, hs, Nat.le_refl _, hr, Nat.le_refl _, ?_, by simp, by simp⟩
      refine ⟨by simp [f1], by simp [f2], by simp [f3], by simp [f4], f5.append_one hk.1,
        f6.append_one hk.2.1, f7.append_one (by simp)⟩
    | some lib =>
      have hl := hk.2.2 lib hlib
      obtain ⟨rt', st', r, e, hs', hn, hr', hr2, hr3⟩ := rt.forLib_spec lib g st hr hs hg hl
      simp only [e]
      refine ⟨_, _, _, _, rfl, hs', hn, hr', hr3, ?_, by simp, by simp⟩
      refine ⟨by simp [f1], by simp [f2], by simp [f3], by simp [f4],
        (f5.mono hn).append_one (Nat.lt_of_lt_of_le hk.1 hn),
        (f6.mono hn).append_one (fun v hv => Nat.lt_of_lt_of_le (hk.2.1 v hv) hn),
        (f7.mono hr3).append_one (by intro v hv; cases hv; exact hr2)⟩

/-- every func row carries the components of its key; its resource is the row of the key's library -/
def FuncDec (ft : FuncTable) (rt : ResourceTable) : Prop :=
  ∀ (j : Nat) (fk : FuncKey), ft.keys[j]? = some fk →
    ft.names[j]? = some fk.name ∧ ft.files[j]? = some fk.file ∧ ft.flags[j]? = some fk.flags ∧
    (match fk.lib with
     | none => ft.resources[j]? = some none
     | some l => ∃ r, ft.resources[j]? = some (some r) ∧ rt.libs[r]? = some l)

/-- every frame row carries the components of its key, and its func row is the row of the key's func key -/
def FrameDec (t : FrameTable) : Prop :=
  FuncDec t.funcs t.resources ∧
  ∀ (i : Nat) (k : Frame), t.keys[i]? = some k → ∃ j, t.func[i]? = some j ∧ t.funcs.keys[j]? = some k.funcKey ∧
    t.cat[i]? = some k.cat ∧ t.sub[i]? = some k.sub ∧ t.line[i]? = some k.line ∧ t.col[i]? = some k.col ∧
    t.addr[i]? = some (k.native.map (·.addr)) ∧ t.nsym[i]? = some (k.native.bind (·.nsym)) ∧
    t.depth[i]? = some ((k.native.map (·.depth)).getD 0)

theorem prefix_getElem? {α : Type} {l1 l2 : List α} (h : l1 <+: l2) {i : Nat} {a : α} (hi : l1[i]? = some a) :
    l2[i]? = some a := by
  obtain ⟨t, rfl⟩ := h
  rw [List.getElem?_append_left (List.getElem?_eq_some_iff.mp hi).1]; exact hi

theorem FuncDec.mono {ft : FuncTable} {rt rt' : ResourceTable} (h : FuncDec ft rt) (hp : rt.libs <+: rt'.libs) :
    FuncDec ft rt' := by
  intro j fk hj
  obtain ⟨h1, h2, h3, h4⟩ := h j fk hj
  refine ⟨h1, h2, h3, ?_⟩
  cases hl : fk.lib with
  | none => simpa [hl] using h4
  | some l =>
    simp only [hl] at h4 ⊢
    obtain ⟨r, hr1, hr2⟩ := h4
    exact ⟨r, hr1, prefix_getElem? hp hr2⟩

/-- appending a func row for key `k` whose resource entry `ro` is right -/
theorem FuncDec.push {ft : FuncTable} {rt : ResourceTable} (h : FuncDec ft rt) (k : FuncKey) (ro : Option Nat)
    (l1 : ft.names.length = ft.keys.length) (l2 : ft.files.length = ft.keys.length)
    (l3 : ft.resources.length = ft.keys.length) (l4 : ft.flags.length = ft.keys.length)
    (hro : match k.lib with
      | none => ro = none
      | some l => ∃ r, ro = some r ∧ rt.libs[r]? = some l) :
    FuncDec ⟨ft.keys ++ [k], ft.names ++ [k.name], ft.files ++ [k.file], ft.resources ++ [ro], ft.flags ++ [k.flags]⟩ rt := by
  intro j fk hj
  simp only [getElem?_append_one] at hj ⊢
  by_cases hlt : j < ft.keys.length
  · rw [if_pos hlt] at hj
    rw [if_pos (by omega), if_pos (by omega), if_pos (by omega)]
    obtain ⟨h1, h2, h3, h4⟩ := h j fk hj
    refine ⟨h1, h2, h3, ?_⟩
    cases hl : fk.lib with
    | none => simp only [hl] at h4 ⊢; rw [if_pos (by omega)]; exact h4
    | some l => simp only [hl] at h4 ⊢; rw [if_pos (by omega)]; exact h4
  · rw [if_neg hlt] at hj
    split at hj
    · rename_i he
      cases hj
      rw [if_neg (by omega), if_pos (by omega), if_neg (by omega), if_pos (by omega), if_neg (by omega),
        if_pos (by omega)]
      refine ⟨rfl, rfl, rfl, ?_⟩
      cases hl : k.lib with
      | none => simp only [hl] at hro ⊢; rw [if_neg (by omega), if_pos (by omega), hro]
      | some l =>
        simp only [hl] at hro ⊢
        obtain ⟨r, rfl, hr⟩ := hro
        exact ⟨r, by rw [if_neg (by omega), if_pos (by omega)], hr⟩
    · cases hj

theorem FuncTable.indexFor_dec (ft : FuncTable) (k : FuncKey) (rt : ResourceTable) (g : GlobalLibs)
    (st : ThreadStrings) (nStr nRes nStr' nLibs : Nat) (hf : FuncInv nStr nRes ft) (hr : ResInv nStr' nLibs rt)
    (hd : FuncDec ft rt) (r : FuncTable × ResourceTable × ThreadStrings × Nat)
    (h : ft.indexFor k rt g st = some r) :
    FuncDec r.1 r.2.1 ∧ r.1.keys[r.2.2.2]? = some k ∧ ft.keys <+: r.1.keys ∧ rt.libs <+: r.2.1.libs := by
  obtain ⟨f1, f2, f3, f4, _⟩ := hf
  unfold FuncTable.indexFor at h
  by_cases hi : ft.keys.idxOf k < ft.keys.length
  · simp only [hi, if_true] at h
    cases h
    refine ⟨hd, ?_, List.prefix_refl _, List.prefix_refl _⟩
    rw [List.getElem?_eq_getElem hi, List.getElem_idxOf hi]
  · simp only [hi, if_false] at h
    cases hlib : k.lib with
    | none =>
      simp only [hlib] at h
      cases h
      refine ⟨hd.push k none f1 f2 f3 f4 (by simp [hlib]), by simp, List.prefix_append _ _, List.prefix_refl _⟩
    | some lib =>
      simp only [hlib] at h
      cases hfl : rt.forLib lib g st with
      | none => simp [hfl] at h
      | some q =>
        obtain ⟨rt', st', r'⟩ := q
        simp only [hfl] at h
        cases h
        obtain ⟨hg1, hg2⟩ := rt.forLib_get lib g st _ _ hr _ hfl
        refine ⟨(hd.mono hg2).push k (some r') f1 f2 f3 f4 (by simp only [hlib]; exact ⟨r', rfl, hg1⟩), by simp,
          List.prefix_append _ _, hg2⟩

/-! ### frame table -/

/-- `subc c` = number of subcategories of category `c` (0 if there is no such category) -/
def SubsOk (subc : Nat → Nat) (cat sub : List Nat) : Prop :=
  ∀ cs ∈ cat.zip sub, cs.2 < subc cs.1

def FrameInv (nStr nLibs nNs : Nat) (subc : Nat → Nat) (t : FrameTable) : Prop :=
  FuncInv nStr t.resources.libs.length t.funcs ∧ ResInv nStr nLibs t.resources ∧
  t.func.length = t.keys.length ∧ t.cat.length = t.keys.length ∧ t.sub.length = t.keys.length ∧
  t.line.length = t.keys.length ∧ t.col.length = t.keys.length ∧ t.addr.length = t.keys.length ∧
  t.nsym.length = t.keys.length ∧ t.depth.length = t.keys.length ∧
  AllBelow t.func t.funcs.keys.length ∧ SubsOk subc t.cat t.sub ∧ OptBelow t.nsym nNs ∧
  -- frame keys are interned once (`FastIndexSet`)
  t.keys.Nodup ∧
  -- rows decode to their keys (improvement round)
  FrameDec t

def FrameOk (nStr nLibs nNs : Nat) (subc : Nat → Nat) (f : Frame) : Prop :=
  f.name < nStr ∧ (∀ x, f.file = some x → x < nStr) ∧ f.sub < subc f.cat ∧
  (∀ n, f.native = some n → n.lib < nLibs ∧ ∀ s, n.nsym = some s → s < nNs)

theorem SubsOk.append_one {subc : Nat → Nat} {cat sub : List Nat} {c s : Nat}
    (h : SubsOk subc cat sub) (hl : cat.length = sub.length) (hs : s < subc c) :
    SubsOk subc (cat ++ [c]) (sub ++ [s]) := by
  intro cs hcs
  rw [List.zip_append hl] at hcs
  simp only [List.zip_cons_cons, List.zip_nil_right, List.mem_append, List.mem_singleton] at hcs
  rcases hcs with hcs | rfl
  · exact h cs hcs
  · exact hs

theorem FrameDec.push (t : FrameTable) (f : Frame) (fn' : FuncTable) (rt' : ResourceTable) (func : Nat)
    (xa xn : Option Nat) (xd : Nat) (hd : FrameDec t)
    (l3 : t.func.length = t.keys.length) (l4 : t.cat.length = t.keys.length) (l5 : t.sub.length = t.keys.length)
    (l6 : t.line.length = t.keys.length) (l7 : t.col.length = t.keys.length) (l8 : t.addr.length = t.keys.length)
    (l9 : t.nsym.length = t.keys.length) (l10 : t.depth.length = t.keys.length)
    (hfd : FuncDec fn' rt') (hpre : t.funcs.keys <+: fn'.keys) (hfk : fn'.keys[func]? = some f.funcKey)
    (ha : xa = f.native.map (·.addr)) (hn : xn = f.native.bind (·.nsym)) (hdp : xd = (f.native.map (·.depth)).getD 0) :
    FrameDec { funcs := fn', resources := rt', keys := t.keys ++ [f], func := t.func ++ [func],
               cat := t.cat ++ [f.cat], sub := t.sub ++ [f.sub], line := t.line ++ [f.line],
               col := t.col ++ [f.col], addr := t.addr ++ [xa], nsym := t.nsym ++ [xn], depth := t.depth ++ [xd] } := by
  refine ⟨hfd, ?_⟩
  intro i k hk
  simp only [getElem?_append_one] at hk ⊢
  by_cases hlt : i < t.keys.length
  · rw [if_pos hlt] at hk
    obtain ⟨j, h1, h2, h3, h4, h5, h6, h7, h8, h9⟩ := hd.2 i k hk
    refine ⟨j, ?_, prefix_getElem? hpre h2, ?_, ?_, ?_, ?_, ?_, ?_, ?_⟩ <;> rw [if_pos (by omega)] <;> assumption
  · rw [if_neg hlt] at hk
    split at hk
    · cases hk
      refine ⟨func, ?_, hfk, ?_, ?_, ?_, ?_, ?_, ?_, ?_⟩ <;> rw [if_neg (by omega), if_pos (by omega)]
      · rw [ha]
      · rw [hn]
      · rw [hdp]
    · cases hk

theorem FrameTable.indexFor_spec (t : FrameTable) (f : Frame) (g : GlobalLibs) (st : ThreadStrings)
    (nNs : Nat) (subc : Nat → Nat)
    (ht : FrameInv st.n g.used.length nNs subc t) (hs : TSInv st) (hg : LibsInv g)
    (hf : FrameOk st.n g.used.length nNs subc f) :
    ∃ t' st' i, t.indexFor f g st = some (t', st', i) ∧ TSInv st' ∧ st.n ≤ st'.n ∧
      FrameInv st'.n g.used.length nNs subc t' ∧ i < t'.keys.length ∧
      t.keys.length ≤ t'.keys.length := by
  unfold FrameTable.indexFor
  by_cases hi : t.keys.idxOf f < t.keys.length
  · simp only [hi, if_true]
    exact ⟨_, _, _, rfl, hs, Nat.le_refl _, ht, hi, Nat.le_refl _⟩
  · simp only [hi, if_false]
    obtain ⟨a1, a2, a3, a4, a5, a6, a7, a8, a9, a10, a11, a12, a13, a14, a15⟩ := ht
    have hnd : (t.keys ++ [f]).Nodup := by
      rw [List.nodup_append]
      refine ⟨a14, by simp, ?_⟩
      intro a ha b hb
      simp only [List.mem_singleton] at hb
      subst hb
      intro he
      subst he
      exact hi (List.idxOf_lt_length_of_mem ha)
    have hk : FuncKeyOk st.n g.used.length f.funcKey := by
      refine ⟨hf.1, hf.2.1, ?_⟩
      intro l hl
      simp only [Frame.funcKey, Option.map_eq_some_iff] at hl
      obtain ⟨n, hn, rfl⟩ := hl
      exact (hf.2.2.2 n hn).1
    obtain ⟨fn', rt', st', func, e, hs', hn, hr', hr3, hfn', hfi, hfk⟩ :=
      t.funcs.indexFor_spec f.funcKey t.resources g st a1 a2 hs hg hk
    obtain ⟨hfd, hfk', hpre, _⟩ := t.funcs.indexFor_dec f.funcKey t.resources g st _ _ _ _ a1 a2 a15.1 _ e
    simp only at hfd hfk' hpre
    simp only [e]
    have hfunc : AllBelow (t.func ++ [func]) fn'.keys.length :=
      (a11.mono hfk).append_one hfi
    have hsub : SubsOk subc (t.cat ++ [f.cat]) (t.sub ++ [f.sub]) :=
      a12.append_one (by omega) hf.2.2.1
    cases hnat : f.native with
    | none =>
      refine ⟨_, _, _, rfl, hs', hn, ?_, by simp, by simp⟩
      exact ⟨hfn', hr', by simp [a3], by simp [a4], by simp [a5], by simp [a6], by simp [a7],
        by simp [a8], by simp [a9], by simp [a10], hfunc, hsub, a13.append_one (by simp), hnd,
        FrameDec.push t f fn' rt' func none none 0 a15 a3 a4 a5 a6 a7 a8 a9 a10 hfd hpre hfk'
          (by simp [hnat]) (by simp [hnat]) (by simp [hnat])⟩
    | some n =>
      have hn' := hf.2.2.2 n hnat
      simp only [hn'.1, if_true]
      refine ⟨_, _, _, rfl, hs', hn, ?_, by simp, by simp⟩
      exact ⟨hfn', hr', by simp [a3], by simp [a4], by simp [a5], by simp [a6], by simp [a7],
        by simp [a8], by simp [a9], by simp [a10], hfunc, hsub, a13.append_one hn'.2, hnd,
        FrameDec.push t f fn' rt' func (some n.addr) n.nsym n.depth a15 a3 a4 a5 a6 a7 a8 a9 a10 hfd hpre hfk'
          (by simp [hnat]) (by simp [hnat]) (by simp [hnat])⟩

theorem FrameInv.mono {nStr nLibs nNs nStr' nLibs' nNs' : Nat} {subc subc' : Nat → Nat} {t : FrameTable}
    (h : FrameInv nStr nLibs nNs subc t) (h1 : nStr ≤ nStr') (h2 : nLibs ≤ nLibs') (h3 : nNs ≤ nNs')
    (h4 : ∀ c, subc c ≤ subc' c) : FrameInv nStr' nLibs' nNs' subc' t := by
  obtain ⟨a1, a2, a3, a4, a5, a6, a7, a8, a9, a10, a11, a12, a13, a14⟩ := h
  exact ⟨a1.mono h1 (Nat.le_refl _), a2.mono h1 h2, a3, a4, a5, a6, a7, a8, a9, a10, a11,
    fun cs hcs => Nat.lt_of_lt_of_le (a12 cs hcs) (h4 _), a13.mono h3, a14⟩


/-! ### native symbols -/

def NsInv (nStr nLibs : Nat) (ns : NativeSymbols) : Prop :=
  ns.sizes.length = ns.addrs.length ∧ ns.libs.length = ns.addrs.length ∧
  ns.names.length = ns.addrs.length ∧ AllBelow ns.libs nLibs ∧ AllBelow ns.names nStr ∧
  MapBelow ns.map ns.addrs.length ∧
  -- the map points at the row of the (lib, address) it is keyed by, and finds every row (improvement round)
  (∀ kv ∈ ns.map, ns.libs[kv.2]? = some kv.1.1 ∧ ns.addrs[kv.2]? = some kv.1.2) ∧
  (∀ (j l a : Nat), ns.libs[j]? = some l → ns.addrs[j]? = some a → alookup ns.map (l, a) = some j)

theorem NsInv.mono {nStr nLibs nStr' nLibs' : Nat} {ns : NativeSymbols} (h : NsInv nStr nLibs ns)
    (h1 : nStr ≤ nStr') (h2 : nLibs ≤ nLibs') : NsInv nStr' nLibs' ns :=
  ⟨h.1, h.2.1, h.2.2.1, h.2.2.2.1.mono h2, h.2.2.2.2.1.mono h1, h.2.2.2.2.2⟩

theorem NativeSymbols.indexFor_spec (ns : NativeSymbols) (lib : Nat) (sym : Sym) (st : ThreadStrings)
    (nLibs : Nat) (hn : NsInv st.n nLibs ns) (hs : TSInv st) (hl : lib < nLibs) :
    ∃ ns' st' i name, ns.indexFor lib sym st = some (ns', st', i, name) ∧ TSInv st' ∧ st.n ≤ st'.n ∧
      NsInv st'.n nLibs ns' ∧ i < ns'.names.length ∧ name < st'.n ∧
      ns.names.length ≤ ns'.names.length := by
  obtain ⟨a1, a2, a3, a4, a5, a6, a7, a8⟩ := hn
  unfold NativeSymbols.indexFor
  cases hlk : alookup ns.map (lib, sym.addr) with
  | some i =>
    simp only
    have hlt := a6.lookup hlk
    have : i < ns.names.length := by omega
    rw [List.getElem?_eq_getElem this]
    refine ⟨_, _, _, _, rfl, hs, Nat.le_refl _, ⟨a1, a2, a3, a4, a5, a6, a7, a8⟩, this, ?_, Nat.le_refl _⟩
    exact a5 _ (List.getElem_mem this)
  | none =>
    simp only
    have h1 := st.indexFor_spec sym.name hs
    refine ⟨_, _, _, _, rfl, h1.1, h1.2.2, ?_, by simp; omega, h1.2.1, by simp⟩
    refine ⟨by simp [a1], by simp [a2], by simp [a3], a4.append_one hl,
      (a5.mono h1.2.2).append_one h1.2.1, ?_, ?_, ?_⟩
    · intro kv hkv; simp only [List.mem_cons] at hkv
      rcases hkv with rfl | hkv
      · simp
      · have := a6 kv hkv; simp; omega
    · intro kv hkv; simp only [List.mem_cons] at hkv
      rcases hkv with rfl | hkv
      · simp [a2]
      · obtain ⟨g1, g2⟩ := a7 kv hkv
        exact ⟨getElem?_append_old _ g1, getElem?_append_old _ g2⟩
    · intro j l a hl' ha'
      simp only [alookup]
      simp only [getElem?_append_one] at hl' ha'
      by_cases hj : j < ns.addrs.length
      · rw [if_pos (by omega)] at hl'
        rw [if_pos hj] at ha'
        have hold := a8 j l a hl' ha'
        by_cases he : (lib, sym.addr) = (l, a)
        · rw [← he, hlk] at hold; cases hold
        · rw [if_neg he]; exact hold
      · rw [if_neg (by omega)] at hl'
        rw [if_neg hj] at ha'
        split at ha'
        · rw [if_pos (by omega)] at hl'
          cases hl'; cases ha'
          rename_i hje
          simp [hje]
        · cases ha'

/-- the returned row is the row of `(lib, sym.addr)`; its size / name are `sym`'s if the pair was not yet
registered (no row carries it), otherwise the row is untouched; columns are only appended -/
theorem NativeSymbols.indexFor_get (ns : NativeSymbols) (lib : Nat) (sym : Sym) (st : ThreadStrings)
    (nStr nLibs : Nat) (hn : NsInv nStr nLibs ns) (hs : StrInv st.table)
    (r : NativeSymbols × ThreadStrings × Nat × Nat) (h : ns.indexFor lib sym st = some r) :
    r.1.libs[r.2.2.1]? = some lib ∧ r.1.addrs[r.2.2.1]? = some sym.addr ∧ r.1.names[r.2.2.1]? = some r.2.2.2 ∧
    ((∃ j : Nat, ns.libs[j]? = some lib ∧ ns.addrs[j]? = some sym.addr) → r.1 = ns ∧ r.2.1 = st) ∧
    ((¬ ∃ j : Nat, ns.libs[j]? = some lib ∧ ns.addrs[j]? = some sym.addr) →
      r.1.sizes[r.2.2.1]? = some sym.size ∧ r.2.1.table.strings[r.2.2.2]? = some sym.name) := by
  obtain ⟨a1, a2, a3, a4, a5, a6, a7, a8⟩ := hn
  unfold NativeSymbols.indexFor at h
  cases hlk : alookup ns.map (lib, sym.addr) with
  | some i =>
    simp only [hlk] at h
    split at h
    · rename_i n hn'
      cases h
      obtain ⟨g1, g2⟩ := a7 _ (alookup_mem _ _ _ hlk)
      refine ⟨g1, g2, hn', fun _ => ⟨rfl, rfl⟩, ?_⟩
      intro hno
      exact absurd ⟨i, g1, g2⟩ hno
    · cases h
  | none =>
    simp only [hlk] at h
    cases h
    simp only
    refine ⟨by simp [a2], by simp, by simp [a3], ?_, ?_⟩
    · rintro ⟨j, hj1, hj2⟩
      have hj' := a8 j _ _ hj1 hj2
      rw [hlk] at hj'
      cases hj'
    · intro _
      exact ⟨by simp [a1], (st.table.indexFor_get sym.name hs).1⟩

/-! ### stack table -/

/-- every prefix points to an earlier row -/
def PrefixOk (l : List (Option Nat)) : Prop := ∀ (i p : Nat), l[i]? = some (some p) → p < i

/-- the index map agrees with the rows, and every row can be found through it (so no row is stored
twice): the stack table is a faithful trie of the call stacks -/
def StCanon (st : StackTable) : Prop :=
  (∀ kv ∈ st.index, st.prefixes[kv.2]? = some kv.1.1 ∧ st.frames[kv.2]? = some kv.1.2) ∧
  (∀ (v : Nat) (pre : Option Nat) (f : Nat), st.prefixes[v]? = some pre → st.frames[v]? = some f →
    alookup st.index (pre, f) = some v)

theorem StCanon.empty : StCanon {} :=
  ⟨fun _ h => (nomatch h), by intro v pre f h; simp at h⟩

def StInv (nFrames : Nat) (st : StackTable) : Prop :=
  st.frames.length = st.prefixes.length ∧ AllBelow st.frames nFrames ∧ PrefixOk st.prefixes ∧
  MapBelow st.index st.prefixes.length ∧ StCanon st

theorem StInv.mono {n n' : Nat} {st : StackTable} (h : StInv n st) (hn : n ≤ n') : StInv n' st :=
  ⟨h.1, h.2.1.mono hn, h.2.2.1, h.2.2.2.1, h.2.2.2.2⟩

theorem StackTable.indexFor_spec (t : StackTable) (pre : Option Nat) (frame nFrames : Nat)
    (h : StInv nFrames t) (hp : ∀ p, pre = some p → p < t.prefixes.length) (hf : frame < nFrames) :
    StInv nFrames (t.indexFor pre frame).1 ∧
    (t.indexFor pre frame).2 < (t.indexFor pre frame).1.prefixes.length ∧
    t.prefixes.length ≤ (t.indexFor pre frame).1.prefixes.length := by
  obtain ⟨a1, a2, a3, a4, hc⟩ := h
  unfold StackTable.indexFor
  cases hl : alookup t.index (pre, frame) with
  | some s => exact ⟨⟨a1, a2, a3, a4, hc⟩, a4.lookup hl, Nat.le_refl _⟩
  | none =>
    simp only
    refine ⟨⟨by simp [a1], a2.append_one hf, ?_, ?_, ?_, ?_⟩, by simp, by simp⟩
    · intro i p hip
      by_cases hi : i < t.prefixes.length
      · rw [List.getElem?_append_left hi] at hip
        exact a3 i p hip
      · have hi' : t.prefixes.length ≤ i := by omega
        rw [List.getElem?_append_right hi'] at hip
        cases hk : i - t.prefixes.length with
        | zero =>
          rw [hk] at hip
          simp only [List.getElem?_cons_zero, Option.some.injEq] at hip
          have := hp p hip
          omega
        | succ k =>
          rw [hk] at hip
          simp at hip
    · intro kv hkv; simp only [List.mem_cons] at hkv
      rcases hkv with rfl | hkv
      · simp
      · have := a4 kv hkv; simp; omega
    · intro kv hkv
      simp only [List.mem_cons] at hkv
      rcases hkv with rfl | hkv
      · simp [a1]
      · have hv := a4 kv hkv
        obtain ⟨h1, h2⟩ := hc.1 kv hkv
        rw [List.getElem?_append_left hv, List.getElem?_append_left (by omega)]
        exact ⟨h1, h2⟩
    · intro v pre' f' hp' hf'
      simp only [alookup]
      by_cases hv : v < t.prefixes.length
      · rw [List.getElem?_append_left hv] at hp'
        rw [List.getElem?_append_left (by omega)] at hf'
        have hold := hc.2 v pre' f' hp' hf'
        split
        · rename_i he
          rw [← he, hl] at hold
          cases hold
        · exact hold
      · have hv' : t.prefixes.length ≤ v := by omega
        rw [List.getElem?_append_right hv'] at hp'
        rw [List.getElem?_append_right (by omega)] at hf'
        cases hk : v - t.prefixes.length with
        | zero =>
          rw [hk] at hp'
          rw [a1, hk] at hf'
          simp only [List.getElem?_cons_zero, Option.some.injEq] at hp' hf'
          subst hp'; subst hf'
          have : v = t.prefixes.length := by omega
          simp [this]
        | succ k => rw [hk] at hp'; simp at hp'

end PT
