import SamplyModel.Lemmas.Quota
/-!
Helper lemmas for C15, part 4: **unconditional** physical confinement of an eviction pass (after
0ea8d7c2). A path produced by `to_absolute_path` is either built on a canonical (physical) parent
directory — then `unlink` removes exactly that path, which the `assert!` has checked to lie under the
root — or its parent does not resolve, and then `unlink` cannot succeed, now or after more files have
been removed.
-/
namespace Quota

/-- `a` has been obtained from `b` by removing nodes -/
def Sub (a b : FS) : Prop := ∀ k n, a.lookup k = some n → b.lookup k = some n

theorem Sub.refl (a : FS) : Sub a a := fun _ _ h => h

theorem Sub.trans {a b c : FS} (h1 : Sub a b) (h2 : Sub b c) : Sub a c := fun k n h => h2 k n (h1 k n h)

theorem sub_eraseKey (fs : FS) (k : Path) : Sub (eraseKey fs k) fs := by
  intro q n h
  rw [lookup_eraseKey] at h
  split at h
  · cases h
  · exact h

theorem sub_unlink (fs : FS) (p : Path) : Sub (unlink fs p).2 fs := by
  rcases unlink_fs fs p with h | ⟨k, _, _, h⟩
  · rw [h]; exact Sub.refl fs
  · rw [h]; exact sub_eraseKey fs k

theorem Sub.lookup_none {a b : FS} (h : Sub a b) {q : Path} (hq : b.lookup q = none) : a.lookup q = none := by
  cases ha : a.lookup q with
  | none => rfl
  | some n => rw [h q n ha] at hq; cases hq

theorem isDir_sub {a b : FS} (h : Sub a b) (cur : Path) (hd : isDir a cur = true) : isDir b cur = true := by
  cases cur with
  | nil => rfl
  | cons c cs =>
    simp only [isDir] at hd ⊢
    cases hl : a.lookup (c :: cs) with
    | none => simp [hl] at hd
    | some n =>
      cases n with
      | dir => rw [h _ _ hl]
      | file => simp [hl] at hd
      | link t => simp [hl] at hd

theorem stepC_mono {a b : FS} (h : Sub a b) (fa fb : Path → Except ResErr Path)
    (hf : ∀ t r, fa t = .ok r → fb t = .ok r) (cur : Path) (c : String) (q : Path)
    (hs : stepC fa a cur c = .ok q) : stepC fb b cur c = .ok q := by
  unfold stepC at hs ⊢
  by_cases hd : isDir a cur = true
  · have hd' := isDir_sub h cur hd
    simp only [hd, hd', Bool.not_true, Bool.false_eq_true, if_false] at hs ⊢
    by_cases hdd : c = ".."
    · simpa [hdd] using hs
    · rw [if_neg hdd] at hs ⊢
      cases hl : a.lookup (cur ++ [c]) with
      | none => rw [hl] at hs; cases hs
      | some n =>
        rw [hl] at hs
        rw [h _ _ hl]
        cases n with
        | link t => exact hf t q hs
        | file => exact hs
        | dir => exact hs
  · simp only [Bool.not_eq_true] at hd
    simp [hd] at hs

theorem walkWith_mono {a b : FS} (h : Sub a b) (fa fb : Path → Except ResErr Path)
    (hf : ∀ t r, fa t = .ok r → fb t = .ok r) (cur p q : Path)
    (hw : walkWith fa a cur p = .ok q) : walkWith fb b cur p = .ok q := by
  induction p generalizing cur with
  | nil => exact hw
  | cons c rest ih =>
    simp only [walkWith] at hw ⊢
    cases hs : stepC fa a cur c with
    | error e => simp [hs] at hw
    | ok cur' =>
      rw [hs] at hw
      rw [stepC_mono h fa fb hf cur c cur' hs]
      exact ih cur' hw

theorem walkF_mono {a b : FS} (h : Sub a b) (f : Nat) (p q : Path) (hw : walkF a f p = .ok q) :
    walkF b f p = .ok q := by
  induction f generalizing p q with
  | zero => simp [walkF] at hw
  | succ n ih =>
    simp only [walkF] at hw ⊢
    exact walkWith_mono h _ _ (fun t r hr => ih t r hr) [] p q hw

/-- removing nodes cannot make a path resolve -/
theorem canonicalize_mono {a b : FS} (h : Sub a b) (p q : Path) (hc : canonicalize a p = .ok q) :
    canonicalize b p = .ok q := walkF_mono h canonFuel p q hc

theorem noLinkBelow_sub {a b : FS} (h : Sub a b) (cur p : Path) (hn : NoLinkBelow b cur p) :
    NoLinkBelow a cur p := by
  induction p generalizing cur with
  | nil => trivial
  | cons c rest ih =>
    obtain ⟨h1, h2, h3⟩ := hn
    exact ⟨h1, fun t hl => h2 t (h _ _ hl), ih _ h3⟩

/-- with a link-free parent, a successful `unlink` removes exactly the node of that name -/
theorem unlink_ok_parent_noLink (fs : FS) (p : Path) (hn : NoLinkBelow fs [] p.dropLast)
    (hok : (unlink fs p).1 = .ok) : (unlink fs p).2 = eraseKey fs p := by
  rcases List.eq_nil_or_concat p with hnil | ⟨init, last, hp⟩
  · subst hnil; simp [unlink] at hok
  · rw [List.concat_eq_append] at hp
    subst hp
    simp only [List.dropLast_concat] at hn
    unfold unlink at hok ⊢
    simp only [List.getLast?_concat, List.dropLast_concat] at hok ⊢
    have hw : canonicalize fs init = .ok init ∨ ∃ e, canonicalize fs init = .error e := by
      unfold canonicalize canonFuel walkF
      simpa using walkWith_noLink _ fs [] init hn
    rcases hw with hc | ⟨e, hc⟩
    · rw [hc] at hok ⊢
      simp only at hok ⊢
      by_cases hd : isDir fs init = true
      · simp only [hd, Bool.not_true, Bool.false_eq_true, if_false] at hok ⊢
        by_cases hdd : last = ".."
        · simp [hdd] at hok
        · simp only [hdd, if_false] at hok ⊢
          cases hl : fs.lookup (init ++ [last]) with
          | none => simp [hl] at hok
          | some n =>
            cases n with
            | dir => simp [hl] at hok
            | file => rfl
            | link t => rfl
      · simp only [Bool.not_eq_true] at hd
        simp [hd] at hok
    · rw [hc] at hok
      cases e <;> simp at hok

/-- what makes a candidate path harmless, judged on the file system `fs0` it was computed from -/
def SafePath (fs0 : FS) (p : Path) : Prop :=
  NoLinkBelow fs0 [] p.dropLast ∨ ∀ fs', Sub fs' fs0 → (unlink fs' p).1 ≠ .ok

theorem noLinkBelow_dropLast (fs : FS) (q : Path) (h : NoLinkBelow fs [] q) : NoLinkBelow fs [] q.dropLast := by
  obtain ⟨t, ht⟩ := List.dropLast_prefix q
  rw [← ht] at h
  exact ((noLinkBelow_append fs [] q.dropLast t).mp h).1

theorem noLinkBelow_of_canonical (fs : FS) (p q : Path) (h : canonicalize fs p = .ok q) :
    NoLinkBelow fs [] q :=
  noLinkBelow_of_physOk fs [] q (by simpa using walkF_physOk fs canonFuel p q h)

theorem resolveOrParent_safe (fs : FS) (joined : Path) : SafePath fs (resolveOrParent fs joined) := by
  unfold resolveOrParent
  cases hc : canonicalize fs joined with
  | ok q => exact Or.inl (noLinkBelow_dropLast fs q (noLinkBelow_of_canonical fs joined q hc))
  | error e =>
    simp only
    rcases List.eq_nil_or_concat joined with hnil | ⟨init, last, hj⟩
    · subst hnil; exact Or.inl trivial
    · rw [List.concat_eq_append] at hj
      subst hj
      simp only [List.getLast?_concat, List.dropLast_concat]
      by_cases hdd : last = ".."
      · rw [if_pos hdd]
        right
        intro fs' _
        unfold unlink
        simp only [List.getLast?_concat, List.dropLast_concat]
        cases canonicalize fs' init with
        | error e' => cases e' <;> simp
        | ok par =>
          simp only
          split
          · simp
          · simp [hdd]
      · rw [if_neg hdd]
        cases hp : canonicalize fs init with
        | ok par =>
          simp only
          left
          simp only [List.dropLast_concat]
          exact noLinkBelow_of_canonical fs init par hp
        | error e' =>
          simp only
          right
          intro fs' hsub
          unfold unlink
          simp only [List.getLast?_concat, List.dropLast_concat]
          cases hp' : canonicalize fs' init with
          | ok par => rw [canonicalize_mono hsub init par hp'] at hp; cases hp
          | error e'' => cases e'' <;> simp

theorem convert_safe (fs : FS) (root : Path) (r : Row) (c : Row × Path)
    (h : convert fs root r = some c) : (∃ rel, c.2 = root ++ rel) ∧ SafePath fs c.2 := by
  refine ⟨(convert_confined fs root r c h).2, ?_⟩
  unfold convert toAbsolute at h
  simp only at h
  split at h
  · cases h
  · next p hp =>
    split at hp
    · cases hp
      split at h
      · cases h
      · cases h; exact resolveOrParent_safe fs (root ++ r.rel)
    · cases hp

/-- `delete_files` on safe, root-prefixed candidates only ever removes root-prefixed nodes -/
theorem deleteFiles_confined (root : Path) (fs0 : FS) (cs : List (Row × Path))
    (hcs : ∀ c ∈ cs, (∃ rel, c.2 = root ++ rel) ∧ SafePath fs0 c.2) (fs : FS) (inv : List Row)
    (hsub : Sub fs fs0) :
    Sub (deleteFiles root fs inv cs).1 fs ∧
    ∀ q, (deleteFiles root fs inv cs).1.lookup q = fs.lookup q ∨
      ((deleteFiles root fs inv cs).1.lookup q = none ∧ ∃ rel, q = root ++ rel) := by
  induction cs generalizing fs inv with
  | nil => exact ⟨Sub.refl fs, fun q => Or.inl rfl⟩
  | cons c rest ih =>
    obtain ⟨r, p⟩ := c
    rw [deleteFiles_cons]
    simp only
    have hc := hcs (r, p) (by simp)
    have hsub1 : Sub (unlink fs p).2 fs := sub_unlink fs p
    have I := ih (fun c hc' => hcs c (by simp [hc'])) (unlink fs p).2
      (if (unlink fs p).1 = .err then inv else onDeleted (unlink fs p).2 root inv p) (hsub1.trans hsub)
    refine ⟨I.1.trans hsub1, fun q => ?_⟩
    rcases I.2 q with h | h
    · by_cases hok : (unlink fs p).1 = .ok
      · rcases hc.2 with hn | hbad
        · have he := unlink_ok_parent_noLink fs p (noLinkBelow_sub hsub [] _ hn) hok
          by_cases hq : q = p
          · right
            refine ⟨?_, by rw [hq]; exact hc.1⟩
            rw [h, he, lookup_eraseKey, if_pos hq]
          · left
            rw [h, he, lookup_eraseKey, if_neg hq]
        · exact absurd hok (hbad fs hsub)
      · left
        rw [h, unlink_fs_of_not_ok fs p hok]
    · exact Or.inr h

/-- **Physical confinement of a pass, for every state.** A node of the file system either looks up the
same after the pass, or it is gone and its physical path has the managed root as a prefix. -/
theorem evictCore_confined_phys (ord : List Row) (now : Nat) (c : Cfg) (fs : FS) (inv : List Row) :
    Sub (evictCore ord now c fs inv).fs fs ∧
    ∀ q, (evictCore ord now c fs inv).fs.lookup q = fs.lookup q ∨
      ((evictCore ord now c fs inv).fs.lookup q = none ∧ ∃ rel, q = c.root ++ rel) := by
  unfold evictCore
  cases hsc : sizeCands fs c.root ord inv c.maxSize with
  | none => exact ⟨Sub.refl fs, fun q => Or.inl rfl⟩
  | some cs =>
    simp only
    have hcs : ∀ x ∈ cs, (∃ rel, x.2 = c.root ++ rel) ∧ SafePath fs x.2 := by
      cases hm : c.maxSize with
      | none => simp [hm, sizeCands] at hsc; subst hsc; simp
      | some m =>
        simp only [hm, sizeCands, sizeCandidates] at hsc
        split at hsc
        · cases hsc; simp
        · intro x hx
          obtain ⟨r, _, hcv⟩ := selectLoop_mem _ _ _ _ hsc x hx
          exact convert_safe _ _ _ _ hcv
    have D1 := deleteFiles_confined c.root fs cs hcs fs inv (Sub.refl fs)
    generalize deleteFiles c.root fs inv cs = t1 at D1
    have keep : Sub t1.1 fs ∧ ∀ q, t1.1.lookup q = fs.lookup q ∨ (t1.1.lookup q = none ∧ ∃ rel, q = c.root ++ rel) := D1
    unfold agePass
    cases c.maxAge with
    | none => exact keep
    | some ag =>
      simp only
      split
      · exact keep
      · split
        · exact keep
        · cases hac : ageCandidates t1.1 c.root t1.2.1 (now - ag) with
          | none => exact keep
          | some cs2 =>
            simp only
            have hcs2 : ∀ x ∈ cs2, (∃ rel, x.2 = c.root ++ rel) ∧ SafePath t1.1 x.2 := fun x hx => by
              obtain ⟨r, _, hcv⟩ := mapConv_mem _ _ _ hac x hx
              exact convert_safe _ _ _ _ hcv
            have D2 := deleteFiles_confined c.root t1.1 cs2 hcs2 t1.1 t1.2.1 (Sub.refl _)
            refine ⟨D2.1.trans D1.1, fun q => ?_⟩
            rcases D2.2 q with h | h
            · rcases D1.2 q with h1 | h1
              · left; rw [h, h1]
              · right; exact ⟨by rw [h]; exact h1.1, h1.2⟩
            · exact Or.inr h

end Quota
