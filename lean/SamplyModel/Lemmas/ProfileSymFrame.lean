import SamplyModel.Lemmas.ProfileAddrFrame
/-!
Canonical interning of symbolicated address frames (improvement round):
`handle_for_frame_with_address_and_symbol`.
-/
namespace PT


/-- a valid native symbol handle has a description -/
theorem nsymOfCols_some (libs : GlobalLibs) (hL : LibsInv libs) (th : Thread)
    (hns : NsInv th.strings.n libs.used.length th.nsyms) (j : Nat) (hj : j < th.nsyms.names.length) :
    ∃ q nmi, nsymOfCols th.strings.table.strings libs.getLibName th.nsyms.addrs th.nsyms.sizes th.nsyms.libs
        th.nsyms.names j = some q ∧ th.nsyms.names[j]? = some nmi ∧ th.strings.table.strings[nmi]? = some q.2.2.2 := by
  obtain ⟨n1, n2, n3, n4, n5, _⟩ := hns
  have h1 : j < th.nsyms.libs.length := by omega
  have h2 : j < th.nsyms.addrs.length := by omega
  have h3 : j < th.nsyms.sizes.length := by omega
  have hl := n4 _ (List.getElem_mem h1)
  have hn := n5 _ (List.getElem_mem hj)
  obtain ⟨id, hid⟩ := libs.getLibName_some _ hL hl
  refine ⟨(id, th.nsyms.addrs[j], th.nsyms.sizes[j], th.strings.table.strings[th.nsyms.names[j]]), th.nsyms.names[j],
    ?_, List.getElem?_eq_getElem hj, List.getElem?_eq_getElem hn⟩
  simp only [nsymOfCols, List.getElem?_eq_getElem h1, List.getElem?_eq_getElem h2, List.getElem?_eq_getElem h3,
    List.getElem?_eq_getElem hj, Option.bind_some, hid, List.getElem?_eq_getElem hn]

theorem optGstr_mono {p p' : P} (hp : p.gstrings.strings <+: p'.gstrings.strings) (o : Option Nat)
    (hv : p.optStrOk o = true) (fs : Option Str) (h : p'.optGstr o = some fs) : p.optGstr o = some fs := by
  cases o with
  | none => exact h
  | some g =>
    simp only [P.optStrOk, P.strOk, decide_eq_true_eq] at hv
    simp only [P.optGstr, P.gstr, Option.map_eq_some_iff] at h ⊢
    obtain ⟨x, hx, rfl⟩ := h
    obtain ⟨tl, htl⟩ := hp
    rw [← htl, List.getElem?_append_left hv] at hx
    exact ⟨x, hx, rfl⟩

/-- the three string conversions of `handle_for_frame_with_address_and_symbol` around `symVariant` -/
theorem P.frameSym_after (p1 : P) (hT : TInv p1) (hd : SDecAll p1) (t : Nat) (a : AddrSpec) (name : Option Nat)
    (nsym : TH) (file line col : Option Nat) (depth c s flags : Nat) (hnv : p1.nsymOk nsym = true)
    (hfv : p1.optStrOk file = true)
    (cs : (Str × Nat) × Str) (hcs : subNames p1.cats c s = some cs) (p2 : P) (t' i : Nat)
    (h : p1.frameSym t a name nsym file line col depth c s flags = (p2, .h [t', i])) :
    t' = t ∧ ∃ th pr la nm fs th2 k d, p1.threads[t]? = some th ∧ p1.processes[th.process]? = some pr ∧
      resolveLib (effMaps p1.kmaps pr.maps a) a = some la ∧ p1.optGstr name = some nm ∧ p1.optGstr file = some fs ∧
      p2.threads[t]? = some th2 ∧ th2.frames.keys[i]? = some k ∧ p2.descOf th2 k = some d ∧
      d.cat = cs.1 ∧ d.sub = cs.2 ∧ d.file = fs ∧ d.line = line ∧ d.col = col ∧ d.flags = flags ∧
      (match la with
       | .unknown addr => d.name = nm.getD (hexStr addr) ∧ d.lib = none ∧ d.addr = none ∧ d.nsym = none ∧ d.depth = 0
       | .inLib rel lib => ∃ id q, p1.libs.all[lib]? = some id ∧ p1.nsymDescOf th nsym.2 = some q ∧
           d.lib = some id ∧ d.addr = some rel ∧ d.nsym = some q ∧ d.depth = depth ∧ d.name = nm.getD q.2.2.2) := by
  unfold P.frameSym at h
  by_cases hown : nsym.1 ≠ t
  · simp [hown] at h
  · simp only [hown, if_false] at h
    have hown' : nsym.1 = t := Decidable.of_not_not hown
    cases hth : p1.threads[t]? with
    | none => simp [hth] at h
    | some th =>
      simp only [hth] at h
      cases hpr : p1.processes[th.process]? with
      | none => simp [hpr] at h
      | some pr =>
        simp only [hpr] at h
        obtain ⟨a1, _, a3, _⟩ := hT.threads th (List.mem_of_getElem? hth)
        have hmaps : ∀ m ∈ effMaps p1.kmaps pr.maps a, m.lib < p1.libs.all.length :=
          effMaps_libs hT.kmaps (hT.maps pr (List.mem_of_getElem? hpr)) a
        have hsd := hd th (List.mem_of_getElem? hth)
        have hnidx : nsym.2 < th.nsyms.names.length := by
          simp only [P.nsymOk, hown', hth, decide_eq_true_eq] at hnv
          exact hnv
        obtain ⟨q, nmi, hq, hqn, hqs⟩ := nsymOfCols_some p1.libs hT.libs th a3 nsym.2 hnidx
        cases hr : resolveAddr p1.libs (effMaps p1.kmaps pr.maps a) a with
        | mk libs res =>
          obtain ⟨hun, hin⟩ := resolveAddr_lib p1.libs hT.libs (effMaps p1.kmaps pr.maps a) hmaps a libs res hr
          have hra := resolveAddr_ext p1.libs (effMaps p1.kmaps pr.maps a) a
          rw [hr] at h hra
          simp only at hra
          cases res with
          | invalid => simp at h
          | panic => simp at h
          | unknown addr =>
            obtain ⟨hla, hlibs⟩ := hun addr rfl
            subst hlibs
            simp only at h
            cases hc1 : convertOpt p1 th.strings name with
            | none => simp [hc1] at h
            | some r1 =>
              obtain ⟨st1, name'⟩ := r1
              simp only [hc1] at h
              obtain ⟨d1, nm, m1, m2⟩ := convertOpt_get p1 _ _ _ hsd hc1
              simp only at d1 m2
              cases name' with
              | some n =>
                simp only [P.symVariant] at h
                cases hc3 : convertOpt p1 st1 file with
                | none => simp [hc3] at h
                | some r3 =>
                  obtain ⟨st3, file'⟩ := r3
                  simp only [hc3] at h
                  obtain ⟨d3, fs, m3, m4⟩ := convertOpt_get p1 _ _ _ d1 hc3
                  have pre3 := (convertOpt_SE p1 _ _ _ hc3).prefix
                  simp only at m4 pre3
                  -- the given name
                  cases nm with
                  | none => simp [optStr] at m2
                  | some str =>
                    have hstr : st1.table.strings[n]? = some str := by
                      simpa [optStr] using m2
                    obtain ⟨e1, th2, e2, e3, e4⟩ := P.internFrame_label p1 t th th st3 n c s flags file' line col str fs
                      cs hth (prefix_getElem? pre3 hstr) m4 hcs p2 t' i h
                    exact ⟨e1, th, pr, _, some str, fs, th2, _, _, rfl, hpr, hla, m1, m3, e2, e3, e4, rfl, rfl, rfl, rfl,
                      rfl, rfl, ⟨rfl, rfl, rfl, rfl, rfl⟩⟩
              | none =>
                have hnm : nm = none := by simpa [optStr] using m2.symm
                subst hnm
                simp only [P.symVariant] at h
                obtain ⟨g1, g2⟩ := P.hexString_get p1 addr hT.gstr
                obtain ⟨k1, k2⟩ := (d1.mono g2).forGlobal _ _ g1
                cases hc3 : convertOpt (p1.hexString addr).1 (st1.forGlobal (p1.hexString addr).2.1 (p1.hexString addr).2.2).1 file with
                | none => simp [hc3] at h
                | some r3 =>
                  obtain ⟨st3, file'⟩ := r3
                  simp only [hc3] at h
                  obtain ⟨d3, fs, m3, m4⟩ := convertOpt_get _ _ _ _ k1 hc3
                  have pre3 := (convertOpt_SE _ _ _ _ hc3).prefix
                  simp only at m4 pre3
                  have m3' := optGstr_mono (p := p1) (p' := (p1.hexString addr).1) g2 file hfv fs m3
                  obtain ⟨e1, th2, e2, e3, e4⟩ := P.internFrame_label (p1.hexString addr).1 t th th st3 _ c s flags file'
                    line col (hexStr addr) fs cs hth (prefix_getElem? pre3 k2) m4 hcs p2 t' i h
                  exact ⟨e1, th, pr, _, none, fs, th2, _, _, rfl, hpr, hla, m1, m3', e2, e3, e4, rfl, rfl, rfl, rfl,
                    rfl, rfl, ⟨rfl, rfl, rfl, rfl, rfl⟩⟩
          | inLib rel u =>
            obtain ⟨lib, hla, hl, hlibs, hu⟩ := hin rel u rfl
            subst hlibs; subst hu
            simp only at h
            have hid : p1.libs.all[lib]? = some (p1.libs.all[lib]) := List.getElem?_eq_getElem hl
            have hus := p1.libs.indexForUsed_spec lib hT.libs hl
            have hue := p1.libs.indexForUsed_ext lib
            have hlibname : (p1.libs.indexForUsed lib).1.getLibName (p1.libs.indexForUsed lib).2 =
                some (p1.libs.all[lib]) := by
              rw [getLibName_eq, p1.libs.indexForUsed_get lib hT.libs, Option.bind_some, hus.2.2.2.1]
              exact hid
            cases hc1 : convertOpt { p1 with libs := (p1.libs.indexForUsed lib).1 } th.strings name with
            | none => simp [hc1] at h
            | some r1 =>
              obtain ⟨st1, name'⟩ := r1
              simp only [hc1] at h
              obtain ⟨d1, nm, m1, m2⟩ := convertOpt_get { p1 with libs := (p1.libs.indexForUsed lib).1 } _ _ _ hsd hc1
              have pre1 := (convertOpt_SE { p1 with libs := (p1.libs.indexForUsed lib).1 } _ _ _ hc1).prefix
              simp only at d1 m2 pre1
              -- the variant and the name index
              have hvar : ∃ n, P.symVariant { p1 with libs := (p1.libs.indexForUsed lib).1 } th st1
                    (.inLib rel (p1.libs.indexForUsed lib).2) name' nsym.2 depth =
                  some ({ p1 with libs := (p1.libs.indexForUsed lib).1 }, st1,
                    some ⟨(p1.libs.indexForUsed lib).2, some nsym.2, rel, depth⟩, n) ∧
                  st1.table.strings[n]? = some (nm.getD q.2.2.2) := by
                cases name' with
                | some n =>
                  cases nm with
                  | none => simp [optStr] at m2
                  | some str =>
                    exact ⟨n, by simp [P.symVariant], by simpa [optStr] using m2⟩
                | none =>
                  have hnm : nm = none := by simpa [optStr] using m2.symm
                  subst hnm
                  exact ⟨nmi, by simp [P.symVariant, hqn], prefix_getElem? pre1 hqs⟩
              obtain ⟨n, hsv, hnstr⟩ := hvar
              simp only [hsv] at h
              cases hc3 : convertOpt { p1 with libs := (p1.libs.indexForUsed lib).1 } st1 file with
              | none => simp [hc3] at h
              | some r3 =>
                obtain ⟨st3, file'⟩ := r3
                simp only [hc3] at h
                obtain ⟨d3, fs, m3, m4⟩ := convertOpt_get { p1 with libs := (p1.libs.indexForUsed lib).1 } _ _ _ d1 hc3
                have pre3 := (convertOpt_SE { p1 with libs := (p1.libs.indexForUsed lib).1 } _ _ _ hc3).prefix
                simp only at m4 pre3
                have hq3 := nsymOfCols_stable (S' := st3.table.strings) (L' := (p1.libs.indexForUsed lib).1.getLibName)
                  nsym.2 q (pre1.trans pre3) (getLibName_stable hue.1 hue.2) (List.prefix_refl _) (List.prefix_refl _)
                  (List.prefix_refl _) (List.prefix_refl _) hq
                obtain ⟨e1, th2, e2, e3, _, _, e4⟩ := P.internFrame_native { p1 with libs := (p1.libs.indexForUsed lib).1 }
                  t th th st3 n c s flags file' line col fs ⟨(p1.libs.indexForUsed lib).2, some nsym.2, rel, depth⟩
                  (nm.getD q.2.2.2) (p1.libs.all[lib]) cs (some q) hth (prefix_getElem? pre3 hnstr) m4 hcs hlibname
                  ⟨hq3, rfl⟩ p2 t' i h
                exact ⟨e1, th, pr, _, nm, fs, th2, _, _, rfl, hpr, hla, m1, m3, e2, e3, e4, rfl, rfl, rfl, rfl, rfl, rfl,
                  ⟨p1.libs.all[lib], q, hid, hq, rfl, rfl, rfl, rfl, rfl⟩⟩

/-- the symbolicated-address-frame call: the handle it returns has, right after the call, a description
satisfying the caller-side specification -/
theorem sym_step (p : P) (hI : Inv p) (hd : SDecAll p) (t : Nat) (a : AddrSpec) (name : Option Nat) (nsym : TH)
    (file line col : Option Nat) (depth : Nat) (sc : SubSpec) (flags : Nat)
    (hv : handlesValid p (.frameSym t a name nsym file line col depth sc flags) = true) (i : Nat)
    (hout : (step p (.frameSym t a name nsym file line col depth sc flags)).2 = .h [t, i]) :
    ∃ d th2 k, p.SymFrameSpec t a name nsym file line col depth sc flags d ∧
      (step p (.frameSym t a name nsym file line col depth sc flags)).1.threads[t]? = some th2 ∧
      th2.frames.keys[i]? = some k ∧
      (step p (.frameSym t a name nsym file line col depth sc flags)).1.descOf th2 k = some d := by
  simp only [handlesValid, Bool.and_eq_true, decide_eq_true_eq] at hv
  obtain ⟨⟨⟨⟨⟨_, _⟩, _⟩, hns⟩, hfile⟩, hsc⟩ := hv
  obtain ⟨e, hle, hpos, hok, hinv⟩ := p.resolveSub_spec sc hI.1.subsPos hI.1.catsPos hsc
  have hp1 : TInv (p.resolveSub sc).1 := by rw [e]; exact hI.1.setCats _ hle hpos
  have hg := p.resolveSub_gstrings sc
  have hth := p.resolveSub_threads sc
  have hlibs : (p.resolveSub sc).1.libs = p.libs := by rw [e]
  have hprocs : (p.resolveSub sc).1.processes = p.processes := by rw [e]
  have hkm : (p.resolveSub sc).1.kmaps = p.kmaps := by rw [e]
  simp only [step] at hout ⊢
  unfold P.withSub at hout ⊢
  unfold P.SymFrameSpec
  cases hr : p.resolveSub sc with
  | mk p1 r =>
    rw [hr] at hok hinv hg hth hout hp1 hlibs hprocs hkm
    simp only at hok hinv hg hth hout hp1 hlibs hprocs hkm ⊢
    cases r with
    | invalid => exact absurd rfl hinv
    | panic => simp at hout
    | ok c s =>
      simp only at hout ⊢
      obtain ⟨cs, hcs⟩ := subNames_some p1.cats c s (hok c s rfl)
      have hd1 : SDecAll p1 := by
        intro th hth'
        rw [hth] at hth'
        rw [hg]
        exact hd th hth'
      have hns1 : p1.nsymOk nsym = true := by simpa [P.nsymOk, hth] using hns
      have hfile1 : p1.optStrOk file = true := by
        cases file with
        | none => rfl
        | some g => simpa [P.optStrOk, P.strOk, hg] using hfile
      have hgs : ∀ o, p1.optGstr o = p.optGstr o := by
        intro o
        cases o with
        | none => rfl
        | some g => simp [P.optGstr, P.gstr, hg]
      cases hk : p1.frameSym t a name nsym file line col depth c s flags with
      | mk p2 o =>
        rw [hk] at hout
        cases o with
        | invalid => simp at hout
        | h vals =>
          simp only [Out.h.injEq] at hout ⊢
          subst hout
          obtain ⟨_, th, pr, la, nm, fs, th2, k, d, e1, e2, e3, e4, e5, e6, e7, e8, f1, f2, f3, f4, f5, f6, f7⟩ :=
            p1.frameSym_after hp1 hd1 t a name nsym file line col depth c s flags hns1 hfile1 cs hcs p2 t i hk
          refine ⟨d, th2, k, ⟨p1, c, s, cs, th, pr, la, nm, fs, rfl, hcs, by rw [← hth]; exact e1,
            by rw [← hprocs]; exact e2, by rw [← hkm]; exact e3, by rw [← hgs]; exact e4, by rw [← hgs]; exact e5, f1, f2, f3, f4, f5, f6, ?_⟩,
            e6, e7, e8⟩
          cases la with
          | unknown addr => exact f7
          | inLib rel lib =>
            obtain ⟨id, q, g1, g2, g3⟩ := f7
            exact ⟨id, q, by rw [← hlibs]; exact g1, by
              unfold P.nsymDescOf at g2 ⊢
              rw [← hlibs]; exact g2, g3⟩
        | ok => simp at hout
        | noStack => simp at hout
        | rejected => simp at hout
        | panic => simp at hout
        | bug => simp at hout

end PT
