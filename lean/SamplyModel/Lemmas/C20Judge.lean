import SamplyModel.Iface.C20
import SamplyModel.Lemmas.AsmDecode
/-!
The judge's walker (`C20.walk`, an independent re-implementation that produces the error messages) accepts exactly
the listings that satisfy the specification `chainOk` the theorems of C20 are about.
-/
namespace C20
open Asm

/-- the offset the walker expects next -/
def expectedNext : Option (Item × Nat) → Nat
  | none => 0
  | some (a, s) => a.off + s

theorem walk_sound (dec : Nat → Dec) (adjust limit : Nat) :
    ∀ (items : List Item) (prev : Option (Item × Nat)) (stop : Nat),
      C20.walk dec adjust limit prev items = .ok stop →
      chainOk dec adjust limit (expectedNext prev) items stop = true := by
  intro items
  induction items with
  | nil =>
    intro prev stop h
    cases prev with
    | none =>
      simp only [C20.walk, Except.ok.injEq] at h
      subst h
      simp [chainOk, expectedNext]
    | some as =>
      obtain ⟨a, s⟩ := as
      simp only [C20.walk, Except.ok.injEq] at h
      subst h
      simp [chainOk, expectedNext]
  | cons it rest ih =>
    intro prev stop h
    cases prev with
    | none =>
      unfold C20.walk at h
      simp only at h
      split at h
      · simp at h
      · rename_i hoff
        split at h
        · simp at h
        · rename_i hlim
          split at h
          · simp at h
          · rename_i s hs
            split at h
            · simp at h
            · rename_i hs0
              have := ih (some (it, s)) stop h
              simp only [expectedNext] at this
              have hoff' : it.off = expectedNext none := by simpa [expectedNext] using hoff
              have hlim' : it.off < limit := by simpa using hlim
              simp only [chainOk, hs, Bool.and_eq_true, beq_iff_eq, decide_eq_true_eq]
              refine ⟨⟨hoff', by omega⟩, by omega, ?_⟩
              rw [← hoff']
              exact this
    | some as =>
      obtain ⟨a, s0⟩ := as
      unfold C20.walk at h
      simp only at h
      split at h
      · simp at h
      · rename_i hoff
        split at h
        · simp at h
        · rename_i hlim
          split at h
          · simp at h
          · rename_i s hs
            split at h
            · simp at h
            · rename_i hs0
              have := ih (some (it, s)) stop h
              simp only [expectedNext] at this
              have hoff' : it.off = expectedNext (some (a, s0)) := by simpa [expectedNext] using hoff
              have hlim' : it.off < limit := by simpa using hlim
              simp only [chainOk, hs, Bool.and_eq_true, beq_iff_eq, decide_eq_true_eq]
              refine ⟨⟨hoff', by omega⟩, by omega, ?_⟩
              rw [← hoff']
              exact this

/-- and conversely: the walker never rejects a listing that satisfies the specification -/
theorem walk_complete (dec : Nat → Dec) (adjust limit : Nat) :
    ∀ (items : List Item) (prev : Option (Item × Nat)) (stop : Nat),
      chainOk dec adjust limit (expectedNext prev) items stop = true →
      C20.walk dec adjust limit prev items = .ok stop := by
  intro items
  induction items with
  | nil =>
    intro prev stop h
    simp only [chainOk, beq_iff_eq] at h
    cases prev with
    | none => simp only [expectedNext] at h; simp [C20.walk, h]
    | some as =>
      obtain ⟨a, s⟩ := as
      simp only [expectedNext] at h
      simp [C20.walk, h]
  | cons it rest ih =>
    intro prev stop h
    obtain ⟨h1, h2, s, hs, hs1, hrest⟩ := chain_cons h
    have hrec := ih (some (it, s)) stop (by simpa [expectedNext, h1] using hrest)
    have hs0 : ¬ s = 0 := by omega
    have hlim : it.off < limit := by omega
    cases prev with
    | none =>
      simp only [expectedNext] at h1
      unfold C20.walk
      simp [h1, hs, hs0, hrec]
      omega
    | some as =>
      obtain ⟨a, s0⟩ := as
      simp only [expectedNext] at h1
      unfold C20.walk
      simp [h1, hs, hs0, hrec]
      omega

end C20
