import SamplyModel.Model.BreakpadSpec
import SamplyModel.Lemmas.BreakpadMap
/-!
Helper lemmas for C10, part 4: parsing what `BPS.render` writes. Numbers first
(`hexStr ∘ toHex`, `decimalU32 ∘ toDec`), then every record kind through the line parsers and the
classification cascade of `process_line`.
-/
namespace BPS
open BP
open LB (Byte)

/-! ### numbers -/

/-- value of a digit list, most significant first -/
def valOf (base : Nat) : Nat → List Nat → Nat
  | acc, [] => acc
  | acc, d :: ds => valOf base (acc * base + d) ds

theorem valOf_append (base acc : Nat) (ds : List Nat) (d : Nat) :
    valOf base acc (ds ++ [d]) = valOf base acc ds * base + d := by
  induction ds generalizing acc with
  | nil => simp [valOf]
  | cons x xs ih => simp [valOf, ih]

theorem natDigits_ne_nil (base fuel n : Nat) : natDigits base (fuel + 1) n ≠ [] := by
  simp only [natDigits]
  split <;> simp

theorem natDigits_lt (base : Nat) (hb : 2 ≤ base) (fuel n : Nat) :
    ∀ d ∈ natDigits base fuel n, d < base := by
  induction fuel generalizing n with
  | zero => simp [natDigits]
  | succ f ih =>
    simp only [natDigits]
    split
    · intro d hd; simp at hd; omega
    · intro d hd
      simp only [List.mem_append, List.mem_singleton] at hd
      rcases hd with hd | hd
      · exact ih _ d hd
      · subst hd; exact Nat.mod_lt _ (by omega)

theorem natDigits_val (base : Nat) (hb : 2 ≤ base) (fuel n : Nat) (h : n < base ^ fuel) :
    valOf base 0 (natDigits base fuel n) = n := by
  induction fuel generalizing n with
  | zero => simp at h; subst h; simp [natDigits, valOf]
  | succ f ih =>
    simp only [natDigits]
    split
    · simp [valOf]
    · rename_i hge
      rw [valOf_append]
      have hlt : n / base < base ^ f := by
        rw [Nat.div_lt_iff_lt_mul (by omega)]
        rwa [Nat.pow_succ] at h
      rw [ih _ hlt]
      exact Nat.div_add_mod' n base

theorem natDigits_length (base : Nat) (hb : 2 ≤ base) (fuel n k : Nat) (hk : 1 ≤ k) (h : n < base ^ k) :
    (natDigits base fuel n).length ≤ k := by
  induction fuel generalizing n k with
  | zero => simp [natDigits]
  | succ f ih =>
    simp only [natDigits]
    split
    · simp; omega
    · rename_i hge
      simp only [List.length_append, List.length_singleton]
      have hk2 : 2 ≤ k := by
        rcases Nat.lt_or_ge k 2 with hk' | hk'
        · have : k = 1 := by omega
          subst this
          simp at h
          omega
        · exact hk'
      have hlt : n / base < base ^ (k - 1) := by
        rw [Nat.div_lt_iff_lt_mul (by omega)]
        have : base ^ k = base ^ (k - 1) * base := by
          rw [← Nat.pow_succ]; congr 1; omega
        rwa [this] at h
      have := ih (n / base) (k - 1) (by omega) hlt
      omega

theorem hexVal_digitByte : ∀ d, d < 16 → hexVal (digitByte d) = some d := by decide
theorem decVal_digitByte : ∀ d, d < 10 → decVal (digitByte d) = some d := by decide
theorem digitByte_not_sptab : ∀ d, d < 16 → isSpTab (digitByte d) = false := by decide
theorem digitByte_ne_32 : ∀ d, d < 16 → (digitByte d = 32) = False := by decide
theorem digitByte_ne_10 : ∀ d, d < 16 → digitByte d ≠ 10 := by decide
theorem digitByte_ne_13 : ∀ d, d < 16 → digitByte d ≠ 13 := by decide

/-- the digit loop reads back a rendered digit string and stops at the first non-digit (or at the end
of the input, or when `fuel` digits have been read) -/
theorem digits_render (val : Byte → Option Nat) (base : Nat) (ds : List Nat) (rest : List Byte)
    (fuel acc k : Nat) (hv : ∀ d ∈ ds, val (digitByte d) = some d) (hlen : ds.length ≤ fuel)
    (hstop : rest = [] ∨ ∃ b r, rest = b :: r ∧ val b = none) :
    digits val base fuel acc k (ds.map digitByte ++ rest) = (valOf base acc ds, k + ds.length, rest) := by
  induction ds generalizing fuel acc k with
  | nil =>
    simp only [List.map_nil, List.nil_append, valOf, List.length_nil, Nat.add_zero]
    cases fuel with
    | zero => simp [digits]
    | succ f =>
      rcases hstop with h | ⟨b, r, h, hb⟩
      · subst h; simp [digits]
      · subst h; simp [digits, hb]
  | cons d ds ih =>
    cases fuel with
    | zero => simp at hlen
    | succ f =>
      simp only [List.map_cons, List.cons_append, digits, hv d (by simp), valOf]
      rw [ih f _ _ (fun x hx => hv x (by simp [hx])) (by simpa using hlen)]
      simp only [List.length_cons]
      congr 2
      omega

/-- what may follow a number: nothing, or a byte that is not a digit of the respective kind -/
def StopsHex (rest : List Byte) : Prop := rest = [] ∨ ∃ b r, rest = b :: r ∧ hexVal b = none
def StopsDec (rest : List Byte) : Prop := rest = [] ∨ ∃ b r, rest = b :: r ∧ decVal b = none

theorem stopsHex_space (r : List Byte) : StopsHex (32 :: r) := Or.inr ⟨32, r, rfl, by decide⟩
theorem stopsDec_space (r : List Byte) : StopsDec (32 :: r) := Or.inr ⟨32, r, rfl, by decide⟩
theorem stopsHex_crs (k : Nat) : StopsHex (List.replicate k 13) := by
  cases k with
  | zero => exact Or.inl rfl
  | succ n => exact Or.inr ⟨13, List.replicate n 13, rfl, by decide⟩
theorem stopsDec_crs (k : Nat) : StopsDec (List.replicate k 13) := by
  cases k with
  | zero => exact Or.inl rfl
  | succ n => exact Or.inr ⟨13, List.replicate n 13, rfl, by decide⟩

theorem toHex_ne_nil (v : Nat) : toHex v ≠ [] := by
  simp only [toHex, ne_eq, List.map_eq_nil_iff]
  exact natDigits_ne_nil 16 63 v

theorem toDec_ne_nil (v : Nat) : toDec v ≠ [] := by
  simp only [toDec, ne_eq, List.map_eq_nil_iff]
  exact natDigits_ne_nil 10 63 v

theorem hexStr_toHex (n : Nat) (hn1 : 1 ≤ n) (hn : n ≤ 64) (v : Nat) (rest : List Byte) (hv : v < 16 ^ n)
    (hs : StopsHex rest) : hexStr n (toHex v ++ rest) = some (v, rest) := by
  have h64 : v < 16 ^ 64 := Nat.lt_of_lt_of_le hv (Nat.pow_le_pow_right (by decide) hn)
  have hlt := natDigits_lt 16 (by decide) 64 v
  have hlen := natDigits_length 16 (by decide) 64 v n hn1 hv
  have hval := natDigits_val 16 (by decide) 64 v h64
  unfold hexStr toHex
  rw [digits_render hexVal 16 _ rest n 0 0 (fun d hd => hexVal_digitByte d (hlt d hd)) hlen hs]
  simp only [hval, Nat.zero_add]
  have : (natDigits 16 64 v).length ≠ 0 := by
    intro e; exact natDigits_ne_nil 16 63 v (List.length_eq_zero_iff.1 e)
  simp [this]

theorem hexU32_toHex (v : Nat) (rest : List Byte) (hv : v < pow32) (hs : StopsHex rest) :
    hexU32 (toHex v ++ rest) = some (v, rest) :=
  hexStr_toHex 8 (by decide) (by decide) v rest (by simpa [pow32] using hv) hs

theorem hexU64_toHex (v : Nat) (rest : List Byte) (hv : v < pow64) (hs : StopsHex rest) :
    hexU64 (toHex v ++ rest) = some (v, rest) :=
  hexStr_toHex 16 (by decide) (by decide) v rest (by simpa [pow64] using hv) hs

theorem decimalU32_toDec (v : Nat) (rest : List Byte) (hv : v < pow32) (hs : StopsDec rest) :
    decimalU32 (toDec v ++ rest) = some (v, rest) := by
  have h10 : v < 10 ^ 10 := Nat.lt_of_lt_of_le hv (by decide)
  have h64 : v < 10 ^ 64 := Nat.lt_of_lt_of_le h10 (Nat.pow_le_pow_right (by decide) (by decide))
  have hlt := natDigits_lt 10 (by decide) 64 v
  have hlen := natDigits_length 10 (by decide) 64 v 10 (by decide) h10
  have hval := natDigits_val 10 (by decide) 64 v h64
  unfold decimalU32 toDec
  rw [digits_render decVal 10 _ rest 10 0 0 (fun d hd => decVal_digitByte d (hlt d hd)) hlen hs]
  simp only [hval, Nat.zero_add]
  have : (natDigits 10 64 v).length ≠ 0 := by
    intro e; exact natDigits_ne_nil 10 63 v (List.length_eq_zero_iff.1 e)
  simp [this, hv]

/-! ### separators -/

theorem space1_one (rest : List Byte) (h : NoLeadSp rest) : space1 (32 :: rest) = some rest := by
  simp only [space1, isSpTab]
  cases rest with
  | nil => simp
  | cons b r =>
    have := h b r rfl
    simp [List.dropWhile, this]

theorem tokSpace1_one (rest : List Byte) (h : NoLeadSp rest) : tokSpace1 (32 :: rest) = some rest := by
  simp only [tokSpace1]
  cases rest with
  | nil => simp
  | cons b r =>
    have := h b r rfl
    have hb : ¬ b = 32 := by
      intro e; subst e; simp [isSpTab] at this
    simp [List.dropWhile, hb]

theorem natDigits_head (base : Nat) (hb : 2 ≤ base) (fuel n : Nat) :
    ∃ d ds, natDigits base (fuel + 1) n = d :: ds ∧ d < base := by
  have hne := natDigits_ne_nil base fuel n
  cases h : natDigits base (fuel + 1) n with
  | nil => exact absurd h hne
  | cons d ds => exact ⟨d, ds, rfl, natDigits_lt base hb (fuel + 1) n d (by rw [h]; simp)⟩

theorem toHex_head (v : Nat) : ∃ d r, toHex v = digitByte d :: r ∧ d < 16 := by
  obtain ⟨d, ds, h, hd⟩ := natDigits_head 16 (by decide) 63 v
  exact ⟨d, ds.map digitByte, by simp [toHex, h], hd⟩

theorem toDec_head (v : Nat) : ∃ d r, toDec v = digitByte d :: r ∧ d < 10 := by
  obtain ⟨d, ds, h, hd⟩ := natDigits_head 10 (by decide) 63 v
  exact ⟨d, ds.map digitByte, by simp [toDec, h], hd⟩

theorem noLeadSp_toHex (v : Nat) (rest : List Byte) : NoLeadSp (toHex v ++ rest) := by
  obtain ⟨d, r, h, hd⟩ := toHex_head v
  intro b r' hb
  rw [h] at hb
  simp only [List.cons_append, List.cons.injEq] at hb
  rw [← hb.1]; exact digitByte_not_sptab d hd

theorem noLeadSp_toDec (v : Nat) (rest : List Byte) : NoLeadSp (toDec v ++ rest) := by
  obtain ⟨d, r, h, hd⟩ := toDec_head v
  intro b r' hb
  rw [h] at hb
  simp only [List.cons_append, List.cons.injEq] at hb
  rw [← hb.1]; exact digitByte_not_sptab d (by omega)

theorem tag_cons_ne (t0 b : Byte) (ts r : List Byte) (h : t0 ≠ b) : tag (t0 :: ts) (b :: r) = none := by
  simp [tag, h]

/-! ### the line parsers on rendered records -/

theorem fileLine_file (idx : Nat) (name : List Byte) (hi : idx < pow32) (hn : NoLeadSp name) :
    fileLine (Rec.content (.file idx name)) = some (idx, name) := by
  simp only [Rec.content, fileLine, indexedLine, tag_append]
  rw [space1_one _ (noLeadSp_toDec _ _)]
  simp only
  rw [decimalU32_toDec idx _ hi (stopsDec_space _)]
  simp only
  rw [space1_one _ hn]

theorem originLine_origin (idx : Nat) (name : List Byte) (hi : idx < pow32) (hn : NoLeadSp name) :
    inlineOriginLine (Rec.content (.origin idx name)) = some (idx, name) := by
  simp only [Rec.content, inlineOriginLine, indexedLine, tag_append]
  rw [space1_one _ (noLeadSp_toDec _ _)]
  simp only
  rw [decimalU32_toDec idx _ hi (stopsDec_space _)]
  simp only
  rw [space1_one _ hn]

theorem digitByte_ne_109 : ∀ d, d < 16 → digitByte d ≠ 109 := by decide

theorem optM_mFlag (m : Bool) (v : Nat) (rest : List Byte) :
    optM (mFlag m ++ (toHex v ++ rest)) = toHex v ++ rest := by
  cases m with
  | true =>
    simp only [mFlag, if_true, List.cons_append, List.nil_append, optM, tag, tM]
    rw [space1_one _ (noLeadSp_toHex _ _)]
  | false =>
    simp only [mFlag, Bool.false_eq_true, if_false, List.nil_append]
    obtain ⟨d, r, h, hd⟩ := toHex_head v
    rw [h]
    simp only [List.cons_append, optM, tM]
    rw [tag_cons_ne _ _ _ _ (fun e => digitByte_ne_109 d hd e.symm)]

theorem noLeadSp_mFlag (m : Bool) (v : Nat) (rest : List Byte) : NoLeadSp (mFlag m ++ (toHex v ++ rest)) := by
  cases m with
  | true =>
    intro b r hb
    simp only [mFlag, if_true, List.cons_append, List.cons.injEq] at hb
    rw [← hb.1]; decide
  | false => simpa [mFlag] using noLeadSp_toHex v rest

theorem publicLine_pub (m : Bool) (addr psize : Nat) (name : List Byte) (ha : addr < pow64)
    (hp : psize < pow32) (hn : NoLeadSp name) :
    publicLine (Rec.content (.pub m addr psize name)) = some (addr % pow32, name) := by
  simp only [Rec.content, publicLine, tag_append]
  rw [space1_one _ (noLeadSp_mFlag _ _ _)]
  simp only
  rw [optM_mFlag, hexU64_toHex addr _ ha (stopsHex_space _)]
  simp only
  rw [space1_one _ (noLeadSp_toHex _ _)]
  simp only
  rw [hexU32_toHex psize _ hp (stopsHex_space _)]
  simp only
  rw [space1_one _ hn]

theorem funcLine_func (m : Bool) (addr size psize : Nat) (name : List Byte) (ha : addr < pow32)
    (hs : size < pow32) (hp : psize < pow32) (hn : NoLeadSp name) :
    funcLine (Rec.content (.func m addr size psize name)) = some (addr, size, name) := by
  simp only [Rec.content, funcLine, tag_append]
  rw [space1_one _ (noLeadSp_mFlag _ _ _)]
  simp only
  rw [optM_mFlag, hexU32_toHex addr _ ha (stopsHex_space _)]
  simp only
  rw [space1_one _ (noLeadSp_toHex _ _)]
  simp only
  rw [hexU32_toHex size _ hs (stopsHex_space _)]
  simp only
  rw [space1_one _ (noLeadSp_toHex _ _)]
  simp only
  rw [hexU32_toHex psize _ hp (stopsHex_space _)]
  simp only
  rw [space1_one _ hn]

/-! ### the classification cascade on rendered records -/

/-- what `process_line` does with a record, as a `LineClass` -/
def Rec.cls : Rec → LineClass
  | .info _ => .info
  | .file idx _ => .file idx
  | .origin idx _ => .origin idx
  | .pub _ addr _ _ => .pub (addr % pow32)
  | .func _ addr _ _ _ => .func addr
  | .line .. => .other
  | .inline .. => .other
  | .stack _ => .stack

theorem digitByte_not_tag0 : ∀ d, d < 16 →
    digitByte d ≠ 70 ∧ digitByte d ≠ 73 ∧ digitByte d ≠ 80 ∧ digitByte d ≠ 83 := by decide

theorem classify_content (r : Rec) (h : r.ok) : classify r.content = r.cls := by
  cases r with
  | info rest =>
    simp [Rec.content, Rec.cls, classify, fileLine, inlineOriginLine, publicLine, funcLine, indexedLine, tag,
      tINFO_, tFILE, tINLINE_ORIGIN, tPUBLIC, tFUNC]
  | file idx name =>
    obtain ⟨hi, hn⟩ := h
    simp [classify, fileLine_file idx name hi hn.noLead, Rec.cls]
  | origin idx name =>
    obtain ⟨hi, hn⟩ := h
    have h1 : fileLine (Rec.content (.origin idx name)) = none := by
      simp [Rec.content, fileLine, indexedLine, tag, tFILE, tINLINE_ORIGIN]
    simp [classify, h1, originLine_origin idx name hi hn.noLead, Rec.cls]
  | pub m addr psize name =>
    obtain ⟨ha, hp, hn⟩ := h
    have h1 : fileLine (Rec.content (.pub m addr psize name)) = none := by
      simp [Rec.content, fileLine, indexedLine, tag, tFILE, tPUBLIC]
    have h2 : inlineOriginLine (Rec.content (.pub m addr psize name)) = none := by
      simp [Rec.content, inlineOriginLine, indexedLine, tag, tINLINE_ORIGIN, tPUBLIC]
    simp [classify, h1, h2, publicLine_pub m addr psize name ha hp hn.noLead, Rec.cls]
  | func m addr size psize name =>
    obtain ⟨ha, hs, hp, hn⟩ := h
    have h1 : fileLine (Rec.content (.func m addr size psize name)) = none := by
      simp [Rec.content, fileLine, indexedLine, tag, tFILE, tFUNC]
    have h2 : inlineOriginLine (Rec.content (.func m addr size psize name)) = none := by
      simp [Rec.content, inlineOriginLine, indexedLine, tag, tINLINE_ORIGIN, tFUNC]
    have h3 : publicLine (Rec.content (.func m addr size psize name)) = none := by
      simp [Rec.content, publicLine, tag, tPUBLIC, tFUNC]
    simp [classify, h1, h2, h3, funcLine_func m addr size psize name ha hs hp hn.noLead, Rec.cls]
  | line addr size ln fl =>
    obtain ⟨d, r, hd, hlt⟩ := toHex_head addr
    have hb := digitByte_not_tag0 d hlt
    have e70 : ((70 : Byte) = digitByte d) = False := by simp [eq_comm, hb.1]
    have e73 : ((73 : Byte) = digitByte d) = False := by simp [eq_comm, hb.2.1]
    have e80 : ((80 : Byte) = digitByte d) = False := by simp [eq_comm, hb.2.2.1]
    have e83 : ((83 : Byte) = digitByte d) = False := by simp [eq_comm, hb.2.2.2]
    simp [Rec.content, hd, Rec.cls, classify, fileLine, inlineOriginLine, publicLine,
      funcLine, indexedLine, tFILE, tINLINE_ORIGIN, tPUBLIC, tFUNC, tINFO_, tSTACK_, tag, e70, e73, e80, e83]
  | inline depth callLine callFile org r0 ranges =>
    simp [Rec.content, Rec.cls, classify, fileLine, inlineOriginLine, publicLine, funcLine, indexedLine, tag,
      tINFO_, tFILE, tINLINE_ORIGIN, tPUBLIC, tFUNC, tINLINE, tSTACK_]
  | stack rest =>
    simp [Rec.content, Rec.cls, classify, fileLine, inlineOriginLine, publicLine, funcLine, indexedLine, tag,
      tINFO_, tFILE, tINLINE_ORIGIN, tPUBLIC, tFUNC, tSTACK_]

end BPS
