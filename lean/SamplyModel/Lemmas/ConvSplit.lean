import SamplyModel.Lemmas.ConvEntry
import SamplyModel.Lemmas.LifeSplit
/-!
`C17_exec_splits_samples` (convD2): along a history inside the grammar, every accepted sample is tagged by
`acceptedInc` with the suffix of a process incarnation that is *alive* right after the sample's record; an EXEC
ends every incarnation of its pid and opens one with a larger suffix; dead incarnations stay dead. Hence samples
accepted before and after an EXEC of a pid carry different pid suffixes — different process entries.
-/
namespace Conv
open ConvSpec LifeL

/-- `ensure_idx` with the fact that the process incarnation found is alive -/
theorem ensure_idx_alive {s : St} {l : Life.S} (h : LifeL.Sim s l) (pid tid : Nat) :
    ∃ (pi ti : Nat) (pinc : Life.PInc), Life.curIdx (Life.ensureThread l pid tid) pid tid = some (pi, ti) ∧
      (Life.ensureThread l pid tid).ps[pi]? = some pinc ∧ pinc.alive = true ∧ pinc.pid = pid := by
  obtain ⟨h2, hb2, _, ht2, _⟩ := LifeL.sim_ensure h pid tid
  generalize getThread (getByPid s pid).1 (getByPid s pid).2 tid = gt at *
  have hok := h2.live.ok hb2
  have hcp := h2.live.curProc_bound hb2
  obtain ⟨pinc, hpi, hal, hppid, _⟩ := hok.pinc
  by_cases htid : tid = pid
  · subst htid
    refine ⟨gt.2.1.h, gt.2.1.main.h, pinc, ?_, hpi, hal, hppid⟩
    unfold Life.curIdx
    rw [hcp]
    simp only [hok.curThread_main, Option.map_some]
  · rw [if_neg htid] at ht2
    refine ⟨gt.2.1.h, gt.2.2.h, pinc, ?_, hpi, hal, hppid⟩
    unfold Life.curIdx
    rw [hcp]
    simp only [hok.curThread_bound ht2, Option.map_some]

theorem newSpec_mem {last : Last} {l : Life.S} {r : Rec} {a : AccI} (ha : a ∈ newSpec last l r) :
    ∃ pid tid t km pe ip chain, r = .sample pid tid t km pe ip chain ∧ tid ≠ 0 ∧ a.pid = pid ∧
      a.psuffix = (((Life.curIdx (Life.step l r) pid tid).bind (fun i => (Life.step l r).ps[i.1]?)).map (·.suffix)).getD 0 := by
  cases r with
  | sample pid tid t km pe ip chain =>
    by_cases h0 : tid = 0
    · simp [newSpec, accStep, h0] at ha
    · by_cases hd : lastGet last pid tid = some t
      · simp [newSpec, accStep, h0, hd] at ha
      · simp only [newSpec, accStep, h0, hd, if_false, List.nil_append, List.mem_singleton] at ha
        subst ha
        exact ⟨pid, tid, t, km, pe, ip, chain, rfl, h0, rfl, rfl⟩
  | fork => simp [newSpec] at ha
  | exit => simp [newSpec] at ha
  | comm => simp [newSpec] at ha
  | mmap2 => simp [newSpec] at ha
  | switchIn => simp [newSpec] at ha
  | switchOut => simp [newSpec] at ha
  | sched => simp [newSpec] at ha
  | otherEvent => simp [newSpec] at ha

/-- an invariant `P` of the lifecycle and a property `R` of tagged samples that holds of a sample tagged with the
suffix of an alive incarnation of its pid, along a history inside the grammar -/
theorem accInc_fold (P : Life.S → Prop) (R : Life.S → AccI → Prop)
    (hP : ∀ l r, P l → P (Life.step l r))
    (hRs : ∀ l r a, P l → R l a → R (Life.step l r) a)
    (hRn : ∀ l (pi : Nat) (pinc : Life.PInc) (a : AccI), P l → l.ps[pi]? = some pinc → pinc.alive = true →
      pinc.pid = a.pid → a.psuffix = pinc.suffix → R l a)
    (rs : List Rec) :
    ∀ (s : St) (last : Last) (g : Life.G) (out : List AccI), LifeL.Sim s g.s → P g.s → (∀ a ∈ out, R g.s a) →
      (rs.foldl Life.gStep g).ok = true →
      LifeL.Sim (rs.foldl step s) (rs.foldl Life.gStep g).s ∧ P (rs.foldl Life.gStep g).s ∧
      (rs.foldl accIncStep ((last, g.s), out)).1.2 = (rs.foldl Life.gStep g).s ∧
      ∀ a ∈ (rs.foldl accIncStep ((last, g.s), out)).2, R (rs.foldl Life.gStep g).s a := by
  induction rs with
  | nil => intro s last g out h hp ho _; exact ⟨h, hp, rfl, ho⟩
  | cons r rs ih =>
    intro s last g out h hp ho hg
    have hf := (LifeL.gStep_ok (LifeL.foldl_gStep_ok (g := Life.gStep g r) hg)).2
    rw [List.foldl_cons, List.foldl_cons, List.foldl_cons, accIncStep_eq]
    have hp' := hP g.s r hp
    refine ih (step s r) _ (Life.gStep g r) _ (LifeL.sim_step h r hf) hp' ?_ hg
    intro a ha
    rcases List.mem_append.mp ha with ha | ha
    · exact hRs g.s r a hp (ho a ha)
    · obtain ⟨pid, tid, t, km, pe, ip, chain, rfl, h0, hapid, hsuf⟩ := newSpec_mem ha
      have hL : Life.step g.s (.sample pid tid t km pe ip chain) = Life.ensureThread { g.s with cur := t } pid tid := by
        simp [Life.step, h0]
      obtain ⟨pi, ti, pinc, i1, i2, i3, i4⟩ := ensure_idx_alive (h.setCur t) pid tid
      rw [← hL] at i1 i2
      refine hRn _ pi pinc a hp' i2 i3 (by rw [i4, hapid]) ?_
      rw [hsuf, i1]
      simp only [Option.bind_some, i2, Option.map_some, Option.getD_some]

theorem accInc_fold_out (rs : List Rec) :
    ∀ (st : Last × Life.S) (out : List AccI),
      rs.foldl accIncStep (st, out) = ((rs.foldl accIncStep (st, [])).1, out ++ (rs.foldl accIncStep (st, [])).2) := by
  induction rs with
  | nil => intro st out; simp
  | cons r rs ih =>
    intro st out
    obtain ⟨last, l⟩ := st
    rw [List.foldl_cons, List.foldl_cons, accIncStep_eq, accIncStep_eq, ih, ih (_, _) ([] ++ _)]
    simp

/-- after the EXEC of `pid`: every earlier incarnation of `pid` (index `< L0`) is dead and has a suffix below `k0`;
every later one has a suffix of at least `k0`; the count has passed `k0` -/
def SplitInv (pid L0 k0 : Nat) (l : Life.S) : Prop :=
  L0 ≤ l.ps.length ∧ k0 < Life.countP l pid ∧
  ∀ (j : Nat) (p : Life.PInc), l.ps[j]? = some p → p.pid = pid →
    (j < L0 → p.alive = false ∧ p.suffix < k0) ∧ (L0 ≤ j → k0 ≤ p.suffix)

theorem SplitInv.step {pid L0 k0 : Nat} {l : Life.S} (h : SplitInv pid L0 k0 l) (r : Rec) :
    SplitInv pid L0 k0 (Life.step l r) := by
  have hs := pstab_step l r
  obtain ⟨h1, h2, h3⟩ := h
  refine ⟨Nat.le_trans h1 hs.len, Nat.lt_of_lt_of_le h2 (hs.cnt pid), ?_⟩
  intro j p' hp' hpid
  by_cases hj : j < l.ps.length
  · obtain ⟨p, hp⟩ : ∃ p, l.ps[j]? = some p := ⟨l.ps[j], by simp [hj]⟩
    obtain ⟨p2, e2, a1, a2, a3⟩ := hs.old j p hp
    rw [hp'] at e2; cases e2
    obtain ⟨b1, b2⟩ := h3 j p hp (a1.symm.trans hpid)
    rw [a2]
    exact ⟨fun hlt => ⟨a3 (b1 hlt).1, (b1 hlt).2⟩, b2⟩
  · have hn := (hs.new j p' hp' (by omega)).1
    rw [hpid] at hn
    exact ⟨fun hlt => by omega, fun _ => by omega⟩

theorem splitInv_new {pid : Nat} {l lm : Life.S} (name : Option String) (time : Nat)
    (hlen : lm.ps.length = l.ps.length) (hcnt : Life.countP lm pid = Life.countP l pid)
    (hdead : ∀ (j : Nat) (p : Life.PInc), lm.ps[j]? = some p → p.pid = pid →
      p.alive = false ∧ p.suffix < Life.countP l pid) :
    SplitInv pid l.ps.length (Life.countP l pid) (Life.newProc lm pid name time).1 := by
  have hps : (Life.newProc lm pid name time).1.ps =
      lm.ps ++ [{ pid, suffix := Life.countP lm pid, name := name, start := time }] := rfl
  have hc1 : Life.countP (Life.newProc lm pid name time).1 pid = Life.countP lm pid + 1 := by
    simp only [Life.newProc]
    rw [countP_concat]; simp
  refine ⟨by rw [hps]; simp; omega, by rw [hc1, hcnt]; omega, ?_⟩
  intro j p hp hpid
  rw [hps] at hp
  by_cases hj : j < lm.ps.length
  · rw [List.getElem?_append_left hj] at hp
    exact ⟨fun _ => hdead j p hp hpid, fun hle => by omega⟩
  · have hlt := lt_of_getElem?_some hp
    simp only [List.length_append, List.length_cons, List.length_nil] at hlt
    have hjeq : j = lm.ps.length := by omega
    subst hjeq
    rw [getElem?_concat_len] at hp
    cases hp
    exact ⟨fun hlt' => by omega, fun _ => by simp only [hcnt]; exact Nat.le_refl _⟩

/-- the EXEC of a main thread establishes `SplitInv` -/
theorem splitInv_exec {s : St} {l : Life.S} (h : LifeL.Sim s l) (hsuf : SufInv l) (pid : Nat) (name : String)
    (t : Nat) : SplitInv pid l.ps.length (Life.countP l pid) (Life.step l (.comm pid pid name true t)) := by
  rw [lstep_comm_exec_main]
  generalize Life.conv l (if t = 0 then l.cur else t) = time
  cases hc : Life.curProc l pid with
  | none =>
    refine splitInv_new (some name) time rfl rfl ?_
    intro j p hp hpid
    have := findIdx_none hc j p hp
    simp only [Bool.and_eq_false_iff, beq_eq_false_iff_ne, ne_eq] at this
    have hsf := hsuf j p hp
    rw [hpid] at hsf
    rcases this with h1 | h1
    · exact ⟨h1, hsf⟩
    · exact absurd hpid h1
  | some pi =>
    have hlen : (Life.endProc l pi time).ps.length = l.ps.length := length_modifyNth _ _ _
    have hcnt : Life.countP (Life.endProc l pi time) pid = Life.countP l pid := by
      simp only [Life.countP, Life.endProc, Life.modP]
      exact filter_modifyNth_length _ _ _ _ (by intro y; rfl)
    refine splitInv_new (some name) time hlen hcnt ?_
    intro j p hp hpid
    simp only [Life.endProc, Life.modP, getElem?_modifyNth] at hp
    split at hp
    · next e =>
      subst e
      cases hx : l.ps[pi]? with
      | none => rw [hx] at hp; cases hp
      | some x =>
        rw [hx] at hp
        simp only [Option.map_some, Option.some.injEq] at hp
        subst hp
        have hsf := hsuf pi x hx
        exact ⟨rfl, by simp only at hpid; rw [hpid] at hsf; exact hsf⟩
    · next hne =>
      have hsf := hsuf j p hp
      rw [hpid] at hsf
      refine ⟨?_, hsf⟩
      cases hal : p.alive with
      | false => rfl
      | true =>
        -- an alive incarnation of `pid` is the current one
        obtain ⟨q, hb, hh⟩ := h.live.backP j p hp hal
        rw [hpid] at hb
        have := h.live.curProc_bound hb
        rw [hc] at this
        cases this
        exact absurd hh hne

theorem newSpec_comm (last : Last) (l : Life.S) (pid tid : Nat) (name : String) (ex : Bool) (t : Nat) :
    newSpec last l (.comm pid tid name ex t) = [] := by
  simp [newSpec]

/-- **EXEC splits the samples of a pid.** -/
theorem exec_splits (cfg : Config) (pre post : List Rec) (pid : Nat) (name : String) (t : Nat)
    (hr : cfg.reuse = false)
    (hg : Life.grammarOk cfg.ref (pre ++ .comm pid pid name true t :: post) = true) :
    ∃ later, acceptedInc cfg.ref (pre ++ .comm pid pid name true t :: post) = acceptedInc cfg.ref pre ++ later ∧
      ∀ a ∈ acceptedInc cfg.ref pre, ∀ b ∈ later, a.pid = pid → b.pid = pid → a.psuffix < b.psuffix := by
  have hg' : (post.foldl Life.gStep (Life.gStep (pre.foldl Life.gStep { s := { ref := cfg.ref, cur := cfg.ref } })
      (.comm pid pid name true t))).ok = true := by
    unfold Life.grammarOk at hg
    rwa [List.foldl_append, List.foldl_cons] at hg
  have hgex := LifeL.foldl_gStep_ok hg'
  have hgpre := (LifeL.gStep_ok hgex).1
  have hfex := (LifeL.gStep_ok hgex).2
  -- phase 1: up to the EXEC
  obtain ⟨sim0, suf0, el0, r0⟩ := accInc_fold SufInv (fun l a => a.psuffix < Life.countP l a.pid)
    (fun l r h => h.step r)
    (fun l r a _ h => Nat.lt_of_lt_of_le h ((pstab_step l r).cnt _))
    (fun l pi pinc a hp hps _ hpid hsuf => by rw [hsuf, ← hpid]; exact hp pi pinc hps)
    pre (St.init cfg) [] { s := { ref := cfg.ref, cur := cfg.ref } } []
    (LifeL.sim_init cfg hr) (fun j p hp => by simp at hp) (fun a ha => by cases ha) hgpre
  generalize hG1 : pre.foldl Life.gStep { s := { ref := cfg.ref, cur := cfg.ref } } = G1 at *
  -- phase 2: after the EXEC
  obtain ⟨_, _, _, r1⟩ := accInc_fold (SplitInv pid G1.s.ps.length (Life.countP G1.s pid))
    (fun _ b => b.pid = pid → Life.countP G1.s pid ≤ b.psuffix)
    (fun l r h => h.step r)
    (fun _ _ _ _ h => h)
    (fun l pi pinc b hq hps hal hpid hsuf hb => by
      obtain ⟨b1, b2⟩ := hq.2.2 pi pinc hps (hpid.trans hb)
      rw [hsuf]
      by_cases hlt : pi < G1.s.ps.length
      · have := (b1 hlt).1
        rw [hal] at this; cases this
      · exact b2 (by omega))
    post (step (pre.foldl step (St.init cfg)) (.comm pid pid name true t))
    (accStep ((pre.foldl accIncStep (([], { ref := cfg.ref, cur := cfg.ref }), [])).1.1, []) (.comm pid pid name true t)).1
    (Life.gStep G1 (.comm pid pid name true t)) []
    (LifeL.sim_step sim0 _ hfex) (splitInv_exec sim0 suf0 pid name t) (fun a ha => by cases ha) hg'
  refine ⟨(post.foldl accIncStep
      (((accStep ((pre.foldl accIncStep (([], { ref := cfg.ref, cur := cfg.ref }), [])).1.1, [])
          (.comm pid pid name true t)).1, (Life.gStep G1 (.comm pid pid name true t)).s), [])).2, ?_, ?_⟩
  rotate_left
  · intro a ha b hb hapid hbpid
    have h1 := r0 a ha
    rw [hapid] at h1
    exact Nat.lt_of_lt_of_le h1 (r1 b hb hbpid)
  · show ((pre ++ .comm pid pid name true t :: post).foldl accIncStep (([], { ref := cfg.ref, cur := cfg.ref }), [])).2 = _
    rw [List.foldl_append, List.foldl_cons]
    unfold acceptedInc
    generalize hF : pre.foldl accIncStep (([], ({ ref := cfg.ref, cur := cfg.ref } : Life.S)), []) = F1 at *
    obtain ⟨⟨last0, l0⟩, out0⟩ := F1
    simp only at el0
    subst el0
    rw [accIncStep_eq, newSpec_comm, List.append_nil, accInc_fold_out]
    rfl

end Conv
