import SamplyModel.Lemmas.BreakpadReadIndex
/-!
Helper lemmas for C10, part 8: the FUNC block parser (`BreakpadFuncSymbol::parse`) on rendered records.
-/
namespace BPS
open BP
open LB (Byte)

/-! ### what the block parser must produce -/

def funcInfoOf (name : List Byte) (size : Nat) (body : List Rec) : FuncInfo :=
  ⟨name, size, linesOf body, (inlineesOf body).mergeSort inlLE⟩

/-! ### single body lines -/

theorem parseLineRec_line (addr size ln fl k : Nat) (ha : addr < pow32) (hs : size < pow32)
    (hl : ln < pow32) (hf : fl < pow32) :
    parseLineRec (Rec.content (.line addr size ln fl) ++ List.replicate k 13) = some ⟨addr, size, fl, ln⟩ := by
  have e : Rec.content (.line addr size ln fl) ++ List.replicate k 13
      = toHex addr ++ 32 :: (toHex size ++ 32 :: (toDec ln ++ 32 :: (toDec fl ++ List.replicate k 13))) := by
    simp [Rec.content]
  rw [e]
  unfold parseLineRec
  rw [hexU64_toHex addr _ (Nat.lt_trans ha (by decide)) (stopsHex_space _)]
  simp only
  rw [tokSpace1_one _ (noLeadSp_toHex _ _)]
  simp only
  rw [hexU32_toHex size _ hs (stopsHex_space _)]
  simp only
  rw [tokSpace1_one _ (noLeadSp_toDec _ _)]
  simp only
  rw [decimalU32_toDec ln _ hl (stopsDec_space _)]
  simp only
  rw [tokSpace1_one _ (noLeadSp_toDec _ _)]
  simp only
  rw [decimalU32_toDec fl _ hf (stopsDec_crs k)]
  simp only [Nat.mod_eq_of_lt ha]

theorem renderRanges_length (rs : List (Nat × Nat)) : rs.length ≤ (renderRanges rs).length := by
  induction rs with
  | nil => simp [renderRanges]
  | cons r rs ih => simp [renderRanges]; omega

theorem tokSpace1_crs (k : Nat) : tokSpace1 (List.replicate k 13) = none := by
  cases k <;> simp [tokSpace1, List.replicate_succ]

theorem inlineRanges_render (rs : List (Nat × Nat)) (r0 : Nat × Nat) (k fuel : Nat)
    (hfuel : rs.length + 1 ≤ fuel) (hb : ∀ r ∈ r0 :: rs, r.1 < pow32 ∧ r.2 < pow32) :
    inlineRanges fuel (toHex r0.1 ++ 32 :: (toHex r0.2 ++ (renderRanges rs ++ List.replicate k 13)))
      = some (r0 :: rs) := by
  induction rs generalizing r0 fuel with
  | nil =>
    cases fuel with
    | zero => simp at hfuel
    | succ f =>
      simp only [inlineRanges, renderRanges, List.nil_append]
      rw [hexU32_toHex r0.1 _ (hb r0 (by simp)).1 (stopsHex_space _)]
      simp only
      rw [tokSpace1_one _ (noLeadSp_toHex _ _)]
      simp only
      rw [hexU32_toHex r0.2 _ (hb r0 (by simp)).2 (stopsHex_crs k)]
      simp only
      rw [tokSpace1_crs]
  | cons r1 rs ih =>
    cases fuel with
    | zero => simp at hfuel
    | succ f =>
      simp only [inlineRanges, renderRanges, List.cons_append, List.append_assoc]
      rw [hexU32_toHex r0.1 _ (hb r0 (by simp)).1 (stopsHex_space _)]
      simp only
      rw [tokSpace1_one _ (noLeadSp_toHex _ _)]
      simp only
      rw [hexU32_toHex r0.2 _ (hb r0 (by simp)).2 (stopsHex_space _)]
      simp only
      rw [tokSpace1_one _ (noLeadSp_toHex _ _)]
      simp only
      rw [ih r1 f (by simpa using hfuel) (fun r hr => hb r (by simp [hr]))]

theorem parseInlineRest_inline (depth callLine callFile org : Nat) (r0 : Nat × Nat) (rs : List (Nat × Nat))
    (k : Nat) (h : (Rec.inline depth callLine callFile org r0 rs).ok) :
    ∃ rest, tag tINLINE (Rec.content (.inline depth callLine callFile org r0 rs) ++ List.replicate k 13) = some rest ∧
      parseInlineRest rest = some ((r0 :: rs).map fun p => ⟨depth, p.1, p.2, callFile, callLine, org⟩) := by
  obtain ⟨hd, hcl, hcf, ho, hr⟩ := h
  refine ⟨32 :: (toDec depth ++ 32 :: (toDec callLine ++ 32 :: (toDec callFile ++ 32 ::
      (toDec org ++ (32 :: (toHex r0.1 ++ 32 :: (toHex r0.2 ++ (renderRanges rs ++ List.replicate k 13)))))))), ?_, ?_⟩
  · have e : Rec.content (.inline depth callLine callFile org r0 rs) ++ List.replicate k 13
        = tINLINE ++ (32 :: (toDec depth ++ 32 :: (toDec callLine ++ 32 :: (toDec callFile ++ 32 ::
          (toDec org ++ (32 :: (toHex r0.1 ++ 32 :: (toHex r0.2 ++ (renderRanges rs ++ List.replicate k 13))))))))) := by
      simp [Rec.content, renderRanges]
    rw [e, tag_append]
  · unfold parseInlineRest
    rw [tokSpace1_one _ (noLeadSp_toDec _ _)]
    simp only
    rw [decimalU32_toDec depth _ hd (stopsDec_space _)]
    simp only
    rw [tokSpace1_one _ (noLeadSp_toDec _ _)]
    simp only
    rw [decimalU32_toDec callLine _ hcl (stopsDec_space _)]
    simp only
    rw [tokSpace1_one _ (noLeadSp_toDec _ _)]
    simp only
    rw [decimalU32_toDec callFile _ hcf (stopsDec_space _)]
    simp only
    rw [tokSpace1_one _ (noLeadSp_toDec _ _)]
    simp only
    rw [decimalU32_toDec org _ ho (stopsDec_space _)]
    simp only
    rw [tokSpace1_one _ (noLeadSp_toHex _ _)]
    simp only
    rw [inlineRanges_render rs r0 k _ ?_ hr]
    have := renderRanges_length rs
    simp only [List.length_append, List.length_cons]
    omega

/-- a `FILE …` line inside a block is not a line record: `F` is read as a hex digit, then `I` is no space -/
theorem parseLineRec_FI (rest : List Byte) : parseLineRec (70 :: 73 :: rest) = none := by
  have h : hexU64 (70 :: 73 :: rest) = some (15, 73 :: rest) := by
    simp [hexU64, hexStr, digits, hexVal]
  simp [parseLineRec, h, tokSpace1]

/-! ### the body loop -/

theorem parseBody_body (body : List SLine) (hnc : ∀ b ∈ body, b.r.isCloser = false)
    (hok : ∀ b ∈ body, b.r.ok) :
    parseBody (body.map SLine.bytes) = some (linesOf (body.map (·.r)), inlineesOf (body.map (·.r))) := by
  induction body with
  | nil => rfl
  | cons b rest ih =>
    have ih' := ih (fun x hx => hnc x (by simp [hx])) (fun x hx => hok x (by simp [hx]))
    have hb := hnc b (by simp)
    have hbo := hok b (by simp)
    obtain ⟨r, k⟩ := b
    simp only [List.map_cons, SLine.bytes]
    cases r with
    | info _ => simp [Rec.isCloser] at hb
    | pub _ _ _ _ => simp [Rec.isCloser] at hb
    | func _ _ _ _ _ => simp [Rec.isCloser] at hb
    | stack _ => simp [Rec.isCloser] at hb
    | file idx name =>
      have h1 : tag tINLINE_ORIGIN (Rec.content (.file idx name) ++ List.replicate k 13) = none := by
        simp [Rec.content, tag, tFILE, tINLINE_ORIGIN]
      have h2 : tag tINLINE (Rec.content (.file idx name) ++ List.replicate k 13) = none := by
        simp [Rec.content, tag, tFILE, tINLINE]
      have h3 : parseLineRec (Rec.content (.file idx name) ++ List.replicate k 13) = none := by
        simp only [Rec.content, tFILE, List.cons_append]
        exact parseLineRec_FI _
      simp only [parseBody, h1, h2, h3]
      simp only [List.map_cons, SLine.bytes] at ih'
      rw [ih']
      simp [linesOf, inlineesOf]
    | origin idx name =>
      have h1 : ∃ x, tag tINLINE_ORIGIN (Rec.content (.origin idx name) ++ List.replicate k 13) = some x := by
        simp only [Rec.content, List.append_assoc]
        exact ⟨_, tag_append _ _⟩
      obtain ⟨x, hx⟩ := h1
      simp only [parseBody, hx]
      simp only [List.map_cons, SLine.bytes] at ih'
      rw [ih']
      simp [linesOf, inlineesOf]
    | line addr size ln fl =>
      obtain ⟨ha, hs, hl, hf⟩ := hbo
      obtain ⟨d, r', hd, hlt⟩ := toHex_head addr
      have hne := digitByte_not_tag0 d hlt
      have e73 : ((73 : Byte) = digitByte d) = False := by simp [eq_comm, hne.2.1]
      have h1 : tag tINLINE_ORIGIN (Rec.content (.line addr size ln fl) ++ List.replicate k 13) = none := by
        simp [Rec.content, hd, tag, tINLINE_ORIGIN, e73]
      have h2 : tag tINLINE (Rec.content (.line addr size ln fl) ++ List.replicate k 13) = none := by
        simp [Rec.content, hd, tag, tINLINE, e73]
      simp only [parseBody, h1, h2, parseLineRec_line addr size ln fl k ha hs hl hf]
      simp only [List.map_cons, SLine.bytes] at ih'
      rw [ih']
      simp [linesOf, inlineesOf]
    | inline depth callLine callFile org r0 rs =>
      have h1 : tag tINLINE_ORIGIN (Rec.content (.inline depth callLine callFile org r0 rs) ++ List.replicate k 13)
          = none := by
        simp [Rec.content, tag, tINLINE, tINLINE_ORIGIN]
      obtain ⟨x, hx, hp⟩ := parseInlineRest_inline depth callLine callFile org r0 rs k hbo
      simp only [parseBody, h1, hx, hp]
      simp only [List.map_cons, SLine.bytes] at ih'
      rw [ih']
      simp [linesOf, inlineesOf]

/-! ### the text after a line, the bytes of a FUNC block -/

/-- the text that follows a line (starting with the `\n` that ends it) -/
def restText : List SLine → Bool → List Byte
  | [], nl => if nl then [10] else []
  | l :: ls, nl => 10 :: (l.bytes ++ restText ls nl)

/-- the part of `restText` that belongs to the FUNC block opened just before: up to and including the
`\n` in front of the next closer, or to the end of the file -/
def blockBytes : List SLine → Bool → List Byte
  | [], nl => if nl then [10] else []
  | b :: bs, nl => if b.r.isCloser then [10] else 10 :: (b.bytes ++ blockBytes bs nl)

theorem joinNl_restText (first : List Byte) (ls : List SLine) (nl : Bool) :
    LB.joinNl first (ls.map SLine.bytes) ++ (if nl then [10] else []) = first ++ restText ls nl := by
  induction ls generalizing first with
  | nil => simp [LB.joinNl, restText]
  | cons l ls ih => simp [LB.joinNl, restText, ih]

theorem render_restText (s : SymFile) :
    render s = (s.moduleLine ++ List.replicate s.moduleCrs 13) ++ restText s.lines s.finalNl := by
  unfold render; exact joinNl_restText _ _ _

theorem blockBytes_prefix (ls : List SLine) (nl : Bool) : ∃ tail, restText ls nl = blockBytes ls nl ++ tail := by
  induction ls with
  | nil => exact ⟨[], by simp [restText, blockBytes]⟩
  | cons b bs ih =>
    simp only [restText, blockBytes]
    split
    · exact ⟨b.bytes ++ restText bs nl, by simp⟩
    · obtain ⟨t, ht⟩ := ih
      exact ⟨t, by simp [ht]⟩

theorem blockEnd_eq (ls : List SLine) (nl : Bool) (off' endOff : Nat) (h1 : 1 ≤ off')
    (hE : endOff = off' - 1 + (restText ls nl).length) :
    blockEnd endOff (withOffsets off' ls) = off' - 1 + (blockBytes ls nl).length := by
  induction ls generalizing off' with
  | nil => simp [withOffsets, blockEnd, blockBytes, restText, hE]
  | cons b bs ih =>
    simp only [withOffsets, blockEnd, blockBytes]
    split
    · simp; omega
    · rw [ih (off' + b.bytes.length + 1) (by omega) (by
        simp only [restText, List.length_cons, List.length_append] at hE; omega)]
      simp only [List.length_cons, List.length_append]
      omega

theorem splitLinesAux_noNl (l rest cur : List Byte) (h : (10 : Byte) ∉ l) :
    splitLinesAux (l ++ rest) cur = splitLinesAux rest (cur ++ l) := by
  induction l generalizing cur with
  | nil => simp
  | cons b l ih =>
    simp only [List.mem_cons, not_or] at h
    have hb : ¬ b = 10 := fun e => h.1 e.symm
    simp only [List.cons_append, splitLinesAux, hb, if_false]
    rw [ih _ h.2]
    simp

theorem splitLines_cons (l X : List Byte) (h : (10 : Byte) ∉ l) :
    splitLines (l ++ 10 :: X) = l :: splitLines X := by
  unfold splitLines
  rw [splitLinesAux_noNl _ _ _ h]
  simp [splitLinesAux]

theorem splitLines_single (l : List Byte) (h : (10 : Byte) ∉ l) (hne : l ≠ []) : splitLines l = [l] := by
  unfold splitLines
  have := splitLinesAux_noNl l [] [] h
  rw [List.append_nil] at this
  rw [this]
  cases l with
  | nil => exact absurd rfl hne
  | cons a t => simp [splitLinesAux]

theorem bytes_noNl (l : SLine) (h : l.r.ok) : (10 : Byte) ∉ l.bytes := by
  simp only [SLine.bytes, List.mem_append, List.mem_replicate, not_or]
  exact ⟨(content_ok _ h).1, by simp⟩

theorem bytes_ne_nil (l : SLine) : l.bytes ≠ [] := by
  simp [SLine.bytes, content_ne_nil]

theorem splitLines_block (ls : List SLine) (nl : Bool) (hok : ∀ l ∈ ls, l.r.ok) :
    (blockBytes ls nl = [] ∧ ls = []) ∨
    ∃ X, blockBytes ls nl = 10 :: X ∧
      splitLines X = (ls.takeWhile fun u => !u.r.isCloser).map SLine.bytes := by
  induction ls with
  | nil =>
    cases nl with
    | false => left; simp [blockBytes]
    | true => right; exact ⟨[], by simp [blockBytes], by simp [splitLines, splitLinesAux]⟩
  | cons b bs ih =>
    right
    simp only [blockBytes]
    by_cases hc : b.r.isCloser = true
    · simp only [hc, if_true]
      exact ⟨[], rfl, by simp [splitLines, splitLinesAux, List.takeWhile, hc]⟩
    · simp only [hc, Bool.false_eq_true, if_false]
      have hc' : b.r.isCloser = false := by simpa using hc
      refine ⟨_, rfl, ?_⟩
      rcases ih (fun l hl => hok l (by simp [hl])) with ⟨h1, h2⟩ | ⟨X', h1, h2⟩
      · subst h2
        rw [h1, List.append_nil, splitLines_single _ (bytes_noNl b (hok b (by simp))) (bytes_ne_nil b)]
        simp [List.takeWhile, hc']
      · rw [h1, splitLines_cons _ _ (bytes_noNl b (hok b (by simp))), h2]
        simp [List.takeWhile, hc']

theorem splitNl_append (a X : List Byte) (h : (10 : Byte) ∉ a) : LB.splitNl (a ++ 10 :: X) = some (a, X) := by
  induction a with
  | nil => simp [LB.splitNl]
  | cons b a ih =>
    simp only [List.mem_cons, not_or] at h
    have hb : ¬ b = 10 := fun e => h.1 e.symm
    simp [LB.splitNl, hb, ih h.2]

theorem mem_takeWhile_true {α : Type} (p : α → Bool) (l : List α) (x : α) (h : x ∈ l.takeWhile p) : p x = true := by
  induction l with
  | nil => cases h
  | cons a t ih =>
    simp only [List.takeWhile_cons] at h
    split at h
    · rcases List.mem_cons.1 h with e | e
      · subst e; assumption
      · exact ih e
    · cases h

theorem takeWhile_notCloser_props (ls : List SLine) (hok : ∀ l ∈ ls, l.r.ok) :
    (∀ b ∈ ls.takeWhile (fun u => !u.r.isCloser), b.r.isCloser = false) ∧
    (∀ b ∈ ls.takeWhile (fun u => !u.r.isCloser), b.r.ok) := by
  constructor
  · intro b hb
    have := mem_takeWhile_true _ _ _ hb
    simpa using this
  · intro b hb
    exact hok b (List.takeWhile_sublist _ |>.subset hb)

/-- the block parser on the bytes of a FUNC block gives the abstract records of the block -/
theorem parseFunc_block (m : Bool) (addr size psize : Nat) (name : List Byte) (k : Nat) (after : List SLine)
    (nl : Bool) (hfo : (Rec.func m addr size psize name).ok) (hok : ∀ l ∈ after, l.r.ok) :
    parseFunc ((SLine.mk (.func m addr size psize name) k).bytes ++ blockBytes after nl)
      = some (funcInfoOf name size ((after.takeWhile fun u => !u.r.isCloser).map (·.r))) := by
  have hnl := bytes_noNl ⟨.func m addr size psize name, k⟩ hfo
  have hstrip : stripCR (SLine.mk (.func m addr size psize name) k).bytes = Rec.content (.func m addr size psize name) :=
    stripCR_replicate _ _ (content_ok _ hfo).2
  obtain ⟨ha, hs, hp, hn⟩ := hfo
  have hfl := funcLine_func m addr size psize name ha hs hp hn.noLead
  have tw := takeWhile_notCloser_props after hok
  unfold parseFunc
  rcases splitLines_block after nl hok with ⟨h1, h2⟩ | ⟨X, h1, h2⟩
  · subst h2
    rw [h1, List.append_nil, (LB.splitNl_none_iff _).2 hnl]
    simp only [hstrip, hfl, splitLines, splitLinesAux, List.isEmpty_nil, if_true, parseBody, hn.utf8]
    simp [funcInfoOf, linesOf, inlineesOf]
  · rw [h1, splitNl_append _ _ hnl]
    simp only [hstrip, hfl, h2]
    rw [parseBody_body _ tw.1 tw.2]
    simp only [hn.utf8, if_true, funcInfoOf]

end BPS
