import SamplyModel.Lemmas.SymbolicateC
/-!
Helper lemmas for C07, part D: end-to-end facts about `queryApi` / `handle`, from which `Props/C07.lean`
reads off the property theorems.
-/
namespace Sym

/-- Either some module index is outside its memory map and the whole answer is the error, or all are inside
and the answer is `create_response` run on a table that satisfies `TableOk`. -/
theorem queryApi_cases (look : Look) (extOrder) (hext : ExtOrderOk extOrder) (req : Request) :
    (¬ AllIndicesValid req ∧ queryApi look extOrder req = .error .badModuleIndex) ∨
    (AllIndicesValid req ∧ ∃ table, TableOk look req table ∧
      queryApi look extOrder req = createResponse req table) := by
  unfold queryApi
  cases hg : gather req with
  | error e =>
    obtain ⟨h1, h2⟩ := gatherJobs_error hg
    subst h1
    exact Or.inl ⟨h2, rfl⟩
  | ok requested =>
    obtain ⟨h1, _⟩ := gatherJobs_ok hg
    obtain ⟨table, t1, t2⟩ := table_spec look extOrder hext req hg
    exact Or.inr ⟨h1, table, t2, by simp [t1]⟩

theorem frameAt_some {req : Request} {j s i : Nat} {job : Job} {fr : ReqFrame}
    (h : req.frameAt j s i = some (job, fr)) :
    req.jobs[j]? = some job ∧ ∃ st, job.stacks[s]? = some st ∧ st[i]? = some fr := by
  unfold Request.frameAt at h
  cases hj : req.jobs[j]? with
  | none => simp [hj] at h
  | some job' =>
    simp only [hj] at h
    cases hs : job'.stacks[s]? with
    | none => simp [hs] at h
    | some st =>
      simp only [hs] at h
      cases hi : st[i]? with
      | none => simp [hi] at h
      | some fr' =>
        simp only [hi, Option.some.injEq, Prod.mk.injEq] at h
        obtain ⟨rfl, rfl⟩ := h
        exact ⟨rfl, st, hs, hi⟩

theorem requestedAddr_of_frameAt {req : Request} {j s i : Nat} {job : Job} {fr : ReqFrame} {lib : Lib}
    (h : req.frameAt j s i = some (job, fr)) (hl : job.memoryMap[fr.moduleIndex]? = some lib) :
    RequestedAddr req lib fr.address := by
  obtain ⟨h1, st, h2, h3⟩ := frameAt_some h
  exact ⟨job, List.mem_of_getElem? h1, st, List.mem_of_getElem? h2, fr, List.mem_of_getElem? h3, hl, rfl⟩

/-- `create_response` on a good table: request shape, and every frame is the echo of its request frame
plus the symbol a direct lookup determines. -/
theorem createResponse_frames {look : Look} {req : Request} {table : List (Lib × Except Err AddressResults)}
    (ht : TableOk look req table) (hv : AllIndicesValid req) {resp : Response}
    (h : createResponse req table = .ok resp) :
    SameShape req resp ∧
    ∀ j s i job fr, req.frameAt j s i = some (job, fr) →
      ∃ lib, job.memoryMap[fr.moduleIndex]? = some lib ∧
        resp.frameAt j s i = some ⟨i, fr.address, lib.debugName, directSymbol look lib fr.address⟩ := by
  unfold createResponse at h
  cases hr : resultsForJobs table req.jobs with
  | error e => simp [hr] at h
  | ok rs =>
    simp only [hr, Except.ok.injEq] at h
    subst h
    obtain ⟨l1, l2⟩ := resultsForJobs_ok hr
    -- facts about one job
    have hjob : ∀ (j : Nat) job res, req.jobs[j]? = some job → rs[j]? = some res →
        res.stacks.length = job.stacks.length ∧
        ∀ (s : Nat) st, job.stacks[s]? = some st → ∃ rst, res.stacks[s]? = some rst ∧ rst.length = st.length ∧
          ∀ (i : Nat) fr, st[i]? = some fr → ∃ lib, job.memoryMap[fr.moduleIndex]? = some lib ∧
            rst[i]? = some ⟨i, fr.address, lib.debugName, directSymbol look lib fr.address⟩ := by
      intro j job res hj hres
      obtain ⟨res', r1, r2⟩ := l2 j job hj
      rw [hres] at r1
      simp only [Option.some.injEq] at r1
      subst r1
      unfold resultForJob at r2
      simp only at r2
      cases hst : responseStacks job.memoryMap
          (scanMemoryMap table job.memoryMap 0 JobTables.empty).byIndex job.stacks with
      | error e => simp [hst] at r2
      | ok stacks =>
        simp only [hst, Except.ok.injEq] at r2
        subst r2
        obtain ⟨s1, s2⟩ := responseStacks_ok hst
        refine ⟨s1, fun s st hs => ?_⟩
        obtain ⟨rst, q1, q2⟩ := s2 s st hs
        obtain ⟨f1, f2⟩ := responseStack_ok q2
        refine ⟨rst, q1, f1, fun i fr hi => ?_⟩
        obtain ⟨rf, g1, g2⟩ := f2 i fr hi
        simp only [Nat.zero_add] at g2
        have hjm : job ∈ req.jobs := List.mem_of_getElem? hj
        have hlt := hv job hjm st (List.mem_of_getElem? hs) fr (List.mem_of_getElem? hi)
        have hl : job.memoryMap[fr.moduleIndex]? = some (job.memoryMap[fr.moduleIndex]) :=
          List.getElem?_eq_getElem hlt
        refine ⟨_, hl, ?_⟩
        have hreq : RequestedAddr req (job.memoryMap[fr.moduleIndex]) fr.address :=
          ⟨job, hjm, st, List.mem_of_getElem? hs, fr, List.mem_of_getElem? hi, hl, rfl⟩
        rw [responseFrame_eq ht hl hreq i] at g2
        cases ho : frameOutcome look (job.memoryMap[fr.moduleIndex]) fr.address with
        | error e => rw [ho] at g2; simp at g2
        | ok sym =>
          rw [ho] at g2
          simp only [Except.ok.injEq] at g2
          rw [g1, ← g2, frameOutcome_ok ho]
    refine ⟨⟨l1, fun j job res hj hres => ?_⟩, fun j s i job fr hfa => ?_⟩
    · obtain ⟨a1, a2⟩ := hjob j job res hj hres
      refine ⟨a1, fun s st rst hs hrst => ?_⟩
      obtain ⟨rst', b1, b2, _⟩ := a2 s st hs
      rw [hrst] at b1
      simp only [Option.some.injEq] at b1
      subst b1
      exact b2
    · obtain ⟨hj, st, hs, hi⟩ := frameAt_some hfa
      obtain ⟨res, r1, _⟩ := l2 j job hj
      obtain ⟨_, a2⟩ := hjob j job res hj r1
      obtain ⟨rst, b1, _, b3⟩ := a2 s st hs
      obtain ⟨lib, c1, c2⟩ := b3 i fr hi
      refine ⟨lib, c1, ?_⟩
      unfold Response.frameAt
      simp only [r1, b1, c2]

/-- the only way `create_response` fails on a good table is a panic caused by an oracle entry of a requested
(library, address) pair that breaks the lookup contract -/
theorem createResponse_error {look : Look} {req : Request} {table : List (Lib × Except Err AddressResults)}
    (ht : TableOk look req table) (hv : AllIndicesValid req) {e : Fail}
    (h : createResponse req table = .error e) :
    (∃ site, e = .panic site) ∧
    ∃ lib a f info, RequestedAddr req lib a ∧ look lib = .ok f ∧ f a = some info ∧
      (a < info.symAddr ∨ info.frames.resolved = some []) := by
  unfold createResponse at h
  cases hr : resultsForJobs table req.jobs with
  | ok rs => simp [hr] at h
  | error e' =>
    simp only [hr, Except.error.injEq] at h
    subst h
    obtain ⟨job, hjm, r2⟩ := resultsForJobs_error hr
    unfold resultForJob at r2
    simp only at r2
    cases hst : responseStacks job.memoryMap
        (scanMemoryMap table job.memoryMap 0 JobTables.empty).byIndex job.stacks with
    | ok stacks => simp [hst] at r2
    | error e'' =>
      simp only [hst, Except.error.injEq] at r2
      subst r2
      obtain ⟨st, hsm, q2⟩ := responseStacks_error hst
      obtain ⟨k, fr, hk, g2⟩ := responseStack_error q2
      simp only [Nat.zero_add] at g2
      have hlt := hv job hjm st hsm fr (List.mem_of_getElem? hk)
      have hl : job.memoryMap[fr.moduleIndex]? = some (job.memoryMap[fr.moduleIndex]) :=
        List.getElem?_eq_getElem hlt
      have hreq : RequestedAddr req (job.memoryMap[fr.moduleIndex]) fr.address :=
        ⟨job, hjm, st, hsm, fr, List.mem_of_getElem? hk, hl, rfl⟩
      rw [responseFrame_eq ht hl hreq k] at g2
      cases ho : frameOutcome look (job.memoryMap[fr.moduleIndex]) fr.address with
      | ok sym => rw [ho] at g2; simp at g2
      | error e3 =>
        rw [ho] at g2
        simp only [Except.error.injEq] at g2
        subst g2
        obtain ⟨p1, f, info, p2, p3, p4⟩ := frameOutcome_error ho
        exact ⟨p1, _, _, f, info, hreq, p2, p3, p4⟩

/-- `found_modules` / `module_errors` of each result, in terms of the request and the oracle -/
theorem createResponse_modules {look : Look} {req : Request} {table : List (Lib × Except Err AddressResults)}
    (ht : TableOk look req table) {resp : Response} (h : createResponse req table = .ok resp) :
    ∀ (j : Nat) job res, req.jobs[j]? = some job → resp.results[j]? = some res →
      (∀ k b, alookup res.foundModules k = some b →
        ∃ lib ∈ job.memoryMap, moduleKey lib = k ∧ Requested req lib ∧ isOk (look lib) = b) ∧
      (∀ k, alookup res.foundModules k = none ↔
        ∀ lib ∈ job.memoryMap, moduleKey lib = k → ¬ Requested req lib) ∧
      (∀ k es, alookup res.moduleErrors k = some es →
        ∃ lib ∈ job.memoryMap, moduleKey lib = k ∧ Requested req lib ∧ ∃ e, look lib = .error e ∧ es = [e]) ∧
      (∀ k, alookup res.moduleErrors k = none ↔
        ∀ lib ∈ job.memoryMap, moduleKey lib = k → Requested req lib → isOk (look lib) = true) := by
  unfold createResponse at h
  cases hr : resultsForJobs table req.jobs with
  | error e => simp [hr] at h
  | ok rs =>
    simp only [hr, Except.ok.injEq] at h
    subst h
    obtain ⟨_, l2⟩ := resultsForJobs_ok hr
    intro j job res hj hres
    obtain ⟨res', r1, r2⟩ := l2 j job hj
    simp only at hres
    rw [hres] at r1
    simp only [Option.some.injEq] at r1
    subst r1
    unfold resultForJob at r2
    simp only at r2
    cases hst : responseStacks job.memoryMap
        (scanMemoryMap table job.memoryMap 0 JobTables.empty).byIndex job.stacks with
    | error e => simp [hst] at r2
    | ok stacks =>
      simp only [hst, Except.ok.injEq] at r2
      subst r2
      simp only
      -- facts connecting the table to the oracle
      have hstat : ∀ lib r, alookup table lib = some r → Requested req lib ∧ isOk r = isOk (look lib) := by
        intro lib r hr'
        refine ⟨?_, ?_⟩
        · apply Classical.byContradiction
          intro hn
          have := (ht.1 lib).mpr hn
          rw [hr'] at this; simp at this
        · have := ht.2 lib r hr'
          cases hl : look lib with
          | error e => rw [hl] at this; subst this; rfl
          | ok f => rw [hl] at this; obtain ⟨tbl, rfl, _⟩ := this; rfl
      have hnone : ∀ lib, alookup table lib = none ↔ ¬ Requested req lib := ht.1
      have herr : ∀ lib e, alookup table lib = some (.error e) ↔ Requested req lib ∧ look lib = .error e := by
        intro lib e
        constructor
        · intro hr'
          refine ⟨(hstat lib _ hr').1, ?_⟩
          have := ht.2 lib _ hr'
          cases hl : look lib with
          | error e' => rw [hl] at this; simp only [Except.error.injEq] at this; rw [this]
          | ok f => rw [hl] at this; obtain ⟨tbl, h1, _⟩ := this; simp at h1
        · rintro ⟨h1, h2⟩
          cases hr' : alookup table lib with
          | none => exact absurd h1 ((hnone lib).mp hr')
          | some r =>
            have := ht.2 lib r hr'
            rw [h2] at this
            rw [this]
      refine ⟨?_, ?_, ?_, ?_⟩
      · intro k b hk
        rcases scan_found_some hk with h0 | ⟨lib, hm, hkey, r, hr', hb⟩
        · simp [JobTables.empty, alookup] at h0
        · obtain ⟨q1, q2⟩ := hstat lib r hr'
          exact ⟨lib, hm, hkey, q1, by rw [← q2]; exact hb⟩
      · intro k
        rw [scan_found_none]
        simp only [JobTables.empty, alookup, true_and]
        constructor
        · intro h0 lib hm hkey; exact (hnone lib).mp (h0 lib hm hkey)
        · intro h0 lib hm hkey; exact (hnone lib).mpr (h0 lib hm hkey)
      · intro k es hk
        rcases scan_errors_some hk with h0 | ⟨lib, hm, hkey, e, hr', hes⟩
        · simp [JobTables.empty, alookup] at h0
        · obtain ⟨q1, q2⟩ := (herr lib e).mp hr'
          exact ⟨lib, hm, hkey, q1, e, q2, hes⟩
      · intro k
        rw [scan_errors_none]
        simp only [JobTables.empty, alookup, true_and]
        constructor
        · intro h0 lib hm hkey hreq
          cases hl : look lib with
          | ok f => rfl
          | error e => exact absurd ((herr lib e).mpr ⟨hreq, hl⟩) (h0 lib hm hkey e)
        · intro h0 lib hm hkey e hr'
          obtain ⟨q1, q2⟩ := (herr lib e).mp hr'
          have := h0 lib hm hkey q1
          rw [q2] at this
          simp [isOk] at this

/-! ### the file paths a response reports (used by C09) -/

theorem reportedFiles_directSymbol {look : Look} {lib : Lib} {a : Nat} {f : Nat → Option AddrInfo}
    {info : AddrInfo} {sym : Symbol} (hl : look lib = .ok f) (hf : f a = some info)
    (hs : directSymbol look lib a = some sym) (hne : info.frames.resolved ≠ some []) (p : String) :
    p ∈ sym.reportedFiles ↔ ∃ fp ∈ info.filePaths, apiFilePath fp = p := by
  unfold directSymbol at hs
  simp only [hl, hf, Option.some.injEq] at hs
  subst hs
  unfold Symbol.reportedFiles AddrInfo.filePaths
  cases hres : info.frames.resolved with
  | none => simp
  | some fs =>
    simp only
    cases hlast : fs.getLast? with
    | none =>
      have : fs = [] := by simpa using hlast
      subst this
      exact absurd hres hne
    | some outer =>
      have hfs : fs.dropLast ++ [outer] = fs := by
        obtain ⟨ys, rfl⟩ := List.getLast?_eq_some_iff.mp hlast
        simp
      simp only [debugInfoOfFrames, hlast, debugInfoFrom]
      rw [← hfs]
      simp only [List.mem_append, List.mem_filterMap, List.mem_map, inlineOf, List.filterMap_append,
        Option.mem_toList, List.dropLast_concat]
      constructor
      · rintro (h | ⟨x, ⟨fr, hfr, rfl⟩, hx⟩)
        · cases hfp : outer.filePath with
          | none => simp [hfp] at h
          | some fp =>
            simp only [hfp, Option.map_some, Option.some.injEq] at h
            exact ⟨fp, Or.inr ⟨outer, by simp, hfp⟩, h⟩
        · simp only at hx
          cases hfp : fr.filePath with
          | none => simp [hfp] at hx
          | some fp =>
            simp only [hfp, Option.map_some, Option.some.injEq] at hx
            exact ⟨fp, Or.inl ⟨fr, hfr, hfp⟩, hx⟩
      · rintro ⟨fp, (⟨fr, hfr, hfp⟩ | ⟨fr, hfr, hfp⟩), hp⟩
        · exact Or.inr ⟨_, ⟨fr, hfr, rfl⟩, by simp [hfp, hp]⟩
        · simp only [List.mem_singleton] at hfr
          subst hfr
          exact Or.inl (by simp [hfp, hp])

/-! ### serde's number checks -/

theorem decodeStack_none_iff (st : List (Int × Int)) :
    decodeStack st = none ↔ ∃ p ∈ st, decodeFrame p = none := by
  induction st with
  | nil => simp [decodeStack]
  | cons p rest ih =>
    simp only [decodeStack, List.mem_cons]
    cases hp : decodeFrame p with
    | none => simp [hp]
    | some f =>
      cases hr : decodeStack rest with
      | none =>
        simp only [true_iff]
        obtain ⟨q, hq, hq2⟩ := ih.mp hr
        exact ⟨q, Or.inr hq, hq2⟩
      | some fs =>
        simp only [reduceCtorEq, false_iff]
        rintro ⟨q, rfl | hq, hq2⟩
        · rw [hp] at hq2; simp at hq2
        · have := ih.mpr ⟨q, hq, hq2⟩
          rw [hr] at this; simp at this

theorem decodeStacks_none_iff (sts : List (List (Int × Int))) :
    decodeStacks sts = none ↔ ∃ st ∈ sts, ∃ p ∈ st, decodeFrame p = none := by
  induction sts with
  | nil => simp [decodeStacks]
  | cons st rest ih =>
    simp only [decodeStacks, List.mem_cons]
    cases hp : decodeStack st with
    | none =>
      simp only [true_iff]
      exact ⟨st, Or.inl rfl, (decodeStack_none_iff st).mp hp⟩
    | some f =>
      cases hr : decodeStacks rest with
      | none =>
        simp only [true_iff]
        obtain ⟨q, hq, hq2⟩ := ih.mp hr
        exact ⟨q, Or.inr hq, hq2⟩
      | some fs =>
        simp only [reduceCtorEq, false_iff]
        rintro ⟨q, rfl | hq, hq2⟩
        · have := (decodeStack_none_iff q).mpr hq2
          rw [hp] at this; simp at this
        · have := ih.mpr ⟨q, hq, hq2⟩
          rw [hr] at this; simp at this

theorem decodeJob_none_iff (job : RawJob) :
    decodeJob job = none ↔ ∃ st ∈ job.stacks, ∃ p ∈ st, decodeFrame p = none := by
  unfold decodeJob
  rw [← decodeStacks_none_iff]
  cases decodeStacks job.stacks <;> simp

theorem decodeJobs_none_iff (jobs : List RawJob) :
    decodeJobs jobs = none ↔ ∃ job ∈ jobs, ∃ st ∈ job.stacks, ∃ p ∈ st, decodeFrame p = none := by
  induction jobs with
  | nil => simp [decodeJobs]
  | cons job rest ih =>
    simp only [decodeJobs, List.mem_cons]
    cases hp : decodeJob job with
    | none =>
      simp only [true_iff]
      exact ⟨job, Or.inl rfl, (decodeJob_none_iff job).mp hp⟩
    | some f =>
      cases hr : decodeJobs rest with
      | none =>
        simp only [true_iff]
        obtain ⟨q, hq, hq2⟩ := ih.mp hr
        exact ⟨q, Or.inr hq, hq2⟩
      | some fs =>
        simp only [reduceCtorEq, false_iff]
        rintro ⟨q, rfl | hq, hq2⟩
        · have := (decodeJob_none_iff q).mpr hq2
          rw [hp] at this; simp at this
        · have := ih.mpr ⟨q, hq, hq2⟩
          rw [hr] at this; simp at this

theorem decode_none_iff (raw : RawRequest) :
    decode raw = none ↔ ∃ job ∈ raw.jobs, ∃ st ∈ job.stacks, ∃ p ∈ st, decodeFrame p = none := by
  cases raw with
  | withJobsList jobs =>
    simp only [decode, RawRequest.jobs, Option.map_eq_none_iff]
    exact decodeJobs_none_iff jobs
  | justOneJob job =>
    simp only [decode, RawRequest.jobs, Option.map_eq_none_iff, List.mem_singleton, exists_eq_left]
    exact decodeJob_none_iff job

theorem decodeFrame_none_iff (p : Int × Int) :
    decodeFrame p = none ↔ (p.1 < 0 ∨ 4294967296 ≤ p.1 ∨ p.2 < 0 ∨ 4294967296 ≤ p.2) := by
  unfold decodeFrame u32Ok
  by_cases h1 : 0 ≤ p.1 <;> by_cases h2 : p.1 < 4294967296 <;> by_cases h3 : 0 ≤ p.2 <;>
    by_cases h4 : p.2 < 4294967296 <;> simp [h1, h2, h3, h4] <;> omega

end Sym
