import SamplyModel.Lemmas.ConvSim
import SamplyModel.Lemmas.LifeStep
/-!
Observations of the converter state that carry no handles (convD2): per pid the pending mapping queue, the
sample buffer (in order) and, per tid, the triple (`lastTs`, `context_switch_data`, `off_cpu_stack`) of the thread
object bound to (pid, tid). A pid / tid that is not bound is observed like a freshly created one (empty queue,
empty buffer, `Thread::new` defaults), so on-demand creation is invisible. Every helper of the converter is
characterised on these observations (`Same` = nothing visible changes), then every record kind (`obs_*`).
Every configuration (with `--reuse-threads` the recycled handles and names are invisible to the observations).

This generalises `lastOf` / `tl` of `Lemmas/ConvInv.lean` (C01_dedup_refinement) from `lastTs` to the triple and
adds the per-process queue and buffer; it is what the history-level theorems of C02 (`C02_history`), C12
(`C12_conv_cpu`, `C12_conv_offcpu`) and C01 (`C01_no_panic`) are proved from.
-/
namespace Conv
open ConvSpec

abbrev TQ := Option Nat × CS.St × Option (List SFrame)

def tqOf (t : ThreadC) : TQ := (t.lastTs, t.cs, t.offStack)
def tqFresh : TQ := (none, CS.St.init, none)

/-- the observed thread triple at `tid` of a process record -/
def tq (p : ProcC) (tid : Nat) : TQ :=
  match thrOf p tid with
  | some t => tqOf t
  | none => tqFresh

structure PObs where
  mapq : List (Nat × MapAdd)
  samples : List USample
  thr : Nat → TQ

def PObs.empty : PObs := ⟨[], [], fun _ => tqFresh⟩

def PObs.setThr (o : PObs) (tid : Nat) (q : TQ) : PObs :=
  { o with thr := fun b => if b = tid then q else o.thr b }

def pobsP (p : ProcC) : PObs := ⟨p.mapq, p.samples, tq p⟩

def pobs (procs : List (Nat × ProcC)) (pid : Nat) : PObs :=
  match alGet procs pid with
  | some p => pobsP p
  | none => PObs.empty

def upd (f : Nat → PObs) (k : Nat) (v : PObs) : Nat → PObs := fun a => if a = k then v else f a

theorem pobs_of_get {procs : List (Nat × ProcC)} {k : Nat} {p : ProcC} (h : alGet procs k = some p) :
    pobs procs k = pobsP p := by unfold pobs; rw [h]

theorem pobs_of_none {procs : List (Nat × ProcC)} {k : Nat} (h : alGet procs k = none) :
    pobs procs k = PObs.empty := by unfold pobs; rw [h]

theorem pobs_alPut (procs : List (Nat × ProcC)) (k : Nat) (p : ProcC) (a : Nat) :
    pobs (alPut procs k p) a = if a = k then pobsP p else pobs procs a := by
  unfold pobs
  rw [alGet_alPut]
  by_cases h : a = k <;> simp [h]

theorem pobs_alDel (procs : List (Nat × ProcC)) (k a : Nat) :
    pobs (alDel procs k) a = if a = k then PObs.empty else pobs procs a := by
  unfold pobs
  rw [alGet_alDel]
  by_cases h : a = k <;> simp [h]

theorem PObs.ext' {a b : PObs} (h1 : a.mapq = b.mapq) (h2 : a.samples = b.samples) (h3 : ∀ t, a.thr t = b.thr t) :
    a = b := by
  cases a; cases b
  simp only at h1 h2 h3
  subst h1; subst h2
  congr
  funext t; exact h3 t

theorem setThr_empty_fresh (tid : Nat) : PObs.empty.setThr tid tqFresh = PObs.empty := by
  refine PObs.ext' rfl rfl ?_
  intro t
  simp only [PObs.setThr, PObs.empty]
  split <;> rfl

/-! ### thread triples of a process record -/

theorem tq_main (p : ProcC) : tq p p.pid = tqOf p.main := by
  unfold tq thrOf; simp

theorem tq_thread {p : ProcC} {tid : Nat} (hne : tid ≠ p.pid) :
    tq p tid = match alGet p.threads tid with | some t => tqOf t | none => tqFresh := by
  unfold tq thrOf; simp [hne]

theorem tq_of_thrOf {p : ProcC} {tid : Nat} {t : ThreadC} (h : thrOf p tid = some t) : tq p tid = tqOf t := by
  unfold tq; rw [h]

theorem tq_congr {p p' : ProcC} (h1 : p'.pid = p.pid) (h2 : tqOf p'.main = tqOf p.main)
    (h3 : p'.threads = p.threads) (b : Nat) : tq p' b = tq p b := by
  unfold tq thrOf
  rw [h1, h3]
  by_cases h : b = p.pid <;> simp [h, h2]

theorem tq_alPut {p p' : ProcC} {tid : Nat} {t : ThreadC} (h1 : p'.pid = p.pid)
    (h2 : tqOf p'.main = tqOf p.main) (h3 : p'.threads = alPut p.threads tid t) (hne : tid ≠ p.pid) (b : Nat) :
    tq p' b = if b = tid then tqOf t else tq p b := by
  unfold tq thrOf
  rw [h1, h3, alGet_alPut]
  by_cases h : b = p.pid
  · have h' : ¬ p.pid = tid := fun e => hne e.symm
    subst h
    simp [h2, h']
  · by_cases h' : b = tid
    · subst h'; simp [h]
    · simp [h, h']

theorem tq_alDel {p p' : ProcC} {tid : Nat} (h1 : p'.pid = p.pid)
    (h2 : tqOf p'.main = tqOf p.main) (h3 : p'.threads = alDel p.threads tid) (hne : tid ≠ p.pid) (b : Nat) :
    tq p' b = if b = tid then tqFresh else tq p b := by
  unfold tq thrOf
  rw [h1, h3, alGet_alDel]
  by_cases h : b = p.pid
  · have h' : ¬ p.pid = tid := fun e => hne e.symm
    subst h
    simp [h2, h']
  · by_cases h' : b = tid
    · subst h'; simp [h]
    · simp [h, h']

theorem tq_putThread (p : ProcC) (tid : Nat) (t : ThreadC) (b : Nat) :
    tq (putThread p tid t) b = if b = tid then tqOf t else tq p b := by
  unfold putThread
  by_cases htid : tid = p.pid
  · simp only [htid, if_true]
    unfold tq thrOf
    by_cases hb : b = p.pid <;> simp [hb]
  · simp only [htid, if_false]
    exact tq_alPut (p := p) (p' := { p with threads := alPut p.threads tid t }) rfl rfl rfl htid b

/-- a freshly made process record is observed like an unbound pid -/
theorem pobsP_fresh {p : ProcC} (h1 : p.mapq = []) (h2 : p.samples = []) (h3 : tqOf p.main = tqFresh)
    (h4 : p.threads = []) : pobsP p = PObs.empty := by
  refine PObs.ext' h1 h2 ?_
  intro t
  show tq p t = tqFresh
  unfold tq thrOf
  rw [h4]
  by_cases h : t = p.pid
  · simp only [h, if_true]; exact h3
  · simp [h, alGet_nil]

/-! ### `Same`: nothing observable changes -/

structure Same (s s' : St) : Prop where
  obs : ∀ a, pobs s'.procs a = pobs s.procs a
  parked : s'.parked = s.parked
  cfg : s'.cfg = s.cfg
  bad : s'.bad = s.bad

theorem Same.refl (s : St) : Same s s := ⟨fun _ => rfl, rfl, rfl, rfl⟩

theorem Same.trans {s1 s2 s3 : St} (h1 : Same s1 s2) (h2 : Same s2 s3) : Same s1 s3 :=
  ⟨fun a => (h2.obs a).trans (h1.obs a), h2.parked.trans h1.parked, h2.cfg.trans h1.cfg, h2.bad.trans h1.bad⟩

theorem Same.of_eq {s s' : St} (h1 : s'.procs = s.procs) (h2 : s'.parked = s.parked) (h3 : s'.cfg = s.cfg)
    (h4 : s'.bad = s.bad) : Same s s' := ⟨fun a => by rw [h1], h2, h3, h4⟩

/-- re-inserting a process record with the same observation -/
theorem Same.put {s : St} {p p0 : ProcC} (hg : alGet s.procs p.pid = some p0) (h : pobsP p = pobsP p0) :
    Same s (putProc s p) := by
  refine ⟨fun a => ?_, rfl, rfl, rfl⟩
  show pobs (alPut s.procs p.pid p) a = _
  rw [pobs_alPut]
  split
  · next ha => rw [ha, pobs_of_get hg, h]
  · rfl

theorem Same.putFresh {s : St} {p : ProcC} (hg : alGet s.procs p.pid = none) (h : pobsP p = PObs.empty) :
    Same s (putProc s p) := by
  refine ⟨fun a => ?_, rfl, rfl, rfl⟩
  show pobs (alPut s.procs p.pid p) a = _
  rw [pobs_alPut]
  split
  · next ha => rw [ha, pobs_of_none hg, h]
  · rfl

/-! ### the helpers -/

open LifeL in
theorem getByPid_same (s : St) (pid : Nat) :
    Same s (getByPid s pid).1 ∧ alGet (getByPid s pid).1.procs pid = some (getByPid s pid).2 := by
  cases h : alGet s.procs pid with
  | some p => rw [getByPid_some h]; exact ⟨Same.refl s, h⟩
  | none =>
    rw [getByPid_none h]
    refine ⟨?_, alGet_alPut_self _ _ _⟩
    have : mkProcS s pid none 0 = putProc (mkProcS s pid none 0) (mkProcC s pid none) := by
      simp [mkProcS, putProc, mkProcC, alPut, alDel]
    have h1 : Same s { s with usedPids := (mkProcS s pid none 0).usedPids, usedTids := (mkProcS s pid none 0).usedTids,
                              pents := (mkProcS s pid none 0).pents, tents := (mkProcS s pid none 0).tents } :=
      Same.of_eq rfl rfl rfl rfl
    refine h1.trans ?_
    exact Same.putFresh (p := mkProcC s pid none) h (pobsP_fresh rfl rfl rfl rfl)

open LifeL in
theorem getThread_same {s : St} {p : ProcC} (tid : Nat) (hp : alGet s.procs p.pid = some p) :
    Same s (getThread s p tid).1 ∧ alGet (getThread s p tid).1.procs p.pid = some (getThread s p tid).2.1 ∧
      (getThread s p tid).2.1.pid = p.pid ∧ thrOf (getThread s p tid).2.1 tid = some (getThread s p tid).2.2 ∧
      tqOf (getThread s p tid).2.2 = tq p tid ∧ pobsP (getThread s p tid).2.1 = pobsP p := by
  by_cases htid : tid = p.pid
  · rw [getThread_main htid]
    refine ⟨Same.refl s, hp, rfl, by simp [thrOf, htid], ?_, rfl⟩
    rw [htid, tq_main]
  · cases ht : alGet p.threads tid with
    | some t =>
      rw [getThread_some htid ht]
      refine ⟨Same.refl s, hp, rfl, by simp [thrOf, htid, ht], ?_, rfl⟩
      rw [tq_thread htid, ht]
    | none =>
      rw [getThread_none htid ht]
      have hobs : pobsP (mkThreadC s p tid none) = pobsP p := by
        refine PObs.ext' rfl rfl ?_
        intro b
        show tq (mkThreadC s p tid none) b = tq p b
        rw [tq_alPut (p := p) (p' := mkThreadC s p tid none) rfl rfl rfl htid]
        split
        · next hb => rw [hb, tq_thread htid, ht]; rfl
        · rfl
      refine ⟨?_, alGet_alPut_self _ _ _, rfl, by simp [thrOf, mkThreadC, htid, alGet_alPut_self], ?_, hobs⟩
      · have h1 : Same s { s with usedTids := (mkThreadS s p tid none 0).usedTids,
                                  tents := (mkThreadS s p tid none 0).tents } := Same.of_eq rfl rfl rfl rfl
        exact h1.trans (Same.put (p := mkThreadC s p tid none) hp hobs)
      · rw [tq_thread htid, ht]; rfl

section
open LifeL
theorem getNewProc_fresh {s : St} {pid : Nat} {name : Option String} {start : Nat} (h : alGet s.procs pid = none)
    (hrec : (if s.cfg.reuse then (match name with | some n => procPoolTake s.procPool n | none => none) else none) = none) :
    getNewProc s pid name start = (mkProcS s pid name start, mkProcC s pid name) := by
  unfold getNewProc
  rw [h]
  cases name with
  | none => simp only [ite_self]; rfl
  | some n =>
    simp only at hrec
    simp only [hrec, addProcess, addThread, setTName, setT, putProc, mkProcS, mkProcC]
    rw [modifyNth_concat_len]

theorem getNewProc_same (s : St) (pid : Nat) (name : Option String) (start : Nat) :
    Same s (getNewProc s pid name start).1 ∧
      alGet (getNewProc s pid name start).1.procs pid = some (getNewProc s pid name start).2 ∧
      pobsP (getNewProc s pid name start).2 = pobs s.procs pid := by
  cases h : alGet s.procs pid with
  | some p0 =>
    have e : getNewProc s pid name start =
        ((if p0.main.lastTs.isNone then setTStart (setPStart s p0.h start) p0.main.h start else s), p0) := by
      unfold getNewProc; rw [h]
    rw [e]
    refine ⟨?_, ?_, (pobs_of_get h).symm⟩
    · split
      · exact Same.of_eq rfl rfl rfl rfl
      · exact Same.refl s
    · dsimp only; split <;> exact h
  | none =>
    cases hrec : (if s.cfg.reuse then (match name with | some n => procPoolTake s.procPool n | none => none) else none) with
    | none =>
      rw [getNewProc_fresh h hrec]
      refine ⟨?_, Conv.alGet_alPut_self _ _ _, ?_⟩
      · have h1 : Same s { s with usedPids := (mkProcS s pid name start).usedPids,
                                  usedTids := (mkProcS s pid name start).usedTids,
                                  pents := (mkProcS s pid name start).pents,
                                  tents := (mkProcS s pid name start).tents } := Same.of_eq rfl rfl rfl rfl
        exact h1.trans (Same.putFresh (p := mkProcC s pid name) h (pobsP_fresh rfl rfl rfl rfl))
      · rw [pobs_of_none h]; exact pobsP_fresh rfl rfl rfl rfl
    | some rp =>
      obtain ⟨r, pool'⟩ := rp
      have e : getNewProc s pid name start =
          (putProc { s with procPool := pool' } { pid, h := r.ph, name, main := { h := r.mainTh, name }, pool := r.pool },
           { pid, h := r.ph, name, main := { h := r.mainTh, name }, pool := r.pool }) := by
        cases name with
        | none => simp at hrec
        | some n => simp only at hrec; unfold getNewProc; rw [h]; simp only [hrec]
      rw [e]
      refine ⟨?_, Conv.alGet_alPut_self _ _ _, ?_⟩
      · have h1 : Same s { s with procPool := pool' } := Same.of_eq rfl rfl rfl rfl
        exact h1.trans (Same.putFresh (s := { s with procPool := pool' })
          (p := { pid, h := r.ph, name, main := { h := r.mainTh, name }, pool := r.pool }) h
          (pobsP_fresh rfl rfl rfl rfl))
      · rw [pobs_of_none h]; exact pobsP_fresh rfl rfl rfl rfl

theorem getNewThread_fresh {s : St} {p : ProcC} {tid : Nat} {name : Option String} {start : Nat} (htid : tid ≠ p.pid)
    (ht : alGet p.threads tid = none)
    (hrec : (if s.cfg.reuse then (match name with | some n => poolTake p.pool n | none => none) else none) = none) :
    getNewThread s p tid name start = (mkThreadS s p tid name start, mkThreadC s p tid name) := by
  unfold getNewThread
  rw [if_neg htid, ht]
  cases name with
  | none => simp only [ite_self]; rfl
  | some n =>
    simp only at hrec
    simp only [hrec, addThread, setTName, setT, putProc, mkThreadS, mkThreadC]
    rw [modifyNth_concat_len]

theorem getNewThread_same {s : St} {p : ProcC} (hp : alGet s.procs p.pid = some p)
    (tid : Nat) (name : Option String) (start : Nat) :
    Same s (getNewThread s p tid name start).1 := by
  by_cases htid : tid = p.pid
  · unfold getNewThread; rw [if_pos htid]; exact Same.refl s
  · cases ht : alGet p.threads tid with
    | none =>
      cases hrec : (if s.cfg.reuse then (match name with | some n => poolTake p.pool n | none => none) else none) with
      | none =>
        rw [getNewThread_fresh htid ht hrec]
        have hobs : pobsP (mkThreadC s p tid name) = pobsP p := by
          refine PObs.ext' rfl rfl ?_
          intro b
          show tq (mkThreadC s p tid name) b = tq p b
          rw [tq_alPut (p := p) (p' := mkThreadC s p tid name) rfl rfl rfl htid]
          split
          · next hb => rw [hb, tq_thread htid, ht]; rfl
          · rfl
        have h1 : Same s { s with usedTids := (mkThreadS s p tid name start).usedTids,
                                  tents := (mkThreadS s p tid name start).tents } := Same.of_eq rfl rfl rfl rfl
        exact h1.trans (Same.put (p := mkThreadC s p tid name) hp hobs)
      | some hp' =>
        obtain ⟨hh, pool'⟩ := hp'
        have e : getNewThread s p tid name start =
            (putProc s { p with threads := alPut p.threads tid { h := hh, name }, pool := pool' },
             { p with threads := alPut p.threads tid { h := hh, name }, pool := pool' }) := by
          cases name with
          | none => simp at hrec
          | some n => simp only at hrec; unfold getNewThread; rw [if_neg htid, ht]; simp only [hrec]
        rw [e]
        refine Same.put (p0 := p) hp ?_
        refine PObs.ext' rfl rfl ?_
        intro b
        show tq _ b = tq p b
        rw [tq_alPut (p := p) (p' := { p with threads := alPut p.threads tid { h := hh, name }, pool := pool' })
          rfl rfl rfl htid]
        split
        · next hb => rw [hb, tq_thread htid, ht]; rfl
        · rfl
    | some t =>
      have e : getNewThread s p tid name start = ((if t.lastTs.isNone then setTStart s t.h start else s), p) := by
        unfold getNewThread; rw [if_neg htid, ht]
      rw [e]
      dsimp only
      split
      · exact Same.of_eq rfl rfl rfl rfl
      · exact Same.refl s

end

/-- the observation after `remove_non_main_thread`: the thread triple at `tid` is reset -/
theorem removeThread_obs {s : St} {p : ProcC} {tid : Nat} (time : Nat) (hp : alGet s.procs p.pid = some p)
    (hne : tid ≠ p.pid) :
    (∀ a, pobs (removeThread s p tid time).1.procs a =
      if a = p.pid then (pobsP p).setThr tid tqFresh else pobs s.procs a) ∧
    (removeThread s p tid time).1.parked = s.parked ∧ (removeThread s p tid time).1.cfg = s.cfg ∧
    (removeThread s p tid time).1.bad = s.bad ∧
    alGet (removeThread s p tid time).1.procs p.pid = some (removeThread s p tid time).2 ∧
    (removeThread s p tid time).2.pid = p.pid ∧
    pobsP (removeThread s p tid time).2 = (pobsP p).setThr tid tqFresh := by
  cases ht : alGet p.threads tid with
  | none =>
    have e : removeThread s p tid time = (s, p) := by unfold removeThread; rw [ht]
    rw [e]
    have hsame : (pobsP p).setThr tid tqFresh = pobsP p := by
      refine PObs.ext' rfl rfl ?_
      intro b
      simp only [PObs.setThr, pobsP]
      split
      · next hb => rw [hb, tq_thread hne, ht]
      · rfl
    refine ⟨fun a => ?_, rfl, rfl, rfl, hp, rfl, hsame.symm⟩
    split
    · next ha => rw [ha, pobs_of_get hp, hsame]
    · rfl
  | some t =>
    have e : ∃ pool, removeThread s p tid time =
        (putProc (setTEnd s t.h time) { p with threads := alDel p.threads tid, pool := pool },
         { p with threads := alDel p.threads tid, pool := pool }) := by
      unfold removeThread; rw [ht]; exact ⟨_, rfl⟩
    obtain ⟨pool0, e⟩ := e
    rw [e]
    have hobs : ∀ pool, pobsP { p with threads := alDel p.threads tid, pool := pool } =
        (pobsP p).setThr tid tqFresh := by
      intro pool
      refine PObs.ext' rfl rfl ?_
      intro b
      show tq { p with threads := alDel p.threads tid, pool := pool } b = _
      rw [tq_alDel (p := p) (p' := { p with threads := alDel p.threads tid, pool := pool }) rfl rfl rfl hne]
      rfl
    refine ⟨fun a => ?_, rfl, rfl, rfl, alGet_alPut_self _ _ _, rfl, hobs _⟩
    show pobs (alPut s.procs p.pid _) a = _
    rw [pobs_alPut, hobs]

section
open LifeL
theorem removeProc_fields {s : St} {pid : Nat} {p : ProcC} (h : alGet s.procs pid = some p) (time : Nat) :
    (removeProc s pid time).procs = alDel s.procs pid ∧
    (removeProc s pid time).parked = (if p.samples.isEmpty then s.parked else s.parked ++ [(p.samples, p.mapq, p.pid)]) ∧
    (removeProc s pid time).cfg = s.cfg ∧ (removeProc s pid time).bad = s.bad := by
  unfold removeProc
  rw [h]
  simp only [foldl_setTEnd]
  cases hs : p.samples.isEmpty <;> cases hn : p.name <;> cases hrv : s.cfg.reuse <;>
    simp [setTEnd, setPEnd, setT, setP, delProc, hrv]

end

/-- the observation after `Processes::remove`: the pid is unbound, a non-empty buffer is parked with its queue -/
theorem removeProc_obs {s : St} (hk : ∀ k p, alGet s.procs k = some p → p.pid = k)
    (pid time : Nat) :
    (∀ a, pobs (removeProc s pid time).procs a = if a = pid then PObs.empty else pobs s.procs a) ∧
    (removeProc s pid time).parked =
      s.parked ++ (if (pobs s.procs pid).samples.isEmpty then []
                   else [((pobs s.procs pid).samples, (pobs s.procs pid).mapq, pid)]) ∧
    (removeProc s pid time).cfg = s.cfg ∧ (removeProc s pid time).bad = s.bad ∧
    alGet (removeProc s pid time).procs pid = none := by
  cases h : alGet s.procs pid with
  | none =>
    rw [LifeL.removeProc_none h, pobs_of_none h]
    refine ⟨fun a => ?_, by simp [PObs.empty], rfl, rfl, h⟩
    split
    · next ha => rw [ha, pobs_of_none h]
    · rfl
  | some p =>
    obtain ⟨f1, f2, f3, f4⟩ := removeProc_fields h time
    rw [pobs_of_get h]
    refine ⟨fun a => by rw [f1]; exact pobs_alDel _ _ _, ?_, f3, f4, by rw [f1]; exact alGet_alDel_self _ _⟩
    rw [f2, hk pid p h]
    show _ = s.parked ++ (if p.samples.isEmpty then [] else [(p.samples, p.mapq, pid)])
    split <;> simp

theorem renameProcess_same {s : St} (hk : ∀ k p, alGet s.procs k = some p → p.pid = k)
    (pid time : Nat) (name : String) : Same s (renameProcess s pid time name) := by
  unfold renameProcess
  cases h : alGet s.procs pid with
  | none => exact (getNewProc_same s pid (some name) time).1
  | some p =>
    dsimp only
    have hp : alGet s.procs p.pid = some p := by rw [hk pid p h]; exact h
    split
    · exact Same.refl s
    · cases hrec : (if s.cfg.reuse then procPoolTake s.procPool name else none) with
      | none =>
        have h1 : Same s (setTName (setPName s p.h name) p.main.h name) := Same.of_eq rfl rfl rfl rfl
        refine h1.trans (Same.put (p0 := p) hp ?_)
        refine PObs.ext' rfl rfl (fun b => ?_)
        show tq _ b = tq p b
        refine tq_congr (p := p) ?_ ?_ ?_ b <;> rfl
      | some rp =>
        obtain ⟨r, pool'⟩ := rp
        have key : ∀ pp, Same s (putProc { s with procPool := pp }
            { p with h := r.ph, name := some name, main := { p.main with h := r.mainTh, name := some name },
                     pool := r.pool }) := by
          intro pp
          have h1 : Same s { s with procPool := pp } := Same.of_eq rfl rfl rfl rfl
          refine h1.trans (Same.put (s := { s with procPool := pp }) (p0 := p) hp ?_)
          refine PObs.ext' rfl rfl (fun b => ?_)
          show tq _ b = tq p b
          refine tq_congr (p := p) ?_ ?_ ?_ b <;> rfl
        exact key _

theorem renameThread_same {s : St} {p : ProcC} (hp : alGet s.procs p.pid = some p)
    (tid time : Nat) (name : String) : Same s (renameThread s p tid time name) := by
  unfold renameThread
  split
  · exact Same.refl s
  · next htid =>
    cases ht : alGet p.threads tid with
    | none => exact getNewThread_same hp tid (some name) time
    | some th =>
      dsimp only
      split
      · exact Same.refl s
      · cases hrv : s.cfg.reuse with
        | true =>
          simp only [if_true]
          split
          · next hh pool' _ =>
            refine Same.put (p0 := p) hp ?_
            refine PObs.ext' rfl rfl (fun b => ?_)
            show tq _ b = tq p b
            rw [tq_alPut (p := p) (p' := { p with threads := alPut p.threads tid { th with h := hh, name := some name }, pool := _ })
              rfl rfl rfl htid]
            split
            · next hb => rw [hb, tq_thread htid, ht]; rfl
            · rfl
          · exact Same.refl s
        | false =>
          simp only [Bool.false_eq_true, if_false]
          have h1 : Same s (setTName s th.h name) := Same.of_eq rfl rfl rfl rfl
          refine h1.trans (Same.put (p0 := p) ?_ ?_)
          · show alGet s.procs (putThread p tid { th with name := some name }).pid = some p
            rw [putThread_pid]; exact hp
          · refine PObs.ext' ?_ ?_ (fun b => ?_)
            · show (putThread p tid _).mapq = p.mapq
              unfold putThread; split <;> rfl
            · show (putThread p tid _).samples = p.samples
              exact putThread_samples _ _ _
            · show tq (putThread p tid _) b = tq p b
              rw [tq_putThread]
              split
              · next hb => rw [hb, tq_thread htid, ht]; rfl
              · rfl

/-- `commitThread`: the thread triple at `tid` is replaced, the emitted samples are appended to the buffer -/
theorem commitThread_obs {s : St} {p : ProcC} (tid : Nat) (r : ThreadC × List USample × Bool)
    (hp : alGet s.procs p.pid = some p) :
    (∀ a, pobs (commitThread s p tid r).procs a =
      if a = p.pid then { (pobsP p).setThr tid (tqOf r.1) with samples := p.samples ++ r.2.1 }
      else pobs s.procs a) ∧
    (commitThread s p tid r).parked = s.parked ∧ (commitThread s p tid r).cfg = s.cfg ∧
    (commitThread s p tid r).bad = (s.bad || !r.2.2) := by
  refine ⟨fun a => ?_, rfl, rfl, rfl⟩
  unfold commitThread
  show pobs (alPut s.procs (putThread p tid r.1).pid _) a = _
  rw [pobs_alPut, putThread_pid]
  split
  · refine PObs.ext' ?_ ?_ (fun b => ?_)
    · show (putThread p tid r.1).mapq = p.mapq
      unfold putThread; split <;> rfl
    · show (putThread p tid r.1).samples ++ r.2.1 = p.samples ++ r.2.1
      rw [putThread_samples]
    · show tq _ b = _
      refine (tq_congr (p := putThread p tid r.1) ?_ ?_ ?_ b).trans ?_
      · exact (putThread_pid p tid r.1).symm
      · rfl
      · rfl
      · rw [tq_putThread]; rfl
  · rfl

/-! ### one record -/

theorem keys_of_inv {s : St} (h : InvA s) : ∀ k p, alGet s.procs k = some p → p.pid = k :=
  fun _ _ hg => (h.get hg).1

/-- what `Processes::remove` parks -/
def park (o : PObs) (pid : Nat) : List (List USample × List (Nat × MapAdd) × Nat) :=
  if o.samples.isEmpty then [] else [(o.samples, o.mapq, pid)]

/-- SAMPLE (after the duplicate check), SWITCH and sched_switch records: the thread bound to (pid, tid) — looked
up on demand — is handed to `f`; its triple is replaced by the result's and the emitted samples are appended to
the buffer of `pid`; nothing else changes -/
theorem obs_commit {s : St} (hinv : InvA s) (pid tid : Nat) (f : St → ThreadC → ThreadC × List USample × Bool) :
    (getThread (getByPid s pid).1 (getByPid s pid).2 tid).1.cfg = s.cfg ∧
    tqOf (getThread (getByPid s pid).1 (getByPid s pid).2 tid).2.2 = (pobs s.procs pid).thr tid ∧
    Same s (getThread (getByPid s pid).1 (getByPid s pid).2 tid).1 ∧
    (∀ a, pobs (commitThread (getThread (getByPid s pid).1 (getByPid s pid).2 tid).1
          (getThread (getByPid s pid).1 (getByPid s pid).2 tid).2.1 tid
          (f (getThread (getByPid s pid).1 (getByPid s pid).2 tid).1
             (getThread (getByPid s pid).1 (getByPid s pid).2 tid).2.2)).procs a =
      upd (pobs s.procs) pid
        { (pobs s.procs pid).setThr tid (tqOf (f (getThread (getByPid s pid).1 (getByPid s pid).2 tid).1
             (getThread (getByPid s pid).1 (getByPid s pid).2 tid).2.2).1) with
          samples := (pobs s.procs pid).samples ++
            (f (getThread (getByPid s pid).1 (getByPid s pid).2 tid).1
               (getThread (getByPid s pid).1 (getByPid s pid).2 tid).2.2).2.1 } a) ∧
    (commitThread (getThread (getByPid s pid).1 (getByPid s pid).2 tid).1
          (getThread (getByPid s pid).1 (getByPid s pid).2 tid).2.1 tid
          (f (getThread (getByPid s pid).1 (getByPid s pid).2 tid).1
             (getThread (getByPid s pid).1 (getByPid s pid).2 tid).2.2)).parked = s.parked ∧
    (commitThread (getThread (getByPid s pid).1 (getByPid s pid).2 tid).1
          (getThread (getByPid s pid).1 (getByPid s pid).2 tid).2.1 tid
          (f (getThread (getByPid s pid).1 (getByPid s pid).2 tid).1
             (getThread (getByPid s pid).1 (getByPid s pid).2 tid).2.2)).cfg = s.cfg ∧
    (commitThread (getThread (getByPid s pid).1 (getByPid s pid).2 tid).1
          (getThread (getByPid s pid).1 (getByPid s pid).2 tid).2.1 tid
          (f (getThread (getByPid s pid).1 (getByPid s pid).2 tid).1
             (getThread (getByPid s pid).1 (getByPid s pid).2 tid).2.2)).bad =
      (s.bad || !(f (getThread (getByPid s pid).1 (getByPid s pid).2 tid).1
             (getThread (getByPid s pid).1 (getByPid s pid).2 tid).2.2).2.2) := by
  obtain ⟨sm1, hg1⟩ := getByPid_same s pid
  obtain ⟨g1, _⟩ := getByPid_spec hinv (show getByPid s pid = (_, _) from rfl)
  have hpid1 : (getByPid s pid).2.pid = pid := (g1.inv.get hg1).1
  have hp1 : alGet (getByPid s pid).1.procs (getByPid s pid).2.pid = some (getByPid s pid).2 := by
    rw [hpid1]; exact hg1
  obtain ⟨sm2, hg2, hpid2, _, htq, hob⟩ := getThread_same tid hp1
  generalize getByPid s pid = gb at *
  obtain ⟨s1, p1⟩ := gb
  generalize getThread s1 p1 tid = gt at *
  obtain ⟨s2, p2, th⟩ := gt
  simp only at *
  have hp2 : alGet s2.procs p2.pid = some p2 := by rw [hpid2]; exact hg2
  obtain ⟨c1, c2, c3, c4⟩ := commitThread_obs tid (f s2 th) hp2
  have hP : pobsP p2 = pobs s.procs pid := by
    rw [hob, ← pobs_of_get hp1, hpid1, sm1.obs]
  refine ⟨sm2.cfg.trans sm1.cfg, ?_, sm1.trans sm2, ?_, ?_, ?_, ?_⟩
  · rw [htq, ← hP, hob]; rfl
  · intro a
    rw [c1 a, hpid2, hpid1]
    unfold upd
    split
    · rw [hP]
      refine PObs.ext' rfl ?_ (fun _ => rfl)
      show p2.samples ++ _ = (pobs s.procs pid).samples ++ _
      rw [← hP]; rfl
    · rw [sm2.obs, sm1.obs]
  · rw [c2, sm2.parked, sm1.parked]
  · rw [c3, sm2.cfg, sm1.cfg]
  · rw [c4, sm2.bad, sm1.bad]

/-- EXIT -/
theorem obs_exit {s : St} (hinv : InvA s) (pid tid t : Nat) :
    (∀ a, pobs (step s (.exit pid tid t)).procs a =
      if pid = tid then upd (pobs s.procs) pid PObs.empty a
      else upd (pobs s.procs) pid ((pobs s.procs pid).setThr tid tqFresh) a) ∧
    (step s (.exit pid tid t)).parked = (if pid = tid then s.parked ++ park (pobs s.procs pid) pid else s.parked) ∧
    (step s (.exit pid tid t)).cfg = s.cfg ∧ (step s (.exit pid tid t)).bad = s.bad := by
  rw [LifeL.step_exit]
  by_cases hpt : pid = tid
  · simp only [hpt, if_true]
    obtain ⟨a1, a2, a3, a4, _⟩ := removeProc_obs (keys_of_inv hinv) tid (conv s t)
    exact ⟨a1, a2, a3, a4⟩
  · simp only [hpt, if_false]
    cases hb : alGet s.procs pid with
    | none =>
      dsimp only
      refine ⟨fun a => ?_, rfl, rfl, rfl⟩
      unfold upd
      split
      · next ha => rw [ha, pobs_of_none hb, setThr_empty_fresh]
      · rfl
    | some p =>
      dsimp only
      have hpid := keys_of_inv hinv pid p hb
      have hp : alGet s.procs p.pid = some p := by rw [hpid]; exact hb
      obtain ⟨a1, a2, a3, a4, _⟩ := removeThread_obs (tid := tid) (conv s t) hp (by rw [hpid]; exact fun e => hpt e.symm)
      refine ⟨fun a => ?_, a2, a3, a4⟩
      rw [a1 a, hpid, ← pobs_of_get hb]
      rfl

/-- COMM -/
theorem obs_comm {s : St} (hinv : InvA s) (pid tid : Nat) (name : String)
    (isExec : Bool) (t : Nat) :
    (∀ a, pobs (step s (.comm pid tid name isExec t)).procs a =
      if isExec then
        (if pid = tid then upd (pobs s.procs) pid PObs.empty a
         else upd (pobs s.procs) pid ((pobs s.procs pid).setThr tid tqFresh) a)
      else pobs s.procs a) ∧
    (step s (.comm pid tid name isExec t)).parked =
      (if isExec && decide (pid = tid) then s.parked ++ park (pobs s.procs pid) pid else s.parked) ∧
    (step s (.comm pid tid name isExec t)).cfg = s.cfg ∧ (step s (.comm pid tid name isExec t)).bad = s.bad := by
  rw [LifeL.step_comm]
  generalize conv s (if t = 0 then s.cur else t) = time
  cases isExec with
  | true =>
    simp only [if_true, Bool.true_and]
    by_cases hpt : pid = tid
    · simp only [hpt, if_true, decide_true]
      obtain ⟨a1, a2, a3, a4, _⟩ := removeProc_obs (keys_of_inv hinv) tid time
      obtain ⟨sm, _⟩ := getNewProc_same (removeProc s tid time) tid (some name) time
      exact ⟨fun a => (sm.obs a).trans (a1 a), sm.parked.trans a2, sm.cfg.trans a3, sm.bad.trans a4⟩
    · simp only [hpt, if_false, decide_false]
      obtain ⟨sm1, hg1⟩ := getByPid_same s pid
      obtain ⟨g1, _⟩ := getByPid_spec hinv (show getByPid s pid = (_, _) from rfl)
      have hpid1 : (getByPid s pid).2.pid = pid := (g1.inv.get hg1).1
      have hp1 : alGet (getByPid s pid).1.procs (getByPid s pid).2.pid = some (getByPid s pid).2 := by
        rw [hpid1]; exact hg1
      obtain ⟨a1, a2, a3, a4, a5, a6, _⟩ := removeThread_obs (tid := tid) time hp1
        (by rw [hpid1]; exact fun e => hpt e.symm)
      have sm3 := getNewThread_same (s := (removeThread (getByPid s pid).1 (getByPid s pid).2 tid time).1)
        (p := (removeThread (getByPid s pid).1 (getByPid s pid).2 tid time).2)
        (by rw [a6]; exact a5) tid (some name) time
      refine ⟨fun a => ?_, ?_, ?_, ?_⟩
      · rw [sm3.obs, a1 a, hpid1, ← pobs_of_get hg1, sm1.obs]
        unfold upd
        split
        · rfl
        · exact sm1.obs a
      · rw [sm3.parked, a2, sm1.parked]; simp
      · rw [sm3.cfg, a3, sm1.cfg]
      · rw [sm3.bad, a4, sm1.bad]
  | false =>
    simp only [Bool.false_eq_true, if_false, Bool.false_and]
    have key : Same s (if pid = tid then renameProcess s pid time name
        else renameThread (getByPid s pid).1 (getByPid s pid).2 tid time name) := by
      split
      · exact renameProcess_same (keys_of_inv hinv) pid time name
      · obtain ⟨sm1, hg1⟩ := getByPid_same s pid
        obtain ⟨g1, _⟩ := getByPid_spec hinv (show getByPid s pid = (_, _) from rfl)
        have hpid1 : (getByPid s pid).2.pid = pid := (g1.inv.get hg1).1
        exact sm1.trans (renameThread_same (by rw [hpid1]; exact hg1) tid time name)
    exact ⟨key.obs, key.parked, key.cfg, key.bad⟩

/-- FORK -/
theorem obs_fork {s : St} (hinv : InvA s) (pid tid ppid ptid t : Nat) :
    (∀ a, pobs (step s (.fork pid tid ppid ptid t)).procs a =
      if pid ≠ ppid then upd (pobs s.procs) pid { pobs s.procs pid with mapq := (pobs s.procs ppid).mapq } a
      else pobs s.procs a) ∧
    (step s (.fork pid tid ppid ptid t)).parked = s.parked ∧
    (step s (.fork pid tid ppid ptid t)).cfg = s.cfg ∧ (step s (.fork pid tid ppid ptid t)).bad = s.bad := by
  rw [LifeL.step_fork]
  generalize conv s t = start
  obtain ⟨sm1, hg1⟩ := getByPid_same s ppid
  obtain ⟨g1, _⟩ := getByPid_spec hinv (show getByPid s ppid = (_, _) from rfl)
  have hpid1 : (getByPid s ppid).2.pid = ppid := (g1.inv.get hg1).1
  by_cases hpp : pid ≠ ppid
  · simp only [hpp, ne_eq, not_false_eq_true, if_true]
    obtain ⟨sm2, hg2, hob2⟩ := getNewProc_same (getByPid s ppid).1 pid (getByPid s ppid).2.name start
    obtain ⟨g2, _⟩ := getNewProc_spec g1.inv
      (show getNewProc (getByPid s ppid).1 pid (getByPid s ppid).2.name start = (_, _) from rfl)
    have hcpid : (getNewProc (getByPid s ppid).1 pid (getByPid s ppid).2.name start).2.pid = pid := (g2.inv.get hg2).1
    refine ⟨fun a => ?_, sm2.parked.trans sm1.parked, sm2.cfg.trans sm1.cfg, sm2.bad.trans sm1.bad⟩
    show pobs (alPut _ _ _) a = _
    rw [pobs_alPut]
    show (if a = (getNewProc (getByPid s ppid).1 pid (getByPid s ppid).2.name start).2.pid then _ else _) = _
    rw [hcpid]
    unfold upd
    split
    · have e1 : (getByPid s ppid).2.mapq = (pobs s.procs ppid).mapq := by
        rw [← sm1.obs, pobs_of_get hg1]; rfl
      have e2 := hob2
      rw [sm1.obs] at e2
      refine PObs.ext' e1 ?_ (fun b => ?_)
      · show (getNewProc (getByPid s ppid).1 pid (getByPid s ppid).2.name start).2.samples = _
        rw [← e2]; rfl
      · show tq _ b = _
        rw [← e2]
        refine tq_congr (p := (getNewProc (getByPid s ppid).1 pid (getByPid s ppid).2.name start).2) ?_ ?_ ?_ b
        · exact hcpid.symm
        · rfl
        · rfl
    · rw [sm2.obs, sm1.obs]
  · simp only [hpp, if_false]
    have hp1 : alGet (getByPid s ppid).1.procs (getByPid s ppid).2.pid = some (getByPid s ppid).2 := by
      rw [hpid1]; exact hg1
    obtain ⟨sm2, hg2, hpid2, _, _, _⟩ := getThread_same ptid hp1
    have sm3 := getNewThread_same (s := (getThread (getByPid s ppid).1 (getByPid s ppid).2 ptid).1)
      (p := (getThread (getByPid s ppid).1 (getByPid s ppid).2 ptid).2.1)
      (by rw [hpid2]; exact hg2) tid
      (getThread (getByPid s ppid).1 (getByPid s ppid).2 ptid).2.2.name start
    have sm := (sm1.trans sm2).trans sm3
    exact ⟨sm.obs, sm.parked, sm.cfg, sm.bad⟩

/-- MMAP2 -/
theorem obs_mmap2 {s : St} (hinv : InvA s) (pid tid addr len pgoff : Nat) (exec : Bool) (path : String) (t : Nat) :
    (∀ a, pobs (step s (.mmap2 pid tid addr len pgoff exec path t)).procs a =
      if exec && !specialPath path then
        upd (pobs s.procs) pid
          { pobs s.procs pid with mapq := (pobs s.procs pid).mapq ++ mapOps s.cfg addr len pgoff path t } a
      else pobs s.procs a) ∧
    (step s (.mmap2 pid tid addr len pgoff exec path t)).parked = s.parked ∧
    (step s (.mmap2 pid tid addr len pgoff exec path t)).cfg = s.cfg ∧
    (step s (.mmap2 pid tid addr len pgoff exec path t)).bad = s.bad := by
  rw [LifeL.step_mmap2]
  have hA : ∃ sA, sA = (if s.cur = s.cfg.ref || path.isEmpty then s
      else (getThread (getByPid s pid).1 (getByPid s pid).2 tid).1) ∧ Same s sA ∧ InvA sA := by
    refine ⟨_, rfl, ?_⟩
    split
    · exact ⟨Same.refl s, hinv⟩
    · obtain ⟨sm1, hg1⟩ := getByPid_same s pid
      obtain ⟨g1, _⟩ := getByPid_spec hinv (show getByPid s pid = (_, _) from rfl)
      have hpid1 : (getByPid s pid).2.pid = pid := (g1.inv.get hg1).1
      have hp1 : alGet (getByPid s pid).1.procs (getByPid s pid).2.pid = some (getByPid s pid).2 := by
        rw [hpid1]; exact hg1
      obtain ⟨sm2, _⟩ := getThread_same tid hp1
      obtain ⟨g2, _⟩ := getThread_spec g1.inv hp1
        (show getThread (getByPid s pid).1 (getByPid s pid).2 tid = (_, _, _) from rfl)
      exact ⟨sm1.trans sm2, g2.inv⟩
  obtain ⟨sA, hsA, smA, invA⟩ := hA
  simp only []
  rw [← hsA]
  cases exec with
  | false => exact ⟨smA.obs, smA.parked, smA.cfg, smA.bad⟩
  | true =>
    cases hsp : specialPath path with
    | true => simpa [hsp] using ⟨smA.obs, smA.parked, smA.cfg, smA.bad⟩
    | false =>
      simp only [Bool.not_true, Bool.false_eq_true, if_false, Bool.not_false, Bool.and_self, if_true]
      obtain ⟨sm1, hg1⟩ := getByPid_same sA pid
      obtain ⟨g1, _⟩ := getByPid_spec invA (show getByPid sA pid = (_, _) from rfl)
      have hpid1 : (getByPid sA pid).2.pid = pid := (g1.inv.get hg1).1
      refine ⟨fun a => ?_, sm1.parked.trans smA.parked, sm1.cfg.trans smA.cfg, sm1.bad.trans smA.bad⟩
      show pobs (alPut _ _ _) a = _
      rw [pobs_alPut]
      show (if a = (getByPid sA pid).2.pid then _ else _) = _
      rw [hpid1]
      unfold upd
      have e2 : pobsP (getByPid sA pid).2 = pobs s.procs pid := by
        rw [← pobs_of_get hg1, sm1.obs, smA.obs]
      split
      · refine PObs.ext' ?_ ?_ (fun b => ?_)
        · show (getByPid sA pid).2.mapq ++ mapOps (getByPid sA pid).1.cfg addr len pgoff path t = _
          rw [sm1.cfg, smA.cfg, ← e2]; rfl
        · show (getByPid sA pid).2.samples = _
          rw [← e2]; rfl
        · show tq _ b = _
          rw [← e2]
          refine tq_congr (p := (getByPid sA pid).2) ?_ ?_ ?_ b
          · exact hpid1.symm
          · rfl
          · rfl
      · rw [sm1.obs, smA.obs]

end Conv
