import SamplyModel.Lemmas.ChunkCacheConc
/-!
Termination measure for the lock-granularity model: every section that runs strictly decreases
`4 · (calls still to make) + (sections left in the current call)`, summed over the threads. Together with
deadlock freedom (`sysOk_progress`) this gives: every execution is finite and can only stop when every thread
has finished its program. Core Lean only.
-/
namespace CC

/-- upper bound on the sections left in the current call -/
def Pc.rank : Pc → Nat
  | .idle => 0
  | .readSlice .. => 1
  | .untilHit .. => 1
  | .untilLocate .. => 3
  | .untilSlice .. => 2
  | .untilFinish .. => 1

def Thread.measure (t : Thread) : Nat := 4 * t.todo.length + t.pc.rank

def Sys.measure (s : Sys) : Nat := (s.threads.map Thread.measure).sum

theorem tstep_measure (c : Cfg) (k : Nat) (st : St) (lock : Option Nat) (t : Thread) (st' : St)
    (lock' : Option Nat) (t' : Thread) (h : tstep c k st lock t = some (st', lock', t')) :
    t'.measure < t.measure := by
  obtain ⟨pc, todo, done⟩ := t
  cases pc with
  | idle =>
    cases todo with
    | nil => simp [tstep] at h
    | cons op rest =>
      cases op with
      | into o n =>
        simp only [tstep, Option.some.injEq, Prod.mk.injEq] at h
        obtain ⟨_, _, rfl⟩ := h
        simp [Thread.measure, Thread.finish, Pc.rank]
      | read o n =>
        simp only [tstep] at h
        repeat' split at h
        all_goals
          simp only [Option.some.injEq, Prod.mk.injEq] at h
          obtain ⟨_, _, rfl⟩ := h
          simp [Thread.measure, Thread.finish, Thread.die, Pc.rank] <;> omega
      | until_ r d =>
        simp only [tstep] at h
        repeat' split at h
        all_goals first
          | (cases h; done)
          | (simp only [Option.some.injEq, Prod.mk.injEq] at h
             obtain ⟨_, _, rfl⟩ := h
             simp [Thread.measure, Thread.finish, Thread.die, Pc.rank] <;> omega)
  | readSlice o n loc =>
    simp only [tstep] at h
    split at h
    all_goals
      simp only [Option.some.injEq, Prod.mk.injEq] at h
      obtain ⟨_, _, rfl⟩ := h
      simp [Thread.measure, Thread.finish, Thread.die, Pc.rank]
  | untilHit r d loc =>
    simp only [tstep] at h
    split at h
    all_goals
      simp only [Option.some.injEq, Prod.mk.injEq] at h
      obtain ⟨_, _, rfl⟩ := h
      simp [Thread.measure, Thread.finish, Thread.die, Pc.rank]
  | untilLocate r d m =>
    simp only [tstep] at h
    split at h
    all_goals
      simp only [Option.some.injEq, Prod.mk.injEq] at h
      obtain ⟨_, _, rfl⟩ := h
      simp [Thread.measure, Thread.finish, Thread.die, Pc.rank]
  | untilSlice r d loc =>
    simp only [tstep] at h
    split at h
    all_goals
      simp only [Option.some.injEq, Prod.mk.injEq] at h
      obtain ⟨_, _, rfl⟩ := h
      simp [Thread.measure, Thread.finish, Thread.die, Pc.rank]
  | untilFinish r d loc bytes =>
    simp only [tstep] at h
    split at h
    all_goals
      simp only [Option.some.injEq, Prod.mk.injEq] at h
      obtain ⟨_, _, rfl⟩ := h
      simp [Thread.measure, Thread.finish, Thread.die, Pc.rank]

theorem sum_map_set (f : Thread → Nat) (l : List Thread) (k : Nat) (a b : Thread) (h : l[k]? = some a) :
    ((l.set k b).map f).sum + f a = (l.map f).sum + f b := by
  induction l generalizing k with
  | nil => simp at h
  | cons x xs ih =>
    cases k with
    | zero =>
      simp only [List.getElem?_cons_zero, Option.some.injEq] at h
      subst h
      simp only [List.set_cons_zero, List.map_cons, List.sum_cons]
      omega
    | succ k =>
      simp only [List.getElem?_cons_succ] at h
      have := ih k h
      simp only [List.set_cons_succ, List.map_cons, List.sum_cons]
      omega

/-- every section that runs decreases the measure -/
theorem sysStep_measure (c : Cfg) (s : Sys) (k : Nat) (h : s.enabled c k = true) :
    (sysStep c s k).measure < s.measure := by
  unfold Sys.enabled at h
  unfold sysStep
  cases hk : s.threads[k]? with
  | none => simp [hk] at h
  | some t =>
    simp only [hk] at h ⊢
    cases hstep : tstep c k s.st s.lock t with
    | none => simp [hstep] at h
    | some res =>
      obtain ⟨st', lock', t'⟩ := res
      simp only
      have hm := tstep_measure c k s.st s.lock t st' lock' t' hstep
      have hs := sum_map_set Thread.measure s.threads k t t' hk
      simp only [Sys.measure]
      omega

/-- a step of a thread that is not enabled changes nothing -/
theorem sysStep_not_enabled (c : Cfg) (s : Sys) (k : Nat) (h : s.enabled c k = false) : sysStep c s k = s := by
  unfold Sys.enabled at h
  unfold sysStep
  cases hk : s.threads[k]? with
  | none => rfl
  | some t =>
    simp only [hk] at h ⊢
    cases hstep : tstep c k s.st s.lock t with
    | none => rfl
    | some res => simp [hstep] at h

theorem measure_init (fileLen : Nat) (progs : List (List Op)) :
    (Sys.init fileLen progs).measure = 4 * (progs.map List.length).sum := by
  simp only [Sys.measure, Sys.init, List.map_map]
  induction progs with
  | nil => rfl
  | cons p ps ih =>
    simp only [List.map_cons, List.sum_cons, Function.comp, Thread.measure, Pc.rank] at ih ⊢
    omega

end CC
