import SamplyModel.Model.ChunkCacheConc
import SamplyModel.Lemmas.ChunkCache
/-!
Lemmas for the lock-granularity model of concurrent readers (`Model/ChunkCacheConc.lean`): the per-thread
invariant `ThreadOk` (what a thread knows between two of its sections is stable under other threads' sections,
because buffers are append-only), the section lemma `tstep_ok`, the system invariant `SysOk` and its
preservation by every schedule. Core Lean only.
-/
namespace CC

/-- an outcome allowed by `C13_step`: what the file alone dictates, or the source's own failure on the buffer
the call had to read -/
def Good (c : Cfg) (F : List UInt8) (e : Op × Out (List UInt8)) : Prop :=
  e.2 = spec F c.src e.1 ∨ (e.2 = .err .source ∧ SrcFails c F e.1)

/-- what a thread knows between two sections of a call (the file-relative meaning of its local variables) -/
def PcOk (F : List UInt8) (buffers : List (List UInt8)) : Pc → Prop
  | .idle => True
  | .readSlice o n loc => 0 < n ∧ o + n ≤ F.length ∧ LocOk F buffers o loc ∧ loc.size = n
  | .untilHit r d loc => r.lo ≤ r.hi ∧ r.hi ≤ F.length ∧ LocOk F buffers r.lo loc ∧
      memchr d (F.drop r.lo) = some loc.size ∧ loc.size < min (r.hi - r.lo) maxLenInclDelim
  | .untilLocate r _ m => r.lo ≤ r.hi ∧ r.hi ≤ F.length ∧ m = min (r.hi - r.lo) maxLenInclDelim ∧ m ≠ 0
  | .untilSlice r _ loc => r.lo ≤ r.hi ∧ r.hi ≤ F.length ∧ loc.size = min (r.hi - r.lo) maxLenInclDelim ∧
      loc.size ≠ 0 ∧ LocOk F buffers r.lo loc
  | .untilFinish r _ loc bytes => r.lo ≤ r.hi ∧ r.hi ≤ F.length ∧
      loc.size = min (r.hi - r.lo) maxLenInclDelim ∧ loc.size ≠ 0 ∧ LocOk F buffers r.lo loc ∧
      bytes = slice F r.lo loc.size

theorem PcOk.append {F : List UInt8} {buffers : List (List UInt8)} {pc : Pc} (h : PcOk F buffers pc)
    (ext : List (List UInt8)) : PcOk F (buffers ++ ext) pc := by
  cases pc with
  | idle => trivial
  | readSlice o n loc => exact ⟨h.1, h.2.1, h.2.2.1.append ext, h.2.2.2⟩
  | untilHit r d loc => exact ⟨h.1, h.2.1, h.2.2.1.append ext, h.2.2.2⟩
  | untilLocate r d m => exact h
  | untilSlice r d loc => exact ⟨h.1, h.2.1, h.2.2.1, h.2.2.2.1, h.2.2.2.2.append ext⟩
  | untilFinish r d loc bytes =>
    exact ⟨h.1, h.2.1, h.2.2.1, h.2.2.2.1, h.2.2.2.2.1.append ext, h.2.2.2.2.2⟩

structure ThreadOk (c : Cfg) (F : List UInt8) (buffers : List (List UInt8)) (t : Thread) : Prop where
  pc : PcOk F buffers t.pc
  done : ∀ e, e ∈ t.done → Good c F e

theorem ThreadOk.append {c : Cfg} {F : List UInt8} {buffers : List (List UInt8)} {t : Thread}
    (h : ThreadOk c F buffers t) (ext : List (List UInt8)) : ThreadOk c F (buffers ++ ext) t :=
  ⟨h.pc.append ext, h.done⟩

theorem threadOk_finish {c : Cfg} {F : List UInt8} {buffers : List (List UInt8)} {t : Thread}
    (h : ∀ e, e ∈ t.done → Good c F e) (op : Op) (out : Out (List UInt8)) (hg : Good c F (op, out)) :
    ThreadOk c F buffers (t.finish op out) := by
  refine ⟨trivial, ?_⟩
  intro e he
  simp only [Thread.finish, List.mem_cons] at he
  rcases he with he | he
  · subst he; exact hg
  · exact h e he

theorem calls_finish (t : Thread) (op : Op) (out : Out (List UInt8)) :
    (t.finish op out).calls = t.done.reverse.map (·.1) ++ [op] ++ t.todo := by
  simp [Thread.calls, Thread.finish, Pc.op?]

/-- how the `string_cache` lock may change when thread `k` runs a section -/
def LockStep (k : Nat) (pc pc' : Pc) (lock lock' : Option Nat) : Prop :=
  (pc.holdsLock = true ↔ lock = some k) →
    ((pc'.holdsLock = true ↔ lock' = some k) ∧ ∀ j, j ≠ k → (lock' = some j ↔ lock = some j))

theorem lockStep_same {k : Nat} {pc pc' : Pc} {lock : Option Nat} (h : pc'.holdsLock = pc.holdsLock) :
    LockStep k pc pc' lock lock := by
  intro hl; rw [h]; exact ⟨hl, fun _ _ => Iff.rfl⟩

theorem lockStep_release {k : Nat} {pc pc' : Pc} {lock : Option Nat} (h : pc'.holdsLock = false)
    (hp : pc.holdsLock = true) : LockStep k pc pc' lock none := by
  intro hl
  have := hl.1 hp
  subst this
  refine ⟨by simp [h], ?_⟩
  intro j hj
  constructor
  · intro h'; cases h'
  · intro h'; simp only [Option.some.injEq] at h'; exact absurd h'.symm hj

theorem lockStep_acquire {k : Nat} {pc pc' : Pc} (h : pc'.holdsLock = true) :
    LockStep k pc pc' none (some k) := by
  intro _
  refine ⟨by simp [h], ?_⟩
  intro j hj
  constructor
  · intro h'; simp only [Option.some.injEq] at h'; exact absurd h' (Ne.symm hj)
  · intro h'; cases h'

theorem lockStep_none {k : Nat} {pc pc' : Pc} (h : pc'.holdsLock = false) (_hp : pc.holdsLock = false) :
    LockStep k pc pc' none none := by
  intro _
  exact ⟨by simp [h], fun _ _ => Iff.rfl⟩

/-- result of one section: invariant kept, buffers only appended, the thread's knowledge is right again, all
recorded outcomes are good (in particular none is a panic), the thread's call sequence is unchanged, the lock
changes hands correctly -/
structure StepOk (c : Cfg) (F : List UInt8) (k : Nat) (st : St) (lock : Option Nat) (t : Thread)
    (st' : St) (lock' : Option Nat) (t' : Thread) : Prop where
  inv : Inv F st'
  app : ∃ ext, st'.buffers = st.buffers ++ ext
  thr : ThreadOk c F st'.buffers t'
  calls : t'.calls = t.calls
  lock : LockStep k t.pc t'.pc lock lock'

theorem specUntil_eq (F : List UInt8) (r : Range) (d : UInt8) (h1 : ¬ r.hi < r.lo) (h2 : ¬ F.length < r.hi)
    (m : Nat) (hm : min (r.hi - r.lo) maxLenInclDelim = m) :
    (memchr d (slice F r.lo m) = none → specUntil F r d = .err .noDelim) ∧
    (∀ k, memchr d (slice F r.lo m) = some k → specUntil F r d = .ok (slice F r.lo k)) := by
  subst hm
  unfold specUntil
  simp only [h1, h2, if_false]
  constructor
  · intro h; rw [h]
  · intro k h; rw [h]

theorem good_spec {c : Cfg} {F : List UInt8} {op : Op} {out : Out (List UInt8)} (h : out = spec F c.src op) :
    Good c F (op, out) := Or.inl h

/-- section R1 / U1 / `into`: a thread between calls starts its next call -/
theorem tstep_idle (c : Cfg) (F : List UInt8) (hc : 0 < c.chunk) (hsz : F.length < U64)
    (hf : Faithful F c.src) (k : Nat) (st : St) (lock : Option Nat) (t : Thread) (hinv : Inv F st)
    (ht : ThreadOk c F st.buffers t) (hpc : t.pc = .idle) (st' : St) (lock' : Option Nat) (t' : Thread)
    (h : tstep c k st lock t = some (st', lock', t')) : StepOk c F k st lock t st' lock' t' := by
  obtain ⟨pc, todo, done⟩ := t
  simp only at hpc
  subst hpc
  have hdone := ht.done
  simp only at hdone
  have nil : ∃ ext, st.buffers = st.buffers ++ ext := ⟨[], (List.append_nil _).symm⟩
  cases todo with
  | nil => simp [tstep] at h
  | cons op rest =>
    cases op with
    | into o n =>
      simp only [tstep, Option.some.injEq, Prod.mk.injEq] at h
      obtain ⟨rfl, rfl, rfl⟩ := h
      refine ⟨hinv, nil, threadOk_finish hdone _ _ (good_spec ?_), ?_, lockStep_same rfl⟩
      · simp only [readBytesInto, spec]; cases c.src o n <;> rfl
      · rw [calls_finish]; simp [Thread.calls, Pc.op?]
    | read o n =>
      have hcalls : ∀ out, (Thread.finish ⟨Pc.idle, rest, done⟩ (.read o n) out).calls =
          (Thread.mk Pc.idle (.read o n :: rest) done).calls := by
        intro out; rw [calls_finish]; simp [Thread.calls, Pc.op?]
      simp only [tstep] at h
      rw [hinv.fileLen] at h
      by_cases h0 : n = 0
      · simp only [h0, if_true, Option.some.injEq, Prod.mk.injEq] at h
        obtain ⟨rfl, rfl, rfl⟩ := h
        subst h0
        exact ⟨hinv, nil, threadOk_finish hdone _ _ (good_spec (by simp [spec, specRead])), hcalls _,
          lockStep_same rfl⟩
      by_cases h1 : U64 ≤ o + n
      · simp only [h0, h1, if_true, if_false, Option.some.injEq, Prod.mk.injEq] at h
        obtain ⟨rfl, rfl, rfl⟩ := h
        exact ⟨hinv, nil, threadOk_finish hdone _ _ (good_spec (by simp [spec, specRead, h0, h1])), hcalls _,
          lockStep_same rfl⟩
      by_cases h2 : F.length < o + n
      · simp only [h0, h1, h2, if_true, if_false, Option.some.injEq, Prod.mk.injEq] at h
        obtain ⟨rfl, rfl, rfl⟩ := h
        exact ⟨hinv, nil, threadOk_finish hdone _ _ (good_spec (by simp [spec, specRead, h0, h1, h2])),
          hcalls _, lockStep_same rfl⟩
      simp only [h0, h1, h2, if_false] at h
      have hg := getRangeLocation_spec c F hc hsz hf st hinv ⟨o, o + n⟩ (by simp only; omega)
        (by simp only; omega)
      generalize getRangeLocation c st ⟨o, o + n⟩ = res at hg h
      obtain ⟨st2, out⟩ := res
      obtain ⟨g1, g2, _, g4⟩ := hg
      simp only at g1 g2 g4
      rcases g4 with ⟨l, hl, hok, hs⟩ | ⟨he, hst, hfail⟩
      · subst hl
        simp only [Option.some.injEq, Prod.mk.injEq] at h
        obtain ⟨rfl, rfl, rfl⟩ := h
        refine ⟨g1, g2, ⟨⟨by omega, by omega, hok, by omega⟩, hdone⟩, ?_, lockStep_same rfl⟩
        simp [Thread.calls, Pc.op?]
      · subst he
        simp only [Option.some.injEq, Prod.mk.injEq] at h
        obtain ⟨rfl, rfl, rfl⟩ := h
        refine ⟨g1, g2, threadOk_finish hdone _ _ (Or.inr ⟨rfl, by omega, by omega, hfail⟩), hcalls _,
          lockStep_same rfl⟩
    | until_ r d =>
      have hcalls : ∀ out, (Thread.finish ⟨Pc.idle, rest, done⟩ (.until_ r d) out).calls =
          (Thread.mk Pc.idle (.until_ r d :: rest) done).calls := by
        intro out; rw [calls_finish]; simp [Thread.calls, Pc.op?]
      simp only [tstep] at h
      rw [hinv.fileLen] at h
      by_cases h1 : r.hi < r.lo
      · simp only [h1, if_true, Option.some.injEq, Prod.mk.injEq] at h
        obtain ⟨rfl, rfl, rfl⟩ := h
        exact ⟨hinv, nil, threadOk_finish hdone _ _ (good_spec (by simp [spec, specUntil, h1])), hcalls _,
          lockStep_same rfl⟩
      by_cases h2 : F.length < r.hi
      · simp only [h1, h2, if_true, if_false, Option.some.injEq, Prod.mk.injEq] at h
        obtain ⟨rfl, rfl, rfl⟩ := h
        exact ⟨hinv, nil, threadOk_finish hdone _ _ (good_spec (by simp [spec, specUntil, h1, h2])), hcalls _,
          lockStep_same rfl⟩
      simp only [h1, h2, if_false] at h
      cases lock with
      | some j => simp at h
      | none =>
        simp only at h
        generalize hM : min (r.hi - r.lo) maxLenInclDelim = maxLen at h
        obtain ⟨hspecN, hspecS⟩ := specUntil_eq F r d h1 h2 maxLen hM
        cases hcg : cacheGet st.strCache (r.lo, d) with
        | some loc =>
          obtain ⟨hlok, hmem⟩ := hinv.strs _ (cacheGet_mem hcg)
          simp only at hlok hmem
          simp only [hcg] at h
          by_cases hlt : loc.size < maxLen
          · simp only [hlt, if_true, Option.some.injEq, Prod.mk.injEq] at h
            obtain ⟨rfl, rfl, rfl⟩ := h
            refine ⟨hinv, nil, ⟨⟨by omega, by omega, hlok, hmem, by omega⟩, hdone⟩, ?_,
              lockStep_acquire rfl⟩
            simp [Thread.calls, Pc.op?]
          · simp only [hlt, if_false, Option.some.injEq, Prod.mk.injEq] at h
            obtain ⟨rfl, rfl, rfl⟩ := h
            refine ⟨hinv, nil, threadOk_finish hdone _ _ (good_spec ?_), hcalls _, lockStep_none rfl rfl⟩
            have : memchr d (slice F r.lo maxLen) = none := by
              unfold slice; rw [memchr_take, hmem]; simp [hlt]
            exact (hspecN this).symm
        | none =>
          simp only [hcg] at h
          by_cases hz : maxLen = 0
          · simp only [hz, if_true, Option.some.injEq, Prod.mk.injEq] at h
            obtain ⟨rfl, rfl, rfl⟩ := h
            refine ⟨hinv, nil, threadOk_finish hdone _ _ (good_spec ?_), hcalls _, lockStep_none rfl rfl⟩
            exact (hspecN (by rw [hz, slice_zero]; rfl)).symm
          have hov : ¬ U64 ≤ r.lo + maxLen := by omega
          simp only [hz, hov, if_false, Option.some.injEq, Prod.mk.injEq] at h
          obtain ⟨rfl, rfl, rfl⟩ := h
          refine ⟨hinv, nil, ⟨⟨by omega, by omega, hM.symm, hz⟩, hdone⟩, ?_, lockStep_acquire rfl⟩
          simp [Thread.calls, Pc.op?]

/-- sections R2, U1h, U2, U3, U4: a thread inside a call runs its next section -/
theorem tstep_busy (c : Cfg) (F : List UInt8) (hc : 0 < c.chunk) (hsz : F.length < U64)
    (hf : Faithful F c.src) (k : Nat) (st : St) (lock : Option Nat) (t : Thread) (hinv : Inv F st)
    (ht : ThreadOk c F st.buffers t) (hpc : t.pc ≠ .idle) (st' : St) (lock' : Option Nat) (t' : Thread)
    (h : tstep c k st lock t = some (st', lock', t')) : StepOk c F k st lock t st' lock' t' := by
  obtain ⟨pc, todo, done⟩ := t
  have hdone := ht.done
  have hpcok := ht.pc
  simp only at hdone hpcok hpc
  have nil : ∃ ext, st.buffers = st.buffers ++ ext := ⟨[], (List.append_nil _).symm⟩
  cases pc with
  | idle => exact absurd rfl hpc
  | readSlice o n loc =>
    obtain ⟨p1, p2, p3, p4⟩ := hpcok
    simp only [tstep, sliceFromLocation_of_LocOk p3, Option.some.injEq, Prod.mk.injEq] at h
    obtain ⟨rfl, rfl, rfl⟩ := h
    refine ⟨hinv, nil, threadOk_finish hdone _ _ (good_spec ?_), ?_, lockStep_same rfl⟩
    · have n0 : ¬ n = 0 := by omega
      have n1 : ¬ U64 ≤ o + n := by omega
      have n2 : ¬ F.length < o + n := by omega
      simp only [spec, specRead, n0, n1, n2, if_false, p4]
    · rw [calls_finish]; simp [Thread.calls, Pc.op?]
  | untilHit r d loc =>
    obtain ⟨p1, p2, p3, p4, p5⟩ := hpcok
    simp only [tstep, sliceFromLocation_of_LocOk p3, Option.some.injEq, Prod.mk.injEq] at h
    obtain ⟨rfl, rfl, rfl⟩ := h
    refine ⟨hinv, nil, threadOk_finish hdone _ _ (good_spec ?_), ?_, lockStep_release rfl rfl⟩
    · have n1 : ¬ r.hi < r.lo := by omega
      have n2 : ¬ F.length < r.hi := by omega
      have : memchr d (slice F r.lo (min (r.hi - r.lo) maxLenInclDelim)) = some loc.size := by
        unfold slice; rw [memchr_take, p4]; simp [p5]
      simp only [spec, specUntil, n1, n2, if_false, this]
    · rw [calls_finish]; simp [Thread.calls, Pc.op?]
  | untilLocate r d m =>
    obtain ⟨p1, p2, p3, p4⟩ := hpcok
    simp only [tstep] at h
    have hg := getRangeLocation_spec c F hc hsz hf st hinv ⟨r.lo, r.lo + m⟩ (by simp only; omega)
      (by simp only; omega)
    generalize getRangeLocation c st ⟨r.lo, r.lo + m⟩ = res at hg h
    obtain ⟨st2, out⟩ := res
    obtain ⟨g1, g2, _, g4⟩ := hg
    simp only at g1 g2 g4
    rcases g4 with ⟨l, hl, hok, hs⟩ | ⟨he, hst, hfail⟩
    · subst hl
      simp only [Option.some.injEq, Prod.mk.injEq] at h
      obtain ⟨rfl, rfl, rfl⟩ := h
      refine ⟨g1, g2, ⟨⟨p1, p2, by omega, by omega, hok⟩, hdone⟩, ?_,
        lockStep_same rfl⟩
      simp [Thread.calls, Pc.op?]
    · subst he
      simp only [Option.some.injEq, Prod.mk.injEq] at h
      obtain ⟨rfl, rfl, rfl⟩ := h
      refine ⟨g1, g2, threadOk_finish hdone _ _ (Or.inr ⟨rfl, by omega, p2, by rw [← p3]; exact hfail⟩), ?_,
        lockStep_release rfl rfl⟩
      rw [calls_finish]; simp [Thread.calls, Pc.op?]
  | untilSlice r d loc =>
    obtain ⟨p1, p2, p3, p4, p5⟩ := hpcok
    simp only [tstep, sliceFromLocation_of_LocOk p5, Option.some.injEq, Prod.mk.injEq] at h
    obtain ⟨rfl, rfl, rfl⟩ := h
    refine ⟨hinv, nil, ⟨⟨p1, p2, p3, p4, p5, rfl⟩, hdone⟩, ?_, lockStep_same rfl⟩
    simp [Thread.calls, Pc.op?]
  | untilFinish r d loc bytes =>
    obtain ⟨p1, p2, p3, p4, p5, p6⟩ := hpcok
    have n1 : ¬ r.hi < r.lo := by omega
    have n2 : ¬ F.length < r.hi := by omega
    obtain ⟨hspecN, hspecS⟩ := specUntil_eq F r d n1 n2 loc.size p3.symm
    subst p6
    simp only [tstep] at h
    cases hm : memchr d (slice F r.lo loc.size) with
    | none =>
      simp only [hm, Option.some.injEq, Prod.mk.injEq] at h
      obtain ⟨rfl, rfl, rfl⟩ := h
      refine ⟨hinv, nil, threadOk_finish hdone _ _ (good_spec (hspecN hm).symm), ?_,
        lockStep_release rfl rfl⟩
      rw [calls_finish]; simp [Thread.calls, Pc.op?]
    | some len =>
      simp only [hm, Option.some.injEq, Prod.mk.injEq] at h
      obtain ⟨rfl, rfl, rfl⟩ := h
      have hlen := memchr_of_take (l := F.drop r.lo) (m := loc.size) (by simpa [slice] using hm)
      refine ⟨?_, nil, threadOk_finish hdone _ _ (good_spec ?_), ?_, lockStep_release rfl rfl⟩
      · obtain ⟨i1, i2, i3, i4, i5, i6⟩ := hinv
        refine ⟨i1, i2, i3, i4, i5, ?_⟩
        intro e he
        simp only [List.mem_cons] at he
        rcases he with he | he
        · subst he
          refine ⟨?_, hlen.1⟩
          obtain ⟨b, b1, b2, b3⟩ := p5
          refine ⟨b, b1, by simp only; omega, ?_⟩
          simp only
          have : (b.drop loc.off).take len = ((b.drop loc.off).take loc.size).take len := by
            rw [List.take_take]; congr 1; omega
          rw [this, b3, slice_take F r.lo loc.size len (by omega)]
        · exact i6 e he
      · show _ = specUntil F r d
        rw [hspecS len hm, slice_take F r.lo loc.size len (by omega)]
      · rw [calls_finish]; simp [Thread.calls, Pc.op?]

theorem tstep_ok (c : Cfg) (F : List UInt8) (hc : 0 < c.chunk) (hsz : F.length < U64)
    (hf : Faithful F c.src) (k : Nat) (st : St) (lock : Option Nat) (t : Thread) (hinv : Inv F st)
    (ht : ThreadOk c F st.buffers t) (st' : St) (lock' : Option Nat) (t' : Thread)
    (h : tstep c k st lock t = some (st', lock', t')) : StepOk c F k st lock t st' lock' t' := by
  by_cases hpc : t.pc = .idle
  · exact tstep_idle c F hc hsz hf k st lock t hinv ht hpc st' lock' t' h
  · exact tstep_busy c F hc hsz hf k st lock t hinv ht hpc st' lock' t' h

/-! ### the system invariant -/

structure SysOk (c : Cfg) (F : List UInt8) (progs : List (List Op)) (s : Sys) : Prop where
  inv : Inv F s.st
  len : s.threads.length = progs.length
  thr : ∀ (k : Nat) (t : Thread), s.threads[k]? = some t → ThreadOk c F s.st.buffers t
  calls : ∀ (k : Nat) (t : Thread), s.threads[k]? = some t → progs[k]? = some t.calls
  /-- exactly the owner of the `string_cache` lock is inside the locked part of a delimited read -/
  holds : ∀ (k : Nat) (t : Thread), s.threads[k]? = some t → (t.pc.holdsLock = true ↔ s.lock = some k)
  owner : ∀ k : Nat, s.lock = some k → k < s.threads.length

theorem sysOk_init (c : Cfg) (F : List UInt8) (progs : List (List Op)) :
    SysOk c F progs (Sys.init F.length progs) := by
  refine ⟨inv_init F, by simp [Sys.init], ?_, ?_, ?_, ?_⟩
  · intro k t h
    simp only [Sys.init, List.getElem?_map, Option.map_eq_some_iff] at h
    obtain ⟨p, _, rfl⟩ := h
    exact ⟨trivial, by simp⟩
  · intro k t h
    simp only [Sys.init, List.getElem?_map, Option.map_eq_some_iff] at h
    obtain ⟨p, hp, rfl⟩ := h
    simp [Thread.calls, Pc.op?, hp]
  · intro k t h
    simp only [Sys.init, List.getElem?_map, Option.map_eq_some_iff] at h
    obtain ⟨p, _, rfl⟩ := h
    simp [Sys.init, Pc.holdsLock]
  · intro k h; simp [Sys.init] at h

theorem sysStep_ok (c : Cfg) (F : List UInt8) (hc : 0 < c.chunk) (hsz : F.length < U64)
    (hf : Faithful F c.src) (progs : List (List Op)) (s : Sys) (hs : SysOk c F progs s) (k : Nat) :
    SysOk c F progs (sysStep c s k) := by
  unfold sysStep
  cases hk : s.threads[k]? with
  | none => exact hs
  | some t =>
    simp only
    cases hstep : tstep c k s.st s.lock t with
    | none => exact hs
    | some res =>
      obtain ⟨st', lock', t'⟩ := res
      simp only
      have hklt : k < s.threads.length := by
        rcases Nat.lt_or_ge k s.threads.length with h | h
        · exact h
        · rw [List.getElem?_eq_none h] at hk; cases hk
      obtain ⟨o1, ⟨ext, o2⟩, o3, o4, o5⟩ :=
        tstep_ok c F hc hsz hf k s.st s.lock t hs.inv (hs.thr k t hk) st' lock' t' hstep
      obtain ⟨l1, l2⟩ := o5 (hs.holds k t hk)
      have hget : ∀ j u, (s.threads.set k t')[j]? = some u → (j = k ∧ u = t') ∨ (j ≠ k ∧ s.threads[j]? = some u) := by
        intro j u hu
        rw [List.getElem?_set] at hu
        by_cases hjk : k = j
        · subst hjk
          simp only [if_true, hklt, Option.some.injEq] at hu
          exact Or.inl ⟨rfl, hu.symm⟩
        · simp only [hjk, if_false] at hu
          exact Or.inr ⟨fun h => hjk h.symm, hu⟩
      refine ⟨o1, by simp only [List.length_set]; exact hs.len, ?_, ?_, ?_, ?_⟩
      · intro j u hu
        simp only at hu ⊢
        rcases hget j u hu with ⟨_, rfl⟩ | ⟨_, hu'⟩
        · exact o3
        · rw [o2]; exact (hs.thr j u hu').append ext
      · intro j u hu
        simp only at hu
        rcases hget j u hu with ⟨rfl, rfl⟩ | ⟨_, hu'⟩
        · rw [o4]; exact hs.calls j t hk
        · exact hs.calls j u hu'
      · intro j u hu
        simp only at hu ⊢
        rcases hget j u hu with ⟨rfl, rfl⟩ | ⟨hjk, hu'⟩
        · exact l1
        · rw [l2 j hjk]; exact hs.holds j u hu'
      · intro j hj
        simp only at hj ⊢
        rw [List.length_set]
        by_cases hjk : j = k
        · subst hjk; exact hklt
        · exact hs.owner j ((l2 j hjk).1 hj)

theorem runSched_ok (c : Cfg) (F : List UInt8) (hc : 0 < c.chunk) (hsz : F.length < U64)
    (hf : Faithful F c.src) (progs : List (List Op)) (sched : List Nat) (s : Sys) (hs : SysOk c F progs s) :
    SysOk c F progs (runSched c s sched) := by
  induction sched generalizing s with
  | nil => exact hs
  | cons k rest ih => exact ih _ (sysStep_ok c F hc hsz hf progs s hs k)

/-- a good outcome is never a panic -/
theorem good_not_panic {c : Cfg} {F : List UInt8} {op : Op} {out : Out (List UInt8)} (h : Good c F (op, out)) :
    out ≠ .panic := by
  rcases h with h | ⟨h, _⟩
  · simp only at h
    rw [h]
    cases op with
    | read o n => simp only [spec, specRead]; repeat' split
                  all_goals simp
    | until_ r d => simp only [spec, specUntil]; repeat' split
                    all_goals simp
    | into o n => simp only [spec]; split <;> simp
  · simp only at h; rw [h]; simp

/-- deadlock freedom at lock granularity: unless every thread has finished, some thread is enabled -/
theorem sysOk_progress (c : Cfg) (F : List UInt8) (progs : List (List Op)) (s : Sys) (hs : SysOk c F progs s)
    (j : Nat) (u : Thread) (hj : s.threads[j]? = some u) (hu : u.finished = false) :
    ∃ k, s.enabled c k = true := by
  cases hl : s.lock with
  | some k =>
    -- the owner of the lock is inside a delimited read and every such section is enabled
    have hk := hs.owner k hl
    have hget : s.threads[k]? = some s.threads[k] := List.getElem?_eq_getElem hk
    have hh := (hs.holds k _ hget).2 hl
    refine ⟨k, ?_⟩
    simp only [Sys.enabled, hget]
    generalize s.threads[k] = t at hh
    obtain ⟨pc, todo, done⟩ := t
    cases pc with
    | idle => simp [Pc.holdsLock] at hh
    | readSlice o n loc => simp [Pc.holdsLock] at hh
    | untilHit r d loc => simp only [tstep]; split <;> rfl
    | untilLocate r d m => simp only [tstep]; split <;> rfl
    | untilSlice r d loc => simp only [tstep]; split <;> rfl
    | untilFinish r d loc bytes => simp only [tstep]; split <;> rfl
  | none =>
    refine ⟨j, ?_⟩
    simp only [Sys.enabled, hj]
    have hh := hs.holds j u hj
    rw [hl] at hh
    obtain ⟨pc, todo, done⟩ := u
    cases pc with
    | idle =>
      simp only [Thread.finished, decide_true, Bool.true_and, List.isEmpty_eq_false_iff] at hu
      cases todo with
      | nil => exact absurd rfl hu
      | cons op rest =>
        cases op with
        | read o n => simp only [tstep]; repeat' split
                      all_goals rfl
        | until_ r d => simp only [tstep, hl]; repeat' split
                        all_goals rfl
        | into o n => simp only [tstep]; rfl
    | readSlice o n loc => simp only [tstep]; split <;> rfl
    | untilHit r d loc => simp [Pc.holdsLock] at hh
    | untilLocate r d m => simp [Pc.holdsLock] at hh
    | untilSlice r d loc => simp [Pc.holdsLock] at hh
    | untilFinish r d loc bytes => simp [Pc.holdsLock] at hh

/-! ### the sections of one call, run without interruption, are the sequential call -/

/-- a one-thread system -/
def Sys.solo (st : St) (t : Thread) : Sys := ⟨st, none, [t]⟩

theorem sysStep_solo (c : Cfg) (st : St) (lock : Option Nat) (t : Thread) :
    sysStep c ⟨st, lock, [t]⟩ 0 =
      match tstep c 0 st lock t with
      | none => ⟨st, lock, [t]⟩
      | some (st', lock', t') => ⟨st', lock', [t']⟩ := by
  simp only [sysStep, List.getElem?_cons_zero]
  cases tstep c 0 st lock t with
  | none => rfl
  | some res => obtain ⟨a, b, d⟩ := res; rfl

theorem tstep_finished (c : Cfg) (k : Nat) (st : St) (lock : Option Nat) (done : List (Op × Out (List UInt8))) :
    tstep c k st lock ⟨.idle, [], done⟩ = none := rfl

theorem sysStep_solo_finished (c : Cfg) (st : St) (lock : Option Nat) (done : List (Op × Out (List UInt8))) :
    sysStep c ⟨st, lock, [⟨.idle, [], done⟩]⟩ 0 = ⟨st, lock, [⟨.idle, [], done⟩]⟩ := by
  rw [sysStep_solo, tstep_finished]

/-- Running the sections of a single call one after the other with no other thread in between gives exactly
the sequential call `CC.step` (state and outcome) — the function the correspondence run compares with the
real code — and releases the lock. (If the sequential call panics the thread dies holding whatever it
held; this does not happen from a state satisfying the invariant.) -/
theorem sections_compose (c : Cfg) (st : St) (op : Op) (hnp : (step c st op).2 ≠ .panic) :
    runSched c (Sys.solo st ⟨.idle, [op], []⟩) [0, 0, 0, 0] =
      Sys.solo (step c st op).1 ⟨.idle, [], [(op, (step c st op).2)]⟩ := by
  simp only [runSched, List.foldl_cons, List.foldl_nil, Sys.solo]
  cases op with
  | into o n =>
    rw [sysStep_solo]
    simp only [tstep, Thread.finish, step, readBytesInto]
    cases c.src o n <;> simp only [sysStep_solo_finished]
  | read o n =>
    simp only [step, readBytesAt] at hnp ⊢
    rw [sysStep_solo]
    simp only [tstep, Thread.finish]
    by_cases h0 : n = 0
    · simp only [h0, if_true, sysStep_solo_finished]
    by_cases h1 : U64 ≤ o + n
    · simp only [h0, h1, if_true, if_false, sysStep_solo_finished]
    by_cases h2 : st.fileLen < o + n
    · simp only [h0, h1, h2, if_true, if_false, sysStep_solo_finished]
    simp only [h0, h1, h2, if_false] at hnp ⊢
    generalize getRangeLocation c st ⟨o, o + n⟩ = res at hnp ⊢
    obtain ⟨st2, out⟩ := res
    cases out with
    | panic => exact absurd rfl hnp
    | err e => simp only [sysStep_solo_finished]
    | ok loc =>
      simp only at hnp ⊢
      rw [sysStep_solo]
      simp only [tstep, Thread.finish]
      cases hs : sliceFromLocation st2 loc with
      | panic => rw [hs] at hnp; exact absurd rfl hnp
      | err e => simp only [sysStep_solo_finished]
      | ok bs => simp only [sysStep_solo_finished]
  | until_ r d =>
    simp only [step, readBytesAtUntil] at hnp ⊢
    rw [sysStep_solo]
    simp only [tstep, Thread.finish]
    by_cases h1 : r.hi < r.lo
    · simp only [h1, if_true, sysStep_solo_finished]
    by_cases h2 : st.fileLen < r.hi
    · simp only [h1, h2, if_true, if_false, sysStep_solo_finished]
    simp only [h1, h2, if_false] at hnp ⊢
    generalize min (r.hi - r.lo) maxLenInclDelim = maxLen at hnp ⊢
    cases hcg : cacheGet st.strCache (r.lo, d) with
    | some loc =>
      simp only [hcg] at hnp ⊢
      by_cases hlt : loc.size < maxLen
      · simp only [hlt, if_true] at hnp ⊢
        rw [sysStep_solo]
        simp only [tstep, Thread.finish]
        cases hs : sliceFromLocation st loc with
        | panic => rw [hs] at hnp; exact absurd rfl hnp
        | err e => simp only [sysStep_solo_finished]
        | ok bs => simp only [sysStep_solo_finished]
      · simp only [hlt, if_false, sysStep_solo_finished]
    | none =>
      simp only [hcg] at hnp ⊢
      by_cases hz : maxLen = 0
      · simp only [hz, if_true, sysStep_solo_finished]
      by_cases hov : U64 ≤ r.lo + maxLen
      · simp only [hz, hov, if_true, if_false] at hnp; exact absurd rfl hnp
      simp only [hz, hov, if_false] at hnp ⊢
      rw [sysStep_solo]
      simp only [tstep, Thread.finish]
      generalize getRangeLocation c st ⟨r.lo, r.lo + maxLen⟩ = res at hnp ⊢
      obtain ⟨st2, out⟩ := res
      cases out with
      | panic => exact absurd rfl hnp
      | err e => simp only [sysStep_solo_finished]
      | ok loc =>
        simp only at hnp ⊢
        rw [sysStep_solo]
        simp only [tstep, Thread.finish]
        cases hs : sliceFromLocation st2 loc with
        | panic => rw [hs] at hnp; exact absurd rfl hnp
        | err e => simp only [sysStep_solo_finished]
        | ok bs =>
          simp only [hs] at hnp ⊢
          rw [sysStep_solo]
          simp only [tstep, Thread.finish]
          cases hm : memchr d bs with
          | none => rfl
          | some len => rfl

end CC
