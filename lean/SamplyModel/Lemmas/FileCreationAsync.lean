import SamplyModel.Model.FileCreationAsync
import SamplyModel.Lemmas.FileCreation
/-!
Lemmas about the deferred-write model `FCA` (Model/FileCreationAsync.lean).
-/
namespace FCA
open FC

/-- an `FCA` transition either leaves the protocol state alone (`land`) or advances it by `FC.next` -/
theorem next_base {m : Bool} {pl : Pid → Content} {s s' : State} {a : Act}
    (hn : next m pl s a = some s') :
    s'.base = s.base ∨ ∃ a', FC.next pl s.base a' = some s'.base := by
  cases a with
  | land n =>
    simp only [next] at hn
    split at hn
    · injection hn with hn; subst hn; exact Or.inl rfl
    · simp at hn
  | base a =>
    right
    refine ⟨a, ?_⟩
    simp only [next] at hn
    split at hn
    · simp at hn
    · rename_i b hb
      rw [hb]
      congr 1
      repeat' split at hn
      all_goals (injection hn with hn; subst hn; rfl)

/-- the protocol state of every reachable state of the deferred-write system is a reachable state of the
protocol model `FC`: whatever the blocking pool does with the writes, locks, names, program counters and
winners evolve exactly as in `FC` -/
theorem base_reachable {m : Bool} {pl : Pid → Content} {s : State} (h : Reachable m pl s) :
    FC.Reachable pl s.base := by
  induction h with
  | init => exact FC.Reachable.init
  | step a _ hn ih =>
    rcases next_base hn with h | ⟨a', h⟩
    · rw [h]; exact ih
    · exact FC.Reachable.step a' ih h

/-! ### `joinOnDrop = true`: the inodes hold what the protocol model says -/

theorem writeAt_length (l : Content) (c : Nat) : writeAt l l.length c = l ++ [c] := by
  simp [writeAt]

theorem writeAt_take {l : Content} {k c : Nat} (h : l[k]? = some c) :
    writeAt (l.take k) k c = l.take (k + 1) := by
  have hk : k < l.length := by
    cases hlt : decide (k < l.length) with
    | true => simpa using hlt
    | false => simp at hlt; simp [List.getElem?_eq_none hlt] at h
  have : (l.take k).length = k := by simp; omega
  have h2 := writeAt_length (l.take k) c
  rw [this] at h2
  rw [h2, take_snoc h]

def writingAt (pc : PC) (j : Inode) (k : Nat) : Bool :=
  match pc with
  | .writing _ j' k' => j' = j && k' = k
  | _ => false

/-- invariant of the deferred-write system when a dropped callback waits for its write -/
structure AInv (pl : Pid → Content) (s : State) : Prop where
  /-- at most one write is queued (the writer inside the critical section issued it) … -/
  fl1 : s.inflight.length ≤ 1
  /-- … by a creator that is inside its callback one chunk further; the inode holds the chunks before it -/
  fl2 : ∀ w, w ∈ s.inflight → writingAt (s.base.pc w.owner) w.inode (w.off + 1) = true ∧
      (pl w.owner)[w.off]? = some w.chunk ∧ s.disk w.inode = (pl w.owner).take w.off
  wr : s.inflight = [] → ∀ p i j k, s.base.pc p = .writing i j k → s.disk j = (pl p).take k
  ok : ∀ p i, s.base.pc p = .wroteOk i → ∀ j, s.base.part = some j → s.disk j = pl p
  dst : ∀ j, s.base.dest = some j → s.disk j = s.base.content j

theorem ainv_init (pl : Pid → Content) : AInv pl State.init := by
  constructor <;> simp [State.init, FC.State.init]

theorem settle_nil (p : Pid) (d : Inode → Content) : settle p d [] = (d, []) := rfl

theorem settle_one (p : Pid) (d : Inode → Content) (w : Pending) :
    settle p d [w] = if w.owner = p then (exec d w, []) else (d, [w]) := by
  by_cases h : w.owner = p <;> simp [settle, h]

theorem inflight_cases {pl : Pid → Content} {s : State} (h : AInv pl s) :
    s.inflight = [] ∨ ∃ w, s.inflight = [w] := by
  have := h.fl1
  match hfl : s.inflight with
  | [] => exact Or.inl rfl
  | [w] => exact Or.inr ⟨w, rfl⟩
  | _ :: _ :: _ => simp [hfl] at this

theorem writingAt_eq {pc : PC} {j : Inode} {k : Nat} (h : writingAt pc j k = true) :
    ∃ i, pc = .writing i j k := by
  cases pc <;> simp [writingAt] at h
  rename_i i j' k'
  exact ⟨i, by simp [h.1, h.2]⟩

theorem ainv_land {pl : Pid → Content} {s s' : State} {n : Nat} (hA : AInv pl s) (hI : FC.Inv pl s.base)
    (hn : next true pl s (.land n) = some s') : AInv pl s' := by
  have hm := @Inv.mutex pl s.base hI
  have hnoCS := hI.noCS
  simp only [next] at hn
  rcases inflight_cases hA with hfl | ⟨w, hfl⟩
  · simp [hfl] at hn
  · have hw := hA.fl2 w (by simp [hfl])
    obtain ⟨hw1, hw2, hw3⟩ := hw
    obtain ⟨i, hpcw⟩ := writingAt_eq hw1
    cases n with
    | succ n => simp [hfl] at hn
    | zero =>
      simp [hfl] at hn
      subst hn
      constructor
      · simp
      · simp
      · intro _ p i' j k hp
        dsimp only at hp
        have : p = w.owner := hm (by simp [hp, inCS]) (by simp [hpcw, inCS])
        subst this
        simp only [hpcw, PC.writing.injEq] at hp
        obtain ⟨_, hj, hk⟩ := hp
        subst hj hk
        simp [exec, upd, hw3, writeAt_take hw2]
      · intro p i' hp
        dsimp only at hp
        have : p = w.owner := hm (by simp [hp, inCS]) (by simp [hpcw, inCS])
        subst this
        simp [hpcw] at hp
      · intro j hj
        dsimp only at hj
        have := hnoCS (by simp [hj]) w.owner
        simp [hpcw, inCS] at this

/-! frame properties of `FC.next` -/

theorem next_pc_other {pl : Pid → Content} {t b : FC.State} {a : FC.Act} {q : Pid}
    (h : FC.next pl t a = some b) (hq : q ≠ a.pid) : b.pc q = t.pc q := by
  cases a with
  | step p =>
    simp only [FC.next, stepP] at h
    (repeat' split at h) <;>
      first | (injection h with h; subst h; simp [upd]; intro hh; exact absurd hh hq) | simp at h
  | fail p =>
    simp only [FC.next, failP] at h
    (repeat' split at h) <;>
      first | (injection h with h; subst h; simp [upd]; intro hh; exact absurd hh hq) | simp at h
  | crash p =>
    simp only [FC.next, crashP] at h
    (repeat' split at h) <;>
      first | (injection h with h; subst h; simp [upd]; intro hh; exact absurd hh hq) | simp at h
  | cancel p =>
    simp only [FC.next, cancelP] at h
    (repeat' split at h) <;>
      first | (injection h with h; subst h; simp [upd]; intro hh; exact absurd hh hq) | simp at h

/-- a creator outside the critical section does not touch `dest`, `dest.part` or any file contents, and does
not enter the write callback -/
theorem next_frame_nonCS {pl : Pid → Content} {t b : FC.State} {a : FC.Act}
    (h : FC.next pl t a = some b) (hcs : inCS (t.pc a.pid) = false) :
    b.part = t.part ∧ b.dest = t.dest ∧ b.content = t.content ∧
    (∀ i j k, b.pc a.pid ≠ .writing i j k) ∧ (∀ i, b.pc a.pid ≠ .wroteOk i) := by
  cases a with
  | step p =>
    simp only [FC.next, stepP] at h
    simp only [FC.Act.pid] at hcs ⊢
    (repeat' split at h) <;>
      first | (injection h with h; subst h; simp_all [upd, inCS]; done) | simp at h | simp_all [inCS]
  | fail p =>
    simp only [FC.next, failP] at h
    simp only [FC.Act.pid] at hcs ⊢
    (repeat' split at h) <;>
      first | (injection h with h; subst h; simp_all [upd, inCS]; done) | simp at h | simp_all [inCS]
  | crash p =>
    simp only [FC.next, crashP] at h
    simp only [FC.Act.pid] at hcs ⊢
    (repeat' split at h) <;>
      first | (injection h with h; subst h; simp_all [upd, inCS]; done) | simp at h | simp_all [inCS]
  | cancel p =>
    simp only [FC.next, cancelP] at h
    simp only [FC.Act.pid] at hcs ⊢
    (repeat' split at h) <;>
      first | (injection h with h; subst h; simp_all [upd, inCS]; done) | simp at h | simp_all [inCS]

theorem owner_inCS {pl : Pid → Content} {s : State} (hA : AInv pl s) {w : Pending} (hw : w ∈ s.inflight) :
    inCS (s.base.pc w.owner) = true := by
  obtain ⟨i, h⟩ := writingAt_eq (hA.fl2 w hw).1
  simp [h, inCS]

/-- an action of a creator outside the critical section preserves the invariant -/
theorem ainv_frame {pl : Pid → Content} {s : State} {b : FC.State} {p : Pid} (hA : AInv pl s)
    (hpc : ∀ q, q ≠ p → b.pc q = s.base.pc q)
    (hpart : b.part = s.base.part) (hdest : b.dest = s.base.dest) (hcont : b.content = s.base.content)
    (hcs : inCS (s.base.pc p) = false)
    (hw : ∀ i j k, b.pc p ≠ .writing i j k) (hok : ∀ i, b.pc p ≠ .wroteOk i) :
    AInv pl { s with base := b } ∧ s.inflight.filter (fun w => w.owner ≠ p) = s.inflight := by
  have hne : ∀ w, w ∈ s.inflight → w.owner ≠ p := by
    intro w hw' he
    have := owner_inCS hA hw'
    rw [he, hcs] at this
    exact absurd this (by simp)
  refine ⟨⟨hA.fl1, ?_, ?_, ?_, ?_⟩, ?_⟩
  · intro w hw'
    dsimp only at hw' ⊢
    rw [hpc _ (hne w hw')]
    exact hA.fl2 w hw'
  · intro hfl q i j k hq
    dsimp only at hfl hq ⊢
    have hqp : q ≠ p := by intro he; subst he; exact hw i j k hq
    rw [hpc q hqp] at hq
    exact hA.wr hfl q i j k hq
  · intro q i hq j hj
    dsimp only at hq hj ⊢
    have hqp : q ≠ p := by intro he; subst he; exact hok i hq
    rw [hpc q hqp] at hq
    rw [hpart] at hj
    exact hA.ok q i hq j hj
  · intro j hj
    dsimp only at hj ⊢
    rw [hdest] at hj
    rw [hcont]
    exact hA.dst j hj
  · rw [List.filter_eq_self]
    intro w hw'
    simpa using hne w hw'

/-- an action of the one creator inside the critical section: only its own new program point matters -/
theorem ainv_cs {pl : Pid → Content} {s : State} (hI : FC.Inv pl s.base) {p : Pid}
    (hcs : inCS (s.base.pc p) = true) (s' : State)
    (hpc : ∀ q, q ≠ p → s'.base.pc q = s.base.pc q)
    (hfl1 : s'.inflight.length ≤ 1)
    (hfl2 : ∀ w, w ∈ s'.inflight → w.owner = p ∧ writingAt (s'.base.pc p) w.inode (w.off + 1) = true ∧
      (pl p)[w.off]? = some w.chunk ∧ s'.disk w.inode = (pl p).take w.off)
    (hwr : s'.inflight = [] → ∀ i j k, s'.base.pc p = .writing i j k → s'.disk j = (pl p).take k)
    (hok : ∀ i, s'.base.pc p = .wroteOk i → ∀ j, s'.base.part = some j → s'.disk j = pl p)
    (hdst : ∀ j, s'.base.dest = some j → s'.disk j = s'.base.content j) : AInv pl s' := by
  have hm := @Inv.mutex pl s.base hI
  have only_p : ∀ q, inCS (s'.base.pc q) = true → q = p := by
    intro q hq
    by_cases hqp : q = p
    · exact hqp
    · rw [hpc q hqp] at hq; exact hm hq hcs
  refine ⟨hfl1, ?_, ?_, ?_, hdst⟩
  · intro w hw
    obtain ⟨h1, h2, h3, h4⟩ := hfl2 w hw
    rw [h1]; exact ⟨h2, h3, h4⟩
  · intro hfl q i j k hq
    have := only_p q (by simp [hq, inCS])
    subst this
    exact hwr hfl i j k hq
  · intro q i hq j hj
    have := only_p q (by simp [hq, inCS])
    subst this
    exact hok i hq j hj

/-- outside the critical section the deferred-write transition only replaces the protocol state -/
theorem ainv_base_nonCS {pl : Pid → Content} {s s' : State} {a : FC.Act} {b : FC.State} (hA : AInv pl s)
    (hb : FC.next pl s.base a = some b) (hcs : inCS (s.base.pc a.pid) = false)
    (hn : next true pl s (.base a) = some s') : AInv pl s' := by
  obtain ⟨h1, h2, h3, h4, h5⟩ := next_frame_nonCS hb hcs
  obtain ⟨hF, hflt⟩ := ainv_frame hA (fun q hq => next_pc_other hb hq) h1 h2 h3 hcs h4 h5
  have : s' = { s with base := b } := by
    cases a with
    | step p =>
      simp only [FC.Act.pid] at hcs hflt
      cases hpc : s.base.pc p <;> simp [inCS, hpc] at hcs <;>
        simp [next, hb, hpc, FC.Act.pid] at hn <;> exact hn.symm
    | fail p =>
      simp only [FC.Act.pid] at hcs hflt
      cases hpc : s.base.pc p <;> simp [inCS, hpc] at hcs <;>
        simp [next, hb, hpc, FC.Act.pid] at hn <;> exact hn.symm
    | cancel p =>
      simp only [FC.Act.pid] at hcs hflt
      cases hpc : s.base.pc p <;> simp [inCS, hpc] at hcs <;>
        simp [next, hb, hpc, FC.Act.pid] at hn <;> exact hn.symm
    | crash p =>
      simp only [FC.Act.pid] at hcs hflt
      cases hpc : s.base.pc p <;> simp [inCS, hpc] at hcs <;>
        simp [next, hb, FC.Act.pid, hflt] at hn <;> exact hn.symm
  subst this
  exact hF

theorem next_base_eq {m : Bool} {pl : Pid → Content} {s s' : State} {a : FC.Act}
    (hn : next m pl s (.base a) = some s') : FC.next pl s.base a = some s'.base := by
  simp only [next] at hn
  split at hn
  · simp at hn
  · rename_i b hb
    rw [hb]
    congr 1
    repeat' split at hn
    all_goals (injection hn with hn; subst hn; rfl)

theorem settle_snd_nil {p : Pid} {d : Inode → Content} {fl : List Pending}
    (h : ∀ w, w ∈ fl → w.owner = p) : (settle p d fl).2 = [] := by
  simp only [settle, List.filter_eq_nil_iff]
  intro w hw
  simp [h w hw]

theorem filter_owner_nil {p : Pid} {fl : List Pending}
    (h : ∀ w, w ∈ fl → w.owner = p) : fl.filter (fun w => w.owner ≠ p) = [] := by
  simp only [List.filter_eq_nil_iff]
  intro w hw
  simp [h w hw]

/-- the creator inside the critical section leaves the callback / the critical section without a queued
write: nothing is left to show -/
theorem ainv_cs_exit {pl : Pid → Content} {s : State} (hI : FC.Inv pl s.base) {p : Pid}
    (hcs : inCS (s.base.pc p) = true) (s' : State)
    (hpc : ∀ q, q ≠ p → s'.base.pc q = s.base.pc q)
    (hfl : s'.inflight = []) (hw : ∀ i j k, s'.base.pc p ≠ .writing i j k)
    (hok : ∀ i, s'.base.pc p ≠ .wroteOk i) (hd : s'.base.dest = none) : AInv pl s' := by
  apply ainv_cs hI hcs s' hpc
  · simp [hfl]
  · intro w hw'; simp [hfl] at hw'
  · intro _ i j k h; exact absurd h (hw i j k)
  · intro i h; exact absurd h (hok i)
  · intro j hj; rw [hd] at hj; simp at hj

/-- a failing operation, a kill or a cancellation never leads into the callback or to "written", and never
touches the destination -/
theorem next_exit {pl : Pid → Content} {t b : FC.State} {a : FC.Act}
    (ha : ∀ p, a ≠ .step p) (h : FC.next pl t a = some b) :
    (∀ i j k, b.pc a.pid ≠ .writing i j k) ∧ (∀ i, b.pc a.pid ≠ .wroteOk i) ∧ b.dest = t.dest := by
  cases a with
  | step p => exact absurd rfl (ha p)
  | fail p =>
    simp only [FC.next, failP] at h
    simp only [FC.Act.pid]
    (repeat' split at h) <;> first | (injection h with h; subst h; simp [upd]; done) | simp at h
  | crash p =>
    simp only [FC.next, crashP] at h
    simp only [FC.Act.pid]
    (repeat' split at h) <;> first | (injection h with h; subst h; simp [upd]; done) | simp at h
  | cancel p =>
    simp only [FC.next, cancelP] at h
    simp only [FC.Act.pid]
    (repeat' split at h) <;> first | (injection h with h; subst h; simp [upd]; done) | simp at h

theorem next_inflight_exit {pl : Pid → Content} {s s' : State} {a : FC.Act}
    (ha : ∀ p, a ≠ .step p) (hn : next true pl s (.base a) = some s')
    (hown : ∀ w, w ∈ s.inflight → w.owner = a.pid)
    (hnil : (∀ i j k, s.base.pc a.pid ≠ .writing i j k) → s.inflight = []) : s'.inflight = [] := by
  simp only [next] at hn
  split at hn
  · simp at hn
  · cases a with
    | step p => exact absurd rfl (ha p)
    | crash p =>
      simp only [FC.Act.pid] at hown hnil hn
      have := filter_owner_nil hown
      (repeat' split at hn) <;> (injection hn with hn; subst hn) <;> simp_all
    | fail p =>
      simp only [FC.Act.pid] at hown hnil hn
      have := settle_snd_nil (d := s.disk) hown
      (repeat' split at hn) <;> (injection hn with hn; subst hn) <;> simp_all
    | cancel p =>
      simp only [FC.Act.pid] at hown hnil hn
      have := settle_snd_nil (d := s.disk) hown
      (repeat' split at hn) <;> (injection hn with hn; subst hn) <;> simp_all

theorem ainv_base_CS_step {pl : Pid → Content} {s s' : State} {p : Pid} (hA : AInv pl s)
    (hI : FC.Inv pl s.base) (hcs : inCS (s.base.pc p) = true)
    (hn : next true pl s (.base (.step p)) = some s') : AInv pl s' := by
  have hdn : s.base.dest = none := hI.dest_none_of_inCS hcs
  have hown : ∀ w, w ∈ s.inflight → w.owner = p := fun w hw => hI.mutex (owner_inCS hA hw) hcs
  have hframe : ∀ q, q ≠ p → s'.base.pc q = s.base.pc q :=
    fun q hq => next_pc_other (next_base_eq hn) hq
  have hnil : (∀ i j k, s.base.pc p ≠ .writing i j k) → s.inflight = [] := by
    intro hne
    rcases inflight_cases hA with h | ⟨w, h⟩
    · exact h
    · have hw : w ∈ s.inflight := by simp [h]
      obtain ⟨i, hpcw⟩ := writingAt_eq (hA.fl2 w hw).1
      rw [hown w hw] at hpcw
      exact absurd hpcw (hne _ _ _)
  cases hpc : s.base.pc p <;> simp [inCS, hpc] at hcs
  · -- absent: open(.part, O_TRUNC)
    rename_i i
    have hfl := hnil (by simp [hpc])
    cases hpart : s.base.part <;>
      simp only [next, FC.next, stepP, hpc, hpart, FC.Act.pid, Option.some.injEq] at hn <;> subst hn <;>
      (apply ainv_cs hI (by simp [hpc, inCS] : inCS (s.base.pc p) = true) _ (by simpa using hframe)) <;>
      simp [hfl, upd, hdn]
  · -- inside the callback
    rename_i i j k
    have hE := hI.writing p i j k hpc
    -- the temp file holds the first k chunks once the write in flight has been waited for
    have hd1 : (settle p s.disk s.inflight).1 j = (pl p).take k ∧ (settle p s.disk s.inflight).2 = [] := by
      rcases inflight_cases hA with h | ⟨w, h⟩
      · rw [h, settle_nil]; exact ⟨hA.wr h p i j k hpc, rfl⟩
      · have hw : w ∈ s.inflight := by simp [h]
        obtain ⟨h1, h2, h3⟩ := hA.fl2 w hw
        have ho := hown w hw
        rw [ho, hpc] at h1
        simp [writingAt] at h1
        obtain ⟨hj, hk⟩ := h1
        rw [h, settle_one]
        simp only [ho, if_true]
        refine ⟨?_, trivial⟩
        rw [ho] at h2 h3
        subst hj
        simp only [exec, upd, if_true]
        rw [h3, writeAt_take h2, hk]
    cases hc : (pl p)[k]? with
    | some c =>
      simp only [next, FC.next, stepP, hpc, hc, FC.Act.pid, Option.some.injEq] at hn
      subst hn
      apply ainv_cs hI (by simp [hpc, inCS] : inCS (s.base.pc p) = true) _ (by simpa using hframe)
      · simp [hd1.2]
      · intro w hw
        simp [hd1.2] at hw
        subst hw
        simp [upd, writingAt, hc, hd1.1]
      · simp [hd1.2]
      · simp [upd]
      · simp [hdn]
    | none =>
      simp only [next, FC.next, stepP, hpc, hc, FC.Act.pid, Option.some.injEq] at hn
      subst hn
      apply ainv_cs hI (by simp [hpc, inCS] : inCS (s.base.pc p) = true) _ (by simpa using hframe)
      · simp [hd1.2]
      · simp [hd1.2]
      · simp [upd]
      · intro i' _ j' hj'
        simp only [hE.1, Option.some.injEq] at hj'
        subst hj'
        simp only [hd1.1]
        exact take_all hc
      · simp [hdn]
  · -- written: rename
    rename_i i
    have hfl := hnil (by simp [hpc])
    obtain ⟨j, hpj, hcj⟩ := hI.wrote p i hpc
    have hok := hA.ok p i hpc j hpj
    simp only [next, FC.next, stepP, hpc, FC.Act.pid, hpj, Option.some.injEq] at hn
    subst hn
    apply ainv_cs hI (by simp [hpc, inCS] : inCS (s.base.pc p) = true) _ (by simpa using hframe)
    · simp [hfl]
    · simp [hfl]
    · simp [upd]
    · simp [upd]
    · simp [hok, hcj]
  · -- failed: remove the temp file
    rename_i i e
    have hfl := hnil (by simp [hpc])
    simp only [next, FC.next, stepP, hpc, FC.Act.pid, Option.some.injEq] at hn
    subst hn
    apply ainv_cs_exit hI (by simp [hpc, inCS] : inCS (s.base.pc p) = true) _ (by simpa using hframe) <;>
      simp [hfl, upd, hdn]

theorem ainv_base {pl : Pid → Content} {s s' : State} {a : FC.Act} (hA : AInv pl s)
    (hI : FC.Inv pl s.base) (hn : next true pl s (.base a) = some s') : AInv pl s' := by
  have hb := next_base_eq hn
  cases hcs : inCS (s.base.pc a.pid) with
  | false => exact ainv_base_nonCS hA hb hcs hn
  | true =>
    by_cases hstep : ∃ p, a = .step p
    · obtain ⟨p, rfl⟩ := hstep
      exact ainv_base_CS_step hA hI hcs hn
    · have ha : ∀ p, a ≠ .step p := fun p h => hstep ⟨p, h⟩
      have hown : ∀ w, w ∈ s.inflight → w.owner = a.pid := fun w hw => hI.mutex (owner_inCS hA hw) hcs
      have hnil : (∀ i j k, s.base.pc a.pid ≠ .writing i j k) → s.inflight = [] := by
        intro hne
        rcases inflight_cases hA with h | ⟨w, h⟩
        · exact h
        · have hw : w ∈ s.inflight := by simp [h]
          obtain ⟨i, hpcw⟩ := writingAt_eq (hA.fl2 w hw).1
          rw [hown w hw] at hpcw
          exact absurd hpcw (hne _ _ _)
      obtain ⟨h1, h2, h3⟩ := next_exit ha hb
      exact ainv_cs_exit hI hcs s' (fun q hq => next_pc_other hb hq)
        (next_inflight_exit ha hn hown hnil) h1 h2 (by rw [h3]; exact hI.dest_none_of_inCS hcs)

theorem ainv_next {pl : Pid → Content} {s s' : State} {a : Act} (hA : AInv pl s)
    (hI : FC.Inv pl s.base) (hn : next true pl s a = some s') : AInv pl s' := by
  cases a with
  | land n => exact ainv_land hA hI hn
  | base a => exact ainv_base hA hI hn

/-- every reachable state of the deferred-write system in which a dropped callback waits for its write -/
theorem ainv_reachable {pl : Pid → Content} {s : State} (h : Reachable true pl s) : AInv pl s := by
  induction h with
  | init => exact ainv_init pl
  | step a hr hn ih => exact ainv_next ih (inv_reachable (base_reachable hr)) hn

/-- when nothing is in flight at a drop inside the callback, waiting for "the write in flight" is a no-op -/
theorem next_false_eq_true {pl : Pid → Content} {s : State} {a : Act}
    (h : dropsInCallback s a = true → s.inflight = []) : next false pl s a = next true pl s a := by
  cases a with
  | land n => rfl
  | base a =>
    simp only [next]
    cases hb : FC.next pl s.base a with
    | none => rfl
    | some b =>
      cases a with
      | step p =>
        simp only [FC.Act.pid]
        cases hpc : s.base.pc p <;> simp
      | crash p => simp
      | fail p =>
        simp only [FC.Act.pid]
        cases hpc : s.base.pc p <;> try (simp; done)
        have hfl := h (by simp [dropsInCallback, hpc, isWritingPC])
        simp [hfl, settle]
      | cancel p =>
        simp only [FC.Act.pid]
        cases hpc : s.base.pc p <;> try (simp; done)
        have hfl := h (by simp [dropsInCallback, hpc, isWritingPC])
        simp [hfl, settle]

/-- every such history of the code as it is is a history of the join-on-drop system -/
theorem reachableQD_true {pl : Pid → Content} {s : State} (h : ReachableQD pl s) : Reachable true pl s := by
  induction h with
  | init => exact Reachable.init
  | step a _ hq hn ih => exact Reachable.step a ih (by rw [← next_false_eq_true hq]; exact hn)

end FCA
