import SamplyModel.Model.FileCreationAsync
import SamplyModel.Lemmas.FileCreation
/-!
Lemmas about the deferred-write model `FCA` (Model/FileCreationAsync.lean).
-/
namespace FCA
open FC

/-- an `FCA` transition either leaves the protocol state alone (`land`) or advances it by `FC.next` -/
theorem next_base {m : Bool} {pl : Pid → Content} {s s' : State} {a : Act}
    (hn : next m pl s a = some s') :
    s'.base = s.base ∨ ∃ a', FC.next pl s.base a' = some s'.base := by
  cases a with
  | land n =>
    simp only [next] at hn
    split at hn
    · injection hn with hn; subst hn; exact Or.inl rfl
    · simp at hn
  | base a =>
    right
    refine ⟨a, ?_⟩
    simp only [next] at hn
    split at hn
    · simp at hn
    · rename_i b hb
      rw [hb]
      congr 1
      repeat' split at hn
      all_goals (injection hn with hn; subst hn; rfl)

/-- the protocol state of every reachable state of the deferred-write system is a reachable state of the
protocol model `FC`: whatever the blocking pool does with the writes, locks, names, program counters and
winners evolve exactly as in `FC` -/
theorem base_reachable {m : Bool} {pl : Pid → Content} {s : State} (h : Reachable m pl s) :
    FC.Reachable pl s.base := by
  induction h with
  | init => exact FC.Reachable.init
  | step a _ hn ih =>
    rcases next_base hn with h | ⟨a', h⟩
    · rw [h]; exact ih
    · exact FC.Reachable.step a' ih h

end FCA
