import SamplyModel.Lemmas.ConvHelpers
import SamplyModel.Lemmas.ConvThread
/-!
The converter run simulates the specification fold `ConvSpec.accStep` (C01): along every history

* the invariant `InvA` holds,
* every buffered sample sits on a valid thread entry (and, without thread reuse, on the entry carrying the
  sample's own pid / tid),
* the `lastTs` of the thread object bound to (pid, tid) is the specification's `lastGet`,
* the buffered samples are, as a multiset, the accepted samples.
-/
namespace Conv
open ConvSpec

/-! ## the specification's `Last` table -/

theorem find?_filter_keep {α} (l : List α) (p q : α → Bool) (h : ∀ e, q e = true → p e = true) :
    (l.filter p).find? q = l.find? q := by
  induction l with
  | nil => rfl
  | cons x xs ih =>
    rw [List.filter_cons]
    by_cases hp : p x = true
    · simp only [hp, if_true, List.find?_cons, ih]
    · have hq : q x = false := by
        cases hq : q x
        · rfl
        · exact absurd (h x hq) hp
      have hp' : p x = false := by simpa using hp
      simp only [hp', Bool.false_eq_true, if_false, List.find?_cons, hq, ih]

theorem find?_filter_drop {α} (l : List α) (p q : α → Bool) (h : ∀ e, q e = true → p e = false) :
    (l.filter p).find? q = none := by
  rw [List.find?_eq_none]
  intro e he hq
  have := (List.mem_filter.mp he).2
  rw [h e hq] at this
  cases this

theorem lastGet_lastSet (l : Last) (pid tid t a b : Nat) :
    lastGet (lastSet l pid tid t) a b = if a = pid ∧ b = tid then some t else lastGet l a b := by
  unfold lastGet lastSet
  rw [List.find?_cons]
  by_cases h : a = pid ∧ b = tid
  · obtain ⟨rfl, rfl⟩ := h
    simp
  · have h1 : (pid == a && tid == b) = false := by
      rw [Bool.eq_false_iff]
      intro hh
      simp only [Bool.and_eq_true, beq_iff_eq] at hh
      exact h ⟨hh.1.symm, hh.2.symm⟩
    simp only [h1, h, if_false]
    rw [find?_filter_keep]
    intro e he
    simp only [Bool.and_eq_true, beq_iff_eq] at he
    simp only [Bool.not_eq_true', Bool.and_eq_false_iff, beq_eq_false_iff_ne, ne_eq]
    rw [he.1, he.2]
    by_cases ha : a = pid
    · right; intro hb; exact h ⟨ha, hb⟩
    · left; exact ha

theorem lastGet_lastDropThread (l : Last) (pid tid a b : Nat) :
    lastGet (lastDropThread l pid tid) a b = if a = pid ∧ b = tid then none else lastGet l a b := by
  unfold lastGet lastDropThread
  by_cases h : a = pid ∧ b = tid
  · obtain ⟨rfl, rfl⟩ := h
    simp only [and_self, if_true]
    rw [find?_filter_drop]
    · rfl
    · intro e he; simp only [he, Bool.not_true]
  · simp only [h, if_false]
    rw [find?_filter_keep]
    intro e he
    simp only [Bool.and_eq_true, beq_iff_eq] at he
    simp only [Bool.not_eq_true', Bool.and_eq_false_iff, beq_eq_false_iff_ne, ne_eq]
    rw [he.1, he.2]
    by_cases ha : a = pid
    · right; intro hb; exact h ⟨ha, hb⟩
    · left; exact ha

theorem lastGet_lastDropProc (l : Last) (pid a b : Nat) :
    lastGet (lastDropProc l pid) a b = if a = pid then none else lastGet l a b := by
  unfold lastGet lastDropProc
  by_cases h : a = pid
  · subst h
    simp only [if_true]
    rw [find?_filter_drop]
    · rfl
    · intro e he
      simp only [Bool.and_eq_true, beq_iff_eq] at he
      simp [he.1]
  · simp only [h, if_false]
    rw [find?_filter_keep]
    intro e he
    simp only [Bool.and_eq_true, beq_iff_eq] at he
    simp only [Bool.not_eq_true', beq_eq_false_iff_ne, ne_eq]
    rw [he.1]; exact h

/-! ## the simulation invariant -/

def SamplesOK (r : Bool) (P : List Nat) (T : List (Nat × Nat)) (us : List USample) : Prop :=
  ∀ u ∈ us, u.th < T.length ∧ (r = false → ∃ ph, T[u.th]? = some (ph, u.gtid) ∧ P[ph]? = some u.gpid)

def proj (u : USample) : Nat × Nat × Nat := (u.gpid, u.gtid, u.t)

structure Sim (cfg : Config) (s : St) (st : Last × List Acc) : Prop where
  hcfg : s.cfg = cfg
  inv : InvA s
  sok : SamplesOK s.cfg.reuse (psk s.pents) (tsk s.tents) (buffered s)
  htl : ∀ a b, tl s a b = lastGet st.1 a b
  /-- the recorded (not synthesized) buffered samples are the accepted samples -/
  buf : List.Perm (((buffered s).filter (fun u => !u.synth)).map proj) (st.2.map (fun a => (a.pid, a.tid, a.t - cfg.ref)))
  /-- recorded samples have weight 1 -/
  w1 : ∀ u ∈ buffered s, u.synth = false → u.weight = 1

theorem SamplesOK.mono {r : Bool} {P P' : List Nat} {T T' : List (Nat × Nat)} {us us' : List USample}
    (h : SamplesOK r P T us) (hP : P <+: P') (hT : T <+: T') (hsub : ∀ u ∈ us', u ∈ us) :
    SamplesOK r P' T' us' := by
  intro u hu
  obtain ⟨h1, h2⟩ := h u (hsub u hu)
  refine ⟨Nat.lt_of_lt_of_le h1 hT.length_le, fun hr => ?_⟩
  obtain ⟨ph, h3, h4⟩ := h2 hr
  exact ⟨ph, prefix_getElem? hT h3, prefix_getElem? hP h4⟩

theorem Sim.step {cfg : Config} {s s' : St} {st : Last × List Acc} {l' : Last} (h : Sim cfg s st)
    (g : Good s s') (htl : ∀ a b, tl s' a b = lastGet l' a b) : Sim cfg s' (l', st.2) where
  hcfg := g.cfg.trans h.hcfg
  inv := g.inv
  sok := by
    rw [g.cfg]
    exact h.sok.mono g.extP g.extT (fun u hu => g.buf.mem_iff.mp hu)
  htl := htl
  buf := ((g.buf.filter _).map proj).trans h.buf
  w1 := fun u hu => h.w1 u (g.buf.mem_iff.mp hu)

theorem Sim.goodT {cfg : Config} {s s' : St} {st : Last × List Acc} (h : Sim cfg s st) (g : GoodT s s') :
    Sim cfg s' st :=
  h.step g.toGood (fun a b => (g.tl a b).trans (h.htl a b))

theorem Sim.init (cfg : Config) : Sim cfg (St.init cfg) ([], []) where
  hcfg := rfl
  inv := ⟨List.Pairwise.nil, fun e he => by simp [St.init] at he, fun e he => by simp [St.init, tsk] at he,
    fun e he => by simp [St.init] at he⟩
  sok := fun u hu => by simp [St.init, buffered, bufP] at hu
  htl := fun _ _ => rfl
  buf := List.Perm.refl _
  w1 := fun u hu => by simp [St.init, buffered, bufP] at hu

/-! ## the SAMPLE step -/

theorem ProcOK.thrOf {r : Bool} {P : List Nat} {T : List (Nat × Nat)} {p : ProcC} {tid : Nat} {t : ThreadC}
    (hp : ProcOK r P T p) (ht : thrOf p tid = some t) :
    t.h < T.length ∧ (r = false → T[t.h]? = some (p.h, tid) ∧ P[p.h]? = some p.pid) := by
  unfold Conv.thrOf at ht
  split at ht
  · rename_i htid
    cases ht
    exact ⟨hp.main, fun hr => ⟨by rw [htid]; exact (hp.bind hr).2.1, (hp.bind hr).1⟩⟩
  · have hm := alGet_mem ht
    exact ⟨hp.thr _ hm, fun hr => ⟨(hp.bind hr).2.2 _ hm, (hp.bind hr).1⟩⟩

theorem put_append {s : St} {p p0 : ProcC} {us : List USample} (hinv : InvA s)
    (hget : alGet s.procs p.pid = some p0) (hs : p.samples = p0.samples ++ us)
    (hok : ProcOK s.cfg.reuse (psk s.pents) (tsk s.tents) p) :
    InvA (putProc s p) ∧ List.Perm (buffered (putProc s p)) (buffered s ++ us) := by
  refine ⟨put_inv hinv hok, ?_⟩
  unfold buffered putProc
  simp only
  rw [bufP_alPut, hs]
  refine List.Perm.trans ?_
    (List.Perm.append_right us (List.Perm.append_left _ (bufP_perm_get hinv.nodup hget).symm))
  simp only [List.append_assoc]
  exact List.Perm.append_left _ (List.Perm.append_left _ List.perm_append_comm)

theorem lastOf_putThread (p : ProcC) (tid : Nat) (th : ThreadC) (b : Nat) :
    lastOf (putThread p tid th) b = if b = tid then th.lastTs else lastOf p b := by
  unfold putThread
  by_cases htid : tid = p.pid
  · simp only [htid, if_true]
    unfold lastOf thrOf
    by_cases hb : b = p.pid <;> simp [hb]
  · simp only [htid, if_false]
    exact lastOf_alPut (p := p) (p' := { p with threads := alPut p.threads tid th }) rfl rfl rfl htid b

theorem ProcOK.putThread {r : Bool} {P : List Nat} {T : List (Nat × Nat)} {p : ProcC} {tid : Nat}
    {th th' : ThreadC} (hp : ProcOK r P T p) (ht : Conv.thrOf p tid = some th)
    (hh : th'.h = th.h) : ProcOK r P T (Conv.putThread p tid th') := by
  unfold Conv.putThread
  unfold Conv.thrOf at ht
  by_cases htid : tid = p.pid
  · simp only [htid, if_true] at ht ⊢
    cases ht
    exact hp.congr rfl rfl hh rfl rfl
  · simp only [htid, if_false] at ht ⊢
    refine hp.withThreads rfl rfl rfl (all_alPut hp.thrAll ?_) hp.pool
    have := hp.thrAll (tid, th) (alGet_mem ht)
    simp only at this ⊢
    rw [hh]; exact this

theorem putThread_pid (p : ProcC) (tid : Nat) (th : ThreadC) : (putThread p tid th).pid = p.pid := by
  unfold putThread; split <;> rfl

theorem putThread_samples (p : ProcC) (tid : Nat) (th : ThreadC) : (putThread p tid th).samples = p.samples := by
  unfold putThread; split <;> rfl

theorem commit_spec {s2 : St} {p2 : ProcC} {tid : Nat} {th : ThreadC} (r : ThreadC × List USample × Bool)
    (hinv : InvA s2) (hp2 : alGet s2.procs p2.pid = some p2) (hth : thrOf p2 tid = some th) (hh : r.1.h = th.h) :
    InvA (commitThread s2 p2 tid r) ∧ (commitThread s2 p2 tid r).cfg = s2.cfg ∧
      (commitThread s2 p2 tid r).pents = s2.pents ∧ (commitThread s2 p2 tid r).tents = s2.tents ∧
      List.Perm (buffered (commitThread s2 p2 tid r)) (buffered s2 ++ r.2.1) ∧
      ∀ a b, tl (commitThread s2 p2 tid r) a b = if a = p2.pid ∧ b = tid then r.1.lastTs else tl s2 a b := by
  unfold commitThread
  generalize hb : (s2.bad || !r.2.2) = bad
  have hinv' : InvA { s2 with bad := bad } := hinv
  have hp2' : alGet ({ s2 with bad := bad } : St).procs p2.pid = some p2 := hp2
  generalize hs2 : ({ s2 with bad := bad } : St) = s2' at hinv' hp2'
  have hcfg : s2'.cfg = s2.cfg := by subst hs2; rfl
  have hpe : s2'.pents = s2.pents := by subst hs2; rfl
  have hte : s2'.tents = s2.tents := by subst hs2; rfl
  have hbuf : buffered s2' = buffered s2 := by subst hs2; rfl
  have htl0 : ∀ a b, tl s2' a b = tl s2 a b := by subst hs2; intro a b; rfl
  have hok2 := (hinv'.get hp2').2
  have hpid : (putThread p2 tid r.1).pid = p2.pid := putThread_pid _ _ _
  have hsamp : (putThread p2 tid r.1).samples = p2.samples := putThread_samples _ _ _
  have hokp : ProcOK s2'.cfg.reuse (psk s2'.pents) (tsk s2'.tents) (putThread p2 tid r.1) := hok2.putThread hth hh
  obtain ⟨hinv3, hbuf3⟩ := put_append (us := r.2.1) (p0 := p2) hinv'
    (p := { putThread p2 tid r.1 with samples := (putThread p2 tid r.1).samples ++ r.2.1 })
    (by show alGet s2'.procs (putThread p2 tid r.1).pid = _; rw [hpid]; exact hp2')
    (by show (putThread p2 tid r.1).samples ++ r.2.1 = _; rw [hsamp]) (hokp.congr rfl rfl rfl rfl rfl)
  refine ⟨hinv3, hcfg, hpe, hte, by rw [← hbuf]; exact hbuf3, ?_⟩
  intro a b
  rw [put_tl]
  show (if a = (putThread p2 tid r.1).pid then
      lastOf { putThread p2 tid r.1 with samples := (putThread p2 tid r.1).samples ++ r.2.1 } b else tl s2' a b) = _
  have hl : lastOf { putThread p2 tid r.1 with samples := (putThread p2 tid r.1).samples ++ r.2.1 } b =
      if b = tid then r.1.lastTs else lastOf p2 b :=
    (lastOf_congr (p := putThread p2 tid r.1) rfl rfl rfl b).trans (lastOf_putThread p2 tid _ b)
  rw [hl, hpid, htl0]
  by_cases ha : a = p2.pid
  · subst ha
    by_cases hb' : b = tid
    · simp [hb']
    · simp only [if_true, hb', if_false, and_false]
      unfold tl; rw [tlP_of_get hp2]
  · simp only [ha, if_false, false_and]

theorem filter_synth_append_synth (l us : List USample) (h : ∀ u ∈ us, u.synth = true) :
    (l ++ us).filter (fun u => !u.synth) = l.filter (fun u => !u.synth) := by
  rw [List.filter_append]
  have : us.filter (fun u => !u.synth) = [] := by
    rw [List.filter_eq_nil_iff]; intro u hu; simp [h u hu]
  rw [this, List.append_nil]

/-- a record that only touches the thread object bound to (pid, tid) — keeping handle and `lastTs` — and
emits synthesized samples only keeps the simulation -/
theorem commit_sim {cfg : Config} {s s2 : St} {st : Last × List Acc} (hs2 : Sim cfg s2 st) {p2 : ProcC} {pid tid : Nat}
    {th : ThreadC} (r : ThreadC × List USample × Bool)
    (hp2 : alGet s2.procs pid = some p2) (hpid2 : p2.pid = pid) (hth : thrOf p2 tid = some th)
    (hh : r.1.h = th.h) (hl : r.1.lastTs = th.lastTs)
    (htag : ∀ u ∈ r.2.1, (u.th = th.h ∧ u.gpid = pid ∧ u.gtid = tid) ∧ u.synth = true) :
    Sim cfg (commitThread s2 p2 tid r) st := by
  have _ := s
  obtain ⟨hinv3, hcfg3, hpe3, hte3, hbuf3, htl3⟩ := commit_spec r hs2.inv (by rw [hpid2]; exact hp2) hth hh
  have hok2 := (hs2.inv.get hp2).2
  obtain ⟨hthlt, hthbind⟩ := hok2.thrOf hth
  refine ⟨hcfg3.trans hs2.hcfg, hinv3, ?_, ?_, ?_, ?_⟩
  · rw [hcfg3, hpe3, hte3]
    intro u' hu'
    rcases List.mem_append.mp (hbuf3.mem_iff.mp hu') with hu' | hu'
    · exact hs2.sok u' hu'
    · obtain ⟨⟨e1, e2, e3⟩, _⟩ := htag u' hu'
      rw [e1, e2, e3]
      refine ⟨hthlt, fun hr => ⟨p2.h, ?_⟩⟩
      have := hthbind hr
      rw [hpid2] at this
      exact this
  · intro a b
    refine (htl3 a b).trans ?_
    rw [hpid2]
    by_cases hab : a = pid ∧ b = tid
    · simp only [hab, and_self, if_true]
      rw [hl, ← hs2.htl]; unfold tl; rw [tlP_of_get hp2]; unfold lastOf; rw [hth]; rfl
    · simp only [hab, if_false]
      exact hs2.htl a b
  · refine (((hbuf3.filter _).map proj).trans ?_).trans hs2.buf
    rw [filter_synth_append_synth _ _ (fun u hu => (htag u hu).2)]
  · intro u' hu' hsy
    rcases List.mem_append.mp (hbuf3.mem_iff.mp hu') with hu' | hu'
    · exact hs2.w1 u' hu' hsy
    · rw [(htag u' hu').2] at hsy; cases hsy

theorem step_sample_sim {cfg : Config} {s : St} {st : Last × List Acc} (h : Sim cfg s st)
    (pid tid t : Nat) (km : Bool) (period ip : Nat) (chain : List Nat) :
    Sim cfg (step s (.sample pid tid t km period ip chain)) (accStep st (.sample pid tid t km period ip chain)) := by
  simp only [step, accStep]
  by_cases h0 : tid = 0
  · simp only [h0, if_true]; exact h
  · simp only [h0, if_false]
    have g0 := (skel_cur s t).goodT h.inv
    generalize hgb : getByPid { s with cur := t } pid = r1
    obtain ⟨s1, p1⟩ := r1
    dsimp only
    generalize hgt : getThread s1 p1 tid = r2
    obtain ⟨s2, p2, th⟩ := r2
    dsimp only
    obtain ⟨g1, hp1⟩ := getByPid_spec g0.inv hgb
    have hpid1 := (g1.inv.get hp1).1
    obtain ⟨g2, hp2, hpid2, hth⟩ := getThread_spec g1.inv (by rw [hpid1]; exact hp1) hgt
    rw [hpid1] at hp2 hpid2
    have hs2 := h.goodT ((g0.trans g1).trans g2)
    have htl : lastGet st.1 pid tid = th.lastTs := by
      rw [← hs2.htl]; unfold tl; rw [tlP_of_get hp2]; unfold lastOf; rw [hth]; rfl
    rw [htl]
    by_cases hrep : th.lastTs = some t
    · simp only [hrep, if_true]; exact hs2
    · simp only [hrep, if_false]
      have hok2 := (hs2.inv.get hp2).2
      obtain ⟨hthlt, hthbind⟩ := hok2.thrOf hth
      generalize hr : sampleThread s2 th pid tid t period (sampleStack s2.cfg km ip chain) = r
      obtain ⟨hh, hl, _, pre, u, hout, hpre, hu1, hu2, hu3, hu4, hu5, hu6⟩ :=
        sampleThread_spec s2 th pid tid t period (sampleStack s2.cfg km ip chain)
      rw [hr] at hh hl hout
      obtain ⟨hinv3, hcfg3, hpe3, hte3, hbuf3, htl3⟩ := commit_spec r hs2.inv (by rw [hpid2]; exact hp2) hth hh
      refine ⟨hcfg3.trans hs2.hcfg, hinv3, ?_, ?_, ?_, ?_⟩
      · rw [hcfg3, hpe3, hte3]
        intro u' hu'
        have hbind : ∀ x : USample, x.th = th.h → x.gpid = pid → x.gtid = tid →
            x.th < (tsk s2.tents).length ∧ (s2.cfg.reuse = false → ∃ ph, (tsk s2.tents)[x.th]? = some (ph, x.gtid) ∧
              (psk s2.pents)[ph]? = some x.gpid) := by
          intro x e1 e2 e3
          rw [e1, e2, e3]
          refine ⟨hthlt, fun hr' => ⟨p2.h, ?_⟩⟩
          have := hthbind hr'
          rw [hpid2] at this
          exact this
        rcases List.mem_append.mp (hbuf3.mem_iff.mp hu') with hu' | hu'
        · exact hs2.sok u' hu'
        · rw [hout] at hu'
          rcases List.mem_append.mp hu' with hu' | hu'
          · obtain ⟨⟨e1, e2, e3⟩, _⟩ := hpre u' hu'
            exact hbind u' e1 e2 e3
          · simp only [List.mem_singleton] at hu'
            subst hu'
            exact hbind _ hu1 hu2 hu3
      · intro a b
        refine (htl3 a b).trans ?_
        rw [lastGet_lastSet, hpid2, hl]
        by_cases hab : a = pid ∧ b = tid
        · simp only [hab, and_self, if_true]
        · simp only [hab, if_false]
          exact hs2.htl a b
      · refine ((hbuf3.filter _).map proj).trans ?_
        rw [hout, ← List.append_assoc, List.filter_append, filter_synth_append_synth _ _ (fun x hx => (hpre x hx).2)]
        simp only [List.filter_cons, List.filter_nil, hu4, Bool.not_false, if_true, List.map_append, List.map_cons,
          List.map_nil]
        refine List.Perm.append hs2.buf ?_
        simp only [proj, hu2, hu3, hu5, conv, hs2.hcfg]
        exact List.Perm.refl _
      · intro u' hu' hsy
        rcases List.mem_append.mp (hbuf3.mem_iff.mp hu') with hu' | hu'
        · exact hs2.w1 u' hu' hsy
        · rw [hout] at hu'
          rcases List.mem_append.mp hu' with hu' | hu'
          · rw [(hpre u' hu').2] at hsy; cases hsy
          · simp only [List.mem_singleton] at hu'
            subst hu'; exact hu6

/-- SWITCH records and sched_switch samples: only the thread bound to (pid, tid) and synthesized samples -/
theorem step_cs_sim {cfg : Config} {s : St} {st : Last × List Acc} (h : Sim cfg s st) (pid tid : Nat)
    (f : St → ThreadC → ThreadC × List USample × Bool)
    (hf : ∀ s2 th, (f s2 th).1.h = th.h ∧ (f s2 th).1.lastTs = th.lastTs ∧
      ∀ u ∈ (f s2 th).2.1, (u.th = th.h ∧ u.gpid = pid ∧ u.gtid = tid) ∧ u.synth = true) :
    Sim cfg (let (s1, p) := getByPid s pid
             let (s2, p, th) := getThread s1 p tid
             commitThread s2 p tid (f s2 th)) st := by
  generalize hgb : getByPid s pid = r1
  obtain ⟨s1, p1⟩ := r1
  dsimp only
  generalize hgt : getThread s1 p1 tid = r2
  obtain ⟨s2, p2, th⟩ := r2
  dsimp only
  obtain ⟨g1, hp1⟩ := getByPid_spec h.inv hgb
  have hpid1 := (g1.inv.get hp1).1
  obtain ⟨g2, hp2, hpid2, hth⟩ := getThread_spec g1.inv (by rw [hpid1]; exact hp1) hgt
  rw [hpid1] at hp2 hpid2
  have hs2 := h.goodT (g1.trans g2)
  obtain ⟨a1, a2, a3⟩ := hf s2 th
  exact commit_sim (s := s) hs2 (f s2 th) hp2 hpid2 hth a1 a2 a3

/-! ## the other records -/

theorem step_fork_goodT {s : St} (hinv : InvA s) (pid tid ppid ptid t : Nat) :
    GoodT s (step s (.fork pid tid ppid ptid t)) := by
  simp only [step]
  generalize hgb : getByPid s ppid = r1
  obtain ⟨s1, parent⟩ := r1
  dsimp only
  obtain ⟨g1, hp1⟩ := getByPid_spec hinv hgb
  have hpid1 := (g1.inv.get hp1).1
  split
  · generalize hgn : getNewProc s1 pid parent.name (conv s t) = r2
    obtain ⟨s2, child⟩ := r2
    dsimp only
    obtain ⟨g2, hc⟩ := getNewProc_spec g1.inv hgn
    have hcpid := (g2.inv.get hc).1
    have hcok := (g2.inv.get hc).2
    refine (g1.trans g2).trans (put_goodT g2.inv (p0 := child) ?_ rfl (lastOf_congr rfl rfl rfl)
      (hcok.congr rfl rfl rfl rfl rfl))
    show alGet s2.procs child.pid = some child
    rw [hcpid]; exact hc
  · generalize hgt : getThread s1 parent ptid = r2
    obtain ⟨s2, parent2, pt⟩ := r2
    dsimp only
    obtain ⟨g2, hp2, hpid2, _⟩ := getThread_spec g1.inv (by rw [hpid1]; exact hp1) hgt
    have g3 := getNewThread_spec (name := pt.name) (start := conv s t) (tid := tid) g2.inv
      (by rw [hpid2, hpid1]; rw [hpid1] at hp2; exact hp2)
      (show getNewThread s2 parent2 tid pt.name (conv s t) = (_, _) from rfl)
    exact (g1.trans g2).trans g3

theorem step_exit_sim {cfg : Config} {s : St} {st : Last × List Acc} (h : Sim cfg s st) (pid tid t : Nat) :
    Sim cfg (step s (.exit pid tid t)) (accStep st (.exit pid tid t)) := by
  simp only [step, accStep]
  by_cases hpt : pid = tid
  · subst hpt
    simp only [if_true]
    obtain ⟨g, htl⟩ := removeProc_spec (pid := pid) (time := conv s t) h.inv
    exact h.step g (fun a b => by rw [htl, lastGet_lastDropProc, h.htl])
  · simp only [hpt, if_false]
    cases hb : alGet s.procs pid with
    | none =>
      -- EXIT of a thread of an unknown process: ignored; the specification's table has no entry to drop
      simp only
      refine h.step (Good.refl h.inv) (fun a b => ?_)
      rw [lastGet_lastDropThread, h.htl]
      split
      · next hab =>
        rw [← h.htl, hab.1, hab.2]
        exact tlP_of_none hb tid
      · rfl
    | some p1 =>
      simp only
      have hpid1 := (h.inv.get hb).1
      generalize hrt : removeThread s p1 tid (conv s t) = r2
      obtain ⟨s2, p2⟩ := r2
      dsimp only
      obtain ⟨g2, htl2, _, _⟩ := removeThread_spec h.inv
        (by rw [hpid1]; exact hb) (by rw [hpid1]; exact fun e => hpt e.symm) hrt
      exact h.step g2 (fun a b => by rw [htl2, lastGet_lastDropThread, hpid1, h.htl])

theorem step_comm_sim {cfg : Config} {s : St} {st : Last × List Acc} (h : Sim cfg s st) (pid tid : Nat)
    (name : String) (isExec : Bool) (t : Nat) :
    Sim cfg (step s (.comm pid tid name isExec t)) (accStep st (.comm pid tid name isExec t)) := by
  cases isExec
  · -- plain rename
    simp only [step, accStep, Bool.false_eq_true, if_false]
    by_cases hpt : pid = tid
    · simp only [hpt, if_true]
      exact h.goodT (renameProcess_spec h.inv)
    · simp only [hpt, if_false]
      generalize hgb : getByPid s pid = r1
      obtain ⟨s1, p1⟩ := r1
      dsimp only
      obtain ⟨g1, hp1⟩ := getByPid_spec h.inv hgb
      have hpid1 := (g1.inv.get hp1).1
      exact (h.goodT g1).goodT (renameThread_spec g1.inv (by rw [hpid1]; exact hp1))
  · simp only [step, accStep, if_true]
    generalize conv s (if t = 0 then s.cur else t) = time
    by_cases hpt : pid = tid
    · subst hpt
      simp only [if_true]
      obtain ⟨g, htl⟩ := removeProc_spec (pid := pid) (time := time) h.inv
      have hs1 := h.step g (l' := lastDropProc st.1 pid) (fun a b => by rw [htl, lastGet_lastDropProc, h.htl])
      exact hs1.goodT (getNewProc_spec g.inv
        (show getNewProc (removeProc s pid time) pid (some name) time = (_, _) from rfl)).1
    · simp only [hpt, if_false]
      generalize hgb : getByPid s pid = r1
      obtain ⟨s1, p1⟩ := r1
      dsimp only
      obtain ⟨g1, hp1⟩ := getByPid_spec h.inv hgb
      have hpid1 := (g1.inv.get hp1).1
      have hs1 := h.goodT g1
      generalize hrt : removeThread s1 p1 tid time = r2
      obtain ⟨s2, p2⟩ := r2
      dsimp only
      obtain ⟨g2, htl2, hp2, hpid2⟩ := removeThread_spec g1.inv
        (by rw [hpid1]; exact hp1) (by rw [hpid1]; exact fun e => hpt e.symm) hrt
      have hs2 := hs1.step g2 (l' := lastDropThread st.1 pid tid)
        (fun a b => by rw [htl2, lastGet_lastDropThread, hpid1, hs1.htl])
      exact hs2.goodT (getNewThread_spec g2.inv (by rw [hpid2]; exact hp2)
        (show getNewThread s2 p2 tid (some name) time = (_, _) from rfl))

theorem step_mmap2_goodT {s : St} (hinv : InvA s) (pid tid addr len pgoff : Nat) (exec : Bool) (path : String)
    (t : Nat) : GoodT s (step s (.mmap2 pid tid addr len pgoff exec path t)) := by
  simp -zeta only [step]
  extract_lets sA
  have gA : GoodT s sA := by
    simp only [sA]
    split
    · exact GoodT.refl hinv
    · generalize hgb : getByPid s pid = r1
      obtain ⟨s1, p1⟩ := r1
      dsimp only
      obtain ⟨g1, hp1⟩ := getByPid_spec hinv hgb
      have hpid1 := (g1.inv.get hp1).1
      obtain ⟨g2, _, _, _⟩ := getThread_spec (tid := tid) g1.inv (by rw [hpid1]; exact hp1)
        (show getThread s1 p1 tid = (_, _, _) from rfl)
      exact g1.trans g2
  clear_value sA
  split
  · exact gA
  split
  · exact gA
  · generalize hgb : getByPid sA pid = r1
    obtain ⟨s1, p1⟩ := r1
    dsimp only
    obtain ⟨g1, hp1⟩ := getByPid_spec gA.inv hgb
    have hpid1 := (g1.inv.get hp1).1
    have hok := (g1.inv.get hp1).2
    refine (gA.trans g1).trans (put_goodT g1.inv (p0 := p1) ?_ rfl (lastOf_congr rfl rfl rfl)
      (hok.congr rfl rfl rfl rfl rfl))
    show alGet s1.procs p1.pid = some p1
    rw [hpid1]; exact hp1

theorem step_sim {cfg : Config} {s : St} {st : Last × List Acc} (h : Sim cfg s st) (r : Rec) :
    Sim cfg (step s r) (accStep st r) := by
  cases r with
  | sample pid tid t km period ip chain => exact step_sample_sim h pid tid t km period ip chain
  | fork pid tid ppid ptid t => exact h.goodT (step_fork_goodT h.inv pid tid ppid ptid t)
  | exit pid tid t => exact step_exit_sim h pid tid t
  | comm pid tid name isExec t => exact step_comm_sim h pid tid name isExec t
  | mmap2 pid tid addr len pgoff exec path t =>
    exact h.goodT (step_mmap2_goodT h.inv pid tid addr len pgoff exec path t)
  | switchIn pid tid t =>
    simp only [step, accStep]
    split
    · exact h
    · exact step_cs_sim h pid tid (fun s2 th => wake s2 th (.switchIn t) pid tid)
        (fun s2 th => by obtain ⟨a, b, _, d⟩ := wake_spec s2 th (.switchIn t) pid tid; exact ⟨a, b, d⟩)
  | switchOut pid tid t =>
    simp only [step, accStep]
    split
    · exact h
    · exact step_cs_sim h pid tid (fun s2 th => switchOutThread s2 th t)
        (fun s2 th => ⟨rfl, rfl, fun u hu => by simp [switchOutThread] at hu⟩)
  | sched pid tid t km ip chain =>
    simp only [step, accStep]
    exact step_cs_sim h pid tid (fun s2 th => schedThread s2 th t (sampleStack s2.cfg km ip chain))
      (fun s2 th => by
        obtain ⟨a, b, _, d⟩ := schedThread_spec s2 th t (sampleStack s2.cfg km ip chain)
        exact ⟨a, b, fun u hu => by rw [d] at hu; simp at hu⟩)
  | otherEvent pid tid t km ip chain =>
    -- a sample of another event: the marker item is not a recorded sample (`synth`), the thread is untouched
    simp only [step, accStep]
    exact step_cs_sim h pid tid (fun s2 th => otherEventThread s2 th pid tid t (sampleStack s2.cfg km ip chain))
      (fun s2 th => ⟨rfl, rfl, fun u hu => by
        simp only [otherEventThread, List.mem_singleton] at hu
        subst hu
        exact ⟨⟨rfl, rfl, rfl⟩, rfl⟩⟩)

theorem foldl_sim {cfg : Config} (rs : List Rec) {s : St} {st : Last × List Acc} (h : Sim cfg s st) :
    Sim cfg (rs.foldl step s) (rs.foldl accStep st) := by
  induction rs generalizing s st with
  | nil => exact h
  | cons r rs ih => exact ih (step_sim h r)

theorem run_sim (cfg : Config) (rs : List Rec) : Sim cfg (run cfg rs) (rs.foldl accStep ([], [])) :=
  foldl_sim rs (Sim.init cfg)

end Conv
