import SamplyModel.Lemmas.ProfileTables
import SamplyModel.Model.ProfileSer
/-!
Marker table (C03): the two flat field-value vectors are consumed exactly by the rows' schemas
(`marker_table.rs:149-186`: `split_at` never panics), and every "unique-string" value is a valid
thread string index.
-/
namespace PT

/-- the values of the string-kind fields of one marker: `u` values index the thread's strings,
`s` values the global strings -/
def ValsOk (nStr nG : Nat) (fmts : List Fmt) (vals : List Nat) : Prop :=
  ∀ fv ∈ fmts.zip vals, (fv.1 = .u → fv.2 < nStr) ∧ (fv.1 = .s → fv.2 < nG)

/-- the flat vectors are split exactly by the rows (in row order) -/
def FlatOk (schemas : List Schema) (nStr nG : Nat) : List Nat → List Nat → Nat → Prop
  | [], strs, nums => strs = [] ∧ nums = 0
  | ty :: tys, strs, nums =>
    ∃ sc, schemas[ty]? = some sc ∧ sc.stringCount ≤ strs.length ∧ sc.numberCount ≤ nums ∧
      ValsOk nStr nG (sc.fields.filter (· ≠ .n)) (strs.take sc.stringCount) ∧
      FlatOk schemas nStr nG tys (strs.drop sc.stringCount) (nums - sc.numberCount)

theorem ValsOk.mono {nStr nG nStr' nG' : Nat} {fmts : List Fmt} {vals : List Nat}
    (h : ValsOk nStr nG fmts vals) (h1 : nStr ≤ nStr') (h2 : nG ≤ nG') : ValsOk nStr' nG' fmts vals :=
  fun fv hfv => ⟨fun e => Nat.lt_of_lt_of_le ((h fv hfv).1 e) h1, fun e => Nat.lt_of_lt_of_le ((h fv hfv).2 e) h2⟩

theorem FlatOk.mono {schemas schemas' : List Schema} {nStr nG nStr' nG' : Nat}
    (hs : ∀ (ty : Nat) (sc : Schema), schemas[ty]? = some sc → schemas'[ty]? = some sc) (h1 : nStr ≤ nStr') (h2 : nG ≤ nG') :
    ∀ (tys strs : List Nat) (nums : Nat), FlatOk schemas nStr nG tys strs nums → FlatOk schemas' nStr' nG' tys strs nums
  | [], _, _, h => h
  | ty :: tys, strs, nums, h => by
    obtain ⟨sc, a, b, c, d, e⟩ := h
    exact ⟨sc, hs ty sc a, b, c, d.mono h1 h2, FlatOk.mono hs h1 h2 tys _ _ e⟩

/-- appending a row whose values are appended to the flat vectors -/
theorem FlatOk.append (schemas : List Schema) (nStr nG ty : Nat) (sc : Schema) (new : List Nat)
    (hsc : schemas[ty]? = some sc) (hlen : new.length = sc.stringCount)
    (hv : ValsOk nStr nG (sc.fields.filter (· ≠ .n)) new) :
    ∀ (tys strs : List Nat) (nums : Nat), FlatOk schemas nStr nG tys strs nums →
      FlatOk schemas nStr nG (tys ++ [ty]) (strs ++ new) (nums + sc.numberCount)
  | [], strs, nums, h => by
    obtain ⟨rfl, rfl⟩ := h
    refine ⟨sc, hsc, by simp [hlen], by simp, ?_, ?_⟩
    · simpa [← hlen] using hv
    · simp [FlatOk, ← hlen]
  | ty' :: tys, strs, nums, h => by
    obtain ⟨sc', a, b, c, d, e⟩ := h
    refine ⟨sc', a, by simp; omega, by omega, ?_, ?_⟩
    · rw [List.take_append_of_le_length b]; exact d
    · rw [List.drop_append_of_le_length b]
      have : nums + sc.numberCount - sc'.numberCount = (nums - sc'.numberCount) + sc.numberCount := by omega
      rw [this]
      exact FlatOk.append schemas nStr nG ty sc new hsc hlen hv tys _ _ e

/-- the field loop appends exactly one value per string-kind field -/
theorem markerFields_spec (nG : Nat) :
    ∀ (fields : List Fmt) (vals : List (Nat × Str)) (st : ThreadStrings) (strs : List Nat) (nums : Nat),
      TSInv st → (∀ v ∈ vals, v.1 < nG) → vals.length = (fields.filter (· ≠ .n)).length →
      ∃ st' new, markerFields fields vals st strs nums
          = some (st', strs ++ new, nums + (fields.filter (· = .n)).length) ∧
        TSInv st' ∧ st.n ≤ st'.n ∧ new.length = (fields.filter (· ≠ .n)).length ∧
        ValsOk st'.n nG (fields.filter (· ≠ .n)) new
  | [], vals, st, strs, nums, hs, _, _ => by
    refine ⟨st, [], by simp [markerFields], hs, Nat.le_refl _, rfl, ?_⟩
    intro fv hfv; simp at hfv
  | .n :: fs, vals, st, strs, nums, hs, hv, hl => by
    obtain ⟨st', new, e, a, b, c, d⟩ := markerFields_spec nG fs vals st strs (nums + 1) hs hv (by simpa using hl)
    refine ⟨st', new, ?_, a, b, by simpa using c, by simpa using d⟩
    simp only [markerFields, e]
    simp; omega
  | .u :: fs, [], st, strs, nums, _, _, hl => by simp at hl
  | .s :: fs, [], st, strs, nums, _, _, hl => by simp at hl
  | .u :: fs, (g, s) :: vals, st, strs, nums, hs, hv, hl => by
    have h1 := st.forGlobal_spec g s hs
    obtain ⟨st', new, e, a, b, c, d⟩ := markerFields_spec nG fs vals (st.forGlobal g s).1
      (strs ++ [(st.forGlobal g s).2]) nums h1.1 (fun v hvm => hv v (List.mem_cons_of_mem _ hvm))
      (by simpa using hl)
    refine ⟨st', (st.forGlobal g s).2 :: new, ?_, a, Nat.le_trans h1.2.2 b, by simp [c], ?_⟩
    · simp only [markerFields, e]; simp
    · intro fv hfv
      simp only [ne_eq, reduceCtorEq, not_false_eq_true, decide_true, List.filter_cons_of_pos,
        List.zip_cons_cons, List.mem_cons] at hfv
      rcases hfv with rfl | hfv
      · exact ⟨fun _ => Nat.lt_of_lt_of_le h1.2.1 b, fun e => (by cases e)⟩
      · exact d fv hfv
  | .s :: fs, (g, s) :: vals, st, strs, nums, hs, hv, hl => by
    obtain ⟨st', new, e, a, b, c, d⟩ := markerFields_spec nG fs vals st (strs ++ [g]) nums hs
      (fun v hvm => hv v (List.mem_cons_of_mem _ hvm)) (by simpa using hl)
    refine ⟨st', g :: new, ?_, a, b, by simp [c], ?_⟩
    · simp only [markerFields, e]; simp
    · intro fv hfv
      simp only [ne_eq, reduceCtorEq, not_false_eq_true, decide_true, List.filter_cons_of_pos,
        List.zip_cons_cons, List.mem_cons] at hfv
      rcases hfv with rfl | hfv
      · exact ⟨fun e => (by cases e), fun _ => hv (g, s) List.mem_cons_self⟩
      · exact d fv hfv

def MkInv (nStr nStacks nCats : Nat) (schemas : List Schema) (nG : Nat) (mk : MarkerTable) : Prop :=
  mk.cats.length = mk.names.length ∧ mk.types.length = mk.names.length ∧
  mk.stacks.length = mk.names.length ∧
  (mk.starts.length = mk.names.length ∧ mk.ends.length = mk.names.length ∧ mk.phases.length = mk.names.length) ∧
  AllBelow mk.cats nCats ∧ AllBelow mk.names nStr ∧ OptBelow mk.stacks nStacks ∧
  FlatOk schemas nStr nG mk.types mk.strVals mk.numVals

theorem MkInv.mono {nStr nStacks nCats nG nStr' nStacks' nCats' nG' : Nat} {schemas schemas' : List Schema}
    {mk : MarkerTable} (h : MkInv nStr nStacks nCats schemas nG mk) (h1 : nStr ≤ nStr') (h2 : nStacks ≤ nStacks')
    (h3 : nCats ≤ nCats') (hs : ∀ (ty : Nat) (sc : Schema), schemas[ty]? = some sc → schemas'[ty]? = some sc) (h4 : nG ≤ nG') :
    MkInv nStr' nStacks' nCats' schemas' nG' mk := by
  obtain ⟨a1, a2, a3, a4, a5, a6, a7, a8⟩ := h
  exact ⟨a1, a2, a3, a4, a5.mono h3, a6.mono h1, a7.mono h2, FlatOk.mono hs h1 h4 _ _ _ a8⟩

theorem MarkerTable.add_spec (m : MarkerTable) (name ty : Nat) (schema : Schema) (vals : List (Nat × Str))
    (st : ThreadStrings) (nStacks nCats nG : Nat) (schemas : List Schema)
    (hm : MkInv st.n nStacks nCats schemas nG m) (hs : TSInv st) (hname : name < st.n)
    (hty : schemas[ty]? = some schema) (hcat : schema.cat < nCats) (hv : ∀ v ∈ vals, v.1 < nG)
    (hl : vals.length = schema.stringCount) (tm : MTiming) :
    ∃ m' st' i, m.add name ty schema vals st tm = some (m', st', i) ∧ TSInv st' ∧ st.n ≤ st'.n ∧
      MkInv st'.n nStacks nCats schemas nG m' ∧ i < m'.names.length := by
  obtain ⟨a1, a2, a3, a4, a5, a6, a7, a8⟩ := hm
  obtain ⟨st', new, e, b1, b2, b3, b4⟩ := markerFields_spec nG schema.fields vals st m.strVals m.numVals hs hv hl
  unfold MarkerTable.add
  simp only [e]
  refine ⟨_, _, _, rfl, b1, b2, ?_, by simp; omega⟩
  refine ⟨by simp [a1], by simp [a2], by simp [a3], ⟨by simp [a4.1], by simp [a4.2.1], by simp [a4.2.2]⟩, a5.append_one hcat,
    (a6.mono b2).append_one (Nat.lt_of_lt_of_le hname b2), a7.append_one (by simp), ?_⟩
  exact FlatOk.append schemas st'.n nG ty schema new hty b3 b4 _ _ _
    (FlatOk.mono (fun _ _ h => h) b2 (Nat.le_refl _) _ _ _ a8)

theorem MarkerTable.setStack_spec (m : MarkerTable) (i : Nat) (s : Option Nat)
    (nStr nStacks nCats nG : Nat) (schemas : List Schema) (hm : MkInv nStr nStacks nCats schemas nG m)
    (hs : ∀ v, s = some v → v < nStacks) :
    ∀ m', m.setStack i s = some m' → MkInv nStr nStacks nCats schemas nG m' := by
  intro m' h
  unfold MarkerTable.setStack at h
  split at h
  · cases h
    obtain ⟨a1, a2, a3, a4, a5, a6, a7, a8⟩ := hm
    refine ⟨a1, a2, by simp [a3], a4, a5, a6, ?_, a8⟩
    intro x hx v hv
    rcases List.mem_or_eq_of_mem_set hx with hx | rfl
    · exact a7 x hx v hv
    · exact hs v hv
  · cases h

/-- the data column can be serialized, and every unique-string value is a valid string index of a
marker row -/
theorem markerUstr_spec (schemas : List Schema) (nStr nG : Nat) :
    ∀ (tys strs : List Nat) (nums i : Nat), FlatOk schemas nStr nG tys strs nums →
      ∃ u, markerUstr schemas nG i tys strs nums = some u ∧
        ∀ iv ∈ u, i ≤ iv.1 ∧ iv.1 < i + tys.length ∧ iv.2 < nStr
  | [], strs, nums, i, _ => ⟨[], by simp [markerUstr], by simp⟩
  | ty :: tys, strs, nums, i, h => by
    obtain ⟨sc, a, b, c, d, e⟩ := h
    obtain ⟨u, hu, hub⟩ := markerUstr_spec schemas nStr nG tys _ _ (i + 1) e
    have hno : ((sc.fields.filter (· ≠ .n)).zip (strs.take sc.stringCount)).any
        (fun fv => fv.1 = .s && !decide (fv.2 < nG)) = false := by
      rw [List.any_eq_false]
      intro fv hfv
      have := d fv hfv
      simp only [Bool.and_eq_true, decide_eq_true_eq, Bool.not_eq_true', decide_eq_false_iff_not, not_and,
        Decidable.not_not]
      exact this.2
    refine ⟨(((sc.fields.filter (· ≠ .n)).zip (strs.take sc.stringCount)).filter (·.1 = .u)).map
      (fun fv => (i, fv.2)) ++ u, ?_, ?_⟩
    · simp only [markerUstr, a]
      rw [if_neg (by omega), if_neg (by omega)]
      simp only [hno, Bool.false_eq_true, if_false, hu]
    · intro iv hiv
      simp only [List.mem_append, List.mem_map, List.mem_filter] at hiv
      rcases hiv with ⟨fv, ⟨hfv, hfu⟩, rfl⟩ | hiv
      · refine ⟨Nat.le_refl _, by simp, ?_⟩
        exact (d fv hfv).1 (by simpa using hfu)
      · have := hub iv hiv
        simp only [List.length_cons]
        omega

end PT
