import SamplyModel.Model.BreakpadIndex
import SamplyModel.Lemmas.LineBuffer
/-!
Helper lemmas for C10, part 1: the creator is a function of the line-buffer log (hence of the
concatenated bytes), and `parseSymindex ∘ serialize = id` on well-formed indexes.
-/
namespace BP
open LB (Byte Log)

/-! ### the creator over a list of chunks -/

theorem processLog_append (st : Inner) (a b : Log) :
    processLog st (a ++ b) = (processLog st a).bind (fun s => processLog s b) := by
  induction a generalizing st with
  | nil => simp [processLog]
  | cons p a ih =>
    obtain ⟨off, line⟩ := p
    simp only [List.cons_append, processLog]
    cases h : processLine st off line with
    | none => simp
    | some st' => simp [ih]

theorem consumeAll_eq (c : Creator) (chunks : List (List Byte)) (h : LB.Inv c.lb) :
    c.consumeAll chunks =
      (processLog c.inner (LB.consumeAll c.lb chunks).2).map
        (fun i => ⟨(LB.consumeAll c.lb chunks).1, i⟩) := by
  induction chunks generalizing c with
  | nil => simp [Creator.consumeAll, LB.consumeAll, processLog]
  | cons ch rest ih =>
    obtain ⟨lb, inner⟩ := c
    simp only [Creator.consumeAll, Creator.consume, LB.consumeSafe_of_inv lb h, if_true, LB.consumeAll]
    rw [processLog_append]
    cases hp : processLog inner (LB.consume lb ch).2 with
    | none => simp
    | some i =>
      simp only [Option.bind_some]
      rw [ih ⟨(LB.consume lb ch).1, i⟩ (LB.consume_inv lb ch h)]

theorem consumeAll_inv (c c' : Creator) (chunks : List (List Byte)) (h : LB.Inv c.lb)
    (hc : c.consumeAll chunks = some c') : LB.Inv c'.lb := by
  rw [consumeAll_eq c chunks h] at hc
  cases hp : processLog c.inner (LB.consumeAll c.lb chunks).2 with
  | none => simp [hp] at hc
  | some i =>
    simp [hp] at hc
    subst hc
    exact LB.consumeAll_inv _ _ h

theorem lb_consumeAll_single (st : LB.St) (bs : List Byte) :
    LB.consumeAll st [bs] = LB.consume st bs := by
  simp [LB.consumeAll]

theorem preIndex_chunk_independent (pick : Pick) (chunks : List (List Byte)) :
    preIndex pick chunks = preIndex pick [chunks.flatten] := by
  unfold preIndex
  rw [consumeAll_eq _ _ (by exact LB.inv_init), consumeAll_eq _ _ (by exact LB.inv_init)]
  rw [LB.chunk_independent _ _ (by exact LB.inv_init), lb_consumeAll_single]

theorem index_chunk_independent (pick : Pick) (chunks : List (List Byte)) :
    index pick chunks = index pick [chunks.flatten] := by
  unfold index; rw [preIndex_chunk_independent]

/-! ### little-endian integers -/

theorem u8_toNat_ofNat (n : Nat) (h : n < 256) : (UInt8.ofNat n).toNat = n := by
  simp [UInt8.toNat_ofNat, Nat.mod_eq_of_lt h]

theorem le32_length (n : Nat) : (le32 n).length = 4 := rfl

theorem le64_length (n : Nat) : (le64 n).length = 8 := rfl

theorem take32_le32 (n : Nat) (rest : List Byte) (h : n < pow32) :
    take32 (le32 n ++ rest) = some (n, rest) := by
  simp only [le32, List.cons_append, List.nil_append, take32]
  rw [u8_toNat_ofNat _ (Nat.mod_lt _ (by decide)), u8_toNat_ofNat _ (Nat.mod_lt _ (by decide)),
    u8_toNat_ofNat _ (Nat.mod_lt _ (by decide)), u8_toNat_ofNat _ (Nat.mod_lt _ (by decide))]
  have : n % 256 + 256 * (n / 256 % 256) + 65536 * (n / 65536 % 256) + 16777216 * (n / 16777216 % 256) = n := by
    simp only [pow32] at h
    omega
  rw [this]

theorem take64_le64 (n : Nat) (rest : List Byte) (h : n < pow64) :
    take64 (le64 n ++ rest) = some (n, rest) := by
  have h1 : n % pow32 < pow32 := Nat.mod_lt _ (by decide)
  have h2 : n / pow32 % pow32 < pow32 := Nat.mod_lt _ (by decide)
  simp only [le64, take64, List.append_assoc]
  rw [take32_le32 _ _ h1]
  simp only
  rw [take32_le32 _ _ h2]
  simp only
  have : n % pow32 + pow32 * (n / pow32 % pow32) = n := by
    simp only [pow32, pow64] at *
    omega
  rw [this]

def FEntry.ok (e : FEntry) : Prop := e.index < pow32 ∧ e.lineLen < pow32 ∧ e.offset < pow64
def SymEntry.ok (e : SymEntry) : Prop := e.kind < pow32 ∧ e.len < pow32 ∧ e.offset < pow64

theorem encFEntry_length (e : FEntry) : (encFEntry e).length = 16 := rfl
theorem encSymEntry_length (e : SymEntry) : (encSymEntry e).length = 16 := rfl

theorem decFEntry_enc (e : FEntry) (rest : List Byte) (h : e.ok) :
    decFEntry (encFEntry e ++ rest) = some (e, rest) := by
  obtain ⟨h1, h2, h3⟩ := h
  simp only [encFEntry, decFEntry, List.append_assoc]
  rw [take32_le32 _ _ h1]; simp only
  rw [take32_le32 _ _ h2]; simp only
  rw [take64_le64 _ _ h3]

theorem decSymEntry_enc (e : SymEntry) (rest : List Byte) (h : e.ok) :
    decSymEntry (encSymEntry e ++ rest) = some (e, rest) := by
  obtain ⟨h1, h2, h3⟩ := h
  simp only [encSymEntry, decSymEntry, List.append_assoc]
  rw [take32_le32 _ _ h1]; simp only
  rw [take32_le32 _ _ h2]; simp only
  rw [take64_le64 _ _ h3]

theorem decList_flatMap {α : Type} (dec : List Byte → Option (α × List Byte)) (enc : α → List Byte)
    (l : List α) (rest : List Byte)
    (h : ∀ a ∈ l, ∀ r, dec (enc a ++ r) = some (a, r)) :
    decList dec l.length (l.flatMap enc ++ rest) = some l := by
  induction l with
  | nil => simp [decList]
  | cons a l ih =>
    simp only [List.length_cons, List.flatMap_cons, List.append_assoc, decList]
    rw [h a (by simp)]
    simp only
    rw [ih (fun b hb => h b (by simp [hb]))]

theorem flatMap_length_const {α : Type} (enc : α → List Byte) (k : Nat) (l : List α)
    (h : ∀ a, (enc a).length = k) : (l.flatMap enc).length = l.length * k := by
  induction l with
  | nil => simp
  | cons a l ih => simp [List.flatMap_cons, ih, h, Nat.add_mul, Nat.add_comm]

/-! ### slicing -/

theorem readAt_append (a b : List Byte) (off len : Nat) :
    readAt (a ++ b) (a.length + off) len = readAt b off len := by
  unfold readAt
  simp only [List.length_append]
  have : List.drop (a.length + off) (a ++ b) = List.drop off b := by
    rw [← List.drop_drop]; simp
  rw [this]
  by_cases h : off + len ≤ b.length
  · have : a.length + off + len ≤ a.length + b.length := by omega
    simp [h, this]
  · have : ¬ a.length + off + len ≤ a.length + b.length := by omega
    simp [h, this]

theorem readAt_prefix (a b : List Byte) (n : Nat) (h : n = a.length) :
    readAt (a ++ b) 0 n = some a := by
  subst h
  unfold readAt
  simp

/-! ### header -/

def Header.ok (h : Header) : Prop :=
  h.version < pow32 ∧ h.miOff < pow32 ∧ h.miLen < pow32 ∧ h.fileCount < pow32 ∧ h.fileOff < pow32 ∧
  h.originCount < pow32 ∧ h.originOff < pow32 ∧ h.symCount < pow32 ∧ h.addrOff < pow32 ∧ h.entOff < pow32

theorem encHeader_length (h : Header) : (encHeader h).length = 48 := rfl

theorem tag_append (t rest : List Byte) : tag t (t ++ rest) = some rest := by
  induction t with
  | nil => cases rest <;> simp [tag]
  | cons a t ih => simp [tag, ih]

theorem decHeader_enc (h : Header) (hk : h.ok) : decHeader (encHeader h) = some h := by
  obtain ⟨h1, h2, h3, h4, h5, h6, h7, h8, h9, h10⟩ := hk
  unfold decHeader encHeader
  rw [tag_append]; simp only
  rw [take32_le32 _ _ h1]; simp only
  rw [take32_le32 _ _ h2]; simp only
  rw [take32_le32 _ _ h3]; simp only
  rw [take32_le32 _ _ h4]; simp only
  rw [take32_le32 _ _ h5]; simp only
  rw [take32_le32 _ _ h6]; simp only
  rw [take32_le32 _ _ h7]; simp only
  rw [take32_le32 _ _ h8]; simp only
  rw [take32_le32 _ _ h9]; simp only
  rw [← List.append_nil (le32 h.entOff), take32_le32 _ _ h10]

/-! ### round trip -/

/-- an index whose fields fit their serialized widths and whose module-info block contains a line that
parses as a MODULE record (what `parse_symindex_file` insists on) -/
structure Index.ok (ix : Index) : Prop where
  files : ∀ e ∈ ix.files, e.ok
  origins : ∀ e ∈ ix.origins, e.ok
  addrs : ∀ a ∈ ix.addrs, a < pow32
  entries : ∀ e ∈ ix.entries, e.ok
  module : (deriveModule ix.moduleInfo).isSome = true

theorem serializeSafe_iff (ix : Index) :
    serializeSafe ix = true ↔ totalLen ix < pow32 ∧ ix.addrs.length = ix.entries.length := by
  simp [serializeSafe]

theorem parse_serialize (ix : Index) (hok : ix.ok) (hs : serializeSafe ix = true) :
    parseSymindex (serialize ix) = some ix := by
  obtain ⟨hT, hlen⟩ := (serializeSafe_iff ix).1 hs
  obtain ⟨mi, files, origins, addrs, entries⟩ := ix
  simp only at hlen
  -- abbreviations for the segments
  generalize hH : encHeader (layout ⟨mi, files, origins, addrs, entries⟩) = H
  generalize hP : List.replicate (padLen mi.length) (0 : Byte) = P
  generalize hF : files.flatMap encFEntry = F
  generalize hO : origins.flatMap encFEntry = O
  generalize hA : addrs.flatMap le32 = A
  generalize hE : entries.flatMap encSymEntry = E
  have lH : H.length = 48 := by rw [← hH]; rfl
  have lP : P.length = padLen mi.length := by rw [← hP]; simp
  have lF : F.length = files.length * 16 := by rw [← hF]; exact flatMap_length_const _ 16 _ encFEntry_length
  have lO : O.length = origins.length * 16 := by rw [← hO]; exact flatMap_length_const _ 16 _ encFEntry_length
  have lA : A.length = addrs.length * 4 := by rw [← hA]; exact flatMap_length_const _ 4 _ le32_length
  have lE : E.length = entries.length * 16 := by rw [← hE]; exact flatMap_length_const _ 16 _ encSymEntry_length
  have hser : serialize ⟨mi, files, origins, addrs, entries⟩ = H ++ (mi ++ (P ++ (F ++ (O ++ (A ++ E))))) := by
    simp only [serialize, hH, hP, hF, hO, hA, hE]
  simp only [totalLen, layout] at hT
  have hlay : layout ⟨mi, files, origins, addrs, entries⟩ =
      ⟨1, 48, mi.length, files.length, 48 + mi.length + padLen mi.length, origins.length,
       48 + mi.length + padLen mi.length + files.length * 16, addrs.length,
       48 + mi.length + padLen mi.length + files.length * 16 + origins.length * 16,
       48 + mi.length + padLen mi.length + files.length * 16 + origins.length * 16 + addrs.length * 4⟩ := rfl
  have hdec : decHeader H = some (layout ⟨mi, files, origins, addrs, entries⟩) := by
    rw [← hH]
    apply decHeader_enc
    rw [hlay]
    simp only [Header.ok, pow32] at *
    omega
  unfold parseSymindex
  rw [hser]
  rw [readAt_prefix H _ 48 lH.symm]
  simp only [hdec, hlay]
  -- module info
  have e1 : readAt (H ++ (mi ++ (P ++ (F ++ (O ++ (A ++ E)))))) 48 mi.length = some mi := by
    have : (48 : Nat) = H.length + 0 := by omega
    rw [this, readAt_append, readAt_prefix _ _ _ rfl]
  rw [e1]
  simp only [hok.module, Option.isNone_some]
  have c1 : files.length * 16 < pow32 := by simp only [pow32] at *; omega
  have c2 : origins.length * 16 < pow32 := by simp only [pow32] at *; omega
  have c3 : addrs.length * 4 < pow32 := by simp only [pow32] at *; omega
  have c4 : addrs.length * 16 < pow32 := by simp only [pow32] at *; omega
  have e2 : readAt (H ++ (mi ++ (P ++ (F ++ (O ++ (A ++ E)))))) (48 + mi.length + padLen mi.length)
      (files.length * 16) = some F := by
    have : 48 + mi.length + padLen mi.length = H.length + (mi.length + (P.length + 0)) := by omega
    rw [this, readAt_append, readAt_append, readAt_append, readAt_prefix _ _ _ lF.symm]
  have e3 : readAt (H ++ (mi ++ (P ++ (F ++ (O ++ (A ++ E))))))
      (48 + mi.length + padLen mi.length + files.length * 16) (origins.length * 16) = some O := by
    have : 48 + mi.length + padLen mi.length + files.length * 16
        = H.length + (mi.length + (P.length + (F.length + 0))) := by omega
    rw [this, readAt_append, readAt_append, readAt_append, readAt_append, readAt_prefix _ _ _ lO.symm]
  have e4 : readAt (H ++ (mi ++ (P ++ (F ++ (O ++ (A ++ E))))))
      (48 + mi.length + padLen mi.length + files.length * 16 + origins.length * 16) (addrs.length * 4)
        = some A := by
    have : 48 + mi.length + padLen mi.length + files.length * 16 + origins.length * 16
        = H.length + (mi.length + (P.length + (F.length + (O.length + 0)))) := by omega
    rw [this, readAt_append, readAt_append, readAt_append, readAt_append, readAt_append,
      readAt_prefix _ _ _ lA.symm]
  have e5 : readAt (H ++ (mi ++ (P ++ (F ++ (O ++ (A ++ E))))))
      (48 + mi.length + padLen mi.length + files.length * 16 + origins.length * 16 + addrs.length * 4)
      (addrs.length * 16) = some E := by
    have : 48 + mi.length + padLen mi.length + files.length * 16 + origins.length * 16 + addrs.length * 4
        = H.length + (mi.length + (P.length + (F.length + (O.length + (A.length + 0))))) := by omega
    have hl : addrs.length * 16 = E.length := by rw [lE, hlen]
    rw [this, readAt_append, readAt_append, readAt_append, readAt_append, readAt_append, readAt_append]
    unfold readAt
    simp [hl]
  simp only [c1, c2, c3, c4, not_true_eq_false, if_false, e2, e3, e4, e5]
  have d1 : decList decFEntry files.length F = some files := by
    have := decList_flatMap decFEntry encFEntry files [] (fun a ha r => decFEntry_enc a r (hok.files a ha))
    rwa [List.append_nil, hF] at this
  have d2 : decList decFEntry origins.length O = some origins := by
    have := decList_flatMap decFEntry encFEntry origins [] (fun a ha r => decFEntry_enc a r (hok.origins a ha))
    rwa [List.append_nil, hO] at this
  have d3 : decList take32 addrs.length A = some addrs := by
    have := decList_flatMap take32 le32 addrs [] (fun a ha r => take32_le32 a r (hok.addrs a ha))
    rwa [List.append_nil, hA] at this
  have d4 : decList decSymEntry addrs.length E = some entries := by
    have := decList_flatMap decSymEntry encSymEntry entries [] (fun a ha r => decSymEntry_enc a r (hok.entries a ha))
    rwa [List.append_nil, hE, ← hlen] at this
  rw [d1, d2, d3, d4]
  have hm : (deriveModule mi).isNone = false := by
    have := hok.module
    simp only at this
    cases h : deriveModule mi <;> simp_all
  simp [hm]

end BP
