import SamplyModel.Model.BreakpadSpec
import SamplyModel.Lemmas.BreakpadCreator
/-!
Helper lemmas for C10, part 6: with distinct keys, `sort_unstable + dedup` (whatever the tie-break
oracle) and the `SortedVecBuilder` give the list sorted by key — `BPS.sortBy`.
-/
namespace BPS
open BP

theorem insertBy_perm {α : Type} (key : α → Nat) (x : α) (l : List α) : (insertBy key x l).Perm (x :: l) := by
  induction l with
  | nil => exact List.Perm.refl _
  | cons y ys ih =>
    simp only [insertBy]
    split
    · exact List.Perm.refl _
    · exact (List.Perm.cons y ih).trans (List.Perm.swap x y ys)

theorem sortBy_perm {α : Type} (key : α → Nat) (l : List α) : (sortBy key l).Perm l := by
  induction l with
  | nil => exact List.Perm.refl _
  | cons x xs ih => exact (insertBy_perm key x _).trans (List.Perm.cons x ih)

theorem mem_sortBy {α : Type} (key : α → Nat) (l : List α) (x : α) : x ∈ sortBy key l ↔ x ∈ l :=
  (sortBy_perm key l).mem_iff

theorem insertBy_sorted {α : Type} (key : α → Nat) (x : α) (l : List α)
    (h : l.Pairwise (fun a b => key a ≤ key b)) : (insertBy key x l).Pairwise (fun a b => key a ≤ key b) := by
  induction l with
  | nil => simp [insertBy]
  | cons y ys ih =>
    simp only [insertBy]
    have hy := List.pairwise_cons.1 h
    split
    · rename_i hle
      refine List.pairwise_cons.2 ⟨?_, h⟩
      intro z hz
      rcases List.mem_cons.1 hz with e | e
      · subst e; exact hle
      · exact Nat.le_trans hle (hy.1 z e)
    · rename_i hgt
      refine List.pairwise_cons.2 ⟨?_, ih hy.2⟩
      intro z hz
      rcases List.mem_cons.1 ((insertBy_perm key x ys).mem_iff.1 hz) with e | e
      · subst e; omega
      · exact hy.1 z e

theorem sortBy_sorted {α : Type} (key : α → Nat) (l : List α) :
    (sortBy key l).Pairwise (fun a b => key a ≤ key b) := by
  induction l with
  | nil => simp [sortBy]
  | cons x xs ih => exact insertBy_sorted key x _ ih

theorem sortBy_strict {α : Type} (key : α → Nat) (l : List α) (hnd : (l.map key).Nodup) :
    ((sortBy key l).map key).Pairwise (· < ·) := by
  have hs := sortBy_sorted key l
  have hn : ((sortBy key l).map key).Nodup := ((sortBy_perm key l).map key).nodup_iff.2 hnd
  rw [List.pairwise_map]
  have hn' := List.pairwise_map.1 hn
  exact (hs.and hn').imp (fun ⟨h1, h2⟩ => Nat.lt_of_le_of_ne h1 h2)

/-- two lists that are strictly sorted by `key` and have the same elements are equal -/
theorem eq_of_sorted_of_mem {α : Type} (key : α → Nat) (l1 l2 : List α)
    (h1 : (l1.map key).Pairwise (· < ·)) (h2 : (l2.map key).Pairwise (· < ·))
    (hm : ∀ x, x ∈ l1 ↔ x ∈ l2) : l1 = l2 := by
  induction l1 generalizing l2 with
  | nil =>
    cases l2 with
    | nil => rfl
    | cons b t => exact absurd ((hm b).2 (by simp)) (by simp)
  | cons a t1 ih =>
    cases l2 with
    | nil => exact absurd ((hm a).1 (by simp)) (by simp)
    | cons b t2 =>
      simp only [List.map_cons, List.pairwise_cons, List.mem_map, forall_exists_index, and_imp,
        forall_apply_eq_imp_iff₂] at h1 h2
      have hab : a = b := by
        rcases List.mem_cons.1 ((hm a).1 (by simp)) with e | e
        · exact e
        · rcases List.mem_cons.1 ((hm b).2 (by simp)) with e' | e'
          · exact e'.symm
          · have := h1.1 b e'; have := h2.1 a e; omega
      subst hab
      congr 1
      apply ih t2 h1.2 h2.2
      intro x
      constructor
      · intro hx
        rcases List.mem_cons.1 ((hm x).1 (by simp [hx])) with e | e
        · subst e; have := h1.1 x hx; omega
        · exact e
      · intro hx
        rcases List.mem_cons.1 ((hm x).2 (by simp [hx])) with e | e
        · subst e; have := h2.1 x hx; omega
        · exact e

theorem key_inj_of_nodup {α : Type} (key : α → Nat) (l : List α) (hnd : (l.map key).Nodup) (x y : α)
    (hx : x ∈ l) (hy : y ∈ l) (h : key x = key y) : x = y := by
  induction l with
  | nil => cases hx
  | cons a t ih =>
    simp only [List.map_cons, List.nodup_cons, List.mem_map, not_exists, not_and] at hnd
    rcases List.mem_cons.1 hx with ex | ex <;> rcases List.mem_cons.1 hy with ey | ey
    · rw [ex, ey]
    · subst ex; exact absurd h.symm (hnd.1 y ey)
    · subst ey; exact absurd h (hnd.1 x ex)
    · exact ih hnd.2 ex ey

theorem mem_sortDedup_of_nodup {α : Type} (key off : α → Nat) (pick : Nat → Nat) (l : List α)
    (hnd : (l.map key).Nodup) (x : α) (hx : x ∈ l) : x ∈ sortDedup key off pick l := by
  unfold sortDedup
  rw [List.mem_filterMap]
  refine ⟨key x, (mem_sortedKeys _ _).2 (List.mem_map.2 ⟨x, hx, rfl⟩), ?_⟩
  have hne : (l.filter fun y => key y = key x) ≠ [] := by
    intro e
    have : x ∈ l.filter fun y => key y = key x := List.mem_filter.2 ⟨hx, by simp⟩
    rw [e] at this; cases this
  obtain ⟨c, hc⟩ := choose_isSome off _ (pick (key x)) hne
  have hcm := List.mem_filter.1 (choose_mem _ _ _ _ hc)
  have : c = x := key_inj_of_nodup key l hnd c x hcm.1 hx (by simpa using hcm.2)
  rw [hc, this]

theorem sortDedup_eq_sortBy {α : Type} (key off : α → Nat) (pick : Nat → Nat) (l : List α)
    (hnd : (l.map key).Nodup) : sortDedup key off pick l = sortBy key l := by
  apply eq_of_sorted_of_mem key
  · exact sortDedup_sorted key off pick l
  · exact sortBy_strict key l hnd
  · intro x
    rw [mem_sortBy]
    exact ⟨mem_sortDedup _ _ _ _ _, mem_sortDedup_of_nodup key off pick l hnd x⟩

/-! ### `SortedVecBuilder` with distinct indexes -/

/-- in sorted mode `last` is the index of an element that was pushed -/
def SVBLast (b : SVB) : Prop := b.sorted = true → ∀ l, b.last = some l → ∃ e ∈ b.inner, e.index = l

theorem push_new (b : SVB) (e : FEntry) (h : SVBLast b) (hnew : ∀ x ∈ b.inner, x.index ≠ e.index) :
    (b.push e).inner = b.inner ++ [e] ∧ SVBLast (b.push e) := by
  unfold SVB.push
  by_cases hs : b.sorted = true
  · simp only [hs, if_true]
    cases hl : b.last with
    | none =>
      simp only
      refine ⟨by first | rfl | trivial, ?_⟩
      intro _ l hl'
      simp only [Option.some.injEq] at hl'
      exact ⟨e, by simp, hl'⟩
    | some l =>
      simp only
      split
      · refine ⟨by first | rfl | trivial, ?_⟩
        intro _ l' hl'
        simp only [Option.some.injEq] at hl'
        exact ⟨e, by simp, hl'⟩
      · split
        · rename_i heq
          obtain ⟨x, hx, hxl⟩ := h hs l hl
          exact absurd (hxl.trans heq.symm) (hnew x hx)
        · refine ⟨by first | rfl | trivial, ?_⟩
          intro hc; cases hc
  · simp only [hs]
    refine ⟨by first | rfl | trivial, ?_⟩
    intro hc
    simp at hc

theorem foldl_push_inner (es : List FEntry) (b : SVB) (h : SVBLast b)
    (hnd : ((b.inner ++ es).map (·.index)).Nodup) :
    (es.foldl SVB.push b).inner = b.inner ++ es := by
  induction es generalizing b with
  | nil => simp
  | cons e es ih =>
    simp only [List.foldl_cons]
    have hnew : ∀ x ∈ b.inner, x.index ≠ e.index := by
      intro x hx heq
      simp only [List.map_append, List.map_cons] at hnd
      have := (List.nodup_append.1 hnd).2.2 x.index (List.mem_map.2 ⟨x, hx, rfl⟩) e.index (by simp)
      exact this heq
    obtain ⟨h1, h2⟩ := push_new b e h hnew
    rw [ih (b.push e) h2 (by rw [h1]; simpa using hnd), h1]
    simp

theorem SVB.foldl_inv (es : List FEntry) (b : SVB) (h : b.Inv) : (es.foldl SVB.push b).Inv := by
  induction es generalizing b with
  | nil => exact h
  | cons e es ih => exact ih _ (SVB.push_inv b e h)

theorem intoSorted_foldl_push (pick : Nat → Nat) (es : List FEntry) (hnd : (es.map (·.index)).Nodup) :
    (es.foldl SVB.push SVB.init).intoSorted pick = sortBy (·.index) es := by
  have hin : (es.foldl SVB.push SVB.init).inner = es := by
    have := foldl_push_inner es SVB.init (by intro _ l hl; simp [SVB.init] at hl) (by simpa [SVB.init] using hnd)
    simpa [SVB.init] using this
  have hinv := SVB.foldl_inv es SVB.init SVB.init_inv
  unfold SVB.intoSorted
  split
  · rename_i hs
    rw [hin]
    apply eq_of_sorted_of_mem (·.index)
    · have := (hinv hs).1; rwa [hin] at this
    · exact sortBy_strict _ _ hnd
    · intro x; rw [mem_sortBy]
  · rw [hin]
    exact sortDedup_eq_sortBy _ _ _ _ hnd

end BPS
