import SamplyModel.Lemmas.ProfileFrames
/-!
Preservation of `TInv` by the remaining operations (stacks, samples, markers, processes, threads,
counters, …) and the step theorem `step_TInv`.
-/
namespace PT

/-- general re-establishment of `TInv` after the global tables have grown: every thread is an old
thread or satisfies the thread invariant for the new bounds -/
theorem TInv.of {p p' : P} (h : TInv p) (hle : GB.le p.gb p'.gb) (hl : LibsInv p'.libs)
    (hg : StrInv p'.gstrings) (hth : ∀ t ∈ p'.threads, t ∈ p.threads ∨ ThreadInv p'.gb t)
    (hsub : ∀ c, c < p'.cats.length → 0 < subCount p'.cats c)
    (hsc : ∀ sc ∈ p'.schemas, sc.cat < p'.cats.length) (hst : MapBelow p'.staticTypes p'.schemas.length)
    (hmaps : ∀ pr ∈ p'.processes, ∀ m ∈ pr.maps, m.lib < p'.libs.all.length)
    (hcnt : ∀ c ∈ p'.counters, ∃ pr, p'.processes[c.process]? = some pr ∧ pr.pid = c.pid)
    (hvis : AllBelow p'.visible p'.threads.length) (hsel : AllBelow p'.selected p'.threads.length)
    (hkeq : p'.kmaps = p.kmaps := by rfl) (hall : p.libs.all.length ≤ p'.libs.all.length := by exact Nat.le_refl _) :
    TInv p' :=
  ⟨hl, hg, fun t ht => (hth t ht).elim (fun ho => (h.threads t ho).mono hle) id, hsub,
   Nat.lt_of_lt_of_le h.catsPos hle.2.2.1, hsc, hst, hmaps, hcnt, hvis, hsel,
   fun m hm => Nat.lt_of_lt_of_le (h.kmaps m (hkeq ▸ hm)) hall⟩

/-! ### thread-local updates -/

theorem ThreadInv.setStacks {g : GB} {th : Thread} (h : ThreadInv g th) (st' : StackTable)
    (hs : StInv th.frames.keys.length st') (hl : th.stacks.prefixes.length ≤ st'.prefixes.length) :
    ThreadInv g { th with stacks := st' } := by
  obtain ⟨a1, a2, a3, a4, a5, a6, a7, a8, a9, a10⟩ := h
  exact ⟨a1, a2, a3, hs, a5.mono hl, fun s hs' => Nat.lt_of_lt_of_le (a6 s hs') hl, a7,
    a8.mono (Nat.le_refl _) hl (Nat.le_refl _) (fun _ _ h => h) (Nat.le_refl _), a9,
    fun st hst => (a10 st hst).mono hl⟩

theorem P.frameOk_same {p : P} {t : Nat} {f : TH} (ht : t < p.threads.length) (hf : p.frameOk f = true)
    (he : f.1 = t) : f.2 < (p.threads[t]).frames.keys.length := by
  simp only [P.frameOk, he, P.threads_get ht, decide_eq_true_eq] at hf
  exact hf

theorem P.stackOk_same {p : P} {t : Nat} {f : TH} (ht : t < p.threads.length) (hf : p.stackOk f = true)
    (he : f.1 = t) : f.2 < (p.threads[t]).stacks.prefixes.length := by
  simp only [P.stackOk, he, P.threads_get ht, decide_eq_true_eq] at hf
  exact hf

theorem P.stack_TInv (p : P) (h : TInv p) (t : Nat) (frame : TH) (parent : Option TH)
    (ht : t < p.threads.length) (hf : p.frameOk frame = true) (hp : p.optStackOk parent = true) :
    TInv (p.stack t frame parent).1 ∧ (p.stack t frame parent).2 ≠ .bug := by
  have hth := h.thread (P.threads_get ht)
  unfold P.stack
  simp only [P.threads_get ht]
  cases parent with
  | none =>
    simp only
    by_cases hft : frame.1 ≠ t
    · rw [if_pos hft]; exact ⟨h, by simp⟩
    · rw [if_neg hft]
      have hfi := P.frameOk_same ht hf (Decidable.of_not_not hft)
      have h1 := (p.threads[t]).stacks.indexFor_spec none frame.2 _ hth.2.2.2.1 (by intro q hq; cases hq) hfi
      exact ⟨h.setThread t _ (hth.setStacks _ h1.1 h1.2.2), by simp⟩
  | some par =>
    obtain ⟨pt, pi⟩ := par
    simp only
    by_cases hpt : pt ≠ t
    · rw [if_pos hpt]; exact ⟨h, by simp⟩
    · rw [if_neg hpt]
      by_cases hft : frame.1 ≠ t
      · rw [if_pos hft]; exact ⟨h, by simp⟩
      · rw [if_neg hft]
        have hfi := P.frameOk_same ht hf (Decidable.of_not_not hft)
        have hpi := P.stackOk_same (f := (pt, pi)) ht hp (Decidable.of_not_not hpt)
        have h1 := (p.threads[t]).stacks.indexFor_spec (some pi) frame.2 _ hth.2.2.2.1
          (by intro q hq; cases hq; exact hpi) hfi
        exact ⟨h.setThread t _ (hth.setStacks _ h1.1 h1.2.2), by simp⟩

theorem stackFramesLoop_spec (t nFrames : Nat) :
    ∀ (frames : List TH) (st : StackTable) (pre : Option Nat), StInv nFrames st →
      (∀ q, pre = some q → q < st.prefixes.length) → (∀ f ∈ frames, f.1 = t → f.2 < nFrames) →
      StInv nFrames (stackFramesLoop t st pre frames).1 ∧
      st.prefixes.length ≤ (stackFramesLoop t st pre frames).1.prefixes.length
  | [], st, pre, hs, _, _ => ⟨hs, Nat.le_refl _⟩
  | f :: fs, st, pre, hs, hp, hf => by
    unfold stackFramesLoop
    by_cases hft : f.1 ≠ t
    · rw [if_pos hft]; exact ⟨hs, Nat.le_refl _⟩
    · rw [if_neg hft]
      have h1 := st.indexFor_spec pre f.2 nFrames hs hp (hf f List.mem_cons_self (Decidable.of_not_not hft))
      have h2 := stackFramesLoop_spec t nFrames fs (st.indexFor pre f.2).1 (some (st.indexFor pre f.2).2) h1.1
        (by intro q hq; cases hq; exact h1.2.1) (fun g hg => hf g (List.mem_cons_of_mem _ hg))
      exact ⟨h2.1, Nat.le_trans h1.2.2 h2.2⟩

theorem P.stackFrames_TInv (p : P) (h : TInv p) (t : Nat) (frames : List TH) (ht : t < p.threads.length)
    (hf : frames.all p.frameOk = true) :
    TInv (p.stackFrames t frames).1 ∧ (p.stackFrames t frames).2 ≠ .bug := by
  have hth := h.thread (P.threads_get ht)
  unfold P.stackFrames
  simp only [P.threads_get ht]
  have h1 := stackFramesLoop_spec t (p.threads[t]).frames.keys.length frames (p.threads[t]).stacks none
    hth.2.2.2.1 (by intro q hq; cases hq)
    (by
      intro f hfm he
      rw [List.all_eq_true] at hf
      exact P.frameOk_same ht (hf f hfm) he)
  have hT := h.setThread t _ (hth.setStacks _ h1.1 h1.2)
  cases hr : stackFramesLoop t (p.threads[t]).stacks none frames with
  | mk st res =>
    rw [hr] at hT
    cases res with
    | none => exact ⟨hT, by simp⟩
    | some o =>
      cases o with
      | none => exact ⟨hT, by simp⟩
      | some i => exact ⟨hT, by simp⟩

theorem stackArg_spec {p : P} {t : Nat} (ht : t < p.threads.length) {stack : Option TH}
    (hs : p.optStackOk stack = true) {si : Option Nat} (h : stackArg t stack = some si) :
    ∀ v, si = some v → v < (p.threads[t]).stacks.prefixes.length := by
  cases stack with
  | none =>
    simp only [stackArg, Option.some.injEq] at h
    subst h
    intro v hv; cases hv
  | some s =>
    obtain ⟨st, i⟩ := s
    simp only [stackArg] at h
    by_cases hst : st ≠ t
    · rw [if_pos hst] at h; cases h
    · rw [if_neg hst] at h
      simp only [Option.some.injEq] at h
      subst h
      intro v hv
      simp only [Option.some.injEq] at hv
      subst hv
      exact P.stackOk_same (f := (st, i)) ht hs (Decidable.of_not_not hst)

theorem P.sample_TInv (p : P) (h : TInv p) (t : Nat) (stack : Option TH) (z : Bool)
    (ht : t < p.threads.length) (hs : p.optStackOk stack = true) :
    TInv (p.sample t stack z).1 ∧ (p.sample t stack z).2 ≠ .bug := by
  have hth := h.thread (P.threads_get ht)
  unfold P.sample
  cases hsa : stackArg t stack with
  | none => exact ⟨h, by simp⟩
  | some si =>
    simp only [P.threads_get ht]
    have hsi := stackArg_spec ht hs hsa
    refine ⟨h.setThread t _ ?_, by simp⟩
    obtain ⟨a1, a2, a3, a4, a5, a6, a7, a8, a9, a10⟩ := hth
    exact ⟨a1, a2, a3, a4, a5.append_one hsi, hsi, fun _ => by simp, a8, a9, a10⟩

theorem P.sameSample_TInv (p : P) (h : TInv p) (t : Nat) (ht : t < p.threads.length) :
    TInv (p.sameSample t).1 ∧ (p.sameSample t).2 ≠ .bug := by
  have hth := h.thread (P.threads_get ht)
  unfold P.sameSample
  simp only [P.threads_get ht]
  obtain ⟨a1, a2, a3, a4, a5, a6, a7, a8, a9, a10⟩ := hth
  by_cases hz : (p.threads[t]).lastZeroCpu = true
  · rw [if_pos hz]
    have hne := a7 hz
    have : (p.threads[t]).samples.isEmpty = false := by
      cases hsm : (p.threads[t]).samples with
      | nil => exact absurd hsm hne
      | cons x xs => rfl
    simp only [this]
    exact ⟨h, by simp⟩
  · rw [if_neg hz]
    refine ⟨h.setThread t _ ?_, by simp⟩
    exact ⟨a1, a2, a3, a4, a5.append_one a6, a6, fun _ => by simp, a8, a9, a10⟩

/-- allocation samples: under `allocFirst` the stack index belongs to the thread that stores it -/
theorem P.allocSample_TInv (p : P) (h : TInv p) (t : Nat) (stack : Option TH) (ht : t < p.threads.length)
    (hs : p.optStackOk stack = true) (hf : allocFirst p (.allocSample t stack) = true) :
    TInv (p.allocSample t stack).1 := by
  unfold P.allocSample
  simp only [P.threads_get ht]
  split
  · exact h
  · rename_i pr hpr
    split
    · exact h
    · rename_i first hfirst
      cases hsa : stackArg t stack with
      | none => exact h
      | some si =>
        simp only
        split
        · exact h
        · rename_i ft hft
          have hth := h.thread hft
          refine h.setThread _ _ ?_
          obtain ⟨a1, a2, a3, a4, a5, a6, a7, a8, a9, a10⟩ := hth
          refine ⟨a1, a2, a3, a4, a5, a6, a7, a8, a9, ?_⟩
          intro st hst
          simp only [Option.some.injEq] at hst
          subst hst
          have hold : OptBelow (ft.allocs.getD []) ft.stacks.prefixes.length := by
            cases hal : ft.allocs with
            | none => exact fun _ hx => (nomatch hx)
            | some l => exact a10 l hal
          refine hold.append_one ?_
          intro v hv
          cases stack with
          | none =>
            simp only [stackArg, Option.some.injEq] at hsa
            subst hsa; cases hv
          | some sh =>
            -- the sample carries a stack: `allocFirst` says the calling thread is the first thread
            simp only [allocFirst, P.threads_get ht, hpr, Option.bind_some, hfirst, beq_iff_eq,
              Option.some.injEq] at hf
            subst hf
            have hft' : ft = p.threads[first] := by
              rw [P.threads_get ht] at hft
              exact (Option.some.inj hft).symm
            rw [hft']
            exact stackArg_spec ht hs hsa v hv

/-! ### markers -/

theorem resolveStrs_spec (p : P) : ∀ (gs : List Nat) (vals : List (Nat × Str)),
    resolveStrs p gs = some vals → (∀ v ∈ vals, v.1 < p.gstrings.strings.length) ∧ vals.length = gs.length
  | [], vals, h => by
    simp only [resolveStrs, Option.some.injEq] at h
    subst h
    exact ⟨fun _ hv => (nomatch hv), rfl⟩
  | g :: gs, vals, h => by
    simp only [resolveStrs] at h
    split at h
    · rename_i s r hs hr
      simp only [Option.some.injEq] at h
      subst h
      have ih := resolveStrs_spec p gs r hr
      refine ⟨?_, by simp [ih.2]⟩
      intro v hv
      simp only [List.mem_cons] at hv
      rcases hv with rfl | hv
      · exact (List.getElem?_eq_some_iff.mp hs).1
      · exact ih.1 v hv
    · cases h

theorem P.markerTypeOf_spec (p : P) (h : TInv p) (ty : MType) (p1 : P) (hh : Nat)
    (e : p.markerTypeOf ty = some (p1, hh)) :
    TInv p1 ∧ p1.threads = p.threads ∧ p1.gstrings = p.gstrings ∧ hh < p1.schemas.length := by
  cases ty with
  | runtime k =>
    simp only [P.markerTypeOf] at e
    split at e
    · simp only [Option.some.injEq, Prod.mk.injEq] at e
      obtain ⟨rfl, rfl⟩ := e
      rename_i hk
      exact ⟨h, rfl, rfl, hk⟩
    · cases e
  | static k =>
    simp only [P.markerTypeOf] at e
    split at e
    · rename_i h' hl
      simp only [Option.some.injEq, Prod.mk.injEq] at e
      obtain ⟨rfl, rfl⟩ := e
      exact ⟨h, rfl, rfl, h.statics.lookup hl⟩
    · split at e
      · cases e
      · rename_i tn cn cc fields _
        simp only [Option.some.injEq, Prod.mk.injEq] at e
        obtain ⟨rfl, rfl⟩ := e
        obtain ⟨e1, hle, hpos, hlt⟩ := p.handleForCategory_spec cn cc h.subsPos
        have hr : TInv (p.handleForCategory cn cc).1 := by rw [e1]; exact h.setCats _ hle hpos
        have hthr : (p.handleForCategory cn cc).1.threads = p.threads := by rw [e1]
        have hgs : (p.handleForCategory cn cc).1.gstrings = p.gstrings := by rw [e1]
        refine ⟨?_, hthr, hgs, by simp⟩
        refine hr.of ⟨Nat.le_refl _, fun _ => Nat.le_refl _, Nat.le_refl _, ?_, Nat.le_refl _, Nat.le_refl _⟩
          hr.libs hr.gstr (fun t ht => Or.inl ht) hr.subsPos ?_ ?_ hr.maps hr.counters hr.visible hr.selected
        · intro ty sc hs
          have hs' : (p.handleForCategory cn cc).1.schemas[ty]? = some sc := hs
          have hlt' := (List.getElem?_eq_some_iff.mp hs').1
          show ((p.handleForCategory cn cc).1.schemas ++ _)[ty]? = some sc
          rw [List.getElem?_append_left hlt']; exact hs'
        · intro sc hsc
          simp only [List.mem_append, List.mem_singleton] at hsc
          rcases hsc with hsc | rfl
          · exact hr.schemaCats sc hsc
          · exact hlt
        · intro kv hkv
          simp only [List.mem_cons] at hkv
          rcases hkv with rfl | hkv
          · simp
          · have := hr.statics kv hkv
            simp only [List.length_append, List.length_cons, List.length_nil]
            omega

theorem P.marker_TInv (p : P) (h : TInv p) (t : Nat) (ty : MType) (name : Nat) (strs : List Nat) (tm : MTiming) :
    TInv (p.marker t ty name strs tm).1 ∧ (p.marker t ty name strs tm).2 ≠ .bug := by
  unfold P.marker
  cases hmt : p.markerTypeOf ty with
  | none => exact ⟨h, by simp⟩
  | some r =>
    obtain ⟨p1, hh⟩ := r
    obtain ⟨hp1, hthr, hgs, hlt⟩ := p.markerTypeOf_spec h ty p1 hh hmt
    simp only
    split
    · rename_i th nameStr vals schema hth' hname hvals hsc
      have hth := hp1.thread hth'
      have h1 := th.strings.forGlobal_spec name nameStr hth.1
      have hv := resolveStrs_spec p1 strs vals hvals
      by_cases hlen : vals.length ≠ schema.stringCount
      · rw [if_pos hlen]; exact ⟨h, by simp⟩
      · rw [if_neg hlen]
        obtain ⟨a1, a2, a3, a4, a5, a6, a7, a8, a9, a10⟩ := hth
        obtain ⟨m', st', i, e, hs', hn', hm', _⟩ :=
          th.markers.add_spec (th.strings.forGlobal name nameStr).2 hh schema vals
            (th.strings.forGlobal name nameStr).1 th.stacks.prefixes.length p1.cats.length
            p1.gstrings.strings.length p1.schemas
            (a8.mono h1.2.2 (Nat.le_refl _) (Nat.le_refl _) (fun _ _ h => h) (Nat.le_refl _)) h1.1 h1.2.1
            hsc (hp1.schemaCats schema (List.mem_of_getElem? hsc)) hv.1 (Decidable.of_not_not hlen) tm
        simp only [e]
        refine ⟨hp1.setThread t _ ?_, by simp⟩
        have hnn := Nat.le_trans h1.2.2 hn'
        exact ⟨hs', a2.mono hnn (Nat.le_refl _) (Nat.le_refl _) (fun _ => Nat.le_refl _),
          a3.mono hnn (Nat.le_refl _), a4, a5, a6, a7, hm', a9, a10⟩
    · exact ⟨h, by simp⟩

theorem P.markerStack_TInv (p : P) (h : TInv p) (t m : Nat) (stack : Option TH) (ht : t < p.threads.length)
    (hs : p.optStackOk stack = true) :
    TInv (p.markerStack t m stack).1 ∧ (p.markerStack t m stack).2 ≠ .bug := by
  have hth := h.thread (P.threads_get ht)
  unfold P.markerStack
  cases hsa : stackArg t stack with
  | none => exact ⟨h, by simp⟩
  | some si =>
    simp only [P.threads_get ht]
    have hsi := stackArg_spec ht hs hsa
    cases hm : (p.threads[t]).markers.setStack m si with
    | none => exact ⟨h, by simp⟩
    | some mt =>
      obtain ⟨a1, a2, a3, a4, a5, a6, a7, a8, a9, a10⟩ := hth
      have := (p.threads[t]).markers.setStack_spec m si _ _ _ _ _ a8 hsi mt hm
      exact ⟨h.setThread t _ ⟨a1, a2, a3, a4, a5, a6, a7, this, a9, a10⟩, by simp⟩

/-! ### the step theorem -/

theorem GB.le_of_eq {a b : GB} (h : a = b) : GB.le a b := h ▸ GB.le_refl a

theorem ThreadInv.new (g : GB) (proc : Nat) (tid : IdStr) (start : Nat) (main : Bool) (hp : proc < g.nProcs) :
    ThreadInv g { process := proc, tid := tid, start := start, isMain := main } := by
  refine ⟨⟨⟨fun _ hx => (nomatch hx), fun _ hx => (nomatch hx)⟩, fun _ hx => (nomatch hx)⟩, ?_, ?_, ?_,
    fun _ hx => (nomatch hx),
    (by intro s hs; cases hs), (by intro hz; cases hz), ?_, hp, (by intro st hst; cases hst)⟩
  · exact ⟨⟨rfl, rfl, rfl, rfl, fun _ hx => (nomatch hx), fun _ hx => (nomatch hx), fun _ hx => (nomatch hx)⟩,
      ⟨rfl, fun _ hx => (nomatch hx), fun _ hx => (nomatch hx), fun _ hx => (nomatch hx), fun _ hx => (nomatch hx)⟩,
      rfl, rfl, rfl, rfl, rfl, rfl, rfl, rfl, fun _ hx => (nomatch hx), fun _ hx => (nomatch hx),
      fun _ hx => (nomatch hx), List.nodup_nil,
      ⟨by intro j fk hj; simp at hj, by intro i k hk; simp at hk⟩⟩
  · exact ⟨rfl, rfl, rfl, fun _ hx => (nomatch hx), fun _ hx => (nomatch hx), fun _ hx => (nomatch hx),
      fun _ hx => (nomatch hx), by intro j l a hl; simp at hl⟩
  · exact ⟨rfl, fun _ hx => (nomatch hx), (by intro i q hq; simp at hq), fun _ hx => (nomatch hx), StCanon.empty⟩
  · exact ⟨rfl, rfl, rfl, ⟨rfl, rfl, rfl⟩, fun _ hx => (nomatch hx), fun _ hx => (nomatch hx), fun _ hx => (nomatch hx),
      ⟨rfl, rfl⟩⟩

theorem mappingAdd_libs (maps : List Mapping) (m : Mapping) (maps' : List Mapping)
    (h : mappingAdd maps m = some maps') : ∀ x ∈ maps', x = m ∨ x ∈ maps := by
  unfold mappingAdd at h
  dsimp only at h
  generalize removalStart maps m.start = rs at h
  by_cases hc : m.end_ < rs
  · rw [if_pos hc] at h; cases h
  · rw [if_neg hc] at h
    have h' := Option.some.inj h
    subst h'
    intro x hx
    simp only [List.mem_cons, List.mem_filter] at hx
    rcases hx with rfl | hx
    · exact Or.inl rfl
    · exact Or.inr hx.1.1

theorem step_TInv (p : P) (h : TInv p) (op : Op) (hv : handlesValid p op = true)
    (ha : allocFirst p op = true) : TInv (step p op).1 := by
  cases op with
  | addProcess pid start name =>
    simp only [step]
    refine h.of ⟨Nat.le_refl _, fun _ => Nat.le_refl _, Nat.le_refl _, fun _ _ h => h, Nat.le_refl _, by simp [P.gb]⟩
      h.libs h.gstr (fun t ht => Or.inl ht) h.subsPos h.schemaCats h.statics ?_ ?_ h.visible h.selected
    · intro pr hpr m hm
      simp only [List.mem_append, List.mem_singleton] at hpr
      rcases hpr with hpr | rfl
      · exact h.maps pr hpr m hm
      · cases hm
    · intro c hc
      obtain ⟨pr, hpr, hpid⟩ := h.counters c hc
      exact ⟨pr, by rw [List.getElem?_append_left (List.getElem?_eq_some_iff.mp hpr).1]; exact hpr, hpid⟩
  | addThread proc tid start main =>
    simp only [handlesValid, decide_eq_true_eq] at hv
    simp only [step, List.getElem?_eq_getElem hv]
    refine h.of (GB.le_of_eq (by simp [P.gb])) h.libs h.gstr ?_ h.subsPos h.schemaCats h.statics ?_ ?_ ?_ ?_
    · intro t ht
      simp only [List.mem_append, List.mem_singleton] at ht
      rcases ht with ht | rfl
      · exact Or.inl ht
      · exact Or.inr (ThreadInv.new _ proc _ start main (by simpa [P.gb] using hv))
    · intro pr hpr m hm
      rcases List.mem_or_eq_of_mem_set hpr with hpr | rfl
      · exact h.maps pr hpr m hm
      · exact h.maps _ (List.getElem_mem hv) m hm
    · exact counters_set h.counters (List.getElem?_eq_getElem hv) rfl
    · intro x hx
      simp only [List.length_append, List.length_cons, List.length_nil]
      exact Nat.lt_succ_of_lt (h.visible x hx)
    · intro x hx
      simp only [List.length_append, List.length_cons, List.length_nil]
      exact Nat.lt_succ_of_lt (h.selected x hx)
  | setTid t tid =>
    simp only [handlesValid, decide_eq_true_eq] at hv
    simp only [step, P.threads_get hv]
    refine h.of (GB.le_refl _) h.libs h.gstr ?_ h.subsPos h.schemaCats h.statics h.maps
      h.counters ?_ ?_
    · intro x hx
      rcases List.mem_modify _ _ _ _ hx with hx | ⟨y, hy, rfl⟩
      · exact Or.inl hx
      · exact Or.inr (h.threads y hy)
    · simpa using h.visible
    · simpa using h.selected
  | setName t name =>
    simp only [handlesValid, decide_eq_true_eq] at hv
    simp only [step, P.threads_get hv]
    have hth := h.thread (P.threads_get hv)
    exact h.setThread t _ hth
  | setStart t start =>
    simp only [handlesValid, decide_eq_true_eq] at hv
    simp only [step, P.threads_get hv]
    have hth := h.thread (P.threads_get hv)
    exact h.setThread t _ hth
  | setPName pi name =>
    simp only [handlesValid, decide_eq_true_eq] at hv
    simp only [step, List.getElem?_eq_getElem hv]
    refine h.of (GB.le_of_eq (by simp [P.gb])) h.libs h.gstr (fun t ht => Or.inl ht) h.subsPos h.schemaCats
      h.statics ?_ ?_ h.visible h.selected
    · intro pr hpr m hm
      rcases List.mem_or_eq_of_mem_set hpr with hpr | rfl
      · exact h.maps pr hpr m hm
      · exact h.maps _ (List.getElem_mem hv) m hm
    · exact counters_set h.counters (List.getElem?_eq_getElem hv) rfl
  | setPStart pi start =>
    simp only [handlesValid, decide_eq_true_eq] at hv
    simp only [step, List.getElem?_eq_getElem hv]
    refine h.of (GB.le_of_eq (by simp [P.gb])) h.libs h.gstr (fun t ht => Or.inl ht) h.subsPos h.schemaCats
      h.statics ?_ ?_ h.visible h.selected
    · intro pr hpr m hm
      rcases List.mem_or_eq_of_mem_set hpr with hpr | rfl
      · exact h.maps pr hpr m hm
      · exact h.maps _ (List.getElem_mem hv) m hm
    · exact counters_set h.counters (List.getElem?_eq_getElem hv) rfl
  | addLib name =>
    simp only [step]
    have h1 := p.libs.handleFor_spec name h.libs
    exact h.setLibs _ h1.1 h1.2.2.1 (by rw [h1.2.2.2]; exact Nat.le_refl _)
  | libSyms lib syms =>
    simp only [handlesValid, decide_eq_true_eq] at hv
    simp only [step, hv, if_true]
    exact h.setLibs _ h.libs (Nat.le_refl _) (Nat.le_refl _)
  | addMapping pi lib start end_ rel =>
    simp only [handlesValid, Bool.and_eq_true, decide_eq_true_eq] at hv
    simp only [step, List.getElem?_eq_getElem hv.1, hv.2, if_true]
    cases hm : mappingAdd (p.processes[pi]).maps ⟨start, end_, rel, lib⟩ with
    | none => exact h
    | some maps' =>
      simp only
      refine h.of (GB.le_of_eq (by simp [P.gb])) h.libs h.gstr (fun t ht => Or.inl ht) h.subsPos h.schemaCats
        h.statics ?_ ?_ h.visible h.selected
      · intro pr hpr m hmm
        rcases List.mem_or_eq_of_mem_set hpr with hpr | rfl
        · exact h.maps pr hpr m hmm
        · rcases mappingAdd_libs _ _ _ hm m hmm with rfl | hold
          · exact hv.2
          · exact h.maps _ (List.getElem_mem hv.1) m hold
      · exact counters_set h.counters (List.getElem?_eq_getElem hv.1) rfl
  | addKernelMapping lib start end_ rel =>
    simp only [handlesValid, decide_eq_true_eq] at hv
    simp only [step, hv, if_true]
    cases hm : mappingAdd p.kmaps ⟨start, end_, rel, lib⟩ with
    | none => exact h
    | some maps' =>
      simp only
      refine ⟨h.libs, h.gstr, h.threads, h.subsPos, h.catsPos, h.schemaCats, h.statics, h.maps, h.counters,
        h.visible, h.selected, ?_⟩
      intro m hmm
      rcases mappingAdd_libs _ _ _ hm m hmm with rfl | hold
      · exact hv
      · exact h.kmaps m hold
  | removeKernelMapping start =>
    simp only [step]
    exact ⟨h.libs, h.gstr, h.threads, h.subsPos, h.catsPos, h.schemaCats, h.statics, h.maps, h.counters,
      h.visible, h.selected, fun m hm => h.kmaps m (List.mem_filter.mp hm).1⟩
  | removeMapping pi start =>
    simp only [handlesValid, decide_eq_true_eq] at hv
    simp only [step, List.getElem?_eq_getElem hv]
    refine h.of (GB.le_of_eq (by simp [P.gb])) h.libs h.gstr (fun t ht => Or.inl ht) h.subsPos h.schemaCats
      h.statics ?_ ?_ h.visible h.selected
    · intro pr hpr m hm
      rcases List.mem_or_eq_of_mem_set hpr with hpr | rfl
      · exact h.maps pr hpr m hm
      · exact h.maps _ (List.getElem_mem hv) m (List.mem_filter.mp hm).1
    · exact counters_set h.counters (List.getElem?_eq_getElem hv) rfl
  | clearMappings pi =>
    simp only [handlesValid, decide_eq_true_eq] at hv
    simp only [step, List.getElem?_eq_getElem hv]
    refine h.of (GB.le_of_eq (by simp [P.gb])) h.libs h.gstr (fun t ht => Or.inl ht) h.subsPos h.schemaCats
      h.statics ?_ ?_ h.visible h.selected
    · intro pr hpr m hm
      rcases List.mem_or_eq_of_mem_set hpr with hpr | rfl
      · exact h.maps pr hpr m hm
      · cases hm
    · exact counters_set h.counters (List.getElem?_eq_getElem hv) rfl
  | string s =>
    simp only [step]
    have h1 := p.gstrings.indexFor_spec s h.gstr
    exact h.setGstrings _ h1.1 h1.2.2
  | category name color =>
    simp only [step]
    obtain ⟨e, hle, hpos, _⟩ := p.handleForCategory_spec name color h.subsPos
    rw [e]; exact h.setCats _ hle hpos
  | subcategory c name =>
    simp only [handlesValid, decide_eq_true_eq] at hv
    simp only [step, hv, if_true]
    obtain ⟨e, hle, hpos, _⟩ := p.handleForSubcategory_spec c name h.subsPos
    have : TInv (p.handleForSubcategory c name).1 := by rw [e]; exact h.setCats _ hle hpos
    cases hq : p.handleForSubcategory c name with
    | mk p' r =>
      rw [hq] at this
      cases r <;> exact this
  | frameLabel t str src sc flags =>
    simp only [handlesValid, Bool.and_eq_true, decide_eq_true_eq] at hv
    obtain ⟨⟨⟨ht, hstr⟩, hsrc⟩, hsc⟩ := hv
    simp only [step]
    refine (p.withSub_TInv h sc hsc _ ?_).1
    intro p' c s hp' e hcs
    have e' : p'.threads = p.threads ∧ p'.gstrings = p.gstrings := by rw [e]; exact ⟨rfl, rfl⟩
    refine p'.frameLabel_TInv hp' t str src c s flags (by rw [e'.1]; exact ht)
      (by simpa [P.strOk, e'.2] using hstr) ?_ hcs
    cases src with
    | none => trivial
    | some x =>
      obtain ⟨file, line, col⟩ := x
      simp only at hsrc ⊢
      cases file with
      | none => rfl
      | some g => simpa [P.optStrOk, P.strOk, e'.2] using hsrc
  | frameAddr t a sc flags =>
    simp only [handlesValid, Bool.and_eq_true, decide_eq_true_eq] at hv
    obtain ⟨⟨ht, ha⟩, hsc⟩ := hv
    simp only [step]
    refine (p.withSub_TInv h sc hsc _ ?_).1
    intro p' c s hp' e hcs
    have e' : p'.threads = p.threads ∧ p'.libs = p.libs := by rw [e]; exact ⟨rfl, rfl⟩
    refine p'.frameAddr_TInv hp' t a c s flags (by rw [e'.1]; exact ht) ?_ hcs
    cases a with
    | abs k x => rfl
    | rel k lib x => simpa [P.addrOk, e'.2] using ha
  | nativeSymbol t lib sym =>
    simp only [handlesValid, Bool.and_eq_true, decide_eq_true_eq] at hv
    simp only [step]
    exact (p.nativeSymbol_TInv h t lib sym hv.1 hv.2).1
  | frameSym t a name nsym file line col depth sc flags =>
    simp only [handlesValid, Bool.and_eq_true, decide_eq_true_eq] at hv
    obtain ⟨⟨⟨⟨⟨ht, ha⟩, hname⟩, hns⟩, hfile⟩, hsc⟩ := hv
    simp only [step]
    refine (p.withSub_TInv h sc hsc _ ?_).1
    intro p' c s hp' e hcs
    have e' : p'.threads = p.threads ∧ p'.libs = p.libs ∧ p'.gstrings = p.gstrings := by
      rw [e]; exact ⟨rfl, rfl, rfl⟩
    have hopt : ∀ o, p.optStrOk o = true → p'.optStrOk o = true := by
      intro o ho
      cases o with
      | none => rfl
      | some g => simpa [P.optStrOk, P.strOk, e'.2.2] using ho
    refine p'.frameSym_TInv hp' t a name nsym file line col depth c s flags (by rw [e'.1]; exact ht) ?_
      (hopt _ hname) (by simpa [P.nsymOk, e'.1] using hns) (hopt _ hfile) hcs
    cases a with
    | abs k x => rfl
    | rel k lib x => simpa [P.addrOk, e'.2.1] using ha
  | stack t frame parent =>
    simp only [handlesValid, Bool.and_eq_true, decide_eq_true_eq] at hv
    simp only [step]
    exact (p.stack_TInv h t frame parent hv.1.1 hv.1.2 hv.2).1
  | stackFrames t frames =>
    simp only [handlesValid, Bool.and_eq_true, decide_eq_true_eq] at hv
    simp only [step]
    exact (p.stackFrames_TInv h t frames hv.1 hv.2).1
  | sample t stack z =>
    simp only [handlesValid, Bool.and_eq_true, decide_eq_true_eq] at hv
    simp only [step]
    exact (p.sample_TInv h t stack z hv.1 hv.2).1
  | sameSample t =>
    simp only [handlesValid, decide_eq_true_eq] at hv
    simp only [step]
    exact (p.sameSample_TInv h t hv).1
  | allocSample t stack =>
    simp only [handlesValid, Bool.and_eq_true, decide_eq_true_eq] at hv
    simp only [step]
    exact p.allocSample_TInv h t stack hv.1 hv.2 ha
  | markerType name cat fields =>
    simp only [handlesValid, decide_eq_true_eq] at hv
    simp only [step, hv, if_true]
    refine h.of ⟨Nat.le_refl _, fun _ => Nat.le_refl _, Nat.le_refl _, ?_, Nat.le_refl _, Nat.le_refl _⟩
      h.libs h.gstr (fun t ht => Or.inl ht) h.subsPos ?_ ?_ h.maps h.counters h.visible h.selected
    · intro ty sc hs
      have hs' : p.schemas[ty]? = some sc := hs
      have hlt' := (List.getElem?_eq_some_iff.mp hs').1
      show (p.schemas ++ _)[ty]? = some sc
      rw [List.getElem?_append_left hlt']; exact hs'
    · intro sc hsc
      simp only [List.mem_append, List.mem_singleton] at hsc
      rcases hsc with hsc | rfl
      · exact h.schemaCats sc hsc
      · exact hv
    · exact h.statics.mono (by simp)
  | marker t ty name strs tm =>
    simp only [step]
    exact (p.marker_TInv h t ty name strs tm).1
  | markerStack t m stack =>
    simp only [handlesValid, Bool.and_eq_true, decide_eq_true_eq] at hv
    simp only [step]
    exact (p.markerStack_TInv h t m stack hv.1 hv.2).1
  | counter pi =>
    simp only [handlesValid, decide_eq_true_eq] at hv
    simp only [step, List.getElem?_eq_getElem hv]
    refine h.of (GB.le_refl _) h.libs h.gstr (fun t ht => Or.inl ht) h.subsPos h.schemaCats h.statics h.maps
      ?_ h.visible h.selected
    intro c hc
    simp only [List.mem_append, List.mem_singleton] at hc
    rcases hc with hc | rfl
    · exact h.counters c hc
    · exact ⟨_, List.getElem?_eq_getElem hv, rfl⟩
  | counterSample c =>
    simp only [handlesValid, decide_eq_true_eq] at hv
    simp only [step, List.getElem?_eq_getElem hv]
    refine h.of (GB.le_refl _) h.libs h.gstr (fun t ht => Or.inl ht) h.subsPos h.schemaCats h.statics h.maps
      ?_ h.visible h.selected
    intro c' hc
    rcases List.mem_or_eq_of_mem_set hc with hc | rfl
    · exact h.counters c' hc
    · have := h.counters _ (List.getElem_mem hv)
      exact this
  | visible t =>
    simp only [handlesValid, decide_eq_true_eq] at hv
    simp only [step, hv, if_true]
    exact h.of (GB.le_refl _) h.libs h.gstr (fun t ht => Or.inl ht) h.subsPos h.schemaCats h.statics h.maps
      h.counters (h.visible.append_one hv) h.selected
  | selected t =>
    simp only [handlesValid, decide_eq_true_eq] at hv
    simp only [step, hv, if_true]
    exact h.of (GB.le_refl _) h.libs h.gstr (fun t ht => Or.inl ht) h.subsPos h.schemaCats h.statics h.maps
      h.counters h.visible (h.selected.append_one hv)

end PT
