import SamplyModel.Lemmas.LifeSim
import SamplyModel.Lemmas.ConvThread
/-!
The converter's record handlers preserve the simulation relation of `Lemmas/LifeSim.lean` (C17).
-/
open Conv ConvSpec
namespace LifeL

/-! ### model-side equations -/

theorem uniq_snd (m : List (Nat × Nat)) (id : Nat) : (uniq m id).2 = (alGet m id).getD 0 := by
  unfold uniq; cases alGet m id <;> rfl

theorem uniq_fst_get (m : List (Nat × Nat)) (id k : Nat) :
    (alGet (uniq m id).1 k).getD 0 = (alGet m k).getD 0 + (if id = k then 1 else 0) := by
  unfold uniq
  by_cases h : id = k
  · subst h
    cases hg : alGet m id <;> simp [alGet_alPut_self]
  · have h' : k ≠ id := Ne.symm h
    cases hg : alGet m id <;> simp [alGet_alPut_ne _ _ _ _ h', h]

theorem modifyNth_concat_len {α} (l : List α) (x : α) (f : α → α) :
    modifyNth (l ++ [x]) l.length f = l ++ [f x] := by
  induction l with
  | nil => rfl
  | cons y ys ih => simp [modifyNth, ih]

/-- the common core of `get_by_pid` (unbound pid) and `recycle_or_get_new` (nothing to recycle) -/
def mkProcC (s : St) (pid : Nat) (name : Option String) : ProcC :=
  { pid, h := s.pents.length, name, main := { h := s.tents.length, name } }

def mkProcS (s : St) (pid : Nat) (name : Option String) (start : Nat) : St :=
  { s with usedPids := (uniq s.usedPids pid).1, usedTids := (uniq s.usedTids pid).1,
           pents := s.pents ++ [{ pid, suffix := (uniq s.usedPids pid).2, name := name.getD (pidLabel pid), start }],
           tents := s.tents ++ [{ proc := s.pents.length, tid := pid, suffix := (uniq s.usedTids pid).2, name, start,
                                  isMain := true }],
           procs := alPut s.procs pid (mkProcC s pid name) }

theorem getByPid_none {s : St} {pid : Nat} (h : alGet s.procs pid = none) :
    getByPid s pid = (mkProcS s pid none 0, mkProcC s pid none) := by
  unfold getByPid
  rw [h]
  rfl

theorem getByPid_some {s : St} {pid : Nat} {p : ProcC} (h : alGet s.procs pid = some p) :
    getByPid s pid = (s, p) := by
  unfold getByPid
  rw [h]

theorem getNewProc_none {s : St} {pid : Nat} (h : alGet s.procs pid = none) (hr : s.cfg.reuse = false)
    (name : Option String) (start : Nat) :
    getNewProc s pid name start = (mkProcS s pid name start, mkProcC s pid name) := by
  unfold getNewProc
  rw [h]
  simp only [hr, Bool.false_eq_true, if_false]
  cases name with
  | none => rfl
  | some n =>
    simp only [addProcess, addThread, setTName, setT, putProc, mkProcS, mkProcC]
    rw [modifyNth_concat_len]

def mkThreadC (s : St) (p : ProcC) (tid : Nat) (name : Option String) : ProcC :=
  { p with threads := alPut p.threads tid { h := s.tents.length, name } }

def mkThreadS (s : St) (p : ProcC) (tid : Nat) (name : Option String) (start : Nat) : St :=
  { s with usedTids := (uniq s.usedTids tid).1,
           tents := s.tents ++ [{ proc := p.h, tid, suffix := (uniq s.usedTids tid).2, name, start, isMain := false }],
           procs := alPut s.procs p.pid (mkThreadC s p tid name) }

theorem getThread_main {s : St} {p : ProcC} {tid : Nat} (h : tid = p.pid) : getThread s p tid = (s, p, p.main) := by
  unfold getThread; rw [if_pos h]

theorem getThread_some {s : St} {p : ProcC} {tid : Nat} {t : ThreadC} (h : tid ≠ p.pid)
    (ht : alGet p.threads tid = some t) : getThread s p tid = (s, p, t) := by
  unfold getThread; rw [if_neg h, ht]

theorem getThread_none {s : St} {p : ProcC} {tid : Nat} (h : tid ≠ p.pid) (ht : alGet p.threads tid = none) :
    getThread s p tid = (mkThreadS s p tid none 0, mkThreadC s p tid none, { h := s.tents.length }) := by
  unfold getThread; rw [if_neg h, ht]; rfl

theorem getNewThread_none {s : St} {p : ProcC} {tid : Nat} (h : tid ≠ p.pid) (ht : alGet p.threads tid = none)
    (hr : s.cfg.reuse = false) (name : Option String) (start : Nat) :
    getNewThread s p tid name start = (mkThreadS s p tid name start, mkThreadC s p tid name) := by
  unfold getNewThread
  rw [if_neg h, ht]
  simp only [hr, Bool.false_eq_true, if_false]
  cases name with
  | none => rfl
  | some n =>
    simp only [addThread, setTName, setT, putProc, mkThreadS, mkThreadC]
    rw [modifyNth_concat_len]

/-! ### The table part of the simulation -/

theorem Tab.congr {s s' : St} {l : Life.S} (h : Tab s l) (h1 : s'.cur = s.cur) (h2 : s'.cfg = s.cfg)
    (h3 : s'.pents = s.pents) (h4 : s'.tents = s.tents) (h5 : s'.usedPids = s.usedPids)
    (h6 : s'.usedTids = s.usedTids) : Tab s' l :=
  ⟨h1.trans h.cur, by rw [h2]; exact h.ref, by rw [h2]; exact h.reuse, h3.trans h.pents, h4.trans h.tents,
   by rw [h5]; exact h.upids, by rw [h6]; exact h.utids⟩

theorem Tab.plen {s : St} {l : Life.S} (h : Tab s l) : s.pents.length = l.ps.length := by
  rw [h.pents, List.length_map]

theorem Tab.tlen {s : St} {l : Life.S} (h : Tab s l) : s.tents.length = l.ts.length := by
  rw [h.tents, List.length_map]

theorem countP_concat (l : Life.S) (x : Life.PInc) (ts : List Life.TInc) (k : Nat) :
    Life.countP { l with ps := l.ps ++ [x], ts := ts } k = Life.countP l k + (if x.pid = k then 1 else 0) := by
  simp only [Life.countP, List.filter_append, List.length_append, List.filter_cons, List.filter_nil]
  by_cases h : x.pid = k <;> simp [h]

theorem countT_concat (l : Life.S) (x : Life.TInc) (ps : List Life.PInc) (k : Nat) :
    Life.countT { l with ts := l.ts ++ [x], ps := ps } k = Life.countT l k + (if x.tid = k then 1 else 0) := by
  simp only [Life.countT, List.filter_append, List.length_append, List.filter_cons, List.filter_nil]
  by_cases h : x.tid = k <;> simp [h]

theorem Tab.mkProc {s : St} {l : Life.S} (h : Tab s l) (pid : Nat) (name : Option String) (start : Nat) :
    Tab (mkProcS s pid name start) (Life.newProc l pid name start).1 := by
  simp only [Life.newProc, mkProcS]
  refine ⟨h.cur, h.ref, h.reuse, ?_, ?_, ?_, ?_⟩
  · simp only [List.map_append, List.map_cons, List.map_nil, ← h.pents, pOf, uniq_snd, h.upids]
  · simp only [List.map_append, List.map_cons, List.map_nil, ← h.tents, tOf, uniq_snd, h.utids, h.plen]
  · intro k
    rw [uniq_fst_get, h.upids, countP_concat]
  · intro k
    rw [uniq_fst_get, h.utids, countT_concat]

theorem Tab.mkThread {s : St} {l : Life.S} (h : Tab s l) (p : ProcC) (tid : Nat) (name : Option String)
    (start : Nat) : Tab (mkThreadS s p tid name start) (Life.newThread l p.h tid name start) := by
  simp only [Life.newThread, mkThreadS]
  refine ⟨h.cur, h.ref, h.reuse, h.pents, ?_, h.upids, ?_⟩
  · simp only [List.map_append, List.map_cons, List.map_nil, ← h.tents, tOf, uniq_snd, h.utids]
  · intro k
    have := countT_concat l { pinc := p.h, tid, suffix := Life.countT l tid, name, start, isMain := false } l.ps k
    rw [uniq_fst_get, h.utids]
    exact this.symm

theorem Tab.modT {s : St} {l : Life.S} (h : Tab s l) (k : Nat) (f : TEntry → TEntry) (g : Life.TInc → Life.TInc)
    (hfg : ∀ x, tOf (g x) = f (tOf x)) (hg : ∀ x, (g x).tid = x.tid) :
    Tab (setT s k f) (Life.modT l k g) := by
  simp only [Life.modT, setT]
  refine ⟨h.cur, h.ref, h.reuse, h.pents, ?_, h.upids, ?_⟩
  · simp only [h.tents]
    exact (map_modifyNth _ _ _ _ _ hfg).symm
  · intro k'
    rw [h.utids]
    simp only [Life.countT]
    exact (filter_modifyNth_length _ _ _ _ (fun x => by simp only [hg])).symm

theorem Tab.modP {s : St} {l : Life.S} (h : Tab s l) (k : Nat) (f : PEntry → PEntry) (g : Life.PInc → Life.PInc)
    (hfg : ∀ x, pOf (g x) = f (pOf x)) (hg : ∀ x, (g x).pid = x.pid) :
    Tab (setP s k f) (Life.modP l k g) := by
  simp only [Life.modP, setP]
  refine ⟨h.cur, h.ref, h.reuse, ?_, h.tents, ?_, h.utids⟩
  · simp only [h.pents]
    exact (map_modifyNth _ _ _ _ _ hfg).symm
  · intro k'
    rw [h.upids]
    simp only [Life.countP]
    exact (filter_modifyNth_length _ _ _ _ (fun x => by simp only [hg])).symm

/-! ### removeProc -/

def endE (time : Nat) (e : TEntry) : TEntry := { e with end_ := some time }

theorem foldl_setTEnd (thr : List (Nat × ThreadC)) (s : St) (time : Nat) :
    thr.foldl (fun s e => setTEnd s e.2.h time) s =
      { s with tents := thr.foldl (fun ts e => modifyNth ts e.2.h (endE time)) s.tents } := by
  induction thr generalizing s with
  | nil => rfl
  | cons e es ih => rw [List.foldl_cons, ih]; rfl

theorem foldl_endE_get (thr : List (Nat × ThreadC)) (ts : List TEntry) (time i : Nat) :
    (thr.foldl (fun ts e => modifyNth ts e.2.h (endE time)) ts)[i]? =
      if thr.any (fun e => e.2.h == i) then (ts[i]?).map (endE time) else ts[i]? := by
  induction thr generalizing ts with
  | nil => simp
  | cons e es ih =>
    rw [List.foldl_cons, ih, getElem?_modifyNth]
    by_cases h1 : e.2.h = i
    · simp only [h1, if_pos, List.any_cons, beq_self_eq_true, Bool.true_or]
      split
      · cases ts[i]? <;> simp [endE]
      · rfl
    · have hb : (e.2.h == i) = false := by simpa using h1
      rw [if_neg h1, List.any_cons, hb, Bool.false_or]

theorem removeProc_none {s : St} {pid : Nat} (h : alGet s.procs pid = none) (time : Nat) :
    removeProc s pid time = s := by
  unfold removeProc; rw [h]

theorem removeProc_some {s : St} {pid : Nat} {p : ProcC} (h : alGet s.procs pid = some p)
    (hr : s.cfg.reuse = false) (time : Nat) :
    removeProc s pid time =
      { s with tents := modifyNth (p.threads.foldl (fun ts e => modifyNth ts e.2.h (endE time)) s.tents)
                          p.main.h (endE time),
               pents := modifyNth s.pents p.h (fun e => { e with end_ := some time }),
               parked := if p.samples.isEmpty then s.parked else s.parked ++ [(p.samples, p.mapq, p.pid)],
               procs := alDel s.procs pid } := by
  unfold removeProc
  rw [h]
  simp only [foldl_setTEnd]
  cases hs : p.samples.isEmpty <;> cases hn : p.name <;>
    simp only [setTEnd, setPEnd, setT, setP, hr, Bool.false_eq_true, if_false, if_true, delProc] <;> rfl

/-! ### EXIT / EXEC of a main thread -/

theorem tOf_killT_hit {pi time : Nat} {t : Life.TInc} (h1 : t.alive = true) (h2 : t.pinc = pi) :
    tOf (killT pi time t) = endE time (tOf t) := by
  unfold killT; simp [h1, h2, tOf, endE]

theorem endE_idem (time : Nat) (e : TEntry) : endE time (endE time e) = endE time e := rfl

theorem Sim.endProc {s : St} {l : Life.S} {pid : Nat} {p : ProcC} (h : Sim s l)
    (hb : alGet s.procs pid = some p) (time : Nat) :
    Sim (removeProc s pid time) (Life.endProc l p.h time) := by
  have hok := h.live.ok hb
  rw [removeProc_some hb h.tab.reuse]
  refine ⟨?_, h.live.endProc hb time⟩
  have hE : Life.endProc l p.h time =
      { l with ts := l.ts.map (killT p.h time),
               ps := modifyNth l.ps p.h (fun p => { p with end_ := some time, alive := false }) } := rfl
  rw [hE]
  refine ⟨h.tab.cur, h.tab.ref, h.tab.reuse, ?_, ?_, ?_, ?_⟩
  · simp only [h.tab.pents]
    exact (map_modifyNth _ _ _ _ _ (by intro x; rfl)).symm
  · apply List.ext_getElem?
    intro i
    simp only [getElem?_modifyNth, foldl_endE_get, h.tab.tents, List.getElem?_map]
    cases hti : l.ts[i]? with
    | none => simp
    | some ti =>
      simp only [Option.map_some]
      by_cases hc : ti.alive = true ∧ ti.pinc = p.h
      · rw [tOf_killT_hit hc.1 hc.2]
        obtain ⟨b1, b2⟩ := hok.back i ti hti hc.1 hc.2
        cases hm : ti.isMain with
        | true =>
          rw [if_pos (b1 hm)]
          split <;> simp [endE_idem]
        | false =>
          obtain ⟨t, ht, hh⟩ := b2 hm
          have : p.threads.any (fun e => e.2.h == i) = true := by
            rw [List.any_eq_true]
            exact ⟨_, alGet_eq_some_mem ht, by simp [hh]⟩
          rw [this]
          split <;> simp [endE_idem]
      · have hk : killT p.h time ti = ti := by
          unfold killT; rw [if_neg]; simpa using hc
        rw [hk]
        have h1 : p.main.h ≠ i := by
          intro he
          obtain ⟨tm, htm, a, b, _⟩ := hok.main
          rw [he, hti] at htm; cases htm; exact hc ⟨a, b⟩
        have h2 : p.threads.any (fun e => e.2.h == i) = false := by
          rw [List.any_eq_false]
          intro e he
          obtain ⟨_, te, hte, a, b, _⟩ := hok.thr e.1 e.2 he
          simp only [beq_iff_eq]
          intro he'
          rw [he', hti] at hte; cases hte; exact hc ⟨a, b⟩
        rw [if_neg h1, h2]
        simp
  · intro k
    rw [h.tab.upids]
    simp only [Life.countP]
    exact (filter_modifyNth_length _ _ _ _ (by intro x; rfl)).symm
  · intro k
    rw [h.tab.utids]
    simp only [Life.countT]
    refine (filter_map_length _ _ _ (fun x => ?_)).symm
    unfold killT; split <;> rfl

/-! ### Primitive operations on the whole relation -/

theorem Sim.mkProc {s : St} {l : Life.S} {pid : Nat} (h : Sim s l) (hb : alGet s.procs pid = none)
    (name : Option String) (start : Nat) :
    Sim (mkProcS s pid name start) (Life.newProc l pid name start).1 :=
  ⟨h.tab.mkProc pid name start,
   h.live.newProc hb name start (mkProcC s pid name) rfl h.tab.plen rfl h.tab.tlen rfl rfl⟩

theorem Sim.mkThread {s : St} {l : Life.S} {pid tid : Nat} {p : ProcC} (h : Sim s l)
    (hb : alGet s.procs pid = some p) (hne : tid ≠ pid) (hnb : alGet p.threads tid = none)
    (name : Option String) (start : Nat) :
    Sim (mkThreadS s p tid name start) (Life.newThread l p.h tid name start) := by
  refine ⟨h.tab.mkThread p tid name start, ?_⟩
  have hpid := (h.live.ok hb).pid_eq
  simp only [mkThreadS, hpid]
  exact h.live.newThread hb hne hnb name start { h := s.tents.length, name } rfl rfl rfl rfl rfl h.tab.tlen rfl

theorem Sim.touch {s : St} {l : Life.S} {pid : Nat} {p p' : ProcC} (h : Sim s l)
    (hb : alGet s.procs pid = some p) (e : PEq p p') : Sim (putProc s p') l := by
  refine ⟨h.tab.congr rfl rfl rfl rfl rfl rfl, ?_⟩
  have : p'.pid = pid := e.pid.trans (h.live.ok hb).pid_eq
  simp only [putProc, this]
  exact h.live.touch hb e

theorem Live.of_tables {procs : List (Nat × ProcC)} {l l' : Life.S} (h : Live procs l) (h1 : l'.ps = l.ps)
    (h2 : l'.ts = l.ts) : Live procs l' := by
  refine ⟨fun pid p hp => (h.fwd pid p hp).frame ?_ ?_ ?_, ?_, ?_⟩
  · intro pi hpi; rw [h1]; exact hpi
  · intro i ti hti _; rw [h2]; exact hti
  · intro i ti hti _ _; rw [h2] at hti; exact hti
  · intro j pi hpi hal; rw [h1] at hpi; exact h.backP j pi hpi hal
  · intro i ti hti hal; rw [h2] at hti; rw [h1]; exact h.backT i ti hti hal

theorem Sim.setCur {s : St} {l : Life.S} (h : Sim s l) (t : Nat) :
    Sim { s with cur := t } { l with cur := t } :=
  ⟨⟨rfl, h.tab.ref, h.tab.reuse, h.tab.pents, h.tab.tents, h.tab.upids, h.tab.utids⟩,
   h.live.of_tables rfl rfl⟩

/-! ### get_by_pid / get_thread_by_tid -/

theorem Sim.getByPid {s : St} {l : Life.S} (h : Sim s l) (pid : Nat) :
    Sim (getByPid s pid).1 (Life.ensureProc l pid).1 ∧
    alGet (getByPid s pid).1.procs pid = some (getByPid s pid).2 ∧
    (getByPid s pid).2.h = (Life.ensureProc l pid).2 ∧
    (∀ pid', pid' ≠ pid → alGet (getByPid s pid).1.procs pid' = alGet s.procs pid') ∧
    (∀ p, alGet s.procs pid = some p → (getByPid s pid).2 = p) ∧
    (alGet s.procs pid = none → (getByPid s pid).2.threads = []) := by
  cases hb : alGet s.procs pid with
  | none =>
    have hc := h.live.curProc_unbound hb
    have he : Life.ensureProc l pid = Life.newProc l pid none 0 := by
      unfold Life.ensureProc; rw [hc]
    rw [getByPid_none hb, he]
    refine ⟨h.mkProc hb none 0, alGet_alPut_self _ _ _, h.tab.plen, ?_, ?_, ?_⟩
    · intro pid' hne; exact alGet_alPut_ne _ _ _ _ hne
    · intro p hp; cases hp
    · intro _; rfl
  | some p =>
    have hc := h.live.curProc_bound hb
    have he : Life.ensureProc l pid = (l, p.h) := by
      unfold Life.ensureProc; rw [hc]
    rw [getByPid_some hb, he]
    exact ⟨h, hb, rfl, fun _ _ => rfl, fun p' hp' => by cases hp'; rfl, fun hn => by cases hn⟩

theorem ensureThread_eq {l : Life.S} {pid pi : Nat} (hc : Life.curProc l pid = some pi) (tid : Nat) :
    Life.ensureThread l pid tid =
      match Life.curThread l pi tid with
      | some _ => l
      | none => Life.newThread l pi tid none 0 := by
  unfold Life.ensureThread Life.ensureProc
  rw [hc]
  rfl

theorem Sim.getThread {s : St} {l : Life.S} {pid : Nat} {p : ProcC} (h : Sim s l)
    (hb : alGet s.procs pid = some p) (tid : Nat) :
    Sim (getThread s p tid).1 (Life.ensureThread l pid tid) ∧
    alGet (getThread s p tid).1.procs pid = some (getThread s p tid).2.1 ∧
    (getThread s p tid).2.1.h = p.h ∧
    (if tid = pid then (getThread s p tid).2.2 = (getThread s p tid).2.1.main
      else alGet (getThread s p tid).2.1.threads tid = some (getThread s p tid).2.2) ∧
    (∀ tid', tid' ≠ tid → alGet (getThread s p tid).2.1.threads tid' = alGet p.threads tid') ∧
    (∀ pid', pid' ≠ pid → alGet (getThread s p tid).1.procs pid' = alGet s.procs pid') := by
  have hok := h.live.ok hb
  have hpid := hok.pid_eq
  rw [ensureThread_eq (h.live.curProc_bound hb)]
  by_cases hm : tid = pid
  · rw [getThread_main (hm.trans hpid.symm), hm, hok.curThread_main]
    exact ⟨h, hb, rfl, by simp, fun _ _ => rfl, fun _ _ => rfl⟩
  · have hm' : tid ≠ p.pid := by rw [hpid]; exact hm
    cases ht : alGet p.threads tid with
    | some t =>
      rw [getThread_some hm' ht, hok.curThread_bound ht]
      exact ⟨h, hb, rfl, by simp [hm, ht], fun _ _ => rfl, fun _ _ => rfl⟩
    | none =>
      rw [getThread_none hm' ht, hok.curThread_unbound hm ht]
      refine ⟨h.mkThread hb hm ht none 0, ?_, rfl, ?_, ?_, ?_⟩
      · simp only [mkThreadS, hpid, alGet_alPut_self]
      · simp only [if_neg hm, mkThreadC, alGet_alPut_self]
      · intro tid' hne; simp only [mkThreadC, alGet_alPut_ne _ _ _ _ hne]
      · intro pid' hne; simp only [mkThreadS, hpid, alGet_alPut_ne _ _ _ _ hne]

/-! ### remove / rename -/

theorem modT_id {l : Life.S} {i : Nat} {f : Life.TInc → Life.TInc}
    (h : ∀ x, l.ts[i]? = some x → f x = x) : Life.modT l i f = l := by
  unfold Life.modT; rw [modifyNth_id _ _ _ h]

theorem modP_id {l : Life.S} {i : Nat} {f : Life.PInc → Life.PInc}
    (h : ∀ x, l.ps[i]? = some x → f x = x) : Life.modP l i f = l := by
  unfold Life.modP; rw [modifyNth_id _ _ _ h]

theorem Sim.removeThread {s : St} {l : Life.S} {pid tid : Nat} {p : ProcC} (h : Sim s l)
    (hb : alGet s.procs pid = some p) (hne : tid ≠ pid) (time : Nat) :
    Sim (removeThread s p tid time).1
      (match Life.curThread l p.h tid with
       | some i => Life.endThread l i time
       | none => l) := by
  have hok := h.live.ok hb
  unfold Conv.removeThread
  cases ht : alGet p.threads tid with
  | none => rw [hok.curThread_unbound hne ht]; exact h
  | some t =>
    rw [hok.curThread_bound ht]
    refine ⟨?_, ?_⟩
    · refine (h.tab.modT t.h (fun e => { e with end_ := some time })
        (fun t => { t with end_ := some time, alive := false }) (fun _ => rfl) (fun _ => rfl)).congr
        rfl rfl rfl rfl rfl rfl
    · simp only [putProc, setTEnd, setT, hok.pid_eq]
      exact h.live.endThread hb ht time hok.pid_eq.symm rfl rfl rfl rfl

theorem Sim.renameThread {s : St} {l : Life.S} {pid tid : Nat} {p : ProcC} (h : Sim s l)
    (hb : alGet s.procs pid = some p) (hne : tid ≠ pid) (time : Nat) (name : String) :
    Sim (renameThread s p tid time name)
      (match Life.curThread l p.h tid with
       | none => Life.newThread l p.h tid (some name) time
       | some i => Life.modT l i (fun t => { t with name := some name })) := by
  have hok := h.live.ok hb
  have hne' : tid ≠ p.pid := by rw [hok.pid_eq]; exact hne
  unfold Conv.renameThread
  rw [if_neg hne']
  cases ht : alGet p.threads tid with
  | none =>
    rw [hok.curThread_unbound hne ht, getNewThread_none hne' ht h.tab.reuse]
    exact h.mkThread hb hne ht (some name) time
  | some th =>
    rw [hok.curThread_bound ht]
    obtain ⟨_, ti, hti, _, _, _, _, hn⟩ := hok.thr _ _ (alGet_eq_some_mem ht)
    by_cases hsame : th.name = some name
    · simp only [if_pos hsame]
      rw [modT_id]
      · exact h
      · intro x hx
        rw [hti] at hx; cases hx
        have hnm : ti.name = some name := hn.trans hsame
        cases ti; simp only at hnm; subst hnm; rfl
    · simp only [if_neg hsame, h.tab.reuse, Bool.false_eq_true, if_false]
      refine ⟨?_, ?_⟩
      · exact (h.tab.modT th.h (fun e => { e with name := some name })
          (fun t => { t with name := some name }) (fun _ => rfl) (fun _ => rfl)).congr rfl rfl rfl rfl rfl rfl
      · have hp : putThread p tid { th with name := some name } =
            { p with threads := alPut p.threads tid { th with name := some name } } := by
          unfold Conv.putThread; rw [if_neg hne']
        simp only [putProc, setTName, setT, hp, hok.pid_eq]
        exact h.live.renameThread hb ht name hok.pid_eq.symm rfl rfl rfl rfl rfl rfl

theorem curThread_modP (l : Life.S) (k : Nat) (f : Life.PInc → Life.PInc) (pi tid : Nat) :
    Life.curThread (Life.modP l k f) pi tid = Life.curThread l pi tid := rfl

theorem Sim.renameProcess {s : St} {l : Life.S} (h : Sim s l) (pid time : Nat) (name : String) :
    Sim (renameProcess s pid time name)
      (match Life.curProc l pid with
       | none => (Life.newProc l pid (some name) time).1
       | some pi =>
         match Life.curThread (Life.modP l pi (fun p => { p with name := some name })) pi pid with
         | some i => Life.modT (Life.modP l pi (fun p => { p with name := some name })) i
                       (fun t => { t with name := some name })
         | none => Life.modP l pi (fun p => { p with name := some name })) := by
  unfold Conv.renameProcess
  cases hb : alGet s.procs pid with
  | none =>
    rw [h.live.curProc_unbound hb, getNewProc_none hb h.tab.reuse]
    exact h.mkProc hb (some name) time
  | some p =>
    have hok := h.live.ok hb
    rw [h.live.curProc_bound hb]
    simp only [curThread_modP, hok.curThread_main]
    obtain ⟨pi, hpi, _, _, hpn⟩ := hok.pinc
    obtain ⟨tm, htm, _, _, _, _, htn⟩ := hok.main
    by_cases hsame : p.name = some name
    · simp only [if_pos hsame]
      have e1 : Life.modP l p.h (fun p => { p with name := some name }) = l := by
        apply modP_id
        intro x hx
        rw [hpi] at hx; cases hx
        have hnm : pi.name = some name := hpn.trans hsame
        cases pi; simp only at hnm; subst hnm; rfl
      rw [e1, modT_id]
      · exact h
      · intro x hx
        rw [htm] at hx; cases hx
        have hnm : tm.name = some name := htn.trans (hok.mname.trans hsame)
        cases tm; simp only at hnm; subst hnm; rfl
    · simp only [if_neg hsame, h.tab.reuse, Bool.false_eq_true, if_false]
      refine ⟨?_, ?_⟩
      · exact (((h.tab.modP p.h (fun e => { e with name := name }) (fun p => { p with name := some name })
          (fun _ => rfl) (fun _ => rfl)).modT p.main.h (fun e => { e with name := some name })
          (fun t => { t with name := some name }) (fun _ => rfl) (fun _ => rfl))).congr rfl rfl rfl rfl rfl rfl
      · simp only [putProc, setTName, setPName, setT, setP, hok.pid_eq]
        exact h.live.renameProc hb name hok.pid_eq.symm rfl rfl rfl rfl rfl

/-! ### One record: EXIT -/

/-- the part of the record grammar the refinement needs: a FORK never names a bound child, EXEC only on main threads -/
def forkOk (l : Life.S) : Rec → Prop
  | .fork pid tid ppid ptid _ =>
    if pid ≠ ppid then Life.curProc l pid = none
    else tid ≠ pid ∧ tid ≠ ptid ∧ ∀ pi, Life.curProc l ppid = some pi → Life.curThread l pi tid = none
  | .comm pid tid _ isExec _ => isExec = true → pid = tid
  | _ => True

theorem step_exit (s : St) (pid tid t : Nat) :
    step s (.exit pid tid t) =
      if pid = tid then removeProc s pid (conv s t)
      else match alGet s.procs pid with
        | none => s
        | some p => (removeThread s p tid (conv s t)).1 := rfl

theorem lstep_exit (l : Life.S) (pid tid t : Nat) :
    Life.step l (.exit pid tid t) =
      if pid = tid then
        match Life.curProc l pid with
        | some pi => Life.endProc l pi (Life.conv l t)
        | none => l
      else
        match Life.curProc l pid with
        | none => l
        | some _ =>
          match Life.curThread (Life.ensureProc l pid).1 (Life.ensureProc l pid).2 tid with
          | some i => Life.endThread (Life.ensureProc l pid).1 i (Life.conv l t)
          | none => (Life.ensureProc l pid).1 := by
  by_cases hpt : pid = tid
  · simp only [Life.step, if_pos hpt]; rfl
  · cases hc : Life.curProc l pid with
    | none => simp only [Life.step, if_neg hpt, hc]
    | some pi => simp only [Life.step, if_neg hpt, hc]; rfl

theorem Sim.conv {s : St} {l : Life.S} (h : Sim s l) (t : Nat) : Conv.conv s t = Life.conv l t := by
  unfold Conv.conv Life.conv; rw [h.tab.ref]

theorem getByPid_bound {s : St} {pid : Nat} {p : ProcC} (hb : alGet s.procs pid = some p) :
    getByPid s pid = (s, p) := by
  unfold getByPid; rw [hb]

theorem sim_exit {s : St} {l : Life.S} (h : Sim s l) (pid tid t : Nat) :
    Sim (step s (.exit pid tid t)) (Life.step l (.exit pid tid t)) := by
  rw [step_exit, lstep_exit, h.conv]
  by_cases hpt : pid = tid
  · rw [if_pos hpt, if_pos hpt]
    cases hb : alGet s.procs pid with
    | none => rw [removeProc_none hb, h.live.curProc_unbound hb]; exact h
    | some p => rw [h.live.curProc_bound hb]; exact h.endProc hb _
  · rw [if_neg hpt, if_neg hpt]
    cases hb : alGet s.procs pid with
    | none => rw [h.live.curProc_unbound hb]; exact h
    | some p =>
      rw [h.live.curProc_bound hb]
      obtain ⟨h1, hb1, hh1, _⟩ := h.getByPid pid
      rw [getByPid_bound hb] at h1 hb1 hh1
      simp only at h1 hb1 hh1
      rw [← hh1]
      exact h1.removeThread hb1 (Ne.symm hpt) _

/-! ### One record: COMM -/

theorem step_comm (s : St) (pid tid : Nat) (name : String) (isExec : Bool) (t : Nat) :
    step s (.comm pid tid name isExec t) =
      if isExec then
        if pid = tid then
          (getNewProc (removeProc s pid (conv s (if t = 0 then s.cur else t))) pid (some name)
            (conv s (if t = 0 then s.cur else t))).1
        else
          (getNewThread
            (removeThread (getByPid s pid).1 (getByPid s pid).2 tid (conv s (if t = 0 then s.cur else t))).1
            (removeThread (getByPid s pid).1 (getByPid s pid).2 tid (conv s (if t = 0 then s.cur else t))).2
            tid (some name) (conv s (if t = 0 then s.cur else t))).1
      else if pid = tid then renameProcess s pid (conv s (if t = 0 then s.cur else t)) name
      else renameThread (getByPid s pid).1 (getByPid s pid).2 tid (conv s (if t = 0 then s.cur else t)) name := rfl

theorem lstep_comm_exec_main (l : Life.S) (pid : Nat) (name : String) (t : Nat) :
    Life.step l (.comm pid pid name true t) =
      (Life.newProc
        (match Life.curProc l pid with
         | some pi => Life.endProc l pi (Life.conv l (if t = 0 then l.cur else t))
         | none => l) pid (some name) (Life.conv l (if t = 0 then l.cur else t))).1 := by
  simp only [Life.step, if_true]
  rfl

theorem lstep_comm_main (l : Life.S) (pid : Nat) (name : String) (t : Nat) :
    Life.step l (.comm pid pid name false t) =
      (match Life.curProc l pid with
       | none => (Life.newProc l pid (some name) (Life.conv l (if t = 0 then l.cur else t))).1
       | some pi =>
         match Life.curThread (Life.modP l pi (fun p => { p with name := some name })) pi pid with
         | some i => Life.modT (Life.modP l pi (fun p => { p with name := some name })) i
                       (fun t => { t with name := some name })
         | none => Life.modP l pi (fun p => { p with name := some name })) := by
  simp only [Life.step, if_true, Bool.false_eq_true, if_false]
  rfl

theorem lstep_comm_thread (l : Life.S) (pid tid : Nat) (name : String) (t : Nat) (hne : pid ≠ tid) :
    Life.step l (.comm pid tid name false t) =
      (match Life.curThread (Life.ensureProc l pid).1 (Life.ensureProc l pid).2 tid with
       | none => Life.newThread (Life.ensureProc l pid).1 (Life.ensureProc l pid).2 tid (some name)
                   (Life.conv l (if t = 0 then l.cur else t))
       | some i => Life.modT (Life.ensureProc l pid).1 i (fun t => { t with name := some name })) := by
  simp only [Life.step, if_neg hne, Bool.false_eq_true, if_false]
  rfl

theorem sim_comm {s : St} {l : Life.S} (h : Sim s l) (pid tid : Nat) (name : String) (isExec : Bool) (t : Nat)
    (hok : forkOk l (.comm pid tid name isExec t)) :
    Sim (step s (.comm pid tid name isExec t)) (Life.step l (.comm pid tid name isExec t)) := by
  rw [step_comm, h.conv, h.tab.cur]
  cases isExec with
  | true =>
    have hpt : pid = tid := hok rfl
    subst hpt
    rw [lstep_comm_exec_main]
    simp only [if_true]
    cases hb : alGet s.procs pid with
    | none =>
      rw [removeProc_none hb, h.live.curProc_unbound hb, getNewProc_none hb h.tab.reuse]
      exact h.mkProc hb _ _
    | some p =>
      rw [h.live.curProc_bound hb]
      have h1 := h.endProc hb (Life.conv l (if t = 0 then l.cur else t))
      have hb1 : alGet (removeProc s pid (Life.conv l (if t = 0 then l.cur else t))).procs pid = none := by
        rw [removeProc_some hb h.tab.reuse]; exact alGet_alDel_self _ _
      rw [getNewProc_none hb1 h1.tab.reuse]
      exact h1.mkProc hb1 _ _
  | false =>
    simp only [Bool.false_eq_true, if_false]
    by_cases hpt : pid = tid
    · subst hpt
      rw [if_pos rfl, lstep_comm_main]
      exact h.renameProcess pid _ name
    · rw [if_neg hpt, lstep_comm_thread _ _ _ _ _ hpt]
      obtain ⟨h1, hb1, hh1, _⟩ := h.getByPid pid
      rw [← hh1]
      exact h1.renameThread hb1 (Ne.symm hpt) _ name

/-! ### One record: SAMPLE -/

theorem ensureThread_ensureProc {l : Life.S} {pid : Nat}
    (hc : Life.curProc (Life.ensureProc l pid).1 pid = some (Life.ensureProc l pid).2) (tid : Nat) :
    Life.ensureThread (Life.ensureProc l pid).1 pid tid = Life.ensureThread l pid tid := by
  rw [ensureThread_eq hc]; rfl

/-- `get_by_pid` followed by `get_thread_by_tid`: the on-demand creation of the specification -/
theorem sim_ensure {s : St} {l : Life.S} (h : Sim s l) (pid tid : Nat) :
    Sim (getThread (getByPid s pid).1 (getByPid s pid).2 tid).1 (Life.ensureThread l pid tid) ∧
    alGet (getThread (getByPid s pid).1 (getByPid s pid).2 tid).1.procs pid =
      some (getThread (getByPid s pid).1 (getByPid s pid).2 tid).2.1 ∧
    (getThread (getByPid s pid).1 (getByPid s pid).2 tid).2.1.h = (Life.ensureProc l pid).2 ∧
    (if tid = pid then (getThread (getByPid s pid).1 (getByPid s pid).2 tid).2.2 =
        (getThread (getByPid s pid).1 (getByPid s pid).2 tid).2.1.main
      else alGet (getThread (getByPid s pid).1 (getByPid s pid).2 tid).2.1.threads tid =
        some (getThread (getByPid s pid).1 (getByPid s pid).2 tid).2.2) ∧
    (∀ tid', tid' ≠ tid → alGet (getThread (getByPid s pid).1 (getByPid s pid).2 tid).2.1.threads tid' =
        alGet (getByPid s pid).2.threads tid') := by
  obtain ⟨h1, hb1, hh1, _⟩ := h.getByPid pid
  obtain ⟨h2, hb2, hh2, ht2, hfr, _⟩ := h1.getThread hb1 tid
  have hc := h1.live.curProc_bound hb1
  rw [hh1] at hc
  rw [ensureThread_ensureProc hc] at h2
  exact ⟨h2, hb2, hh2.trans hh1, ht2, hfr⟩

theorem Sim.setBad {s : St} {l : Life.S} (h : Sim s l) (b : Bool) : Sim { s with bad := b } l :=
  ⟨⟨h.tab.cur, h.tab.ref, h.tab.reuse, h.tab.pents, h.tab.tents, h.tab.upids, h.tab.utids⟩, h.live⟩

/-- a record that looks its thread up on demand and then only rewrites fields of that thread object which
carry no lifecycle information (dedup timestamp, context-switch data, off-CPU stack) and the sample buffer -/
theorem sim_commit {s : St} {l : Life.S} (h : Sim s l) (pid tid : Nat)
    (f : St → ThreadC → ThreadC × List USample × Bool)
    (hf : ∀ s2 th, (f s2 th).1.h = th.h ∧ (f s2 th).1.name = th.name) :
    Sim (commitThread (getThread (getByPid s pid).1 (getByPid s pid).2 tid).1
          (getThread (getByPid s pid).1 (getByPid s pid).2 tid).2.1 tid
          (f (getThread (getByPid s pid).1 (getByPid s pid).2 tid).1
             (getThread (getByPid s pid).1 (getByPid s pid).2 tid).2.2))
      (Life.ensureThread l pid tid) := by
  obtain ⟨h2, hb2, _, ht2, _⟩ := sim_ensure h pid tid
  generalize getThread (getByPid s pid).1 (getByPid s pid).2 tid = gt at *
  unfold commitThread
  refine (h2.setBad _).touch hb2 (PEq.trans (PEq.putThread (tid := tid) (th := gt.2.2)
    (th' := (f gt.1 gt.2.2).1) ?_ (hf _ _).1 (hf _ _).2) (PEq.of_same rfl rfl rfl rfl rfl))
  rw [(h2.live.ok hb2).pid_eq]
  exact ht2

theorem step_sample (s : St) (pid tid t : Nat) (km : Bool) (period ip : Nat) (chain : List Nat) :
    step s (.sample pid tid t km period ip chain) =
      if tid = 0 then s else
      let gt := getThread (getByPid { s with cur := t } pid).1 (getByPid { s with cur := t } pid).2 tid
      if gt.2.2.lastTs = some t then gt.1 else
      commitThread gt.1 gt.2.1 tid (sampleThread gt.1 gt.2.2 pid tid t period (sampleStack gt.1.cfg km ip chain)) := rfl

theorem sim_sample {s : St} {l : Life.S} (h : Sim s l) (pid tid t : Nat) (km : Bool) (period ip : Nat)
    (chain : List Nat) :
    Sim (step s (.sample pid tid t km period ip chain)) (Life.step l (.sample pid tid t km period ip chain)) := by
  rw [step_sample]
  simp only [Life.step]
  by_cases h0 : tid = 0
  · rw [if_pos h0, if_pos h0]; exact h
  · rw [if_neg h0, if_neg h0]
    have hc := sim_commit (h.setCur t) pid tid
      (fun s2 th => sampleThread s2 th pid tid t period (sampleStack s2.cfg km ip chain))
      (fun s2 th => by
        obtain ⟨a, _, c, _⟩ := sampleThread_spec s2 th pid tid t period (sampleStack s2.cfg km ip chain)
        exact ⟨a, c⟩)
    obtain ⟨h2, _⟩ := sim_ensure (h.setCur t) pid tid
    generalize getThread (getByPid { s with cur := t } pid).1 (getByPid { s with cur := t } pid).2 tid = gt at *
    split
    · exact h2
    · exact hc

/-! ### One record: context switches, sched_switch samples -/

theorem sim_switchIn {s : St} {l : Life.S} (h : Sim s l) (pid tid t : Nat) :
    Sim (step s (.switchIn pid tid t)) (Life.step l (.switchIn pid tid t)) := by
  have e : step s (.switchIn pid tid t) = if tid = 0 then s else
      commitThread (getThread (getByPid s pid).1 (getByPid s pid).2 tid).1
        (getThread (getByPid s pid).1 (getByPid s pid).2 tid).2.1 tid
        (wake (getThread (getByPid s pid).1 (getByPid s pid).2 tid).1
          (getThread (getByPid s pid).1 (getByPid s pid).2 tid).2.2 (.switchIn t) pid tid) := rfl
  rw [e]
  simp only [Life.step]
  split
  · exact h
  · exact sim_commit h pid tid (fun s2 th => wake s2 th (.switchIn t) pid tid)
      (fun s2 th => by obtain ⟨a, _, c, _⟩ := wake_spec s2 th (.switchIn t) pid tid; exact ⟨a, c⟩)

theorem sim_switchOut {s : St} {l : Life.S} (h : Sim s l) (pid tid t : Nat) :
    Sim (step s (.switchOut pid tid t)) (Life.step l (.switchOut pid tid t)) := by
  have e : step s (.switchOut pid tid t) = if tid = 0 then s else
      commitThread (getThread (getByPid s pid).1 (getByPid s pid).2 tid).1
        (getThread (getByPid s pid).1 (getByPid s pid).2 tid).2.1 tid
        (switchOutThread (getThread (getByPid s pid).1 (getByPid s pid).2 tid).1
          (getThread (getByPid s pid).1 (getByPid s pid).2 tid).2.2 t) := rfl
  rw [e]
  simp only [Life.step]
  split
  · exact h
  · exact sim_commit h pid tid (fun s2 th => switchOutThread s2 th t) (fun s2 th => ⟨rfl, rfl⟩)

theorem sim_sched {s : St} {l : Life.S} (h : Sim s l) (pid tid t : Nat) (km : Bool) (ip : Nat) (chain : List Nat) :
    Sim (step s (.sched pid tid t km ip chain)) (Life.step l (.sched pid tid t km ip chain)) := by
  have e : step s (.sched pid tid t km ip chain) =
      commitThread (getThread (getByPid s pid).1 (getByPid s pid).2 tid).1
        (getThread (getByPid s pid).1 (getByPid s pid).2 tid).2.1 tid
        (schedThread (getThread (getByPid s pid).1 (getByPid s pid).2 tid).1
          (getThread (getByPid s pid).1 (getByPid s pid).2 tid).2.2 t
          (sampleStack (getThread (getByPid s pid).1 (getByPid s pid).2 tid).1.cfg km ip chain)) := rfl
  rw [e]
  simp only [Life.step]
  exact sim_commit h pid tid (fun s2 th => schedThread s2 th t (sampleStack s2.cfg km ip chain))
    (fun s2 th => by
      obtain ⟨a, _, c, _⟩ := schedThread_spec s2 th t (sampleStack s2.cfg km ip chain); exact ⟨a, c⟩)

theorem sim_otherEvent {s : St} {l : Life.S} (h : Sim s l) (pid tid t : Nat) (km : Bool) (ip : Nat)
    (chain : List Nat) :
    Sim (step s (.otherEvent pid tid t km ip chain)) (Life.step l (.otherEvent pid tid t km ip chain)) := by
  have e : step s (.otherEvent pid tid t km ip chain) =
      commitThread (getThread (getByPid s pid).1 (getByPid s pid).2 tid).1
        (getThread (getByPid s pid).1 (getByPid s pid).2 tid).2.1 tid
        (otherEventThread (getThread (getByPid s pid).1 (getByPid s pid).2 tid).1
          (getThread (getByPid s pid).1 (getByPid s pid).2 tid).2.2 pid tid t
          (sampleStack (getThread (getByPid s pid).1 (getByPid s pid).2 tid).1.cfg km ip chain)) := rfl
  rw [e]
  simp only [Life.step]
  exact sim_commit h pid tid (fun s2 th => otherEventThread s2 th pid tid t (sampleStack s2.cfg km ip chain))
    (fun s2 th => ⟨rfl, rfl⟩)

/-! ### One record: MMAP2 -/

theorem step_mmap2 (s : St) (pid tid addr len pgoff : Nat) (exec : Bool) (path : String) (t : Nat) :
    step s (.mmap2 pid tid addr len pgoff exec path t) =
      let s1 := if s.cur = s.cfg.ref || path.isEmpty then s
                else (getThread (getByPid s pid).1 (getByPid s pid).2 tid).1
      if !exec then s1 else if specialPath path then s1 else
        putProc (getByPid s1 pid).1 { (getByPid s1 pid).2 with
          mapq := (getByPid s1 pid).2.mapq ++ mapOps (getByPid s1 pid).1.cfg addr len pgoff path t } :=
  rfl

theorem lstep_mmap2 (l : Life.S) (pid tid addr len pgoff : Nat) (exec : Bool) (path : String) (t : Nat) :
    Life.step l (.mmap2 pid tid addr len pgoff exec path t) =
      let l1 := if l.cur = l.ref || path.isEmpty then l else Life.ensureThread l pid tid
      if exec && !specialPath path then (Life.ensureProc l1 pid).1 else l1 := rfl

theorem sim_mmap2 {s : St} {l : Life.S} (h : Sim s l) (pid tid addr len pgoff : Nat) (exec : Bool) (path : String)
    (t : Nat) :
    Sim (step s (.mmap2 pid tid addr len pgoff exec path t))
      (Life.step l (.mmap2 pid tid addr len pgoff exec path t)) := by
  rw [step_mmap2, lstep_mmap2, h.tab.cur, h.tab.ref]
  have h1 : Sim (if (decide (l.cur = l.ref) || path.isEmpty) = true then s
                else (getThread (getByPid s pid).1 (getByPid s pid).2 tid).1)
      (if (decide (l.cur = l.ref) || path.isEmpty) = true then l else Life.ensureThread l pid tid) := by
    split
    · exact h
    · exact (sim_ensure h pid tid).1
  simp only []
  generalize (if (decide (l.cur = l.ref) || path.isEmpty) = true then s
                else (getThread (getByPid s pid).1 (getByPid s pid).2 tid).1) = s1 at h1 ⊢
  generalize (if (decide (l.cur = l.ref) || path.isEmpty) = true then l else Life.ensureThread l pid tid) = l1
    at h1 ⊢
  cases exec with
  | false => exact h1
  | true =>
    cases hsp : specialPath path with
    | true => simpa [hsp] using h1
    | false =>
      simp only [hsp, Bool.not_true, Bool.not_false, Bool.and_self, Bool.false_eq_true, if_false, if_true]
      obtain ⟨h2, hb2, _⟩ := h1.getByPid pid
      exact h2.touch hb2 (PEq.of_same rfl rfl rfl rfl rfl)

/-! ### One record: FORK -/

theorem step_fork (s : St) (pid tid ppid ptid t : Nat) :
    step s (.fork pid tid ppid ptid t) =
      if pid ≠ ppid then
        putProc (getNewProc (getByPid s ppid).1 pid (getByPid s ppid).2.name (conv s t)).1
          { (getNewProc (getByPid s ppid).1 pid (getByPid s ppid).2.name (conv s t)).2 with
            mapq := (getByPid s ppid).2.mapq }
      else
        (getNewThread (getThread (getByPid s ppid).1 (getByPid s ppid).2 ptid).1
          (getThread (getByPid s ppid).1 (getByPid s ppid).2 ptid).2.1 tid
          (getThread (getByPid s ppid).1 (getByPid s ppid).2 ptid).2.2.name (conv s t)).1 := rfl

theorem lstep_fork (l : Life.S) (pid tid ppid ptid t : Nat) :
    Life.step l (.fork pid tid ppid ptid t) =
      if pid ≠ ppid then
        match Life.curProc (Life.ensureProc l ppid).1 pid with
        | none => (Life.newProc (Life.ensureProc l ppid).1 pid
            (Life.procName (Life.ensureProc l ppid).1 (Life.ensureProc l ppid).2) (Life.conv l t)).1
        | some _ => (Life.ensureProc l ppid).1
      else
        match Life.curThread (Life.ensureThread (Life.ensureProc l ppid).1 ppid ptid) (Life.ensureProc l ppid).2 tid with
        | some _ => Life.ensureThread (Life.ensureProc l ppid).1 ppid ptid
        | none => Life.newThread (Life.ensureThread (Life.ensureProc l ppid).1 ppid ptid) (Life.ensureProc l ppid).2 tid
            ((Life.curThread (Life.ensureThread (Life.ensureProc l ppid).1 ppid ptid) (Life.ensureProc l ppid).2 ptid).bind
              (Life.threadName (Life.ensureThread (Life.ensureProc l ppid).1 ppid ptid))) (Life.conv l t) := rfl

theorem Live.unbound_of_curProc {procs : List (Nat × ProcC)} {l : Life.S} {pid : Nat} (h : Live procs l)
    (hc : Life.curProc l pid = none) : alGet procs pid = none := by
  cases hb : alGet procs pid with
  | none => rfl
  | some p => rw [h.curProc_bound hb] at hc; cases hc

theorem sim_fork {s : St} {l : Life.S} (h : Sim s l) (pid tid ppid ptid t : Nat)
    (hok : forkOk l (.fork pid tid ppid ptid t)) :
    Sim (step s (.fork pid tid ppid ptid t)) (Life.step l (.fork pid tid ppid ptid t)) := by
  rw [step_fork, lstep_fork, h.conv]
  obtain ⟨h1, hb1, hh1, hfr1, hsame1, hnew1⟩ := h.getByPid ppid
  simp only [forkOk] at hok
  by_cases hpp : pid ≠ ppid
  · rw [if_pos hpp] at hok
    rw [if_pos hpp, if_pos hpp]
    have hbn : alGet (getByPid s ppid).1.procs pid = none := by
      rw [hfr1 pid hpp]; exact h.live.unbound_of_curProc hok
    rw [h1.live.curProc_unbound hbn, getNewProc_none hbn h1.tab.reuse]
    have hname : Life.procName (Life.ensureProc l ppid).1 (Life.ensureProc l ppid).2 = (getByPid s ppid).2.name := by
      obtain ⟨pi, hpi, _, _, hn⟩ := (h1.live.ok hb1).pinc
      unfold Life.procName
      rw [← hh1, hpi]; exact hn
    rw [hname]
    have h2 := h1.mkProc hbn (getByPid s ppid).2.name (Life.conv l t)
    have hb2 : alGet (mkProcS (getByPid s ppid).1 pid (getByPid s ppid).2.name (Life.conv l t)).procs pid =
        some (mkProcC (getByPid s ppid).1 pid (getByPid s ppid).2.name) := alGet_alPut_self _ _ _
    exact h2.touch hb2 (PEq.of_same rfl rfl rfl rfl rfl)
  · rw [if_neg hpp] at hok
    rw [if_neg hpp, if_neg hpp]
    have hpe : pid = ppid := Classical.not_not.mp hpp
    subst hpe
    obtain ⟨hne1, hne2, hcur⟩ := hok
    have hc1 := h1.live.curProc_bound hb1
    rw [hh1] at hc1
    rw [ensureThread_ensureProc hc1]
    obtain ⟨h2, hb2, hh2, ht2, hfr2⟩ := sim_ensure h pid ptid
    have hok2 := h2.live.ok hb2
    -- the child tid is not bound
    have hnone : alGet (getThread (getByPid s pid).1 (getByPid s pid).2 ptid).2.1.threads tid = none := by
      rw [hfr2 tid hne2]
      cases hb : alGet s.procs pid with
      | none => rw [hnew1 hb]; rfl
      | some p =>
        rw [hsame1 p hb]
        cases ht : alGet p.threads tid with
        | none => rfl
        | some t0 =>
          have := hcur p.h (h.live.curProc_bound hb)
          rw [(h.live.ok hb).curThread_bound ht] at this
          cases this
    have hne1' : tid ≠ (getThread (getByPid s pid).1 (getByPid s pid).2 ptid).2.1.pid := by
      rw [hok2.pid_eq]; exact hne1
    rw [getNewThread_none hne1' hnone h2.tab.reuse, ← hh2, hok2.curThread_unbound hne1 hnone]
    -- the name of the forking thread
    have hname : (Life.curThread (Life.ensureThread l pid ptid)
          (getThread (getByPid s pid).1 (getByPid s pid).2 ptid).2.1.h ptid).bind
          (Life.threadName (Life.ensureThread l pid ptid)) =
        (getThread (getByPid s pid).1 (getByPid s pid).2 ptid).2.2.name := by
      by_cases hm : ptid = pid
      · subst hm
        rw [if_pos rfl] at ht2
        obtain ⟨tm, htm, _, _, _, _, hn⟩ := hok2.main
        rw [hok2.curThread_main, ht2]
        simp only [Option.bind_some, Life.threadName, htm, hn]
      · rw [if_neg hm] at ht2
        obtain ⟨_, ti, hti, _, _, _, _, hn⟩ := hok2.thr _ _ (alGet_eq_some_mem ht2)
        rw [hok2.curThread_bound ht2]
        simp only [Option.bind_some, Life.threadName, hti, hn]
    rw [hname]
    exact h2.mkThread hb2 hne1 hnone _ _

/-! ### Whole histories -/

theorem sim_step {s : St} {l : Life.S} (h : Sim s l) (r : Rec) (hok : forkOk l r) :
    Sim (step s r) (Life.step l r) := by
  cases r with
  | sample pid tid t km period ip chain => exact sim_sample h pid tid t km period ip chain
  | fork pid tid ppid ptid t => exact sim_fork h pid tid ppid ptid t hok
  | exit pid tid t => exact sim_exit h pid tid t
  | comm pid tid name isExec t => exact sim_comm h pid tid name isExec t hok
  | mmap2 pid tid addr len pgoff exec path t => exact sim_mmap2 h pid tid addr len pgoff exec path t
  | switchIn pid tid t => exact sim_switchIn h pid tid t
  | switchOut pid tid t => exact sim_switchOut h pid tid t
  | sched pid tid t km ip chain => exact sim_sched h pid tid t km ip chain
  | otherEvent pid tid t km ip chain => exact sim_otherEvent h pid tid t km ip chain

theorem gStep_s (g : Life.G) (r : Rec) : (Life.gStep g r).s = Life.step g.s r := rfl

theorem gStep_ok {g : Life.G} {r : Rec} (h : (Life.gStep g r).ok = true) : g.ok = true ∧ forkOk g.s r := by
  unfold Life.gStep at h
  simp only [Bool.and_eq_true] at h
  obtain ⟨h1, h2⟩ := h
  refine ⟨h1, ?_⟩
  cases r with
  | sample pid tid t km period ip chain => trivial
  | exit pid tid t => trivial
  | mmap2 pid tid addr len pgoff exec path t => trivial
  | switchIn pid tid t => trivial
  | switchOut pid tid t => trivial
  | sched pid tid t km ip chain => trivial
  | otherEvent pid tid t km ip chain => trivial
  | comm pid tid name isExec t =>
    simp only [forkOk]
    intro he
    simpa [Life.stepOk, he] using h2
  | fork pid tid ppid ptid t =>
    simp only [forkOk]
    simp only [Life.stepOk] at h2
    by_cases hpp : pid ≠ ppid
    · rw [if_pos hpp] at h2 ⊢
      simpa [Option.isNone_iff_eq_none] using h2
    · rw [if_neg hpp] at h2 ⊢
      cases hc : Life.curProc g.s ppid with
      | none =>
        rw [hc] at h2
        simp only [Bool.and_eq_true, bne_iff_ne, ne_eq] at h2
        exact ⟨h2.1, h2.2, fun pi hpi => by cases hpi⟩
      | some pi =>
        rw [hc] at h2
        simp only [Bool.and_eq_true, bne_iff_ne, ne_eq, Option.isNone_iff_eq_none] at h2
        exact ⟨h2.1.2, h2.2, fun pi' hpi' => by cases hpi'; exact h2.1.1⟩

theorem foldl_gStep_ok {rs : List Rec} {g : Life.G} (h : (rs.foldl Life.gStep g).ok = true) : g.ok = true := by
  induction rs generalizing g with
  | nil => exact h
  | cons r rs ih => exact (gStep_ok (ih h)).1

theorem sim_fold (rs : List Rec) (g : Life.G) (s : St) (h : Sim s g.s)
    (hok : (rs.foldl Life.gStep g).ok = true) : Sim (rs.foldl step s) (rs.foldl Life.step g.s) := by
  induction rs generalizing g s with
  | nil => exact h
  | cons r rs ih =>
    rw [List.foldl_cons] at hok ⊢
    rw [List.foldl_cons, ← gStep_s]
    exact ih (Life.gStep g r) (step s r) (sim_step h r (gStep_ok (foldl_gStep_ok hok)).2) hok

theorem sim_init (cfg : Config) (hr : cfg.reuse = false) : Sim (St.init cfg) { ref := cfg.ref, cur := cfg.ref } := by
  refine ⟨⟨rfl, rfl, hr, rfl, rfl, fun _ => rfl, fun _ => rfl⟩, ⟨?_, ?_, ?_⟩⟩
  · intro pid p hp; cases hp
  · intro j pi hpi; simp at hpi
  · intro i ti hti; simp at hti

theorem sim_run (cfg : Config) (rs : List Rec) (hr : cfg.reuse = false)
    (hg : Life.grammarOk cfg.ref rs = true) : Sim (run cfg rs) (Life.run cfg.ref rs) :=
  sim_fold rs { s := { ref := cfg.ref, cur := cfg.ref } } (St.init cfg) (sim_init cfg hr) hg

/-! ### The output abstraction -/

def rowOf (v : View) : Life.Row :=
  { pid := v.pid, tid := v.tid, isMain := v.isMain, name := v.name, processName := v.processName,
    start := v.start, end_ := v.end_, pstart := v.pstart, pend := v.pend }

/-- the row `Life.rows` produces for one thread incarnation -/
def rowFn (l : Life.S) (t : Life.TInc) : Option Life.Row :=
  match l.ps[t.pinc]? with
  | none => none
  | some p =>
    some { pid := idStr p.pid p.suffix, tid := idStr t.tid t.suffix, isMain := t.isMain,
           name := if t.isMain then p.name.getD (pidLabel p.pid)
                   else t.name.getD ("Thread <" ++ idStr t.tid t.suffix ++ ">"),
           processName := p.name.getD (pidLabel p.pid), start := t.start, end_ := t.end_, pstart := p.start,
           pend := p.end_ }

theorem rows_eq (l : Life.S) : Life.rows l = l.ts.filterMap (rowFn l) := rfl

theorem viewOf_tOf {s : St} {l : Life.S} (hp : s.pents = l.ps.map pOf) (out : List (Nat × OutSample)) (i : Nat)
    (t : Life.TInc) : (viewOf s out i (tOf t)).map rowOf = rowFn l t := by
  unfold viewOf rowFn
  have : s.pents[(tOf t).proc]? = (l.ps[t.pinc]?).map pOf := by
    rw [hp, List.getElem?_map]; rfl
  rw [this]
  cases l.ps[t.pinc]? with
  | none => rfl
  | some p => rfl

theorem viewsAux_rows {s : St} {l : Life.S} (hp : s.pents = l.ps.map pOf) (out : List (Nat × OutSample))
    (i : Nat) (ts : List Life.TInc) :
    (viewsAux s out i (ts.map tOf)).map rowOf = ts.filterMap (rowFn l) := by
  induction ts generalizing i with
  | nil => rfl
  | cons t ts ih =>
    rw [List.map_cons, viewsAux, List.filterMap_cons, ← viewOf_tOf hp out i t]
    cases viewOf s out i (tOf t) with
    | none => exact ih (i + 1)
    | some v => simp only [List.map_cons, Option.map_some, ih (i + 1)]

theorem views_rows {s : St} {l : Life.S} (h : Sim s l) : (views s).map rowOf = Life.rows l := by
  rw [rows_eq, views, h.tab.tents]
  exact viewsAux_rows h.tab.pents _ _ _

end LifeL
