import SamplyModel.Model.ConvSpec
/-! Association lists, recycler pools and `modifyNth`: the list facts the converter invariant (C01) rests on. -/
namespace Conv

/-! ## association lists -/

def NodupKeys {β} (l : List (Nat × β)) : Prop := l.Pairwise (fun a b => a.1 ≠ b.1)

theorem mem_alDel {β} {l : List (Nat × β)} {k : Nat} {x : Nat × β} :
    x ∈ alDel l k ↔ x ∈ l ∧ x.1 ≠ k := by
  simp [alDel]

theorem alGet_nil {β} (k : Nat) : alGet ([] : List (Nat × β)) k = none := rfl

theorem alGet_cons {β} (a : Nat × β) (l : List (Nat × β)) (k : Nat) :
    alGet (a :: l) k = if a.1 = k then some a.2 else alGet l k := by
  unfold alGet
  rw [List.find?_cons]
  by_cases h : a.1 = k
  · simp [h]
  · have : (a.1 == k) = false := by simpa using h
    simp [this, h]

theorem alDel_cons {β} (a : Nat × β) (l : List (Nat × β)) (k : Nat) :
    alDel (a :: l) k = if a.1 = k then alDel l k else a :: alDel l k := by
  unfold alDel
  rw [List.filter_cons]
  by_cases h : a.1 = k
  · simp [h]
  · have : (a.1 == k) = false := by simpa using h
    simp [this, h]

theorem alGet_alDel_self {β} (l : List (Nat × β)) (k : Nat) : alGet (alDel l k) k = none := by
  induction l with
  | nil => rfl
  | cons a l ih =>
    rw [alDel_cons]
    by_cases h : a.1 = k
    · simp only [h, if_true]; exact ih
    · simp only [h, if_false]; rw [alGet_cons]; simp only [h, if_false]; exact ih

theorem alGet_alDel_ne {β} (l : List (Nat × β)) {k k' : Nat} (hne : k' ≠ k) :
    alGet (alDel l k) k' = alGet l k' := by
  induction l with
  | nil => rfl
  | cons a l ih =>
    rw [alDel_cons]
    by_cases h : a.1 = k
    · simp only [h, if_true]
      rw [alGet_cons, ih]
      have : ¬ a.1 = k' := by omega
      simp only [this, if_false]
    · simp only [h, if_false]
      rw [alGet_cons, alGet_cons, ih]

theorem alGet_alPut_self {β} (l : List (Nat × β)) (k : Nat) (v : β) : alGet (alPut l k v) k = some v := by
  unfold alPut; rw [alGet_cons]; simp

theorem alGet_alPut_ne {β} (l : List (Nat × β)) {k k' : Nat} (v : β) (hne : k' ≠ k) :
    alGet (alPut l k v) k' = alGet l k' := by
  unfold alPut; rw [alGet_cons]
  have : ¬ k = k' := by omega
  simp only [this, if_false]
  exact alGet_alDel_ne l hne

theorem alGet_alPut {β} (l : List (Nat × β)) (k k' : Nat) (v : β) :
    alGet (alPut l k v) k' = if k' = k then some v else alGet l k' := by
  by_cases h : k' = k
  · subst h; simp [alGet_alPut_self]
  · simp only [h, if_false]; exact alGet_alPut_ne l v h

theorem alGet_alDel {β} (l : List (Nat × β)) (k k' : Nat) :
    alGet (alDel l k) k' = if k' = k then none else alGet l k' := by
  by_cases h : k' = k
  · subst h; simp [alGet_alDel_self]
  · simp only [h, if_false]; exact alGet_alDel_ne l h

theorem alGet_mem {β} {l : List (Nat × β)} {k : Nat} {v : β} (h : alGet l k = some v) : (k, v) ∈ l := by
  induction l with
  | nil => simp [alGet_nil] at h
  | cons a l ih =>
    rw [alGet_cons] at h
    by_cases hk : a.1 = k
    · simp only [hk, if_true, Option.some.injEq] at h
      have : a = (k, v) := by cases a; simp_all
      rw [this]; exact List.mem_cons_self
    · simp only [hk, if_false] at h
      exact List.mem_cons_of_mem _ (ih h)

theorem alDel_of_none {β} {l : List (Nat × β)} {k : Nat} (h : alGet l k = none) : alDel l k = l := by
  induction l with
  | nil => rfl
  | cons a l ih =>
    rw [alGet_cons] at h
    by_cases hk : a.1 = k
    · simp [hk] at h
    · simp only [hk, if_false] at h
      rw [alDel_cons]; simp only [hk, if_false]; rw [ih h]

theorem mem_alPut {β} {l : List (Nat × β)} {k : Nat} {v : β} {x : Nat × β} :
    x ∈ alPut l k v ↔ x = (k, v) ∨ (x ∈ l ∧ x.1 ≠ k) := by
  unfold alPut
  rw [List.mem_cons, mem_alDel]

theorem NodupKeys.alDel {β} {l : List (Nat × β)} (h : NodupKeys l) (k : Nat) : NodupKeys (alDel l k) :=
  List.Pairwise.filter _ h

theorem NodupKeys.alPut {β} {l : List (Nat × β)} (h : NodupKeys l) (k : Nat) (v : β) :
    NodupKeys (alPut l k v) := by
  unfold Conv.alPut NodupKeys
  rw [List.pairwise_cons]
  refine ⟨?_, h.alDel k⟩
  intro b hb
  have := (mem_alDel.mp hb).2
  simp only [ne_eq]
  omega

theorem alDel_of_not_key {β} {l : List (Nat × β)} {k : Nat} (h : ∀ b ∈ l, b.1 ≠ k) : alDel l k = l := by
  unfold alDel
  rw [List.filter_eq_self]
  intro b hb
  simpa using h b hb

/-- for distinct keys, looking a key up and deleting it splits the list -/
theorem perm_of_alGet {β} {l : List (Nat × β)} {k : Nat} {v : β} (hn : NodupKeys l) (h : alGet l k = some v) :
    List.Perm l ((k, v) :: alDel l k) := by
  induction l with
  | nil => simp [alGet_nil] at h
  | cons a l ih =>
    have hp := List.pairwise_cons.mp hn
    rw [alGet_cons] at h
    rw [alDel_cons]
    by_cases hk : a.1 = k
    · simp only [hk, if_true, Option.some.injEq] at h
      have ha : a = (k, v) := by cases a; simp_all
      simp only [hk, if_true]
      have : alDel l k = l := alDel_of_not_key (fun b hb => by have := hp.1 b hb; simp only [ne_eq] at this; omega)
      rw [this, ha]
    · simp only [hk, if_false] at h ⊢
      exact (List.Perm.cons a (ih hp.2 h)).trans (List.Perm.swap _ _ _)

/-! ## modifyNth -/

theorem map_modifyNth {α β} (g : α → β) (f : α → α) (hf : ∀ x, g (f x) = g x) (l : List α) (i : Nat) :
    (modifyNth l i f).map g = l.map g := by
  induction l generalizing i with
  | nil => rfl
  | cons x xs ih =>
    cases i with
    | zero => simp [modifyNth, hf]
    | succ i => simp [modifyNth, ih]

/-! ## recycler pools -/

def PoolOK (n : Nat) (p : Pool) : Prop := ∀ e ∈ p, ∀ h ∈ e.2, h < n

theorem PoolOK.mono {n m : Nat} {p : Pool} (h : PoolOK n p) (hnm : n ≤ m) : PoolOK m p :=
  fun e he x hx => Nat.lt_of_lt_of_le (h e he x hx) hnm

theorem PoolOK.nil (n : Nat) : PoolOK n [] := fun e he => by simp at he

theorem poolAdd_ok {n : Nat} {p : Pool} (hp : PoolOK n p) (name : String) {h : Nat} (hh : h < n) :
    PoolOK n (poolAdd p name h) := by
  unfold poolAdd
  split
  · rename_i e he
    intro x hx y hy
    rcases List.mem_cons.mp hx with rfl | hx
    · rcases List.mem_cons.mp hy with rfl | hy
      · exact hh
      · exact hp e (List.mem_of_find?_eq_some he) y hy
    · exact hp x (List.mem_filter.mp hx).1 y hy
  · intro x hx y hy
    rcases List.mem_cons.mp hx with rfl | hx
    · simp only [List.mem_singleton] at hy; subst hy; exact hh
    · exact hp x hx y hy

theorem foldl_min_mem (xs : List Nat) (x : Nat) : xs.foldl min x ∈ x :: xs := by
  induction xs generalizing x with
  | nil => simp
  | cons y ys ih =>
    simp only [List.foldl_cons]
    have := ih (min x y)
    rcases List.mem_cons.mp this with h | h
    · rw [h]
      by_cases hxy : x ≤ y
      · rw [Nat.min_eq_left hxy]; exact List.mem_cons_self
      · rw [Nat.min_eq_right (by omega)]; exact List.mem_cons_of_mem _ List.mem_cons_self
    · exact List.mem_cons_of_mem _ (List.mem_cons_of_mem _ h)

theorem listMin_mem {l : List Nat} {m : Nat} (h : listMin l = some m) : m ∈ l := by
  cases l with
  | nil => simp [listMin] at h
  | cons x xs =>
    simp only [listMin, Option.some.injEq] at h
    rw [← h]; exact foldl_min_mem xs x

theorem poolTake_ok {n : Nat} {p p' : Pool} {name : String} {h : Nat} (hp : PoolOK n p)
    (ht : poolTake p name = some (h, p')) : h < n ∧ PoolOK n p' := by
  unfold poolTake at ht
  split at ht
  · simp at ht
  · rename_i e he
    split at ht
    · simp at ht
    · rename_i m hm
      simp only [Option.some.injEq, Prod.mk.injEq] at ht
      obtain ⟨rfl, rfl⟩ := ht
      have hemem := List.mem_of_find?_eq_some he
      refine ⟨hp e hemem _ (listMin_mem hm), ?_⟩
      have hfil : PoolOK n (p.filter (fun e => !(e.1 == name))) :=
        fun x hx y hy => hp x (List.mem_filter.mp hx).1 y hy
      split
      · exact hfil
      · intro x hx y hy
        rcases List.mem_cons.mp hx with rfl | hx
        · exact hp e hemem y (List.mem_of_mem_erase hy)
        · exact hfil x hx y hy

def RecOK (np nt : Nat) (r : ProcRecycle) : Prop := r.ph < np ∧ r.mainTh < nt ∧ PoolOK nt r.pool

def ProcPoolOK (np nt : Nat) (pp : List (String × List ProcRecycle)) : Prop :=
  ∀ e ∈ pp, ∀ r ∈ e.2, RecOK np nt r

theorem RecOK.mono {np nt np' nt' : Nat} {r : ProcRecycle} (h : RecOK np nt r) (h1 : np ≤ np') (h2 : nt ≤ nt') :
    RecOK np' nt' r :=
  ⟨Nat.lt_of_lt_of_le h.1 h1, Nat.lt_of_lt_of_le h.2.1 h2, h.2.2.mono h2⟩

theorem ProcPoolOK.mono {np nt np' nt' : Nat} {pp : List (String × List ProcRecycle)}
    (h : ProcPoolOK np nt pp) (h1 : np ≤ np') (h2 : nt ≤ nt') : ProcPoolOK np' nt' pp :=
  fun e he r hr => (h e he r hr).mono h1 h2

theorem procPoolAdd_ok {np nt : Nat} {pp : List (String × List ProcRecycle)} (hp : ProcPoolOK np nt pp)
    (name : String) {r : ProcRecycle} (hr : RecOK np nt r) : ProcPoolOK np nt (procPoolAdd pp name r) := by
  unfold procPoolAdd
  split
  · rename_i e he
    intro x hx y hy
    rcases List.mem_cons.mp hx with rfl | hx
    · rcases List.mem_cons.mp hy with rfl | hy
      · exact hr
      · exact hp e (List.mem_of_find?_eq_some he) y hy
    · exact hp x (List.mem_filter.mp hx).1 y hy
  · intro x hx y hy
    rcases List.mem_cons.mp hx with rfl | hx
    · simp only [List.mem_singleton] at hy; subst hy; exact hr
    · exact hp x hx y hy

theorem procPoolTake_ok {np nt : Nat} {pp pp' : List (String × List ProcRecycle)} {name : String}
    {r : ProcRecycle} (hp : ProcPoolOK np nt pp) (ht : procPoolTake pp name = some (r, pp')) :
    RecOK np nt r ∧ ProcPoolOK np nt pp' := by
  unfold procPoolTake at ht
  split at ht
  · simp at ht
  · rename_i e he
    split at ht
    · simp at ht
    · rename_i m hm
      split at ht
      · simp at ht
      · rename_i r0 hr0
        simp only [Option.some.injEq, Prod.mk.injEq] at ht
        obtain ⟨rfl, rfl⟩ := ht
        have hemem := List.mem_of_find?_eq_some he
        refine ⟨hp e hemem _ (List.mem_of_find?_eq_some hr0), ?_⟩
        have hfil : ProcPoolOK np nt (pp.filter (fun e => !(e.1 == name))) :=
          fun x hx y hy => hp x (List.mem_filter.mp hx).1 y hy
        split
        · exact hfil
        · intro x hx y hy
          rcases List.mem_cons.mp hx with rfl | hx
          · exact hp e hemem y (List.mem_filter.mp hy).1
          · exact hfil x hx y hy

end Conv
