import SamplyModel.Lemmas.BreakpadIndex
/-!
Helper lemmas for C10, part 2: invariants of the creator state along any log produced by the line
buffer. Consequences: `process_line` / `finish_pending_func_block` never underflow, every index the
creator computes satisfies `Index.ok` (so it parses back), its symbol addresses and file / inline-origin
indexes are strictly ascending.
-/
namespace BP
open LB (Byte Log)

/-! ### digit loops are bounded -/

theorem digits_bound (val : Byte → Option Nat) (base : Nat) (hb : 1 ≤ base)
    (hv : ∀ b d, val b = some d → d < base) (fuel acc k : Nat) (inp : List Byte) :
    (digits val base fuel acc k inp).1 < (acc + 1) * base ^ fuel := by
  induction fuel generalizing acc k inp with
  | zero => simp [digits]
  | succ n ih =>
    have hp : 1 ≤ base ^ (n + 1) := Nat.one_le_pow _ _ hb
    cases inp with
    | nil =>
      simp only [digits]
      calc acc < acc + 1 := Nat.lt_succ_self _
        _ = (acc + 1) * 1 := (Nat.mul_one _).symm
        _ ≤ (acc + 1) * base ^ (n + 1) := Nat.mul_le_mul_left _ hp
    | cons b rest =>
      simp only [digits]
      cases hd : val b with
      | none =>
        simp only
        calc acc < acc + 1 := Nat.lt_succ_self _
          _ = (acc + 1) * 1 := (Nat.mul_one _).symm
          _ ≤ (acc + 1) * base ^ (n + 1) := Nat.mul_le_mul_left _ hp
      | some d =>
        simp only
        have hdb := hv b d hd
        have := ih (acc * base + d) (k + 1) rest
        have h2 : acc * base + d + 1 ≤ (acc + 1) * base := by
          rw [Nat.add_mul, Nat.one_mul]; omega
        calc (digits val base n (acc * base + d) (k + 1) rest).1
            < (acc * base + d + 1) * base ^ n := this
          _ ≤ ((acc + 1) * base) * base ^ n := Nat.mul_le_mul_right _ h2
          _ = (acc + 1) * base ^ (n + 1) := by rw [Nat.mul_assoc, Nat.pow_succ, Nat.mul_comm base]

theorem hexVal_lt (b : Byte) (d : Nat) (h : hexVal b = some d) : d < 16 := by
  unfold hexVal at h
  simp only at h
  split at h
  · cases h; omega
  · split at h
    · cases h; omega
    · split at h
      · cases h; omega
      · cases h

theorem hexU32_lt (inp : List Byte) (v : Nat) (r : List Byte) (h : hexU32 inp = some (v, r)) :
    v < pow32 := by
  unfold hexU32 hexStr at h
  simp only at h
  split at h
  · cases h
  · cases h
    have := digits_bound hexVal 16 (by decide) hexVal_lt 8 0 0 inp
    simpa [pow32] using this

theorem decimalU32_lt (inp : List Byte) (v : Nat) (r : List Byte) (h : decimalU32 inp = some (v, r)) :
    v < pow32 := by
  unfold decimalU32 at h
  simp only at h
  split at h
  · cases h
  · split at h
    · cases h; assumption
    · cases h

theorem indexedLine_lt (t inp : List Byte) (idx : Nat) (name : List Byte)
    (h : indexedLine t inp = some (idx, name)) : idx < pow32 := by
  unfold indexedLine at h
  split at h
  · cases h
  · split at h
    · cases h
    · split at h
      · cases h
      · rename_i hd
        split at h
        · cases h
        · cases h
          exact decimalU32_lt _ _ _ hd

theorem publicLine_lt (inp : List Byte) (a : Nat) (name : List Byte)
    (h : publicLine inp = some (a, name)) : a < pow32 := by
  unfold publicLine at h
  repeat' split at h
  all_goals first | cases h | skip
  exact Nat.mod_lt _ (by decide)

theorem funcLine_lt (inp : List Byte) (a s : Nat) (name : List Byte)
    (h : funcLine inp = some (a, s, name)) : a < pow32 ∧ s < pow32 := by
  unfold funcLine at h
  repeat' split at h
  all_goals first | cases h | skip
  exact ⟨hexU32_lt _ a _ (by assumption), hexU32_lt _ s _ (by assumption)⟩

/-! ### sort + dedup -/

theorem mem_insertKey (k y : Nat) (l : List Nat) : y ∈ insertKey k l ↔ y = k ∨ y ∈ l := by
  induction l with
  | nil => simp [insertKey]
  | cons x xs ih =>
    simp only [insertKey]
    split
    · simp
    · split
      · rename_i h; subst h; simp
      · simp only [List.mem_cons, ih]
        constructor
        · rintro (h | h | h) <;> simp [h]
        · rintro (h | h | h) <;> simp [h]

theorem insertKey_sorted (k : Nat) (l : List Nat) (h : l.Pairwise (· < ·)) :
    (insertKey k l).Pairwise (· < ·) := by
  induction l with
  | nil => simp [insertKey]
  | cons x xs ih =>
    simp only [insertKey]
    have hx := List.pairwise_cons.1 h
    split
    · rename_i hk
      refine List.pairwise_cons.2 ⟨?_, h⟩
      intro y hy
      rcases List.mem_cons.1 hy with e | e
      · subst e; exact hk
      · exact Nat.lt_trans hk (hx.1 y e)
    · split
      · exact h
      · rename_i h1 h2
        refine List.pairwise_cons.2 ⟨?_, ih hx.2⟩
        intro y hy
        rcases (mem_insertKey k y xs).1 hy with e | e
        · subst e; omega
        · exact hx.1 y e

theorem sortedKeys_sorted (ks : List Nat) : (sortedKeys ks).Pairwise (· < ·) := by
  induction ks with
  | nil => simp [sortedKeys]
  | cons k ks ih => exact insertKey_sorted k _ ih

theorem mem_sortedKeys (k : Nat) (ks : List Nat) : k ∈ sortedKeys ks ↔ k ∈ ks := by
  induction ks with
  | nil => simp [sortedKeys]
  | cons x xs ih =>
    simp only [sortedKeys, List.foldr_cons, List.mem_cons]
    rw [mem_insertKey]
    simp only [sortedKeys] at ih
    rw [ih]

theorem choose_mem {α : Type} (off : α → Nat) (cands : List α) (want : Nat) (c : α)
    (h : choose off cands want = some c) : c ∈ cands := by
  unfold choose at h
  split at h
  · rename_i c' hf
    cases h
    exact List.mem_of_find?_eq_some hf
  · exact List.mem_of_head? h

theorem choose_isSome {α : Type} (off : α → Nat) (cands : List α) (want : Nat) (h : cands ≠ []) :
    ∃ c, choose off cands want = some c := by
  unfold choose
  split
  · exact ⟨_, rfl⟩
  · cases cands with
    | nil => exact absurd rfl h
    | cons a l => exact ⟨a, rfl⟩

theorem mem_sortDedup {α : Type} (key off : α → Nat) (pick : Nat → Nat) (l : List α) (x : α)
    (h : x ∈ sortDedup key off pick l) : x ∈ l := by
  unfold sortDedup at h
  rw [List.mem_filterMap] at h
  obtain ⟨k, _, hk⟩ := h
  have := choose_mem _ _ _ _ hk
  exact (List.mem_filter.1 this).1

theorem filterMap_map_key {α : Type} (ks : List Nat) (f : Nat → Option α) (key : α → Nat)
    (h : ∀ k ∈ ks, ∃ x, f k = some x ∧ key x = k) : (ks.filterMap f).map key = ks := by
  induction ks with
  | nil => simp
  | cons k ks ih =>
    obtain ⟨x, hx, hk⟩ := h k (by simp)
    simp only [List.filterMap_cons, hx, List.map_cons, hk]
    rw [ih (fun k' hk' => h k' (by simp [hk']))]

theorem sortDedup_keys {α : Type} (key off : α → Nat) (pick : Nat → Nat) (l : List α) :
    (sortDedup key off pick l).map key = sortedKeys (l.map key) := by
  unfold sortDedup
  apply filterMap_map_key
  intro k hk
  rw [mem_sortedKeys] at hk
  obtain ⟨x, hx, hxk⟩ := List.mem_map.1 hk
  have hne : (l.filter fun y => key y = k) ≠ [] := by
    intro e
    have : x ∈ l.filter fun y => key y = k := List.mem_filter.2 ⟨hx, by simp [hxk]⟩
    rw [e] at this; cases this
  obtain ⟨c, hc⟩ := choose_isSome off _ (pick k) hne
  refine ⟨c, hc, ?_⟩
  have := choose_mem _ _ _ _ hc
  simpa using (List.mem_filter.1 this).2

theorem sortDedup_sorted {α : Type} (key off : α → Nat) (pick : Nat → Nat) (l : List α) :
    ((sortDedup key off pick l).map key).Pairwise (· < ·) := by
  rw [sortDedup_keys]; exact sortedKeys_sorted _

/-! ### `SortedVecBuilder` -/

def SVB.Inv (b : SVB) : Prop :=
  b.sorted = true →
    (b.inner.map (·.index)).Pairwise (· < ·) ∧ ∀ e ∈ b.inner, ∃ l, b.last = some l ∧ e.index ≤ l

theorem SVB.init_inv : SVB.init.Inv := by
  intro _; simp [SVB.init]

theorem SVB.push_inv (b : SVB) (e : FEntry) (h : b.Inv) : (b.push e).Inv := by
  unfold SVB.push
  by_cases hs : b.sorted = true
  · obtain ⟨h1, h2⟩ := h hs
    simp only [hs, if_true]
    cases hl : b.last with
    | none =>
      simp only
      intro _
      have hnil : b.inner = [] := by
        cases hb : b.inner with
        | nil => rfl
        | cons x xs =>
          obtain ⟨l, hl', _⟩ := h2 x (by simp [hb])
          rw [hl] at hl'; cases hl'
      simp [hnil]
    | some l =>
      simp only
      split
      · rename_i hlt
        intro _
        refine ⟨?_, ?_⟩
        · simp only [List.map_append, List.map_cons, List.map_nil]
          rw [List.pairwise_append]
          refine ⟨h1, by simp, ?_⟩
          intro a ha b' hb'
          simp only [List.mem_singleton] at hb'
          subst hb'
          obtain ⟨x, hx, hxa⟩ := List.mem_map.1 ha
          obtain ⟨l', hl', hle⟩ := h2 x hx
          rw [hl] at hl'; cases hl'
          omega
        · intro x hx
          simp only [List.mem_append, List.mem_singleton] at hx
          rcases hx with hx | hx
          · obtain ⟨l', hl', hle⟩ := h2 x hx
            rw [hl] at hl'; cases hl'
            exact ⟨_, rfl, by omega⟩
          · subst hx; exact ⟨_, rfl, Nat.le_refl _⟩
      · split
        · intro _; exact ⟨h1, h2⟩
        · intro hc; cases hc
  · simp only [hs]
    intro hc
    simp at hc

theorem mem_push (b : SVB) (e x : FEntry) (h : x ∈ (b.push e).inner) : x ∈ b.inner ∨ x = e := by
  unfold SVB.push at h
  split at h
  · split at h
    · simpa using h
    · split at h
      · simpa using h
      · split at h
        · exact Or.inl h
        · simpa using h
  · simpa using h

theorem mem_intoSorted (pick : Nat → Nat) (b : SVB) (e : FEntry) (h : e ∈ b.intoSorted pick) :
    e ∈ b.inner := by
  unfold SVB.intoSorted at h
  split at h
  · exact h
  · exact mem_sortDedup _ _ _ _ _ h

theorem intoSorted_sorted (pick : Nat → Nat) (b : SVB) (h : b.Inv) :
    ((b.intoSorted pick).map (·.index)).Pairwise (· < ·) := by
  unfold SVB.intoSorted
  split
  · rename_i hs; exact (h hs).1
  · exact sortDedup_sorted _ _ _ _

/-! ### module-info block -/

theorem mem_stripCR (l : List Byte) (x : Byte) (h : x ∈ stripCR l) : x ∈ l := by
  unfold stripCR at h
  rw [List.mem_reverse] at h
  have := (List.dropWhile_suffix (fun b => b = 13) (l := l.reverse)).subset h
  simpa using this

theorem joinNl_snoc (first : List Byte) (infos : List (List Byte)) (x : List Byte) :
    LB.joinNl first (infos ++ [x]) = LB.joinNl first infos ++ 10 :: x := by
  induction infos generalizing first with
  | nil => simp [LB.joinNl]
  | cons l ls ih => simp [LB.joinNl, ih]

/-- shape of `module_info_bytes` once a MODULE line has been accepted: that line, then `\n` + INFO line
for every INFO record seen -/
def ModShape (mi : List Byte) : Prop :=
  ∃ first infos, mi = LB.joinNl first infos ∧ (10 : Byte) ∉ first ∧
    (∀ l ∈ infos, (10 : Byte) ∉ l ∧ (tag tINFO_ l).isSome = true) ∧ (moduleLine first).isSome = true

theorem moduleLine_of_info (l : List Byte) (h : (tag tINFO_ l).isSome = true) : moduleLine l = none := by
  cases l with
  | nil => simp [tag, tINFO_] at h
  | cons b rest =>
    simp only [tag, tINFO_] at h
    by_cases hb : (73 : Byte) = b
    · subst hb
      simp [moduleLine, tag, tMODULE]
    · simp [hb] at h

theorem moduleInfoLines_aux (st : LB.St) (log : Log) (first : List Byte) (infos : List (List Byte))
    (key : log.map (·.2) ++ [st.leftover] = first :: infos)
    (hne : first ≠ []) (hine : ∀ l ∈ infos, l ≠ []) :
    log.map (·.2) ++ (if st.leftover.isEmpty then [] else [st.leftover]) = first :: infos := by
  have hlast : st.leftover ≠ [] := by
    intro e
    rw [e] at key
    have : (List.map (fun (x : Nat × List Byte) => x.2) log ++ [[]]).getLast? = (first :: infos).getLast? := by
      rw [key]
    simp only [List.getLast?_append, List.getLast?_singleton, Option.or_some] at this
    have h2 := List.mem_of_getLast? this.symm
    rcases List.mem_cons.1 h2 with e' | e'
    · exact hne e'.symm
    · exact hine _ e' rfl
  have : st.leftover.isEmpty = false := by
    cases h : st.leftover with
    | nil => exact absurd h hlast
    | cons a l => rfl
  simp only [this]
  exact key

theorem moduleInfoLines_shape (first : List Byte) (infos : List (List Byte))
    (hf : (10 : Byte) ∉ first) (hi : ∀ l ∈ infos, (10 : Byte) ∉ l)
    (hne : first ≠ []) (hine : ∀ l ∈ infos, l ≠ []) :
    moduleInfoLines (LB.joinNl first infos) = first :: infos := by
  have key := LB.bytewise_joinNl LB.St.init first infos hf hi
  simp only [LB.St.init, List.nil_append] at key
  unfold moduleInfoLines
  rw [LB.consume_eq_bytewise _ _ LB.inv_init]
  exact moduleInfoLines_aux _ _ first infos key hne hine

theorem foldl_keep {α β : Type} (f : β → α → β) (ls : List α) (b : β)
    (h : ∀ b l, l ∈ ls → f b l = b) : ls.foldl f b = b := by
  induction ls generalizing b with
  | nil => rfl
  | cons l ls ih =>
    simp only [List.foldl_cons, h b l (by simp)]
    exact ih b (fun b' x hx => h b' x (by simp [hx]))

theorem deriveModule_of_shape (mi : List Byte) (h : ModShape mi) : (deriveModule mi).isSome = true := by
  obtain ⟨first, infos, rfl, hf, hi, hm⟩ := h
  have hne : first ≠ [] := by
    intro e; subst e; simp [moduleLine, tag, tMODULE] at hm
  have hine : ∀ l ∈ infos, l ≠ [] := by
    intro l hl e; subst e
    have := (hi [] hl).2
    simp [tag, tINFO_] at this
  unfold deriveModule
  rw [moduleInfoLines_shape first infos hf (fun l hl => (hi l hl).1) hne hine]
  simp only [List.foldl_cons]
  cases hm' : moduleLine first with
  | none => simp [hm'] at hm
  | some m =>
    simp only
    rw [foldl_keep _ infos (some m) ?_]
    · rfl
    · intro b l hl
      rw [moduleLine_of_info l (hi l hl).2]

/-! ### the creator invariant -/

structure CInv (B : Nat) (st : Inner) : Prop where
  pending : ∀ a fo, st.pending = some (a, fo) → fo ≤ B ∧ a < pow32
  symbols : ∀ s ∈ st.symbols, s.1 < pow32 ∧ s.2.kind < pow32 ∧ s.2.len < pow32 ∧ s.2.offset ≤ B
  files : ∀ e ∈ st.files.inner, e.index < pow32 ∧ e.lineLen < pow32 ∧ e.offset ≤ B
  origins : ∀ e ∈ st.origins.inner, e.index < pow32 ∧ e.lineLen < pow32 ∧ e.offset ≤ B
  filesInv : st.files.Inv
  originsInv : st.origins.Inv
  module : st.hasModule = true → ModShape st.moduleInfoBytes

theorem CInv.init : CInv 0 Inner.init := by
  constructor <;> simp [Inner.init, SVB.init, SVB.init_inv]
  · exact SVB.init_inv
  · exact SVB.init_inv

theorem CInv.mono {B B' : Nat} {st : Inner} (h : CInv B st) (hb : B ≤ B') : CInv B' st := by
  constructor
  · intro a fo hp; have := h.pending a fo hp; exact ⟨by omega, this.2⟩
  · intro s hs; have := h.symbols s hs; exact ⟨this.1, this.2.1, this.2.2.1, by omega⟩
  · intro e he; have := h.files e he; exact ⟨this.1, this.2.1, by omega⟩
  · intro e he; have := h.origins e he; exact ⟨this.1, this.2.1, by omega⟩
  · exact h.filesInv
  · exact h.originsInv
  · exact h.module

theorem finishPending_inv {B off : Nat} {st : Inner} (h : CInv B st) (hb : B ≤ off) :
    ∃ st', finishPending st off = some st' ∧ CInv off st' ∧ st'.pending = none ∧
      st'.moduleInfoBytes = st.moduleInfoBytes ∧ st'.hasModule = st.hasModule := by
  have h' := h.mono hb
  unfold finishPending
  cases hp : st.pending with
  | none => exact ⟨st, rfl, h', hp, rfl, rfl⟩
  | some p =>
    obtain ⟨a, fo⟩ := p
    have hpa := h.pending a fo hp
    have hle : fo ≤ off := by omega
    simp only [hle, if_true]
    refine ⟨_, rfl, ?_, rfl, rfl, rfl⟩
    constructor
    · intro a' fo' hc; simp at hc
    · intro s hs
      simp only [List.mem_append, List.mem_singleton] at hs
      rcases hs with hs | hs
      · exact h'.symbols s hs
      · subst hs
        refine ⟨hpa.2, by simp [pow32], Nat.mod_lt _ (by decide), hle⟩
    · exact h'.files
    · exact h'.origins
    · exact h'.filesInv
    · exact h'.originsInv
    · exact h'.module

theorem classify_file_lt (input : List Byte) (idx : Nat) (h : classify input = .file idx) : idx < pow32 := by
  unfold classify at h
  split at h
  · rename_i hf; cases h; exact indexedLine_lt _ _ _ _ hf
  · split at h
    · cases h
    · split at h
      · cases h
      · split at h
        · cases h
        · split at h
          · cases h
          · split at h <;> cases h

theorem classify_origin_lt (input : List Byte) (idx : Nat) (h : classify input = .origin idx) :
    idx < pow32 := by
  unfold classify at h
  split at h
  · cases h
  · split at h
    · rename_i hf; cases h; exact indexedLine_lt _ _ _ _ hf
    · split at h
      · cases h
      · split at h
        · cases h
        · split at h
          · cases h
          · split at h <;> cases h

theorem classify_pub_lt (input : List Byte) (a : Nat) (h : classify input = .pub a) : a < pow32 := by
  unfold classify at h
  split at h
  · cases h
  · split at h
    · cases h
    · split at h
      · rename_i hf; cases h; exact publicLine_lt _ _ _ hf
      · split at h
        · cases h
        · split at h
          · cases h
          · split at h <;> cases h

theorem classify_func_lt (input : List Byte) (a : Nat) (h : classify input = .func a) : a < pow32 := by
  unfold classify at h
  split at h
  · cases h
  · split at h
    · cases h
    · split at h
      · cases h
      · split at h
        · rename_i hf; cases h; exact (funcLine_lt _ _ _ _ hf).1
        · split at h
          · cases h
          · split at h <;> cases h

theorem classify_info (input : List Byte) (h : classify input = .info) : (tag tINFO_ input).isSome = true := by
  unfold classify at h
  split at h
  · cases h
  · split at h
    · cases h
    · split at h
      · cases h
      · split at h
        · cases h
        · split at h
          · assumption
          · split at h <;> cases h

theorem processLine_inv {B off : Nat} {st : Inner} {line : List Byte} (h : CInv B st) (hb : B ≤ off)
    (hl : (10 : Byte) ∉ line) : ∃ st', processLine st off line = some st' ∧ CInv off st' := by
  have h' := h.mono hb
  have hin : (10 : Byte) ∉ stripCR line := fun hc => hl (mem_stripCR _ _ hc)
  unfold processLine
  simp only
  by_cases hm : st.hasModule = true
  · simp only [hm, Bool.not_true, Bool.false_eq_true, if_false]
    have hlen : (stripCR line).length % pow32 < pow32 := Nat.mod_lt _ (by decide)
    obtain ⟨st1, hfp, hc1, hp1, hmi1, hhm1⟩ := finishPending_inv h hb
    cases hcl : classify (stripCR line) <;> simp only [applyClass]
    case file idx =>
      refine ⟨_, rfl, ?_⟩
      have hidx := classify_file_lt _ _ hcl
      constructor
      · exact h'.pending
      · exact h'.symbols
      · intro e he
        rcases mem_push _ _ _ he with he | he
        · exact h'.files e he
        · subst he; exact ⟨hidx, hlen, Nat.le_refl _⟩
      · exact h'.origins
      · exact SVB.push_inv _ _ h'.filesInv
      · exact h'.originsInv
      · exact fun _ => h'.module hm
    case origin idx =>
      refine ⟨_, rfl, ?_⟩
      have hidx := classify_origin_lt _ _ hcl
      constructor
      · exact h'.pending
      · exact h'.symbols
      · exact h'.files
      · intro e he
        rcases mem_push _ _ _ he with he | he
        · exact h'.origins e he
        · subst he; exact ⟨hidx, hlen, Nat.le_refl _⟩
      · exact h'.filesInv
      · exact SVB.push_inv _ _ h'.originsInv
      · exact fun _ => h'.module hm
    case pub addr =>
      simp only [hfp, Option.map_some]
      refine ⟨_, rfl, ?_⟩
      have ha := classify_pub_lt _ _ hcl
      constructor
      · exact hc1.pending
      · intro s hs
        simp only [List.mem_append, List.mem_singleton] at hs
        rcases hs with hs | hs
        · exact hc1.symbols s hs
        · subst hs; exact ⟨ha, by simp [pow32], hlen, Nat.le_refl _⟩
      · exact hc1.files
      · exact hc1.origins
      · exact hc1.filesInv
      · exact hc1.originsInv
      · exact hc1.module
    case func addr =>
      simp only [hfp, Option.map_some]
      refine ⟨_, rfl, ?_⟩
      have ha := classify_func_lt _ _ hcl
      constructor
      · intro a fo hc
        simp only [Option.some.injEq, Prod.mk.injEq] at hc
        obtain ⟨rfl, rfl⟩ := hc
        exact ⟨Nat.le_refl _, ha⟩
      · exact hc1.symbols
      · exact hc1.files
      · exact hc1.origins
      · exact hc1.filesInv
      · exact hc1.originsInv
      · exact hc1.module
    case info =>
      have hinfo := classify_info _ hcl
      simp only [hfp, Option.map_some]
      refine ⟨_, rfl, ?_⟩
      constructor
      · exact hc1.pending
      · exact hc1.symbols
      · exact hc1.files
      · exact hc1.origins
      · exact hc1.filesInv
      · exact hc1.originsInv
      · intro hmm
        simp only at hmm ⊢
        obtain ⟨first, infos, he, hf1, hi1, hm1⟩ := hc1.module hmm
        refine ⟨first, infos ++ [stripCR line], ?_, hf1, ?_, hm1⟩
        · rw [joinNl_snoc, ← he]
        · intro l hl'
          simp only [List.mem_append, List.mem_singleton] at hl'
          rcases hl' with hl' | hl'
          · exact hi1 l hl'
          · subst hl'; exact ⟨hin, hinfo⟩
    case stack => exact ⟨st1, hfp, hc1⟩
    case other => exact ⟨st, rfl, h'⟩
  · have hm' : st.hasModule = false := by simpa using hm
    simp only [hm', Bool.not_false, if_true]
    refine ⟨_, rfl, ?_⟩
    constructor
    · exact h'.pending
    · exact h'.symbols
    · exact h'.files
    · exact h'.origins
    · exact h'.filesInv
    · exact h'.originsInv
    · intro hmm
      simp only at hmm ⊢
      exact ⟨stripCR line, [], rfl, hin, by simp, hmm⟩

theorem processLog_inv {lo hi : Nat} {st : Inner} {log : Log} (h : CInv lo st)
    (hm : LB.LogMono lo log hi) (hl : ∀ p ∈ log, (10 : Byte) ∉ p.2) :
    ∃ st', processLog st log = some st' ∧ CInv hi st' := by
  induction log generalizing lo st with
  | nil => exact ⟨st, rfl, h.mono hm⟩
  | cons p rest ih =>
    obtain ⟨off, line⟩ := p
    obtain ⟨st1, h1, hc1⟩ := processLine_inv h hm.1 (hl (off, line) (by simp))
    simp only [processLog, h1]
    exact ih hc1 hm.2 (fun q hq => hl q (by simp [hq]))

/-! ### what a fresh creator computes from a whole text -/

/-- The creator never panics before serialization, and its final state satisfies the invariant with
every recorded offset at most the text length. -/
theorem preIndex_spec (pick : Pick) (text : List Byte) :
    ∃ st, CInv text.length st ∧ st.pending = none ∧
      preIndex pick [text] = if st.hasModule then .ix (st.toIndex pick) else .err := by
  unfold preIndex
  rw [consumeAll_eq _ _ LB.inv_init, lb_consumeAll_single]
  simp only [Creator.init]
  rw [LB.consume_eq_bytewise _ _ LB.inv_init]
  have hmono := LB.bytewise_logMono LB.St.init text LB.inv_init
  have hnl := LB.bytewise_lines_noNl LB.St.init text (by simp [LB.St.init])
  have hinv := LB.bytewise_inv LB.St.init text LB.inv_init
  have hoff := LB.bytewise_off LB.St.init text
  cases hr : LB.bytewise LB.St.init text with
  | mk lb log =>
  rw [hr] at hmono hnl hinv hoff
  simp only [LB.St.init, Nat.zero_add] at hoff
  simp only at hmono hnl hinv hoff
  have h0 : LB.lineStart LB.St.init = 0 := by simp [LB.lineStart, LB.St.init]
  rw [h0] at hmono
  obtain ⟨st1, hp1, hc1⟩ := processLog_inv CInv.init hmono hnl.1
  simp only [hp1, Option.map_some, Creator.pre]
  rw [LB.finish_of_inv lb hinv]
  simp only
  have hle : LB.lineStart lb ≤ lb.off := by simp [LB.lineStart]
  have htail : ∃ st2, processLog st1 (if lb.leftover.isEmpty = true then [] else [(lb.off - lb.leftover.length, lb.leftover)])
      = some st2 ∧ CInv lb.off st2 := by
    by_cases he : lb.leftover.isEmpty = true
    · rw [if_pos he]
      exact ⟨st1, rfl, hc1.mono hle⟩
    · rw [if_neg he]
      apply processLog_inv hc1
      · exact ⟨Nat.le_refl _, hle⟩
      · intro p hp
        rw [List.mem_singleton] at hp
        subst hp
        exact hnl.2
  obtain ⟨st2, hp2, hc2⟩ := htail
  rw [hp2]
  simp only [Inner.pre]
  obtain ⟨st3, hp3, hc3, hpend, _, _⟩ := finishPending_inv hc2 (Nat.le_refl _)
  rw [hp3]
  simp only
  refine ⟨st3, by rw [← hoff]; exact hc3, hpend, ?_⟩
  cases st3.hasModule <;> simp

theorem toIndex_ok (pick : Pick) (st : Inner) (B : Nat) (h : CInv B st) (hB : B < pow64)
    (hm : st.hasModule = true) : (st.toIndex pick).ok := by
  constructor
  · intro e he
    have := h.files e (mem_intoSorted _ _ _ he)
    exact ⟨this.1, this.2.1, by omega⟩
  · intro e he
    have := h.origins e (mem_intoSorted _ _ _ he)
    exact ⟨this.1, this.2.1, by omega⟩
  · intro a ha
    simp only [Inner.toIndex, List.mem_map] at ha
    obtain ⟨s, hs, rfl⟩ := ha
    exact (h.symbols s (mem_sortDedup _ _ _ _ _ hs)).1
  · intro e he
    simp only [Inner.toIndex, List.mem_map] at he
    obtain ⟨s, hs, rfl⟩ := he
    have := h.symbols s (mem_sortDedup _ _ _ _ _ hs)
    exact ⟨this.2.1, this.2.2.1, by omega⟩
  · exact deriveModule_of_shape _ (h.module hm)

theorem toIndex_sorted (pick : Pick) (st : Inner) (B : Nat) (h : CInv B st) :
    (st.toIndex pick).addrs.Pairwise (· < ·) ∧
    ((st.toIndex pick).files.map (·.index)).Pairwise (· < ·) ∧
    ((st.toIndex pick).origins.map (·.index)).Pairwise (· < ·) ∧
    (st.toIndex pick).addrs.length = (st.toIndex pick).entries.length := by
  refine ⟨?_, intoSorted_sorted _ _ h.filesInv, intoSorted_sorted _ _ h.originsInv, by simp [Inner.toIndex]⟩
  simp only [Inner.toIndex]
  exact sortDedup_sorted (fun (s : Nat × SymEntry) => s.1) _ _ _

end BP
