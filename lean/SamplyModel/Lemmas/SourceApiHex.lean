import SamplyModel.Lemmas.SourceApi
/-!
Completeness of the `moduleOffset` spelling: the lower-case hex rendering `format!("0x{:x}")` of every `u32`
(`Nat.toDigits 16 n`, the spelling `/symbolicate/v5` clients and samply's own front end use) is accepted by
`from_prefixed_hex_str` (hex.rs:23-37) and denotes `n`.
-/
namespace SourceApi

theorem hexDigitVal_digitChar (d : Nat) (h : d < 16) : hexDigitVal (Nat.digitChar d) = some d := by
  have : ∀ d : Fin 16, hexDigitVal (Nat.digitChar d.val) = some d.val := by decide
  exact this ⟨d, h⟩

/-- the digits of `Nat.toDigits 16 n` all parse, and fold back to `n` -/
theorem mapM_toDigits16 (n : Nat) :
    ∃ vs, (Nat.toDigits 16 n).mapM hexDigitVal = some vs ∧ vs.foldl (fun a d => a * 16 + d) 0 = n := by
  induction n using Nat.strongRecOn with
  | _ n ih =>
    rw [Nat.toDigits_eq_if (by omega)]
    split
    · rename_i hlt
      refine ⟨[n], ?_, by simp⟩
      simp [hexDigitVal_digitChar n hlt]
    · rename_i hge
      obtain ⟨vs, h1, h2⟩ := ih (n / 16) (by omega)
      refine ⟨vs ++ [n % 16], ?_, ?_⟩
      · rw [List.mapM_append, h1]
        simp [hexDigitVal_digitChar (n % 16) (Nat.mod_lt _ (by omega))]
      · rw [List.foldl_append, h2]
        simp only [List.foldl_cons, List.foldl_nil]
        omega

theorem hexDigitsU32_toDigits16 (n : Nat) (h : n < 4294967296) : hexDigitsU32 (Nat.toDigits 16 n) = some n := by
  obtain ⟨vs, h1, h2⟩ := mapM_toDigits16 n
  unfold hexDigitsU32
  split
  · rename_i he
    exact absurd he Nat.toDigits_ne_nil
  · rw [h1]
    simp only [h2, if_pos h]

theorem fromStrRadix16U32_toDigits16 (n : Nat) (h : n < 4294967296) :
    fromStrRadix16U32 (Nat.toDigits 16 n) = some n := by
  unfold fromStrRadix16U32
  split
  · rename_i d more he
    obtain ⟨vs, h1, _⟩ := mapM_toDigits16 n
    rw [he] at h1
    have hp : hexDigitVal '+' = none := by decide
    simp [List.mapM_cons, hp] at h1
  · exact hexDigitsU32_toDigits16 n h

theorem parseModuleOffset_toDigits16 (n : Nat) (h : n < 4294967296) :
    parseModuleOffset ('0' :: 'x' :: Nat.toDigits 16 n) = some n := by
  simp only [parseModuleOffset]
  exact fromStrRadix16U32_toDigits16 n h

end SourceApi
