import SamplyModel.Lemmas.BreakpadReadLookup
/-!
Helper lemmas for C10, part 10: inline chain and line record found by the lookup (binary searches over
the parsed block) agree with the direct reading of the block's records.
-/
namespace BPS
open BP
open LB (Byte)

/-! ### the order on inlinees -/

theorem inlLE_trans (a b c : Inlinee) (h1 : inlLE a b = true) (h2 : inlLE b c = true) : inlLE a c = true := by
  simp only [inlLE, Bool.or_eq_true, decide_eq_true_eq, Bool.and_eq_true] at *
  omega

theorem inlLE_total (a b : Inlinee) : (inlLE a b || inlLE b a) = true := by
  simp only [inlLE, Bool.or_eq_true, decide_eq_true_eq, Bool.and_eq_true]
  omega

theorem inlLE_refl (a : Inlinee) : inlLE a a = true := by
  simp [inlLE]

theorem sorted_split_le {α : Type} (le : α → α → Bool)
    (trans : ∀ a b c, le a b = true → le b c = true → le a c = true)
    (l : List α) (h : l.Pairwise (fun a b => le a b = true)) (t : α) :
    ∀ x ∈ l.dropWhile (fun x => le x t), le x t = false := by
  induction l with
  | nil => simp
  | cons a l ih =>
    have ha := List.pairwise_cons.1 h
    by_cases hk : le a t = true
    · simp only [List.dropWhile_cons, hk, if_true]
      exact ih ha.2
    · have hk' : le a t = false := by simpa using hk
      simp only [List.dropWhile_cons, hk', Bool.false_eq_true, if_false]
      intro x hx
      rcases List.mem_cons.1 hx with e | e
      · subst e; exact hk'
      · cases hxt : le x t with
        | false => rfl
        | true => exact absurd (trans a x t (ha.1 x e) hxt) hk

theorem pairwise_getLast_max {α : Type} (le : α → α → Bool) (refl : ∀ a, le a a = true) (p : List α)
    (h : p.Pairwise (fun a b => le a b = true)) (x : α) (hx : p.getLast? = some x) :
    ∀ y ∈ p, le y x = true := by
  induction p with
  | nil => simp at hx
  | cons a p ih =>
    have ha := List.pairwise_cons.1 h
    cases p with
    | nil =>
      simp only [List.getLast?_singleton, Option.some.injEq] at hx
      subst hx; intro y hy; simp at hy; subst hy; exact refl _
    | cons b p' =>
      rw [List.getLast?_cons_cons] at hx
      intro y hy
      rcases List.mem_cons.1 hy with e | e
      · subst e; exact ha.1 x (List.mem_of_getLast? hx)
      · exact ih ha.2 hx y e

theorem pairwise_mem_ne {α : Type} (R : α → α → Prop) (symm : ∀ a b, R a b → R b a) (l : List α)
    (h : l.Pairwise R) (x y : α) (hx : x ∈ l) (hy : y ∈ l) (hne : x ≠ y) : R x y := by
  induction l with
  | nil => cases hx
  | cons a l ih =>
    have ha := List.pairwise_cons.1 h
    rcases List.mem_cons.1 hx with ex | ex <;> rcases List.mem_cons.1 hy with ey | ey
    · exact absurd (ex.trans ey.symm) hne
    · subst ex; exact ha.1 y ey
    · subst ey; exact symm _ _ (ha.1 x ex)
    · exact ih ha.2 ex ey

/-! ### inline ranges -/

/-- the inlinee covers `a` at depth `d` -/
def coverI (d a : Nat) (i : Inlinee) : Bool :=
  decide (i.depth = d) && decide (i.address ≤ a) && decide (a < i.address + i.size)

theorem inlineeAt_sorted_at (L : List Inlinee) (a : Nat) (h : InlAt L a) (d : Nat) :
    inlineeAt (L.mergeSort inlLE) d a = L.find? (coverI d a) := by
  have hperm : (L.mergeSort inlLE).Perm L := List.mergeSort_perm L inlLE
  have hsorted := List.pairwise_mergeSort inlLE_trans inlLE_total L
  generalize L.mergeSort inlLE = L' at hperm hsorted
  let t : Inlinee := ⟨d, a, 0, 0, 0, 0⟩
  have hQ := sorted_split_le inlLE inlLE_trans L' hsorted t
  have hl := List.takeWhile_append_dropWhile (p := fun x => inlLE x t) (l := L')
  have hP : ∀ x ∈ L'.takeWhile (fun x => inlLE x t), inlLE x t = true :=
    fun x hx => mem_takeWhile_true (fun x => inlLE x t) L' x hx
  generalize L'.takeWhile (fun x => inlLE x t) = P at hl hP
  generalize L'.dropWhile (fun x => inlLE x t) = Q at hl hQ
  subst hl
  have hPs : P.Pairwise (fun a b => inlLE a b = true) := (List.pairwise_append.1 hsorted).1
  unfold inlineeAt
  rw [bsearchLE_part _ P Q (by intro x hx; simp [hP x hx, t]) (by intro x hx; simp [hQ x hx, t])]
  have hlast : (if P.isEmpty = true then none else some (P.length - 1)).bind ((P ++ Q)[·]?) = P.getLast? := by
    cases hPe : P with
    | nil => simp
    | cons p0 P' =>
      rw [← hPe]
      have hne : P ≠ [] := by rw [hPe]; simp
      have : P.isEmpty = false := by rw [hPe]; rfl
      simp only [this, Bool.false_eq_true, if_false, Option.bind_some]
      exact getElem?_append_last P Q hne
  rw [hlast]
  have hmemL : ∀ x, x ∈ P ++ Q ↔ x ∈ L := fun x => hperm.mem_iff
  cases hf : L.find? (coverI d a) with
  | some c =>
    have hcL := List.mem_of_find?_eq_some hf
    have hcc : coverI d a c = true := List.find?_some hf
    simp only [coverI, Bool.and_eq_true, decide_eq_true_eq] at hcc
    obtain ⟨⟨hcd, hca⟩, hce⟩ := hcc
    have hct : inlLE c t = true := by simp [inlLE, t, hcd, hca]
    have hcP : c ∈ P := by
      rcases List.mem_append.1 ((hmemL c).2 hcL) with h' | h'
      · exact h'
      · rw [hQ c h'] at hct; cases hct
    obtain ⟨e, he⟩ : ∃ e, P.getLast? = some e := by
      cases h' : P.getLast? with
      | none => rw [List.getLast?_eq_none_iff] at h'; subst h'; cases hcP
      | some x => exact ⟨x, rfl⟩
    have heP : e ∈ P := List.mem_of_getLast? he
    have heL : e ∈ L := (hmemL e).1 (by simp [heP])
    have het := hP e heP
    have hce' := pairwise_getLast_max inlLE inlLE_refl P hPs e he c hcP
    simp only [inlLE, t, Bool.or_eq_true, decide_eq_true_eq, Bool.and_eq_true] at het hce'
    have hed : e.depth = d := by omega
    have hec : e = c := by
      by_cases hne : e = c
      · exact hne
      · have := h.sep c hcL hca hce e heL (by omega) hne
        omega
    rw [he, hec]
    have hpc := h.top c hcL hca hce
    simp [hcd, hpc, hce]
  | none =>
    have hnone : ∀ x ∈ L, coverI d a x = false := by
      intro x hx
      have := List.find?_eq_none.1 hf x hx
      simpa using this
    cases he : P.getLast? with
    | none => rfl
    | some e =>
      have heP : e ∈ P := List.mem_of_getLast? he
      have heL : e ∈ L := (hmemL e).1 (by simp [heP])
      have het := hP e heP
      have hcov := hnone e heL
      simp only [inlLE, t, Bool.or_eq_true, decide_eq_true_eq, Bool.and_eq_true] at het
      simp only [coverI, Bool.and_eq_false_iff, decide_eq_false_iff_not] at hcov
      by_cases hd : e.depth = d
      · have h1 : e.address ≤ a := by omega
        have h2 : ¬ a < e.address + e.size := by
          rcases hcov with (h' | h') | h'
          · exact absurd hd h'
          · exact absurd h1 h'
          · exact h'
        simp [hd, h2]
      · simp [hd]

theorem inlAt_of_inlOK (L : List Inlinee) (h : InlOK L) (a : Nat) : InlAt L a := by
  have hsymm : ∀ i j : Inlinee, (i.depth = j.depth → i.address + i.size ≤ j.address ∨ j.address + j.size ≤ i.address) →
      (j.depth = i.depth → j.address + j.size ≤ i.address ∨ i.address + i.size ≤ j.address) := by
    intro i j hij hd; exact (hij hd.symm).symm
  refine ⟨fun c hc _ _ => (h.pos c hc).2, ?_⟩
  intro c hc _ _ e he hd hne
  have := pairwise_mem_ne _ hsymm L h.disj e c he hc hne hd
  have hpe := (h.pos e he).1
  omega

theorem inlineeAt_sorted (L : List Inlinee) (h : InlOK L) (d a : Nat) :
    inlineeAt (L.mergeSort inlLE) d a = L.find? (coverI d a) :=
  inlineeAt_sorted_at L a (inlAt_of_inlOK L h a) d

def triple (i : Inlinee) : Nat × Nat × Nat := (i.callLine, i.callFile, i.originId)

theorem find_ranges (depth callLine callFile org d a : Nat) (rs : List (Nat × Nat)) :
    ((rs.map fun p => (⟨depth, p.1, p.2, callFile, callLine, org⟩ : Inlinee)).find? (coverI d a)).map triple
      = if (decide (depth = d) && rs.any (covers · a)) = true then some (callLine, callFile, org) else none := by
  induction rs with
  | nil => simp
  | cons r rs ih =>
    rw [List.map_cons, List.find?_cons, List.any_cons]
    cases hdec : decide (depth = d) with
    | false =>
      have hd : ¬ depth = d := by simpa using hdec
      have h1 : coverI d a ⟨depth, r.1, r.2, callFile, callLine, org⟩ = false := by
        simp [coverI, hd]
      rw [h1]
      simp only
      rw [ih, hdec]
      simp
    | true =>
      have hd : depth = d := by simpa using hdec
      cases hc : covers r a with
      | true =>
        have h1 : coverI d a ⟨depth, r.1, r.2, callFile, callLine, org⟩ = true := by
          simp only [covers, Bool.and_eq_true, decide_eq_true_eq] at hc
          simp [coverI, hd, hc.1, hc.2]
        rw [h1]
        simp [triple]
      | false =>
        have h1 : coverI d a ⟨depth, r.1, r.2, callFile, callLine, org⟩ = false := by
          simp only [covers, Bool.and_eq_false_iff, decide_eq_false_iff_not] at hc
          simp only [coverI, Bool.and_eq_false_iff, decide_eq_false_iff_not]
          rcases hc with h' | h'
          · exact Or.inl (Or.inr h')
          · exact Or.inr h'
        rw [h1]
        simp only
        rw [ih, hdec]
        first | rfl | simp

theorem covering_inlineAt (body : List Rec) (d a : Nat) :
    ((inlineesOf body).find? (coverI d a)).map triple = inlineAt body d a := by
  induction body with
  | nil => rfl
  | cons r body ih =>
    unfold inlineAt at ih ⊢
    cases r with
    | inline depth callLine callFile org r0 ranges =>
      rw [inlineesOf, List.find?_append, List.findSome?_cons]
      have hfr := find_ranges depth callLine callFile org d a (r0 :: ranges)
      simp only
      rw [← hfr]
      cases hx : ((r0 :: ranges).map fun p => (⟨depth, p.1, p.2, callFile, callLine, org⟩ : Inlinee)).find? (coverI d a) with
      | none =>
        simp only [Option.none_or, Option.map_none]
        exact ih
      | some i => simp
    | info _ => simpa [inlineesOf] using ih
    | file _ _ => simpa [inlineesOf] using ih
    | origin _ _ => simpa [inlineesOf] using ih
    | pub _ _ _ _ => simpa [inlineesOf] using ih
    | func _ _ _ _ _ => simpa [inlineesOf] using ih
    | line _ _ _ _ => simpa [inlineesOf] using ih
    | stack _ => simpa [inlineesOf] using ih

theorem inlineesOf_length (body : List Rec) : (inlineesOf body).length = rangeCount body := by
  induction body with
  | nil => rfl
  | cons r body ih =>
    cases r <;> simp [inlineesOf, rangeCount, ih]
    omega

/-- the loop over inline depths builds the same frames as the reader's chain -/
theorem frames_eq (T : List Byte) (ix : Index) (ls : List SLine) (body : List Rec) (info : FuncInfo) (a : Nat)
    (hfiles : ∀ idx, getString fileLine T ix.files idx = fileName ls idx)
    (horigins : ∀ idx, getString inlineOriginLine T ix.origins idx = originName ls idx)
    (hstep : ∀ d, (inlineeAt info.inlinees d a).map triple = inlineAt body d a) :
    ∀ (fuel depth : Nat) (name : Option (List Byte)) (acc : List Frame),
      inlineFrames T ix info a fuel depth name acc =
        (acc ++ (chain ls body a fuel depth name).1, (chain ls body a fuel depth name).2) := by
  intro fuel
  induction fuel with
  | zero => intro depth name acc; simp [inlineFrames, chain]
  | succ f ih =>
    intro depth name acc
    simp only [inlineFrames, chain]
    have hs := hstep depth
    cases hi : inlineeAt info.inlinees depth a with
    | none =>
      rw [hi] at hs
      simp only [Option.map_none] at hs
      rw [← hs]
      simp
    | some i =>
      rw [hi] at hs
      simp only [Option.map_some, triple] at hs
      rw [← hs]
      simp only
      rw [ih, hfiles, horigins]
      simp

/-! ### line records -/

def coverL (a : Nat) (l : SourceLine) : Bool := decide (l.address ≤ a) && decide (a < l.address + l.size)

theorem linesOK_lt (l : SourceLine) (rest : List SourceLine) (fend : Nat) (h : LinesOK (l :: rest) fend) :
    ∀ x ∈ rest, l.address < x.address := by
  induction rest generalizing l with
  | nil => simp
  | cons l2 rest ih =>
    obtain ⟨h1, _, h3⟩ := h
    intro x hx
    rcases List.mem_cons.1 hx with e | e
    · subst e; exact h1
    · exact Nat.lt_trans h1 (ih l2 h3 x e)

theorem linesOK_sorted (LS : List SourceLine) (fend : Nat) (h : LinesOK LS fend) :
    LS.Pairwise (fun a b => a.address ≤ b.address) := by
  induction LS with
  | nil => simp
  | cons l rest ih =>
    refine List.pairwise_cons.2 ⟨fun x hx => Nat.le_of_lt (linesOK_lt l rest fend h x hx), ?_⟩
    cases rest with
    | nil => simp
    | cons l2 r => exact ih h.2.2

theorem takeWhile_last_cover (LS : List SourceLine) (fend a : Nat) (h : LinesOK LS fend) (ha : a < fend) :
    (LS.takeWhile (fun l => decide (l.address ≤ a))).getLast? = LS.find? (coverL a) := by
  induction LS with
  | nil => rfl
  | cons l1 rest ih =>
    cases rest with
    | nil =>
      have h' : fend ≤ l1.address + l1.size := h
      by_cases h1 : l1.address ≤ a
      · have : a < l1.address + l1.size := by omega
        simp [List.takeWhile, h1, coverL, this]
      · simp [List.takeWhile, h1, coverL]
    | cons l2 r =>
      obtain ⟨hlt, hcont, hrest⟩ := h
      have ih' := ih hrest
      by_cases h1 : l1.address ≤ a
      · by_cases h2 : l2.address ≤ a
        · have hc : coverL a l1 = false := by
            simp only [coverL, Bool.and_eq_false_iff, decide_eq_false_iff_not]; right; omega
          rw [List.find?_cons, hc]
          simp only
          rw [← ih']
          simp [List.takeWhile, h1, h2, List.getLast?_cons_cons]
        · have hc : coverL a l1 = true := by
            simp only [coverL, Bool.and_eq_true, decide_eq_true_eq]; omega
          simp [List.takeWhile, h1, h2, List.find?_cons, hc]
      · have hall := linesOK_lt l1 (l2 :: r) fend ⟨hlt, hcont, hrest⟩
        have hnone : (l1 :: l2 :: r).find? (coverL a) = none := by
          rw [List.find?_eq_none]
          intro x hx
          simp only [coverL, Bool.and_eq_true, decide_eq_true_eq, not_and]
          rcases List.mem_cons.1 hx with e | e
          · subst e; intro hh; exact absurd hh h1
          · intro hh; have := hall x e; omega
        rw [hnone]
        simp [List.takeWhile, h1]

theorem sourceLoc_spec (LS : List SourceLine) (fend a : Nat) (h : LinesOK LS fend) (ha : a < fend) :
    sourceLoc LS a = LS.find? (coverL a) := by
  unfold sourceLoc
  have hs := linesOK_sorted LS fend h
  rw [bsearchLE_sorted (fun (l : SourceLine) => l.address) LS hs a]
  rw [← takeWhile_last_cover LS fend a h ha]
  have hl := List.takeWhile_append_dropWhile (p := fun (l : SourceLine) => decide (l.address ≤ a)) (l := LS)
  generalize LS.takeWhile (fun l => decide (l.address ≤ a)) = P at hl
  generalize LS.dropWhile (fun l => decide (l.address ≤ a)) = Q at hl
  subst hl
  cases hP : P with
  | nil => simp
  | cons p0 P' =>
    rw [← hP]
    have hne : P ≠ [] := by rw [hP]; simp
    have : P.isEmpty = false := by rw [hP]; rfl
    simp only [this, Bool.false_eq_true, if_false, Option.bind_some]
    exact getElem?_append_last P Q hne

/-! ### line records, pointwise in the address -/

theorem linesAsc_sorted (LS : List SourceLine) (h : LinesAsc LS) :
    LS.Pairwise (fun a b => a.address ≤ b.address) := by
  unfold LinesAsc at h
  exact List.Pairwise.imp (fun hab => by omega) h

theorem takeWhile_last_cover_at (LS : List SourceLine) (a : Nat) (hasc : LinesAsc LS) (hat : LineAt LS a) :
    (LS.takeWhile (fun l => decide (l.address ≤ a))).getLast? = LS.find? (coverL a) := by
  induction LS with
  | nil => rfl
  | cons l1 rest ih =>
    have hp := List.pairwise_cons.1 hasc
    by_cases h1 : l1.address ≤ a
    · by_cases hc : a < l1.address + l1.size
      · -- l1 covers a: nothing behind it starts at or below a
        have hcov : coverL a l1 = true := by simp [coverL, h1, hc]
        have hrest : rest.takeWhile (fun l => decide (l.address ≤ a)) = [] := by
          cases rest with
          | nil => rfl
          | cons l2 r =>
            have := hp.1 l2 (by simp)
            have : ¬ l2.address ≤ a := by omega
            simp [List.takeWhile, this]
        simp [List.takeWhile, h1, hrest, List.find?_cons, hcov]
      · -- l1 starts at or below a but does not cover it: the covering record is in the rest
        have hcov : coverL a l1 = false := by
          simp only [coverL, Bool.and_eq_false_iff, decide_eq_false_iff_not]; right; exact hc
        obtain ⟨l, hl, hla, hlb⟩ : ∃ l ∈ rest, l.address ≤ a ∧ a < l.address + l.size := by
          rcases hat with ⟨l, hl, hla, hlb⟩ | hall
          · rcases List.mem_cons.1 hl with e | e
            · subst e; exact absurd hlb hc
            · exact ⟨l, e, hla, hlb⟩
          · exact absurd (hall l1 (by simp)) (by omega)
        have hat' : LineAt rest a := Or.inl ⟨l, hl, hla, hlb⟩
        have ih' := ih hp.2 hat'
        have hsome : ∃ x, rest.find? (coverL a) = some x := by
          cases hf : rest.find? (coverL a) with
          | some x => exact ⟨x, rfl⟩
          | none =>
            have := List.find?_eq_none.1 hf l hl
            exact absurd (by simp [coverL, hla, hlb]) this
        obtain ⟨x, hx⟩ := hsome
        rw [List.find?_cons, hcov]
        simp only
        rw [← ih']
        rw [hx] at ih'
        have hne : rest.takeWhile (fun l => decide (l.address ≤ a)) ≠ [] := by
          intro he; rw [he] at ih'; cases ih'
        simp only [List.takeWhile, h1, decide_true]
        cases hT : rest.takeWhile (fun l => decide (l.address ≤ a)) with
        | nil => exact absurd hT hne
        | cons t ts => rw [List.getLast?_cons_cons]
    · -- a lies before l1, hence before everything
      have hnone : (l1 :: rest).find? (coverL a) = none := by
        rw [List.find?_eq_none]
        intro x hx
        simp only [coverL, Bool.and_eq_true, decide_eq_true_eq, not_and]
        rcases List.mem_cons.1 hx with e | e
        · subst e; intro hh; exact absurd hh h1
        · intro hh; have := hp.1 x e; omega
      rw [hnone]
      simp [List.takeWhile, h1]

theorem sourceLoc_spec_at (LS : List SourceLine) (a : Nat) (hasc : LinesAsc LS) (hat : LineAt LS a) :
    sourceLoc LS a = LS.find? (coverL a) := by
  unfold sourceLoc
  have hs := linesAsc_sorted LS hasc
  rw [bsearchLE_sorted (fun (l : SourceLine) => l.address) LS hs a]
  rw [← takeWhile_last_cover_at LS a hasc hat]
  have hl := List.takeWhile_append_dropWhile (p := fun (l : SourceLine) => decide (l.address ≤ a)) (l := LS)
  generalize LS.takeWhile (fun l => decide (l.address ≤ a)) = P at hl
  generalize LS.dropWhile (fun l => decide (l.address ≤ a)) = Q at hl
  subst hl
  cases hP : P with
  | nil => simp
  | cons p0 P' =>
    rw [← hP]
    have hne : P ≠ [] := by rw [hP]; simp
    have : P.isEmpty = false := by rw [hP]; rfl
    simp only [this, Bool.false_eq_true, if_false, Option.bind_some]
    exact getElem?_append_last P Q hne

theorem linesOK_ge (l : SourceLine) (rest : List SourceLine) (fend : Nat) (h : LinesOK (l :: rest) fend) :
    ∀ x ∈ rest, l.address + l.size ≤ x.address := by
  cases rest with
  | nil => simp
  | cons l2 r =>
    obtain ⟨_, h2, h3⟩ := h
    intro x hx
    rcases List.mem_cons.1 hx with e | e
    · subst e; omega
    · have := linesOK_lt l2 r fend h3 x e; omega

theorem linesAsc_of_linesOK (LS : List SourceLine) (fend : Nat) (h : LinesOK LS fend) : LinesAsc LS := by
  induction LS with
  | nil => exact List.Pairwise.nil
  | cons l rest ih =>
    refine List.pairwise_cons.2 ⟨linesOK_ge l rest fend h, ?_⟩
    cases rest with
    | nil => exact List.Pairwise.nil
    | cons l2 r => exact ih h.2.2

theorem lineAt_of_linesOK (LS : List SourceLine) (fend a : Nat) (h : LinesOK LS fend) (ha : a < fend) :
    LineAt LS a := by
  induction LS with
  | nil => right; simp
  | cons l1 rest ih =>
    cases rest with
    | nil =>
      have h' : fend ≤ l1.address + l1.size := h
      by_cases h1 : l1.address ≤ a
      · left; exact ⟨l1, by simp, h1, by omega⟩
      · right; intro l hl; simp at hl; subst hl; omega
    | cons l2 r =>
      obtain ⟨hlt, hcont, hrest⟩ := h
      by_cases h1 : l1.address ≤ a
      · by_cases hc : a < l1.address + l1.size
        · left; exact ⟨l1, by simp, h1, hc⟩
        · rcases ih hrest with ⟨l, hl, hla, hlb⟩ | hall
          · left; exact ⟨l, List.mem_cons_of_mem _ hl, hla, hlb⟩
          · have := hall l2 (by simp); omega
      · right
        intro l hl
        rcases List.mem_cons.1 hl with e | e
        · subst e; omega
        · have := linesOK_lt l1 (l2 :: r) fend ⟨hlt, hcont, hrest⟩ l e; omega

theorem cover_lineAt (body : List Rec) (a : Nat) :
    ((linesOf body).find? (coverL a)).map (fun l => (l.line, l.file)) = lineAt body a := by
  induction body with
  | nil => rfl
  | cons r body ih =>
    unfold lineAt at ih ⊢
    cases r with
    | line addr size ln fl =>
      simp only [linesOf, List.find?_cons, List.findSome?_cons]
      by_cases hc : covers (addr, size) a = true
      · have : coverL a ⟨addr, size, fl, ln⟩ = true := by simpa [coverL, covers] using hc
        simp [this, hc]
      · have hc' : covers (addr, size) a = false := by simpa using hc
        have : coverL a ⟨addr, size, fl, ln⟩ = false := by simpa [coverL, covers] using hc'
        simp only [this, hc', Bool.false_eq_true, if_false]
        exact ih
    | info _ => simpa [linesOf] using ih
    | file _ _ => simpa [linesOf] using ih
    | origin _ _ => simpa [linesOf] using ih
    | pub _ _ _ _ => simpa [linesOf] using ih
    | func _ _ _ _ _ => simpa [linesOf] using ih
    | inline _ _ _ _ _ _ => simpa [linesOf] using ih
    | stack _ => simpa [linesOf] using ih

end BPS
