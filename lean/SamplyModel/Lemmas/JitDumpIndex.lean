import SamplyModel.Lemmas.SymbolLookup
import SamplyModel.Model.JitDumpIndex
/-!
Lemmas about the jitdump index (C05): cumulative addresses, the two searches, cache transparency.
-/
namespace JitDump
open SymLookup

/-- hypotheses on the code records: non-empty code (⇒ strictly increasing relative addresses, so the
`binary_search` contract determines the answer), code sizes below 4 GiB (`code_bytes_len as u32` is exact),
and the file layout (the code bytes of a record end before the next record's code bytes begin; there is at
least a record header in between) -/
structure WF (entries : List Entry) : Prop where
  pos : ∀ e ∈ entries, 0 < e.len
  small : ∀ e ∈ entries, e.len < U32
  layout : entries.Pairwise (fun e1 e2 => e1.codeOff + e1.len < e2.codeOff)

theorem relsFrom_spec (es : List Entry) : ∀ (cum : Nat) (rels : List Nat), relsFrom cum es = some rels →
    rels.length = es.length ∧ (∀ x ∈ rels, cum ≤ x) ∧ rels.Pairwise (· ≤ ·) ∧
    ∀ (i : Nat) (e : Entry) (s : Nat), es[i]? = some e → rels[i]? = some s →
      ∀ (j s' : Nat), i < j → rels[j]? = some s' → s + e.len % U32 ≤ s' := by
  induction es with
  | nil =>
    intro cum rels h
    simp [relsFrom] at h
    subst h
    simp
  | cons e rest ih =>
    intro cum rels h
    unfold relsFrom at h
    split at h
    next hlt =>
      cases hr : relsFrom (cum + e.len % U32) rest with
      | none => simp [hr] at h
      | some rels' =>
        simp [hr] at h
        subst h
        obtain ⟨h1, h2, h3, h4⟩ := ih _ _ hr
        refine ⟨by simp [h1], ?_, ?_, ?_⟩
        · intro x hx
          simp at hx
          rcases hx with rfl | hx
          · omega
          · have := h2 x hx; omega
        · rw [List.pairwise_cons]
          exact ⟨fun x hx => by have := h2 x hx; omega, h3⟩
        · intro i e0 s he hs j s' hij hj
          cases j with
          | zero => omega
          | succ j' =>
            simp at hj
            cases i with
            | zero =>
              simp at he hs
              subst he; subst hs
              exact h2 s' (List.mem_of_getElem? hj)
            | succ i' =>
              simp at he hs
              exact h4 i' e0 s he hs j' s' (by omega) hj
    · simp at h

theorem buildIndex_spec {entries : List Entry} {ix : Index} (h : buildIndex entries = some ix) :
    ix.entries = entries ∧ relsFrom 0 entries = some ix.rels := by
  unfold buildIndex at h
  cases hr : relsFrom 0 entries with
  | none => simp [hr] at h
  | some rels => simp [hr] at h; subst h; exact ⟨rfl, rfl⟩

theorem getElem?_lt {α : Type} {l : List α} {i : Nat} {x : α} (h : l[i]? = some x) : i < l.length := by
  rcases Nat.lt_or_ge i l.length with h' | h'
  · exact h'
  · simp [List.getElem?_eq_none h'] at h

/-- facts about a successful `lookup_relative_address` -/
theorem lookupRelative_hit {entries : List Entry} {ix : Index} (hb : buildIndex entries = some ix)
    {a i s off : Nat} (h : lookupRelative ix a = .hit (i, s, off)) :
    ix.rels[i]? = some s ∧ (∃ e, entries[i]? = some e ∧ a - s < e.len) ∧ s ≤ a ∧ off = a - s ∧
    (∀ (j s' : Nat), i < j → ix.rels[j]? = some s' → a < s') := by
  obtain ⟨he, hr⟩ := buildIndex_spec hb
  obtain ⟨_, _, hsorted, _⟩ := relsFrom_spec _ _ _ hr
  unfold lookupRelative at h
  split at h
  · simp at h
  next i' hp =>
    obtain ⟨k, hk, hka, hgt⟩ := pickIndex_spec _ a hsorted i' hp
    split at h
    next s0 e0 hs0 he0 =>
      split at h
      · simp at h
      · split at h
        · simp at h
        next hlen =>
          injection h with h
          simp only [Prod.mk.injEq] at h
          obtain ⟨rfl, rfl, rfl⟩ := h
          rw [hs0] at hk
          injection hk with hk
          subst hk
          rw [he] at he0
          exact ⟨hs0, ⟨e0, he0, by omega⟩, hka, rfl, hgt⟩
    · simp at h

theorem lookupRelative_no_panic {entries : List Entry} {ix : Index} (hb : buildIndex entries = some ix)
    (a : Nat) : lookupRelative ix a ≠ .panic := by
  obtain ⟨he, hr⟩ := buildIndex_spec hb
  obtain ⟨hlen, _, hsorted, _⟩ := relsFrom_spec _ _ _ hr
  unfold lookupRelative
  split
  · simp
  next i hp =>
    obtain ⟨k, hk, hka, _⟩ := pickIndex_spec _ a hsorted i hp
    have hi := getElem?_lt hk
    have hi' : i < ix.entries.length := by rw [he]; omega
    split
    next s e hs he0 =>
      rw [hs] at hk
      injection hk with hk
      subst hk
      split
      · omega
      · split <;> simp
    next hnot =>
      exfalso
      exact hnot ix.rels[i] ix.entries[i] (by simp [hi]) (by simp [hi'])

theorem layout_keys_le {entries : List Entry}
    (h : entries.Pairwise (fun e1 e2 => e1.codeOff + e1.len < e2.codeOff)) :
    (entries.map (·.codeOff)).Pairwise (· ≤ ·) := by
  rw [List.pairwise_map]
  exact h.imp (fun h => by omega)

/-- facts about a successful `lookup_offset` -/
theorem lookupOffset_hit {entries : List Entry} {ix : Index} (hb : buildIndex entries = some ix)
    {o i s off : Nat} (h : lookupOffset ix o = .hit (i, s, off)) :
    ∃ e, entries[i]? = some e ∧ ix.rels[i]? = some s ∧ o = e.codeOff + off ∧ off < e.len := by
  obtain ⟨he, _⟩ := buildIndex_spec hb
  unfold lookupOffset at h
  split at h
  · simp at h
  next i' hp =>
    split at h
    · simp at h
    next e0 he0 =>
      split at h
      · simp at h
      · split at h
        · simp at h
        · split at h
          · simp at h
          next s0 hs0 =>
            injection h with h
            simp only [Prod.mk.injEq] at h
            obtain ⟨rfl, rfl, rfl⟩ := h
            rw [he] at he0
            exact ⟨e0, he0, hs0, by omega, by omega⟩

theorem lookupOffset_no_panic {entries : List Entry} {ix : Index} (hb : buildIndex entries = some ix)
    (hl : entries.Pairwise (fun e1 e2 => e1.codeOff + e1.len < e2.codeOff))
    (o : Nat) : lookupOffset ix o ≠ .panic := by
  obtain ⟨he, hr⟩ := buildIndex_spec hb
  obtain ⟨hlen, _, _, _⟩ := relsFrom_spec _ _ _ hr
  unfold lookupOffset
  split
  · simp
  next i hp =>
    have hsorted : (ix.entries.map (·.codeOff)).Pairwise (· ≤ ·) := by rw [he]; exact layout_keys_le hl
    obtain ⟨k, hk, hka, _⟩ := pickIndex_spec _ o hsorted i hp
    have hi := getElem?_lt hk
    simp at hi
    split
    next hnone => simp at hnone; omega
    next e0 he0 =>
      have : k = e0.codeOff := by simp [List.getElem?_map, he0] at hk; exact hk.symm
      subst this
      split
      · omega
      · split
        · simp
        · split
          next hnone => simp at hnone; rw [he] at hi; omega
          · simp

/-- the two address forms of one code byte find the same entry -/
theorem locate_forms {entries : List Entry} {ix : Index} (hb : buildIndex entries = some ix)
    (hsmall : ∀ e ∈ entries, e.len < U32)
    (hl : entries.Pairwise (fun e1 e2 => e1.codeOff + e1.len < e2.codeOff))
    {i : Nat} {e : Entry} {s k : Nat} (hei : entries[i]? = some e) (hsi : ix.rels[i]? = some s) (hk : k < e.len) :
    lookupOffset ix (e.codeOff + k) = .hit (i, s, k) ∧ lookupRelative ix (s + k) = .hit (i, s, k) := by
  obtain ⟨he, hr⟩ := buildIndex_spec hb
  obtain ⟨hlen, _, hsorted, hnext⟩ := relsFrom_spec _ _ _ hr
  have hsm := hsmall e (List.mem_of_getElem? hei)
  have hmod : e.len % U32 = e.len := Nat.mod_eq_of_lt hsm
  constructor
  · have hp : pickIndex (ix.entries.map (·.codeOff)) (e.codeOff + k) = some i := by
      rw [he]
      apply pickIndex_of_spec _ _ i e.codeOff (layout_keys_le hl) (by simp [List.getElem?_map, hei]) (by omega)
      intro k' hk'
      simp only [List.getElem?_map] at hk'
      cases hn : entries[i + 1]? with
      | none => simp [hn] at hk'
      | some e2 =>
        simp [hn] at hk'
        subst hk'
        have hi := getElem?_lt hei
        have hi2 := getElem?_lt hn
        have := (List.pairwise_iff_getElem.mp hl) i (i + 1) hi hi2 (by omega)
        simp [hi] at hei
        simp [hi2] at hn
        subst hei; subst hn
        omega
    unfold lookupOffset
    rw [hp]
    simp only
    rw [he, hei]
    simp only
    rw [if_neg (by omega), if_neg (by omega), hsi]
    simp
  · have hp : pickIndex ix.rels (s + k) = some i := by
      apply pickIndex_of_spec _ _ i s hsorted hsi (by omega)
      intro k' hk'
      have := hnext i e s hei hsi (i + 1) k' (by omega) hk'
      omega
    unfold lookupRelative
    rw [hp]
    simp only
    rw [hsi, he, hei]
    simp only
    rw [if_neg (by omega), if_neg (by omega)]
    simp

/-! ### enumeration -/

theorem mem_iterFrom (ix : Index) (l : List Nat) : ∀ (k : Nat) (p : Nat × Name),
    p ∈ iterFrom ix k l ↔ ∃ j, l[j]? = some p.1 ∧ nameAt ix (k + j) = some p.2 := by
  induction l with
  | nil => intro k p; simp [iterFrom]
  | cons s rest ih =>
    intro k p
    unfold iterFrom
    constructor
    · intro h
      cases hn : nameAt ix k with
      | some n =>
        simp [hn] at h
        rcases h with rfl | h
        · exact ⟨0, by simp, by simpa using hn⟩
        · obtain ⟨j, h1, h2⟩ := (ih (k + 1) p).mp h
          exact ⟨j + 1, by simpa using h1, by rw [← h2]; congr 1; omega⟩
      | none =>
        simp [hn] at h
        obtain ⟨j, h1, h2⟩ := (ih (k + 1) p).mp h
        exact ⟨j + 1, by simpa using h1, by rw [← h2]; congr 1; omega⟩
    · rintro ⟨j, h1, h2⟩
      cases j with
      | zero =>
        simp at h1 h2
        rw [h2]
        simp
        left
        cases p; simp at h1 ⊢; exact h1.symm
      | succ j' =>
        simp at h1
        have : p ∈ iterFrom ix (k + 1) rest := (ih (k + 1) p).mpr ⟨j', h1, by rw [← h2]; congr 1; omega⟩
        cases nameAt ix k <;> simp [this]

theorem mem_iterSymbols (ix : Index) (p : Nat × Name) :
    p ∈ iterSymbols ix ↔ ∃ j, ix.rels[j]? = some p.1 ∧ nameAt ix j = some p.2 := by
  unfold iterSymbols
  rw [mem_iterFrom]
  simp

/-! ### cache transparency -/

theorem lookupC_spec (ix : Index) (c : Memo Name) (a : Addr) (hc : MemoOk (nameAt ix) c) :
    (lookupC ix c a).2 = lookup ix a ∧ MemoOk (nameAt ix) (lookupC ix c a).1 := by
  unfold lookupC lookup
  split
  · exact ⟨rfl, hc⟩
  · exact ⟨rfl, hc⟩
  next i s off _ =>
    have := Memo.get_spec (nameAt ix) c i hc
    simp only
    exact ⟨by rw [this.1], this.2⟩

theorem iterFromC_spec (ix : Index) (l : List Nat) : ∀ (k : Nat) (c : Memo Name), MemoOk (nameAt ix) c →
    (iterFromC ix k l c).2 = iterFrom ix k l ∧ MemoOk (nameAt ix) (iterFromC ix k l c).1 := by
  induction l with
  | nil => intro k c hc; exact ⟨rfl, hc⟩
  | cons s rest ih =>
    intro k c hc
    have hg := Memo.get_spec (nameAt ix) c k hc
    have := ih (k + 1) _ hg.2
    unfold iterFromC iterFrom
    simp only
    refine ⟨?_, this.2⟩
    rw [this.1, hg.1]

theorem runC_spec (ix : Index) (ops : List Op) : ∀ (c : Memo Name), MemoOk (nameAt ix) c →
    runC ix c ops = ops.map (pureAns ix) := by
  induction ops with
  | nil => intro c _; rfl
  | cons op rest ih =>
    intro c hc
    cases op with
    | lookup a =>
      have := lookupC_spec ix c a hc
      simp only [runC, List.map_cons, pureAns]
      rw [this.1, ih _ this.2]
    | iter =>
      have := iterFromC_spec ix ix.rels 0 c hc
      simp only [runC, List.map_cons, pureAns, iterSymbolsC, iterSymbols]
      rw [this.1, ih _ this.2]

/-! ### per-element cache transparency -/

theorem iterElemC_spec (ix : Index) (c : Memo Name) (i : Nat) (hc : MemoOk (nameAt ix) c) :
    (iterElemC ix c i).2 = iterElem ix i ∧ MemoOk (nameAt ix) (iterElemC ix c i).1 := by
  unfold iterElemC iterElem
  cases hi : ix.rels[i]? with
  | none => exact ⟨rfl, hc⟩
  | some s =>
    have hg := Memo.get_spec (nameAt ix) c i hc
    simp only [Option.bind_some]
    exact ⟨by rw [hg.1], hg.2⟩

theorem runSteps_spec (ix : Index) (steps : List Step) : ∀ (c : Memo Name), MemoOk (nameAt ix) c →
    runSteps ix c steps = steps.map (pureStep ix) := by
  induction steps with
  | nil => intro c _; rfl
  | cons st rest ih =>
    intro c hc
    cases st with
    | lookup a =>
      have := lookupC_spec ix c a hc
      simp only [runSteps, List.map_cons, pureStep]
      rw [this.1, ih _ this.2]
    | elem i =>
      have := iterElemC_spec ix c i hc
      simp only [runSteps, List.map_cons, pureStep]
      rw [this.1, ih _ this.2]

theorem iterFrom_eq_zipIdx (ix : Index) (l : List Nat) : ∀ k : Nat,
    iterFrom ix k l = (l.zipIdx k).filterMap (fun p => (nameAt ix p.2).map fun n => (p.1, n)) := by
  induction l with
  | nil => intro k; rfl
  | cons s rest ih =>
    intro k
    unfold iterFrom
    simp only [List.zipIdx_cons, List.filterMap_cons]
    cases nameAt ix k with
    | none => simp [ih (k + 1)]
    | some n => simp [ih (k + 1)]

/-- the elements `0..symbol_count()` put together are the enumeration -/
theorem iterSymbols_eq_elems (ix : Index) :
    (List.range ix.rels.length).filterMap (iterElem ix) = iterSymbols ix := by
  have := filterMap_range_getElem? ix.rels (fun i s => (nameAt ix i).map fun n => (s, n))
  unfold iterElem iterSymbols
  rw [this, iterFrom_eq_zipIdx]

/-! ### the record stream: the layout hypothesis of `WF` is a theorem -/

theorem entriesFrom_lower (fileLen : Nat) (recs : List Rec) : ∀ (off : Nat) (e : Entry),
    e ∈ entriesFrom fileLen off recs → off + 57 ≤ e.codeOff ∧ e.codeOff + e.len ≤ fileLen := by
  induction recs with
  | nil => intro off e h; simp [entriesFrom] at h
  | cons r rest ih =>
    intro off e h
    unfold entriesFrom at h
    split at h
    · simp at h
    next hfit =>
      cases r with
      | load nl cl nm =>
        simp only [List.mem_cons] at h
        rcases h with rfl | h
        · simp only [Rec.size] at hfit; dsimp only; omega
        · have := ih _ e h; simp only [Rec.size] at this; omega
      | debugInfo s => have := ih _ e h; simp only [Rec.size] at this; omega
      | other s => have := ih _ e h; simp only [Rec.size] at this; omega

/-- the file layout hypothesis of `WF` holds for every record stream: code bytes of one record end before the next
record's code bytes begin -/
theorem entriesFrom_layout (fileLen : Nat) (recs : List Rec) : ∀ (off : Nat),
    (entriesFrom fileLen off recs).Pairwise (fun e1 e2 => e1.codeOff + e1.len < e2.codeOff) := by
  induction recs with
  | nil => intro off; simp [entriesFrom]
  | cons r rest ih =>
    intro off
    unfold entriesFrom
    split
    · simp
    · cases r with
      | load nl cl nm =>
        simp only
        rw [List.pairwise_cons]
        refine ⟨?_, ih _⟩
        intro e he
        have := (entriesFrom_lower fileLen rest _ e he).1
        simp only [Rec.size] at this
        dsimp only
        omega
      | debugInfo s => exact ih _
      | other s => exact ih _

theorem entriesFrom_len (fileLen : Nat) (recs : List Rec) : ∀ (off : Nat) (e : Entry),
    e ∈ entriesFrom fileLen off recs → ∃ nl nm, Rec.load nl e.len nm ∈ recs := by
  induction recs with
  | nil => intro off e h; simp [entriesFrom] at h
  | cons r rest ih =>
    intro off e h
    unfold entriesFrom at h
    split at h
    · simp at h
    · cases r with
      | load nl cl nm =>
        simp only [List.mem_cons] at h
        rcases h with rfl | h
        · exact ⟨nl, nm, by simp⟩
        · obtain ⟨a, b, hab⟩ := ih _ e h; exact ⟨a, b, List.mem_cons_of_mem _ hab⟩
      | debugInfo s => obtain ⟨a, b, hab⟩ := ih _ e h; exact ⟨a, b, List.mem_cons_of_mem _ hab⟩
      | other s => obtain ⟨a, b, hab⟩ := ih _ e h; exact ⟨a, b, List.mem_cons_of_mem _ hab⟩

/-- for a record stream whose code records are non-empty and below 4 GiB, `WF` holds for what `from_reader` builds
from any prefix of the file -/
theorem entriesFrom_WF (fileLen off : Nat) (recs : List Rec)
    (h : ∀ nl cl nm, Rec.load nl cl nm ∈ recs → 0 < cl ∧ cl < U32) : WF (entriesFrom fileLen off recs) := by
  refine ⟨?_, ?_, entriesFrom_layout fileLen recs off⟩
  · intro e he
    obtain ⟨nl, nm, hm⟩ := entriesFrom_len fileLen recs off e he
    exact (h nl e.len nm hm).1
  · intro e he
    obtain ⟨nl, nm, hm⟩ := entriesFrom_len fileLen recs off e he
    exact (h nl e.len nm hm).2
end JitDump
