import SamplyModel.Lemmas.ConvCsRun
/-!
C12 after the flush (convD5): for histories without EXIT / EXEC records every (pid, tid) has one incarnation, all
samples buffered for it are those of `threadRun` over its records (`TWn`, the no-cut form of `TW` without the `old`
prefix), every buffered item sits in the buffer of the process whose pid it was recorded for and nothing is parked
(`KInv`); the flush keeps entry, cpu delta, weight and kind of every item (`flushBuffer_cpu`), and `views` groups
the flushed samples by entry — so the equations of `C12_conv_cpu` / `C12_conv_offcpu` hold of the samples of the
thread entries carrying (pid, tid) in `views (run cfg rs)`.
-/
namespace Conv
open ConvSpec CS

structure TWn (cfg : Config) (s : St) (pid tid : Nat) (r : TRun) : Prop where
  sim : ∃ st, Sim cfg s st
  tq : (pobs s.procs pid).thr tid = tqOf r.th
  /-- without EXIT / EXEC: all samples buffered for (pid, tid) are those of the one incarnation -/
  buf : (threadBuf s pid tid).map esamp = r.out.map esamp
  safe : s.bad = false → r.safe = true

theorem TWn.congr {cfg : Config} {s s' : St} {pid tid : Nat} {r : TRun} (h : TWn cfg s pid tid r)
    (hsim' : ∃ st, Sim cfg s' st) (hthr : (pobs s'.procs pid).thr tid = (pobs s.procs pid).thr tid)
    (hsamp : (pobs s'.procs pid).samples = (pobs s.procs pid).samples) (hbad : s'.bad = s.bad) :
    TWn cfg s' pid tid r :=
  ⟨hsim', by rw [hthr]; exact h.tq, by unfold threadBuf; rw [hsamp]; exact h.buf, by rw [hbad]; exact h.safe⟩

/-- a record that goes through `commitThread` for the thread (p, t') -/
theorem TWn.commit {cfg : Config} {s s' : St} {pid tid : Nat} {r r' : TRun} (h : TWn cfg s pid tid r)
    (hsim' : ∃ st, Sim cfg s' st) (p t' : Nat) (q' : TQ) (new : List USample) (safe' : Bool)
    (hobs : ∀ a, pobs s'.procs a = upd (pobs s.procs) p
      { (pobs s.procs p).setThr t' q' with samples := (pobs s.procs p).samples ++ new } a)
    (hbad : s'.bad = (s.bad || !safe')) (hnew : ∀ u ∈ new, u.gtid = t' ∧ u.marker = false)
    (hmine : p = pid → t' = tid →
      q' = tqOf r'.th ∧ r'.out.map esamp = r.out.map esamp ++ new.map esamp ∧ r'.safe = (r.safe && safe'))
    (hother : ¬ (p = pid ∧ t' = tid) → r' = r) : TWn cfg s' pid tid r' := by
  have hbad1 : s'.bad = false → s.bad = false ∧ safe' = true := by
    intro hb
    rw [hbad] at hb
    cases h1 : s.bad <;> cases h2 : safe' <;> simp_all
  by_cases hp : p = pid
  · subst hp
    by_cases ht : t' = tid
    · subst ht
      obtain ⟨m1, m2, m3⟩ := hmine rfl rfl
      refine ⟨hsim', ?_, ?_, ?_⟩
      · rw [hobs p]; unfold upd; rw [if_pos rfl]
        simp only [PObs.setThr, if_true]
        exact m1
      · have hold := h.buf
        unfold threadBuf at hold ⊢
        rw [hobs p]; unfold upd; rw [if_pos rfl]
        show ((((pobs s.procs p).samples ++ new)).filter (fun u => u.gtid == t' && !u.marker)).map esamp = _
        rw [List.filter_append, List.map_append, m2, hold]
        congr 1
        rw [List.filter_eq_self.mpr]
        intro u hu; simp [(hnew u hu).1, (hnew u hu).2]
      · intro hb
        obtain ⟨b1, b2⟩ := hbad1 hb
        rw [m3, h.safe b1, b2]; rfl
    · rw [hother (fun e => ht e.2)]
      refine ⟨hsim', ?_, ?_, fun hb => h.safe (hbad1 hb).1⟩
      · rw [hobs p]; unfold upd; rw [if_pos rfl]
        simp only [PObs.setThr]
        rw [if_neg (fun e => ht e.symm)]
        exact h.tq
      · have hold := h.buf
        unfold threadBuf at hold ⊢
        rw [hobs p]; unfold upd; rw [if_pos rfl]
        show ((((pobs s.procs p).samples ++ new)).filter (fun u => u.gtid == tid && !u.marker)).map esamp = _
        rw [List.filter_append]
        have : new.filter (fun u => u.gtid == tid && !u.marker) = [] := by
          rw [List.filter_eq_nil_iff]
          intro u hu
          rw [(hnew u hu).1]
          simp [ht]
        rw [this, List.append_nil]
        exact hold
  · rw [hother (fun e => hp e.1)]
    have e : pobs s'.procs pid = pobs s.procs pid := by
      rw [hobs pid]; unfold upd; rw [if_neg (fun e => hp e.symm)]
    exact ⟨hsim', by rw [e]; exact h.tq, by unfold threadBuf; rw [e]; exact h.buf,
      fun hb => h.safe (hbad1 hb).1⟩

/-- a record that only appends marker items to the buffer of `p` -/
theorem TWn.markers {cfg : Config} {s s' : St} {pid tid : Nat} {r : TRun} (h : TWn cfg s pid tid r)
    (hsim' : ∃ st, Sim cfg s' st) (p : Nat) (new : List USample)
    (hobs : ∀ a, pobs s'.procs a = upd (pobs s.procs) p
      { pobs s.procs p with samples := (pobs s.procs p).samples ++ new } a)
    (hbad : s'.bad = s.bad) (hm : ∀ u ∈ new, u.marker = true) : TWn cfg s' pid tid r := by
  refine ⟨hsim', ?_, ?_, by rw [hbad]; exact h.safe⟩
  · rw [hobs pid]; unfold upd
    split
    · next e => rw [← e]; exact h.tq
    · exact h.tq
  · have hold := h.buf
    unfold threadBuf at hold ⊢
    rw [hobs pid]; unfold upd
    split
    · next e =>
      rw [← e]
      show ((((pobs s.procs pid).samples ++ new)).filter (fun u => u.gtid == tid && !u.marker)).map esamp = _
      rw [List.filter_append]
      have : new.filter (fun u => u.gtid == tid && !u.marker) = [] := by
        rw [List.filter_eq_nil_iff]
        intro u hu
        simp [hm u hu]
      rw [this, List.append_nil]
      exact hold
    · exact hold

theorem twn_step {cfg : Config} {s : St} {pid tid : Nat} {r : TRun} (h : TWn cfg s pid tid r)
    (rec : Rec) (hcut : isCut rec = false) :
    TWn cfg (step s rec) pid tid
      (match trecOf cfg pid tid rec with
       | some x => threadStep (St.init cfg) pid tid r x
       | none => r) := by
  obtain ⟨st, hsim⟩ := h.sim
  have hsim' : ∃ st', Sim cfg (step s rec) st' := ⟨_, step_sim hsim rec⟩
  have hinv := hsim.inv
  have hcfg : s.cfg = cfg := hsim.hcfg
  cases rec with
  | exit pid' tid' t => simp [isCut] at hcut
  | otherEvent p t' t km ip chain =>
    -- a sample of another event never reaches the thread object: only a marker item is buffered
    obtain ⟨_, _, o3, u, _, u2, _, _, _, _, _, o4⟩ := obs_otherEvent hinv p t' t km ip chain
    exact h.markers hsim' p [u] o4 o3 (fun x hx => by simp only [List.mem_singleton] at hx; rw [hx]; exact u2)
  | fork pid' tid' ppid ptid t =>
    obtain ⟨o1, _, _, o4⟩ := obs_fork hinv pid' tid' ppid ptid t
    have e : ∀ a, (pobs (step s (.fork pid' tid' ppid ptid t)).procs a).thr = (pobs s.procs a).thr ∧
        (pobs (step s (.fork pid' tid' ppid ptid t)).procs a).samples = (pobs s.procs a).samples := by
      intro a
      rw [o1 a]
      split
      · exact upd_thr _ _ _ _
      · exact ⟨rfl, rfl⟩
    exact h.congr hsim' (by rw [(e pid).1]) (e pid).2 o4
  | mmap2 pid' tid' addr len pgoff exec path t =>
    obtain ⟨o1, _, _, o4⟩ := obs_mmap2 hinv pid' tid' addr len pgoff exec path t
    have e : ∀ a, (pobs (step s (.mmap2 pid' tid' addr len pgoff exec path t)).procs a).thr = (pobs s.procs a).thr ∧
        (pobs (step s (.mmap2 pid' tid' addr len pgoff exec path t)).procs a).samples = (pobs s.procs a).samples := by
      intro a
      rw [o1 a]
      split
      · exact upd_thr _ _ _ _
      · exact ⟨rfl, rfl⟩
    exact h.congr hsim' (by rw [(e pid).1]) (e pid).2 o4
  | comm pid' tid' name isExec t =>
    cases isExec with
    | true => simp [isCut] at hcut
    | false =>
      obtain ⟨o1, _, _, o4⟩ := obs_comm hinv pid' tid' name false t
      simp only [Bool.false_eq_true, if_false] at o1
      exact h.congr hsim' (by rw [o1 pid]) (by rw [o1 pid]) o4
  | switchIn p t' t =>
    by_cases h0 : t' = 0
    · have hstep : step s (.switchIn p t' t) = s := by rw [h0]; simp [step]
      have hnone : trecOf cfg pid tid (.switchIn p t' t) = none := by
        simp only [trecOf]; rw [if_neg]; intro ⟨_, e, ne⟩; exact ne (e.symm.trans h0)
      rw [hstep, hnone]; exact h
    · have e : step s (.switchIn p t' t) =
          commitThread (getThread (getByPid s p).1 (getByPid s p).2 t').1
            (getThread (getByPid s p).1 (getByPid s p).2 t').2.1 t'
            (wake (getThread (getByPid s p).1 (getByPid s p).2 t').1
              (getThread (getByPid s p).1 (getByPid s p).2 t').2.2 (.switchIn t) p t') := by
        simp [step, h0]
      rw [e] at hsim' ⊢
      obtain ⟨c1, c2, _, c4, _, _, c7⟩ := obs_commit hinv p t' (fun s2 th => wake s2 th (.switchIn t) p t')
      generalize getThread (getByPid s p).1 (getByPid s p).2 t' = gt at *
      refine h.commit hsim' p t' _ _ _ c4 c7
        (fun u hu => ⟨((wake_spec _ _ _ _ _).2.2.2 u hu).1.2.2, wake_nomarker _ _ _ _ _ u hu⟩) ?_ ?_
      · intro hp ht
        subst hp; subst ht
        have hnt : t' ≠ 0 := h0
        simp only [trecOf, hnt, ne_eq, not_false_eq_true, and_self, if_true]
        obtain ⟨w1, w2, w3⟩ := wake_congr (St.init cfg) gt.1 (c1.trans hcfg) r.th gt.2.2 (c2.trans h.tq)
          (.switchIn t) p t'
        refine ⟨w1, ?_, ?_⟩
        · simp only [threadStep, List.map_append, w2]
        · simp only [threadStep, w3]
      · intro hne
        have : trecOf cfg pid tid (.switchIn p t' t) = none := by
          simp only [trecOf]; rw [if_neg]; intro ⟨e1, e2, _⟩; exact hne ⟨e1, e2⟩
        rw [this]
  | switchOut p t' t =>
    by_cases h0 : t' = 0
    · have hstep : step s (.switchOut p t' t) = s := by rw [h0]; simp [step]
      have hnone : trecOf cfg pid tid (.switchOut p t' t) = none := by
        simp only [trecOf]; rw [if_neg]; intro ⟨_, e, ne⟩; exact ne (e.symm.trans h0)
      rw [hstep, hnone]; exact h
    · have e : step s (.switchOut p t' t) =
          commitThread (getThread (getByPid s p).1 (getByPid s p).2 t').1
            (getThread (getByPid s p).1 (getByPid s p).2 t').2.1 t'
            (switchOutThread (getThread (getByPid s p).1 (getByPid s p).2 t').1
              (getThread (getByPid s p).1 (getByPid s p).2 t').2.2 t) := by
        simp [step, h0]
      rw [e] at hsim' ⊢
      obtain ⟨c1, c2, _, c4, _, _, c7⟩ := obs_commit hinv p t' (fun s2 th => switchOutThread s2 th t)
      generalize getThread (getByPid s p).1 (getByPid s p).2 t' = gt at *
      refine h.commit hsim' p t' _ _ _ c4 c7 (fun u hu => by simp [switchOutThread] at hu) ?_ ?_
      · intro hp ht
        subst hp; subst ht
        have hnt : t' ≠ 0 := h0
        simp only [trecOf, hnt, ne_eq, not_false_eq_true, and_self, if_true]
        obtain ⟨w1, w2, _, w4⟩ := switchOutThread_congr (St.init cfg) gt.1 (c1.trans hcfg) r.th gt.2.2
          (c2.trans h.tq) t
        refine ⟨w1, ?_, ?_⟩
        · simp only [threadStep, w2, List.map_nil, List.append_nil]
        · simp only [threadStep, w4]
      · intro hne
        have : trecOf cfg pid tid (.switchOut p t' t) = none := by
          simp only [trecOf]; rw [if_neg]; intro ⟨e1, e2, _⟩; exact hne ⟨e1, e2⟩
        rw [this]
  | sched p t' t km ip chain =>
    have e : step s (.sched p t' t km ip chain) =
        commitThread (getThread (getByPid s p).1 (getByPid s p).2 t').1
          (getThread (getByPid s p).1 (getByPid s p).2 t').2.1 t'
          (schedThread (getThread (getByPid s p).1 (getByPid s p).2 t').1
            (getThread (getByPid s p).1 (getByPid s p).2 t').2.2 t
            (sampleStack (getThread (getByPid s p).1 (getByPid s p).2 t').1.cfg km ip chain)) := rfl
    rw [e] at hsim' ⊢
    obtain ⟨c1, c2, _, c4, _, _, c7⟩ := obs_commit hinv p t'
      (fun s2 th => schedThread s2 th t (sampleStack s2.cfg km ip chain))
    generalize getThread (getByPid s p).1 (getByPid s p).2 t' = gt at *
    refine h.commit hsim' p t' _ _ _ c4 c7
      (fun u hu => by rw [(schedThread_spec _ _ _ _).2.2.2] at hu; cases hu) ?_ ?_
    · intro hp ht
      subst hp; subst ht
      simp only [trecOf, and_self, if_true]
      have hc : gt.1.cfg = cfg := c1.trans hcfg
      obtain ⟨w1, w2, _, w4⟩ := schedThread_congr (St.init cfg) gt.1 hc r.th gt.2.2
        (c2.trans h.tq) t (sampleStack gt.1.cfg km ip chain)
      rw [hc] at w1 w2 w4
      refine ⟨?_, ?_, ?_⟩
      · rw [hc]; exact w1
      · rw [hc]; simp only [threadStep, w2, List.map_nil, List.append_nil]
      · rw [hc]; simp only [threadStep, w4]
    · intro hne
      have : trecOf cfg pid tid (.sched p t' t km ip chain) = none := by
        simp only [trecOf]; rw [if_neg]; exact hne
      rw [this]
  | sample p t' t km period ip chain =>
    by_cases h0 : t' = 0
    · have hstep : step s (.sample p t' t km period ip chain) = s := by rw [h0]; simp [step]
      have hnone : trecOf cfg pid tid (.sample p t' t km period ip chain) = none := by
        simp only [trecOf]; rw [if_neg]; intro ⟨_, e, ne⟩; exact ne (e.symm.trans h0)
      rw [hstep, hnone]; exact h
    · have hinv0 : InvA { s with cur := t } := ((skel_cur s t).goodT hinv).inv
      obtain ⟨c1, c2, c3, c4, _, _, c7⟩ := obs_commit hinv0 p t'
        (fun s2 th => sampleThread s2 th p t' t period (sampleStack s2.cfg km ip chain))
      rw [LifeL.step_sample, if_neg h0] at hsim' ⊢
      simp only [] at hsim' ⊢
      generalize getThread (getByPid { s with cur := t } p).1 (getByPid { s with cur := t } p).2 t' = gt at *
      have hc : gt.1.cfg = cfg := by
        have : gt.1.cfg = s.cfg := c1
        rw [this]; exact hcfg
      have c2' : tqOf gt.2.2 = (pobs s.procs p).thr t' := c2
      have hl : gt.2.2.lastTs = ((pobs s.procs p).thr t').1 := by rw [← c2']; rfl
      by_cases hd : gt.2.2.lastTs = some t
      · rw [if_pos hd] at hsim' ⊢
        have hsame : TWn cfg gt.1 pid tid r := h.congr hsim' (by rw [c3.obs]) (by rw [c3.obs]) c3.bad
        by_cases hme : p = pid ∧ t' = tid
        · obtain ⟨hp, ht⟩ := hme
          subst hp; subst ht
          have hnt : t' ≠ 0 := h0
          have hdup : r.th.lastTs = some t := by
            have : (tqOf r.th).1 = some t := by rw [← h.tq, ← hl]; exact hd
            exact this
          simp only [trecOf, hnt, ne_eq, not_false_eq_true, and_self, if_true, threadStep, hdup]
          exact hsame
        · have : trecOf cfg pid tid (.sample p t' t km period ip chain) = none := by
            simp only [trecOf]; rw [if_neg]; intro ⟨e1, e2, _⟩; exact hme ⟨e1, e2⟩
          rw [this]; exact hsame
      · rw [if_neg hd] at hsim' ⊢
        refine h.commit hsim' p t' _ _ _ c4 c7 ?_ ?_ ?_
        · intro u hu
          refine ⟨?_, sampleThread_nomarker _ _ _ _ _ _ _ u hu⟩
          obtain ⟨_, _, _, pre, x, hout, hpre, _, _, hx3, _⟩ :=
            sampleThread_spec gt.1 gt.2.2 p t' t period (sampleStack gt.1.cfg km ip chain)
          rw [hout] at hu
          rcases List.mem_append.mp hu with hu | hu
          · exact (hpre u hu).1.2.2
          · simp only [List.mem_singleton] at hu; rw [hu]; exact hx3
        · intro hp ht
          subst hp; subst ht
          have hnt : t' ≠ 0 := h0
          have hndup : ¬ r.th.lastTs = some t := by
            intro hx
            apply hd
            have : (tqOf r.th).1 = some t := hx
            rw [← h.tq, ← hl] at this
            exact this
          simp only [trecOf, hnt, ne_eq, not_false_eq_true, and_self, if_true, threadStep, hndup, if_false]
          obtain ⟨w1, w2, w3⟩ := sampleThread_congr (St.init cfg) gt.1 hc r.th gt.2.2 (c2'.trans h.tq) p t' t
            period (sampleStack gt.1.cfg km ip chain)
          rw [hc] at w1 w2 w3
          refine ⟨?_, ?_, ?_⟩
          · rw [hc]; exact w1
          · rw [hc]; simp only [List.map_append, w2]
          · rw [hc]; simp only [w3]
        · intro hne
          have : trecOf cfg pid tid (.sample p t' t km period ip chain) = none := by
            simp only [trecOf]; rw [if_neg]; intro ⟨e1, e2, _⟩; exact hne ⟨e1, e2⟩
          rw [this]


/-! ### whole histories without EXIT / EXEC -/

theorem twn_fold {cfg : Config} (pid tid : Nat) (rs : List Rec) :
    ∀ (s : St) (r : TRun), TWn cfg s pid tid r → (∀ x ∈ rs, isCut x = false) →
      TWn cfg (rs.foldl step s) pid tid ((trecs cfg pid tid rs).foldl (threadStep (St.init cfg) pid tid) r) := by
  induction rs with
  | nil => intro s r h _; exact h
  | cons x rs ih =>
    intro s r h hc
    have h1 := twn_step h x (hc x List.mem_cons_self)
    have h2 := ih (step s x) _ h1 (fun y hy => hc y (List.mem_cons_of_mem _ hy))
    rw [List.foldl_cons]
    unfold trecs
    rw [List.filterMap_cons]
    cases hx : trecOf cfg pid tid x with
    | none => rw [hx] at h2; exact h2
    | some y => rw [hx] at h2; rw [List.foldl_cons]; exact h2

theorem thread_of_run_nocut (cfg : Config) (rs : List Rec) (hcut : CsSpec.hasCut rs = false) (pid tid : Nat) :
    TWn cfg (run cfg rs) pid tid (threadRun (St.init cfg) pid tid 0 (trecs cfg pid tid rs)) :=
  twn_fold pid tid rs (St.init cfg) _ ⟨⟨_, Sim.init cfg⟩, rfl, rfl, fun _ => rfl⟩ (isCut_of_hasCut hcut)

/-! ### every buffered item sits in the buffer of its own pid; nothing is parked -/

structure KInv (cfg : Config) (s : St) : Prop where
  sim : ∃ st, Sim cfg s st
  parked : s.parked = []
  own : ∀ a, ∀ u ∈ (pobs s.procs a).samples, u.gpid = a

theorem KInv.same {cfg : Config} {s s' : St} (h : KInv cfg s) (hsim' : ∃ st, Sim cfg s' st)
    (hp : s'.parked = s.parked) (hs : ∀ a, (pobs s'.procs a).samples = (pobs s.procs a).samples) : KInv cfg s' :=
  ⟨hsim', hp.trans h.parked, fun a u hu => h.own a u (by rw [← hs a]; exact hu)⟩

theorem KInv.append {cfg : Config} {s s' : St} (h : KInv cfg s) (hsim' : ∃ st, Sim cfg s' st)
    (hp : s'.parked = s.parked) (p : Nat) (new : List USample)
    (hs : ∀ a, (pobs s'.procs a).samples = if a = p then (pobs s.procs p).samples ++ new else (pobs s.procs a).samples)
    (hnew : ∀ u ∈ new, u.gpid = p) : KInv cfg s' := by
  refine ⟨hsim', hp.trans h.parked, fun a u hu => ?_⟩
  rw [hs a] at hu
  split at hu
  · next e =>
    rcases List.mem_append.mp hu with hu | hu
    · rw [e]; exact h.own p u hu
    · rw [e]; exact hnew u hu
  · exact h.own a u hu

theorem KInv.commit {cfg : Config} {s : St} (h : KInv cfg s) (hinv : InvA s) (pid tid : Nat)
    (f : St → ThreadC → ThreadC × List USample × Bool)
    (hf : ∀ s2 th, ∀ u ∈ (f s2 th).2.1, u.gpid = pid)
    (hsim' : ∃ st, Sim cfg (commitThread (getThread (getByPid s pid).1 (getByPid s pid).2 tid).1
          (getThread (getByPid s pid).1 (getByPid s pid).2 tid).2.1 tid
          (f (getThread (getByPid s pid).1 (getByPid s pid).2 tid).1
             (getThread (getByPid s pid).1 (getByPid s pid).2 tid).2.2)) st) :
    KInv cfg (commitThread (getThread (getByPid s pid).1 (getByPid s pid).2 tid).1
          (getThread (getByPid s pid).1 (getByPid s pid).2 tid).2.1 tid
          (f (getThread (getByPid s pid).1 (getByPid s pid).2 tid).1
             (getThread (getByPid s pid).1 (getByPid s pid).2 tid).2.2)) := by
  obtain ⟨_, _, _, c4, c5, _, _⟩ := obs_commit hinv pid tid f
  refine h.append hsim' c5 pid
    (f (getThread (getByPid s pid).1 (getByPid s pid).2 tid).1
       (getThread (getByPid s pid).1 (getByPid s pid).2 tid).2.2).2.1 (fun a => ?_) (hf _ _)
  rw [c4 a]; unfold upd
  split <;> rfl

theorem kinv_step {cfg : Config} {s : St} (h : KInv cfg s) (rec : Rec) (hcut : isCut rec = false) :
    KInv cfg (step s rec) := by
  obtain ⟨st, hsim⟩ := h.sim
  have hsim' : ∃ st', Sim cfg (step s rec) st' := ⟨_, step_sim hsim rec⟩
  have hinv := hsim.inv
  cases rec with
  | exit pid' tid' t => simp [isCut] at hcut
  | otherEvent p t' t km ip chain =>
    obtain ⟨o1, _, _, u, _, _, _, _, _, u6, _, o4⟩ := obs_otherEvent hinv p t' t km ip chain
    refine h.append hsim' o1 p [u] (fun a => ?_) (fun x hx => by simp only [List.mem_singleton] at hx; rw [hx]; exact u6)
    rw [o4 a]; unfold upd
    split <;> rfl
  | fork pid' tid' ppid ptid t =>
    obtain ⟨o1, o2, _, _⟩ := obs_fork hinv pid' tid' ppid ptid t
    refine h.same hsim' o2 (fun a => ?_)
    rw [o1 a]
    split
    · exact (upd_thr _ _ _ _).2
    · rfl
  | mmap2 pid' tid' addr len pgoff exec path t =>
    obtain ⟨o1, o2, _, _⟩ := obs_mmap2 hinv pid' tid' addr len pgoff exec path t
    refine h.same hsim' o2 (fun a => ?_)
    rw [o1 a]
    split
    · exact (upd_thr _ _ _ _).2
    · rfl
  | comm pid' tid' name isExec t =>
    cases isExec with
    | true => simp [isCut] at hcut
    | false =>
      obtain ⟨o1, o2, _, _⟩ := obs_comm hinv pid' tid' name false t
      simp only [Bool.false_eq_true, if_false, Bool.false_and] at o1 o2
      exact h.same hsim' o2 (fun a => by rw [o1 a])
  | switchIn p t' t =>
    by_cases h0 : t' = 0
    · have hstep : step s (.switchIn p t' t) = s := by rw [h0]; simp [step]
      rw [hstep]; exact h
    · have e : step s (.switchIn p t' t) =
          commitThread (getThread (getByPid s p).1 (getByPid s p).2 t').1
            (getThread (getByPid s p).1 (getByPid s p).2 t').2.1 t'
            (wake (getThread (getByPid s p).1 (getByPid s p).2 t').1
              (getThread (getByPid s p).1 (getByPid s p).2 t').2.2 (.switchIn t) p t') := by
        simp [step, h0]
      rw [e] at hsim' ⊢
      exact h.commit hinv p t' (fun s2 th => wake s2 th (.switchIn t) p t')
        (fun s2 th u hu => ((wake_spec s2 th (.switchIn t) p t').2.2.2 u hu).1.2.1) hsim'
  | switchOut p t' t =>
    by_cases h0 : t' = 0
    · have hstep : step s (.switchOut p t' t) = s := by rw [h0]; simp [step]
      rw [hstep]; exact h
    · have e : step s (.switchOut p t' t) =
          commitThread (getThread (getByPid s p).1 (getByPid s p).2 t').1
            (getThread (getByPid s p).1 (getByPid s p).2 t').2.1 t'
            (switchOutThread (getThread (getByPid s p).1 (getByPid s p).2 t').1
              (getThread (getByPid s p).1 (getByPid s p).2 t').2.2 t) := by
        simp [step, h0]
      rw [e] at hsim' ⊢
      exact h.commit hinv p t' (fun s2 th => switchOutThread s2 th t)
        (fun s2 th u hu => by simp [switchOutThread] at hu) hsim'
  | sched p t' t km ip chain =>
    have e : step s (.sched p t' t km ip chain) =
        commitThread (getThread (getByPid s p).1 (getByPid s p).2 t').1
          (getThread (getByPid s p).1 (getByPid s p).2 t').2.1 t'
          (schedThread (getThread (getByPid s p).1 (getByPid s p).2 t').1
            (getThread (getByPid s p).1 (getByPid s p).2 t').2.2 t
            (sampleStack (getThread (getByPid s p).1 (getByPid s p).2 t').1.cfg km ip chain)) := rfl
    rw [e] at hsim' ⊢
    exact h.commit hinv p t' (fun s2 th => schedThread s2 th t (sampleStack s2.cfg km ip chain))
      (fun s2 th u hu => by rw [(schedThread_spec _ _ _ _).2.2.2] at hu; cases hu) hsim'
  | sample p t' t km period ip chain =>
    by_cases h0 : t' = 0
    · have hstep : step s (.sample p t' t km period ip chain) = s := by rw [h0]; simp [step]
      rw [hstep]; exact h
    · have hinv0 : InvA { s with cur := t } := ((skel_cur s t).goodT hinv).inv
      have h0' : KInv cfg { s with cur := t } := ⟨⟨st, (hsim.goodT ((skel_cur s t).goodT hinv))⟩, h.parked, h.own⟩
      obtain ⟨_, _, c3, _, _, _, _⟩ := obs_commit hinv0 p t'
        (fun s2 th => sampleThread s2 th p t' t period (sampleStack s2.cfg km ip chain))
      have hc := h0'.commit hinv0 p t'
        (fun s2 th => sampleThread s2 th p t' t period (sampleStack s2.cfg km ip chain))
        (fun s2 th u hu => by
          obtain ⟨_, _, _, pre, x, hout, hpre, _, hx2, _⟩ :=
            sampleThread_spec s2 th p t' t period (sampleStack s2.cfg km ip chain)
          rw [hout] at hu
          rcases List.mem_append.mp hu with hu | hu
          · exact (hpre u hu).1.2.1
          · simp only [List.mem_singleton] at hu; rw [hu]; exact hx2)
      rw [LifeL.step_sample, if_neg h0] at hsim' ⊢
      simp only [] at hsim' ⊢
      generalize getThread (getByPid { s with cur := t } p).1 (getByPid { s with cur := t } p).2 t' = gt at *
      by_cases hd : gt.2.2.lastTs = some t
      · rw [if_pos hd] at hsim' ⊢
        exact h.same hsim' c3.parked (fun a => by rw [c3.obs a])
      · rw [if_neg hd] at hsim' ⊢
        exact hc hsim'

theorem kinv_run (cfg : Config) (rs : List Rec) (hcut : CsSpec.hasCut rs = false) : KInv cfg (run cfg rs) := by
  have key : ∀ (rs : List Rec) (s : St), KInv cfg s → (∀ x ∈ rs, isCut x = false) → KInv cfg (rs.foldl step s) := by
    intro rs
    induction rs with
    | nil => intro s h _; exact h
    | cons x rs ih =>
      intro s h hc
      exact ih (step s x) (kinv_step h x (hc x List.mem_cons_self)) (fun y hy => hc y (List.mem_cons_of_mem _ hy))
  exact key rs (St.init cfg) ⟨⟨_, Sim.init cfg⟩, rfl, fun a u hu => by simp [St.init, pobs, alGet, PObs.empty] at hu⟩
    (isCut_of_hasCut hcut)


/-! ### the flush keeps entry, cpu delta, weight and kind -/

theorem flushBuffer_cpu (pm maps : List MapAdd) (q : List (Nat × MapAdd)) (us : List USample) :
    (flushBuffer pm maps q us).map (fun o => (o.1, o.2.cpu, o.2.weight, o.2.kind)) =
      us.map (fun u => (u.th, u.cpu, u.weight, u.kind)) := by
  induction us generalizing maps q with
  | nil => rfl
  | cons u rest ih =>
    unfold flushBuffer
    simp only [List.map_cons]
    rw [ih]

theorem flushAll_cpu (s : St) :
    (flushAll s).map (fun o => (o.1, o.2.cpu, o.2.weight, o.2.kind)) =
      (buffered s).map (fun u => (u.th, u.cpu, u.weight, u.kind)) := by
  unfold flushAll
  rw [List.map_flatMap]
  have : (fun b : List USample × List (Nat × MapAdd) × Nat =>
      (flushBuffer (perfMapTable s.cfg b.2.2) [] b.2.1 b.1).map (fun o => (o.1, o.2.cpu, o.2.weight, o.2.kind))) =
      (fun b => b.1.map (fun u => (u.th, u.cpu, u.weight, u.kind))) := by
    funext b; exact flushBuffer_cpu (perfMapTable s.cfg b.2.2) [] b.2.1 b.1
  rw [this]
  unfold allBuffers buffered
  rw [List.flatMap_append, List.map_append, flatMap_filter_nonempty]
  congr 1
  rw [List.map_flatMap]

/-- the samples of the output (marker stacks excluded), each with the pid / tid its thread entry carries -/
def viewItems (s : St) : List (Nat × Nat × OutSample) :=
  (views s).flatMap (fun v => v.samples.map (fun o => (v.pidBase, v.tidBase, o)))

theorem views_cpu_perm (s : St) (hinv : InvA s) (hsok : ∀ u ∈ buffered s, u.th < (tsk s.tents).length) :
    List.Perm ((viewItems s).map (fun x => (x.1, x.2.1, x.2.2.cpu, x.2.2.weight, x.2.2.kind)))
      (((buffered s).filter (fun u => !u.marker)).map
        (fun u => ((entKey s u.th).1, (entKey s u.th).2, u.cpu, u.weight, u.kind))) := by
  have hv : ∀ te ∈ s.tents, te.proc < s.pents.length := by
    intro te hte
    have := hinv.tents (te.proc, te.tid) (List.mem_map_of_mem (f := fun e : TEntry => (e.proc, e.tid)) hte)
    simpa [psk] using this
  have hout : ∀ o ∈ flushAll s, o.1 < s.tents.length := by
    intro o ho
    have hm : (o.1, o.2.t, o.2.weight, o.2.synth) ∈ (flushAll s).map (fun o => (o.1, o.2.t, o.2.weight, o.2.synth)) :=
      List.mem_map_of_mem (f := fun o : Nat × OutSample => (o.1, o.2.t, o.2.weight, o.2.synth)) ho
    rw [flushAll_proj] at hm
    obtain ⟨u, hu, heq⟩ := List.mem_map.mp hm
    have h1 : u.th = o.1 := congrArg Prod.fst heq
    have := hsok u hu
    simp only [tsk, List.length_map] at this
    omega
  have h := views_perm s (flushAll s) (fun v o => (v.pidBase, v.tidBase, o.cpu, o.weight, o.kind))
    (fun i o => ((entKey s i).1, (entKey s i).2, o.cpu, o.weight, o.kind)) hv hout
    (fun i te v hte hvw o => by
      have := viewOf_key hte hvw
      simp only [← this])
  have e1 : (viewItems s).map (fun x => (x.1, x.2.1, x.2.2.cpu, x.2.2.weight, x.2.2.kind)) =
      (viewsAux s (flushAll s) 0 s.tents).flatMap
        (fun v => v.samples.map (fun o => (v.pidBase, v.tidBase, o.cpu, o.weight, o.kind))) := by
    unfold viewItems views
    rw [List.map_flatMap]
    congr 1
    funext v
    rw [List.map_map]; rfl
  rw [e1]
  refine h.trans (List.Perm.of_eq ?_)
  have : ((flushAll s).filter (fun o => !o.2.marker)).map
        (fun o => ((entKey s o.1).1, (entKey s o.1).2, o.2.cpu, o.2.weight, o.2.kind)) =
      ((((flushAll s).map (fun o => (o.1, o.2.cpu, o.2.weight, o.2.kind))).filter
        (fun x => !(x.2.2.2 == ItemKind.marker))).map
          (fun x => ((entKey s x.1).1, (entKey s x.1).2, x.2.1, x.2.2.1, x.2.2.2))) := by
    rw [List.filter_map, List.map_map]; rfl
  rw [this, flushAll_cpu, List.filter_map, List.map_map]
  rfl

/-- without EXIT / EXEC the buffered items recorded for (pid, tid) are the thread's buffer -/
theorem buffered_thread {cfg : Config} {s : St} (h : KInv cfg s) (pid tid : Nat) :
    List.Perm ((buffered s).filter (fun u => u.gpid == pid && u.gtid == tid && !u.marker)) (threadBuf s pid tid) := by
  obtain ⟨st, hsim⟩ := h.sim
  have hn : NodupKeys s.procs := hsim.inv.nodup
  have hF0 : ∀ k, (fun (_ : Nat) (o : PObs) =>
      o.samples.filter (fun u => u.gpid == pid && u.gtid == tid && !u.marker)) k PObs.empty = [] := fun _ => rfl
  have e : (buffered s).filter (fun u => u.gpid == pid && u.gtid == tid && !u.marker) =
      s.procs.flatMap (FF (fun _ o => o.samples.filter (fun u => u.gpid == pid && u.gtid == tid && !u.marker))) := by
    unfold buffered bufP
    rw [h.parked]
    simp only [List.flatMap_nil, List.nil_append, List.filter_flatMap]
    rfl
  rw [e]
  refine (flatMap_decomp _ hF0 hn pid).trans ?_
  have e2 : (alDel s.procs pid).flatMap
      (FF (fun _ o => o.samples.filter (fun u => u.gpid == pid && u.gtid == tid && !u.marker))) = [] := by
    refine flatMap_nil_of_obs _ (hn.alDel pid) (fun a => ?_)
    rw [pobs_alDel]
    split
    · rfl
    · next hne =>
      rw [List.filter_eq_nil_iff]
      intro u hu
      have := h.own a u hu
      have hne' : ¬ u.gpid = pid := by rw [this]; exact hne
      simp [hne']
  rw [e2, List.append_nil]
  unfold threadBuf
  refine List.Perm.of_eq (List.filter_congr (fun u hu => ?_))
  have := h.own pid u hu
  simp [this]


/-- the output samples of the thread entries carrying (pid, tid) are — in cpu delta, weight and kind — the samples
buffered for the thread -/
theorem views_thread_perm (cfg : Config) (rs : List Rec) (hr : cfg.reuse = false) (hcut : CsSpec.hasCut rs = false)
    (pid tid : Nat) :
    List.Perm
      (((viewItems (run cfg rs)).filter (fun x => x.1 == pid && x.2.1 == tid)).map
        (fun x => (x.2.2.cpu, x.2.2.weight, x.2.2.kind)))
      ((threadBuf (run cfg rs) pid tid).map (fun u => (u.cpu, u.weight, u.kind))) := by
  have hk := kinv_run cfg rs hcut
  generalize run cfg rs = s at hk
  obtain ⟨st, hsim⟩ := hk.sim
  have hkey : ∀ u ∈ buffered s, entKey s u.th = (u.gpid, u.gtid) := by
    intro u hu
    obtain ⟨ph, h3, h4⟩ := (hsim.sok u hu).2 (by rw [hsim.hcfg]; exact hr)
    exact entKey_of_skel h3 h4
  have p1 := views_cpu_perm s hsim.inv (fun u hu => (hsim.sok u hu).1)
  have p2 := ((p1.filter (fun x => x.1 == pid && x.2.1 == tid)).map (fun x => (x.2.2.1, x.2.2.2.1, x.2.2.2.2)))
  rw [List.filter_map, List.map_map, List.filter_map, List.map_map, List.filter_filter] at p2
  refine (List.Perm.of_eq ?_).trans (p2.trans ?_)
  · rfl
  · have e : ((buffered s).filter (fun u =>
          ((fun x : Nat × Nat × Nat × Nat × ItemKind => x.1 == pid && x.2.1 == tid) ∘
            fun u : USample => ((entKey s u.th).1, (entKey s u.th).2, u.cpu, u.weight, u.kind)) u && !u.marker)) =
        (buffered s).filter (fun u => u.gpid == pid && u.gtid == tid && !u.marker) := by
      apply List.filter_congr
      intro u hu
      simp only [Function.comp, hkey u hu]
    rw [e]
    exact ((buffered_thread hk pid tid).map _)

theorem sum_map_fst_of_perm {l1 l2 : List (Nat × Nat × ItemKind)} (h : List.Perm l1 l2) :
    (l1.map (·.1)).sum = (l2.map (·.1)).sum := (h.map _).sum_nat

end Conv
