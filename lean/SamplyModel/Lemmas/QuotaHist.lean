import SamplyModel.Lemmas.QuotaConfine
/-!
Helper lemmas for C15, part 5: **histories**. `Good` (the hypothesis of the per-pass theorems) is an
invariant of `Quota.step` along every history that

* keeps one managed root `R`, spelled canonically, a chain of real directories throughout;
* creates no symbolic links (links that exist at the start may stay);
* reports `created` only for paths that resolve at that moment (samply reports a file after it has
  written or found it), with times after the epoch and sizes whose sum stays below `2^63`;
* sets a maximum age that is not beyond the clock value;
* opens a *fresh* database only on a tree without regular files (first start on an empty cache).

Every excluded point is a generator family of the harness (odd root spellings, symlink creation,
reports for paths that do not resolve, pre-epoch times, huge sizes, `maxage now+1`, pre-populated
database).
-/
namespace Quota

/-! ### file-system changes that create no links -/

/-- `fs'` has no symbolic link that `fs` does not have -/
def NoNewLinks (fs fs' : FS) : Prop := ∀ k t, fs'.lookup k = some (.link t) → fs.lookup k = some (.link t)

theorem noLinkBelow_noNewLinks {fs fs' : FS} (h : NoNewLinks fs fs') (cur p : Path)
    (hn : NoLinkBelow fs cur p) : NoLinkBelow fs' cur p := by
  induction p generalizing cur with
  | nil => trivial
  | cons c rest ih =>
    obtain ⟨h1, h2, h3⟩ := hn
    exact ⟨h1, fun t ht => h2 t (h _ _ ht), ih _ h3⟩

theorem lookup_setKey (fs : FS) (k : Path) (n : Node) (q : Path) :
    (setKey fs k n).lookup q = if q = k then some n else fs.lookup q := by
  unfold setKey
  by_cases hq : q = k
  · subst hq; simp [List.lookup]
  · have : (q == k) = false := by simpa using hq
    simp only [List.lookup, this, hq, if_false, lookup_eraseKey]

theorem mkParents_noNewLinks (fs : FS) (pre p : Path) : NoNewLinks fs (mkParents fs pre p) := by
  induction p generalizing fs pre with
  | nil => intro k t h; exact h
  | cons c rest ih =>
    cases rest with
    | nil => intro k t h; exact h
    | cons c2 rest2 =>
      intro k t h
      simp only [mkParents] at h
      have := ih _ _ k t h
      split at this
      · next hnone =>
        simp only [List.lookup] at this
        split at this
        · cases this
        · exact this
      · exact this

theorem setKey_noNewLinks (fs : FS) (p : Path) (n : Node) (hn : ∀ t, n ≠ .link t) :
    NoNewLinks fs (setKey (mkParents fs [] p) p n) := by
  intro k t h
  rw [lookup_setKey] at h
  split at h
  · cases h; exact absurd rfl (hn t)
  · exact mkParents_noNewLinks fs [] p k t h

theorem lookup_filter_key (fs : FS) (f : Path → Bool) (k : Path) :
    (fs.filter (fun e => f e.1)).lookup k = if f k then fs.lookup k else none := by
  induction fs with
  | nil => simp [List.lookup]
  | cons e es ih =>
    obtain ⟨q, n⟩ := e
    by_cases hf : f q = true
    · simp only [List.filter, hf]
      by_cases hk : k = q
      · subst hk; simp [List.lookup, hf]
      · have : (k == q) = false := by simpa using hk
        simp only [List.lookup, this]
        exact ih
    · simp only [Bool.not_eq_true] at hf
      simp only [List.filter, hf]
      by_cases hk : k = q
      · subst hk; rw [ih]; simp [hf, List.lookup]
      · have : (k == q) = false := by simpa using hk
        simp only [List.lookup, this]
        exact ih

theorem rm_noNewLinks (fs : FS) (p : Path) : NoNewLinks fs (fs.filter fun e => !(isPrefix p e.1)) := by
  intro k t h
  rw [lookup_filter_key fs (fun q => !(isPrefix p q)) k] at h
  split at h
  · exact h
  · cases h

/-! ### the inventory under notifications -/

theorem mem_upsert (r : Row) (l : List Row) (x : Row) (h : x ∈ upsert r l) : x = r ∨ x ∈ l := by
  induction l with
  | nil => simp only [upsert, List.mem_singleton] at h; exact Or.inl h
  | cons y ys ih =>
    simp only [upsert] at h
    split at h
    · rcases List.mem_cons.mp h with h | h
      · exact Or.inl h
      · exact Or.inr (List.mem_cons_of_mem _ h)
    · rcases List.mem_cons.mp h with h | h
      · exact Or.inr (by rw [h]; exact List.mem_cons_self)
      · rcases ih h with h | h
        · exact Or.inl h
        · exact Or.inr (List.mem_cons_of_mem _ h)

theorem upsert_keys (r : Row) (l : List Row) (hn : (l.map (·.rel)).Nodup) :
    ((upsert r l).map (·.rel)).Nodup ∧ ∀ k, k ∈ (upsert r l).map (·.rel) → k = r.rel ∨ k ∈ l.map (·.rel) := by
  induction l with
  | nil => simp [upsert]
  | cons x xs ih =>
    rw [List.map_cons, List.nodup_cons] at hn
    simp only [upsert]
    split
    · next e =>
      constructor
      · rw [List.map_cons, List.nodup_cons, ← e]; exact hn
      · intro k hk; simp only [List.map_cons, List.mem_cons] at hk ⊢
        rcases hk with h | h
        · exact Or.inl h
        · exact Or.inr (Or.inr h)
    · next ne =>
      obtain ⟨i1, i2⟩ := ih hn.2
      constructor
      · rw [List.map_cons, List.nodup_cons]
        refine ⟨fun hm => ?_, i1⟩
        rcases i2 _ hm with h | h
        · exact ne h
        · exact hn.1 h
      · intro k hk; simp only [List.map_cons, List.mem_cons] at hk ⊢
        rcases hk with h | h
        · exact Or.inr (Or.inl h)
        · rcases i2 k h with h | h
          · exact Or.inl h
          · exact Or.inr (Or.inr h)

theorem sumSizes_upsert_le (r : Row) (l : List Row) (hl : ∀ x ∈ l, 0 ≤ x.size) :
    sumSizes (upsert r l) ≤ sumSizes l + r.size := by
  induction l with
  | nil => simp [upsert, sumSizes]
  | cons x xs ih =>
    have hx := hl x (by simp)
    have := ih (fun y hy => hl y (by simp [hy]))
    simp only [upsert]
    split
    · simp only [sumSizes]; omega
    · simp only [sumSizes]; omega

theorem setAtime_rels (rel : Path) (t : Nat) (inv : List Row) :
    (setAtime rel t inv).map (·.rel) = inv.map (·.rel) := by
  unfold setAtime
  rw [List.map_map]
  apply List.map_congr_left
  intro x _
  simp only [Function.comp]
  split <;> rfl

theorem sumSizes_setAtime (rel : Path) (t : Nat) (inv : List Row) :
    sumSizes (setAtime rel t inv) = sumSizes inv := by
  induction inv with
  | nil => rfl
  | cons x xs ih =>
    have e : setAtime rel t (x :: xs) = (if x.rel = rel then { x with atime := t } else x) :: setAtime rel t xs := rfl
    rw [e]
    simp only [sumSizes]
    rw [ih]
    split <;> rfl

theorem mem_setAtime (rel : Path) (t : Nat) (inv : List Row) (r : Row) (h : r ∈ setAtime rel t inv) :
    ∃ x ∈ inv, r.rel = x.rel ∧ r.size = x.size := by
  unfold setAtime at h
  obtain ⟨x, hx, e⟩ := List.mem_map.mp h
  refine ⟨x, hx, ?_⟩
  split at e <;> (subst e; exact ⟨rfl, rfl⟩)

/-- a path that resolves when it is reported is recorded under a plain relative path -/
theorem relUnder_resolved_plain (fs : FS) (root p q rel : Path)
    (hc : canonicalize fs p = .ok q) (hrel : relUnder fs root p = some rel) :
    NoLinkBelow fs root rel := by
  unfold relUnder canonOrKeep at hrel
  rw [hc] at hrel
  simp only at hrel
  cases hsp : stripPrefix root q with
  | none => rw [hsp] at hrel; cases hrel
  | some rel' =>
    rw [hsp] at hrel
    simp only at hrel
    split at hrel
    · cases hrel
      have hq := stripPrefix_some hsp
      have hphys : PhysOk fs q := walkF_physOk fs canonFuel p q hc
      rw [hq] at hphys
      exact noLinkBelow_of_physOk fs root rel hphys
    · cases hrel

theorem toI64_nonneg (n : Nat) (h : n < 2 ^ 63) : 0 ≤ toI64 n ∧ toI64 n = (n : Int) := by
  unfold toI64
  rw [if_pos h]
  exact ⟨Int.natCast_nonneg n, rfl⟩

theorem Good.created {fs : FS} {root : Path} {inv : List Row} (G : Good fs root inv)
    (p q : Path) (size : Nat) (t : Int) (hq : canonicalize fs p = .ok q) (hs : size < 2 ^ 63)
    (hsum : sumSizes inv + size < 2 ^ 63) (inv' : List Row)
    (h : onCreated fs root inv p size t = some inv') : Good fs root inv' := by
  unfold onCreated at h
  cases hrel : relUnder fs root p with
  | none => rw [hrel] at h; cases h; exact G
  | some rel =>
    rw [hrel] at h
    simp only at h
    split at h
    · cases h
    · cases h
      have hz := toI64_nonneg size hs
      refine ⟨G.rootOk, ?_, (upsert_keys _ inv G.nodup).1, ?_, ?_⟩
      · intro r hr
        rcases mem_upsert _ _ _ hr with e | hin
        · rw [e]; exact relUnder_resolved_plain fs root p q rel hq hrel
        · exact G.plain r hin
      · intro r hr
        rcases mem_upsert _ _ _ hr with e | hin
        · rw [e]; exact hz.1
        · exact G.sizes r hin
      · have := sumSizes_upsert_le ⟨rel, toI64 size, t.toNat, t.toNat⟩ inv G.sizes
        have h2 := hz.2
        dsimp only at this
        omega

theorem Good.accessed {fs : FS} {root : Path} {inv : List Row} (G : Good fs root inv)
    (p : Path) (t : Int) (inv' : List Row) (h : onAccessed fs root inv p t = some inv') :
    Good fs root inv' := by
  unfold onAccessed at h
  cases hrel : relUnder fs root p with
  | none => rw [hrel] at h; cases h; exact G
  | some rel =>
    rw [hrel] at h
    simp only at h
    split at h
    · cases h
    · cases h
      refine ⟨G.rootOk, ?_, by rw [setAtime_rels]; exact G.nodup, ?_, by rw [sumSizes_setAtime]; exact G.sum⟩
      · intro r hr
        obtain ⟨x, hx, e1, _⟩ := mem_setAtime _ _ _ _ hr
        rw [e1]; exact G.plain x hx
      · intro r hr
        obtain ⟨x, hx, _, e2⟩ := mem_setAtime _ _ _ _ hr
        rw [e2]; exact G.sizes x hx

theorem Good.deleted {fs : FS} {root : Path} {inv : List Row} (G : Good fs root inv) (p : Path) :
    Good fs root (onDeleted fs root inv p) := by
  unfold onDeleted
  split
  · exact G
  · rw [invDelete_eq_filter]; exact G.filter _

theorem Good.nil {fs : FS} {root : Path} (h : DirChain fs [] root) : Good fs root [] :=
  ⟨h, (fun _ hr => by cases hr), List.nodup_nil, (fun _ hr => by cases hr), by decide⟩

theorem prepopulateRest_noFiles (fs : FS) (root : Path) (now : Nat) (l : FS) (inv : List Row)
    (h : ∀ e ∈ l, e.2 ≠ Node.file) : prepopulateRest fs root now l inv = inv := by
  induction l generalizing inv with
  | nil => rfl
  | cons e es ih =>
    obtain ⟨p, n⟩ := e
    have hn : n ≠ Node.file := h (p, n) (by simp)
    have := ih inv (fun e he => h e (by simp [he]))
    cases n with
    | file => exact absurd rfl hn
    | dir => simpa [prepopulateRest] using this
    | link t => simpa [prepopulateRest] using this

/-- decidable form of `DirChain` (for concrete instances) -/
def dirChainB (fs : FS) : Path → Path → Bool
  | _, [] => true
  | cur, c :: rest => c != ".." && fs.lookup (cur ++ [c]) == some .dir && dirChainB fs (cur ++ [c]) rest

theorem dirChain_of_bool (fs : FS) (cur p : Path) (h : dirChainB fs cur p = true) : DirChain fs cur p := by
  induction p generalizing cur with
  | nil => trivial
  | cons c rest ih =>
    simp only [dirChainB, Bool.and_eq_true, bne_iff_ne, ne_eq, beq_iff_eq] at h
    exact ⟨h.1.1, h.1.2, ih _ h.2⟩

/-! ### the invariant -/

/-- invariant of a history with managed root `R` at clock value `now` -/
structure HistInv (R : Path) (now : Nat) (w : World) : Prop where
  /-- the managed root is a chain of real directories -/
  rootOk : DirChain w.fs [] R
  /-- the table satisfies the hypothesis of the per-pass theorems -/
  good : ∀ inv, w.db = some inv → Good w.fs R inv
  /-- an open manager manages `R`, is not poisoned, and its maximum age is not beyond the clock -/
  mgr : ∀ m, w.mgr = some m → m.cfg.root = R ∧ m.poisoned = false ∧ (∀ a, m.cfg.maxAge = some a → a ≤ now)
  /-- an open manager has a database -/
  mgrDb : ∀ m, w.mgr = some m → ∃ inv, w.db = some inv

/-- the side conditions on one operation of a history -/
def OpOk (R : Path) (now : Nat) (w : World) : Op → Prop
  | .open_ root pre => root = R ∧ (w.db ≠ none ∨ (pre = [] ∧ ∀ e ∈ w.fs, e.2 ≠ Node.file))
  | .created p size t =>
    0 ≤ t ∧ size < 2 ^ 63 ∧ (∀ inv, w.db = some inv → sumSizes inv + size < 2 ^ 63) ∧
      ∃ q, canonicalize w.fs p = .ok q
  | .accessed _ t => 0 ≤ t
  | .setMaxAge v => ∀ a, v = some a → a ≤ now
  | .mkfile p => DirChain (setKey (mkParents w.fs [] p) p .file) [] R
  | .mkdir p => DirChain (setKey (mkParents w.fs [] p) p .dir) [] R
  | .rm p => DirChain (w.fs.filter fun e => !(isPrefix p e.1)) [] R
  | .symlink _ _ => False
  | _ => True

theorem HistInv.fsChange {R : Path} {now : Nat} {w : World} (H : HistInv R now w) (fs' : FS)
    (hr : DirChain fs' [] R) (hl : NoNewLinks w.fs fs') : HistInv R now { w with fs := fs' } :=
  ⟨hr, fun inv hdb => (H.good inv hdb).fsChange hr (fun q rel => noLinkBelow_noNewLinks hl q rel),
   H.mgr, H.mgrDb⟩

theorem HistInv.openMgr {R : Path} {now : Nat} {w : World} (H : HistInv R now w) (pre : List (Path × Nat × Nat))
    (hfresh : w.db ≠ none ∨ (pre = [] ∧ ∀ e ∈ w.fs, e.2 ≠ Node.file)) :
    HistInv R now (openMgr w now R pre) := by
  have hroot : canonOrKeep w.fs R = R := by
    simp [canonOrKeep, canonicalize_dirChain w.fs R H.rootOk]
  unfold Quota.openMgr
  simp only [hroot]
  cases hdb : w.db with
  | some inv =>
    refine ⟨H.rootOk, ?_, ?_, ?_⟩
    · intro inv' h; cases h; exact H.good inv hdb
    · intro m h; cases h; exact ⟨rfl, rfl, fun a ha => by cases ha⟩
    · intro m _; exact ⟨inv, rfl⟩
  | none =>
    rcases hfresh with h | ⟨hpre, hnf⟩
    · exact absurd hdb h
    · subst hpre
      refine ⟨H.rootOk, ?_, ?_, ?_⟩
      · intro inv' h
        simp only [prepopulate, prepopulateRest_noFiles w.fs R now w.fs [] hnf] at h
        cases h
        exact Good.nil H.rootOk
      · intro m h; cases h; exact ⟨rfl, rfl, fun a ha => by cases ha⟩
      · intro m _; exact ⟨_, rfl⟩

/-- **`Good` is an invariant of `step`** under the side conditions `OpOk`. -/
theorem HistInv.step {R : Path} {now : Nat} {w : World} (H : HistInv R now w) (op : Op)
    (hop : OpOk R now w op) : HistInv R now (step now w op).1 := by
  cases op with
  | open_ root pre =>
    obtain ⟨hr, hfresh⟩ := hop
    subst hr
    simp only [Quota.step]
    cases hm : w.mgr with
    | some m => exact H
    | none => exact H.openMgr pre hfresh
  | close =>
    simp only [Quota.step]
    cases hm : w.mgr with
    | none => exact H
    | some m =>
      exact ⟨H.rootOk, H.good, (fun m' h => by cases h), (fun m' h => by cases h)⟩
  | restart =>
    simp only [Quota.step]
    cases hm : w.mgr with
    | none => exact H
    | some m =>
      obtain ⟨hroot, _, _⟩ := H.mgr m hm
      obtain ⟨inv, hdb⟩ := H.mgrDb m hm
      have H0 : HistInv R now { w with mgr := none } :=
        ⟨H.rootOk, H.good, (fun m' h => by cases h), (fun m' h => by cases h)⟩
      simp only [hroot]
      exact H0.openMgr [] (Or.inl (by simp [hdb]))
  | created p size t =>
    obtain ⟨ht, hs, hsum, q, hq⟩ := hop
    simp only [Quota.step]
    cases hm : w.mgr with
    | none => exact H
    | some m =>
      cases hdb : w.db with
      | none => exact H
      | some inv =>
        obtain ⟨hroot, hpois, hage⟩ := H.mgr m hm
        simp only [hpois, Bool.false_eq_true, if_false, hroot]
        have G := H.good inv hdb
        cases hc : onCreated w.fs R inv p size t with
        | none =>
          exfalso
          unfold onCreated at hc
          split at hc
          · cases hc
          · rw [if_neg (by omega)] at hc; cases hc
        | some inv' =>
          dsimp only
          refine ⟨H.rootOk, ?_, (fun m' h => by cases h; exact ⟨hroot, hpois, hage⟩), fun m' _ => ⟨inv', rfl⟩⟩
          intro inv'' h; cases h
          exact G.created p q size t hq hs (hsum inv hdb) inv' hc
  | accessed p t =>
    simp only [Quota.step]
    cases hm : w.mgr with
    | none => exact H
    | some m =>
      cases hdb : w.db with
      | none => exact H
      | some inv =>
        obtain ⟨hroot, hpois, hage⟩ := H.mgr m hm
        simp only [hpois, Bool.false_eq_true, if_false, hroot]
        have G := H.good inv hdb
        have ht : 0 ≤ t := hop
        cases hc : onAccessed w.fs R inv p t with
        | none =>
          exfalso
          unfold onAccessed at hc
          split at hc
          · cases hc
          · rw [if_neg (by omega)] at hc; cases hc
        | some inv' =>
          dsimp only
          refine ⟨H.rootOk, ?_, (fun m' h => by cases h; exact ⟨hroot, hpois, hage⟩), fun m' _ => ⟨inv', rfl⟩⟩
          intro inv'' h; cases h
          exact G.accessed p t inv' hc
  | deleted p =>
    simp only [Quota.step]
    cases hm : w.mgr with
    | none => exact H
    | some m =>
      cases hdb : w.db with
      | none => exact H
      | some inv =>
        obtain ⟨hroot, hpois, hage⟩ := H.mgr m hm
        simp only [hpois, Bool.false_eq_true, if_false, hroot]
        refine ⟨H.rootOk, ?_, (fun m' h => by cases h; exact ⟨hroot, hpois, hage⟩), fun m' _ => ⟨_, rfl⟩⟩
        intro inv'' h; cases h
        exact (H.good inv hdb).deleted p
  | setMaxSize v =>
    simp only [Quota.step]
    cases hm : w.mgr with
    | none => exact H
    | some m =>
      obtain ⟨hroot, hpois, hage⟩ := H.mgr m hm
      refine ⟨H.rootOk, H.good, ?_, ?_⟩
      · intro m' h; cases h; exact ⟨hroot, hpois, hage⟩
      · intro m' _; exact H.mgrDb m hm
  | setMaxAge v =>
    simp only [Quota.step]
    cases hm : w.mgr with
    | none => exact H
    | some m =>
      obtain ⟨hroot, hpois, _⟩ := H.mgr m hm
      refine ⟨H.rootOk, H.good, ?_, ?_⟩
      · intro m' h; cases h; exact ⟨hroot, hpois, hop⟩
      · intro m' _; exact H.mgrDb m hm
  | evict =>
    simp only [Quota.step]
    cases hm : w.mgr with
    | none => exact H
    | some m =>
      cases hdb : w.db with
      | none => exact H
      | some inv =>
        obtain ⟨hroot, hpois, hage⟩ := H.mgr m hm
        simp only [hpois, Bool.false_eq_true, if_false]
        have G : Good w.fs m.cfg.root inv := by rw [hroot]; exact H.good inv hdb
        have F := evictCore_plain (sortLRU inv) inv now m.cfg w.fs G (sortLRU_perm inv) hage
        refine ⟨?_, ?_, ?_, fun m' _ => ⟨_, rfl⟩⟩
        · have := F.good.rootOk; rw [hroot] at this; exact this
        · intro inv'' h; cases h
          have := F.good; rw [hroot] at this; exact this
        · intro m' h; cases h
          refine ⟨hroot, ?_, hage⟩
          have hok : (evict now m.cfg w.fs inv).out = .ok := F.ok
          simp [hok]
  | evictAsync =>
    simp only [Quota.step]
    cases hm : w.mgr with
    | none => exact H
    | some m =>
      cases hdb : w.db with
      | none => exact H
      | some inv =>
        obtain ⟨hroot, hpois, hage⟩ := H.mgr m hm
        simp only [hpois, Bool.false_eq_true, if_false]
        have G : Good w.fs m.cfg.root inv := by rw [hroot]; exact H.good inv hdb
        have F := evictCore_plain (sortLRU inv) inv now m.cfg w.fs G (sortLRU_perm inv) hage
        refine ⟨?_, ?_, (fun m' h => by cases h), (fun m' h => by cases h)⟩
        · have := F.good.rootOk; rw [hroot] at this; exact this
        · intro inv'' h; cases h
          have := F.good; rw [hroot] at this; exact this
  | mkfile p =>
    exact H.fsChange _ hop (setKey_noNewLinks w.fs p .file (fun t h => by cases h))
  | mkdir p =>
    exact H.fsChange _ hop (setKey_noNewLinks w.fs p .dir (fun t h => by cases h))
  | symlink p t => exact absurd hop id
  | rm p =>
    exact H.fsChange _ hop (rm_noNewLinks w.fs p)

/-- the side conditions along a whole history -/
def HistOk (R : Path) (now : Nat) : World → List Op → Prop
  | _, [] => True
  | w, op :: ops => OpOk R now w op ∧ HistOk R now (Quota.step now w op).1 ops

/-- the state after a history -/
def run (now : Nat) : World → List Op → World
  | w, [] => w
  | w, op :: ops => run now (Quota.step now w op).1 ops

theorem HistInv.run {R : Path} {now : Nat} {w : World} (H : HistInv R now w) (ops : List Op)
    (hok : HistOk R now w ops) : HistInv R now (run now w ops) := by
  induction ops generalizing w with
  | nil => exact H
  | cons op ops ih => exact ih (H.step op hok.1) hok.2


/-! ### the table restricted to one key is a one-cell machine driven by the reports -/

/-- a notification whose path has been resolved to its key (`relUnder`) and whose time is after the epoch -/
inductive Note where
  | created (rel : Path) (size : Nat) (t : Nat)
  | accessed (rel : Path) (t : Nat)
  | deleted (rel : Path)

def applyNote (inv : List Row) : Note → List Row
  | .created rel size t => upsert ⟨rel, toI64 size, t, t⟩ inv
  | .accessed rel t => setAtime rel t inv
  | .deleted rel => invDelete rel inv

/-- what the reports say about one key: `none` = not tracked, `some t` = tracked and last reported as
accessed at `t` (a `created` report counts as an access; `accessed` for an untracked key is ignored) -/
def lastReport (rel : Path) : Option Nat → List Note → Option Nat
  | s, [] => s
  | s, .created r _ t :: ns => lastReport rel (if r = rel then some t else s) ns
  | s, .accessed r t :: ns => lastReport rel (if r = rel then s.map (fun _ => t) else s) ns
  | s, .deleted r :: ns => lastReport rel (if r = rel then none else s) ns

/-- the access time the table stores for a key -/
def atimeOf (rel : Path) (inv : List Row) : Option Nat :=
  (inv.find? (fun x => x.rel == rel)).map (·.atime)

theorem atimeOf_upsert_same (r : Row) (inv : List Row) : atimeOf r.rel (upsert r inv) = some r.atime := by
  induction inv with
  | nil => simp [upsert, atimeOf]
  | cons x xs ih =>
    simp only [upsert]
    split
    · simp [atimeOf]
    · next ne =>
      have : (x.rel == r.rel) = false := by simpa using ne
      simp only [atimeOf, List.find?, this] at ih ⊢
      exact ih

theorem atimeOf_upsert_other (r : Row) (rel : Path) (h : r.rel ≠ rel) (inv : List Row) :
    atimeOf rel (upsert r inv) = atimeOf rel inv := by
  have hr : (r.rel == rel) = false := by simpa using h
  induction inv with
  | nil => simp [upsert, atimeOf, hr]
  | cons x xs ih =>
    simp only [upsert]
    split
    · next e =>
      have hx : (x.rel == rel) = false := by rw [e]; exact hr
      simp [atimeOf, List.find?, hr, hx]
    · cases hx : x.rel == rel
      · simp only [atimeOf, List.find?, hx] at ih ⊢
        exact ih
      · simp [atimeOf, List.find?, hx]

theorem atimeOf_setAtime (r rel : Path) (t : Nat) (inv : List Row) :
    atimeOf rel (setAtime r t inv) = if r = rel then (atimeOf rel inv).map (fun _ => t) else atimeOf rel inv := by
  induction inv with
  | nil => simp [setAtime, atimeOf]
  | cons x xs ih =>
    have e : setAtime r t (x :: xs) = (if x.rel = r then { x with atime := t } else x) :: setAtime r t xs := rfl
    rw [e]
    by_cases hxr : x.rel = r
    · rw [if_pos hxr]
      cases hx : x.rel == rel
      · have hx' : (({ x with atime := t } : Row).rel == rel) = false := hx
        simp only [atimeOf, List.find?, hx, hx'] at ih ⊢
        exact ih
      · have hx' : (({ x with atime := t } : Row).rel == rel) = true := hx
        have : r = rel := by rw [← hxr]; simpa using hx
        simp [atimeOf, List.find?, hx, hx', this]
    · rw [if_neg hxr]
      cases hx : x.rel == rel
      · simp only [atimeOf, List.find?, hx] at ih ⊢
        exact ih
      · have : r ≠ rel := by
          intro e2; apply hxr; rw [e2]; simpa using hx
        simp [atimeOf, List.find?, hx, this]

theorem atimeOf_invDelete (r rel : Path) (inv : List Row) :
    atimeOf rel (invDelete r inv) = if r = rel then none else atimeOf rel inv := by
  induction inv with
  | nil => simp [invDelete, atimeOf]
  | cons x xs ih =>
    unfold invDelete at ih ⊢
    cases hxr : x.rel == r
    · simp only [List.filter, hxr, Bool.not_false]
      cases hx : x.rel == rel
      · simp only [atimeOf, List.find?, hx] at ih ⊢
        exact ih
      · have : r ≠ rel := by
          intro e2
          have h1 : x.rel = rel := by simpa using hx
          have h2 : ¬ x.rel = r := by simpa using hxr
          exact h2 (by rw [h1, e2])
        simp [atimeOf, List.find?, hx, this]
    · simp only [List.filter, hxr, Bool.not_true]
      by_cases hrr : r = rel
      · rw [if_pos hrr] at ih ⊢; exact ih
      · rw [if_neg hrr] at ih ⊢
        have hx : (x.rel == rel) = false := by
          have h1 : x.rel = r := by simpa using hxr
          rw [h1]; simpa using hrr
        rw [ih]
        simp [atimeOf, List.find?, hx]

/-- **The stored access time of a key is the time of its last report**, for every sequence of reports. -/
theorem atimeOf_foldl (rel : Path) (notes : List Note) (inv : List Row) :
    atimeOf rel (notes.foldl applyNote inv) = lastReport rel (atimeOf rel inv) notes := by
  induction notes generalizing inv with
  | nil => rfl
  | cons n ns ih =>
    rw [List.foldl_cons, ih]
    cases n with
    | created r size t =>
      simp only [lastReport, applyNote]
      by_cases h : r = rel
      · subst h
        rw [if_pos rfl, atimeOf_upsert_same ⟨r, toI64 size, t, t⟩ inv]
      · rw [if_neg h, atimeOf_upsert_other ⟨r, toI64 size, t, t⟩ rel h inv]
    | accessed r t =>
      simp only [lastReport, applyNote, atimeOf_setAtime]
    | deleted r =>
      simp only [lastReport, applyNote, atimeOf_invDelete]

end Quota
