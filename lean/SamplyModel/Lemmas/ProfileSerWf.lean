import SamplyModel.Lemmas.ProfileOps
/-!
From the table invariant to the specification: every thread of a state satisfying `TInv` serializes
(no panic) to tables satisfying `wfThread`.
-/
namespace PT

theorem AllBelow.all_true {l : List Nat} {n : Nat} (h : AllBelow l n) : l.all (· < n) = true :=
  List.all_eq_true.mpr (fun x hx => decide_eq_true (h x hx))

theorem OptBelow.all_true {l : List (Option Nat)} {n : Nat} (h : OptBelow l n) : l.all (optBelow n) = true := by
  rw [List.all_eq_true]
  intro x hx
  cases x with
  | none => rfl
  | some v => exact decide_eq_true (h _ hx v rfl)

theorem prefixOk_of (l : List (Option Nat)) : ∀ (k : Nat),
    (∀ (i p : Nat), l[i]? = some (some p) → p < k + i) → prefixOk k l = true := by
  induction l with
  | nil => intro k _; rfl
  | cons x xs ih =>
    intro k h
    simp only [prefixOk, Bool.and_eq_true]
    refine ⟨?_, ih (k + 1) ?_⟩
    · cases x with
      | none => rfl
      | some p => exact decide_eq_true (by simpa using h 0 p (by simp))
    · intro i p hip
      have := h (i + 1) p (by simpa using hip)
      omega

theorem PrefixOk.prefixOk_true {l : List (Option Nat)} (h : PrefixOk l) : prefixOk 0 l = true :=
  prefixOk_of l 0 (fun i p hip => by simpa using h i p hip)

def serCats (cats : List Cat) : List (Str × Nat × List Str) := cats.map (fun c => (c.name, c.color, c.subs))

theorem subOk_of (cats : List Cat) : ∀ (cat sub : List Nat), cat.length = sub.length →
    SubsOk (subCount cats) cat sub → subOk (serCats cats) cat sub = true
  | [], [], _, _ => rfl
  | [], _ :: _, hl, _ => by simp at hl
  | _ :: _, [], hl, _ => by simp at hl
  | c :: cs, s :: ss, hl, h => by
    simp only [subOk, Bool.and_eq_true]
    refine ⟨?_, subOk_of cats cs ss (by simpa using hl) (fun x hx => h x (by simp [hx]))⟩
    have hcs := h (c, s) (by simp)
    simp only [subCount] at hcs
    simp only [serCats, List.getElem?_map]
    cases hc : cats[c]? with
    | none => simp [hc] at hcs
    | some cat =>
      simp only [hc, Option.map_some, Option.getD_some] at hcs
      simpa using hcs

theorem SubsOk.cats_below (cats : List Cat) : ∀ (cat sub : List Nat), cat.length = sub.length →
    SubsOk (subCount cats) cat sub → AllBelow cat cats.length
  | [], _, _, _ => fun _ hx => (nomatch hx)
  | _ :: _, [], hl, _ => by simp at hl
  | c :: cs, s :: ss, hl, h => by
    intro x hx
    simp only [List.mem_cons] at hx
    rcases hx with rfl | hx
    · exact subCount_lt_length (h (x, s) (by simp))
    · exact SubsOk.cats_below cats cs ss (by simpa using hl) (fun y hy => h y (by simp [hy])) x hx

theorem serThread_wf (p : P) (h : TInv p) (t : Thread) (ht : t ∈ p.threads) :
    ∃ st, serThread p t = some st ∧ wfThread p.libs.used.length (serCats p.cats) st = true := by
  obtain ⟨a1, a2, a3, a4, a5, a6, a7, a8, a9, a10⟩ := h.threads t ht
  have hpr : t.process < p.processes.length := a9
  obtain ⟨m1, m2, m3, m4, m5, m6, m7, m8⟩ := a8
  obtain ⟨u, hu, hub⟩ := markerUstr_spec p.schemas t.strings.n p.gstrings.strings.length t.markers.types
    t.markers.strVals t.markers.numVals 0 m8
  obtain ⟨f1, f2, f3, f4, f5, f6, f7, f8, f9, f10, f11, f12, f13, _⟩ := a2
  obtain ⟨g1, g2, g3, g4, g5, g6, g7⟩ := f1
  obtain ⟨r1, r2, r3, r4⟩ := f2
  obtain ⟨n1, n2, n3, n4, n5, n6⟩ := a3
  obtain ⟨s1, s2, s3, s4, _⟩ := a4
  simp only [serThread, List.getElem?_eq_getElem hpr, hu]
  refine ⟨_, rfl, ?_⟩
  have hlen : (serCats p.cats).length = p.cats.length := by simp [serCats]
  simp only [wfThread, Bool.and_eq_true, decide_eq_true_eq, List.all_cons, List.all_nil, Bool.and_true, hlen]
  repeat' apply And.intro
  all_goals first
    | rfl
    | trivial
    | assumption
    | omega
    | (rw [g1]; exact f11.all_true)
    | exact (SubsOk.cats_below p.cats _ _ (f4.trans f5.symm) f12).all_true
    | exact subOk_of p.cats _ _ (f4.trans f5.symm) f12
    | exact f13.all_true
    | exact g5.all_true
    | exact g6.all_true
    | exact g7.all_true
    | exact r2.all_true
    | exact r3.all_true
    | exact n4.all_true
    | exact n5.all_true
    | (rw [f3]; exact s2.all_true)
    | exact s3.prefixOk_true
    | exact a5.all_true
    | exact m7.all_true
    | exact m5.all_true
    | exact m6.all_true
    | skip
  · cases hal : t.allocs with
    | none => rfl
    | some st =>
      simp only [Option.map_some, List.all_cons, List.all_nil, decide_true, Bool.and_true, Bool.true_and]
      exact (a10 st hal).all_true
  · rw [List.all_eq_true]
    intro iv hiv
    have := hub iv hiv
    simp only [Bool.and_eq_true, decide_eq_true_eq]
    exact ⟨by omega, this.2.2⟩

end PT
