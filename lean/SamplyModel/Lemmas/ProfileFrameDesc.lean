import SamplyModel.Lemmas.ProfileExt
/-!
Decoding half of canonical interning, part 2: the description (`FrameDesc`) behind a frame row.

* `decode_of_inv` — in a state satisfying the invariant, decoding serialized row `i` gives `P.descOf` of the
  key interned at `i`;
* `P.descOf_stable` — the description of a key never changes once it is defined (`Ext`);
* what the label-frame operation interns (`P.frameLabel_result`).
-/
namespace PT

theorem getLibName_eq (g : GlobalLibs) (l : Nat) :
    g.getLibName l = (g.used[l]?).bind (fun h => g.all[h]?) := by
  unfold GlobalLibs.getLibName
  cases g.used[l]? <;> rfl

theorem serThread_cols (p : P) (th : Thread) (st : SerThread) (h : serThread p th = some st) :
    st.strings = th.strings.table.strings ∧ st.nsAddr = th.nsyms.addrs ∧ st.nsSize = th.nsyms.sizes ∧
    st.nsLib = th.nsyms.libs ∧ st.nsName = th.nsyms.names := by
  unfold serThread at h
  split at h
  · cases h; exact ⟨rfl, rfl, rfl, rfl, rfl⟩
  · cases h

/-- decoding a serialized row = describing its key in the model state -/
theorem decode_of_inv (p : P) (hT : TInv p) (hS : SInv p) (s : SerProfile) (hs : serialize p = some s)
    (t : Nat) (th : Thread) (ht : p.threads[t]? = some th) :
    ∃ st ∈ s.threads, st.tid = idString th.tid ∧
      ∀ (i : Nat) (k : Frame), th.frames.keys[i]? = some k → decodeFrame s st i = p.descOf th k := by
  obtain ⟨hlibs, hcats, hthreads⟩ := serialize_parts p hS s hs
  obtain ⟨st, hst, hser⟩ := hthreads t th ht
  refine ⟨st, hst, (serThread_fields p th st hser).1, ?_⟩
  intro i k hk
  obtain ⟨_, a2, _⟩ := hT.threads th (List.mem_of_getElem? ht)
  have hrow : st.rowFrame i = some k := by
    rw [serThread_rowFrame p th st hser i]
    exact a2.2.2.2.2.2.2.2.2.2.2.2.2.2.2.row i k hk
  obtain ⟨c1, c2, c3, c4, c5⟩ := serThread_cols p th st hser
  have hl : (fun l => s.libs[l]?) = p.libs.getLibName := by
    funext l
    rw [hlibs l, getLibName_eq]
  simp only [decodeFrame, hrow, Option.bind_some, descOfFrame, P.descOf, c1, c2, c3, c4, c5, hcats, hl]

/-! ### stability -/

theorem optStr_stable {S S' : List Str} (hS : S <+: S') {o : Option Nat} {r : Option Str}
    (h : optStr S o = some r) : optStr S' o = some r := by
  cases o with
  | none => exact h
  | some i =>
    simp only [optStr, Option.map_eq_some_iff] at h ⊢
    obtain ⟨a, ha, rfl⟩ := h
    exact ⟨a, prefix_getElem? hS ha, rfl⟩

theorem descOfCols_stable {S S' : List Str} {L L' : Nat → Option Str} {C C' : List (Str × Nat × List Str)}
    {A A' : List Nat} {Z Z' : List (Option Nat)} {B B' N N' : List Nat} (k : Frame) (d : FrameDesc)
    (hS : S <+: S') (hL : ∀ l x, L l = some x → L' l = some x)
    (hC : ∀ (i : Nat) (c : Str × Nat × List Str), C[i]? = some c →
      ∃ c' : Str × Nat × List Str, C'[i]? = some c' ∧ c'.1 = c.1 ∧ c'.2.1 = c.2.1 ∧ c.2.2 <+: c'.2.2)
    (hA : A <+: A') (hZ : Z <+: Z') (hB : B <+: B') (hN : N <+: N')
    (h : descOfCols S L C A Z B N k = some d) : descOfCols S' L' C' A' Z' B' N' k = some d := by
  unfold descOfCols at h ⊢
  split at h
  · rename_i name file c h1 h2 h3
    obtain ⟨c', e3, e4, e5, e6⟩ := hC _ _ h3
    rw [prefix_getElem? hS h1, optStr_stable hS h2, e3]
    simp only
    split at h
    · cases h
    · rename_i sub h4
      rw [prefix_getElem? e6 h4]
      simp only [e4, e5]
      split at h
      · exact h
      · rename_i n
        split at h
        · cases h
        · rename_i lib h5
          rw [hL _ _ h5]
          simp only
          split at h
          · exact h
          · rename_i j _
            split at h
            · rename_i nl na nsz nn g1 g2 g3 g4
              have g1' : (B'[j]?).bind L' = some nl := by
                simp only [Option.bind_eq_some_iff] at g1 ⊢
                obtain ⟨x, hx, hx'⟩ := g1
                exact ⟨x, prefix_getElem? hB hx, hL _ _ hx'⟩
              have g4' : (N'[j]?).bind (S'[·]?) = some nn := by
                simp only [Option.bind_eq_some_iff] at g4 ⊢
                obtain ⟨x, hx, hx'⟩ := g4
                exact ⟨x, prefix_getElem? hN hx, prefix_getElem? hS hx'⟩
              rw [g1', prefix_getElem? hA g2, prefix_getElem? hZ g3, g4']
              exact h
            · cases h
  · cases h

theorem getLibName_stable {g g' : GlobalLibs} (ha : g.all <+: g'.all) (hu : g.used <+: g'.used) (l : Nat) (x : Str)
    (h : g.getLibName l = some x) : g'.getLibName l = some x := by
  rw [getLibName_eq, Option.bind_eq_some_iff] at h ⊢
  obtain ⟨i, hi, hx⟩ := h
  exact ⟨i, prefix_getElem? hu hi, prefix_getElem? ha hx⟩

/-- **the description of an interned key never changes** -/
theorem P.descOf_stable {p p' : P} (he : Ext p p') (t : Nat) (th : Thread) (ht : p.threads[t]? = some th)
    (k : Frame) (d : FrameDesc) (h : p.descOf th k = some d) :
    ∃ th', p'.threads[t]? = some th' ∧ p'.descOf th' k = some d := by
  obtain ⟨th', ht', hse, hns⟩ := he.threads t th ht
  refine ⟨th', ht', ?_⟩
  unfold P.descOf at h ⊢
  refine descOfCols_stable k d hse.prefix (getLibName_stable he.all he.used) ?_ hns.1 hns.2.1 hns.2.2.1 hns.2.2.2 h
  intro i c hc
  simp only [List.getElem?_map, Option.map_eq_some_iff] at hc
  obtain ⟨cat, hcat, rfl⟩ := hc
  obtain ⟨cat', g1, g2, g3, g4⟩ := he.cats i cat hcat
  exact ⟨(cat'.name, cat'.color, cat'.subs), by simp [g1], g2, g3, g4⟩

end PT
