import SamplyModel.Lemmas.ProfileExt
/-!
Decoding half of canonical interning, part 2: the description (`FrameDesc`) behind a frame row.

* `decode_of_inv` — in a state satisfying the invariant, decoding serialized row `i` gives `P.descOf` of the
  key interned at `i`;
* `P.descOf_stable` — the description of a key never changes once it is defined (`Ext`);
* what the label-frame operation interns (`P.frameLabel_result`).
-/
namespace PT

theorem getLibName_eq (g : GlobalLibs) (l : Nat) :
    g.getLibName l = (g.used[l]?).bind (fun h => g.all[h]?) := by
  unfold GlobalLibs.getLibName
  cases g.used[l]? <;> rfl

theorem serThread_cols (p : P) (th : Thread) (st : SerThread) (h : serThread p th = some st) :
    st.strings = th.strings.table.strings ∧ st.nsAddr = th.nsyms.addrs ∧ st.nsSize = th.nsyms.sizes ∧
    st.nsLib = th.nsyms.libs ∧ st.nsName = th.nsyms.names := by
  unfold serThread at h
  split at h
  · cases h; exact ⟨rfl, rfl, rfl, rfl, rfl⟩
  · cases h

/-- decoding a serialized row = describing its key in the model state -/
theorem decode_of_inv (p : P) (hT : TInv p) (hS : SInv p) (s : SerProfile) (hs : serialize p = some s)
    (t : Nat) (th : Thread) (ht : p.threads[t]? = some th) :
    ∃ st ∈ s.threads, st.tid = idString th.tid ∧
      ∀ (i : Nat) (k : Frame), th.frames.keys[i]? = some k → decodeFrame s st i = p.descOf th k := by
  obtain ⟨hlibs, hcats, hthreads⟩ := serialize_parts p hS s hs
  obtain ⟨st, hst, hser⟩ := hthreads t th ht
  refine ⟨st, hst, (serThread_fields p th st hser).1, ?_⟩
  intro i k hk
  obtain ⟨_, a2, _⟩ := hT.threads th (List.mem_of_getElem? ht)
  have hrow : st.rowFrame i = some k := by
    rw [serThread_rowFrame p th st hser i]
    exact a2.2.2.2.2.2.2.2.2.2.2.2.2.2.2.row i k hk
  obtain ⟨c1, c2, c3, c4, c5⟩ := serThread_cols p th st hser
  have hl : (fun l => s.libs[l]?) = p.libs.getLibName := by
    funext l
    rw [hlibs l, getLibName_eq]
  simp only [decodeFrame, hrow, Option.bind_some, descOfFrame, P.descOf, c1, c2, c3, c4, c5, hcats, hl]

/-! ### stability -/

theorem optStr_stable {S S' : List Str} (hS : S <+: S') {o : Option Nat} {r : Option Str}
    (h : optStr S o = some r) : optStr S' o = some r := by
  cases o with
  | none => exact h
  | some i =>
    simp only [optStr, Option.map_eq_some_iff] at h ⊢
    obtain ⟨a, ha, rfl⟩ := h
    exact ⟨a, prefix_getElem? hS ha, rfl⟩

theorem descOfCols_stable {S S' : List Str} {L L' : Nat → Option Str} {C C' : List (Str × Nat × List Str)}
    {A A' : List Nat} {Z Z' : List (Option Nat)} {B B' N N' : List Nat} (k : Frame) (d : FrameDesc)
    (hS : S <+: S') (hL : ∀ l x, L l = some x → L' l = some x)
    (hC : ∀ (i : Nat) (c : Str × Nat × List Str), C[i]? = some c →
      ∃ c' : Str × Nat × List Str, C'[i]? = some c' ∧ c'.1 = c.1 ∧ c'.2.1 = c.2.1 ∧ c.2.2 <+: c'.2.2)
    (hA : A <+: A') (hZ : Z <+: Z') (hB : B <+: B') (hN : N <+: N')
    (h : descOfCols S L C A Z B N k = some d) : descOfCols S' L' C' A' Z' B' N' k = some d := by
  unfold descOfCols at h ⊢
  split at h
  · rename_i name file c h1 h2 h3
    obtain ⟨c', e3, e4, e5, e6⟩ := hC _ _ h3
    rw [prefix_getElem? hS h1, optStr_stable hS h2, e3]
    simp only
    split at h
    · cases h
    · rename_i sub h4
      rw [prefix_getElem? e6 h4]
      simp only [e4, e5]
      split at h
      · exact h
      · rename_i n
        split at h
        · cases h
        · rename_i lib h5
          rw [hL _ _ h5]
          simp only
          split at h
          · exact h
          · rename_i j _
            split at h
            · rename_i nl na nsz nn g1 g2 g3 g4
              have g1' : (B'[j]?).bind L' = some nl := by
                simp only [Option.bind_eq_some_iff] at g1 ⊢
                obtain ⟨x, hx, hx'⟩ := g1
                exact ⟨x, prefix_getElem? hB hx, hL _ _ hx'⟩
              have g4' : (N'[j]?).bind (S'[·]?) = some nn := by
                simp only [Option.bind_eq_some_iff] at g4 ⊢
                obtain ⟨x, hx, hx'⟩ := g4
                exact ⟨x, prefix_getElem? hN hx, prefix_getElem? hS hx'⟩
              rw [g1', prefix_getElem? hA g2, prefix_getElem? hZ g3, g4']
              exact h
            · cases h
  · cases h

theorem getLibName_stable {g g' : GlobalLibs} (ha : g.all <+: g'.all) (hu : g.used <+: g'.used) (l : Nat) (x : Str)
    (h : g.getLibName l = some x) : g'.getLibName l = some x := by
  rw [getLibName_eq, Option.bind_eq_some_iff] at h ⊢
  obtain ⟨i, hi, hx⟩ := h
  exact ⟨i, prefix_getElem? hu hi, prefix_getElem? ha hx⟩

/-- **the description of an interned key never changes** -/
theorem P.descOf_stable {p p' : P} (he : Ext p p') (t : Nat) (th : Thread) (ht : p.threads[t]? = some th)
    (k : Frame) (d : FrameDesc) (h : p.descOf th k = some d) :
    ∃ th', p'.threads[t]? = some th' ∧ p'.descOf th' k = some d := by
  obtain ⟨th', ht', hse, hns⟩ := he.threads t th ht
  refine ⟨th', ht', ?_⟩
  unfold P.descOf at h ⊢
  refine descOfCols_stable k d hse.prefix (getLibName_stable he.all he.used) ?_ hns.1 hns.2.1 hns.2.2.1 hns.2.2.2 h
  intro i c hc
  simp only [List.getElem?_map, Option.map_eq_some_iff] at hc
  obtain ⟨cat, hcat, rfl⟩ := hc
  obtain ⟨cat', g1, g2, g3, g4⟩ := he.cats i cat hcat
  exact ⟨(cat'.name, cat'.color, cat'.subs), by simp [g1], g2, g3, g4⟩

/-! ### the global→local string maps are right in every reachable state -/

def SDecAll (p : P) : Prop := ∀ th ∈ p.threads, SDec p.gstrings.strings th.strings

theorem SDecAll.init : SDecAll P.init := fun _ h => (nomatch h)

theorem step_threads_length (p : P) (op : Op) (h : ∀ a b c d, op ≠ .addThread a b c d) :
    (step p op).1.threads.length = p.threads.length := by
  by_cases h1 : ∃ a b c, op = .addProcess a b c
  · obtain ⟨a, b, c, rfl⟩ := h1; rfl
  by_cases h3 : ∃ a b, op = .setTid a b
  · obtain ⟨a, b, rfl⟩ := h3
    simp only [step]
    split
    · rfl
    · simp
  have := step_skel p op (fun a b c e => h1 ⟨a, b, c, e⟩) h (fun a b e => h3 ⟨a, b, e⟩)
  have := congrArg (fun s => s.1.length) this
  simpa [skel] using this

theorem SDecAll.step {p : P} (hd : SDecAll p) (hg : StrInv p.gstrings) (op : Op) : SDecAll (PT.step p op).1 := by
  by_cases h2 : ∃ a b c d, op = .addThread a b c d
  · obtain ⟨a, b, c, d, rfl⟩ := h2
    simp only [PT.step]
    split
    · exact hd
    · intro th hth
      simp only [List.mem_append, List.mem_singleton] at hth
      rcases hth with hth | rfl
      · exact hd th hth
      · exact ⟨⟨fun _ hx => (nomatch hx), fun _ hx => (nomatch hx)⟩, fun _ hx => (nomatch hx)⟩
  · have hlen := step_threads_length p op (fun a b c d e => h2 ⟨a, b, c, d, e⟩)
    have he := step_ext p hg op
    intro th' hth'
    obtain ⟨i, hi, hget⟩ := List.getElem_of_mem hth'
    rw [hlen] at hi
    obtain ⟨th'', h1, h2', _⟩ := he.threads i _ (List.getElem?_eq_getElem hi)
    have : (PT.step p op).1.threads[i]? = some th' := by
      rw [List.getElem?_eq_getElem (by rw [hlen]; exact hi), hget]
    rw [this] at h1
    cases h1
    exact h2'.sdec ((hd _ (List.getElem_mem hi)).mono he.gstr)

theorem SDecAll.runFrom : ∀ (ops : List Op) (p : P), Inv p → SDecAll p → AcceptedFrom p ops = true →
    SDecAll (ops.foldl (fun p op => (PT.step p op).1) p)
  | [], _, _, h, _ => h
  | op :: ops, p, hi, h, ha => by
    simp only [AcceptedFrom, Bool.and_eq_true] at ha
    exact SDecAll.runFrom ops _ (hi.step op ha.1.1 ha.1.2) (h.step hi.1.gstr op) ha.2

theorem SDecAll.run (ops : List Op) (h : Accepted ops = true) : SDecAll (run ops) :=
  SDecAll.runFrom ops P.init Inv.init SDecAll.init h

/-! ### what the label-frame operation interns -/

theorem FrameTable.indexFor_key (t : FrameTable) (f : Frame) (g : GlobalLibs) (st : ThreadStrings)
    (r : FrameTable × ThreadStrings × Nat) (h : t.indexFor f g st = some r) : r.1.keys[r.2.2]? = some f := by
  unfold FrameTable.indexFor at h
  dsimp only at h
  split at h
  · rename_i hi
    cases h
    simp only
    rw [List.getElem?_eq_getElem hi, List.getElem_idxOf hi]
  · split at h
    · cases h
    · split at h
      · cases h; simp
      · split at h
        · cases h; simp
        · cases h

theorem convertOpt_get (p : P) (st : ThreadStrings) (o : Option Nat) (r : ThreadStrings × Option Nat)
    (hd : SDec p.gstrings.strings st) (h : convertOpt p st o = some r) :
    SDec p.gstrings.strings r.1 ∧ ∃ fs, p.optGstr o = some fs ∧ optStr r.1.table.strings r.2 = some fs := by
  cases o with
  | none => simp only [convertOpt, Option.some.injEq] at h; subst h; exact ⟨hd, none, rfl, rfl⟩
  | some g =>
    simp only [convertOpt] at h
    split at h
    · cases h
    · rename_i s hs
      cases h
      obtain ⟨h1, h2⟩ := hd.forGlobal g s hs
      exact ⟨h1, some s, by simp [P.optGstr, hs], by simp [optStr, h2]⟩

theorem subNames_some (cats : List Cat) (c s : Nat) (h : s < subCount cats c) : ∃ cs, subNames cats c s = some cs := by
  unfold subCount at h
  unfold subNames
  cases hc : cats[c]? with
  | none => simp [hc] at h
  | some cat =>
    simp only [hc, Option.map_some, Option.getD_some] at h
    simp [List.getElem?_eq_getElem h]

/-- interning a label key whose name / file indices point at the right strings: the new row's description -/
theorem P.internFrame_label (p : P) (t : Nat) (th th0 : Thread) (st : ThreadStrings) (l c s flags : Nat)
    (file' line col : Option Nat) (label : Str) (file : Option Str) (cs : (Str × Nat) × Str)
    (h0 : p.threads[t]? = some th0) (hl : st.table.strings[l]? = some label)
    (hf : optStr st.table.strings file' = some file) (hcs : subNames p.cats c s = some cs)
    (p2 : P) (t' i : Nat) (h : p.internFrame t th st ⟨l, none, c, s, file', line, col, flags⟩ = (p2, .h [t', i])) :
    t' = t ∧ ∃ th2, p2.threads[t]? = some th2 ∧
      th2.frames.keys[i]? = some ⟨l, none, c, s, file', line, col, flags⟩ ∧
      p2.descOf th2 ⟨l, none, c, s, file', line, col, flags⟩ =
        some ⟨label, cs.1, cs.2, none, none, none, 0, file, line, col, flags⟩ := by
  unfold P.internFrame at h
  cases hi : th.frames.indexFor ⟨l, none, c, s, file', line, col, flags⟩ p.libs st with
  | none => simp [hi] at h
  | some r =>
    obtain ⟨ft, st', i'⟩ := r
    simp only [hi, Prod.mk.injEq, Out.h.injEq, List.cons.injEq, and_true] at h
    obtain ⟨hp2, ht', hi'⟩ := h
    subst hp2; subst hi'
    refine ⟨ht'.symm, _, P.setThread_get p t th0 _ h0, FrameTable.indexFor_key _ _ _ _ _ hi, ?_⟩
    have hpre := (FrameTable.indexFor_SE p.gstrings.strings _ _ _ _ _ hi).prefix
    simp only at hpre
    unfold subNames at hcs
    split at hcs
    · cases hcs
    · rename_i cat hcat
      split at hcs
      · cases hcs
      · rename_i sub hsub
        cases hcs
        simp [P.descOf, descOfCols, P.setThread, prefix_getElem? hpre hl, optStr_stable hpre hf, hcat, hsub]

theorem P.frameLabel_after (p1 : P) (hd : SDecAll p1) (t str : Nat)
    (src : Option (Option Nat × Option Nat × Option Nat)) (c s flags : Nat) (cs : (Str × Nat) × Str)
    (hcs : subNames p1.cats c s = some cs) (p2 : P) (t' i : Nat)
    (h : p1.frameLabel t str src c s flags = (p2, .h [t', i])) :
    t' = t ∧ ∃ label file th2 k, p1.gstr str = some label ∧ p1.optGstr (src.bind (·.1)) = some file ∧
      p2.threads[t]? = some th2 ∧ th2.frames.keys[i]? = some k ∧
      p2.descOf th2 k =
        some ⟨label, cs.1, cs.2, none, none, none, 0, file, src.bind (·.2.1), src.bind (·.2.2), flags⟩ := by
  unfold P.frameLabel at h
  split at h
  · rename_i th label hth hlabel
    have hsd := hd th (List.mem_of_getElem? hth)
    obtain ⟨g1, g2⟩ := hsd.forGlobal str label hlabel
    cases src with
    | none =>
      simp only at h
      obtain ⟨e1, th2, e2, e3, e4⟩ := p1.internFrame_label t th th _ _ c s flags none none none label none cs hth g2 rfl hcs
        p2 t' i h
      exact ⟨e1, label, none, th2, _, hlabel, rfl, e2, e3, e4⟩
    | some x =>
      obtain ⟨file, line, col⟩ := x
      simp only at h
      split at h
      · cases h
      · rename_i st file' hco
        obtain ⟨k1, fs, k2, k3⟩ := convertOpt_get p1 _ _ _ g1 hco
        have hpre := (convertOpt_SE p1 _ _ _ hco).prefix
        obtain ⟨e1, th2, e2, e3, e4⟩ := p1.internFrame_label t th th st _ c s flags file' line col label fs cs hth
          (prefix_getElem? hpre g2) k3 hcs p2 t' i h
        exact ⟨e1, label, fs, th2, _, hlabel, k2, e2, e3, e4⟩
  · cases h

/-- the label-frame call: the handle it returns has, right after the call, the description the caller supplied -/
theorem label_step (p : P) (hI : Inv p) (hd : SDecAll p) (t str : Nat)
    (src : Option (Option Nat × Option Nat × Option Nat)) (sc : SubSpec) (flags : Nat)
    (hv : handlesValid p (.frameLabel t str src sc flags) = true) (i : Nat)
    (hout : (step p (.frameLabel t str src sc flags)).2 = .h [t, i]) :
    ∃ d th2 k, p.labelDesc str src sc flags = some d ∧
      (step p (.frameLabel t str src sc flags)).1.threads[t]? = some th2 ∧ th2.frames.keys[i]? = some k ∧
      (step p (.frameLabel t str src sc flags)).1.descOf th2 k = some d := by
  simp only [handlesValid, Bool.and_eq_true, decide_eq_true_eq] at hv
  obtain ⟨_, hsc⟩ := hv
  obtain ⟨_, _, _, hok, hinv⟩ := p.resolveSub_spec sc hI.1.subsPos hI.1.catsPos hsc
  have hg := p.resolveSub_gstrings sc
  have hth := p.resolveSub_threads sc
  simp only [step] at hout ⊢
  unfold P.withSub at hout ⊢
  unfold P.labelDesc
  cases hr : p.resolveSub sc with
  | mk p1 r =>
    rw [hr] at hok hinv hg hth hout
    simp only at hok hinv hg hth hout ⊢
    cases r with
    | invalid => exact absurd rfl hinv
    | panic => simp at hout
    | ok c s =>
      simp only at hout ⊢
      obtain ⟨cs, hcs⟩ := subNames_some p1.cats c s (hok c s rfl)
      have hd1 : SDecAll p1 := by
        intro th hth'
        rw [hth] at hth'
        rw [hg]
        exact hd th hth'
      cases hk : p1.frameLabel t str src c s flags with
      | mk p2 o =>
        rw [hk] at hout
        cases o with
        | invalid => simp at hout
        | h vals =>
          simp only [Out.h.injEq] at hout ⊢
          subst hout
          obtain ⟨_, label, file, th2, k, e1, e2, e3, e4, e5⟩ := p1.frameLabel_after hd1 t str src c s flags cs hcs p2 t i hk
          have e1' : p.gstr str = some label := by simpa [P.gstr, hg] using e1
          have e2' : p.optGstr (src.bind (·.1)) = some file := by
            cases hs : src.bind (·.1) with
            | none => rw [hs] at e2; exact e2
            | some g => rw [hs] at e2; simpa [P.optGstr, P.gstr, hg] using e2
          exact ⟨_, th2, k, by simp only [e1', hcs, e2'], e3, e4, e5⟩
        | ok => simp at hout
        | noStack => simp at hout
        | rejected => simp at hout
        | panic => simp at hout
        | bug => simp at hout

end PT
